/-
  C14 — the printed text is the faithful rendering.
  Statements are about the stdout callback `_binson_print_cb` (`printCbV`/`printFoldV`) run over the
  view list a value produces (`viewsOf`, Lemmas/Views.lean); the reference is `render`
  (Spec/Render.lean). The integer and double formatters are parameters (`Fmts`).
  That `_binson_to_string_cb` stores the very same text is C13 (`to_string_ctx`, `to_string_text`).
-/
import Binson.Lemmas.PrintLemmas
import Binson.Lemmas.VerifyValid
namespace Binson

/-- what `binson_parser_print` can be called on: an object or an array -/
def rootIsContainer : Value → Bool
  | .obj _ => true
  | .arr _ => true
  | _ => false

/-- the text the stdout callback produces for the views of a value, started in the initial
    `pstate` 0, is the reference rendering. (It holds for every value; the roots the API can
    produce are the containers, see `text_eq_render_obj` / `text_eq_render_arr`.) -/
theorem text_eq_render (F : Fmts) (v : Value) :
    printFoldV F 0 (viewsOf 0 v) = render F v :=
  ((views_value F v).1 0 (by decide) (by decide)).1

/-- object root -/
theorem text_eq_render_obj (F : Fmts) (fs : Fields) :
    printFoldV F 0 (viewsOf 0 (.obj fs)) = 0x7b :: (renderF F true fs ++ [0x7d]) := by
  rw [text_eq_render, render]

/-- array root -/
theorem text_eq_render_arr (F : Fmts) (xs : Elems) :
    printFoldV F 0 (viewsOf 0 (.arr xs)) = 0x5b :: (renderE F true xs ++ [0x5d]) := by
  rw [text_eq_render, render]

/-- a container root leaves the callback in `pstate` 2 -/
theorem pstate_after_root (F : Fmts) (v : Value) (hroot : rootIsContainer v = true) :
    psFoldV F 0 (viewsOf 0 v) = 2 := by
  have h := ((views_value F v).1 0 (by decide) (by decide)).2
  cases v <;> simp_all [rootIsContainer, endPs]

/-! The state machine, as proved by mutual induction (Lemmas/PrintLemmas.lean `views_value`,
    `views_elems`, `views_fields`), restated per context. -/

/-- a value after its field name (`pstate` 2; in fact any `pstate` other than 4, 5): exactly its
    rendering, no separator; scalars leave `pstate` alone, containers close to 2 -/
theorem text_in_object (F : Fmts) (v : Value) (ps : Nat) (h4 : ps ≠ 4) (h5 : ps ≠ 5) :
    printFoldV F ps (viewsOf 0 v) = render F v ∧
    psFoldV F ps (viewsOf 0 v) = (if rootIsContainer v then 2 else ps) := by
  have h := (views_value F v).1 ps h4 h5
  refine ⟨h.1, ?_⟩
  rw [h.2]
  cases v <;> rfl

/-- a value inside an array (array depth `ad + 1 ≥ 1`): a comma iff an element precedes it
    (`pstate` 5), then its rendering; leaves `pstate` 5 — also after `{}` and `[]` (finding F4) -/
theorem text_in_array (F : Fmts) (v : Value) (ad ps : Nat) (hp : ps = 4 ∨ ps = 5) :
    printFoldV F ps (viewsOf (ad + 1) v) = (if ps = 5 then [0x2c] else []) ++ render F v ∧
    psFoldV F ps (viewsOf (ad + 1) v) = 5 :=
  (views_value F v).2 ad ps hp

/-- the elements of an array, entered with `pstate` 4 (just after '[') or 5 -/
theorem text_of_elems (F : Fmts) (xs : Elems) (ad ps : Nat) (hp : ps = 4 ∨ ps = 5) :
    printFoldV F ps (viewsOfE (ad + 1) xs) = renderE F (decide (ps = 4)) xs ∧
    psFoldV F ps (viewsOfE (ad + 1) xs) = (match xs with | .nil => ps | .cons _ _ => 5) := by
  have h := views_elems F xs ad ps hp
  refine ⟨h.1, ?_⟩
  rw [h.2]
  cases xs <;> rfl

/-- the fields of an object, entered with `pstate` 1 (just after '{') or 2 -/
theorem text_of_fields (F : Fmts) (fs : Fields) (ps : Nat) (hp : ps = 1 ∨ ps = 2) :
    printFoldV F ps (viewsOfF fs) = renderF F (decide (ps = 1)) fs ∧
    psFoldV F ps (viewsOfF fs) = (match fs with | .nil => ps | .cons _ _ _ => 2) := by
  have h := views_fields F fs ps hp
  refine ⟨h.1, ?_⟩
  rw [h.2]
  cases fs <;> rfl

/-- `%.*s` prints a span up to its first NUL; the hex dump is two digits per byte -/
theorem cstr_is_upToNul (s : List UInt8) : cstr s = upToNul s := cstr_eq_upToNul s
theorem hexAll_is_hexText (s : List UInt8) : hexAll s = hexText s := hexAll_eq_hexText s

/-- `{"A":{},"B":[1,{}]}` -/
def c14Sample : Value :=
  .obj (.cons [0x41] (.obj .nil) (.cons [0x42] (.arr (.cons (.int 1) (.cons (.obj .nil) .nil))) .nil))

example : printFoldV stdFmts 0 (viewsOf 0 c14Sample) = render stdFmts c14Sample :=
  text_eq_render stdFmts c14Sample

example : rootIsContainer c14Sample = true := rfl

/-- and the rendering is the expected text `{"A":{},"B":[1,{}]}` (with a one-digit `%lld`) -/
example : render ⟨fun _ => [0x31], fun _ => []⟩ c14Sample =
    [0x7b, 0x22, 0x41, 0x22, 0x3a, 0x7b, 0x7d, 0x2c, 0x22, 0x42, 0x22, 0x3a, 0x5b, 0x31, 0x2c, 0x7b, 0x7d,
     0x5d, 0x7d] := by decide

/-- C14 end to end: for every well-formed document, what `binson_parser_print` sends to stdout (and,
    by `to_string_protocol`, what `to_string` stores) is the reference rendering, from any allocated
    parser object -/
theorem print_is_render (F : Fmts) (g : Parser) (ha : Alloc g) (hmd : g.maxDepth ≤ 255) (root : Root) (v : Value)
    (hwf : wfDoc root g.maxDepth v = true) (hsz : (encode v).length < 2 ^ 63) :
    (print F (init g (encode v).toArray (rootNum root)).1).2.1 = true ∧
    (print F (init g (encode v).toArray (rootNum root)).1).2.2 = render F v := by
  obtain ⟨_, hF, hvt, hvv⟩ := verify_wellformed g ha hmd root v hwf hsz
  unfold print
  refine ⟨hvt, ?_⟩
  show printFold F _ 0 _ = _
  unfold printFold
  rw [hF.buf, hvv]
  exact text_eq_render F v

end Binson
