/-
  C11 — get_raw / parser_to_writer return exactly the bytes of the current container.
  `Reachable`: the pair (machine state, reference cursor) after any protocol-following call sequence on
  any valid document (any preceding navigation history, any container position, any nesting depth).
  `docSpan v n` = the bytes `(encode v).drop start |>.take len` of the node's span.
-/
import Binson.Lemmas.NavCor
namespace Binson

/-- on an un-entered object or array: the span runs from its BEGIN byte to its matching END byte, is the
    encoding of the sub-value and by itself a valid standalone document of that kind (init + verify accept
    it alone at the same max_depth), and the cursor continues with the element that follows -/
theorem c11_raw_container {g : Parser} {root : Root} {v : Value} {p : Parser} {c : Cursor}
    (h : Reachable g root v p c) (hfr : c.frames ≠ []) {n : Node} (hcur : c.cur = some n)
    (hty : n.item.ty = .object ∨ n.item.ty = .array) :
    (getRaw p).2 = (true, ⟨n.item.start, n.item.len⟩) ∧
    (∃ nm, n = annotate nm n.item.start n.value) ∧
    docSpan v n = encode n.value ∧ n.item.len = (encode n.value).length ∧
    ((n.item.ty = .object ∧ ∃ fs, n.value = .obj fs ∧ docSpan v n = 0x40 :: (encFields fs ++ [0x41])) ∨
     (n.item.ty = .array ∧ ∃ xs, n.value = .arr xs ∧ docSpan v n = 0x42 :: (encElems xs ++ [0x43]))) ∧
    wfDoc (rootOf n.value) g.maxDepth n.value = true ∧
    (∀ g', Alloc g' → g'.maxDepth = g.maxDepth →
      (init g' (docSpan v n).toArray (rootNum (rootOf n.value))).2 = true ∧
      (verify (init g' (docSpan v n).toArray (rootNum (rootOf n.value))).1).2.1 = true) ∧
    (getRaw p).1.err = .none ∧ (getRaw p).1.fault = false ∧
    (c.step .raw).1.cur = none ∧ (c.step .raw).1.frames = c.frames ∧
    Reachable g root v (getRaw p).1 (c.step .raw).1 :=
  raw_container h hfr hcur hty

/-- on any other value type (or with an error latched) both return false and change nothing — for ANY parser state -/
theorem c11_raw_other (p : Parser) (W : Writer)
    (h : p.err ≠ .none ∨ ((p.getLvl p.cur).ctype ≠ .object ∧ (p.getLvl p.cur).ctype ≠ .array)) :
    (getRaw p).1 = p ∧ (getRaw p).2.1 = false ∧ parserToWriter p W = (p, W, false) :=
  raw_other p W h

/-- parser_to_writer appends exactly those bytes to the writer -/
theorem c11_to_writer_appends {g : Parser} {root : Root} {v : Value} {p : Parser} {c : Cursor}
    (h : Reachable g root v p c) (hfr : c.frames ≠ []) {n : Node} (hcur : c.cur = some n)
    (hty : n.item.ty = .object ∨ n.item.ty = .array)
    (W : Writer) (he : W.err = .none) (hb : W.bufNull = false) (hroom : W.used + n.item.len ≤ W.cap) (hcap : W.cap < two64) :
    parserToWriter p W = ((getRaw p).1, W.appended (docSpan v n), true) ∧
    (docSpan v n).length = n.item.len ∧
    (W.appended (docSpan v n)).used = W.used + n.item.len ∧ (W.appended (docSpan v n)).err = .none :=
  to_writer_appends h hfr hcur hty W he hb hroom hcap

end Binson
