/-
  C16 — every call terminates and work is linear in the bytes it moves over.
  The model's loop runs on fuel `size - used + 2`; `outOfFuel` is what non-termination of the C
  loop would look like. One loop iteration = one token processed = at most one callback.
-/
import Binson.Lemmas.Safe
import Binson.Lemmas.Cost
import Binson.Model.Transcribe
namespace Binson

/-- `_advance_parsing` never runs out of the fuel `size - used + 2`: every iteration that continues
    has consumed at least one byte. Holds for every buffer content and every scan mode. -/
theorem c16_advance_terminates (p : Parser) (scan : Scan) (sn : Option (List UInt8)) (h : Shape p) :
    (advance p scan sn).outOfFuel = false ∧ (advance p scan sn).p.oof = false :=
  ⟨(advance_spec p scan sn h).fuel, (advance_spec p scan sn h).shape.hno⟩

/-- tokens processed (callbacks) by one `_advance_parsing` call are bounded by the bytes that remain plus one -/
theorem c16_advance_cost (p : Parser) (scan : Scan) (sn : Option (List UInt8)) (h : Shape p) :
    (advance p scan sn).ev.length ≤ (p.size - p.used) + 1 :=
  (advance_spec p scan sn h).ev

/-- verify processes at most `size + 1` tokens -/
theorem c16_verify_cost (p : Parser) (h : Shape p) : (verify p).2.2.length ≤ p.size + 1 := by
  unfold verify
  have hr := reset_shape p h
  have hsz : (reset p).1.size = p.size := by
    unfold reset
    split
    · rfl
    · simp only
      split
      · rfl
      · simp only [Parser.touchBuf]
        repeat' split
        all_goals rfl
  generalize reset p = r at hr hsz
  obtain ⟨q, ok⟩ := r
  simp only at hr hsz ⊢
  cases ok
  · simp
  · simp only [Bool.not_true, Bool.false_eq_true, if_false]
    have := (advance_spec q .verify none hr).ev
    split <;> (simp only; omega)

/-- no public call ever exhausts the loop fuel, from any allocated object and for any call sequence -/
theorem c16_run_terminates (g : Parser) (ha : Alloc g) (buf : Array UInt8) (t : Nat) (ht : t = 1 ∨ t = 2)
    (hb : buf.size < 2 ^ 63) (ops : List Op) (hv : ∀ op ∈ ops, op.Valid) :
    (run (init g buf t).1 ops).oof = false :=
  (run_shape ops _ (init_shape g ha buf t ht hb) hv).hno


/-! ### The tight form: tokens processed vs bytes actually advanced over (Lemmas/Cost*.lean) -/

/-- the cursor never moves backwards across a loop iteration, in any mode, on arbitrary bytes: the only
    backwards move in the code (the lookup overshoot) un-reads exactly the one name read in the same iteration -/
theorem c16_cursor_never_goes_back (st : LoopSt) (sn : Option (List UInt8)) (oa od : Nat)
    (h : Shape st.p) (he : st.p.err = .none) : st.p.used ≤ (iter st sn oa od).1.p.used :=
  iter_used_mono st sn oa od h he

/-- one `_advance_parsing` call: tokens processed ≤ bytes advanced over + 1 (every mode, every lookup name, arbitrary bytes) -/
theorem c16_advance_cost_tight (p : Parser) (scan : Scan) (sn : Option (List UInt8)) (h : Shape p) :
    (advance p scan sn).ev.length + p.used ≤ (advance p scan sn).p.used + 1 ∧ p.used ≤ (advance p scan sn).p.used :=
  ⟨advance_cost_tight p scan sn h, advance_used_mono p scan sn h⟩

/-- the public calls that are one `_advance_parsing` call: tokens ≤ bytes advanced over + 1; get_raw (two calls): + 2 -/
theorem c16_call_costs (p : Parser) (h : Shape p) :
    (nextC p).2.2 + p.used ≤ (nextC p).1.used + 1 ∧
    (goIntoObjectC p).2.2 + p.used ≤ (goIntoObjectC p).1.used + 1 ∧
    (goIntoArrayC p).2.2 + p.used ≤ (goIntoArrayC p).1.used + 1 ∧
    (leaveObjectC p).2.2 + p.used ≤ (leaveObjectC p).1.used + 1 ∧
    (leaveArrayC p).2.2 + p.used ≤ (leaveArrayC p).1.used + 1 ∧
    (getRawC p).2.2.2 + p.used ≤ (getRawC p).1.used + 2 :=
  ⟨next_tokens p h, goIntoObject_tokens p h, goIntoArray_tokens p h, leaveObject_tokens p h, leaveArray_tokens p h, getRaw_tokens p h⟩

/-- a field lookup (a loop of `_advance_parsing` calls): the loop always terminates within the model's fuel
    (so the fuel is not a restriction), tokens ≤ 2 · bytes advanced over + 2.
    (Factor 2 because a call that stops on an un-entered container sees its BEGIN token again on the next call;
    a factor-1 bound for lookups is NOT claimed as a theorem — it is false for lookups issued inside arrays,
    which the documented protocol excludes.) -/
theorem c16_field_cost (p : Parser) (nm : List UInt8) (h : Shape p) :
    (fieldC p nm).2.2 + 2 * p.used ≤ 2 * (fieldC p nm).1.used + 2 ∧ (∀ k, fieldLoop (p.size + 2 + k) p nm = field p nm) :=
  ⟨field_tokens p nm h, field_terminates p nm h⟩

/-- verify and any complete traversal cost time linear in the buffer length: for ANY sequence of navigation calls
    from the start of the buffer, total tokens ≤ 2·size + 2·(number of calls); without lookups ≤ size + 2·(number of calls) -/
theorem c16_traversal_linear (ops : List Op) (p : Parser) (h : Shape p) (h0 : p.used = 0) (hn : ∀ op ∈ ops, op.IsNav) :
    (runC p ops).2 ≤ 2 * (run p ops).used + 2 * ops.length ∧
    (runC p ops).2 ≤ 2 * p.size + 2 * ops.length ∧
    ((∀ op ∈ ops, op.isField = false) →
      (runC p ops).2 ≤ (run p ops).used + 2 * ops.length ∧ (runC p ops).2 ≤ p.size + 2 * ops.length) :=
  traversal_linear ops p h h0 hn

/-- a failed lookup re-reads at most the one name it overshot: its result is that of its last `_advance_parsing`
    call, whose cursor either did not go back at all, or went back exactly to the start of the last token it read,
    which is a name (string token) greater than the name looked for -/
theorem c16_failed_lookup_rereads_one_name (p : Parser) (nm : List UInt8) (h : Shape p) (he : (field p nm).1.err = .none) :
    (field p nm).1 = (advance (fieldLast (p.size + 2) p nm) .value (some nm)).p ∧
    p.used ≤ (fieldLast (p.size + 2) p nm).used ∧
    (fieldLast (p.size + 2) p nm).used ≤ (advanceLast (fieldLast (p.size + 2) p nm) .value (some nm)).p.used :=
  ⟨(failed_lookup_rereads_one_name p nm h he).1, (failed_lookup_rereads_one_name p nm h he).2.1, (failed_lookup_rereads_one_name p nm h he).2.2.1⟩

/-- non-vacuity: a shaped parser on a real document -/
example : Shape (init (garbageParser 2) #[0x40, 0x14, 0x01, 0x61, 0x44, 0x41] 1).1 :=
  init_shape _ ⟨rfl, by decide, rfl, rfl⟩ _ 1 (Or.inl rfl) (by decide)

end Binson
