/-
  Lemmas about the print model (Model/Print.lean) on structural view lists (Lemmas/Views.lean):
  the separator state machine `pstate` of `_binson_print_cb` renders a value tree exactly as
  Spec/Render.lean does. Used by Props/C14.lean (and, for the text, by Props/C13.lean).
-/
import Binson.Lemmas.Views
namespace Binson

/-! ### `%.*s` and the hex dump are the spec's `upToNul` / `hexText` -/

theorem cstr_eq_upToNul (s : List UInt8) : cstr s = upToNul s := by
  induction s with
  | nil => rfl
  | cons b r ih =>
    unfold cstr at ih ⊢
    by_cases h : b = 0
    · simp [List.takeWhile, upToNul, h]
    · simp only [ne_eq, decide_not] at ih
      simp [List.takeWhile, upToNul, h, ih]

theorem hexAll_eq_hexText (s : List UInt8) : hexAll s = hexText s := by
  induction s with
  | nil => rfl
  | cons b r ih => simp [hexAll, hexText, ih]

/-! ### the fold: final `pstate`, append -/

/-- the `pstate` the stdout callback is left in after a list of views -/
def psFoldV (F : Fmts) : Nat → List EvView → Nat
  | ps, [] => ps
  | ps, e :: r => psFoldV F (printCbV F ps e).1 r

theorem printFoldV_append (F : Fmts) (ps : Nat) (a b : List EvView) :
    printFoldV F ps (a ++ b) = printFoldV F ps a ++ printFoldV F (psFoldV F ps a) b := by
  induction a generalizing ps with
  | nil => rfl
  | cons e r ih => simp [printFoldV, psFoldV, ih]

theorem psFoldV_append (F : Fmts) (ps : Nat) (a b : List EvView) :
    psFoldV F ps (a ++ b) = psFoldV F (psFoldV F ps a) b := by
  induction a generalizing ps with
  | nil => rfl
  | cons e r ih => simp [psFoldV, ih]

theorem printFoldV_cons (F : Fmts) (ps : Nat) (e : EvView) (r : List EvView) :
    printFoldV F ps (e :: r) = (printCbV F ps e).2 ++ printFoldV F (printCbV F ps e).1 r := rfl

theorem psFoldV_cons (F : Fmts) (ps : Nat) (e : EvView) (r : List EvView) :
    psFoldV F ps (e :: r) = psFoldV F (printCbV F ps e).1 r := rfl

theorem printFoldV_nil (F : Fmts) (ps : Nat) : printFoldV F ps [] = [] := rfl
theorem psFoldV_nil (F : Fmts) (ps : Nat) : psFoldV F ps [] = ps := rfl

/-! ### the separator state machine on a value tree -/

/-- `pstate` after a value printed in object context (or as the root): containers close to 2 -/
def endPs : Value → Nat → Nat
  | .arr _, _ => 2
  | .obj _, _ => 2
  | _, ps => ps

def endPsE : Elems → Nat → Nat
  | .nil, ps => ps
  | .cons _ _, _ => 5

def endPsF : Fields → Nat → Nat
  | .nil, ps => ps
  | .cons _ _ _, _ => 2

def commaIf5 (ps : Nat) : List UInt8 := if ps = 5 then [0x2c] else []

theorem cb_scalar_obj (F : Fmts) (ps : Nat) (h4 : ps ≠ 4) (h5 : ps ≠ 5) (e : EvView)
    (ht : e.tok = .boolean ∨ e.tok = .integer ∨ e.tok = .double ∨ e.tok = .string) :
    printCbV F ps e = (ps, scalarText F e) := by
  rcases ht with h | h | h | h <;> simp [printCbV, h, h4, h5]

theorem cb_scalar_arr (F : Fmts) (ps : Nat) (hp : ps = 4 ∨ ps = 5) (e : EvView)
    (ht : e.tok = .boolean ∨ e.tok = .integer ∨ e.tok = .double ∨ e.tok = .string) :
    printCbV F ps e = (5, commaIf5 ps ++ scalarText F e) := by
  rcases hp with hp | hp <;> subst hp <;> rcases ht with h | h | h | h <;> simp [printCbV, h, commaIf5]

theorem scalarText_bool (F : Fmts) (b : Bool) :
    scalarText F ⟨.boolean, 0, [], [], .bool b⟩ = strBytes (if b then "true" else "false") := by
  cases b <;> rfl

theorem scalarText_str (F : Fmts) (s : List UInt8) :
    scalarText F ⟨.string, 0, [], s, .none⟩ = quoted s := by
  simp [scalarText, quoted, cstr_eq_upToNul, quote]

theorem single_obj (F : Fmts) (ps : Nat) (h4 : ps ≠ 4) (h5 : ps ≠ 5) (e : EvView)
    (ht : e.tok = .boolean ∨ e.tok = .integer ∨ e.tok = .double ∨ e.tok = .string) :
    printFoldV F ps [e] = scalarText F e ∧ psFoldV F ps [e] = ps := by
  simp [printFoldV, psFoldV, cb_scalar_obj F ps h4 h5 e ht]

theorem single_arr (F : Fmts) (ps : Nat) (hp : ps = 4 ∨ ps = 5) (e : EvView)
    (ht : e.tok = .boolean ∨ e.tok = .integer ∨ e.tok = .double ∨ e.tok = .string) :
    printFoldV F ps [e] = commaIf5 ps ++ scalarText F e ∧ psFoldV F ps [e] = 5 := by
  simp [printFoldV, psFoldV, cb_scalar_arr F ps hp e ht]

mutual
/-- a value after its field name (or as the root), and a value inside an array -/
theorem views_value (F : Fmts) : ∀ (v : Value),
    (∀ ps, ps ≠ 4 → ps ≠ 5 →
      printFoldV F ps (viewsOf 0 v) = render F v ∧ psFoldV F ps (viewsOf 0 v) = endPs v ps) ∧
    (∀ ad ps, ps = 4 ∨ ps = 5 →
      printFoldV F ps (viewsOf (ad + 1) v) = commaIf5 ps ++ render F v ∧
      psFoldV F ps (viewsOf (ad + 1) v) = 5)
  | .bool b => by
    refine ⟨fun ps h4 h5 => ?_, fun ad ps hp => ?_⟩
    · have h := single_obj F ps h4 h5 ⟨.boolean, 0, [], [], .bool b⟩ (Or.inl rfl)
      rw [scalarText_bool] at h
      simpa only [viewsOf, render, endPs] using h
    · have h := single_arr F ps hp ⟨.boolean, 0, [], [], .bool b⟩ (Or.inl rfl)
      rw [scalarText_bool] at h
      simpa only [viewsOf, render] using h
  | .int i => by
    refine ⟨fun ps h4 h5 => ?_, fun ad ps hp => ?_⟩
    · exact single_obj F ps h4 h5 ⟨.integer, 0, [], [], .int i⟩ (Or.inr (Or.inl rfl))
    · exact single_arr F ps hp ⟨.integer, 0, [], [], .int i⟩ (Or.inr (Or.inl rfl))
  | .dbl d => by
    refine ⟨fun ps h4 h5 => ?_, fun ad ps hp => ?_⟩
    · exact single_obj F ps h4 h5 ⟨.double, 0, [], [], .dbl d.toNat⟩ (Or.inr (Or.inr (Or.inl rfl)))
    · exact single_arr F ps hp ⟨.double, 0, [], [], .dbl d.toNat⟩ (Or.inr (Or.inr (Or.inl rfl)))
  | .str s => by
    refine ⟨fun ps h4 h5 => ?_, fun ad ps hp => ?_⟩
    · have h := single_obj F ps h4 h5 ⟨.string, 0, [], s, .none⟩ (Or.inr (Or.inr (Or.inr rfl)))
      rw [scalarText_str] at h
      simpa only [viewsOf, render, endPs] using h
    · have h := single_arr F ps hp ⟨.string, 0, [], s, .none⟩ (Or.inr (Or.inr (Or.inr rfl)))
      rw [scalarText_str] at h
      simpa only [viewsOf, render] using h
  | .bytes s => by
    refine ⟨fun ps h4 h5 => ?_, fun ad ps hp => ?_⟩
    · simp [viewsOf, printFoldV, psFoldV, printCbV, h4, h5, render, endPs, hexAll_eq_hexText, quote]
    · rcases hp with hp | hp <;> subst hp <;>
        simp [viewsOf, printFoldV, psFoldV, printCbV, render, commaIf5, hexAll_eq_hexText, quote]
  | .arr xs => by
    refine ⟨fun ps h4 h5 => ?_, fun ad ps hp => ?_⟩
    · have hE := views_elems F xs 0 4 (Or.inl rfl)
      have hb : printCbV F ps ⟨.arrBegin, 0, [], [], .none⟩ = (4, [0x5b]) := by
        simp [printCbV, h5]
      simp only [viewsOf, printFoldV_cons, psFoldV_cons, printFoldV_append, psFoldV_append, hb,
        hE.1, hE.2, printFoldV_nil, psFoldV_nil, render, endPs]
      have he : printCbV F (endPsE xs 4) ⟨.arrEnd, 0, [], [], .none⟩ = (2, [0x5d]) := by
        simp [printCbV]
      rw [he]
      simp
    · have hE := views_elems F xs (ad + 1) 4 (Or.inl rfl)
      have hb : printCbV F ps ⟨.arrBegin, 0, [], [], .none⟩ = (4, commaIf5 ps ++ [0x5b]) := by
        rcases hp with hp | hp <;> subst hp <;> simp [printCbV, commaIf5]
      simp only [viewsOf, printFoldV_cons, psFoldV_cons, printFoldV_append, psFoldV_append, hb,
        hE.1, hE.2, printFoldV_nil, psFoldV_nil, render]
      have he : printCbV F (endPsE xs 4) ⟨.arrEnd, ad + 1, [], [], .none⟩ = (5, [0x5d]) := by
        cases xs <;> simp [printCbV, endPsE]
      rw [he]
      simp
  | .obj fs => by
    refine ⟨fun ps h4 h5 => ?_, fun ad ps hp => ?_⟩
    · have hF := views_fields F fs 1 (Or.inl rfl)
      have hb : printCbV F ps ⟨.objBegin, 0, [], [], .none⟩ = (1, [0x7b]) := by
        simp [printCbV, h5]
      simp only [viewsOf, printFoldV_cons, psFoldV_cons, printFoldV_append, psFoldV_append, hb,
        hF.1, hF.2, printFoldV_nil, psFoldV_nil, render, endPs]
      have he : printCbV F (endPsF fs 1) ⟨.objEnd, 0, [], [], .none⟩ = (2, [0x7d]) := by
        cases fs <;> simp [printCbV, endPsF]
      rw [he]
      simp
    · have hF := views_fields F fs 1 (Or.inl rfl)
      have hb : printCbV F ps ⟨.objBegin, 0, [], [], .none⟩ = (1, commaIf5 ps ++ [0x7b]) := by
        rcases hp with hp | hp <;> subst hp <;> simp [printCbV, commaIf5]
      simp only [viewsOf, printFoldV_cons, psFoldV_cons, printFoldV_append, psFoldV_append, hb,
        hF.1, hF.2, printFoldV_nil, psFoldV_nil, render]
      have he : printCbV F (endPsF fs 1) ⟨.objEnd, ad + 1, [], [], .none⟩ = (5, [0x7d]) := by
        cases fs <;> simp [printCbV, endPsF]
      rw [he]
      simp
/-- the elements of an array (`ad + 1 ≥ 1` is the array depth they sit at) -/
theorem views_elems (F : Fmts) : ∀ (xs : Elems) (ad ps : Nat), ps = 4 ∨ ps = 5 →
    printFoldV F ps (viewsOfE (ad + 1) xs) = renderE F (decide (ps = 4)) xs ∧
    psFoldV F ps (viewsOfE (ad + 1) xs) = endPsE xs ps
  | .nil, ad, ps, _ => by simp [viewsOfE, printFoldV, psFoldV, renderE, endPsE]
  | .cons v r, ad, ps, hp => by
    have hV := (views_value F v).2 ad ps hp
    have hR := views_elems F r ad 5 (Or.inr rfl)
    have h5 : endPsE r 5 = 5 := by cases r <;> rfl
    rw [h5] at hR
    simp only [viewsOfE, printFoldV_append, psFoldV_append, hV.1, hV.2, hR.1, hR.2, renderE, endPsE]
    rcases hp with hp | hp <;> subst hp <;> simp [commaIf5]
/-- the fields of an object -/
theorem views_fields (F : Fmts) : ∀ (fs : Fields) (ps : Nat), ps = 1 ∨ ps = 2 →
    printFoldV F ps (viewsOfF fs) = renderF F (decide (ps = 1)) fs ∧
    psFoldV F ps (viewsOfF fs) = endPsF fs ps
  | .nil, ps, _ => by simp [viewsOfF, printFoldV, psFoldV, renderF, endPsF]
  | .cons n v r, ps, hp => by
    have hV := (views_value F v).1 2 (by decide) (by decide)
    have hR := views_fields F r 2 (Or.inr rfl)
    have h2' : endPsF r 2 = 2 := by cases r <;> rfl
    rw [h2'] at hR
    have h2 : endPs v 2 = 2 := by cases v <;> rfl
    have hn : printCbV F ps ⟨.fieldName, 0, n, [], .none⟩ =
        (2, (if ps = 2 then [0x2c] else []) ++ (quoted n ++ [0x3a])) := by
      rcases hp with hp | hp <;> subst hp <;> simp [printCbV, quoted, cstr_eq_upToNul, quote]
    simp only [viewsOfF, printFoldV_cons, psFoldV_cons, printFoldV_append, psFoldV_append, hn,
      hV.1, hV.2, h2, hR.1, hR.2, renderF, endPsF]
    rcases hp with hp | hp <;> subst hp <;> simp
end

end Binson

