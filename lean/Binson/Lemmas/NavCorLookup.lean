/-
  Layer 4, corollaries, part 3: C07 — field lookups, in the words of the property text.
  Inside an object, `binson_parser_field_with_length` finds a name iff a field with exactly those
  bytes (full length, any byte values) lies at or after the cursor; a hit makes that field current,
  a miss raises no error and passes only fields with smaller names; lookups in ascending order of
  names find exactly the names that are present.
-/
import Binson.Lemmas.NavCorNames
namespace Binson

/-! ### the cursor of a reachable pair inside an object -/

/-- inside an object the invariant is in its `run` case with no array open in the current entry -/
theorem Agree.objTop {p : Parser} {c : Cursor} (h : Agree p c) (hin : c.inObject = true) :
    ∃ pv fs Ls pend, Run p c ⟨pv, some fs, []⟩ Ls pend := by
  cases h with
  | start root v hc hF hmd hwf => subst hc; cases hin
  | done hf hd => unfold Cursor.inObject at hin; rw [hf] at hin; cases hin
  | run L Ls pend h =>
    obtain ⟨pv, b, arrs⟩ := L
    cases arrs with
    | cons xs ar =>
      have hfr := h.frames
      rw [flat_arr] at hfr
      rw [Cursor.inObject_of_frames hfr] at hin
      cases hin
    | nil =>
      obtain ⟨fs, hb⟩ := h.top_obj rfl
      simp only at hb
      subst hb
      exact ⟨pv, fs, Ls, pend, h⟩

/-- cursor well-formedness: the names still ahead in an object are strictly ascending -/
theorem Agree.names_asc {p : Parser} {c : Cursor} (h : Agree p c) (hin : c.inObject = true) :
    ascNames c.namesAhead = true := by
  obtain ⟨pv, fs, Ls, pend, hr⟩ := h.objTop hin
  have hfr := hr.frames
  rw [flat_obj] at hfr
  rw [Cursor.namesAhead_of_frames hfr]
  show ascNames ((annotateF _ fs).map nameOf) = true
  rw [navc_names_annotateF]
  exact navc_asc_of_wf fs pv (hr.top.base fs rfl).1

theorem Cursor.frames_ne_of_inObject {c : Cursor} (h : c.inObject = true) : c.frames ≠ [] := by
  obtain ⟨f, fs, hf, _⟩ := Cursor.frames_of_inObject h
  rw [hf]; exact List.cons_ne_nil _ _

theorem machNav_field (p : Parser) (nm : Bytes) : machNav p (.field nm) = ((field p nm).1, (field p nm).2, none) := rfl

section
variable {g : Parser} {root : Root} {v : Value} {p : Parser} {c : Cursor}

/-- the pair after a lookup is reachable again, still inside the same object -/
theorem lookup_reachable (h : Reachable g root v p c) (hin : c.inObject = true) (nm : Bytes) :
    Reachable g root v (field p nm).1 (c.step (.field nm)).1 ∧ (c.step (.field nm)).1.inObject = true := by
  have hasc := (reachable_agree h).names_asc hin
  exact ⟨reachable_step h (.field nm) hin,
    by rw [(Cursor.step_field_names (Cursor.frames_ne_of_inObject hin) hasc nm).2.2.2]; exact hin⟩

/-- the machine's answer is the reference cursor's -/
theorem lookup_ok_eq (h : Reachable g root v p c) (hin : c.inObject = true) (nm : Bytes) :
    (field p nm).2 = (c.step (.field nm)).2.ok :=
  (reachable_obs h (.field nm) hin).1

/-- **C07.1** a lookup succeeds iff a field with exactly these bytes as its name lies at or after
    the cursor (any byte string: embedded 0x00, bytes ≥ 0x80; compared in full length) -/
theorem lookup_iff (h : Reachable g root v p c) (hin : c.inObject = true) (nm : Bytes) :
    (field p nm).2 = true ↔ nm ∈ c.namesAhead := by
  rw [lookup_ok_eq h hin]
  exact (Cursor.step_field_names (Cursor.frames_ne_of_inObject hin) ((reachable_agree h).names_asc hin) nm).1

/-- a lookup never raises an error (nor a fault) inside an object -/
theorem lookup_no_error (h : Reachable g root v p c) (hin : c.inObject = true) (nm : Bytes) :
    (field p nm).1.err = .none ∧ (field p nm).1.fault = false :=
  ⟨(reachable_obs h (.field nm) hin).2.2.1, (reachable_obs h (.field nm) hin).2.2.2.1⟩

/-- **C07.2** after a hit the getters refer to the field that was asked for: it is a field ahead of
    the cursor with that name (`fieldAhead`: the only one), all getters answer its decoded item,
    the cursor continues behind it (the names still ahead are those strictly greater), and the new
    pair is reachable, so everything holds again -/
theorem lookup_hit_item (h : Reachable g root v p c) (hin : c.inObject = true) (nm : Bytes)
    (hfound : (field p nm).2 = true) :
    ∃ f fs n, c.frames = f :: fs ∧ n ∈ f.rest ∧ nameOf n = nm ∧ c.fieldAhead nm = some n ∧
      ItemMatches (field p nm).1 n.item ∧
      (c.step (.field nm)).1.cur = some n ∧
      (c.step (.field nm)).1.namesAhead = c.namesAhead.filter (fun x => bytesLt nm x) ∧
      (c.step (.field nm)).1.inObject = true ∧
      Reachable g root v (field p nm).1 (c.step (.field nm)).1 := by
  have hne := Cursor.frames_ne_of_inObject hin
  have hasc := (reachable_agree h).names_asc hin
  obtain ⟨s1, s2, s3⟩ := Cursor.step_field_cur hne hasc nm
  rw [lookup_ok_eq h hin, s3] at hfound
  cases hx : c.fieldAhead nm with
  | none => rw [hx] at hfound; cases hfound
  | some n =>
    obtain ⟨f, fs, hf, hm, hn⟩ := Cursor.fieldAhead_some hx
    rw [hx] at s1 s2
    have hit := (reachable_obs h (.field nm) hin).2.2.2.2.2.2 n.item s2
    rw [machNav_field] at hit
    obtain ⟨r1, r2⟩ := lookup_reachable h hin nm
    exact ⟨f, fs, n, hf, hm, hn, rfl, hit, s1, (Cursor.step_field_names hne hasc nm).2.1, r2, r1⟩

/-- **C07.3** a miss raises no error and moves the cursor only past fields with smaller names:
    what is still ahead are exactly the names not smaller than `nm` (equivalently, the smaller ones
    were dropped from the front); nothing is current; the new pair is reachable -/
theorem lookup_miss_moves_only_smaller (h : Reachable g root v p c) (hin : c.inObject = true) (nm : Bytes)
    (hmiss : (field p nm).2 = false) :
    (field p nm).1.err = .none ∧
    (c.step (.field nm)).1.namesAhead = c.namesAhead.filter (fun x => !bytesLt x nm) ∧
    (c.step (.field nm)).1.namesAhead = c.namesAhead.dropWhile (fun x => bytesLt x nm) ∧
    (c.step (.field nm)).1.cur = none ∧
    (c.step (.field nm)).1.inObject = true ∧
    Reachable g root v (field p nm).1 (c.step (.field nm)).1 := by
  have hne := Cursor.frames_ne_of_inObject hin
  have hasc := (reachable_agree h).names_asc hin
  rw [lookup_ok_eq h hin] at hmiss
  obtain ⟨e1, e2⟩ := (Cursor.step_field_names hne hasc nm).2.2.1 hmiss
  obtain ⟨r1, r2⟩ := lookup_reachable h hin nm
  exact ⟨(lookup_no_error h hin nm).1, e1, by rw [e1, navc_dropWhile_eq_filter nm _ hasc], e2, r2, r1⟩

/-- hit or miss, the names still ahead after looking up `nm` are those strictly greater than `nm` -/
theorem lookup_names_after (h : Reachable g root v p c) (hin : c.inObject = true) (nm : Bytes) :
    (c.step (.field nm)).1.namesAhead = c.namesAhead.filter (fun x => bytesLt nm x) :=
  (Cursor.step_field_names (Cursor.frames_ne_of_inObject hin) ((reachable_agree h).names_asc hin) nm).2.1

/-- **C07.4** any series of lookups in strictly ascending order of names finds exactly the names
    that are present, whatever absent names are asked for in between.
    (Strictness is needed: `#eval` on `{"a":..}` shows that looking up "a" twice gives
    `[true, false]` — the first hit consumes the field.) -/
theorem lookup_series : ∀ (nms : List Bytes) {p : Parser} {c : Cursor}, Reachable g root v p c → c.inObject = true →
    ascNames nms = true → (lookups p nms).2 = nms.map (fun nm => decide (nm ∈ c.namesAhead))
  | [], _, _, _, _, _ => rfl
  | nm :: r, p, c, h, hin, hasc => by
    obtain ⟨hgt, hr⟩ := navc_asc_cons r nm hasc
    obtain ⟨r1, r2⟩ := lookup_reachable h hin nm
    have ih := lookup_series r r1 r2 hr
    have e0 : (lookups p (nm :: r)).2 = (field p nm).2 :: (lookups (field p nm).1 r).2 := rfl
    rw [e0, ih, List.map_cons]
    congr 1
    · cases hf : (field p nm).2 with
      | true => exact (decide_eq_true ((lookup_iff h hin nm).mp hf)).symm
      | false =>
        refine (decide_eq_false ?_).symm
        intro hm
        have := (lookup_iff h hin nm).mpr hm
        rw [hf] at this; cases this
    · apply List.map_congr_left
      intro x hx
      rw [lookup_names_after h hin nm]
      exact decide_eq_decide.mpr (navc_mem_filter_gt _ (hgt x hx))

/-- **C07.5** `binson_parser_field_ensure_with_length`: true iff the field is found and has the
    requested type; found with another type: false and `BINSON_ERROR_WRONG_TYPE`; not found: false
    and no error -/
theorem lookup_ensure (h : Reachable g root v p c) (hin : c.inObject = true) (nm : Bytes) (t : Ty) :
    ((fieldEnsure p nm t).2 = true ↔ ∃ n, c.fieldAhead nm = some n ∧ n.item.ty = t) ∧
    (∀ n, c.fieldAhead nm = some n → n.item.ty = t →
      fieldEnsure p nm t = ((field p nm).1, true) ∧ (fieldEnsure p nm t).1.err = .none) ∧
    (∀ n, c.fieldAhead nm = some n → n.item.ty ≠ t →
      (fieldEnsure p nm t).2 = false ∧ (fieldEnsure p nm t).1.err = .wrongType) ∧
    (nm ∉ c.namesAhead → fieldEnsure p nm t = ((field p nm).1, false) ∧ (fieldEnsure p nm t).1.err = .none) := by
  have hne := Cursor.frames_ne_of_inObject hin
  have hasc := (reachable_agree h).names_asc hin
  obtain ⟨s1, s2, s3⟩ := Cursor.step_field_cur hne hasc nm
  have hok := lookup_ok_eq h hin nm
  have herr := (lookup_no_error h hin nm).1
  have hfe : fieldEnsure p nm t = (if !(field p nm).2 then ((field p nm).1, false) else
      if t = getType (field p nm).1 then ((field p nm).1, true) else ({ (field p nm).1 with err := .wrongType }, false)) := rfl
  have hsome : ∀ n, c.fieldAhead nm = some n → (field p nm).2 = true ∧ getType (field p nm).1 = n.item.ty := by
    intro n hx
    rw [hx] at s2 s3
    have hit := (reachable_obs h (.field nm) hin).2.2.2.2.2.2 n.item s2
    rw [machNav_field] at hit
    exact ⟨by rw [hok, s3]; rfl, hit.ty⟩
  have hA : ∀ n, c.fieldAhead nm = some n → n.item.ty = t →
      fieldEnsure p nm t = ((field p nm).1, true) ∧ (fieldEnsure p nm t).1.err = .none := by
    intro n hx ht
    obtain ⟨a, b⟩ := hsome n hx
    have e : fieldEnsure p nm t = ((field p nm).1, true) := by
      rw [hfe, a, b, ht]; simp
    exact ⟨e, by rw [e]; exact herr⟩
  have hB : ∀ n, c.fieldAhead nm = some n → n.item.ty ≠ t →
      (fieldEnsure p nm t).2 = false ∧ (fieldEnsure p nm t).1.err = .wrongType := by
    intro n hx ht
    obtain ⟨a, b⟩ := hsome n hx
    have e : fieldEnsure p nm t = ({ (field p nm).1 with err := .wrongType }, false) := by
      rw [hfe, a, b]
      simp only [Bool.not_true, Bool.false_eq_true, if_false]
      rw [if_neg (fun e => ht e.symm)]
    rw [e]; exact ⟨rfl, rfl⟩
  have hC : nm ∉ c.namesAhead → fieldEnsure p nm t = ((field p nm).1, false) ∧ (fieldEnsure p nm t).1.err = .none := by
    intro hn
    have a : (field p nm).2 = false := by
      cases hf : (field p nm).2 with
      | false => rfl
      | true => exact absurd ((lookup_iff h hin nm).mp hf) hn
    have e : fieldEnsure p nm t = ((field p nm).1, false) := by rw [hfe, a]; simp
    exact ⟨e, by rw [e]; exact herr⟩
  refine ⟨⟨?_, fun ⟨n, hx, ht⟩ => by rw [(hA n hx ht).1]⟩, hA, hB, hC⟩
  intro ht
  cases hx : c.fieldAhead nm with
  | some n =>
    by_cases hty : n.item.ty = t
    · exact ⟨n, rfl, hty⟩
    · rw [(hB n hx hty).1] at ht; cases ht
  | none =>
    have hn : nm ∉ c.namesAhead := by
      intro hm
      have := (Cursor.fieldAhead_isSome c nm).mpr hm
      rw [hx] at this; cases this
    rw [(hC hn).1] at ht; cases ht

end

end Binson
