/-
  Spec layer, part 5: what "field order on the wire is bytewise ascending regardless of
  insertion order" means for a tree given in insertion order: per object, the distinct names
  ascending, each with the value of its last insertion.
-/
import Binson.Spec.Value
namespace Binson

def Fields.toList : Fields → List (Bytes × Value)
  | .nil => []
  | .cons n v r => (n, v) :: r.toList

def Fields.ofList : List (Bytes × Value) → Fields
  | [] => .nil
  | (n, v) :: r => .cons n v (Fields.ofList r)

/-- insert a name into an ascending duplicate-free list -/
def insName (k : Bytes) : List Bytes → List Bytes
  | [] => [k]
  | n :: r => if bytesLt k n then k :: n :: r else if bytesLt n k then n :: insName k r else n :: r

def sortedNames (l : List (Bytes × Value)) : List Bytes := l.foldl (fun acc kv => insName kv.1 acc) []

def lastValue (k : Bytes) (l : List (Bytes × Value)) : Option Value :=
  (l.reverse.find? fun kv => kv.1 = k).map (·.2)

mutual
def sortKeys : Value → Value
  | .obj fs => .obj (sortKeysF fs)
  | .arr xs => .arr (sortKeysE xs)
  | v => v
/-- children canonicalised first (structurally), then names deduplicated and ordered -/
def sortKeysF (fs : Fields) : Fields :=
  let l := sortKeysL fs
  Fields.ofList ((sortedNames l).filterMap fun k => (lastValue k l).map fun v => (k, v))
def sortKeysL : Fields → List (Bytes × Value)
  | .nil => []
  | .cons n v r => (n, sortKeys v) :: sortKeysL r
def sortKeysE : Elems → Elems
  | .nil => .nil
  | .cons v r => .cons (sortKeys v) (sortKeysE r)
end

end Binson
