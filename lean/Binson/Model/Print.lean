/-
  Machine model, part 5: the two print callbacks and `binson_parser_print` /
  `binson_parser_to_string` (src/binson_parser.c 456-700), as folds over the callback log.
  `snprintf` contract: store min(len, avail-1) bytes and a NUL if avail > 0, return len.
-/
import Binson.Model.Api
import Binson.Model.Fmt
import Binson.Spec.Render
namespace Binson

/-- what `%.*s` prints of a byte span: up to the first 0x00 -/
def cstr (s : List UInt8) : List UInt8 := s.takeWhile (· ≠ 0)

/-- what the print callbacks look at in `*parser->current_state` and the buffer -/
structure EvView where
  tok : Tok
  ad : Nat                 -- `state->array_depth`
  name : List UInt8        -- bytes of `state->current_name`
  span : List UInt8        -- bytes of `state->current_value.string_value` / `bytes_value`
  val : Val
  deriving Repr, Inhabited

def evName (buf : Array UInt8) (l : Level) : List UInt8 :=
  match l.name with
  | some s => (buf.extract s.off (s.off + s.len)).toList
  | none => []
def evSpan (buf : Array UInt8) (l : Level) : List UInt8 :=
  match l.val with
  | .span s => (buf.extract s.off (s.off + s.len)).toList
  | _ => []

/-- exactly the fields each `case` of the callbacks reads; everything else is left at its default,
    so that stale contents of the level cannot matter -/
def view (buf : Array UInt8) (e : Event) : EvView :=
  match e.1 with
  | .fieldName => ⟨.fieldName, 0, evName buf e.2, [], .none⟩
  | .string => ⟨.string, 0, [], evSpan buf e.2, .none⟩
  | .bytes => ⟨.bytes, 0, [], evSpan buf e.2, .none⟩
  | .boolean => ⟨.boolean, 0, [], [], e.2.val⟩
  | .integer => ⟨.integer, 0, [], [], e.2.val⟩
  | .double => ⟨.double, 0, [], [], e.2.val⟩
  | .objEnd => ⟨.objEnd, e.2.ad, [], [], .none⟩
  | .arrEnd => ⟨.arrEnd, e.2.ad, [], [], .none⟩
  | t => ⟨t, 0, [], [], .none⟩

def quote : UInt8 := 0x22

/-- text of a scalar token, shared by both callbacks -/
def scalarText (F : Fmts) (v : EvView) : List UInt8 :=
  match v.tok with
  | .string => quote :: (cstr v.span ++ [quote])
  | .boolean => (match v.val with | .bool true => strBytes "true" | _ => strBytes "false")
  | .double => F.dbl (match v.val with | .dbl d => d | _ => 0)
  | .integer => F.int (match v.val with | .int i => i | _ => 0)
  | _ => []

def hexAll : List UInt8 → List UInt8
  | [] => []
  | b :: r => hex2 b ++ hexAll r

/-- `_binson_print_cb`: returns the new `pstate` and the bytes sent to stdout -/
def printCbV (F : Fmts) (ps : Nat) (v : EvView) : Nat × List UInt8 :=
  let o1 : List UInt8 := if v.tok ≠ .arrEnd ∧ ps = 5 then [0x2c] else []
  let ps := if ps = 4 then 5 else ps
  match v.tok with
  | .objBegin => (1, o1 ++ [0x7b])
  | .objEnd => (if v.ad > 0 then 5 else 2, o1 ++ [0x7d])
  | .arrBegin => (4, o1 ++ [0x5b])
  | .arrEnd => (if v.ad = 0 then 2 else ps, o1 ++ [0x5d])
  | .fieldName =>
    let o2 : List UInt8 := if ps = 2 then [0x2c] else []
    (2, o1 ++ o2 ++ (quote :: (cstr v.name ++ [quote, 0x3a])))
  | .bytes => (ps, o1 ++ (strBytes "\"0x" ++ hexAll v.span ++ [quote]))
  | .error => (ps, o1)
  | _ => (ps, o1 ++ scalarText F v)

def printFoldV (F : Fmts) : Nat → List EvView → List UInt8
  | _, [] => []
  | ps, e :: r => let x := printCbV F ps e; x.2 ++ printFoldV F x.1 r

def printFold (F : Fmts) (buf : Array UInt8) (ps : Nat) (evs : List Event) : List UInt8 :=
  printFoldV F ps (evs.map (view buf))

/-- `binson_parser_print`: new parser state, return value, stdout -/
def print (F : Fmts) (p : Parser) : Parser × Bool × List UInt8 :=
  let r := verify p
  (r.1, r.2.1, printFold F p.buf 0 r.2.2)

/-- `struct _to_string_ctx` plus the destination memory -/
structure TSCtx where
  size : Nat             -- buffer_size
  used : Nat             -- buffer_used
  pstate : Nat
  full : Bool
  mem : Array UInt8
  fault : Bool := false
  deriving Repr

def storeText (mem : Array UInt8) (off : Nat) : List UInt8 → Array UInt8
  | [] => mem
  | b :: r => storeText (mem.setIfInBounds off b) (off + 1) r

/-- `snprintf(dst, avail, text)`; `dst = none` is the NULL pointer (only with avail = 0) -/
def snp (c : TSCtx) (dst : Option Nat) (avail : Nat) (text : List UInt8) : TSCtx :=
  if avail = 0 then c else
  match dst with
  | none => { c with fault := true }
  | some off =>
    let body := text.take (avail - 1)
    { c with mem := storeText c.mem off (body ++ [0]),
             fault := c.fault || decide (c.mem.size < off + body.length + 1) }

def sizeMax : Nat := two64 - 1

/-- the comma piece (lines 562-572 and 601-612): returns ctx, avail -/
def tsComma (c : TSCtx) (avail : Nat) : TSCtx × Nat :=
  let dst := if avail > 0 then some c.used else none
  let c := snp c dst avail [0x2c]
  let c := if !checkBoundary c.used 1 c.size then { c with full := true } else c
  let c := { c with used := c.used + 1 }
  (c, if avail > 0 then avail - 1 else avail)

def hexLoop (c : TSCtx) (base : Option Nat) (avail : Nat) : Nat → List UInt8 → TSCtx × Nat
  | ret, [] => (c, ret)
  | ret, b :: r =>
    let c := snp c (if avail > 0 then base.map (· + ret) else none) avail (hex2 b)
    hexLoop c base avail (ret + 2) r

/-- `_binson_to_string_cb` -/
def toStringCbV (F : Fmts) (c : TSCtx) (v : EvView) : TSCtx :=
  let tok := v.tok
  let avail := if c.used < c.size then c.size - c.used else 0
  let r := if tok ≠ .arrEnd ∧ c.pstate = 5 then tsComma c avail else (c, avail)
  let c := r.1
  let avail := r.2
  let c := if c.pstate = 4 then { c with pstate := 5 } else c
  let dstOf (c : TSCtx) (avail : Nat) : Option Nat := if avail > 0 then some c.used else none
  let simple (c : TSCtx) (avail : Nat) (ps : Nat) (text : List UInt8) : TSCtx :=
    let c := snp { c with pstate := ps } (dstOf c avail) avail text
    let ret := text.length
    let c := if ret ≥ avail then { c with full := true } else c
    let c := if !checkBoundary c.used ret c.size then { c with full := true } else c
    { c with used := c.used + ret }
  match tok with
  | .objBegin => simple c avail 1 [0x7b]
  | .objEnd => simple c avail (if v.ad > 0 then 5 else 2) [0x7d]
  | .arrBegin => simple c avail 4 [0x5b]
  | .arrEnd => simple c avail (if v.ad = 0 then 2 else c.pstate) [0x5d]
  | .fieldName =>
    let r := if c.pstate = 2 then tsComma c avail else (c, avail)
    simple r.1 r.2 2 (quote :: (cstr v.name ++ [quote, 0x3a]))
  | .bytes =>
    let data := v.span
    let c := snp c (dstOf c avail) avail (strBytes "\"0x")
    let r : TSCtx × Nat := if !checkBoundary c.used 3 c.size then ({ c with full := true }, 0) else (c, avail)
    let c := { r.1 with used := r.1.used + 3 }
    let avail := if r.2 ≥ 3 then r.2 - 3 else r.2
    let base := dstOf c avail
    let r : TSCtx × Nat :=
      if data.length > sizeMax / 2 - 2 ∨ !checkBoundary c.used (data.length * 2 + 2) c.size
      then ({ c with full := true }, 0) else (c, avail)
    let c := r.1
    let avail := r.2
    let h := hexLoop c base avail 0 data
    let c := snp h.1 (if avail > 0 then base.map (· + h.2) else none) avail [quote]
    let ret := h.2 + 1
    let c := if ret ≥ avail then { c with full := true } else c
    let c := if !checkBoundary c.used ret c.size then { c with full := true } else c
    { c with used := c.used + ret }
  | .error => simple c avail c.pstate []
  | _ => simple c avail c.pstate (scalarText F v)

def toStringFoldV (F : Fmts) (c : TSCtx) (vs : List EvView) : TSCtx := vs.foldl (toStringCbV F) c

def toStringFold (F : Fmts) (buf : Array UInt8) (c : TSCtx) (evs : List Event) : TSCtx :=
  toStringFoldV F c (evs.map (view buf))

/-- `binson_parser_to_string(parser, pbuf, &size, nice)`; `mem = none` is `pbuf == NULL`.
    Returns parser, return value, new `*buf_size`, destination contents, fault ghost. -/
def toString' (F : Fmts) (p : Parser) (mem : Option (Array UInt8)) (size : Nat) :
    Parser × Bool × Nat × Array UInt8 × Bool :=
  let size := if mem.isNone then 0 else size
  let c0 : TSCtx := { size := size, used := 0, pstate := 0, full := false, mem := mem.getD #[] }
  let r := verify p
  let c := toStringFold F p.buf c0 r.2.2
  if r.2.1 && !c.full then (r.1, true, c.used, c.mem, c.fault)
  else (r.1, false, c.used + 1, c.mem, c.fault)

end Binson
