/-
  C02, last sentence: "When nesting is the first obstacle met, the error code is the matching
  MAX_DEPTH_OBJECT / MAX_DEPTH_ARRAY."  For a document that is well-formed except that it nests
  too deep for this parser, `verify` fails and the error flag is exactly the code of the FIRST
  obstacle in byte order (`firstObstacle`, Spec/Decode.lean).

  `stuck_value / stuck_elems / stuck_fields` mirror `pass_value / pass_elems / pass_fields`:
  the values before the obstructed one fit (`firstObstacle = none ↔ fits`) and are consumed by the
  pass-through lemma; the BEGIN token of the obstacle sets the error and the loop returns false.
-/
import Binson.Lemmas.DepthCodeTok
import Binson.Lemmas.VerifyValid
namespace Binson

mutual
/-- a value containing a nesting obstacle: the loop stops at the first one with its code -/
theorem stuck_value : (v : Value) → ∀ (f : Nat) (st : LoopSt) (sn : Option (List UInt8)) (oa od : Nat) (rest : Bytes) (b : Bool),
    Deep st oa od → st.p.rem = encode v ++ rest → wfValue v = true → ValCtx (st.p.getLvl st.p.lvlIdx) →
    firstObstacle (st.p.maxDepth - st.p.depth) (255 - (st.p.getLvl st.p.lvlIdx).ad) v = some b →
    ∃ st', advLoop (tokens v + f) st sn oa od = (st', .done false) ∧ st'.p.err = obstacleErr b
  | .bool _, _, _, _, _, _, _, _, _, _, _, _, hob => by simp [firstObstacle] at hob
  | .int _, _, _, _, _, _, _, _, _, _, _, _, hob => by simp [firstObstacle] at hob
  | .dbl _, _, _, _, _, _, _, _, _, _, _, _, hob => by simp [firstObstacle] at hob
  | .str _, _, _, _, _, _, _, _, _, _, _, _, hob => by simp [firstObstacle] at hob
  | .bytes _, _, _, _, _, _, _, _, _, _, _, _, hob => by simp [firstObstacle] at hob
  | .arr xs, f, st, sn, oa, od, rest, b, hD, hrem, hwf, hctx, hob => by
    have hsh := hD.shape
    have hd1 := hD.d1
    have hrem' : st.p.rem = 0x42 :: (encElems xs ++ 0x43 :: rest) := by simpa [encode] using hrem
    have hcl := classify_arrBegin hsh hD.err st.bc _ hrem'
    have hlt := (rem_cons hsh hrem').2.1
    unfold firstObstacle at hob
    by_cases ha : 255 - (st.p.getLvl st.p.lvlIdx).ad = 0
    · -- this `[` is the obstacle
      rw [if_pos ha] at hob
      have hb : b = false := by cases hob; rfl
      obtain ⟨st1, i1, e1⟩ := iter_arrBegin_full (sn := sn) hD hcl hctx (by omega)
      refine ⟨st1, ?_, by rw [e1, hb]; rfl⟩
      rw [show tokens (.arr xs) + f = (1 + tokensE xs + f) + 1 by simp [tokens]; omega]
      exact advLoop_ret i1
    · rw [if_neg ha] at hob
      obtain ⟨st1, i1, s1, e1, c1, u1, d1, f1, g1, v1⟩ := iter_arrBegin' (sn := sn) hD hcl hlt hctx (by omega)
      have hi1 : st1.p.lvlIdx = st.p.lvlIdx := by unfold Parser.lvlIdx; rw [d1]
      have hl1 : st1.p.getLvl st1.p.lvlIdx = arrInnerLevel (st.p.getLvl st.p.lvlIdx) := by rw [hi1, g1]; simp
      have hl1ad : (st1.p.getLvl st1.p.lvlIdx).ad = (st.p.getLvl st.p.lvlIdx).ad + 1 := by rw [hl1]; rfl
      have hD1 : Deep st1 oa od := by
        refine ⟨s1, e1, by rw [c1]; exact hD.cont, by rw [d1]; exact hd1, ?_, ?_, ?_, by rw [f1.2.2.1]; exact hD.md255⟩
        · rw [d1, hl1ad]; rcases hD.deeper with h | ⟨h, h2⟩
          · exact Or.inl h
          · exact Or.inr ⟨h, by omega⟩
        · intro i hi; rw [d1] at hi; rw [g1]
          have : i ≠ st.p.lvlIdx := by
            have := Parser.lvlIdx_of_pos hd1; omega
          simp only [this, if_false]; exact hD.zeros i hi
        · intro _ _; rw [hl1ad]; omega
      have hr1 : st1.p.rem = encElems xs ++ 0x43 :: rest := rem_step hsh hrem' f1 u1
      obtain ⟨st2, i2, e2⟩ := stuck_elems xs (1 + f) st1 sn oa od (0x43 :: rest) b hD1 hr1 (by simpa [wfValue] using hwf)
        ⟨by rw [hl1]; exact Or.inl rfl, by rw [hl1ad]; omega⟩
        (by rw [d1, f1.2.2.1, hl1ad, show 255 - ((st.p.getLvl st.p.lvlIdx).ad + 1) = 255 - (st.p.getLvl st.p.lvlIdx).ad - 1 by omega]; exact hob)
      refine ⟨st2, ?_, e2⟩
      rw [show tokens (.arr xs) + f = (tokensE xs + (1 + f)) + 1 by simp [tokens]; omega, advLoop_cont i1, i2]
  | .obj fs, f, st, sn, oa, od, rest, b, hD, hrem, hwf, hctx, hob => by
    have hsh := hD.shape
    have hd1 := hD.d1
    have hidx : st.p.lvlIdx = st.p.depth - 1 := Parser.lvlIdx_of_pos hd1
    have hrem' : st.p.rem = 0x40 :: (encFields fs ++ 0x41 :: rest) := by simpa [encode] using hrem
    have hcl := classify_objBegin hsh hD.err st.bc _ hrem'
    have hlt := (rem_cons hsh hrem').2.1
    unfold firstObstacle at hob
    by_cases hd : st.p.maxDepth - st.p.depth = 0
    · -- this `{` is the obstacle
      rw [if_pos hd] at hob
      have hb : b = true := by cases hob; rfl
      obtain ⟨st1, i1, e1⟩ := iter_objBegin_full (sn := sn) hD hcl hctx (by omega)
      refine ⟨st1, ?_, by rw [e1, hb]; rfl⟩
      rw [show tokens (.obj fs) + f = (1 + tokensF fs + f) + 1 by simp [tokens]; omega]
      exact advLoop_ret i1
    · rw [if_neg hd] at hob
      obtain ⟨st1, i1, s1, e1, c1, u1, d1, f1, g1, v1⟩ := iter_objBegin (sn := sn) hD hcl hlt hctx (by omega)
      have hi1 : st1.p.lvlIdx = st.p.depth := by unfold Parser.lvlIdx; rw [d1]; simp
      have hl1 : st1.p.getLvl st1.p.lvlIdx = freshObjLevel := by rw [hi1, g1]; simp
      have hD1 : Deep st1 oa od := by
        refine ⟨s1, e1, by rw [c1]; exact hD.cont, by rw [d1]; omega, ?_, ?_, ?_, by rw [f1.2.2.1]; exact hD.md255⟩
        · left; rw [d1]; rcases hD.deeper with h | ⟨h, _⟩ <;> omega
        · intro i hi; rw [d1] at hi; rw [g1]
          have h1 : i ≠ st.p.depth := by omega
          have h2 : i ≠ st.p.lvlIdx := by omega
          simp only [h1, h2, if_false]; exact hD.zeros i (by omega)
        · intro _ h; rw [d1] at h; omega
      have hr1 : st1.p.rem = encFields fs ++ 0x41 :: rest := rem_step hsh hrem' f1 u1
      obtain ⟨st2, i2, e2⟩ := stuck_fields fs (1 + f) st1 sn oa od (0x41 :: rest) b hD1 hr1
        (by unfold prevName; rw [hl1]; simpa [wfValue, freshObjLevel, Level.zero] using hwf)
        (by rw [hl1]; rfl) (by rw [hl1]; rfl)
        (by rw [d1, f1.2.2.1, show st.p.maxDepth - (st.p.depth + 1) = st.p.maxDepth - st.p.depth - 1 by omega]; exact hob)
      refine ⟨st2, ?_, e2⟩
      rw [show tokens (.obj fs) + f = (tokensF fs + (1 + f)) + 1 by simp [tokens]; omega, advLoop_cont i1, i2]

/-- elements of an array, one of which contains the first obstacle -/
theorem stuck_elems : (xs : Elems) → ∀ (f : Nat) (st : LoopSt) (sn : Option (List UInt8)) (oa od : Nat) (rest : Bytes) (b : Bool),
    Deep st oa od → st.p.rem = encElems xs ++ rest → wfElems xs = true →
    (((st.p.getLvl st.p.lvlIdx).flags = .arr1 ∨ (st.p.getLvl st.p.lvlIdx).flags = .arr2) ∧ 1 ≤ (st.p.getLvl st.p.lvlIdx).ad) →
    firstObstacleE (st.p.maxDepth - st.p.depth) (255 - (st.p.getLvl st.p.lvlIdx).ad) xs = some b →
    ∃ st', advLoop (tokensE xs + f) st sn oa od = (st', .done false) ∧ st'.p.err = obstacleErr b
  | .nil, _, _, _, _, _, _, _, _, _, _, _, hob => by simp [firstObstacleE] at hob
  | .cons v r, f, st, sn, oa, od, rest, b, hD, hrem, hwf, hctx, hob => by
    have hwf' : wfValue v = true ∧ wfElems r = true := by simpa [wfElems] using hwf
    have hrem' : st.p.rem = encode v ++ (encElems r ++ rest) := by simpa [encElems] using hrem
    unfold firstObstacleE at hob
    cases hv : firstObstacle (st.p.maxDepth - st.p.depth) (255 - (st.p.getLvl st.p.lvlIdx).ad) v with
    | some o =>
      rw [hv] at hob
      have ho : o = b := by simpa using hob
      subst ho
      obtain ⟨st1, i1, e1⟩ := stuck_value v (tokensE r + f) st sn oa od _ o hD hrem' hwf'.1 (Or.inr hctx) hv
      refine ⟨st1, ?_, e1⟩
      rw [show tokensE (.cons v r) + f = tokens v + (tokensE r + f) by simp [tokensE]; omega, i1]
    | none =>
      rw [hv] at hob
      simp only at hob
      have hfit := (firstObstacle_none_iff_fits _ _ _).mp hv
      obtain ⟨st1, i1, r1, p1⟩ := pass_value v (tokensE r + f) st sn oa od _ hD hrem' hwf'.1 (Or.inr hctx) hfit
      have hD1 : Deep st1 oa od := hD.after p1.base p1.ad
      have hi1 : st1.p.lvlIdx = st.p.lvlIdx := by unfold Parser.lvlIdx; rw [p1.base.depth]
      have hf1 : (st1.p.getLvl st1.p.lvlIdx).flags = .arr1 ∨ (st1.p.getLvl st1.p.lvlIdx).flags = .arr2 := by
        rw [hi1, p1.flags]; unfold afterFlags
        rcases hctx.1 with h | h <;> cases v.isArr <;> simp [h]
      have ha1 : (st1.p.getLvl st1.p.lvlIdx).ad = (st.p.getLvl st.p.lvlIdx).ad := by rw [hi1, p1.ad]
      obtain ⟨st2, i2, e2⟩ := stuck_elems r f st1 sn oa od rest b hD1 r1 hwf'.2
        ⟨hf1, by rw [ha1]; exact hctx.2⟩
        (by rw [p1.base.depth, p1.base.moved.frame.2.2.1, ha1]; exact hob)
      refine ⟨st2, ?_, e2⟩
      rw [show tokensE (.cons v r) + f = tokens v + (tokensE r + f) by simp [tokensE]; omega, i1, i2]

/-- fields of an object, one of which contains the first obstacle -/
theorem stuck_fields : (fs : Fields) → ∀ (f : Nat) (st : LoopSt) (sn : Option (List UInt8)) (oa od : Nat) (rest : Bytes) (b : Bool),
    Deep st oa od → st.p.rem = encFields fs ++ rest → wfFields (prevName st.p) fs = true →
    (st.p.getLvl st.p.lvlIdx).flags = .expField → (st.p.getLvl st.p.lvlIdx).ad = 0 →
    firstObstacleF (st.p.maxDepth - st.p.depth) fs = some b →
    ∃ st', advLoop (tokensF fs + f) st sn oa od = (st', .done false) ∧ st'.p.err = obstacleErr b
  | .nil, _, _, _, _, _, _, _, _, _, _, _, _, hob => by simp [firstObstacleF] at hob
  | .cons n v r, f, st, sn, oa, od, rest, b, hD, hrem, hwf, hfl, had, hob => by
    have hsh := hD.shape
    have hd1 := hD.d1
    have hidx : st.p.lvlIdx = st.p.depth - 1 := Parser.lvlIdx_of_pos hd1
    have hwf' : nameAfter (prevName st.p) n = true ∧ n.length ≤ INT32_MAX ∧ wfValue v = true ∧ wfFields (some n) r = true := by
      simpa [wfFields, and_assoc] using hwf
    have hrem' : st.p.rem = encStr 0x14 n ++ (encode v ++ (encFields r ++ rest)) := by simpa [encFields] using hrem
    -- the name
    obtain ⟨c1, c2, c3⟩ := classify_str hsh hD.err st.bc _ n hwf'.2.1 hrem'
    have hfitn := rem_fit hsh hrem'
    rw [encStr_length] at hfitn
    have hord : ∀ pn, (st.p.getLvl st.p.lvlIdx).name = some pn →
        cmpBytes (st.p.slice pn) (st.p.slice ⟨st.p.used + 1 + intWidth (n.length : Int), n.length⟩) < 0 := by
      intro pn hpn
      rw [c2 st.p rfl]
      apply cmpBytes_neg_of_lt
      have := hwf'.1
      unfold prevName at this
      rw [hpn] at this
      simpa [nameAfter] using this
    obtain ⟨st1, i1, s1, e1, sc1, u1, d1, f1, g1, v1⟩ := iter_fieldName' (sn := sn) hD
      ⟨st.p.used + 1 + intWidth (n.length : Int), n.length⟩ _ _ (by simp only [Nat.add_assoc]) c1
      hfitn (by simp only; omega) hfl hord
    have hi1 : st1.p.lvlIdx = st.p.lvlIdx := by unfold Parser.lvlIdx; rw [d1]
    have hl1 : st1.p.getLvl st1.p.lvlIdx = nameLevel (st.p.getLvl st.p.lvlIdx) ⟨st.p.used + 1 + intWidth (n.length : Int), n.length⟩ := by
      rw [hi1, g1]; simp
    have hD1 : Deep st1 oa od := by
      refine ⟨s1, e1, by rw [sc1]; exact hD.cont, by rw [d1]; exact hd1, ?_, ?_, ?_, by rw [f1.2.2.1]; exact hD.md255⟩
      · rw [d1, hl1]; exact hD.deeper
      · intro i hi; rw [d1] at hi; rw [g1]
        have : i ≠ st.p.lvlIdx := by omega
        simp only [this, if_false]; exact hD.zeros i hi
      · rw [f1.2.2.2.1, d1, hl1]; exact hD.rootArr
    have hr1 : st1.p.rem = encode v ++ (encFields r ++ rest) :=
      rem_of_frame f1.2.1 u1 hsh hrem' (encStr_length _ _)
    have hctx1 : ValCtx (st1.p.getLvl st1.p.lvlIdx) := by rw [hl1]; exact Or.inl ⟨rfl, had⟩
    have had1 : (st1.p.getLvl st1.p.lvlIdx).ad = 0 := by rw [hl1]; exact had
    unfold firstObstacleF at hob
    cases hv : firstObstacle (st.p.maxDepth - st.p.depth) 255 v with
    | some o =>
      rw [hv] at hob
      have ho : o = b := by simpa using hob
      subst ho
      obtain ⟨st2, i2, e2⟩ := stuck_value v (tokensF r + f) st1 sn oa od _ o hD1 hr1 hwf'.2.2.1 hctx1
        (by rw [d1, f1.2.2.1, had1]; exact hv)
      refine ⟨st2, ?_, e2⟩
      rw [show tokensF (.cons n v r) + f = (tokens v + (tokensF r + f)) + 1 by simp [tokensF]; omega, advLoop_cont i1, i2]
    | none =>
      rw [hv] at hob
      simp only at hob
      have hfit := (firstObstacle_none_iff_fits _ _ _).mp hv
      obtain ⟨st2, i2, r2, p2⟩ := pass_value v (tokensF r + f) st1 sn oa od _ hD1 hr1 hwf'.2.2.1 hctx1
        (by rw [d1, f1.2.2.1, had1]; exact hfit)
      have hD2 : Deep st2 oa od := hD1.after p2.base p2.ad
      have hi2 : st2.p.lvlIdx = st.p.lvlIdx := by unfold Parser.lvlIdx; rw [p2.base.depth, d1]
      have hl2f : (st2.p.getLvl st2.p.lvlIdx).flags = .expField := by
        rw [hi2, ← hi1, p2.flags, hl1]; simp [afterFlags, nameLevel]
      have hl2a : (st2.p.getLvl st2.p.lvlIdx).ad = 0 := by rw [hi2, ← hi1, p2.ad, hl1]; exact had
      have hl2n : (st2.p.getLvl st2.p.lvlIdx).name = some ⟨st.p.used + 1 + intWidth (n.length : Int), n.length⟩ := by
        rw [hi2, ← hi1, p2.name, hl1]; rfl
      have hbuf2 : st2.p.buf = st.p.buf := (f1.trans p2.base.moved.frame).2.1
      obtain ⟨st3, i3, e3⟩ := stuck_fields r f st2 sn oa od rest b hD2 r2
        (by
          unfold prevName; rw [hl2n]; simp only [Option.map]
          rw [c2 st2.p hbuf2]; exact hwf'.2.2.2)
        hl2f hl2a
        (by rw [p2.base.depth, d1, p2.base.moved.frame.2.2.1, f1.2.2.1]; exact hob)
      refine ⟨st3, ?_, e3⟩
      rw [show tokensF (.cons n v r) + f = (tokens v + (tokensF r + f)) + 1 by simp [tokensF]; omega, advLoop_cont i1, i2, i3]
end

/-- `_advance_parsing(VERIFY)` on a fresh object-rooted parser over a document with a nesting obstacle -/
theorem advance_stuck_obj {W : Parser} {buf : Array UInt8} {md : Nat} (hF : Fresh W buf 1 md) (hmd : md ≤ 255)
    (fs : Fields) (hbuf : buf.toList = encode (.obj fs)) (hwf : wfFields none fs = true) (b : Bool)
    (hob : firstObstacle md 255 (.obj fs) = some b) :
    (advance W .verify none).ret = false ∧ (advance W .verify none).p.err = obstacleErr b := by
  have hsh := hF.shape
  have hd0 : W.depth = 0 := hF.depth
  have hmd1 : 1 ≤ md := by have := hsh.hmd; rw [hF.maxDepth] at this; exact this
  have hob' : firstObstacleF (md - 1) fs = some b := by
    unfold firstObstacle at hob
    rw [if_neg (by omega)] at hob; exact hob
  have hrem : W.rem = 0x40 :: (encFields fs ++ [0x41]) := by
    unfold Parser.rem; rw [hF.used, hF.buf, List.drop_zero, hbuf]; simp [encode]
  have hsize : W.size = (encode (.obj fs)).length := by rw [← hsh.hbs, hF.buf, ← hbuf]; simp
  unfold advance
  rw [if_neg (by simp [hF.err])]
  simp only [touchLvl_of_lt hsh.cur_lt]
  have hoa : (W.getLvl W.cur).ad = 0 := by rw [hF.zeros]; rfl
  rw [hoa, hd0, hF.used]
  have h3 : 2 + tokensF fs ≤ W.size := by
    have := tokens_le (.obj fs); simp only [tokens] at this; omega
  have hfuel : W.size - 0 + 2 = (tokensF fs + (1 + (W.size - tokensF fs))) + 1 := by omega
  rw [hfuel]
  -- root `{`
  obtain ⟨st1, i1, s1, e1, c1, u1, d1, f1, g1, v1⟩ := iter_root_objBegin (sn := none) (oa := 0) (od := 0)
    (st := ⟨W, some .verify, 0, []⟩) hsh hF.err rfl hd0 hF.zeros (by rw [hF.maxDepth]; exact hmd) _ hrem
  simp only at c1 u1 f1 v1
  have hi1 : st1.p.lvlIdx = 0 := by unfold Parser.lvlIdx; rw [d1]; rfl
  have hD1 : Deep st1 0 0 := by
    refine ⟨s1, e1, by rw [c1]; exact cont_verify, by rw [d1]; exact Nat.le_refl _, Or.inl (by rw [d1]; exact Nat.zero_lt_one), ?_, ?_,
      by rw [f1.2.2.1, hF.maxDepth]; exact hmd⟩
    · intro i hi; rw [d1] at hi; rw [g1]
      have : i ≠ 0 := by omega
      simp [this]
    · intro h; rw [f1.2.2.2.1, hF.ptype] at h; cases h
  have hr1 : st1.p.rem = encFields fs ++ [0x41] := rem_step hsh hrem f1 u1
  obtain ⟨st2, i2, e2⟩ := stuck_fields fs (1 + (W.size - tokensF fs)) st1 none 0 0 [0x41] b hD1 hr1
    (by unfold prevName; rw [hi1, g1]; simpa [Level.zero] using hwf)
    (by rw [hi1, g1]; rfl) (by rw [hi1, g1]; rfl)
    (by rw [d1, f1.2.2.1, hF.maxDepth]; exact hob')
  rw [advLoop_cont i1, i2]
  exact ⟨rfl, e2⟩

/-- `_advance_parsing(VERIFY)` on a fresh array-rooted parser over a document with a nesting obstacle -/
theorem advance_stuck_arr {W : Parser} {buf : Array UInt8} {md : Nat} (hF : Fresh W buf 2 md) (hmd : md ≤ 255)
    (xs : Elems) (hbuf : buf.toList = encode (.arr xs)) (hwf : wfElems xs = true) (b : Bool)
    (hob : firstObstacle (md - 1) 255 (.arr xs) = some b) :
    (advance W .verify none).ret = false ∧ (advance W .verify none).p.err = obstacleErr b := by
  have hsh := hF.shape
  have hd1 : W.depth = 1 := hF.depth
  have hob' : firstObstacleE (md - 1) 254 xs = some b := by
    unfold firstObstacle at hob
    rw [if_neg (by decide)] at hob; exact hob
  have hrem : W.rem = 0x42 :: (encElems xs ++ [0x43]) := by
    unfold Parser.rem; rw [hF.used, hF.buf, List.drop_zero, hbuf]; simp [encode]
  have hsize : W.size = (encode (.arr xs)).length := by rw [← hsh.hbs, hF.buf, ← hbuf]; simp
  have h3 : 2 + tokensE xs ≤ W.size := by
    have := tokens_le (.arr xs); simp only [tokens] at this; omega
  unfold advance
  rw [if_neg (by simp [hF.err])]
  simp only [touchLvl_of_lt hsh.cur_lt]
  have hoa : (W.getLvl W.cur).ad = 0 := by rw [hF.zeros]; rfl
  rw [hoa, hd1, hF.used]
  have hfuel : W.size - 0 + 2 = (tokensE xs + (1 + (W.size - tokensE xs))) + 1 := by omega
  rw [hfuel]
  -- root `[`
  obtain ⟨st1, i1, s1, e1, c1, u1, d1, f1, g1, v1⟩ := iter_root_arrBegin (sn := none) (oa := 0) (od := 1)
    (st := ⟨W, some .verify, 0, []⟩) hsh hF.err rfl hd1 hF.zeros _ hrem
  simp only at c1 u1 f1 v1
  have hi1 : st1.p.lvlIdx = 0 := by unfold Parser.lvlIdx; rw [d1]; rfl
  have hl1 : st1.p.getLvl st1.p.lvlIdx = arrInnerLevel Level.zero := by rw [hi1, g1]; simp
  have hD1 : Deep st1 0 1 := by
    refine ⟨s1, e1, by rw [c1]; exact cont_verify, by rw [d1]; exact Nat.le_refl _, Or.inr ⟨d1.symm, by rw [hl1]; decide⟩, ?_, ?_,
      by rw [f1.2.2.1, hF.maxDepth]; exact hmd⟩
    · intro i hi; rw [d1] at hi; rw [g1]
      have : i ≠ 0 := by omega
      simp [this]
    · intro _ _; rw [hl1]; decide
  have hr1 : st1.p.rem = encElems xs ++ [0x43] := rem_step hsh hrem f1 u1
  obtain ⟨st2, i2, e2⟩ := stuck_elems xs (1 + (W.size - tokensE xs)) st1 none 0 1 [0x43] b hD1 hr1 hwf
    (by rw [hl1]; exact ⟨Or.inl rfl, by decide⟩)
    (by rw [d1, f1.2.2.1, hF.maxDepth, hl1]; exact hob')
  rw [advLoop_cont i1, i2]
  exact ⟨rfl, e2⟩

/-- verify on a fresh parser when `_advance_parsing(VERIFY)` ends with an error: false, the error stays -/
theorem verify_of_advance_err {W : Parser} {buf : Array UInt8} {t md : Nat} (hF : Fresh W buf t md) (b0 bl : UInt8)
    (ht : (t = 1 ∧ b0 = 0x40 ∧ bl = 0x41) ∨ (t = 2 ∧ b0 = 0x42 ∧ bl = 0x43))
    (h2 : 2 ≤ buf.size) (hb0 : buf.getD 0 0 = b0) (hbl : buf.getD (buf.size - 1) 0 = bl) (e : Err) (he : e ≠ .none)
    (hadv : ∀ W', Fresh W' buf t md → (advance W' .verify none).p.err = e) :
    (verify W).2.1 = false ∧ (verify W).1.err = e := by
  obtain ⟨r1, F1⟩ := reset_fresh hF b0 bl ht h2 hb0 hbl
  have a1 := hadv _ F1
  unfold verify
  generalize reset W = rw at r1 F1 a1
  obtain ⟨q, ok⟩ := rw
  simp only at r1 F1 a1 ⊢
  subst r1
  have hne : ¬ (advance q .verify none).p.err = .none := by rw [a1]; exact he
  simp only [Bool.not_true, Bool.false_eq_true, if_false, hne, decide_false, Bool.and_false]
  exact ⟨trivial, a1⟩

/-- verify on a fresh parser over the encoding of a document that is well-formed except for a nesting obstacle -/
theorem verify_fresh_stuck {W : Parser} {buf : Array UInt8} {md : Nat} (root : Root) (hF : Fresh W buf (rootNum root) md) (hmd : md ≤ 255)
    (v : Value) (hbuf : buf.toList = encode v) (hwfv : wfValue v = true) (hrk : rootKindOk root v = true) (b : Bool)
    (hob : firstObstacle (match root with | .object => md | .array => md - 1) 255 v = some b) :
    (verify W).2.1 = false ∧ (verify W).1.err = obstacleErr b := by
  cases root with
  | object =>
    cases v with
    | obj fs =>
      have hbs : buf.size = (encode (.obj fs)).length := by rw [← hbuf]; simp
      have h2 : 2 ≤ buf.size := by rw [hbs]; simp [encode]
      have hbe : buf = (encode (.obj fs)).toArray := by rw [← hbuf]
      have hb0 : buf.getD 0 0 = 0x40 := by rw [hbe]; simp only [encode]; exact toArray_getD_head _ _ _
      have hbl : buf.getD (buf.size - 1) 0 = 0x41 := by
        rw [hbe]; simp only [encode, List.size_toArray]; exact toArray_getD_last _ _ _ _
      exact verify_of_advance_err hF 0x40 0x41 (Or.inl ⟨rfl, rfl, rfl⟩) h2 hb0 hbl _ (obstacleErr_ne b)
        (fun W' hF' => (advance_stuck_obj hF' hmd fs hbuf (by simpa [wfValue] using hwfv) b hob).2)
    | _ => simp [rootKindOk] at hrk
  | array =>
    cases v with
    | arr xs =>
      have hbs : buf.size = (encode (.arr xs)).length := by rw [← hbuf]; simp
      have h2 : 2 ≤ buf.size := by rw [hbs]; simp [encode]
      have hbe : buf = (encode (.arr xs)).toArray := by rw [← hbuf]
      have hb0 : buf.getD 0 0 = 0x42 := by rw [hbe]; simp only [encode]; exact toArray_getD_head _ _ _
      have hbl : buf.getD (buf.size - 1) 0 = 0x43 := by
        rw [hbe]; simp only [encode, List.size_toArray]; exact toArray_getD_last _ _ _ _
      exact verify_of_advance_err hF 0x42 0x43 (Or.inr ⟨rfl, rfl, rfl⟩) h2 hb0 hbl _ (obstacleErr_ne b)
        (fun W' hF' => (advance_stuck_arr hF' hmd xs hbuf (by simpa [wfValue] using hwfv) b hob).2)
    | _ => simp [rootKindOk] at hrk

/-- init is accepted for every encoding of the right root kind, and gives a fresh parser -/
theorem init_fresh_encode (g : Parser) (ha : Alloc g) (root : Root) (v : Value) (hrk : rootKindOk root v = true)
    (hsz : (encode v).length < 2 ^ 63) :
    (init g (encode v).toArray (rootNum root)).2 = true ∧
    Fresh (init g (encode v).toArray (rootNum root)).1 (encode v).toArray (rootNum root) g.maxDepth := by
  have key : ∀ (b0 bl : UInt8) (m : Bytes), encode v = b0 :: (m ++ [bl]) →
      ((rootNum root = 1 ∧ b0 = 0x40 ∧ bl = 0x41) ∨ (rootNum root = 2 ∧ b0 = 0x42 ∧ bl = 0x43)) →
      (init g (encode v).toArray (rootNum root)).2 = true ∧
      Fresh (init g (encode v).toArray (rootNum root)).1 (encode v).toArray (rootNum root) g.maxDepth := by
    intro b0 bl m he ht
    apply init_fresh g ha _ _ b0 bl ht
    · rw [List.size_toArray, he]; simp
    · rw [List.size_toArray]; exact hsz
    · rw [he]; exact toArray_getD_head _ _ _
    · rw [List.size_toArray, he]; exact toArray_getD_last _ _ _ _
  cases root with
  | object =>
    cases v with
    | obj fs => exact key 0x40 0x41 (encFields fs) (by simp [encode]) (Or.inl ⟨rfl, rfl, rfl⟩)
    | _ => simp [rootKindOk] at hrk
  | array =>
    cases v with
    | arr xs => exact key 0x42 0x43 (encElems xs) (by simp [encode]) (Or.inr ⟨rfl, rfl, rfl⟩)
    | _ => simp [rootKindOk] at hrk

/-- C02, last sentence: init + verify (from ANY allocated parser object) on the encoding of a document
    that is well-formed except that it nests too deep for this parser: init accepts, verify returns
    false, and the error flag is exactly the code of the FIRST obstacle in byte order. -/
theorem verify_depth_code (g : Parser) (ha : Alloc g) (hmd : g.maxDepth ≤ 255) (root : Root) (v : Value)
    (hwfv : wfValue v = true) (hrk : rootKindOk root v = true) (hsz : (encode v).length < 2 ^ 63) (b : Bool)
    (hob : firstObstacle (match root with | .object => g.maxDepth | .array => g.maxDepth - 1) 255 v = some b) :
    (init g (encode v).toArray (rootNum root)).2 = true ∧
    (verify (init g (encode v).toArray (rootNum root)).1).2.1 = false ∧
    (verify (init g (encode v).toArray (rootNum root)).1).1.err = (if b then Err.maxDepthObject else Err.maxDepthArray) := by
  obtain ⟨hi, hF⟩ := init_fresh_encode g ha root v hrk hsz
  cases root with
  | object =>
    have hv := verify_fresh_stuck .object hF hmd v (by simp) hwfv hrk b hob
    exact ⟨hi, hv.1, hv.2⟩
  | array =>
    have hv := verify_fresh_stuck .array hF hmd v (by simp) hwfv hrk b hob
    exact ⟨hi, hv.1, hv.2⟩

/-- every document of the right root kind either is accepted (`wfDoc`) or has a first nesting obstacle:
    together with `verify_wellformed` the two cases cover all well-formed values -/
theorem wfDoc_or_firstObstacle (root : Root) (md : Nat) (v : Value) (hwfv : wfValue v = true) (hrk : rootKindOk root v = true) :
    wfDoc root md v = true ∨
    ∃ b, firstObstacle (match root with | .object => md | .array => md - 1) 255 v = some b := by
  unfold wfDoc
  rw [hwfv, hrk]
  cases root with
  | object => simpa using fits_or_firstObstacle md 255 v
  | array => simpa using fits_or_firstObstacle (md - 1) 255 v

/-- non-vacuity: `{"a":{"a":{}}}` with two state entries - the innermost `{` is the first obstacle;
    `{"a":[{}],"b":…}`-style mixes report whichever comes first in byte order -/
example : wfValue (.obj (.cons [0x61] (.obj (.cons [0x61] (.obj .nil) .nil)) .nil)) = true ∧
    firstObstacle 2 255 (.obj (.cons [0x61] (.obj (.cons [0x61] (.obj .nil) .nil)) .nil)) = some true := by decide

example : firstObstacle 1 1 (.obj (.cons [0x61] (.arr (.cons (.arr .nil) .nil)) (.cons [0x62] (.obj .nil) .nil))) = some true ∧
    firstObstacle 1 0 (.arr (.cons (.obj (.cons [0x61] (.obj .nil) .nil)) .nil)) = some false := by decide

end Binson
