/-
  C12 — a parser object carries nothing over: init/reset/verify give a clean start.
  `ObsEq` equates everything any public function can read: all scalar fields, and the state
  entries while no error is pending (with an error pending no function reads them).
-/
import Binson.Lemmas.Latch
import Binson.Lemmas.WriterXLemmas
import Binson.Lemmas.WriterLemmas
import Binson.Model.Transcribe
namespace Binson

/-- init on two arbitrary objects (uninitialised memory, or left over from any previous use) with
    the same depth configuration: same answer, observationally equal objects -/
theorem init_history_free (g g' : Parser) (ha : Alloc g) (ha' : Alloc g') (hm : g.maxDepth = g'.maxDepth)
    (buf : Array UInt8) (t : Nat) (ht : t = 1 ∨ t = 2) :
    (init g buf t).2 = (init g' buf t).2 ∧ ObsEq (init g buf t).1 (init g' buf t).1 :=
  init_free g g' ha ha' hm buf t ht

/-- after an accepted init the object is literally the same whatever it held before -/
theorem init_accepted_equal (g g' : Parser) (ha : Alloc g) (ha' : Alloc g') (hm : g.maxDepth = g'.maxDepth)
    (buf : Array UInt8) (t : Nat) (ht : t = 1 ∨ t = 2) (hok : (init g buf t).2 = true) :
    (init g buf t).1 = (init g' buf t).1 := by
  have h := init_free g g' ha ha' hm buf t ht
  apply h.2.eq_of_noerr
  unfold init at hok ⊢
  have h1 : g.maxDepth ≠ 0 := by have := ha.hmd; omega
  rw [if_neg h1] at hok ⊢
  exact reset_ok_err _ hok

/-- observationally equal objects answer every call alike, forever -/
theorem obs_bisim (p q : Parser) (hp : Shape p) (hq : Shape q) (e : ObsEq p q) (op : Op) (hv : op.Valid) :
    (step p op).2 = (step q op).2 ∧ ObsEq (step p op).1 (step q op).1 :=
  step_obsEq p q hp hq e op hv

/-- the results of ANY call sequence after init depend only on the buffer and the depth
    configuration, never on what the object was used for before -/
theorem run_history_free (g g' : Parser) (ha : Alloc g) (ha' : Alloc g') (hm : g.maxDepth = g'.maxDepth)
    (buf : Array UInt8) (t : Nat) (ht : t = 1 ∨ t = 2) (hb : buf.size < 2 ^ 63) (ops : List Op) (hv : ∀ op ∈ ops, op.Valid) :
    trace (init g buf t).1 ops = trace (init g' buf t).1 ops :=
  trace_obsEq ops _ _ (init_shape g ha buf t ht hb) (init_shape g' ha' buf t ht hb) (init_free g g' ha ha' hm buf t ht).2 hv

/-- a parser reused after a partly traversed document or after an error: `reset` behaves like
    an init of a fresh object over the same buffer -/
theorem reset_history_free (p g' : Parser) (hp : Shape p) (ha' : Alloc g') (hm : p.maxDepth = g'.maxDepth)
    (ht : p.ptype = 1 ∨ p.ptype = 2) :
    (reset p).2 = (init g' p.buf p.ptype).2 ∧ ObsEq (reset p).1 (init g' p.buf p.ptype).1 := by
  have hmp : p.maxDepth ≠ 0 := by have := hp.hmd; omega
  have hmq : g'.maxDepth ≠ 0 := by have := ha'.hmd; omega
  have ep : reset p = reset { p with buf := p.buf, size := p.buf.size, err := .none, ptype := p.ptype } := by
    rw [← reset_err_irrel p .none hmp ht]
    congr 1
    cases p; simp only at *; simp [hp.hbs]
  unfold init
  rw [if_neg hmq, ep]
  exact reset_free p g' p.ptype ht p.buf hm hmp (by rw [hp.hlv, ha'.hlv, hm]) (by rw [hp.hnf, ha'.hnf]) (by rw [hp.hno, ha'.hno])

/-- verify can be repeated with the same verdict -/
theorem verify_repeat (p : Parser) (hp : Shape p) (ht : p.ptype = 1 ∨ p.ptype = 2) :
    (verify (verify p).1).2.1 = (verify p).2.1 := by
  have fr := verify_frame p hp
  have hs := verify_shape p hp
  exact ((verify_frame_eq p (verify p).1 hp hs fr ht).1).symm

/-- a successful verify leaves the cursor at the start: the object equals a freshly reset one -/
theorem verify_leaves_start (p : Parser) (hp : Shape p) (ht : p.ptype = 1 ∨ p.ptype = 2) (hok : (verify p).2.1 = true) :
    (verify p).1 = (reset p).1 ∧ (reset p).2 = true := by
  unfold verify at hok ⊢
  have hrs := reset_shape p hp
  have hfr := reset_frame p
  have hre := reset_ok_err p
  generalize hr : reset p = r at hok hrs hfr hre ⊢
  obtain ⟨q, ok⟩ := r
  simp only at hok hrs hfr hre ⊢
  cases ok
  · simp at hok
  · simp only [Bool.not_true, Bool.false_eq_true, if_false] at hok ⊢
    split at hok
    · rename_i hacc
      rw [if_pos hacc]
      refine ⟨?_, trivial⟩
      have ha := advance_spec q .verify none hrs
      have htq : q.ptype = 1 ∨ q.ptype = 2 := by rw [hfr.2.2.2.1]; exact ht
      have o := reset_frame_obsEq q (advance q .verify none).p hrs ha.shape ha.frame htq
      -- reset q is accepted exactly like reset p (q is the wiped p), so both results are error-free and equal
      have hq2 : (reset q).2 = true ∧ (reset q).1 = q := by
        have o2 := reset_frame_obsEq p q hp hrs hfr ht
        rw [hr] at o2
        simp only at o2
        refine ⟨o2.1.symm, ?_⟩
        exact (o2.2.eq_of_noerr (hre rfl)).symm
      have e1 : (reset q).1.err = .none := reset_ok_err q hq2.1
      have := o.2.eq_of_noerr e1
      rw [← this, hq2.2]
    · simp at hok

/-- non-vacuity: garbage-filled objects satisfy `Alloc`, and init accepts a real document -/
example : Alloc (garbageParser 3) ∧ (init (garbageParser 3) #[0x40, 0x41] 1).2 = true := ⟨⟨rfl, by decide, rfl, rfl⟩, by decide⟩

/-! ### writer -/

/-- init gives a fresh writer -/
theorem writer_init_fresh (m : Array UInt8) (cap : Nat) :
    (Writer.init m cap).2 = true ∧ (Writer.init m cap).1.used = 0 ∧ (Writer.init m cap).1.err = .none :=
  ⟨rfl, rfl, rfl⟩

/-- a reset that returned true gives a fresh writer over the same buffer, whatever was written or failed before -/
theorem writer_reset_fresh (w : Writer) (h : w.reset.2 = true) :
    w.reset.1.used = 0 ∧ w.reset.1.err = .none ∧ w.reset.1.mem = w.mem ∧ w.reset.1.cap = w.cap := by
  unfold Writer.reset at h ⊢
  by_cases hb : w.bufNull = true
  · simp [hb] at h
  · by_cases hc : w.cap < 2
    · simp [hb, hc] at h
    · simp [hb, hc]

/-- `writer_reset_fresh` is not vacuous -/
example : (Writer.init #[0, 0] 2).1.reset.2 = true := by decide


/-- whatever was written or failed before over the writer's full call vocabulary - NULL arguments, absurd lengths,
    earlier resets included - a reset that returns true gives a writer like a fresh one (counter 0, no error, same capacity) -/
theorem writer_reset_fresh_full (w : Writer) (ops : List WOpX) (h : (w.runX ops).reset.2 = true) :
    (w.runX ops).reset.1.used = 0 ∧ (w.runX ops).reset.1.err = .none ∧ (w.runX ops).reset.1.cap = (w.runX ops).cap :=
  runX_reset_fresh w ops h

end Binson
