/-
  C08, part 2: one pass through the loop body, per token kind, in EVERY scan mode: the effect
  on the parser object in terms of the level the token sits in.
-/
import Binson.Lemmas.StreamCase
namespace Binson

/-- what the IN_ARRAY_1/IN_ARRAY_2 toggle can do to a level -/
def ArrSim (lv lv' : Level) : Prop :=
  lv' = lv ∨ (lv.flags.inArray = true ∧ (lv' = { lv with flags := .arr1 } ∨ lv' = { lv with flags := .arr2 }))

theorem arrBlock_sim (lv : Level) (tok : Tok) (b : Bool) (s : Option Scan) : ArrSim lv (arrBlock lv tok b s).1 := by
  unfold arrBlock
  by_cases h1 : lv.flags.inArray = true ∧ b = true
  · rw [if_pos h1]
    by_cases h2 : tok = .objBegin ∨ tok = .arrBegin
    · rw [if_pos h2]
      by_cases h3 : lv.flags = .arr1
      · rw [if_pos h3]; exact Or.inr ⟨h1.1, Or.inr rfl⟩
      · rw [if_neg h3]; exact Or.inr ⟨h1.1, Or.inl rfl⟩
    · rw [if_neg h2]; exact Or.inl rfl
  · rw [if_neg h1]; exact Or.inl rfl

/-- flags of a level in which a value may come next (`undef`: the root container is still to be entered) -/
def ValPos (f : Flags) : Prop := f = .expValue ∨ f = .arr1 ∨ f = .arr2 ∨ f = .undef

/-- flags of the level before / after a value token has been accepted -/
def ValAfter (f f' : Flags) : Prop :=
  (f = .expValue ∧ f' = .expField) ∨ ((f = .arr1 ∨ f = .arr2) ∧ (f' = .arr1 ∨ f' = .arr2)) ∨ (f = .undef ∧ f' = .undef)

/-- the same up to the IN_ARRAY_1/IN_ARRAY_2 toggle -/
def FlagsSim (f f' : Flags) : Prop := f' = f ∨ ((f = .arr1 ∨ f = .arr2) ∧ (f' = .arr1 ∨ f' = .arr2))

def Level.Sim (l l' : Level) : Prop := l'.ad = l.ad ∧ l'.name = l.name ∧ FlagsSim l.flags l'.flags

theorem inArray_cases {f : Flags} (h : f.inArray = true) : f = .arr1 ∨ f = .arr2 ∨ ∃ o, f = .junk o true := by
  cases f with
  | arr1 => exact Or.inl rfl
  | arr2 => exact Or.inr (Or.inl rfl)
  | junk o a => cases a with
    | true => exact Or.inr (Or.inr ⟨o, rfl⟩)
    | false => cases h
  | undef => cases h
  | expField => cases h
  | expValue => cases h

theorem objBlock_valpos {l : Level} {tok : Tok} (hf : ValPos l.flags) (hv : tok.isValue = true) :
    objBlock l tok = some (if l.flags = .expValue then { l with flags := .expField } else l, tok) := by
  rcases hf with h | h | h | h
  · rw [if_pos h]; exact objBlock_val_obj h hv
  · rw [if_neg (by rw [h]; exact fun e => nomatch e)]; exact objBlock_arr (Or.inl h)
  · rw [if_neg (by rw [h]; exact fun e => nomatch e)]; exact objBlock_arr (Or.inr h)
  · rw [if_neg (by rw [h]; exact fun e => nomatch e)]
    unfold objBlock
    simp [h, Flags.inObject]

/-- the level handed to a value case, from the level `X` read back after the classification stage -/
theorem valAfter_of {L X lv' : Level} (hf : ValPos L.flags) (ha : X.ad = L.ad) (hn : X.name = L.name) (hx : X.flags = L.flags)
    (h : ArrSim (if X.flags = .expValue then { X with flags := .expField } else X) lv') :
    lv'.ad = L.ad ∧ lv'.name = L.name ∧ ValAfter L.flags lv'.flags := by
  by_cases hv : X.flags = .expValue
  · rw [if_pos hv] at h
    rcases h with h | ⟨h, _⟩
    · rw [h]; exact ⟨ha, hn, Or.inl ⟨hx ▸ hv, rfl⟩⟩
    · cases h
  · rw [if_neg hv] at h
    rw [hx] at hv
    rcases h with h | ⟨h1, h2⟩
    · rw [h]
      refine ⟨ha, hn, ?_⟩
      rw [hx]
      rcases hf with h | h | h | h
      · exact absurd h hv
      · exact Or.inr (Or.inl ⟨Or.inl h, Or.inl h⟩)
      · exact Or.inr (Or.inl ⟨Or.inr h, Or.inr h⟩)
      · exact Or.inr (Or.inr ⟨h, h⟩)
    · rw [hx] at h1
      have hL : L.flags = .arr1 ∨ L.flags = .arr2 := by
        rcases hf with h | h | h | h
        · exact absurd h hv
        · exact Or.inl h
        · exact Or.inr h
        · rw [h] at h1; cases h1
      rcases h2 with h | h <;> rw [h]
      · exact ⟨ha, hn, Or.inr (Or.inl ⟨hL, Or.inl rfl⟩)⟩
      · exact ⟨ha, hn, Or.inr (Or.inl ⟨hL, Or.inr rfl⟩)⟩

theorem flagsSim_unconsumed {f f' : Flags} (h : ValAfter f f') : FlagsSim f (if f' = .expField then .expValue else f') := by
  rcases h with ⟨h1, h2⟩ | ⟨h1, h2⟩ | ⟨h1, h2⟩
  · rw [if_pos h2]; exact Or.inl h1.symm
  · rw [if_neg (by rcases h2 with h | h <;> rw [h] <;> exact fun e => nomatch e)]
    exact Or.inr ⟨h1, h2⟩
  · rw [if_neg (by rw [h2]; exact fun e => nomatch e), h2]; exact Or.inl h1.symm

/-! ### the dispatch of `iter` for each token kind -/

theorem iter_p_objBegin {st : LoopSt} (sn : Option (List UInt8)) (oa od : Nat) {sp : Span} {bc : Nat} {q : Parser} {lv : Level}
    (hcl : classify st.p st.bc = ⟨.objBegin, sp, bc, q⟩) (hob : objBlock (q.getLvl q.lvlIdx) .objBegin = some (lv, .objBegin)) :
    ∃ lv' scan' st', ArrSim lv lv' ∧ (iter st sn oa od).1.p = (caseObjBegin st' q lv' q.lvlIdx scan').1.p := by
  unfold iter
  simp only [hcl, show Tok.objBegin ≠ Tok.error by decide, if_false]
  rw [hob]
  exact ⟨_, _, _, arrBlock_sim lv .objBegin _ st.scan, rfl⟩

theorem iter_p_arrBegin {st : LoopSt} (sn : Option (List UInt8)) (oa od : Nat) {sp : Span} {bc : Nat} {q : Parser} {lv : Level}
    (hcl : classify st.p st.bc = ⟨.arrBegin, sp, bc, q⟩) (hob : objBlock (q.getLvl q.lvlIdx) .arrBegin = some (lv, .arrBegin)) :
    ∃ lv' scan' st', ArrSim lv lv' ∧ (iter st sn oa od).1.p = (caseArrBegin st' q lv' q.lvlIdx scan').1.p := by
  unfold iter
  simp only [hcl, show Tok.arrBegin ≠ Tok.error by decide, if_false]
  rw [hob]
  exact ⟨_, _, _, arrBlock_sim lv .arrBegin _ st.scan, rfl⟩

theorem iter_p_objEnd {st : LoopSt} (sn : Option (List UInt8)) (oa od : Nat) {sp : Span} {bc : Nat} {q : Parser}
    (hcl : classify st.p st.bc = ⟨.objEnd, sp, bc, q⟩) :
    ∃ lv' scan' st', ArrSim (q.getLvl q.lvlIdx) lv' ∧ (iter st sn oa od).1.p = (caseObjEnd st' q lv' q.lvlIdx scan' od).1.p := by
  unfold iter
  simp only [hcl, show Tok.objEnd ≠ Tok.error by decide, if_false]
  rw [objBlock_end rfl (by decide)]
  exact ⟨_, _, _, arrBlock_sim _ .objEnd _ st.scan, rfl⟩

theorem iter_p_arrEnd {st : LoopSt} (sn : Option (List UInt8)) (oa od : Nat) {sp : Span} {bc : Nat} {q : Parser}
    (hcl : classify st.p st.bc = ⟨.arrEnd, sp, bc, q⟩) :
    ∃ lv' scan' st', ArrSim (q.getLvl q.lvlIdx) lv' ∧ (iter st sn oa od).1.p = (caseArrEnd st' q lv' q.lvlIdx scan' oa od).1.p := by
  unfold iter
  simp only [hcl, show Tok.arrEnd ≠ Tok.error by decide, if_false]
  rw [objBlock_end rfl (by decide)]
  exact ⟨_, _, _, arrBlock_sim _ .arrEnd _ st.scan, rfl⟩

theorem iter_p_fieldName {st : LoopSt} (sn : Option (List UInt8)) (oa od : Nat) {sp : Span} {bc : Nat} {q : Parser}
    (hcl : classify st.p st.bc = ⟨.string, sp, bc, q⟩) (hf : (q.getLvl q.lvlIdx).flags = .expField) :
    ∃ scan' st', (iter st sn oa od).1.p = (caseFieldName st' q (q.getLvl q.lvlIdx) q.lvlIdx scan' sp bc sn oa od).1.p := by
  unfold iter
  simp only [hcl, show Tok.string ≠ Tok.error by decide, if_false]
  rw [objBlock_fieldName hf]
  have hna : (q.getLvl q.lvlIdx).flags.inArray = false := by rw [hf]; rfl
  simp only [arrBlock_notArr _ _ _ hna]
  exact ⟨_, _, rfl⟩

theorem iter_p_scalar {st : LoopSt} (sn : Option (List UInt8)) (oa od : Nat) {tok : Tok} {sp : Span} {bc : Nat} {q : Parser} {lv : Level}
    (hcl : classify st.p st.bc = ⟨tok, sp, bc, q⟩) (hsc : tok.isScalar = true)
    (hob : objBlock (q.getLvl q.lvlIdx) tok = some (lv, tok)) :
    ∃ lv' scan' st', ArrSim lv lv' ∧ (iter st sn oa od).1.p = (caseScalar st' tok q lv' q.lvlIdx scan' sp).1.p := by
  have hne : tok ≠ .error := by intro h; rw [h] at hsc; cases hsc
  unfold iter
  simp only [hcl, hne, if_false]
  rw [hob]
  cases tok with
  | string => exact ⟨_, _, _, arrBlock_sim lv _ _ st.scan, rfl⟩
  | bytes => exact ⟨_, _, _, arrBlock_sim lv _ _ st.scan, rfl⟩
  | boolean => exact ⟨_, _, _, arrBlock_sim lv _ _ st.scan, rfl⟩
  | double => exact ⟨_, _, _, arrBlock_sim lv _ _ st.scan, rfl⟩
  | integer => exact ⟨_, _, _, arrBlock_sim lv _ _ st.scan, rfl⟩
  | objBegin => cases hsc
  | objEnd => cases hsc
  | arrBegin => cases hsc
  | arrEnd => cases hsc
  | error => cases hsc
  | fieldName => cases hsc

end Binson
