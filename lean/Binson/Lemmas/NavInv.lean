/-
  Layer 4, part 12: the agreement invariant between the machine and the reference cursor.
-/
import Binson.Lemmas.NavItem
namespace Binson

/-- the open arrays of one state entry are well formed and within the nesting budget -/
def NArrsOk (d : Nat) : List Elems → Prop
  | [] => True
  | xs :: r => wfElems xs = true ∧ fitsE d (255 - (r.length + 1)) xs = true ∧ NArrsOk d r

/-- state entry `j` describes `L` (flags apart) -/
structure LvlOk (p : Parser) (j : Nat) (L : RLevel) : Prop where
  ad : (p.getLvl j).ad = L.arrs.length
  name : (p.getLvl j).name.map p.slice = L.prev
  base : ∀ fs, L.base = some fs → wfFields L.prev fs = true ∧ fitsF (p.maxDepth - (j + 1)) fs = true
  arrs : NArrsOk (p.maxDepth - (j + 1)) L.arrs

/-- flags of an entry between two children / in front of a child `next` stopped at -/
def nflags (L : RLevel) : Flags := match L.arrs with | [] => .expField | _ :: _ => .arr1
def pflags (L : RLevel) : Flags := match L.arrs with | [] => .expValue | _ :: _ => .arr2

/-- the entries below the current one: suspended inside the child that was entered -/
def SuspOk (p : Parser) : List RLevel → Prop
  | [] => True
  | L :: r => LvlOk p r.length L ∧ (p.getLvl r.length).flags = nflags L ∧ SuspOk p r

/-- every entry has an object at its base, except the bottom one of an array document -/
def BaseOk (ar : Bool) : RLevel → List RLevel → Prop
  | L, [] => (L.base = none ↔ ar = true) ∧ (L.base = none → L.arrs ≠ [])
  | L, L' :: r => L.base ≠ none ∧ BaseOk ar L' r

/-- the child made current by the last `next`/lookup: a scalar (consumed, its type in the entry), or
    a container still in front of the cursor -/
def Pend (p : Parser) (c : Cursor) (j : Nat) (L : RLevel) (T : Bytes) : Option Value → Prop
  | none => p.rem = T ∧ (p.getLvl j).flags = nflags L ∧
      (c.cur = none ∨ ∃ n, c.cur = some n ∧ (p.getLvl j).ctype = n.item.ty ∧ n.item.ty ≠ .object ∧ n.item.ty ≠ .array)
  | some v => v.isContainer = true ∧ p.rem = encode v ++ T ∧ (p.getLvl j).flags = pflags L ∧
      (∃ nm, c.cur = some (annotate nm p.used v)) ∧ (p.getLvl j).ctype = (annotate none 0 v).item.ty ∧
      wfValue v = true ∧ fits (p.maxDepth - (j + 1)) (255 - L.arrs.length) v = true

/-- machine `p` and cursor `c` are inside the document: current entry `L`, entries below `Ls` -/
structure Run (p : Parser) (c : Cursor) (L : RLevel) (Ls : List RLevel) (pend : Option Value) : Prop where
  shape : Shape p
  err : p.err = .none
  md : p.maxDepth ≤ 255
  depth : p.depth = Ls.length + 1
  zeros : ∀ i, p.depth ≤ i → p.getLvl i = Level.zero
  aroot : c.arrayRoot = true ↔ p.ptype = 2
  base : BaseOk c.arrayRoot L Ls
  top : LvlOk p Ls.length L
  susp : SuspOk p Ls
  frames : c.frames = cframes p.size (flat (L :: Ls))
  root : c.root = none
  done : c.done = false
  pend : Pend p c Ls.length L (tailBytes (flat (L :: Ls))) pend

/-- the agreement relation: before the root is entered, inside, after the root has been left -/
inductive Agree (p : Parser) (c : Cursor) : Prop
  | start (root : Root) (v : Value) (hc : c = Cursor.start root v)
      (hF : Fresh p (encode v).toArray (rootNum root) p.maxDepth) (hmd : p.maxDepth ≤ 255)
      (hwf : wfDoc root p.maxDepth v = true) : Agree p c
  | run (L : RLevel) (Ls : List RLevel) (pend : Option Value) (h : Run p c L Ls pend) : Agree p c
  | done (hf : c.frames = []) (hd : c.done = true) : Agree p c

/-- what `NavOk` asks of one call -/
def Obs (p : Parser) (c : Cursor) (op : COp) : Prop :=
  (machNav p op).2.1 = (c.step op).2.ok ∧
  (machNav p op).2.2 = (if (c.step op).2.ok then (c.step op).2.raw else none) ∧
  (machNav p op).1.err = .none ∧
  (machNav p op).1.fault = false ∧ (machNav p op).1.oof = false ∧
  getDepth (machNav p op).1 = (c.step op).1.depth ∧
  (∀ it, (c.step op).2.item = some it → ItemMatches (machNav p op).1 it)

theorem SuspOk.transfer {p q : Parser} : ∀ {Ls : List RLevel}, SuspOk p Ls → (∀ i, i < Ls.length → q.getLvl i = p.getLvl i) →
    q.buf = p.buf → q.maxDepth = p.maxDepth → SuspOk q Ls
  | [], _, _, _, _ => trivial
  | L :: r, h, hl, hb, hm => by
    obtain ⟨⟨a1, a2, a3, a4⟩, b, c⟩ := h
    have e := hl r.length (by simp)
    refine ⟨⟨by rw [e]; exact a1, ?_, by rw [hm]; exact a3, by rw [hm]; exact a4⟩, by rw [e]; exact b,
      SuspOk.transfer c (fun i hi => hl i (by simp; omega)) hb hm⟩
    rw [e, ← a2]
    cases (p.getLvl r.length).name with
    | none => rfl
    | some s => simp only [Option.map]; rw [slice_congr hb]

theorem objCount_append (a b : List RFrame) : objCount (a ++ b) = objCount a + objCount b := by
  unfold objCount; simp

theorem objCount_arrs (l : List Elems) : objCount (l.map RFrame.arr) = 0 := by
  unfold objCount
  induction l with
  | nil => rfl
  | cons x r ih => simpa [RFrame.isObj] using ih

theorem objCount_flat (ar : Bool) : ∀ (Ls : List RLevel) (L : RLevel), BaseOk ar L Ls →
    objCount (flat (L :: Ls)) + (if ar then 1 else 0) = Ls.length + 1
  | [], L, h => by
    obtain ⟨h1, _⟩ := h
    simp only [flat, RLevel.frames, List.append_nil, objCount_append, objCount_arrs, List.length_nil]
    cases hb : L.base with
    | none => have := h1.mp hb; simp [this, objCount]
    | some fs =>
      have : ar = false := by
        cases ar with
        | false => rfl
        | true => have := h1.mpr rfl; rw [hb] at this; cases this
      have h1o : objCount [RFrame.obj fs] = 1 := rfl
      simp [this, h1o]
  | L' :: r, L, h => by
    obtain ⟨h1, h2⟩ := h
    have ih := objCount_flat ar r L' h2
    have : flat (L :: L' :: r) = L.frames ++ flat (L' :: r) := rfl
    rw [this, objCount_append]
    cases hb : L.base with
    | none => exact absurd hb h1
    | some fs =>
      simp only [RLevel.frames, hb, objCount_append, objCount_arrs, List.length_cons]
      have : objCount [RFrame.obj fs] = 1 := rfl
      omega

namespace Run

variable {p : Parser} {c : Cursor} {L : RLevel} {Ls : List RLevel} {pend : Option Value}

theorem lvlIdx (h : Run p c L Ls pend) : p.lvlIdx = Ls.length := by
  unfold Parser.lvlIdx; rw [h.depth]; simp

theorem cur (h : Run p c L Ls pend) : p.cur = Ls.length := by rw [h.shape.hcur, h.lvlIdx]

theorem cdepth (h : Run p c L Ls pend) : c.depth = p.depth := by
  unfold Cursor.depth Cursor.objDepth
  rw [h.frames, cframes_objCount, h.depth]
  exact objCount_flat c.arrayRoot Ls L h.base

theorem rootArr (h : Run p c L Ls pend) : p.ptype = 2 → p.depth = 1 → 1 ≤ (p.getLvl Ls.length).ad := by
  intro h1 h2
  have hl : Ls = [] := by
    have := h.depth; rw [h2] at this
    cases Ls with
    | nil => rfl
    | cons _ _ => simp at this
  have hb := h.base
  rw [hl] at hb
  obtain ⟨b1, b2⟩ := hb
  have hn := b2 (b1.mpr (h.aroot.mpr h1))
  rw [h.top.ad]
  cases ha : L.arrs with
  | nil => exact absurd ha hn
  | cons _ _ => simp

/-- the loop state a navigation call starts in is at its own originating level -/
theorem atOrig (h : Run p c L Ls pend) (scan : Scan) : AtOrig ⟨p, some scan, 0, []⟩ (p.getLvl p.cur).ad p.depth :=
  ⟨h.shape, h.err, by rw [h.depth]; omega, rfl, by rw [h.shape.hcur], h.zeros, h.md,
    fun h1 h2 => by rw [h.lvlIdx]; exact h.rootArr h1 h2⟩

end Run

end Binson
