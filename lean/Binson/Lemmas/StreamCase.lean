/-
  C08 (streaming traversal is as strict as verify), part 1: what the six token cases of the
  loop body do to the parser object, for EVERY scan mode, originating level and lookup name.
  Only the parser component of the result is described (error flag, cursor, depth, levels).
-/
import Binson.Lemmas.VerifySound
import Binson.Lemmas.StreamDefs
namespace Binson

theorem finish_p (st : LoopSt) (tok : Tok) (p : Parser) (lv : Level) (li : Nat) (scan : Option Scan) (force : Bool) :
    (finish st tok p lv li scan force).1.p = p.setLvl li lv := by
  unfold finish
  dsimp only
  split
  · rfl
  · split <;> rfl

/-- the level once an array has been opened in it (the `current_type` is set by the classification stage) -/
def arrInnerLevel' (l : Level) : Level := { l with flags := .arr1, ad := l.ad + 1 }

/-- `{` -/
theorem caseObjBegin_res (st : LoopSt) (p : Parser) (lv : Level) (li : Nat) (scan : Option Scan)
    (hs : Shape p) (he : p.err = .none) (hli : li < p.levels.size)
    (R : Parser) (hR : R = (caseObjBegin st p lv li scan).1.p) :
    R.err ≠ .none ∨
    (R.err = .none ∧ R.used = p.used + 1 ∧ R.depth = p.depth + 1 ∧ p.depth < p.maxDepth ∧
      ∀ j, R.getLvl j = if j = p.depth then { (if p.depth = li then lv else p.getLvl p.depth) with flags := .expField }
                        else if j = li then lv else p.getLvl j) ∨
    (R.err = .none ∧ R.used = p.used ∧ R.depth = p.depth ∧
      ∀ j, R.getLvl j = if j = li then (if lv.flags = .expField then { lv with flags := .expValue } else lv) else p.getLvl j) := by
  unfold caseObjBegin at hR
  by_cases hm : has scan [.verify, .enterObj, .value, .leaveArr, .leaveObj] = true
  · rw [if_pos hm] at hR
    have f := setLvl_fields (p := p) lv hli
    simp only at f
    obtain ⟨_, f2, f3, _, f5, _, f7, _, _, _, f11⟩ := f
    have hg := getLvl_setLvl (p := p) lv hli
    generalize p.setLvl li lv = w at hR f2 f3 f5 f7 f11 hg
    dsimp only at hR
    by_cases hc : w.depth < 255 ∧ w.depth < w.maxDepth
    · rw [if_pos hc] at hR
      have hcur : ({ w with used := w.used + 1, depth := w.depth + 1, cur := w.depth + 1 - 1 } : Parser).cur
          < ({ w with used := w.used + 1, depth := w.depth + 1, cur := w.depth + 1 - 1 } : Parser).levels.size := by
        show w.depth + 1 - 1 < w.levels.size
        rw [f11, hs.hlv, ← f3]; omega
      rw [touchLvl_of_lt hcur, finish_p] at hR
      have g := setLvl_fields (p := ({ w with used := w.used + 1, depth := w.depth + 1, cur := w.depth + 1 - 1 } : Parser))
        { ({ w with used := w.used + 1, depth := w.depth + 1, cur := w.depth + 1 - 1 } : Parser).getLvl (w.depth + 1 - 1) with flags := .expField } hcur
      simp only at g
      obtain ⟨_, g2, _, _, g5, _, g7, _, _, _, _⟩ := g
      have hgg := getLvl_setLvl (p := ({ w with used := w.used + 1, depth := w.depth + 1, cur := w.depth + 1 - 1 } : Parser))
        { ({ w with used := w.used + 1, depth := w.depth + 1, cur := w.depth + 1 - 1 } : Parser).getLvl (w.depth + 1 - 1) with flags := .expField } hcur
      rw [← hR] at g2 g5 g7 hgg
      refine Or.inr (Or.inl ⟨g7.trans (f7.trans he), g5.trans (by show w.used + 1 = _; rw [f5]), g2.trans (by show w.depth + 1 = _; rw [f2]),
        by rw [← f2, ← f3]; exact hc.2, ?_⟩)
      intro j
      rw [hgg j]
      have e1 : w.depth + 1 - 1 = p.depth := by rw [f2]; omega
      show (if j = w.depth + 1 - 1 then { w.getLvl (w.depth + 1 - 1) with flags := Flags.expField } else w.getLvl j) = _
      rw [e1, hg, hg]
    · rw [if_neg hc, finish_p] at hR
      left
      rw [hR, setLvl_err]
      exact fun h => nomatch h
  · rw [if_neg hm, finish_p] at hR
    have f := setLvl_fields (p := p) (if lv.flags = .expField then { lv with flags := .expValue } else lv) hli
    simp only at f
    obtain ⟨_, f2, _, _, f5, _, f7, _, _, _, _⟩ := f
    have hg := getLvl_setLvl (p := p) (if lv.flags = .expField then { lv with flags := .expValue } else lv) hli
    rw [← hR] at f2 f5 f7 hg
    exact Or.inr (Or.inr ⟨f7.trans he, f5, f2, hg⟩)

/-- `[` -/
theorem caseArrBegin_res (st : LoopSt) (p : Parser) (lv : Level) (li : Nat) (scan : Option Scan)
    (he : p.err = .none) (hli : li < p.levels.size)
    (R : Parser) (hR : R = (caseArrBegin st p lv li scan).1.p) :
    R.err ≠ .none ∨
    (R.err = .none ∧ R.used = p.used + 1 ∧ R.depth = p.depth ∧ lv.ad < 255 ∧
      ∀ j, R.getLvl j = if j = li then arrInnerLevel' lv else p.getLvl j) ∨
    (R.err = .none ∧ R.used = p.used ∧ R.depth = p.depth ∧
      ∀ j, R.getLvl j = if j = li then (if lv.flags = .expField then { lv with flags := .expValue } else lv) else p.getLvl j) := by
  unfold caseArrBegin at hR
  by_cases ha : lv.ad ≥ 255
  · rw [if_pos ha, finish_p] at hR
    left
    rw [hR, setLvl_err]
    exact fun h => nomatch h
  rw [if_neg ha] at hR
  by_cases hm : has scan [.verify, .value, .enterArr, .leaveArr, .leaveObj] = true
  · rw [if_pos hm] at hR
    dsimp only at hR
    rw [finish_p] at hR
    have f := setLvl_fields (p := ({ p with used := p.used + 1 } : Parser)) { lv with flags := .arr1, ad := lv.ad + 1 } hli
    simp only at f
    obtain ⟨_, f2, _, _, f5, _, f7, _, _, _, _⟩ := f
    have hg := getLvl_setLvl (p := ({ p with used := p.used + 1 } : Parser)) { lv with flags := .arr1, ad := lv.ad + 1 } hli
    rw [← hR] at f2 f5 f7 hg
    exact Or.inr (Or.inl ⟨f7.trans he, f5, f2, by omega, hg⟩)
  · rw [if_neg hm, finish_p] at hR
    have f := setLvl_fields (p := p) (if lv.flags = .expField then { lv with flags := .expValue } else lv) hli
    simp only at f
    obtain ⟨_, f2, _, _, f5, _, f7, _, _, _, _⟩ := f
    have hg := getLvl_setLvl (p := p) (if lv.flags = .expField then { lv with flags := .expValue } else lv) hli
    rw [← hR] at f2 f5 f7 hg
    exact Or.inr (Or.inr ⟨f7.trans he, f5, f2, hg⟩)

theorem getLvl_setLvl_self (p : Parser) (i j : Nat) : (p.setLvl i (p.getLvl i)).getLvl j = p.getLvl j := by
  by_cases h : i < p.levels.size
  · rw [getLvl_setLvl _ h]
    split
    · rename_i e; rw [e]
    · rfl
  · unfold Parser.setLvl; rw [if_neg h]; rfl

theorem setLvl_used (p : Parser) (i : Nat) (l : Level) : (p.setLvl i l).used = p.used := by
  unfold Parser.setLvl; split <;> rfl
theorem setLvl_depth (p : Parser) (i : Nat) (l : Level) : (p.setLvl i l).depth = p.depth := by
  unfold Parser.setLvl; split <;> rfl
theorem setLvl_size (p : Parser) (i : Nat) (l : Level) : (p.setLvl i l).size = p.size := by
  unfold Parser.setLvl; split <;> rfl

/-- `}` -/
theorem caseObjEnd_res (st : LoopSt) (p : Parser) (lv : Level) (li : Nat) (scan : Option Scan) (od : Nat)
    (he : p.err = .none) (hli : li < p.levels.size) (hcur : p.cur = li)
    (R : Parser) (hR : R = (caseObjEnd st p lv li scan od).1.p) :
    R.err ≠ .none ∨
    (lv.flags = .expField ∧ R.err = .none ∧ R.used = p.used ∧ R.depth = p.depth ∧
      ∀ j, R.getLvl j = if j = li then lv else p.getLvl j) ∨
    (lv.flags = .expField ∧ 1 < p.depth ∧ R.err = .none ∧ R.used = p.used + 1 ∧ R.depth = p.depth - 1 ∧
      ∀ j, R.getLvl j = if j = li then Level.zero else p.getLvl j) ∨
    (lv.flags = .expField ∧ p.depth = 1 ∧ R.err = .none ∧ R.used = p.used + 1 ∧ R.used = R.size ∧ R.depth = 0) := by
  unfold caseObjEnd at hR
  by_cases hf : lv.flags ≠ .expField
  · rw [if_pos hf, finish_p] at hR
    left
    rw [hR, setLvl_err]
    exact fun h => nomatch h
  rw [if_neg hf] at hR
  have hf' : lv.flags = .expField := Classical.not_not.mp hf
  have f := setLvl_fields (p := p) lv hli
  simp only at f
  obtain ⟨_, f2, _, f4, f5, _, f7, f8, _, _, f11⟩ := f
  have hg := getLvl_setLvl (p := p) lv hli
  have unchanged : R = p.setLvl li lv → R.err ≠ .none ∨
    (lv.flags = .expField ∧ R.err = .none ∧ R.used = p.used ∧ R.depth = p.depth ∧
      ∀ j, R.getLvl j = if j = li then lv else p.getLvl j) ∨
    (lv.flags = .expField ∧ 1 < p.depth ∧ R.err = .none ∧ R.used = p.used + 1 ∧ R.depth = p.depth - 1 ∧
      ∀ j, R.getLvl j = if j = li then Level.zero else p.getLvl j) ∨
    (lv.flags = .expField ∧ p.depth = 1 ∧ R.err = .none ∧ R.used = p.used + 1 ∧ R.used = R.size ∧ R.depth = 0) := by
    intro e
    rw [← e] at f2 f5 f7 hg
    exact Or.inr (Or.inl ⟨hf', f7.trans he, f5, f2, hg⟩)
  by_cases hm : has scan [.verify, .leaveObj, .value, .leaveArr] = true
  · rw [if_pos hm] at hR
    dsimp only at hR
    generalize (if od = p.depth then clear scan .leaveObj else scan) = scan' at hR
    by_cases hv : od = p.depth ∧ has scan' [.value] = true
    · rw [if_pos hv] at hR
      exact unchanged hR
    rw [if_neg hv] at hR
    generalize p.setLvl li lv = w at hR f2 f4 f5 f7 f8 f11 hg
    have hcur1 : ({ w with used := w.used + 1 } : Parser).cur < ({ w with used := w.used + 1 } : Parser).levels.size := by
      show w.cur < w.levels.size
      rw [f8, f11, hcur]; exact hli
    rw [touchLvl_of_lt hcur1] at hR
    have g := setLvl_fields (p := ({ w with used := w.used + 1 } : Parser)) Level.zero hcur1
    simp only at g
    obtain ⟨_, g2, _, g4, g5, _, g7, _, _, _, _⟩ := g
    have hgg := getLvl_setLvl (p := ({ w with used := w.used + 1 } : Parser)) Level.zero hcur1
    generalize ({ w with used := w.used + 1 } : Parser).setLvl ({ w with used := w.used + 1 } : Parser).cur Level.zero = x at hR g2 g4 g5 g7 hgg
    have x2 : x.depth = p.depth := g2.trans f2
    have x4 : x.size = p.size := g4.trans f4
    have x5 : x.used = p.used + 1 := g5.trans (by show w.used + 1 = _; rw [f5])
    have x7 : x.err = .none := g7.trans (f7.trans he)
    have xg : ∀ j, x.getLvl j = if j = li then Level.zero else p.getLvl j := by
      intro j
      rw [hgg j]
      show (if j = w.cur then Level.zero else w.getLvl j) = _
      rw [f8, hcur, hg]
      split
      · rfl
      · rfl
    by_cases hd : x.depth > 1
    · rw [if_pos hd] at hR
      try dsimp only at hR
      rw [finish_p] at hR
      refine Or.inr (Or.inr (Or.inl ⟨hf', by omega, ?_, ?_, ?_, ?_⟩))
      · rw [hR, setLvl_err]; exact x7
      · rw [hR, setLvl_used]; exact x5
      · rw [hR, setLvl_depth]; show x.depth - 1 = _; rw [x2]
      · intro j
        rw [hR]
        have := getLvl_setLvl_self ({ x with depth := x.depth - 1, cur := x.depth - 1 - 1 } : Parser) (x.depth - 1 - 1) j
        rw [this]
        exact xg j
    · rw [if_neg hd] at hR
      by_cases hd1 : x.depth = 1
      · rw [if_pos hd1] at hR
        dsimp only at hR
        by_cases hu : x.used ≠ x.size
        · left
          rw [hR]
          show (if x.used ≠ x.size then ({ x with depth := 0, cur := 0, err := Err.format } : Parser) else { x with depth := 0, cur := 0 }).err ≠ .none
          rw [if_pos hu]
          exact fun h => nomatch h
        · have hu' : x.used = x.size := Classical.not_not.mp hu
          have e : R = { x with depth := 0, cur := 0 } := by
            rw [hR]
            show (if x.used ≠ x.size then ({ x with depth := 0, cur := 0, err := Err.format } : Parser) else { x with depth := 0, cur := 0 }) = _
            rw [if_neg hu]
          refine Or.inr (Or.inr (Or.inr ⟨hf', by omega, ?_, ?_, ?_, ?_⟩))
          · rw [e]; exact x7
          · rw [e]; exact x5
          · rw [e]; exact hu'
          · rw [e]
      · rw [if_neg hd1] at hR
        left
        rw [hR]
        exact fun h => nomatch h
  · rw [if_neg hm] at hR
    exact unchanged hR

/-- `]` -/
theorem caseArrEnd_res (st : LoopSt) (p : Parser) (lv : Level) (li : Nat) (scan : Option Scan) (oa od : Nat)
    (he : p.err = .none) (hli : li < p.levels.size)
    (R : Parser) (hR : R = (caseArrEnd st p lv li scan oa od).1.p) :
    R.err ≠ .none ∨
    (lv.flags.inArray = true ∧ R.err = .none ∧ R.used = p.used ∧ R.depth = p.depth ∧
      ∀ j, R.getLvl j = if j = li then lv else p.getLvl j) ∨
    (lv.flags.inArray = true ∧ 1 ≤ lv.ad ∧ ¬ (lv.ad = 1 ∧ p.ptype = 2 ∧ p.depth = 1) ∧
      R.err = .none ∧ R.used = p.used + 1 ∧ R.depth = p.depth ∧
      ∀ j, R.getLvl j = if j = li then arrEndLevel lv else p.getLvl j) ∨
    (lv.flags.inArray = true ∧ lv.ad = 1 ∧ p.ptype = 2 ∧ p.depth = 1 ∧ R.err = .none ∧ R.used = p.used + 1 ∧ R.used = R.size) := by
  unfold caseArrEnd at hR
  by_cases hfn : (!lv.flags.inArray) = true
  · rw [if_pos hfn, finish_p] at hR
    left
    rw [hR, setLvl_err]
    exact fun h => nomatch h
  have hf : lv.flags.inArray = true := by simpa using hfn
  have hf0 : ¬ (!lv.flags.inArray) = true := by simp [hf]
  rw [if_neg hf0] at hR
  by_cases hm : has scan [.verify, .value, .leaveArr, .leaveObj] = true
  · rw [if_pos hm] at hR
    dsimp only at hR
    generalize (if od = p.depth ∧ oa = lv.ad then clear scan .leaveArr else scan) = scan' at hR
    by_cases ha0 : lv.ad = 0
    · rw [if_pos ha0, finish_p] at hR
      left
      rw [hR, setLvl_err]
      exact fun h => nomatch h
    rw [if_neg ha0] at hR
    have fin : ∀ (R : Parser) (L : Level), R = ({ p with used := p.used + 1 } : Parser).setLvl li L →
        R.err = .none ∧ R.used = p.used + 1 ∧ R.depth = p.depth ∧ ∀ j, R.getLvl j = if j = li then L else p.getLvl j := by
      intro R L e
      have f := setLvl_fields (p := ({ p with used := p.used + 1 } : Parser)) L hli
      simp only at f
      obtain ⟨_, f2, _, _, f5, _, f7, _, _, _, _⟩ := f
      have hg := getLvl_setLvl (p := ({ p with used := p.used + 1 } : Parser)) L hli
      rw [← e] at f2 f5 f7 hg
      exact ⟨f7.trans he, f5, f2, hg⟩
    by_cases ha1 : lv.ad - 1 = 0
    · rw [if_pos ha1] at hR
      try dsimp only at hR
      by_cases hroot : p.ptype = 2 ∧ p.depth = 1
      · rw [if_pos hroot] at hR
        generalize hw : ({ p with used := p.used + 1 } : Parser).setLvl li { lv with ad := lv.ad - 1, flags := .expField } = w at hR
        obtain ⟨w7, w5, _, _⟩ := fin w _ hw.symm
        by_cases hu : w.used ≠ w.size
        · left
          rw [hR]
          show (if w.used ≠ w.size then ({ w with err := Err.format } : Parser) else w).err ≠ .none
          rw [if_pos hu]
          exact fun h => nomatch h
        · have e : R = w := by
            rw [hR]
            show (if w.used ≠ w.size then ({ w with err := Err.format } : Parser) else w) = _
            rw [if_neg hu]
          refine Or.inr (Or.inr (Or.inr ⟨hf, by omega, hroot.1, hroot.2, ?_, ?_, ?_⟩))
          · rw [e]; exact w7
          · rw [e]; exact w5
          · rw [e]; exact Classical.not_not.mp hu
      · rw [if_neg hroot, finish_p] at hR
        obtain ⟨r7, r5, r2, rg⟩ := fin R _ hR
        refine Or.inr (Or.inr (Or.inl ⟨hf, by omega, fun h => hroot ⟨h.2.1, h.2.2⟩, r7, r5, r2, ?_⟩))
        intro j
        rw [rg j]
        unfold arrEndLevel
        simp only [ha1, if_true]
    · rw [if_neg ha1, finish_p] at hR
      obtain ⟨r7, r5, r2, rg⟩ := fin R _ hR
      refine Or.inr (Or.inr (Or.inl ⟨hf, by omega, fun h => ha1 (by omega), r7, r5, r2, ?_⟩))
      intro j
      rw [rg j]
      unfold arrEndLevel
      simp only [ha1, if_false]
  · rw [if_neg hm] at hR
    have hR' : R = p.setLvl li lv := hR
    have f := setLvl_fields (p := p) lv hli
    simp only at f
    obtain ⟨_, f2, _, _, f5, _, f7, _, _, _, _⟩ := f
    have hg := getLvl_setLvl (p := p) lv hli
    rw [← hR'] at f2 f5 f7 hg
    exact Or.inr (Or.inl ⟨hf, f7.trans he, f5, f2, hg⟩)

/-- a field name -/
theorem caseFieldName_res (st : LoopSt) (p : Parser) (lv : Level) (li : Nat) (scan : Option Scan)
    (consumed : Span) (bc : Nat) (sn : Option (List UInt8)) (oa od : Nat)
    (he : p.err = .none) (hli : li < p.levels.size)
    (hc : consumed.off + consumed.len ≤ p.buf.size) (hn : ∀ pn, lv.name = some pn → pn.off + pn.len ≤ p.buf.size)
    (R : Parser) (hR : R = (caseFieldName st p lv li scan consumed bc sn oa od).1.p) :
    R.err ≠ .none ∨
    (R.err = .none ∧ R.used = p.used - bc ∧ R.depth = p.depth ∧
      ∀ j, R.getLvl j = if j = li then { lv with flags := .expField } else p.getLvl j) ∨
    (nameOrdErr p lv consumed = false ∧ R.err = .none ∧ R.used = p.used ∧ R.depth = p.depth ∧
      ∀ j, R.getLvl j = if j = li then nameLevel lv consumed else p.getLvl j) := by
  unfold caseFieldName at hR
  have htn : touchName (p.touchBuf consumed.off consumed.len) lv.name = p := by
    rw [touchBuf_of_le hc]
    unfold touchName
    cases hnm : lv.name with
    | none => rfl
    | some pn => exact touchBuf_of_le (hn pn hnm)
  rw [htn] at hR
  dsimp only at hR
  by_cases ho : nameOrdErr p lv consumed = true
  · rw [if_pos ho, finish_p] at hR
    left
    rw [hR, setLvl_err]
    exact fun h => nomatch h
  rw [if_neg ho] at hR
  have ho' : nameOrdErr p lv consumed = false := by simpa using ho
  have stored : R = p.setLvl li { lv with name := some consumed, flags := .expValue } →
      (nameOrdErr p lv consumed = false ∧ R.err = .none ∧ R.used = p.used ∧ R.depth = p.depth ∧
        ∀ j, R.getLvl j = if j = li then nameLevel lv consumed else p.getLvl j) := by
    intro e
    have f := setLvl_fields (p := p) { lv with name := some consumed, flags := .expValue } hli
    simp only at f
    obtain ⟨_, f2, _, _, f5, _, f7, _, _, _, _⟩ := f
    have hg := getLvl_setLvl (p := p) { lv with name := some consumed, flags := .expValue } hli
    rw [← e] at f2 f5 f7 hg
    exact ⟨ho', f7.trans he, f5, f2, hg⟩
  by_cases horig : oa = lv.ad ∧ od = p.depth
  · rw [if_pos horig] at hR
    by_cases hov : overshoot p consumed sn = true
    · rw [if_pos hov] at hR
      have hR' : R = ({ p with used := p.used - bc } : Parser).setLvl li { lv with flags := .expField } := hR
      have f := setLvl_fields (p := ({ p with used := p.used - bc } : Parser)) { lv with flags := .expField } hli
      simp only at f
      obtain ⟨_, f2, _, _, f5, _, f7, _, _, _, _⟩ := f
      have hg := getLvl_setLvl (p := ({ p with used := p.used - bc } : Parser)) { lv with flags := .expField } hli
      rw [← hR'] at f2 f5 f7 hg
      exact Or.inr (Or.inl ⟨f7.trans he, f5, f2, hg⟩)
    · rw [if_neg hov, finish_p] at hR
      exact Or.inr (Or.inr (stored hR))
  · rw [if_neg horig, finish_p] at hR
    exact Or.inr (Or.inr (stored hR))

/-- a scalar value token -/
theorem caseScalar_res (st : LoopSt) (tok : Tok) (p : Parser) (lv : Level) (li : Nat) (scan : Option Scan) (consumed : Span)
    (he : p.err = .none) (hli : li < p.levels.size) (hc : consumed.off + consumed.len ≤ p.buf.size)
    (hsc : tok.isScalar = true)
    (R : Parser) (hR : R = (caseScalar st tok p lv li scan consumed).1.p) :
    R.err ≠ .none ∨
    ((tok = .integer → intBoundsOk (parseIntVal p consumed) consumed.len = true) ∧
      R.err = .none ∧ R.used = p.used ∧ R.depth = p.depth ∧
      ∀ j, R.getLvl j = if j = li then scalarStore tok lv consumed p else p.getLvl j) := by
  have fin : ∀ L : Level, R = p.setLvl li L →
      R.err = .none ∧ R.used = p.used ∧ R.depth = p.depth ∧ ∀ j, R.getLvl j = if j = li then L else p.getLvl j := by
    intro L e
    have f := setLvl_fields (p := p) L hli
    simp only at f
    obtain ⟨_, f2, _, _, f5, _, f7, _, _, _, _⟩ := f
    have hg := getLvl_setLvl (p := p) L hli
    rw [← e] at f2 f5 f7 hg
    exact ⟨f7.trans he, f5, f2, hg⟩
  unfold caseScalar at hR
  cases tok with
  | string =>
    dsimp only at hR
    rw [finish_p] at hR
    exact Or.inr ⟨(fun h => nomatch h), fin _ hR⟩
  | bytes =>
    dsimp only at hR
    rw [finish_p] at hR
    exact Or.inr ⟨(fun h => nomatch h), fin _ hR⟩
  | boolean =>
    dsimp only at hR
    rw [finish_p] at hR
    exact Or.inr ⟨(fun h => nomatch h), fin _ hR⟩
  | double =>
    dsimp only at hR
    rw [touchBuf_of_le hc, finish_p] at hR
    exact Or.inr ⟨(fun h => nomatch h), fin _ hR⟩
  | integer =>
    dsimp only at hR
    rw [touchBuf_of_le hc] at hR
    by_cases hb : intBoundsOk (parseIntVal p consumed) consumed.len = true
    · have : ¬ (!intBoundsOk (parseIntVal p consumed) consumed.len) = true := by simp [hb]
      rw [if_neg this, finish_p] at hR
      exact Or.inr ⟨fun _ => hb, fin _ hR⟩
    · have : (!intBoundsOk (parseIntVal p consumed) consumed.len) = true := by simpa using hb
      rw [if_pos this, finish_p] at hR
      left
      rw [hR, setLvl_err]
      exact fun h => nomatch h
  | objBegin => cases hsc
  | objEnd => cases hsc
  | arrBegin => cases hsc
  | arrEnd => cases hsc
  | error => cases hsc
  | fieldName => cases hsc

end Binson
