/-
  C15, serialize half, top file: `Binson::serialize()` after `put()` calls in any order returns
  the canonical encoding of the key-sorted tree (names ascending regardless of insertion
  order), and `binson_parser_verify` at depth 10 accepts it.

  Parts:  Lemmas/CppSerMap (the `std::map` model, `putAll = sortKeys`),
          Lemmas/CppSerRun (`cppSerialize fs = encode (.obj fs)`, both paths).
-/
import Binson.Lemmas.CppSerMap
import Binson.Lemmas.CppSerRun
import Binson.Lemmas.VerifyValid
namespace Binson

/-! ### what `put` preserves: lengths, well-formedness, depth, size -/

theorem lensOkF_mapPut : ∀ (F : Fields) (k : Bytes) (v : Value), lensOkF F = true →
    k.length ≤ INT32_MAX → lensOk v = true → lensOkF (mapPut F k v) = true
  | .nil, k, v, _, hk, hv => by simp [mapPut, lensOkF, hk, hv]
  | .cons n x r, k, v, h, hk, hv => by
    have hh : (n.length ≤ INT32_MAX ∧ lensOk x = true) ∧ lensOkF r = true := by simpa [lensOkF] using h
    rw [mapPut_cons]
    by_cases h1 : bytesLt k n = true
    · rw [if_pos h1]; simp [lensOkF, hk, hv, hh.1.1, hh.1.2, hh.2]
    · by_cases h2 : bytesLt n k = true
      · rw [if_neg h1, if_pos h2]
        simp [lensOkF, hh.1.1, hh.1.2, lensOkF_mapPut r k v hh.2 hk hv]
      · rw [if_neg h1, if_neg h2]
        simp [lensOkF, hv, hh.1.1, hh.2]

mutual
theorem lensOk_putAll (v : Value) (h : lensOk v = true) : lensOk (putAll v) = true := by
  cases v with
  | bool b => simpa [putAll] using h
  | int i => simpa [putAll] using h
  | dbl d => simpa [putAll] using h
  | str s => simpa [putAll] using h
  | bytes s => simpa [putAll] using h
  | arr xs =>
    have hx : lensOkE xs = true := by simpa [lensOk] using h
    simpa [putAll, lensOk] using lensOkE_putAllE xs hx
  | obj fs =>
    have hf : lensOkF fs = true := by simpa [lensOk] using h
    simpa [putAll, lensOk] using lensOkF_putAllF fs .nil hf rfl
theorem lensOkF_putAllF (fs acc : Fields) (h : lensOkF fs = true) (ha : lensOkF acc = true) :
    lensOkF (putAllF fs acc) = true := by
  cases fs with
  | nil => simpa [putAllF] using ha
  | cons n v r =>
    have hh : (n.length ≤ INT32_MAX ∧ lensOk v = true) ∧ lensOkF r = true := by simpa [lensOkF] using h
    simp only [putAllF]
    exact lensOkF_putAllF r _ hh.2 (lensOkF_mapPut acc n _ ha hh.1.1 (lensOk_putAll v hh.1.2))
theorem lensOkE_putAllE (xs : Elems) (h : lensOkE xs = true) : lensOkE (putAllE xs) = true := by
  cases xs with
  | nil => simp [putAllE, lensOkE]
  | cons v r =>
    have hh : lensOk v = true ∧ lensOkE r = true := by simpa [lensOkE] using h
    simp [putAllE, lensOkE, lensOk_putAll v hh.1, lensOkE_putAllE r hh.2]
end

mutual
/-- `wfValue` without the name order: what each inserted value must satisfy
    (integers in int64, string / bytes / name lengths ≤ INT32_MAX) -/
def insOk : Value → Bool
  | .int i => decide (int64Min ≤ i ∧ i ≤ int64Max)
  | .str s => decide (s.length ≤ INT32_MAX)
  | .bytes s => decide (s.length ≤ INT32_MAX)
  | .arr xs => insOkE xs
  | .obj fs => insOkF fs
  | _ => true
def insOkE : Elems → Bool
  | .nil => true
  | .cons v r => insOk v && insOkE r
def insOkF : Fields → Bool
  | .nil => true
  | .cons n v r => decide (n.length ≤ INT32_MAX) && insOk v && insOkF r
end

mutual
theorem lensOk_of_insOk (v : Value) (h : insOk v = true) : lensOk v = true := by
  cases v with
  | bool b => simp [lensOk]
  | int i => simp [lensOk]
  | dbl d => simp [lensOk]
  | str s => simpa [lensOk, insOk] using h
  | bytes s => simpa [lensOk, insOk] using h
  | arr xs =>
    have hx : insOkE xs = true := by simpa [insOk] using h
    simpa [lensOk] using lensOkE_of_insOk xs hx
  | obj fs =>
    have hf : insOkF fs = true := by simpa [insOk] using h
    simpa [lensOk] using lensOkF_of_insOk fs hf
theorem lensOkE_of_insOk (xs : Elems) (h : insOkE xs = true) : lensOkE xs = true := by
  cases xs with
  | nil => simp [lensOkE]
  | cons v r =>
    have hh : insOk v = true ∧ insOkE r = true := by simpa [insOkE] using h
    simp [lensOkE, lensOk_of_insOk v hh.1, lensOkE_of_insOk r hh.2]
theorem lensOkF_of_insOk (fs : Fields) (h : insOkF fs = true) : lensOkF fs = true := by
  cases fs with
  | nil => simp [lensOkF]
  | cons n v r =>
    have hh : (n.length ≤ INT32_MAX ∧ insOk v = true) ∧ insOkF r = true := by simpa [insOkF] using h
    simp [lensOkF, hh.1.1, lensOk_of_insOk v hh.1.2, lensOkF_of_insOk r hh.2]
end

theorem wfFields_mapPut : ∀ (F : Fields) (prev : Option Bytes) (k : Bytes) (v : Value),
    wfFields prev F = true → nameAfter prev k = true → k.length ≤ INT32_MAX → wfValue v = true →
    wfFields prev (mapPut F k v) = true
  | .nil, prev, k, v, _, hk, hl, hv => by simp [mapPut, wfFields, hk, hl, hv]
  | .cons n x r, prev, k, v, h, hk, hl, hv => by
    have hh : ((nameAfter prev n = true ∧ n.length ≤ INT32_MAX) ∧ wfValue x = true) ∧ wfFields (some n) r = true := by
      simpa [wfFields] using h
    rw [mapPut_cons]
    by_cases h1 : bytesLt k n = true
    · rw [if_pos h1]
      simp [wfFields, hk, hl, hv, nameAfter_some, h1, hh.1.1.2, hh.1.2, hh.2]
    · by_cases h2 : bytesLt n k = true
      · rw [if_neg h1, if_pos h2]
        simp [wfFields, hh.1.1.1, hh.1.1.2, hh.1.2, wfFields_mapPut r (some n) k v hh.2 h2 hl hv]
      · rw [if_neg h1, if_neg h2]
        simp [wfFields, hh.1.1.1, hh.1.1.2, hv, hh.2]

mutual
/-- the tree built by `put()` calls from admissible values is well-formed, names ascending -/
theorem wfValue_putAll (v : Value) (h : insOk v = true) : wfValue (putAll v) = true := by
  cases v with
  | bool b => simp [putAll, wfValue]
  | int i => simpa [putAll, wfValue, insOk] using h
  | dbl d => simp [putAll, wfValue]
  | str s => simpa [putAll, wfValue, insOk] using h
  | bytes s => simpa [putAll, wfValue, insOk] using h
  | arr xs =>
    have hx : insOkE xs = true := by simpa [insOk] using h
    simpa [putAll, wfValue] using wfElems_putAllE xs hx
  | obj fs =>
    have hf : insOkF fs = true := by simpa [insOk] using h
    simpa [putAll, wfValue] using wfFields_putAllF fs .nil hf rfl
theorem wfFields_putAllF (fs acc : Fields) (h : insOkF fs = true) (ha : wfFields none acc = true) :
    wfFields none (putAllF fs acc) = true := by
  cases fs with
  | nil => simpa [putAllF] using ha
  | cons n v r =>
    have hh : (n.length ≤ INT32_MAX ∧ insOk v = true) ∧ insOkF r = true := by simpa [insOkF] using h
    simp only [putAllF]
    exact wfFields_putAllF r _ hh.2 (wfFields_mapPut acc none n _ ha rfl hh.1.1 (wfValue_putAll v hh.1.2))
theorem wfElems_putAllE (xs : Elems) (h : insOkE xs = true) : wfElems (putAllE xs) = true := by
  cases xs with
  | nil => simp [putAllE, wfElems]
  | cons v r =>
    have hh : insOk v = true ∧ insOkE r = true := by simpa [insOkE] using h
    simp [putAllE, wfElems, wfValue_putAll v hh.1, wfElems_putAllE r hh.2]
end

theorem fitsF_mapPut : ∀ (d : Nat) (F : Fields) (k : Bytes) (v : Value), fitsF d F = true →
    fits d 255 v = true → fitsF d (mapPut F k v) = true
  | d, .nil, k, v, _, hv => by simp [mapPut, fitsF, hv]
  | d, .cons n x r, k, v, h, hv => by
    have hh : fits d 255 x = true ∧ fitsF d r = true := by simpa [fitsF] using h
    rw [mapPut_cons]
    by_cases h1 : bytesLt k n = true
    · rw [if_pos h1]; simp [fitsF, hv, hh.1, hh.2]
    · by_cases h2 : bytesLt n k = true
      · rw [if_neg h1, if_pos h2]
        simp [fitsF, hh.1, fitsF_mapPut d r k v hh.2 hv]
      · rw [if_neg h1, if_neg h2]
        simp [fitsF, hv, hh.2]

mutual
/-- sorting / deduplicating keys does not increase nesting -/
theorem fits_putAll (d a : Nat) (v : Value) (h : fits d a v = true) : fits d a (putAll v) = true := by
  cases v with
  | bool b => simp [putAll, fits]
  | int i => simp [putAll, fits]
  | dbl b => simp [putAll, fits]
  | str s => simp [putAll, fits]
  | bytes s => simp [putAll, fits]
  | arr xs =>
    have hx : 1 ≤ a ∧ fitsE d (a - 1) xs = true := by simpa [fits] using h
    simp only [putAll, fits, Bool.and_eq_true, decide_eq_true_eq]
    exact ⟨hx.1, fitsE_putAllE d (a - 1) xs hx.2⟩
  | obj fs =>
    have hf : 1 ≤ d ∧ fitsF (d - 1) fs = true := by simpa [fits] using h
    simp only [putAll, fits, Bool.and_eq_true, decide_eq_true_eq]
    exact ⟨hf.1, fitsF_putAllF (d - 1) fs .nil hf.2 rfl⟩
theorem fitsF_putAllF (d : Nat) (fs acc : Fields) (h : fitsF d fs = true) (ha : fitsF d acc = true) :
    fitsF d (putAllF fs acc) = true := by
  cases fs with
  | nil => simpa [putAllF] using ha
  | cons n v r =>
    have hh : fits d 255 v = true ∧ fitsF d r = true := by simpa [fitsF] using h
    simp only [putAllF]
    exact fitsF_putAllF d r _ hh.2 (fitsF_mapPut d acc n _ ha (fits_putAll d 255 v hh.1))
theorem fitsE_putAllE (d a : Nat) (xs : Elems) (h : fitsE d a xs = true) : fitsE d a (putAllE xs) = true := by
  cases xs with
  | nil => simp [putAllE, fitsE]
  | cons v r =>
    have hh : fits d a v = true ∧ fitsE d a r = true := by simpa [fitsE] using h
    simp [putAllE, fitsE, fits_putAll d a v hh.1, fitsE_putAllE d a r hh.2]
end

theorem encFields_mapPut_length : ∀ (F : Fields) (k : Bytes) (v : Value),
    (encFields (mapPut F k v)).length ≤ (encFields F).length + ((encStr 0x14 k).length + (encode v).length)
  | .nil, k, v => by simp [mapPut, encFields]
  | .cons n x r, k, v => by
    rw [mapPut_cons]
    by_cases h1 : bytesLt k n = true
    · rw [if_pos h1]; simp only [encFields, List.length_append]; omega
    · by_cases h2 : bytesLt n k = true
      · rw [if_neg h1, if_pos h2]
        have := encFields_mapPut_length r k v
        simp only [encFields, List.length_append]; omega
      · rw [if_neg h1, if_neg h2]
        simp only [encFields, List.length_append]; omega

mutual
/-- the canonical tree never encodes longer than the tree in insertion order -/
theorem encode_putAll_length (v : Value) : (encode (putAll v)).length ≤ (encode v).length := by
  cases v with
  | bool b => simp [putAll]
  | int i => simp [putAll]
  | dbl b => simp [putAll]
  | str s => simp [putAll]
  | bytes s => simp [putAll]
  | arr xs =>
    have := encElems_putAllE_length xs
    simp only [putAll, encode, List.length_cons, List.length_append, List.length_nil]; omega
  | obj fs =>
    have := encFields_putAllF_length fs .nil
    simp only [encFields, List.length_nil] at this
    simp only [putAll, encode, List.length_cons, List.length_append, List.length_nil]; omega
theorem encFields_putAllF_length (fs acc : Fields) :
    (encFields (putAllF fs acc)).length ≤ (encFields acc).length + (encFields fs).length := by
  cases fs with
  | nil => simp [putAllF, encFields]
  | cons n v r =>
    have h1 := encFields_putAllF_length r (mapPut acc n (putAll v))
    have h2 := encFields_mapPut_length acc n (putAll v)
    have h3 := encode_putAll_length v
    simp only [putAllF, encFields, List.length_append]
    omega
theorem encElems_putAllE_length (xs : Elems) : (encElems (putAllE xs)).length ≤ (encElems xs).length := by
  cases xs with
  | nil => simp [putAllE]
  | cons v r =>
    have h1 := encode_putAll_length v
    have h2 := encElems_putAllE_length r
    simp only [putAllE, encElems, List.length_append]
    omega
end

/-! ### C15: serialize after `put()` calls in any order -/

/-- `fs` lists the `put(name, value)` calls in the order they were made (nested objects
    likewise). Whatever that order, `serialize()` returns the canonical encoding of the map
    content, whose names are strictly ascending; the map content is the spec's `sortKeysF fs`.
    Hypotheses: only the lengths (names, strings, bytes ≤ INT32_MAX) of what was inserted, and
    the size of the output (< 2^64). -/
theorem cppSerialize_putAll (fs : Fields) (hl : lensOkF fs = true)
    (hlen : (encode (.obj (putAllF fs .nil))).length < 2 ^ 64) :
    cppSerialize (putAllF fs .nil) = encode (.obj (putAllF fs .nil)) ∧
    ascF none (putAllF fs .nil) = true ∧
    putAllF fs .nil = sortKeysF fs :=
  ⟨cppSerialize_encode _ (lensOkF_putAllF fs .nil hl rfl) hlen, ascF_putAllF_nil fs,
   putAllF_nil_eq_sortKeysF fs⟩

/-- the same with the size bound on the inserted tree (the canonical tree is not longer) -/
theorem cppSerialize_putAll' (fs : Fields) (hl : lensOkF fs = true)
    (hlen : (encode (.obj fs)).length < 2 ^ 64) :
    cppSerialize (putAllF fs .nil) = encode (sortKeys (.obj fs)) := by
  have h := encode_putAll_length (.obj fs)
  simp only [putAll] at h
  rw [(cppSerialize_putAll fs hl (by omega)).1, ← putAll_eq_sortKeys, putAll]

/-- with int64 integers as well, the serialized tree is `wfValue` (the decoder's domain) -/
theorem cppSerialize_putAll_wf (fs : Fields) (hi : insOkF fs = true)
    (hlen : (encode (.obj fs)).length < 2 ^ 64) :
    wfValue (.obj (putAllF fs .nil)) = true ∧
    cppSerialize (putAllF fs .nil) = encode (.obj (putAllF fs .nil)) := by
  have h := encode_putAll_length (.obj fs)
  simp only [putAll] at h
  have hw := wfValue_putAll (.obj fs) (by simpa [insOk] using hi)
  simp only [putAll] at hw
  exact ⟨hw, (cppSerialize_putAll fs (lensOkF_of_insOk fs hi) (by omega)).1⟩

/-! ### the serialized bytes verify at depth 10 -/

/-- `binson_parser_verify` from any allocated parser object whose depth allows the document -/
theorem cppSerialize_verifies_gen (g : Parser) (ha : Alloc g) (hmd : g.maxDepth ≤ 255) (fs : Fields)
    (hwf : wfDoc .object g.maxDepth (.obj fs) = true) (hsz : (encode (.obj fs)).length < 2 ^ 63) :
    (init g (cppSerialize fs).toArray 1).2 = true ∧
    (verify (init g (cppSerialize fs).toArray 1).1).2.1 = true := by
  have hwv : wfValue (.obj fs) = true := by
    unfold wfDoc at hwf; simp only [Bool.and_eq_true] at hwf; exact hwf.1.1
  rw [cppSerialize_canonical fs hwv (by omega)]
  have h := verify_wellformed g ha hmd .object (.obj fs) hwf hsz
  exact ⟨h.1, h.2.2.1⟩

/-- the depth-10 stack parser of `Binson::deserialize` / `binson_writer_verify` accepts
    `serialize()`'s output when object nesting is at most 10 -/
theorem cppSerialize_verifies (fs : Fields) (hwf : wfDoc .object 10 (.obj fs) = true)
    (hsz : (encode (.obj fs)).length < 2 ^ 63) :
    (init (garbageParser 10) (cppSerialize fs).toArray 1).2 = true ∧
    (verify (init (garbageParser 10) (cppSerialize fs).toArray 1).1).2.1 = true :=
  cppSerialize_verifies_gen (garbageParser 10) ⟨rfl, by decide, rfl, rfl⟩ (by decide) fs hwf hsz

/-- a document built by `put()` calls in any order from admissible values nested at most 10
    deep: the map content is a depth-10 well-formed document ... -/
theorem wfDoc_putAll (d : Nat) (fs : Fields) (hi : insOkF fs = true) (hd : fits d 255 (.obj fs) = true) :
    wfDoc .object d (.obj (putAllF fs .nil)) = true := by
  have hw := wfValue_putAll (.obj fs) (by simpa [insOk] using hi)
  have hf := fits_putAll d 255 (.obj fs) hd
  simp only [putAll] at hw hf
  simp [wfDoc, hw, hf, rootKindOk]

/-- ... and its serialization verifies at depth 10 -/
theorem cppSerialize_putAll_verifies (fs : Fields) (hi : insOkF fs = true)
    (hd : fits 10 255 (.obj fs) = true) (hsz : (encode (.obj fs)).length < 2 ^ 63) :
    (init (garbageParser 10) (cppSerialize (putAllF fs .nil)).toArray 1).2 = true ∧
    (verify (init (garbageParser 10) (cppSerialize (putAllF fs .nil)).toArray 1).1).2.1 = true := by
  have h := encode_putAll_length (.obj fs)
  simp only [putAll] at h
  exact cppSerialize_verifies _ (wfDoc_putAll 10 fs hi hd) (by omega)

/-! ### not vacuous -/

/-- puts in the order b, a, b again: the map is a, b with the last b -/
example :
    let ins : Fields := .cons [0x62] (.int 1) (.cons [0x61] (.bool true) (.cons [0x62] (.int 2) .nil))
    putAllF ins .nil = .cons [0x61] (.bool true) (.cons [0x62] (.int 2) .nil) ∧
    insOkF ins = true ∧ fits 10 255 (.obj ins) = true ∧
    encode (.obj (putAllF ins .nil)) = [0x40, 0x14, 0x01, 0x61, 0x44, 0x14, 0x01, 0x62, 0x10, 0x02, 0x41] := by
  exact ⟨by rfl, by decide, by decide, by decide⟩

end Binson

section
open Binson
#print axioms cppSerialize_canonical
#print axioms cppSerialize_encode
#print axioms cppSerialize_first_try
#print axioms cppSerialize_retry
#print axioms putAll_eq_sortKeys
#print axioms lookup_mapPut
#print axioms ascF_mapPut
#print axioms cppSerialize_putAll
#print axioms cppSerialize_putAll'
#print axioms cppSerialize_putAll_wf
#print axioms cppSerialize_verifies
#print axioms cppSerialize_putAll_verifies
end
