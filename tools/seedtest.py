#!/usr/bin/env python3
"""tools/seedtest.py <patch.diff> <Cnn> [<Cmm> ...] : apply a seeded change to /repo, run the named
checks (quick), and undo the change straight afterwards. Prints each check's verdict lines."""
import subprocess, sys, os
patch = os.path.abspath(sys.argv[1]); props = sys.argv[2:]
ROOT = os.path.dirname(os.path.dirname(os.path.abspath(__file__)))
r = subprocess.run(['git', '-C', '/repo', 'apply', patch])
if r.returncode != 0: sys.exit('patch does not apply')
try:
    for p in props:
        tier = 'quick'
        if ':' in p: p, tier = p.split(':')
        r = subprocess.run([os.path.join(ROOT, 'check'), p, tier], capture_output=True, text=True)
        lines = [l for l in (r.stdout + r.stderr).splitlines() if l.startswith(('VIOLATION', 'KNOWN', '  ')) or ' quick:' in l or ' thorough:' in l or 'programs' in l]
        print('== %s rc=%d' % (p, r.returncode)); print('\n'.join(l[:260] for l in lines[:8]))
finally:
    subprocess.run(['git', '-C', '/repo', 'checkout', '--', '.'])
