/-
  Spec layer, part 4: the reference cursor of C06/C07/C11 — a zipper over the decoded tree,
  annotated with the offsets every name/value occupies in the canonical encoding.
  It knows nothing of flags, scan modes or state entries.
-/
import Binson.Spec.Value
import Binson.Model.Types
namespace Binson

/-- one child as the API exposes it -/
structure Item where
  name : Option (Bytes × Span)   -- field name and where it lies (objects only)
  ty : Ty
  val : Val                      -- scalars: value / payload span; containers: `.none`
  payload : Bytes                -- string/bytes payload
  start : Nat                    -- offset of the value's first byte (the BEGIN byte of a container)
  len : Nat                      -- encoded length of the value
  deriving Repr, Inhabited

inductive Node where
  | mk (it : Item) (children : List Node)
  deriving Repr, Inhabited

def Node.item : Node → Item | .mk it _ => it
def Node.children : Node → List Node | .mk _ c => c

def hdrLen (n : Nat) : Nat := 1 + intWidth (n : Int)

mutual
/-- annotate `v`, whose encoding starts at offset `off` -/
def annotate (name : Option (Bytes × Span)) (off : Nat) : Value → Node
  | .bool b => .mk ⟨name, .boolean, .bool b, [], off, 1⟩ []
  | .int i => .mk ⟨name, .integer, .int i, [], off, 1 + intWidth i⟩ []
  | .dbl bits => .mk ⟨name, .double, .dbl bits.toNat, [], off, 9⟩ []
  | .str s => .mk ⟨name, .string, .span ⟨off + hdrLen s.length, s.length⟩, s, off, hdrLen s.length + s.length⟩ []
  | .bytes s => .mk ⟨name, .bytes, .span ⟨off + hdrLen s.length, s.length⟩, s, off, hdrLen s.length + s.length⟩ []
  | .arr xs => .mk ⟨name, .array, .none, [], off, (encode (.arr xs)).length⟩ (annotateE (off + 1) xs)
  | .obj fs => .mk ⟨name, .object, .none, [], off, (encode (.obj fs)).length⟩ (annotateF (off + 1) fs)
def annotateE (off : Nat) : Elems → List Node
  | .nil => []
  | .cons v r => annotate none off v :: annotateE (off + (encode v).length) r
def annotateF (off : Nat) : Fields → List Node
  | .nil => []
  | .cons n v r =>
    let h := hdrLen n.length
    annotate (some (n, ⟨off + h, n.length⟩)) (off + h + n.length) v ::
      annotateF (off + h + n.length + (encode v).length) r
end

structure Frame where
  isObj : Bool
  rest : List Node        -- children not yet returned
  deriving Repr, Inhabited

structure Cursor where
  arrayRoot : Bool
  root : Option Node      -- the root container while it has not been entered
  frames : List Frame     -- innermost first
  cur : Option Node       -- child just returned by next/lookup, not yet entered or extracted
  done : Bool := false    -- the root has been left
  deriving Repr, Inhabited

def Cursor.start (root : Root) (v : Value) : Cursor :=
  { arrayRoot := (root = .array), root := some (annotate none 0 v), frames := [], cur := none }

def Cursor.objDepth (c : Cursor) : Nat := (c.frames.filter (·.isObj)).length
/-- what `binson_parser_get_depth` must report (an array root occupies one level itself) -/
def Cursor.depth (c : Cursor) : Nat := c.objDepth + (if c.arrayRoot then 1 else 0)

inductive COp
  | next | enterObj | enterArr | leaveObj | leaveArr | raw | field (nm : Bytes)
  deriving Repr, Inhabited

/-- the container a `go_into_*` would enter -/
def Cursor.pending (c : Cursor) : Option Node :=
  match c.frames with
  | [] => if c.done then none else c.root
  | _ => c.cur

/-- "protocol-following": enter only a container that `next`/lookup (or init) has just
    returned, leave only the kind of container you are in, look up only inside an object. -/
def Cursor.allowed (c : Cursor) : COp → Bool
  | .next => !c.frames.isEmpty
  | .enterObj => (match c.pending with | some n => n.item.ty == .object | none => false)
  | .enterArr => (match c.pending with | some n => n.item.ty == .array | none => false)
  | .leaveObj => (match c.frames with | f :: _ => f.isObj | [] => false)
  | .leaveArr => (match c.frames with | f :: _ => !f.isObj | [] => false)
  | .raw => !c.frames.isEmpty && c.cur.isSome
  | .field _ => (match c.frames with | f :: _ => f.isObj | [] => false)

def nameOf (n : Node) : Bytes := match n.item.name with | some (b, _) => b | none => []

/-- result of a cursor step: success flag, the item now current (after `next`/`field`), raw span -/
structure CRes where
  ok : Bool
  item : Option Item := none
  raw : Option Span := none
  deriving Repr, Inhabited

def Cursor.step (c : Cursor) : COp → Cursor × CRes
  | .next =>
    (match c.frames with
     | [] => (c, ⟨false, none, none⟩)
     | f :: fs =>
       match f.rest with
       | [] => ({ c with cur := none }, ⟨false, none, none⟩)
       | n :: r => ({ c with frames := { f with rest := r } :: fs, cur := some n }, ⟨true, some n.item, none⟩))
  | .enterObj | .enterArr =>
    (match c.pending with
     | some n => ({ c with frames := ⟨n.item.ty == .object, n.children⟩ :: c.frames, cur := none, root := none },
                  ⟨true, none, none⟩)
     | none => (c, ⟨false, none, none⟩))
  | .leaveObj | .leaveArr =>
    (match c.frames with
     | [] => (c, ⟨false, none, none⟩)
     | _ :: fs => ({ c with frames := fs, cur := none, done := fs.isEmpty }, ⟨true, none, none⟩))
  | .raw =>
    (match c.cur with
     | some n =>
       if n.item.ty == .object || n.item.ty == .array then
         ({ c with cur := none }, ⟨true, none, some ⟨n.item.start, n.item.len⟩⟩)
       else (c, ⟨false, none, none⟩)
     | none => (c, ⟨false, none, none⟩))
  | .field nm =>
    (match c.frames with
     | [] => (c, ⟨false, none, none⟩)
     | f :: fs =>
       let rest := f.rest.dropWhile (fun n => bytesLt (nameOf n) nm)
       match rest with
       | n :: r =>
         if nameOf n = nm then
           ({ c with frames := { f with rest := r } :: fs, cur := some n }, ⟨true, some n.item, none⟩)
         else ({ c with frames := { f with rest := rest } :: fs, cur := none }, ⟨false, none, none⟩)
       | [] => ({ c with frames := { f with rest := [] } :: fs, cur := none }, ⟨false, none, none⟩))

end Binson
