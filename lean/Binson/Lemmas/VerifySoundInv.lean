/-
  Soundness of verify, part 4: the loop invariant `Z` tying the parser state to a context
  (Lemmas/VerifySoundCtx.lean), and its elementary consequences.
-/
import Binson.Lemmas.VerifySoundCtx
import Binson.Lemmas.PassRoot
namespace Binson

/-- the bytes a span denotes in a buffer -/
def sliceB (buf : Array UInt8) (s : Span) : Bytes := (buf.extract s.off (s.off + s.len)).toList

theorem slice_eq_sliceB (p : Parser) (s : Span) : p.slice s = sliceB p.buf s := rfl

/-- a level entry mirrors a context group (`top`: the group is the innermost one) -/
structure LvOk (buf : Array UInt8) (L : Level) (g : Grp) (top : Bool) : Prop where
  ad : L.ad = g.arrs.length
  arrFlags : g.arrs ≠ [] → (L.flags = .arr1 ∨ L.flags = .arr2)
  objTop : g.arrs = [] → top = true →
    (g.pend = none ∧ L.flags = .expField) ∨ ((∃ n, g.pend = some n) ∧ L.flags = .expValue)
  objLow : g.arrs = [] → top = false → (∃ n, g.pend = some n) ∧ L.flags = .expField
  name : g.virt = false → L.name.map (sliceB buf) = lastName g

/-- the level entries mirror the context (innermost group first; group `k` from the bottom is level `k`) -/
def Mirror (buf : Array UInt8) (md t : Nat) (lv : Nat → Level) : List Grp → Bool → Prop
  | [], _ => True
  | g :: rest, top =>
    LvOk buf (lv rest.length) g top ∧ GrpOk (md - (rest.length + 1)) g ∧
    (g.virt = true ↔ (rest = [] ∧ t = 2)) ∧ Mirror buf md t lv rest false

theorem Mirror.congr {buf : Array UInt8} {md t : Nat} {lv lv' : Nat → Level} :
    ∀ {gs : List Grp} {top : Bool}, (∀ i, i < gs.length → lv' i = lv i) → Mirror buf md t lv gs top → Mirror buf md t lv' gs top
  | [], _, _, _ => trivial
  | g :: rest, top, h, hm => by
    obtain ⟨h1, h2, h3, h4⟩ := hm
    refine ⟨?_, h2, h3, Mirror.congr (fun i hi => h i (by simp; omega)) h4⟩
    rw [h rest.length (by simp)]; exact h1

theorem Mirror.replaceTop {buf : Array UInt8} {md t : Nat} {lv lv' : Nat → Level} {g g' : Grp} {rest : List Grp} {top top' : Bool}
    (hm : Mirror buf md t lv (g :: rest) top) (hlv : ∀ i, i < rest.length → lv' i = lv i)
    (h1 : LvOk buf (lv' rest.length) g' top') (h2 : GrpOk (md - (rest.length + 1)) g') (hv : g'.virt = g.virt) :
    Mirror buf md t lv' (g' :: rest) top' :=
  ⟨h1, h2, by rw [hv]; exact hm.2.2.1, Mirror.congr hlv hm.2.2.2⟩

/-- what `verify` has to establish -/
def Accept (buf : Array UInt8) (md t : Nat) : Prop :=
  ∃ v, wfValue v = true ∧ encode v = buf.toList ∧
    ((t = 1 ∧ (∃ fs, v = .obj fs) ∧ fits md 255 v = true) ∨ (t = 2 ∧ (∃ xs, v = .arr xs) ∧ fits (md - 1) 255 v = true))

/-- the invariant of the VERIFY loop at the start of an iteration -/
structure Z (buf : Array UInt8) (md t : Nat) (st : LoopSt) (gs : List Grp) : Prop where
  shape : Shape st.p
  err : st.p.err = .none
  scan : st.scan = some .verify
  hbuf : st.p.buf = buf
  hmd : st.p.maxDepth = md
  md255 : md ≤ 255
  hpt : st.p.ptype = t
  t12 : t = 1 ∨ t = 2
  depth : st.p.depth = gs.length
  ne : gs ≠ []
  zeros : ∀ i, st.p.depth ≤ i → st.p.getLvl i = Level.zero
  mirror : Mirror buf md t st.p.getLvl gs true
  bytes : buf.toList = encGs gs ++ st.p.rem

/-- the facts about the innermost group -/
structure ZTop (buf : Array UInt8) (md t : Nat) (st : LoopSt) (g : Grp) (rest : List Grp) : Prop where
  idx : st.p.lvlIdx = rest.length
  dep : st.p.depth = rest.length + 1
  lv : LvOk buf (st.p.getLvl rest.length) g true
  ok : GrpOk (md - (rest.length + 1)) g
  virt : g.virt = true ↔ (rest = [] ∧ t = 2)
  low : Mirror buf md t st.p.getLvl rest false
  room : rest.length + 1 ≤ md

theorem Z.top {buf : Array UInt8} {md t : Nat} {st : LoopSt} {g : Grp} {rest : List Grp} (hZ : Z buf md t st (g :: rest)) :
    ZTop buf md t st g rest := by
  have hd : st.p.depth = rest.length + 1 := by rw [hZ.depth]; simp
  obtain ⟨h1, h2, h3, h4⟩ := hZ.mirror
  refine ⟨?_, hd, h1, h2, h3, h4, ?_⟩
  · rw [Parser.lvlIdx_of_pos (by omega), hd]; simp
  · have := hZ.shape.hdp; rw [hZ.hmd, hd] at this; exact this

/-- the three situations of the innermost group -/
theorem LvOk.cases {buf : Array UInt8} {L : Level} {g : Grp} {D : Nat} (h : LvOk buf L g true) (hg : GrpOk D g) :
    (g.arrs ≠ [] ∧ (L.flags = .arr1 ∨ L.flags = .arr2) ∧ 1 ≤ L.ad) ∨
    (g.arrs = [] ∧ (∃ n, g.pend = some n) ∧ L.flags = .expValue ∧ L.ad = 0 ∧ g.virt = false) ∨
    (g.arrs = [] ∧ g.pend = none ∧ L.flags = .expField ∧ L.ad = 0 ∧ g.virt = false) := by
  by_cases ha : g.arrs = []
  · have hv : g.virt = false := by
      cases hvv : g.virt with
      | false => rfl
      | true => exact absurd ha (hg.virtArr hvv)
    have had : L.ad = 0 := by rw [h.ad, ha]; rfl
    rcases h.objTop ha rfl with ⟨h1, h2⟩ | ⟨h1, h2⟩
    · exact Or.inr (Or.inr ⟨ha, h1, h2, had, hv⟩)
    · exact Or.inr (Or.inl ⟨ha, h1, h2, had, hv⟩)
  · refine Or.inl ⟨ha, h.arrFlags ha, ?_⟩
    rw [h.ad]
    cases hx : g.arrs with
    | nil => exact absurd hx ha
    | cons a as => simp

theorem Z.deep {buf : Array UInt8} {md t : Nat} {st : LoopSt} {gs : List Grp} (hZ : Z buf md t st gs) : Deep st 0 (t - 1) := by
  obtain ⟨g, rest, rfl⟩ : ∃ g rest, gs = g :: rest := by
    cases gs with
    | nil => exact absurd rfl hZ.ne
    | cons g rest => exact ⟨g, rest, rfl⟩
  have hT := hZ.top
  have had : rest = [] → t = 2 → 1 ≤ (st.p.getLvl st.p.lvlIdx).ad := by
    intro hr ht
    have hv := hT.virt.mpr ⟨hr, ht⟩
    have hne := hT.ok.virtArr hv
    rw [hT.idx, hT.lv.ad]
    cases hx : g.arrs with
    | nil => exact absurd hx hne
    | cons a as => simp
  refine ⟨hZ.shape, hZ.err, by rw [hZ.scan]; exact cont_verify, by rw [hT.dep]; omega, ?_, hZ.zeros, ?_, by rw [hZ.hmd]; exact hZ.md255⟩
  · rcases hZ.t12 with rfl | rfl
    · left; rw [hT.dep]; omega
    · cases rest with
      | nil => right; exact ⟨by rw [hT.dep]; rfl, had rfl rfl⟩
      | cons g2 r2 => left; rw [hT.dep]; simp
  · intro hp hd
    rw [hZ.hpt] at hp
    rw [hT.dep] at hd
    have : rest = [] := by
      cases rest with
      | nil => rfl
      | cons g2 r2 => simp at hd
    exact had this hp

/-- building the invariant after a continuing iteration -/
theorem Z.next {buf : Array UInt8} {md t : Nat} {st st' : LoopSt} {gs gs' : List Grp} (hZ : Z buf md t st gs)
    (hs : Shape st'.p) (he : st'.p.err = .none) (hsc : st'.scan = st.scan) (fr : st.p.Frame st'.p)
    (hd : st'.p.depth = gs'.length) (hne : gs' ≠ [])
    (hz : ∀ i, st'.p.depth ≤ i → st'.p.getLvl i = Level.zero)
    (hm : Mirror buf md t st'.p.getLvl gs' true)
    (tok rest : Bytes) (hrem : st.p.rem = tok ++ rest) (hrem' : st'.p.rem = rest)
    (henc : encGs gs' = encGs gs ++ tok) : Z buf md t st' gs' :=
  ⟨hs, he, hsc.trans hZ.scan, fr.2.1.trans hZ.hbuf, fr.2.2.1.trans hZ.hmd, hZ.md255, fr.2.2.2.1.trans hZ.hpt, hZ.t12, hd, hne, hz, hm,
    by rw [hZ.bytes, hrem, hrem', henc, List.append_assoc]⟩

/-! ### levels after a value has been added to a group -/

theorem addVal_virt (g : Grp) (v : Value) : (addVal g v).virt = g.virt := by
  unfold addVal
  cases g.arrs with
  | cons a as => rfl
  | nil => cases g.pend <;> rfl

theorem LvOk_addVal (buf : Array UInt8) (L' : Level) (g0 : Grp) (v : Value)
    (had : L'.ad = g0.arrs.length) (hfa : g0.arrs ≠ [] → (L'.flags = .arr1 ∨ L'.flags = .arr2))
    (hfo : g0.arrs = [] → L'.flags = .expField) (hp : g0.arrs = [] → ∃ n, g0.pend = some n)
    (hn : g0.virt = false → L'.name.map (sliceB buf) = lastName g0) : LvOk buf L' (addVal g0 v) true := by
  have hname : (addVal g0 v).virt = false → L'.name.map (sliceB buf) = lastName (addVal g0 v) := by
    rw [addVal_virt, lastName_addVal]; exact hn
  cases ha : g0.arrs with
  | cons a as =>
    have e : addVal g0 v = { g0 with arrs := (v :: a) :: as } := by unfold addVal; rw [ha]
    rw [e] at hname ⊢
    refine ⟨by rw [had, ha]; rfl, fun _ => hfa (by rw [ha]; simp), fun h => (by simp at h), fun h => (by simp at h), hname⟩
  | nil =>
    obtain ⟨n, hpn⟩ := hp ha
    have e : addVal g0 v = { g0 with fs := (n, v) :: g0.fs, pend := none } := by unfold addVal; rw [ha]; simp only [hpn]
    rw [e] at hname ⊢
    refine ⟨by rw [had, ha], fun h => absurd ha h, fun _ _ => Or.inl ⟨rfl, hfo ha⟩, fun _ h => (by cases h), hname⟩

theorem fits_scalar (d a : Nat) (v : Value) (h : v.isContainer = false) : fits d a v = true := by
  cases v <;> first | rfl | cases h

end Binson
