"""C17: no heap, no recursion, no writable globals - decided over a static model REGENERATED
from the compiled objects on every run (gcc -fstack-usage -fcallgraph-info, nm), proved in Lean
(Props/C17.lean: general lemmas about ranked call graphs + `decide` on the generated data)."""
import os, re, subprocess, json, time, shutil, hashlib

CONFIGS = [(o, pr) for o in ('-O0', '-O2', '-Os') for pr in (True, False)]
ALLOCATORS = ['malloc', 'calloc', 'realloc', 'free', 'alloca', 'aligned_alloc', 'posix_memalign', 'strdup', 'strndup', 'mmap', 'brk', 'sbrk', 'operator new', '_Znwm', '_Znam']

def sh(cmd, **kw): return subprocess.run(cmd, capture_output=True, text=True, **kw)

def parse_ci(path):
    nodes = {}; edges = []
    for line in open(path):
        m = re.match(r'node: \{ title: "([^"]+)" label: "([^"]*)"(.*)\}', line)
        if m:
            title, label, rest = m.groups()
            parts = label.split('\\n')
            info = {'name': parts[0], 'extern': 'ellipse' in rest, 'frame': 0, 'static': True, 'dyn': 0}
            for p in parts:
                mm = re.match(r'(\d+) bytes \((\w+)\)', p)
                if mm: info['frame'] = int(mm.group(1)); info['static'] = (mm.group(2) == 'static')
                mm = re.match(r'(\d+) dynamic objects', p)
                if mm: info['dyn'] = int(mm.group(1))
            nodes[title] = info; continue
        m = re.match(r'edge: \{ sourcename: "([^"]+)" targetname: "([^"]+)"', line)
        if m: edges.append((m.group(1), m.group(2)))
    return nodes, edges

def address_taken(repo, srcfile, print_on, defined):
    pp = sh(['gcc', '-E', '-P'] + (['-DBINSON_PARSER_WITH_PRINT'] if print_on else []) + ['-I', os.path.join(repo, 'include'), srcfile]).stdout
    taken = set()
    for f in defined:
        for m in re.finditer(r'\b%s\b(?!\s*\()' % re.escape(f), pp): taken.add(f)
    return sorted(taken)

def build_cfg(repo, opt, print_on, scratch):
    name = 'gcc' + opt.replace('-', '_') + ('_print' if print_on else '_noprint')
    fns = {}; edges = set(); undefined = set(); writable = []; externs = set(); indirect_from = []
    taken = []
    for src in ('binson_parser.c', 'binson_writer.c'):
        base = os.path.join(scratch, name + '_' + src[:-2])
        cmd = ['gcc', '-c', opt, '-std=c99'] + (['-DBINSON_PARSER_WITH_PRINT'] if print_on else []) + ['-I', os.path.join(repo, 'include'),
               '-fstack-usage', '-fcallgraph-info=su,da', os.path.join(repo, 'src', src), '-o', base + '.o']
        r = sh(cmd)
        if r.returncode != 0: raise RuntimeError('compile failed: ' + r.stderr[-500:])
        nodes, es = parse_ci(base + '.ci')
        title2name = {}
        for t, info in nodes.items():
            title2name[t] = info['name'].replace('__builtin_', '')
            if t == '__indirect_call': continue
            if not info['extern']:
                fns[title2name[t]] = (info['frame'], info['static'] and info['dyn'] == 0)
        defined_here = [title2name[t] for t, i in nodes.items() if not i['extern'] and t != '__indirect_call']
        tk = address_taken(repo, os.path.join(repo, 'src', src), print_on, defined_here)
        taken += tk
        for a, b in es:
            if b == '__indirect_call':
                for f in tk: edges.add((title2name[a], f))
                indirect_from.append(title2name[a])
            else: edges.add((title2name[a], title2name[b]))
        nm = sh(['nm', base + '.o']).stdout
        for line in nm.splitlines():
            parts = line.split()
            if len(parts) == 2 and parts[0] == 'U': undefined.add(parts[1])
            elif len(parts) == 3 and parts[1] in 'dDbBCsSgG': writable.append(parts[2] + ':' + parts[1])
    # externs = callees that are not defined in either object
    allnames = set(fns)
    for a, b in edges:
        if b not in allnames: externs.add(b)
    undefined = sorted(u for u in undefined if u not in allnames)
    order = sorted(fns) + sorted(externs)
    idx = {n: i for i, n in enumerate(order)}
    E = sorted((idx[a], idx[b]) for a, b in edges)
    frame = [fns[n][0] if n in fns else 0 for n in order]
    # certificates: rank (longest path to a leaf) and stack bound; None if the graph is cyclic
    succ = {i: [] for i in range(len(order))}
    for a, b in E: succ[a].append(b)
    rank = [None] * len(order); bound = [None] * len(order); state = [0] * len(order); cyclic = []
    def visit(u, stack):
        if state[u] == 2: return
        if state[u] == 1: cyclic.append([order[x] for x in stack[stack.index(u):]] + [order[u]]); return
        state[u] = 1
        for v in succ[u]: visit(v, stack + [u])
        rs = [rank[v] for v in succ[u] if rank[v] is not None]; bs = [bound[v] for v in succ[u] if bound[v] is not None]
        rank[u] = (max(rs) + 1) if rs else 0; bound[u] = frame[u] + (max(bs) if bs else 0); state[u] = 2
    for u in range(len(order)): visit(u, [])
    rank = [r if r is not None else 0 for r in rank]; bound = [b if b is not None else 0 for b in bound]
    return {'name': name, 'order': order, 'fns': [(n, frame[i], (fns[n][1] if n in fns else True)) for i, n in enumerate(order)],
            'nDefined': len(fns), 'externs': sorted(externs), 'edges': E, 'rank': rank, 'bound': bound, 'undefined': undefined,
            'writable': sorted(writable), 'cyclic': cyclic, 'taken': sorted(set(taken)), 'indirect_from': sorted(set(indirect_from))}

def lean_str(s): return '"' + s.replace('\\', '\\\\').replace('"', '\\"') + '"'

def emit_lean(cfgs, path):
    L = ['/- GENERATED by tools/c17.py from the compiled objects of /repo/src - do not edit. -/', 'import Binson.Lemmas.StaticGraph', 'namespace Binson.Gen', '']
    for c in cfgs:
        L.append('def static_%s : Static.Cfg := {' % c['name'])
        L.append('  name := %s,' % lean_str(c['name']))
        L.append('  fns := [%s],' % ', '.join('(%s, %d, %s)' % (lean_str(n), f, 'true' if s else 'false') for n, f, s in c['fns']))
        L.append('  nDefined := %d,' % c['nDefined'])
        L.append('  edges := [%s],' % ', '.join('(%d, %d)' % e for e in c['edges']))
        L.append('  rank := [%s],' % ', '.join(map(str, c['rank'])))
        L.append('  bound := [%s],' % ', '.join(map(str, c['bound'])))
        L.append('  undefinedSyms := [%s],' % ', '.join(lean_str(u) for u in c['undefined']))
        L.append('  writableSyms := [%s] }' % ', '.join(lean_str(u) for u in c['writable']))
        L.append('')
    L.append('def staticCfgs : List Static.Cfg := [%s]' % ', '.join('static_' + c['name'] for c in cfgs))
    L += ['', 'end Binson.Gen', '']
    text = '\n'.join(L)
    if not (os.path.exists(path) and open(path).read() == text): open(path, 'w').write(text)

def run(pid, tier, seed, chk):
    t0 = time.time()
    os.makedirs(chk.BUILD, exist_ok=True); os.makedirs(chk.EVID, exist_ok=True)
    scratch = os.path.join(chk.BUILD, 'run-%d' % os.getpid()); os.makedirs(scratch, exist_ok=True)
    broken = []; viols = []; cfgs = []
    try:
        for opt, pr in CONFIGS:
            try: cfgs.append(build_cfg(chk.REPO, opt, pr, scratch))
            except Exception as e: broken.append('static model of %s print=%s cannot be generated: %s' % (opt, pr, e))
        # the facts themselves are the violation search: name the offending symbol / cycle / frame
        for c in cfgs:
            bad_alloc = [u for u in c['undefined'] if u in ALLOCATORS]
            if bad_alloc: viols.append('%s: allocator referenced: %s' % (c['name'], bad_alloc))
            if c['writable']: viols.append('%s: writable static data: %s' % (c['name'], c['writable']))
            dyn = [n for n, f, s in c['fns'] if not s]
            if dyn: viols.append('%s: variable-size stack frame in %s' % (c['name'], dyn))
            if c['cyclic']: viols.append('%s: recursion: %s' % (c['name'], ' -> '.join(c['cyclic'][0])))
        with chk.Lock('lean'):
            emit_lean(cfgs, os.path.join(chk.LEAN, 'Binson', 'Generated', 'Static.lean'))
            ok, msg = chk.regenerate()
            obligations, discharged, details, pb = chk.audit(pid, scratch, tier)
            broken += pb
        nviol = 0; rc = 0
        for v in viols[:6]:
            path = chk.write_replay(pid, 'static', '# property C17 violated: %s\n# re-run: ./check C17 quick (the facts are read from the compiled objects)\n' % v)
            print('VIOLATION property=%s replay=%s' % (pid, path)); print('  ' + v[:400]); nviol += 1; rc = 1
        if broken and not viols:
            path = chk.write_replay(pid, 'unproved', '# property C17: the following no longer checks\n' + '\n'.join('# - ' + b.replace('\n', '\n#   ') for b in broken[:10]) + '\n')
            print('VIOLATION property=%s replay=%s no-failing-input-found' % (pid, path))
            for b in broken[:4]: print('  ' + b[:400].replace('\n', ' | '))
            nviol += 1; rc = 1
        nprop = len(chk.theorem_names(pid))
        level = 'proof' if (nprop > 0 and discharged == obligations and not broken) else 'exploration'
        samples = [{'config': c['name'], 'functions': c['nDefined'], 'edges': len(c['edges']), 'max_stack_bound_bytes': max(c['bound'] or [0]),
                    'undefined': c['undefined'], 'writable': c['writable'], 'address_taken': c['taken'], 'indirect_call_sites_in': c['indirect_from']} for c in cfgs]
        cov = {'obligations': obligations, 'discharged': discharged,
               'checker_cmd': 'cd lean && lake build Binson.Props.C17 && lake env lean <#print axioms of every theorem>',
               'trusted_base': ['Lean 4 kernel; axioms propext/Classical.choice/Quot.sound only', 'tools/c17.py (translator)', 'gcc 12 -fstack-usage / -fcallgraph-info=su,da and nm output',
                                'libc callees (memcmp memset memmove strlen printf putchar snprintf) are leaves of unknown frame', 'a user-supplied parser->cb is the user\'s code'],
               'theorems': details, 'evaluations': len(cfgs), 'distinct_nontrivial': len(set(json.dumps(c['edges']) + json.dumps(c['fns']) for c in cfgs)),
               'rule': 'one evaluation = one build configuration {gcc -O0,-O2,-Os} x {with, without BINSON_PARSER_WITH_PRINT} whose call graph, frames and symbols were regenerated and re-proved; distinct by content',
               'samples': samples, 'exhaustive': True, 'broken': broken[:10]}
        ev = {'property_id': pid, 'tier': tier, 'seed': seed, 'level': level, 'coverage': cov,
              'assumptions': ['gcc reports every direct call edge and every frame; indirect calls are resolved to the functions whose address is taken in the translation unit'],
              'wall_s': round(time.time() - t0, 2), 'violations': nviol}
        tmp = os.path.join(chk.EVID, pid + '.json.tmp'); json.dump(ev, open(tmp, 'w'), indent=1); os.replace(tmp, os.path.join(chk.EVID, pid + '.json'))
        print('%s %s: %d/%d obligations discharged, %d configurations, %d violations, %.1fs' % (pid, tier, discharged, obligations, len(cfgs), nviol, time.time() - t0))
        return rc
    finally:
        shutil.rmtree(scratch, ignore_errors=True)
