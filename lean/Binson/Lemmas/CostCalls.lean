/-
  C16, tight form, part 3a: the public calls that are one or two `_advance_parsing` calls, in the
  counted model (`Model/Counted.lean`: the last component is the number of tokens processed =
  callbacks made by the call).  `tokens + cursor before ≤ cursor after + c`, i.e.
  `tokens ≤ bytes advanced over + c`, with `c = 1` (`next`, `next_ensure`, `go_into_*`, `leave_*`)
  and `c = 2` (`get_raw`: two `_advance_parsing` calls).
-/
import Binson.Lemmas.CostAdvance
import Binson.Lemmas.Safe
import Binson.Lemmas.Counted
namespace Binson

/-- cost and monotonicity of a call, in one record: `n` tokens processed, from parser `p` to parser `q` -/
structure CallCost (c : Nat) (p : Parser) (q : Parser) (n : Nat) : Prop where
  shape : Shape q
  size : q.size = p.size
  mono : p.used ≤ q.used
  cost : n + p.used ≤ q.used + c

theorem cost_adv (p : Parser) (scan : Scan) (sn : Option (List UInt8)) (h : Shape p) :
    CallCost 1 p (advance p scan sn).p (advance p scan sn).ev.length :=
  ⟨adv_shape p scan sn h, frame_adv p scan sn h, advance_used_mono p scan sn h, advance_cost_tight p scan sn h⟩

theorem CallCost.withErr {c n : Nat} {p q : Parser} (h : CallCost c p q n) (e : Err) (he : e ≠ .none) :
    CallCost c p { q with err := e } n :=
  ⟨h.shape.withErr e he, h.size, h.mono, h.cost⟩

theorem CallCost.weaken {c c' n : Nat} {p q : Parser} (h : CallCost c p q n) (hc : c ≤ c') : CallCost c' p q n :=
  ⟨h.shape, h.size, h.mono, Nat.le_trans h.cost (Nat.add_le_add_left hc _)⟩

theorem CallCost.zero {p : Parser} (h : Shape p) (c : Nat) : CallCost c p p 0 :=
  ⟨h, rfl, Nat.le_refl _, by omega⟩

/-- two calls in sequence: costs add, the constant adds -/
theorem CallCost.seq {c1 c2 n1 n2 : Nat} {p q1 q2 : Parser} (h1 : CallCost c1 p q1 n1) (h2 : CallCost c2 q1 q2 n2) :
    CallCost (c1 + c2) p q2 (n1 + n2) :=
  ⟨h2.shape, h2.size.trans h1.size, Nat.le_trans h1.mono h2.mono, by have := h1.cost; have := h2.cost; omega⟩

theorem next_cost (p : Parser) (h : Shape p) : CallCost 1 p (nextC p).1 (nextC p).2.2 := cost_adv p .value none h
theorem goIntoObject_cost (p : Parser) (h : Shape p) : CallCost 1 p (goIntoObjectC p).1 (goIntoObjectC p).2.2 :=
  cost_adv p .enterObj none h
theorem goIntoArray_cost (p : Parser) (h : Shape p) : CallCost 1 p (goIntoArrayC p).1 (goIntoArrayC p).2.2 :=
  cost_adv p .enterArr none h

theorem nextEnsure_cost (p : Parser) (t : Ty) (h : Shape p) :
    CallCost 1 p (nextEnsureC p t).1 (nextEnsureC p t).2.2 := by
  have hn := next_cost p h
  unfold nextEnsureC
  generalize nextC p = r at hn
  obtain ⟨q, ok, n⟩ := r
  simp only at hn ⊢
  split
  · exact hn
  · split
    · exact hn.withErr _ (by simp)
    · exact hn

theorem leaveObject_cost (p : Parser) (h : Shape p) : CallCost 1 p (leaveObjectC p).1 (leaveObjectC p).2.2 := by
  unfold leaveObjectC
  simp only [touchLvl_of_lt h.lvlIdx_lt]
  split
  · exact CallCost.zero h 1
  · have := cost_adv p .leaveObj none h
    split <;> exact this

theorem leaveArray_cost (p : Parser) (h : Shape p) : CallCost 1 p (leaveArrayC p).1 (leaveArrayC p).2.2 := by
  unfold leaveArrayC
  simp only [touchLvl_of_lt h.lvlIdx_lt]
  split
  · exact CallCost.zero h 1
  · have := cost_adv p .leaveArr none h
    split <;> exact this

/-- `binson_parser_get_raw`: two `_advance_parsing` calls, `tokens ≤ bytes advanced over + 2` -/
theorem getRaw_cost (p : Parser) (h : Shape p) : CallCost 2 p (getRawC p).1 (getRawC p).2.2.2 := by
  unfold getRawC
  split
  · exact CallCost.zero h 2
  · simp only
    split
    · have h1 := cost_adv p .enterObj none h
      split
      · exact h1.weaken (by omega)
      · have h2 := cost_adv _ .leaveObj none h1.shape
        have h12 := h1.seq h2
        split <;> exact h12
    · split
      · have h1 := cost_adv p .enterArr none h
        split
        · exact h1.weaken (by omega)
        · have h2 := cost_adv _ .leaveArr none h1.shape
          have h12 := h1.seq h2
          split <;> exact h12
      · exact CallCost.zero h 2

theorem getName_cost (p : Parser) (h : Shape p) : CallCost 0 p (getName p).1 0 := by
  unfold getName
  split
  · exact CallCost.zero h 0
  · split
    · exact CallCost.zero h 0
    · exact (CallCost.zero h 0).withErr _ (by simp)

end Binson
