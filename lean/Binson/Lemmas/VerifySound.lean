/-
  Soundness of verify (property C02, the "only if" direction): if `init` accepts a buffer and
  `verify` then returns true, the buffer is the canonical encoding of a well-formed document
  of the right root kind that fits the depth configuration.
-/
import Binson.Lemmas.VerifySoundStep
import Binson.Lemmas.VerifyValid
namespace Binson

/-- the loop, by induction on the fuel -/
theorem loop_sound {buf : Array UInt8} {md t : Nat} (f : Nat) :
    ∀ (st : LoopSt) (gs : List Grp), Z buf md t st gs →
      ∀ st', advLoop f st none 0 (t - 1) = (st', .done false) → st'.p.err = .none → Accept buf md t := by
  induction f with
  | zero =>
    intro st gs _ st' h
    simp [advLoop] at h
  | succ f ih =>
    intro st gs hZ st' h he
    rcases zstep hZ with ⟨st1, gs1, hit, hZ1⟩ | ⟨hnc, hacc⟩
    · rw [advLoop_cont hit] at h
      exact ih st1 gs1 hZ1 st' h he
    · rw [advLoop] at h
      generalize iter st none 0 (t - 1) = r at h hnc hacc
      obtain ⟨s1, o⟩ := r
      cases o with
      | cont => exact absurd rfl hnc
      | ret b =>
        simp only [Prod.mk.injEq, LoopRes.done.injEq] at h
        obtain ⟨rfl, _⟩ := h
        exact hacc he
      | stop =>
        simp only [Prod.mk.injEq, LoopRes.done.injEq, decide_eq_false_iff_not] at h
        obtain ⟨rfl, hb⟩ := h
        exact absurd he hb

/-- the first byte of a fresh parser's buffer is what remains to be read -/
theorem fresh_rem {W : Parser} {buf : Array UInt8} {t md : Nat} (hF : Fresh W buf t md) (h2 : 2 ≤ buf.size) :
    W.rem = buf.getD 0 0 :: buf.toList.drop 1 := by
  have hsz : W.size = buf.size := by rw [← hF.shape.hbs, hF.buf]
  have := rem_eq_cons hF.shape (by rw [hF.used, hsz]; omega)
  rw [hF.used] at this
  rw [this]
  unfold Parser.byte
  rw [hF.buf]

/-- the first iteration on a fresh parser establishes the invariant -/
theorem first_step {W : Parser} {buf : Array UInt8} {t md : Nat} (hF : Fresh W buf t md) (hmd : md ≤ 255) (h2 : 2 ≤ buf.size)
    (ht : (t = 1 ∧ buf.getD 0 0 = 0x40) ∨ (t = 2 ∧ buf.getD 0 0 = 0x42)) :
    ∃ st1 gs1, iter ⟨W, some .verify, 0, []⟩ none 0 (t - 1) = (st1, .cont) ∧ Z buf md t st1 gs1 := by
  have hsh := hF.shape
  have hrem := fresh_rem hF h2
  have hb : buf.toList = W.rem := by unfold Parser.rem; rw [hF.used, hF.buf]; rfl
  rcases ht with ⟨rfl, hb0⟩ | ⟨rfl, hb0⟩
  · rw [hb0] at hrem
    obtain ⟨st1, i1, s1, e1, c1, u1, d1, f1, g1, _⟩ := iter_root_objBegin (sn := none) (oa := 0) (od := 1 - 1)
      (st := ⟨W, some .verify, 0, []⟩) hsh hF.err rfl hF.depth hF.zeros (by rw [hF.maxDepth]; exact hmd) _ hrem
    simp only at c1 u1 f1 g1
    refine ⟨st1, [newGrp], i1, ?_⟩
    refine ⟨s1, e1, c1, f1.2.1.trans hF.buf, f1.2.2.1.trans hF.maxDepth, hmd, f1.2.2.2.1.trans hF.ptype, Or.inl rfl, d1, by simp, ?_, ?_, ?_⟩
    · intro i hi
      rw [d1] at hi
      rw [g1, if_neg (by omega)]
    · refine ⟨?_, GrpOk_new _, ⟨fun h => (by cases h), fun h => (by cases h.2)⟩, trivial⟩
      show LvOk buf (st1.p.getLvl 0) newGrp true
      rw [g1, if_pos rfl]
      exact ⟨rfl, fun h => absurd rfl h, fun _ _ => Or.inl ⟨rfl, rfl⟩, fun _ h => (by cases h), fun _ => rfl⟩
    · rw [hb, hrem, rem_step hsh hrem f1 u1]
      rfl
  · rw [hb0] at hrem
    obtain ⟨st1, i1, s1, e1, c1, u1, d1, f1, g1, _⟩ := iter_root_arrBegin (sn := none) (oa := 0) (od := 2 - 1)
      (st := ⟨W, some .verify, 0, []⟩) hsh hF.err rfl hF.depth hF.zeros _ hrem
    simp only at c1 u1 f1 g1
    refine ⟨st1, [rootArrGrp], i1, ?_⟩
    refine ⟨s1, e1, c1, f1.2.1.trans hF.buf, f1.2.2.1.trans hF.maxDepth, hmd, f1.2.2.2.1.trans hF.ptype, Or.inr rfl, d1, by simp, ?_, ?_, ?_⟩
    · intro i hi
      rw [d1] at hi
      rw [g1, if_neg (by omega)]
    · refine ⟨?_, GrpOk_rootArr _, ⟨fun _ => ⟨rfl, rfl⟩, fun _ => rfl⟩, trivial⟩
      show LvOk buf (st1.p.getLvl 0) rootArrGrp true
      rw [g1, if_pos rfl]
      exact ⟨rfl, fun _ => Or.inl rfl, fun h => (by cases h), fun h => (by cases h), fun h => (by cases h)⟩
    · rw [hb, hrem, rem_step hsh hrem f1 u1]
      rfl

/-- `_advance_parsing(VERIFY)` on a fresh parser -/
theorem advance_sound {W : Parser} {buf : Array UInt8} {t md : Nat} (hF : Fresh W buf t md) (hmd : md ≤ 255) (h2 : 2 ≤ buf.size)
    (ht : (t = 1 ∧ buf.getD 0 0 = 0x40) ∨ (t = 2 ∧ buf.getD 0 0 = 0x42))
    (hr : (advance W .verify none).ret = false) (he : (advance W .verify none).p.err = .none) : Accept buf md t := by
  have hsh := hF.shape
  obtain ⟨st1, gs1, hit, hZ1⟩ := first_step hF hmd h2 ht
  have hoa : (W.getLvl W.cur).ad = 0 := by rw [hF.zeros]; rfl
  have hd : W.depth = t - 1 := hF.depth
  unfold advance at hr he
  rw [if_neg (by simp [hF.err])] at hr he
  simp only [touchLvl_of_lt hsh.cur_lt] at hr he
  rw [hoa, hd, show W.size - W.used + 2 = (W.size - W.used + 1) + 1 by omega, advLoop_cont hit] at hr he
  generalize hres : advLoop (W.size - W.used + 1) st1 none 0 (t - 1) = res at hr he
  obtain ⟨s', o⟩ := res
  cases o with
  | outOfFuel =>
    have hfuel := (advLoop_spec (W.size - W.used + 1 + 1) ⟨W, some .verify, 0, []⟩ none 0 (t - 1) hsh hF.err (by simp)).fuel
    rw [advLoop_cont hit, hres] at hfuel
    exact absurd rfl hfuel
  | done b =>
    simp only at hr he
    subst hr
    exact loop_sound _ st1 gs1 hZ1 s' hres he

/-- what an accepting `reset` has checked -/
theorem reset_accept_inv (p : Parser) (hbs : p.buf.size = p.size) (h : (reset p).2 = true) :
    2 ≤ p.size ∧ ((p.ptype = 1 ∧ p.byte 0 = 0x40 ∧ p.byte (p.size - 1) = 0x41) ∨
                  (p.ptype = 2 ∧ p.byte 0 = 0x42 ∧ p.byte (p.size - 1) = 0x43)) := by
  unfold reset at h
  by_cases hmd : p.maxDepth = 0
  · rw [if_pos hmd] at h; cases h
  rw [if_neg hmd] at h
  simp only at h
  by_cases hlt : p.size < 2
  · rw [if_pos hlt] at h; cases h
  rw [if_neg hlt] at h
  have t1 : ∀ (x : Parser), x.buf = p.buf → (x.touchBuf 0 1).touchBuf (p.size - 1) 1 = x := by
    intro x hx
    have e1 : x.touchBuf 0 1 = x := touchBuf_of_le (by rw [hx, hbs]; omega)
    rw [e1]; exact touchBuf_of_le (by rw [hx, hbs]; omega)
  rw [t1 ({ p with depth := 0, used := 0, cur := 0 }) rfl] at h
  refine ⟨by omega, ?_⟩
  by_cases hp1 : p.ptype = 1
  · rw [if_pos hp1] at h
    left
    by_cases hb : (p.byte 0 = 0x40 ∧ p.byte (p.size - 1) = 0x41)
    · exact ⟨hp1, hb.1, hb.2⟩
    · have hb' : ¬ (({ p with depth := 0, used := 0, cur := 0 } : Parser).byte 0 = 0x40 ∧
          ({ p with depth := 0, used := 0, cur := 0 } : Parser).byte (p.size - 1) = 0x41) := hb
      simp only [hb', decide_false, Bool.not_false, if_true] at h
      cases h
  · rw [if_neg hp1] at h
    by_cases hp2 : p.ptype = 2
    · rw [if_pos hp2] at h
      right
      by_cases hb : (p.byte 0 = 0x42 ∧ p.byte (p.size - 1) = 0x43)
      · exact ⟨hp2, hb.1, hb.2⟩
      · have hb' : ¬ (({ p with depth := 0, used := 0, cur := 0 } : Parser).byte 0 = 0x42 ∧
            ({ p with depth := 0, used := 0, cur := 0 } : Parser).byte (p.size - 1) = 0x43) := hb
        simp only [hb', decide_false, Bool.not_false, if_true] at h
        cases h
    · rw [if_neg hp2] at h; cases h

/-- what an accepting `init` has checked -/
theorem init_accept (g : Parser) (buf : Array UInt8) (t : Nat) (h : (init g buf t).2 = true) :
    2 ≤ buf.size ∧ ((t = 1 ∧ buf.getD 0 0 = 0x40 ∧ buf.getD (buf.size - 1) 0 = 0x41) ∨
                    (t = 2 ∧ buf.getD 0 0 = 0x42 ∧ buf.getD (buf.size - 1) 0 = 0x43)) := by
  unfold init at h
  by_cases hmd : g.maxDepth = 0
  · rw [if_pos hmd] at h; cases h
  rw [if_neg hmd] at h
  exact reset_accept_inv { g with buf := buf, size := buf.size, err := .none, ptype := t } rfl h

theorem verify_sound_fresh {W : Parser} {buf : Array UInt8} {t md : Nat} (hF : Fresh W buf t md) (hmd : md ≤ 255) (h2 : 2 ≤ buf.size)
    (ht : (t = 1 ∧ buf.getD 0 0 = 0x40 ∧ buf.getD (buf.size - 1) 0 = 0x41) ∨
          (t = 2 ∧ buf.getD 0 0 = 0x42 ∧ buf.getD (buf.size - 1) 0 = 0x43))
    (hv : (verify W).2.1 = true) : Accept buf md t := by
  have ht' : (t = 1 ∧ buf.getD 0 0 = 0x40) ∨ (t = 2 ∧ buf.getD 0 0 = 0x42) := by
    rcases ht with ⟨a, b, _⟩ | ⟨a, b, _⟩
    · exact Or.inl ⟨a, b⟩
    · exact Or.inr ⟨a, b⟩
  obtain ⟨r1, F1⟩ : (reset W).2 = true ∧ Fresh (reset W).1 buf t md := by
    rcases ht with ⟨a, b, c⟩ | ⟨a, b, c⟩
    · exact reset_fresh hF 0x40 0x41 (Or.inl ⟨a, rfl, rfl⟩) h2 b c
    · exact reset_fresh hF 0x42 0x43 (Or.inr ⟨a, rfl, rfl⟩) h2 b c
  unfold verify at hv
  generalize reset W = rw at r1 F1 hv
  obtain ⟨q, ok⟩ := rw
  simp only at r1 F1 hv
  subst r1
  simp only [Bool.not_true, Bool.false_eq_true, if_false] at hv
  by_cases hc : ((advance q .verify none).ret = false ∧ (advance q .verify none).p.err = .none)
  · exact advance_sound F1 hmd h2 ht' hc.1 hc.2
  · exfalso
    have : (decide ((advance q .verify none).ret = false) && decide ((advance q .verify none).p.err = .none)) = false := by
      by_cases h1 : (advance q .verify none).ret = false
      · have h2' : ¬ (advance q .verify none).p.err = .none := fun h => hc ⟨h1, h⟩
        simp [h2']
      · simp [h1]
    simp only [this, Bool.false_eq_true, if_false] at hv

/-- C02, soundness: init + verify accept only canonical encodings of well-formed documents -/
theorem verify_sound (g : Parser) (ha : Alloc g) (hmd : g.maxDepth ≤ 255) (buf : Array UInt8) (hsz : buf.size < 2 ^ 63)
    (root : Root) (hi : (init g buf (rootNum root)).2 = true)
    (hv : (verify (init g buf (rootNum root)).1).2.1 = true) :
    ∃ v, wfDoc root g.maxDepth v = true ∧ encode v = buf.toList := by
  obtain ⟨h2, ht⟩ := init_accept g buf _ hi
  have hF : Fresh (init g buf (rootNum root)).1 buf (rootNum root) g.maxDepth := by
    rcases ht with ⟨a, b, c⟩ | ⟨a, b, c⟩
    · exact (init_fresh g ha buf _ 0x40 0x41 (Or.inl ⟨a, rfl, rfl⟩) h2 hsz b c).2
    · exact (init_fresh g ha buf _ 0x42 0x43 (Or.inr ⟨a, rfl, rfl⟩) h2 hsz b c).2
  obtain ⟨v, hw, henc, hk⟩ := verify_sound_fresh hF hmd h2 ht hv
  refine ⟨v, ?_, henc⟩
  unfold wfDoc
  cases root with
  | object =>
    rcases hk with ⟨_, ⟨fs, rfl⟩, hf⟩ | ⟨h, _⟩
    · simp [hw, rootKindOk, hf]
    · cases h
  | array =>
    rcases hk with ⟨h, _⟩ | ⟨_, ⟨xs, rfl⟩, hf⟩
    · cases h
    · simp [hw, rootKindOk, hf]

/-- C02: for a buffer accepted by `init`, verify returns true exactly for the canonical encodings
    of well-formed documents fitting the depth configuration -/
theorem verify_iff (g : Parser) (ha : Alloc g) (hmd : g.maxDepth ≤ 255) (buf : Array UInt8) (hsz : buf.size < 2 ^ 63) (root : Root) :
    ((init g buf (rootNum root)).2 = true ∧ (verify (init g buf (rootNum root)).1).2.1 = true) ↔
    ∃ v, wfDoc root g.maxDepth v = true ∧ encode v = buf.toList := by
  constructor
  · rintro ⟨hi, hv⟩
    exact verify_sound g ha hmd buf hsz root hi hv
  · rintro ⟨v, hwf, henc⟩
    have hb : buf = (encode v).toArray := by rw [henc]
    subst hb
    have := verify_wellformed g ha hmd root v hwf (by simpa using hsz)
    exact ⟨this.1, this.2.2.1⟩

end Binson
