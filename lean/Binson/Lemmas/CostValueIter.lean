/-
  C16, tight form, part 3c: one whole loop iteration in VALUE mode.
-/
import Binson.Lemmas.CostValue
namespace Binson

/-! ### the classification stage leaves the flags of every level alone -/

theorem cost_consume_levels (p : Parser) (n : Nat) (peek : Bool) : (consume p n peek).2.2.levels = p.levels := by
  unfold consume
  split
  · rfl
  · cases peek <;> rfl

theorem cost_touchBuf_levels (p : Parser) (o l : Nat) : (p.touchBuf o l).levels = p.levels := by
  unfold Parser.touchBuf; split <;> rfl
theorem cost_touchLvl_levels (p : Parser) (i : Nat) : (p.touchLvl i).levels = p.levels := by
  unfold Parser.touchLvl; split <;> rfl

theorem cost_processOne_levels (p : Parser) (b0 : UInt8) : (processOne p b0).p.levels = p.levels := by
  unfold processOne
  dsimp only
  have h1 : ∀ n, (consume { p with used := p.used + 1 } n false).2.2.levels = p.levels := fun n =>
    cost_consume_levels { p with used := p.used + 1 } n false
  split
  · rfl
  · split
    · have := h1 8
      generalize consume { p with used := p.used + 1 } 8 false = r at this
      obtain ⟨ok, s, q⟩ := r
      dsimp only at this ⊢
      split <;> exact this
    · split
      · have := h1 (2 ^ (b0.toNat % 4))
        generalize consume { p with used := p.used + 1 } (2 ^ (b0.toNat % 4)) false = r at this
        obtain ⟨ok, s, q⟩ := r
        dsimp only at this ⊢
        split <;> exact this
      · split
        · have := h1 (2 ^ (b0.toNat % 4))
          generalize consume { p with used := p.used + 1 } (2 ^ (b0.toNat % 4)) false = r at this
          obtain ⟨ok, s, q⟩ := r
          dsimp only at this ⊢
          split
          · exact this
          · have hq : (q.touchBuf s.off s.len).levels = q.levels := cost_touchBuf_levels _ _ _
            split
            · show (q.touchBuf s.off s.len).levels = p.levels; rw [hq]; exact this
            · split
              · show (q.touchBuf s.off s.len).levels = p.levels; rw [hq]; exact this
              · have h2 := cost_consume_levels (q.touchBuf s.off s.len) (parseIntVal (q.touchBuf s.off s.len) s).toNat false
                rw [hq] at h2
                generalize consume (q.touchBuf s.off s.len) (parseIntVal (q.touchBuf s.off s.len) s).toNat false = r2 at h2
                obtain ⟨ok2, s2, q2⟩ := r2
                dsimp only at h2 ⊢
                split <;> exact h2.trans this
        · rfl

theorem cost_getLvl_congr {p q : Parser} (h : q.levels = p.levels) (i : Nat) : q.getLvl i = p.getLvl i := by
  unfold Parser.getLvl; rw [h]

/-- classification only ever writes `current_type` -/
theorem cost_classify_flags (p : Parser) (bc0 : Nat) (hli : p.lvlIdx < p.levels.size) (i : Nat) :
    ((classify p bc0).p.getLvl i).flags = (p.getLvl i).flags := by
  unfold classify
  dsimp only
  rw [touchLvl_of_lt hli]
  have h1 := cost_consume_levels p 1 true
  generalize consume p 1 true = r at h1
  obtain ⟨ok, s, q⟩ := r
  dsimp only at h1 ⊢
  have hq : (q.touchBuf s.off 1).levels = p.levels := (cost_touchBuf_levels _ _ _).trans h1
  have hg : ∀ j, (q.touchBuf s.off 1).getLvl j = p.getLvl j := cost_getLvl_congr hq
  have hli' : p.lvlIdx < (q.touchBuf s.off 1).levels.size := by rw [hq]; exact hli
  split
  · rw [cost_getLvl_congr h1]
  · split
    · rw [getLvl_setLvl _ hli']
      split
      · rename_i e; rw [e]; show ((q.touchBuf s.off 1).getLvl p.lvlIdx).flags = _; rw [hg]
      · rw [hg]
    · split
      · rw [hg]
      · split
        · rw [getLvl_setLvl _ hli']
          split
          · rename_i e; rw [e]; show ((q.touchBuf s.off 1).getLvl p.lvlIdx).flags = _; rw [hg]
          · rw [hg]
        · split
          · rw [hg]
          · rw [cost_getLvl_congr (cost_processOne_levels _ _), hg]

/-! ### the object and array blocks -/

theorem cost_objBlock_cases {lv0 lv : Level} {tok tok' : Tok} (h : objBlock lv0 tok = some (lv, tok')) :
    (lv = lv0 ∨ lv = { lv0 with flags := .expField }) ∧ (lv0.flags.inObject = false → lv = lv0 ∧ tok' = tok) := by
  unfold objBlock at h
  by_cases h1 : lv0.flags.inObject = true
  · rw [if_pos h1] at h
    simp only at h
    refine ⟨?_, fun hn => by rw [hn] at h1; cases h1⟩
    generalize (if lv0.flags = .expField ∧ tok = .string then Tok.fieldName else tok) = t at h
    by_cases h3 : t.isValue = true
    · rw [if_pos h3] at h
      by_cases h4 : lv0.flags = .expValue
      · rw [if_pos h4] at h
        simp only [Option.some.injEq, Prod.mk.injEq] at h
        exact Or.inr h.1.symm
      · rw [if_neg h4] at h; cases h
    · rw [if_neg h3] at h
      simp only [Option.some.injEq, Prod.mk.injEq] at h
      exact Or.inl h.1.symm
  · rw [if_neg h1] at h
    simp only [Option.some.injEq, Prod.mk.injEq] at h
    exact ⟨Or.inl h.1.symm, fun _ => ⟨h.1.symm, h.2.symm⟩⟩

/-- the IN_ARRAY_1/IN_ARRAY_2 toggle in VALUE mode -/
theorem cost_arrBlock_value (lv : Level) (tok : Tok) (b : Bool) :
    ((arrBlock lv tok b (some .value)).2 = some .value ∨ (arrBlock lv tok b (some .value)).2 = none) ∧
    (¬ (tok = .objBegin ∨ tok = .arrBegin) → (arrBlock lv tok b (some .value)).1 = lv) ∧
    ((tok = .objBegin ∨ tok = .arrBegin) → (arrBlock lv tok b (some .value)).2 = none →
      lv.flags = .arr1 ∧ (arrBlock lv tok b (some .value)).1.flags = .arr2) ∧
    (lv.flags = .arr2 → (tok = .objBegin ∨ tok = .arrBegin) → (arrBlock lv tok b (some .value)).2 = some .value) := by
  unfold arrBlock
  by_cases h1 : lv.flags.inArray = true ∧ b = true
  · rw [if_pos h1]
    by_cases h2 : tok = .objBegin ∨ tok = .arrBegin
    · rw [if_pos h2]
      by_cases h3 : lv.flags = .arr1
      · rw [if_pos h3]
        refine ⟨Or.inr rfl, fun hn => absurd h2 hn, fun _ _ => ⟨h3, rfl⟩, fun h4 => by rw [h4] at h3; cases h3⟩
      · rw [if_neg h3]
        refine ⟨Or.inl rfl, fun hn => absurd h2 hn, fun _ hc => (by cases hc), fun _ _ => rfl⟩
    · rw [if_neg h2]
      refine ⟨Or.inr rfl, fun _ => rfl, fun hb => absurd hb h2, fun _ hb => absurd hb h2⟩
  · rw [if_neg h1]
    refine ⟨Or.inl rfl, fun _ => rfl, fun _ hc => (by cases hc), fun _ _ => rfl⟩

/-! ### one iteration in VALUE mode -/

theorem cost_caseObjEnd_none_noStop (st : LoopSt) (p : Parser) (lv : Level) (li : Nat) (od : Nat) :
    (caseObjEnd st p lv li none od).2 ≠ .stop := by
  unfold caseObjEnd
  by_cases h1 : lv.flags ≠ .expField
  · rw [if_pos h1, cost_finish_err]
    · intro h; cases h
    · intro h; cases h
  · rw [if_neg h1, if_neg (by decide)]; intro h; cases h

theorem cost_caseArrEnd_none_noStop (st : LoopSt) (p : Parser) (lv : Level) (li : Nat) (oa od : Nat) :
    (caseArrEnd st p lv li none oa od).2 ≠ .stop := by
  unfold caseArrEnd
  by_cases h1 : (!lv.flags.inArray) = true
  · rw [if_pos h1, cost_finish_err]
    · intro h; cases h
    · intro h; cases h
  · rw [if_neg h1, if_neg (by decide)]; intro h; cases h

/-- `flags` of the level the token at the cursor belongs to -/
def Parser.curFlags (p : Parser) : Flags := (p.getLvl p.lvlIdx).flags

/-- One pass through the loop body in VALUE mode, from a shaped error-free parser:
    * it never returns `true` directly;
    * if it stops the loop without having moved the cursor, it is the IN_ARRAY_1 → IN_ARRAY_2 toggle;
    * from IN_ARRAY_2: if it stops, the level (of the new cursor) is IN_ARRAY_2 again; if it
      continues, the mode is still VALUE. -/
theorem cost_iter_value (st : LoopSt) (sn : Option (List UInt8)) (oa od : Nat)
    (h : Shape st.p) (he : st.p.err = .none) (hs : st.scan = some .value) :
    (iter st sn oa od).2 ≠ .ret true ∧
    ((iter st sn oa od).2 = .stop → (iter st sn oa od).1.p.used = st.p.used →
        st.p.curFlags = .arr1 ∧ (iter st sn oa od).1.p.curFlags = .arr2) ∧
    (st.p.curFlags = .arr2 →
        ((iter st sn oa od).2 = .stop → (iter st sn oa od).1.p.curFlags = .arr2) ∧
        ((iter st sn oa od).2 = .cont → (iter st sn oa od).1.scan = some .value)) := by
  unfold iter
  simp only
  rcases classify_spec h he st.bc with ⟨et, ce⟩ | ⟨et, co⟩
  · rw [if_pos et]
    exact ⟨(by intro h; cases h), (by intro h; cases h), fun _ => ⟨(by intro h; cases h), (by intro h; cases h)⟩⟩
  · rw [if_neg et]
    have hfl := cost_classify_flags st.p st.bc h.lvlIdx_lt
    generalize classify st.p st.bc = c at et co hfl
    obtain ⟨csh, cerr, cfr, cspan, cnf, cbe, csc⟩ := co
    have hdep : c.p.depth = st.p.depth := cfr.2.1
    have hidx : c.p.lvlIdx = st.p.lvlIdx := by unfold Parser.lvlIdx; rw [hdep]
    have hF0 : (c.p.getLvl c.p.lvlIdx).flags = st.p.curFlags := by rw [hidx]; exact hfl _
    cases hob : objBlock (c.p.getLvl c.p.lvlIdx) c.tok with
    | none =>
      simp only
      exact ⟨(by intro h; cases h), (by intro h; cases h), fun _ => ⟨(by intro h; cases h), (by intro h; cases h)⟩⟩
    | some r =>
      obtain ⟨lv, tok⟩ := r
      simp only
      obtain ⟨_, _, _, _, o5⟩ := objBlock_spec hob
      obtain ⟨oc1, oc2⟩ := cost_objBlock_cases hob
      generalize ({ st with bc := c.bc } : LoopSt) = st'
      rw [hs]
      obtain ⟨v1, v2, v3, v4⟩ := cost_arrBlock_value lv tok (decide (oa = lv.ad ∧ od = c.p.depth))
      generalize arrBlock lv tok (decide (oa = lv.ad ∧ od = c.p.depth)) (some .value) = ab at v1 v2 v3 v4
      obtain ⟨lv', scan'⟩ := ab
      simp only at v1 v2 v3 v4
      have hli := csh.lvlIdx_lt
      have harr2 : st.p.curFlags = .arr2 → lv = c.p.getLvl c.p.lvlIdx ∧ tok = c.tok :=
        fun hf => oc2 (by rw [hF0, hf]; rfl)
      have harr2' : st.p.curFlags = .arr2 → lv.flags = .arr2 := fun hf => by rw [(harr2 hf).1, hF0]; exact hf
      have harr1 : lv.flags = .arr1 → st.p.curFlags = .arr1 := by
        intro hf
        rcases oc1 with e | e
        · rw [← hF0, ← e]; exact hf
        · rw [e] at hf; cases hf
      have curF : ∀ q : Parser, q.depth = c.p.depth → q.curFlags = (q.getLvl c.p.lvlIdx).flags := by
        intro q hq; unfold Parser.curFlags Parser.lvlIdx; rw [hq]
      have hscal : tok.isBeginEnd = false → tok ≠ .fieldName → st.p.used < c.p.used := by
        intro hb hnf
        have hcb : c.tok.isBeginEnd = false := by
          rcases o5 with rfl | ⟨_, e⟩
          · exact hb
          · exact absurd e hnf
        have := csc hcb; omega
      have hscalar : tok.isBeginEnd = false → tok ≠ .fieldName →
          (caseScalar st' tok c.p lv' c.p.lvlIdx scan' c.span).2 ≠ .ret true ∧
          ((caseScalar st' tok c.p lv' c.p.lvlIdx scan' c.span).2 = .stop →
            (caseScalar st' tok c.p lv' c.p.lvlIdx scan' c.span).1.p.used = st.p.used →
            st.p.curFlags = .arr1 ∧ (caseScalar st' tok c.p lv' c.p.lvlIdx scan' c.span).1.p.curFlags = .arr2) ∧
          (st.p.curFlags = .arr2 →
            ((caseScalar st' tok c.p lv' c.p.lvlIdx scan' c.span).2 = .stop →
              (caseScalar st' tok c.p lv' c.p.lvlIdx scan' c.span).1.p.curFlags = .arr2) ∧
            ((caseScalar st' tok c.p lv' c.p.lvlIdx scan' c.span).2 = .cont →
              (caseScalar st' tok c.p lv' c.p.lvlIdx scan' c.span).1.scan = some .value)) := by
        intro hb hnf
        have hu := cost_caseScalar_used st' tok c.p lv' c.p.lvlIdx scan' c.span
        have hlt := hscal hb hnf
        rcases v1 with rfl | rfl
        · have vg := cost_caseScalar_valueGo st' tok c.p lv' c.p.lvlIdx c.span
          exact ⟨vg.2.1, fun hst => absurd hst vg.1, fun _ => ⟨fun hst => absurd hst vg.1, vg.2.2⟩⟩
        · have ve := cost_caseScalar_valueEnd st' tok c.p lv' c.p.lvlIdx c.span
          refine ⟨ve.2.1, fun _ hz => ?_, fun hf => ⟨fun hst => ?_, fun hc => absurd hc ve.1⟩⟩
          · rw [hu] at hz; omega
          · have hl : lv' = lv := v2 (by intro hh; rcases hh with hh | hh <;> (rw [hh] at hb; cases hb))
            have hfl2 : lv'.flags = .arr2 := by rw [hl]; exact harr2' hf
            obtain ⟨g1, g2⟩ := ve.2.2 hst hli hfl2
            rw [curF _ g2]; exact g1
      cases tok
      case objBegin =>
        dsimp only
        rcases v1 with rfl | rfl
        · have vg := cost_caseObjBegin_valueGo st' c.p lv' c.p.lvlIdx
          exact ⟨vg.2.1, fun hst => absurd hst vg.1, fun _ => ⟨fun hst => absurd hst vg.1, vg.2.2⟩⟩
        · have ve := cost_caseObjBegin_valueEnd st' c.p lv' c.p.lvlIdx
          obtain ⟨b1, b2⟩ := v3 (Or.inl rfl) rfl
          refine ⟨ve.2.1, fun hst _ => ?_, fun hf => ?_⟩
          · obtain ⟨g1, g2⟩ := ve.2.2 hst hli b2
            exact ⟨harr1 b1, by rw [curF _ g2]; exact g1⟩
          · have := v4 (harr2' hf) (Or.inl rfl); cases this
      case arrBegin =>
        dsimp only
        rcases v1 with rfl | rfl
        · have vg := cost_caseArrBegin_valueGo st' c.p lv' c.p.lvlIdx
          exact ⟨vg.2.1, fun hst => absurd hst vg.1, fun _ => ⟨fun hst => absurd hst vg.1, vg.2.2⟩⟩
        · have ve := cost_caseArrBegin_valueEnd st' c.p lv' c.p.lvlIdx
          obtain ⟨b1, b2⟩ := v3 (Or.inr rfl) rfl
          refine ⟨ve.2.1, fun hst _ => ?_, fun hf => ?_⟩
          · obtain ⟨g1, g2⟩ := ve.2.2 hst hli b2
            exact ⟨harr1 b1, by rw [curF _ g2]; exact g1⟩
          · have := v4 (harr2' hf) (Or.inr rfl); cases this
      case objEnd =>
        dsimp only
        rcases v1 with rfl | rfl
        · have vg := cost_caseObjEnd_valueGo st' c.p lv' c.p.lvlIdx od
          exact ⟨vg.2.1, fun hst => absurd hst vg.1, fun _ => ⟨fun hst => absurd hst vg.1, vg.2.2⟩⟩
        · have ve := cost_caseObjEnd_valueEnd st' c.p lv' c.p.lvlIdx od
          have ns := cost_caseObjEnd_none_noStop st' c.p lv' c.p.lvlIdx od
          exact ⟨ve.2.1, fun hst => absurd hst ns, fun _ => ⟨fun hst => absurd hst ns, fun hc => absurd hc ve.1⟩⟩
      case arrEnd =>
        dsimp only
        rcases v1 with rfl | rfl
        · have vg := cost_caseArrEnd_valueGo st' c.p lv' c.p.lvlIdx oa od
          exact ⟨vg.2.1, fun hst => absurd hst vg.1, fun _ => ⟨fun hst => absurd hst vg.1, vg.2.2⟩⟩
        · have ve := cost_caseArrEnd_valueEnd st' c.p lv' c.p.lvlIdx oa od
          have ns := cost_caseArrEnd_none_noStop st' c.p lv' c.p.lvlIdx oa od
          exact ⟨ve.2.1, fun hst => absurd hst ns, fun _ => ⟨fun hst => absurd hst ns, fun hc => absurd hc ve.1⟩⟩
      case fieldName =>
        dsimp only
        have ns := cost_caseFieldName_noStop st' c.p lv' c.p.lvlIdx scan' c.span c.bc sn oa od
        refine ⟨ns.2, fun hst => absurd hst ns.1, fun hf => ?_⟩
        exact absurd (harr2 hf).2.symm cnf
      all_goals exact hscalar rfl (by intro h; cases h)

end Binson
