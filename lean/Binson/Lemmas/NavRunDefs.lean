/-
  Layer 4, part 3: vocabulary for the corollaries of the navigation refinement (C07, C11, C08 ⇐):
  the joint run of machine and reference cursor along a protocol-following call sequence, and what
  the cursor still has ahead. Nothing is proved here.
-/
import Binson.Lemmas.NavDefs
namespace Binson

/-- machine and cursor advanced together along `ops`; stops at the first call the protocol does not allow -/
def navRun : Parser × Cursor → List COp → Parser × Cursor
  | pc, [] => pc
  | pc, op :: ops => if pc.2.allowed op then navRun ((machNav pc.1 op).1, (pc.2.step op).1) ops else pc

/-- the field names not yet returned in the innermost frame, in document order -/
def Cursor.namesAhead (c : Cursor) : List Bytes :=
  match c.frames with
  | f :: _ => f.rest.map nameOf
  | [] => []

/-- the innermost frame is an object (lookups are specified only there) -/
def Cursor.inObject (c : Cursor) : Bool :=
  match c.frames with
  | f :: _ => f.isObj
  | [] => false

/-- successive lookups; the list of their results -/
def lookups : Parser → List Bytes → Parser × List Bool
  | p, [] => (p, [])
  | p, nm :: r => let x := field p nm; let y := lookups x.1 r; (y.1, x.2 :: y.2)

/-- strictly ascending list of names -/
def ascNames : List Bytes → Bool
  | [] => true
  | [_] => true
  | a :: b :: r => bytesLt a b && ascNames (b :: r)

/-- the kind of document a container value is -/
def rootOf : Value → Root
  | .arr _ => .array
  | _ => .object

end Binson
