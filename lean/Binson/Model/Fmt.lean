/-
  libc formatting used by the print callbacks: executable instances of `%lld`, `%f`, `%02x`.
  They are *parameters* of the C13/C14 theorems; these instances are what the correspondence
  run uses, and they are themselves compared with glibc on every run.
-/
namespace Binson

def strBytes (s : String) : List UInt8 := s.toUTF8.toList

/-- `%lld` -/
def fmtIntDec (i : Int) : List UInt8 := strBytes (toString i)

/-- exact `printf("%f")` of the IEEE-754 double with bit pattern `b` (round-half-even) -/
def fmtF (b : Nat) : String :=
  let sign := b / 2^63 % 2
  let e : Nat := (b / 2^52) % 2048
  let m := b % 2^52
  let sgn := if sign = 1 then "-" else ""
  if e = 2047 then (if m = 0 then sgn ++ "inf" else sgn ++ "nan") else
  let mant := if e = 0 then m else m + 2^52
  let ex : Int := (if e = 0 then (1 : Int) else Int.ofNat e) - 1075
  let (num, den) := if ex ≥ 0 then (mant * 2^ex.toNat * 1000000, 1) else (mant * 1000000, 2^((-ex).toNat))
  let q := num / den
  let r := num % den
  let q := if 2 * r > den then q + 1 else if 2 * r = den then (if q % 2 = 1 then q + 1 else q) else q
  let ip := q / 1000000
  let fp := q % 1000000
  let fs := toString fp
  sgn ++ toString ip ++ "." ++ String.ofList (List.replicate (6 - fs.length) '0') ++ fs

def fmtDoubleF (bits : Nat) : List UInt8 := strBytes (fmtF bits)

def hexDigit (n : Nat) : UInt8 := if n < 10 then UInt8.ofNat (48 + n) else UInt8.ofNat (87 + n)
/-- `%02x` -/
def hex2 (b : UInt8) : List UInt8 := [hexDigit (b.toNat / 16), hexDigit (b.toNat % 16)]

end Binson
