/-
  C13 — `binson_parser_to_string` obeys its size protocol and never overruns the text buffer.
  Statements are about `_binson_to_string_cb` (`toStringCbV`/`toStringFoldV`, Model/Print.lean) run
  over EVERY list of views (whatever the bytes), for every destination and every claimed capacity.
  Hypotheses: the claimed capacity is really there (`size ≤ mem.size`) and is below 2^63
  (an object size; it makes the mod-2^64 of `_check_boundary` irrelevant). No bound on the lengths
  of names, strings or byte spans, nor on the formatters, is needed.
  The NULL-buffer size query is `size = 0` with `mem = #[]`.
-/
import Binson.Lemmas.ToStringLemmas
import Binson.Lemmas.VerifyValid
import Binson.Props.C14
namespace Binson

/-- the initial context of `binson_parser_to_string` for a destination `mem` and claimed size `size` -/
def ts0 (mem : Array UInt8) (size : Nat) : TSCtx :=
  { size := size, used := 0, pstate := 0, full := false, mem := mem }

theorem ts0_winv (mem : Array UInt8) (size : Nat) : WInv size mem (ts0 mem size) [] :=
  ⟨⟨rfl, rfl, rfl, rfl⟩, rfl, fun h => by simp [ts0] at h, fun _ => rfl⟩

private theorem bound_conv {size : Nat} (hs : size < 2 ^ 63) : size < two64 / 2 := by
  simp only [two64]; omega

/-- no store leaves the destination (`fault` is the ghost flag for a store outside `mem` or through
    a NULL destination), the destination keeps its size, and nothing at or beyond the claimed
    capacity is modified -/
theorem to_string_no_overrun (F : Fmts) (vs : List EvView) (mem : Array UInt8) (size : Nat)
    (h : size ≤ mem.size) (hs : size < 2 ^ 63) :
    (toStringFoldV F (ts0 mem size) vs).fault = false ∧
    (toStringFoldV F (ts0 mem size) vs).mem.size = mem.size ∧
    (toStringFoldV F (ts0 mem size) vs).mem.toList.drop size = mem.toList.drop size := by
  have hw := (fold_winv h (bound_conv hs) F vs _ _ (ts0_winv mem size)).1
  exact ⟨hw.safe.fault, hw.safe.msize, hw.safe.tail⟩

/-- the size protocol. `t` is the text the stdout callback prints for the same views.
    `used` always counts the full text and `pstate` is the stdout callback's; `full` is raised only
    if text plus NUL do not fit, and whenever they fit the destination starts with the text.
    After at least one callback `full` is exact and the text is NUL-terminated.
    (For `vs = []` nothing is stored and `full` stays false even when `size = 0`.) -/
theorem to_string_ctx (F : Fmts) (vs : List EvView) (mem : Array UInt8) (size : Nat)
    (h : size ≤ mem.size) (hs : size < 2 ^ 63) :
    let c := toStringFoldV F (ts0 mem size) vs
    let t := printFoldV F 0 vs
    c.size = size ∧ c.used = t.length ∧ c.pstate = psFoldV F 0 vs ∧
    (c.full = true → size ≤ t.length) ∧
    (t.length < size → c.mem.toList.take t.length = t) ∧
    (vs ≠ [] → (c.full = true ↔ size ≤ t.length) ∧
      (c.full = false → c.mem.toList.take (t.length + 1) = t ++ [0])) := by
  intro c t
  have hw := fold_winv h (bound_conv hs) F vs _ _ (ts0_winv mem size)
  simp only [List.nil_append] at hw
  refine ⟨hw.1.safe.hsize, hw.1.used, hw.2, hw.1.full, hw.1.cont, fun hne => ?_⟩
  have hsv := fold_sinv_of_ne_nil h (bound_conv hs) F vs hne _ _ (ts0_winv mem size)
  simp only [List.nil_append] at hsv
  refine ⟨⟨hsv.w.full, hsv.fullIff⟩, fun hnf => hsv.contNul ?_⟩
  apply Nat.lt_of_not_le
  intro hge
  have := hsv.fullIff hge
  exact absurd this (by simp [show (toStringFoldV F (ts0 mem size) vs).full = false from hnf])

/-- the two clauses that need a callback really do: with no callback and `size = 0`
    (the NULL query) `full` is not raised, and with `size = 1` no NUL is stored -/
example (F : Fmts) : (toStringFoldV F (ts0 #[] 0) []).full = false ∧ 0 ≤ (printFoldV F 0 []).length :=
  ⟨rfl, Nat.le_refl _⟩
example (F : Fmts) : (toStringFoldV F (ts0 #[1] 1) []).mem.toList.take 1 ≠ printFoldV F 0 [] ++ [0] := by
  show [(1 : UInt8)] ≠ [0]
  decide

/-- C13 and C14 together: for the views of a value the counted text is the reference rendering,
    `full` is raised iff rendering plus NUL exceed the claimed capacity, otherwise the destination
    holds the rendering followed by NUL; and nothing outside the capacity is touched -/
theorem to_string_text (F : Fmts) (v : Value) (mem : Array UInt8) (size : Nat)
    (h : size ≤ mem.size) (hs : size < 2 ^ 63) :
    let c := toStringFoldV F (ts0 mem size) (viewsOf 0 v)
    let n := (render F v).length
    c.used = n ∧ (c.full = true ↔ size ≤ n) ∧
    (n < size → c.mem.toList.take (n + 1) = render F v ++ [0]) ∧
    c.fault = false ∧ c.mem.size = mem.size ∧ c.mem.toList.drop size = mem.toList.drop size := by
  intro c n
  have hne : viewsOf 0 v ≠ [] := by cases v <;> simp [viewsOf]
  have hc := to_string_ctx F (viewsOf 0 v) mem size h hs
  have ho := to_string_no_overrun F (viewsOf 0 v) mem size h hs
  simp only [text_eq_render] at hc
  obtain ⟨-, hused, -, -, -, hx⟩ := hc
  obtain ⟨hiff, hnul⟩ := hx hne
  refine ⟨hused, hiff, fun hlt => hnul ?_, ho⟩
  cases hf : (toStringFoldV F (ts0 mem size) (viewsOf 0 v)).full
  · rfl
  · have := hiff.1 hf
    exact absurd hlt (Nat.not_lt.mpr this)

/-- the size query (`pbuf == NULL`: capacity 0, no destination): nothing is stored, `used` is the
    length of the rendering and `full` is raised, so the API reports `used + 1` bytes needed -/
theorem to_string_query (F : Fmts) (v : Value) :
    let c := toStringFoldV F (ts0 #[] 0) (viewsOf 0 v)
    c.used = (render F v).length ∧ c.full = true ∧ c.fault = false ∧ c.mem = #[] := by
  intro c
  have ht := to_string_text F v #[] 0 (Nat.le_refl _) (by decide)
  obtain ⟨hu, hf, -, hfa, hsz, -⟩ := ht
  refine ⟨hu, hf.2 (Nat.zero_le _), hfa, ?_⟩
  exact Array.eq_empty_of_size_eq_zero hsz

/-- the API function itself (`toString'`: parser, return value, new `*buf_size`, destination, fault),
    whatever the parser state and whatever `verify` logs: no fault, the destination keeps its size,
    nothing at or beyond the claimed capacity changes, and the reported size is the length of the text
    the stdout callback prints for the same log — plus one (room for the NUL) when it returns false -/
theorem to_string_api (F : Fmts) (p : Parser) (mem : Option (Array UInt8)) (size : Nat)
    (h : ∀ m, mem = some m → size ≤ m.size) (hs : size < 2 ^ 63) :
    let r := toString' F p mem size
    let t := printFold F p.buf 0 (verify p).2.2
    r.2.2.2.2 = false ∧ r.2.2.2.1.size = (mem.getD #[]).size ∧
    r.2.2.2.1.toList.drop size = (mem.getD #[]).toList.drop size ∧
    r.2.2.1 = t.length + (if r.2.1 then 0 else 1) := by
  intro r t
  have key : ∀ (m : Array UInt8) (sz : Nat), sz ≤ m.size → sz < 2 ^ 63 → sz ≤ size →
      (m.size ≤ sz ∨ sz = size) →
      let c := toStringFold F p.buf (ts0 m sz) (verify p).2.2
      c.fault = false ∧ c.mem.size = m.size ∧ c.mem.toList.drop size = m.toList.drop size ∧
      c.used = t.length := by
    intro m sz h1 h2 h3 h4 c
    have ho := to_string_no_overrun F ((verify p).2.2.map (view p.buf)) m sz h1 h2
    have hc := to_string_ctx F ((verify p).2.2.map (view p.buf)) m sz h1 h2
    refine ⟨ho.1, ho.2.1, ?_, hc.2.1⟩
    rcases h4 with h4 | h4
    · have e1 : c.mem.toList.drop size = [] := List.drop_of_length_le (by
        show c.mem.toList.length ≤ size
        rw [Array.length_toList]
        show c.mem.size ≤ size
        rw [show c.mem.size = m.size from ho.2.1]; omega)
      have e2 : m.toList.drop size = [] := List.drop_of_length_le (by rw [Array.length_toList]; omega)
      rw [e1, e2]
    · subst h4; exact ho.2.2
  have hr : r = toString' F p mem size := rfl
  clear_value r t
  subst hr
  cases mem with
  | none =>
    have k := key #[] 0 (Nat.le_refl _) (by decide) (Nat.zero_le _) (Or.inl (Nat.le_refl _))
    simp only [toStringFold, ts0] at k
    unfold toString'
    simp only [Option.isNone_none, if_true, Option.getD_none, toStringFold]
    split <;> simp_all
  | some m =>
    have k := key m size (h m rfl) hs (Nat.le_refl _) (Or.inr rfl)
    simp only [toStringFold, ts0] at k
    unfold toString'
    simp only [Option.isNone_some, Bool.false_eq_true, if_false, Option.getD_some, toStringFold]
    split <;> simp_all

/-- `{"A":{},"B":[1,{}]}` into a 64-byte destination of which 32 bytes are claimed -/
example (F : Fmts) :
    let c := toStringFoldV F (ts0 (Array.replicate 64 0) 32) (viewsOf 0 c14Sample)
    c.used = (render F c14Sample).length ∧ (c.full = true ↔ 32 ≤ (render F c14Sample).length) ∧
    c.fault = false ∧ c.mem.toList.drop 32 = List.replicate 32 0 := by
  have := to_string_text F c14Sample (Array.replicate 64 0) 32 (by simp) (by decide)
  refine ⟨this.1, this.2.1, this.2.2.2.1, ?_⟩
  rw [this.2.2.2.2.2]
  decide

theorem toString_unfold (F : Fmts) (p : Parser) (mem : Option (Array UInt8)) (size : Nat) :
    toString' F p mem size =
      (if (verify p).2.1 && !(toStringFold F p.buf (ts0 (mem.getD #[]) (if mem.isNone then 0 else size)) (verify p).2.2).full then
        ((verify p).1, true, (toStringFold F p.buf (ts0 (mem.getD #[]) (if mem.isNone then 0 else size)) (verify p).2.2).used,
          (toStringFold F p.buf (ts0 (mem.getD #[]) (if mem.isNone then 0 else size)) (verify p).2.2).mem,
          (toStringFold F p.buf (ts0 (mem.getD #[]) (if mem.isNone then 0 else size)) (verify p).2.2).fault)
      else
        ((verify p).1, false, (toStringFold F p.buf (ts0 (mem.getD #[]) (if mem.isNone then 0 else size)) (verify p).2.2).used + 1,
          (toStringFold F p.buf (ts0 (mem.getD #[]) (if mem.isNone then 0 else size)) (verify p).2.2).mem,
          (toStringFold F p.buf (ts0 (mem.getD #[]) (if mem.isNone then 0 else size)) (verify p).2.2).fault)) := rfl

/-- C13, the size protocol on valid documents, end to end (init + `binson_parser_to_string` of the
    model, from any allocated parser object): with a NULL or too small buffer the call returns false
    and reports `text length + 1`, the same number for every capacity; with a buffer of at least that
    size it returns true, stores the text followed by NUL and reports the text length. -/
theorem to_string_protocol (F : Fmts) (g : Parser) (ha : Alloc g) (hmd : g.maxDepth ≤ 255) (root : Root) (v : Value)
    (hwf : wfDoc root g.maxDepth v = true) (hsz : (encode v).length < 2 ^ 63)
    (mem : Option (Array UInt8)) (size : Nat) (h : ∀ m, mem = some m → size ≤ m.size) (hs : size < 2 ^ 63) :
    let p := (init g (encode v).toArray (rootNum root)).1
    let n := (render F v).length
    let r := toString' F p mem size
    ((mem = none ∨ size ≤ n) → r.2.1 = false ∧ r.2.2.1 = n + 1) ∧
    (∀ m, mem = some m → n < size → r.2.1 = true ∧ r.2.2.1 = n ∧ r.2.2.2.1.toList.take (n + 1) = render F v ++ [0]) ∧
    r.2.2.2.2 = false := by
  intro p n r
  obtain ⟨_, hF, hvt, hvv⟩ := verify_wellformed g ha hmd root v hwf hsz
  have hbuf : p.buf = (encode v).toArray := hF.buf
  have hfold : ∀ c0, toStringFold F p.buf c0 (verify p).2.2 = toStringFoldV F c0 (viewsOf 0 v) := by
    intro c0; unfold toStringFold; rw [hbuf, hvv]
  have hapi := to_string_api F p mem size h hs
  have hvt' : (verify p).2.1 = true := hvt
  refine ⟨?_, ?_, hapi.1⟩
  · intro hcase
    show (toString' F p mem size).2.1 = false ∧ (toString' F p mem size).2.2.1 = n + 1
    rw [toString_unfold]
    simp only [hfold, hvt', Bool.true_and]
    cases mem with
    | none =>
      simp only [Option.isNone_none, if_true, Option.getD_none]
      have ht := to_string_text F v #[] 0 (Nat.le_refl _) (by decide)
      have hfull : (toStringFoldV F (ts0 #[] 0) (viewsOf 0 v)).full = true := ht.2.1.2 (Nat.zero_le _)
      rw [hfull]; simp only [Bool.not_true, Bool.false_eq_true, if_false]
      exact ⟨trivial, by rw [ht.1]⟩
    | some m =>
      simp only [Option.isNone_some, Bool.false_eq_true, if_false, Option.getD_some]
      have hle : size ≤ n := by
        rcases hcase with hc | hc
        · cases hc
        · exact hc
      have ht := to_string_text F v m size (h m rfl) hs
      have hfull : (toStringFoldV F (ts0 m size) (viewsOf 0 v)).full = true := ht.2.1.2 hle
      rw [hfull]; simp only [Bool.not_true, Bool.false_eq_true, if_false]
      exact ⟨trivial, by rw [ht.1]⟩
  · intro m hm hlt
    subst hm
    show (toString' F p (some m) size).2.1 = true ∧ (toString' F p (some m) size).2.2.1 = n ∧
      (toString' F p (some m) size).2.2.2.1.toList.take (n + 1) = render F v ++ [0]
    rw [toString_unfold]
    simp only [hfold, hvt', Bool.true_and, Option.isNone_some, Bool.false_eq_true, if_false, Option.getD_some]
    have ht := to_string_text F v m size (h m rfl) hs
    have hnf : (toStringFoldV F (ts0 m size) (viewsOf 0 v)).full = false := by
      cases hf : (toStringFoldV F (ts0 m size) (viewsOf 0 v)).full
      · rfl
      · exact absurd hlt (Nat.not_lt.mpr (ht.2.1.1 hf))
    rw [hnf]; simp only [Bool.not_false, if_true]
    exact ⟨trivial, ht.1, ht.2.2.1 hlt⟩


/-- "it returns false for invalid documents": whatever the bytes and the parser state, when verify
    rejects, `binson_parser_to_string` returns false (and by `to_string_api` still stores nothing at or
    beyond the capacity) -/
theorem to_string_invalid (F : Fmts) (p : Parser) (mem : Option (Array UInt8)) (size : Nat)
    (hv : (verify p).2.1 = false) : (toString' F p mem size).2.1 = false := by
  unfold toString'
  simp [hv]

end Binson
