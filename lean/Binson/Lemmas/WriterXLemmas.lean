/-
  The writer over its FULL call vocabulary (`WOpX`: valid calls, NULL arguments, the absurd length,
  reset): no store ever leaves the destination, the error latch, and "fresh after a successful reset".
-/
import Binson.Model.WriterX
import Binson.Lemmas.WriterLemmas
namespace Binson

/-- `hugeRaw` really is what `_write` computes for a payload of SIZE_MAX bytes: the capacity test refuses it -/
theorem hugeRaw_refused (w : Writer) (hu : w.used < two64) (hc : w.cap < sizeMaxW) :
    let c := (sizeMaxW + w.used) % two64
    c > w.cap ∨ c < w.used := by
  intro c
  by_cases h0 : w.used = 0
  · left
    show (sizeMaxW + w.used) % two64 > w.cap
    rw [h0, Nat.add_zero, Nat.mod_eq_of_lt (by unfold two64 sizeMaxW; omega)]; unfold sizeMaxW at hc ⊢; omega
  · right
    show (sizeMaxW + w.used) % two64 < w.used
    have e : sizeMaxW + w.used = (w.used - 1) + two64 := by unfold two64 sizeMaxW at *; omega
    rw [e, Nat.add_mod_right, Nat.mod_eq_of_lt (by omega)]; omega

theorem hugeRaw_facts (w : Writer) :
    (w.stepX .hugeRaw).2 = false ∧ (w.stepX .hugeRaw).1.mem = w.mem ∧ (w.stepX .hugeRaw).1.fault = w.fault ∧
    (w.stepX .hugeRaw).1.cap = w.cap := by
  exact ⟨rfl, rfl, rfl, rfl⟩

theorem hugeRaw_err (w : Writer) : (w.stepX .hugeRaw).1.err ≠ .none := by
  show (if w.bufNull then Err.null else Err.range) ≠ Err.none
  split <;> (intro h; cases h)

/-- once the error flag is set, EVERY call other than a successful reset returns false, stores nothing
    and leaves an error set -/
theorem stepX_latched (w : Writer) (op : WOpX) (h : w.err ≠ .none) (hr : op ≠ .reset) :
    (w.stepX op).2 = false ∧ (w.stepX op).1.mem = w.mem ∧ (w.stepX op).1.err ≠ .none ∧ (w.stepX op).1.fault = w.fault := by
  cases op with
  | op o => obtain ⟨a, b, c, d, _⟩ := step_latched w o h; exact ⟨a, b, c, d⟩
  | nullName => exact ⟨rfl, rfl, (by intro h; cases h), rfl⟩
  | nullRaw n => exact ⟨rfl, rfl, (by intro h; cases h), rfl⟩
  | hugeRaw => exact ⟨(hugeRaw_facts w).1, (hugeRaw_facts w).2.1, hugeRaw_err w, (hugeRaw_facts w).2.2.1⟩
  | reset => exact absurd rfl hr

/-- the destination is never resized and the three calls outside `WOp` store nothing, set an error and return false -/
theorem stepX_invalid (w : Writer) (op : WOpX) (hv : ∀ o, op ≠ .op o) (hr : op ≠ .reset) :
    (w.stepX op).2 = false ∧ (w.stepX op).1.mem = w.mem ∧ (w.stepX op).1.err ≠ .none ∧ (w.stepX op).1.fault = w.fault ∧
    (w.stepX op).1.cap = w.cap := by
  cases op with
  | op o => exact absurd rfl (hv o)
  | nullName => exact ⟨rfl, rfl, (by intro h; cases h), rfl, rfl⟩
  | nullRaw n => exact ⟨rfl, rfl, (by intro h; cases h), rfl, rfl⟩
  | hugeRaw => exact ⟨(hugeRaw_facts w).1, (hugeRaw_facts w).2.1, hugeRaw_err w, (hugeRaw_facts w).2.2.1, (hugeRaw_facts w).2.2.2⟩
  | reset => exact absurd rfl hr

/-- a reset never touches the destination -/
theorem reset_mem (w : Writer) : w.reset.1.mem = w.mem ∧ w.reset.1.fault = w.fault ∧ w.reset.1.cap = w.cap := by
  unfold Writer.reset; split
  · exact ⟨rfl, rfl, rfl⟩
  · split <;> exact ⟨rfl, rfl, rfl⟩

/-- whatever was written or failed before - NULL arguments and absurd lengths included - a reset that
    returns true gives a writer that is like a fresh one over the same destination -/
theorem runX_reset_fresh (w : Writer) (ops : List WOpX) (h : (w.runX ops).reset.2 = true) :
    (w.runX ops).reset.1.used = 0 ∧ (w.runX ops).reset.1.err = .none ∧ (w.runX ops).reset.1.cap = (w.runX ops).cap := by
  generalize w.runX ops = x at h ⊢
  unfold Writer.reset at h ⊢
  by_cases hb : x.bufNull = true
  · simp [hb] at h
  · by_cases hc : x.cap < 2
    · simp [hb, hc] at h
    · simp [hb, hc]

/-- after the first failing call, a run without reset stores nothing more and ends with the error set -/
theorem runX_latched : ∀ (ops : List WOpX) (w : Writer), w.err ≠ .none → (∀ op ∈ ops, op ≠ .reset) →
    (w.runX ops).err ≠ .none ∧ (w.runX ops).mem = w.mem ∧ (w.runX ops).fault = w.fault
  | [], w, h, _ => ⟨h, rfl, rfl⟩
  | op :: r, w, h, hn => by
    obtain ⟨_, a2, a3, a4⟩ := stepX_latched w op h (hn op (by simp))
    obtain ⟨i1, i2, i3⟩ := runX_latched r (w.stepX op).1 a3 (fun o ho => hn o (by simp [ho]))
    have e : w.runX (op :: r) = (w.stepX op).1.runX r := rfl
    rw [e]; exact ⟨i1, by rw [i2, a2], by rw [i3, a4]⟩

end Binson
