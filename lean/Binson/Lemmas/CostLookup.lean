/-
  C16, tight form, part 5: a failed lookup re-reads at most the one name it overshot; and the
  `field` loop itself terminates (its model fuel `size + 2` is never exhausted).
-/
import Binson.Lemmas.CostRun
namespace Binson

/-! ### the last iteration of a `_advance_parsing` call -/

/-- the loop state at the start of the LAST iteration the loop executes -/
def advLast : Nat → LoopSt → Option (List UInt8) → Nat → Nat → LoopSt
  | 0, st, _, _, _ => st
  | f+1, st, sn, oa, od =>
    match iter st sn oa od with
    | (st', .cont) => advLast f st' sn oa od
    | _ => st

/-- with enough fuel, the whole loop ends like one more iteration from `advLast` -/
theorem cost_advLast (f : Nat) (st : LoopSt) (sn : Option (List UInt8)) (oa od : Nat)
    (h : Shape st.p) (he : st.p.err = .none) (hf : st.p.size - st.p.used + 1 ≤ f) :
    Shape (advLast f st sn oa od).p ∧ (advLast f st sn oa od).p.err = .none ∧
    st.p.used ≤ (advLast f st sn oa od).p.used ∧
    advLoop f st sn oa od = advLoop 1 (advLast f st sn oa od) sn oa od := by
  induction f generalizing st with
  | zero => omega
  | succ f ih =>
    have is := iter_spec st sn oa od h he
    cases hit : iter st sn oa od with
    | mk st' out =>
    rw [hit] at is
    obtain ⟨ish, ifr, iev, icont⟩ := is
    simp only at ish ifr iev icont
    cases out with
    | ret b =>
      have e2 : advLast (f+1) st sn oa od = st := by rw [advLast, hit]
      have e1 : advLoop (f+1) st sn oa od = (st', .done b) := by rw [advLoop, hit]
      have e3 : advLoop 1 st sn oa od = (st', .done b) := by rw [advLoop, hit]
      rw [e2, e1, e3]
      exact ⟨h, he, Nat.le_refl _, rfl⟩
    | stop =>
      have e2 : advLast (f+1) st sn oa od = st := by rw [advLast, hit]
      have e1 : advLoop (f+1) st sn oa od = (st', .done (st'.p.err = .none)) := by rw [advLoop, hit]
      have e3 : advLoop 1 st sn oa od = (st', .done (st'.p.err = .none)) := by rw [advLoop, hit]
      rw [e2, e1, e3]
      exact ⟨h, he, Nat.le_refl _, rfl⟩
    | cont =>
      obtain ⟨e', hu'⟩ := icont rfl
      have hsz : st'.p.size = st.p.size := ifr.1
      have hus := ish.hus
      have e2 : advLast (f+1) st sn oa od = advLast f st' sn oa od := by rw [advLast, hit]
      have e1 : advLoop (f+1) st sn oa od = advLoop f st' sn oa od := by rw [advLoop, hit]
      obtain ⟨a, b, c, d⟩ := ih st' ish e' (by omega)
      rw [e2, e1]
      exact ⟨a, b, by omega, d⟩

theorem cost_advLoop_one (st : LoopSt) (sn : Option (List UInt8)) (oa od : Nat) :
    (advLoop 1 st sn oa od).1 = (iter st sn oa od).1 ∧
    ((iter st sn oa od).2 = .ret false → (advLoop 1 st sn oa od).2 = .done false) := by
  rw [advLoop]
  cases hit : iter st sn oa od with
  | mk st' out =>
  cases out with
  | ret b => exact ⟨rfl, fun hb => by cases hb; rfl⟩
  | stop => exact ⟨rfl, fun hb => by cases hb⟩
  | cont => exact ⟨by simp only [advLoop], fun hb => by cases hb⟩

/-- the loop state at the start of the last iteration of the call `_advance_parsing(p, scan, sn)` -/
def advanceLast (p : Parser) (scan : Scan) (sn : Option (List UInt8)) : LoopSt :=
  advLast (p.size - p.used + 2) ⟨p, some scan, 0, []⟩ sn (p.getLvl p.cur).ad p.depth

/-- **A call of `_advance_parsing` un-reads at most one name token, the last token it read.**
    With `L` the loop state at the start of the call's last iteration and `c` the token that
    iteration read (bytes `L.p.used .. c.p.used`, the furthest position the call read up to):
    either the call leaves the cursor at or beyond `c.p.used` (nothing un-read), or that token is
    one string token (a field name greater than the name looked for), the cursor is left exactly
    at its first byte, and the call returns `false` with no error set. -/
theorem advance_unreads_at_most_one_name (p : Parser) (scan : Scan) (sn : Option (List UInt8))
    (h : Shape p) (he : p.err = .none) :
    p.used ≤ (advanceLast p scan sn).p.used ∧
    (advanceLast p scan sn).p.used ≤ (classify (advanceLast p scan sn).p (advanceLast p scan sn).bc).p.used ∧
    ((classify (advanceLast p scan sn).p (advanceLast p scan sn).bc).p.used ≤ (advance p scan sn).p.used ∨
     ((classify (advanceLast p scan sn).p (advanceLast p scan sn).bc).tok = .string ∧
      (classify (advanceLast p scan sn).p (advanceLast p scan sn).bc).p.used
        = (advanceLast p scan sn).p.used + (classify (advanceLast p scan sn).p (advanceLast p scan sn).bc).bc ∧
      1 ≤ (classify (advanceLast p scan sn).p (advanceLast p scan sn).bc).bc ∧
      (advance p scan sn).p.used = (advanceLast p scan sn).p.used ∧
      (advance p scan sn).ret = false ∧ (advance p scan sn).p.err = .none ∧
      overshoot (classify (advanceLast p scan sn).p (advanceLast p scan sn).bc).p
        (classify (advanceLast p scan sn).p (advanceLast p scan sn).bc).span sn = true)) := by
  have hl := cost_advLast (p.size - p.used + 2) ⟨p, some scan, 0, []⟩ sn (p.getLvl p.cur).ad p.depth h he (by simp)
  have hadv : advance p scan sn =
      (match (advLoop (p.size - p.used + 2) ⟨p, some scan, 0, []⟩ sn (p.getLvl p.cur).ad p.depth).2 with
       | .done b => ⟨(advLoop (p.size - p.used + 2) ⟨p, some scan, 0, []⟩ sn (p.getLvl p.cur).ad p.depth).1.p, b,
                      (advLoop (p.size - p.used + 2) ⟨p, some scan, 0, []⟩ sn (p.getLvl p.cur).ad p.depth).1.ev.reverse, false⟩
       | .outOfFuel => ⟨{ (advLoop (p.size - p.used + 2) ⟨p, some scan, 0, []⟩ sn (p.getLvl p.cur).ad p.depth).1.p with oof := true }, false,
                      (advLoop (p.size - p.used + 2) ⟨p, some scan, 0, []⟩ sn (p.getLvl p.cur).ad p.depth).1.ev.reverse, true⟩) := by
    unfold advance
    rw [if_neg (by simp [he])]
    simp only [touchLvl_of_lt h.cur_lt]
    generalize advLoop (p.size - p.used + 2) ⟨p, some scan, 0, []⟩ sn (p.getLvl p.cur).ad p.depth = r
    obtain ⟨s, res⟩ := r
    cases res <;> rfl
  unfold advanceLast
  generalize advLast (p.size - p.used + 2) ⟨p, some scan, 0, []⟩ sn (p.getLvl p.cur).ad p.depth = L at hl
  obtain ⟨lsh, lerr, lmono, leq⟩ := hl
  simp only at lmono
  rw [leq] at hadv
  obtain ⟨o1, o2⟩ := cost_advLoop_one L sn (p.getLvl p.cur).ad p.depth
  have hpu : (advance p scan sn).p.used = (iter L sn (p.getLvl p.cur).ad p.depth).1.p.used := by
    rw [hadv, ← o1]
    cases (advLoop 1 L sn (p.getLvl p.cur).ad p.depth).2 <;> rfl
  refine ⟨lmono, cost_classify_used _ _, ?_⟩
  rcases iter_overshoot_unreads_one L sn (p.getLvl p.cur).ad p.depth lsh lerr with d | ⟨d1, d2, d3, d4, d5, d6, _, d8⟩
  · left; rw [hpu]; exact d
  · right
    have o2' := o2 d5
    refine ⟨d1, d2, d3, by rw [hpu]; exact d4, ?_, ?_, d8⟩
    · rw [hadv, o2']
    · rw [hadv, o2']; show (advLoop 1 L sn (p.getLvl p.cur).ad p.depth).1.p.err = .none
      rw [o1]; exact d6

/-! ### the `field` loop: termination, and its last `_advance_parsing` call -/

theorem cost_fieldLoop_succ (f : Nat) (p : Parser) (nm : List UInt8) :
    fieldLoop (f + 1) p nm =
      if !(advance p .value (some nm)).ret then ((advance p .value (some nm)).p, false)
      else if cmpBytes nm (curNameBytes (advance p .value (some nm)).p) = 0 then ((advance p .value (some nm)).p, true)
      else if cmpBytes nm (curNameBytes (advance p .value (some nm)).p) < 0 then ((advance p .value (some nm)).p, false)
      else fieldLoop f (advance p .value (some nm)).p nm := by
  rw [fieldLoop]

/-- one more unit of fuel changes nothing once `fuel + cursor + IN_ARRAY_2 bit ≥ size + 2` -/
theorem cost_fieldLoop_fuel (f : Nat) (p : Parser) (nm : List UInt8) (h : Shape p)
    (hf : p.size + 2 ≤ f + p.used + p.arr2Bit) : fieldLoop (f + 1) p nm = fieldLoop f p nm := by
  induction f generalizing p with
  | zero =>
    have := h.hus; have := cost_arr2Bit_le p; omega
  | succ f ih =>
    rw [cost_fieldLoop_succ (f + 1) p, cost_fieldLoop_succ f p]
    have ha := adv_shape p .value (some nm) h
    have hz := frame_adv p .value (some nm) h
    have hp := cost_advance_value_progress p (some nm) h
    generalize advance p .value (some nm) = a at ha hz hp
    cases hret : a.ret with
    | false => simp
    | true =>
      simp only [Bool.not_true, Bool.false_eq_true, if_false]
      have hp' := hp hret
      split
      · rfl
      · split
        · rfl
        · exact ih a.p ha (by omega)

/-- **The `field` loop terminates**: the model runs it on fuel `size + 2`; any larger fuel gives
    the same result, i.e. the fuel is never what ends the loop (`while (_advance_parsing(..))`
    in `binson_parser_field_with_length` makes at most `size + 2` iterations). -/
theorem field_terminates (p : Parser) (nm : List UInt8) (h : Shape p) (k : Nat) :
    fieldLoop (p.size + 2 + k) p nm = field p nm := by
  induction k with
  | zero => rfl
  | succ k ih =>
    rw [← ih]
    exact cost_fieldLoop_fuel (p.size + 2 + k) p nm h (by omega)

/-- the parser at the start of the LAST `_advance_parsing` call the `field` loop makes -/
def fieldLast : Nat → Parser → List UInt8 → Parser
  | 0, p, _ => p
  | f+1, p, nm =>
    if !(advance p .value (some nm)).ret then p
    else if cmpBytes nm (curNameBytes (advance p .value (some nm)).p) = 0 then p
    else if cmpBytes nm (curNameBytes (advance p .value (some nm)).p) < 0 then p
    else fieldLast f (advance p .value (some nm)).p nm

theorem cost_fieldLast (f : Nat) (p : Parser) (nm : List UInt8) (h : Shape p)
    (hf : p.size + 2 ≤ f + p.used + p.arr2Bit) :
    Shape (fieldLast f p nm) ∧ p.used ≤ (fieldLast f p nm).used ∧
    (fieldLoop f p nm).1 = (advance (fieldLast f p nm) .value (some nm)).p ∧
    ((advance (fieldLast f p nm) .value (some nm)).ret = false → (fieldLoop f p nm).2 = false) := by
  induction f generalizing p with
  | zero =>
    have := h.hus; have := cost_arr2Bit_le p; omega
  | succ f ih =>
    rw [cost_fieldLoop_succ f, fieldLast]
    have ha := adv_shape p .value (some nm) h
    have hz := frame_adv p .value (some nm) h
    have hm := advance_used_mono p .value (some nm) h
    have hp := cost_advance_value_progress p (some nm) h
    cases hret : (advance p .value (some nm)).ret with
    | false =>
      simp only [Bool.not_false, if_true]
      exact ⟨h, Nat.le_refl _, by first | rfl | trivial, fun _ => by first | rfl | trivial⟩
    | true =>
      simp only [Bool.not_true, Bool.false_eq_true, if_false]
      have hp' := hp hret
      split
      · exact ⟨h, Nat.le_refl _, by first | rfl | trivial, fun hc => absurd (hret.symm.trans hc) (by decide)⟩
      · split
        · exact ⟨h, Nat.le_refl _, by first | rfl | trivial, fun hc => absurd (hret.symm.trans hc) (by decide)⟩
        · obtain ⟨a, b, c, d⟩ := ih (advance p .value (some nm)).p ha (by omega)
          exact ⟨a, Nat.le_trans hm b, c, d⟩

/-- **`failed_lookup_rereads_one_name`.**  Take any `field` call on a shaped parser that leaves no
    error set (in particular every failed lookup that is not a parse error).  Let `q` be the parser
    at the start of the last `_advance_parsing` call it makes, `L` the loop state at the start of
    that call's last iteration and `c` the token that iteration read: `c.p.used` is the furthest
    position the whole lookup read up to.  Then the parser `field` returns is the one that call
    returned, all cursors are ordered `p.used ≤ q.used ≤ L.p.used ≤ c.p.used`, and
    * either nothing was un-read: the cursor is left at or beyond `c.p.used`;
    * or the lookup overshot: the last token read is ONE string token (a name greater than the
      one looked for) and the cursor is left exactly at its first byte, so that
      `cursor + (encoded length of that one name token) = furthest position read`:
      the next call re-reads exactly that one name and nothing before it. -/
theorem failed_lookup_rereads_one_name (p : Parser) (nm : List UInt8) (h : Shape p)
    (he : (field p nm).1.err = .none) :
    (field p nm).1 = (advance (fieldLast (p.size + 2) p nm) .value (some nm)).p ∧
    p.used ≤ (fieldLast (p.size + 2) p nm).used ∧
    (fieldLast (p.size + 2) p nm).used ≤ (advanceLast (fieldLast (p.size + 2) p nm) .value (some nm)).p.used ∧
    (advanceLast (fieldLast (p.size + 2) p nm) .value (some nm)).p.used ≤
      (classify (advanceLast (fieldLast (p.size + 2) p nm) .value (some nm)).p
                (advanceLast (fieldLast (p.size + 2) p nm) .value (some nm)).bc).p.used ∧
    ((classify (advanceLast (fieldLast (p.size + 2) p nm) .value (some nm)).p
               (advanceLast (fieldLast (p.size + 2) p nm) .value (some nm)).bc).p.used ≤ (field p nm).1.used ∨
     ((field p nm).2 = false ∧
      (classify (advanceLast (fieldLast (p.size + 2) p nm) .value (some nm)).p
                (advanceLast (fieldLast (p.size + 2) p nm) .value (some nm)).bc).tok = .string ∧
      (field p nm).1.used = (advanceLast (fieldLast (p.size + 2) p nm) .value (some nm)).p.used ∧
      (field p nm).1.used +
          (classify (advanceLast (fieldLast (p.size + 2) p nm) .value (some nm)).p
                    (advanceLast (fieldLast (p.size + 2) p nm) .value (some nm)).bc).bc =
        (classify (advanceLast (fieldLast (p.size + 2) p nm) .value (some nm)).p
                  (advanceLast (fieldLast (p.size + 2) p nm) .value (some nm)).bc).p.used ∧
      overshoot (classify (advanceLast (fieldLast (p.size + 2) p nm) .value (some nm)).p
                          (advanceLast (fieldLast (p.size + 2) p nm) .value (some nm)).bc).p
                (classify (advanceLast (fieldLast (p.size + 2) p nm) .value (some nm)).p
                          (advanceLast (fieldLast (p.size + 2) p nm) .value (some nm)).bc).span (some nm) = true)) := by
  obtain ⟨qs, qm, qe, qr⟩ := cost_fieldLast (p.size + 2) p nm h (by omega)
  have qe' : (field p nm).1 = (advance (fieldLast (p.size + 2) p nm) .value (some nm)).p := qe
  have qr' : (advance (fieldLast (p.size + 2) p nm) .value (some nm)).ret = false → (field p nm).2 = false := qr
  generalize fieldLast (p.size + 2) p nm = q at qs qm qe' qr'
  have hqe : q.err = .none := by
    apply Classical.byContradiction
    intro hne
    rw [qe', advance_err q .value (some nm) hne] at he
    exact hne he
  obtain ⟨a1, a2, a3⟩ := advance_unreads_at_most_one_name q .value (some nm) qs hqe
  refine ⟨qe', qm, a1, a2, ?_⟩
  rcases a3 with d | ⟨d1, d2, _, d4, d5, _, d7⟩
  · left; rw [qe']; exact d
  · right
    refine ⟨qr' d5, d1, by rw [qe']; exact d4, by rw [qe', d4, d2], d7⟩

end Binson
