/-
  Soundness of verify, part 1: what a successful classification says about the bytes at the
  cursor (the converse of Lemmas/Tokens.lean).
-/
import Binson.Lemmas.Pass
namespace Binson

/-- the possible situations at the cursor of a shaped, error-free parser -/
inductive Lex (p : Parser) (bc0 : Nat) : Prop
  | err (h : (classify p bc0).tok = .error)
  | objBegin (rest : Bytes) (h : p.rem = 0x40 :: rest)
  | objEnd (rest : Bytes) (h : p.rem = 0x41 :: rest)
  | arrBegin (rest : Bytes) (h : p.rem = 0x42 :: rest)
  | arrEnd (rest : Bytes) (h : p.rem = 0x43 :: rest)
  | scalar (v : Value) (rest : Bytes) (hs : v.isContainer = false) (hwf : wfValue v = true)
      (h : p.rem = encode v ++ rest)
  | badInt (w : Nat) (hfit : p.used + 1 + w ≤ p.size)
      (hcl : classify p bc0 = ⟨.integer, ⟨p.used + 1, w⟩, 1 + w, { p with used := p.used + 1 + w }⟩)
      (hbad : intBoundsOk (parseIntVal p ⟨p.used + 1, w⟩) w = false)

/-- with a byte available, the unread part starts with the byte at the cursor -/
theorem rem_eq_cons {p : Parser} (h : Shape p) (hu : p.used < p.size) :
    p.rem = p.byte p.used :: p.buf.toList.drop (p.used + 1) := by
  have hsz : p.used < p.buf.size := by rw [h.hbs]; exact hu
  have hlt : p.used < p.buf.toList.length := by simpa using hsz
  unfold Parser.rem
  rw [List.drop_eq_getElem_cons hlt]
  congr 1
  unfold Parser.byte
  simp [Array.getD_eq_getD_getElem?, hsz]

/-- a minimal-width integer payload read by the parser is what `decIntBody` reads -/
theorem decIntBody_of_bounds {p : Parser} (k : Nat) (hk : k ≤ 3) (off : Nat) (r : Bytes)
    (hr : p.buf.toList.drop off = r) (hfit : off + 2 ^ k ≤ p.buf.size)
    (hbo : intBoundsOk (parseIntVal p ⟨off, 2 ^ k⟩) (2 ^ k) = true) :
    decIntBody k r = some (parseIntVal p ⟨off, 2 ^ k⟩, r.drop (2 ^ k)) := by
  have hlen : r.length = p.buf.size - off := by rw [← hr]; simp
  have htl : (r.take (2 ^ k)).length = 2 ^ k := by rw [List.length_take]; omega
  have hw : 2 ^ k = 1 ∨ 2 ^ k = 2 ∨ 2 ^ k = 4 ∨ 2 ^ k = 8 := by
    have : k = 0 ∨ k = 1 ∨ k = 2 ∨ k = 3 := by omega
    rcases this with rfl | rfl | rfl | rfl <;> simp
  have hr' : p.buf.toList.drop off = r.take (2 ^ k) ++ r.drop (2 ^ k) := by
    rw [List.take_append_drop]; exact hr
  have hpv := parseIntVal_eq_sext hr' (by rw [htl]; exact hw)
  rw [htl] at hpv
  have hn : leNatL (r.take (2 ^ k)) < 256 ^ (2 ^ k) := by
    have := leNatL_lt (r.take (2 ^ k)); rwa [htl] at this
  rw [hpv] at hbo ⊢
  have hwi := (intBoundsOk_sext_iff (2 ^ k) _ hw hn).mp hbo
  unfold intWidth at hwi
  have hke : intWidthExp (sext (2 ^ k) (leNatL (r.take (2 ^ k)))) = k :=
    ((Nat.pow_right_inj (by decide)).mp hwi).symm
  unfold decIntBody
  simp only
  rw [if_neg (by omega), if_pos hke]

/-- what `_process_one` says about the bytes `b :: r` at the cursor -/
def LexOne (p : Parser) (b : UInt8) (r : Bytes) : Prop :=
  (processOne p b).tok = .error ∨
  (∃ v rest, Value.isContainer v = false ∧ wfValue v = true ∧ b :: r = encode v ++ rest) ∨
  (∃ w, p.used + 1 + w ≤ p.size ∧
    processOne p b = ⟨.integer, ⟨p.used + 1, w⟩, 1 + w, { p with used := p.used + 1 + w }⟩ ∧
    intBoundsOk (parseIntVal p ⟨p.used + 1, w⟩) w = false)

theorem lexOne_bool (p : Parser) (b : UInt8) (r : Bytes) (hb : b = 0x44 ∨ b = 0x45) : LexOne p b r := by
  right; left
  rcases hb with rfl | rfl
  · exact ⟨.bool true, r, rfl, rfl, rfl⟩
  · exact ⟨.bool false, r, rfl, rfl, rfl⟩

theorem lexOne_dbl {p : Parser} (h : Shape p) (hu : p.used < p.size) (r : Bytes)
    (hr : p.buf.toList.drop (p.used + 1) = r) : LexOne p 0x46 r := by
  have h1 := shape_used1 h hu
  have hsz := h.hsz
  have hlen : r.length = p.buf.size - (p.used + 1) := by rw [← hr]; simp
  by_cases hf : p.used + 1 + 8 ≤ p.size
  · right; left
    have hbs := h.hbs
    exact ⟨_, _, rfl, rfl, dbl_sound r (by omega)⟩
  · left
    unfold processOne
    simp only
    rw [consume_fail h1 8 false (by omega) hf]
    simp

theorem lexOne_int {p : Parser} (h : Shape p) (hu : p.used < p.size) (b : UInt8) (r : Bytes)
    (hb : b = 0x10 ∨ b = 0x11 ∨ b = 0x12 ∨ b = 0x13)
    (hr : p.buf.toList.drop (p.used + 1) = r) : LexOne p b r := by
  have h1 := shape_used1 h hu
  have hsz := h.hsz
  have hbs := h.hbs
  have hw := pow_mod4_le b
  have n1 : ¬ (b = 0x44 ∨ b = 0x45) := by rcases hb with rfl | rfl | rfl | rfl <;> decide
  have n2 : ¬ b = 0x46 := by rcases hb with rfl | rfl | rfl | rfl <;> decide
  have hk : b.toNat % 4 = b.toNat - 0x10 := by rcases hb with rfl | rfl | rfl | rfl <;> decide
  have hk3 : b.toNat % 4 ≤ 3 := by omega
  have hrg : 0x10 ≤ b ∧ b ≤ 0x13 := by rcases hb with rfl | rfl | rfl | rfl <;> decide
  by_cases hf : p.used + 1 + 2 ^ (b.toNat % 4) ≤ p.size
  · cases hbo : intBoundsOk (parseIntVal p ⟨p.used + 1, 2 ^ (b.toNat % 4)⟩) (2 ^ (b.toNat % 4))
    · right; right
      exact ⟨_, hf, processOne_int h b hb hf, hbo⟩
    · right; left
      have hd := decIntBody_of_bounds (p := p) (b.toNat % 4) hk3 (p.used + 1) r hr (by omega) hbo
      rw [hk] at hd
      obtain ⟨hi, he⟩ := int_sound b r _ _ hrg hd
      exact ⟨.int _, _, rfl, by simp only [wfValue, decide_eq_true_eq]; exact hi, he⟩
  · left
    unfold processOne
    simp only
    rw [if_neg n1, if_neg n2, if_pos hb, consume_fail h1 _ false (by omega) hf]
    simp

/-- string / bytes: either an error token or the length-prefixed blob `decBlob` reads -/
theorem blob_cases {p : Parser} (h : Shape p) (hu : p.used < p.size) (b : UInt8) (r : Bytes)
    (hb : b = 0x14 ∨ b = 0x15 ∨ b = 0x16 ∨ b = 0x18 ∨ b = 0x19 ∨ b = 0x1a)
    (hr : p.buf.toList.drop (p.used + 1) = r) :
    (processOne p b).tok = .error ∨ ∃ s r', decBlob (b.toNat % 4) r = some (s, r') := by
  have h1 := shape_used1 h hu
  have hsz := h.hsz
  have hbs := h.hbs
  have hw := pow_mod4_le b
  have hw1 : 1 ≤ 2 ^ (b.toNat % 4) := Nat.one_le_two_pow
  have n1 : ¬ (b = 0x44 ∨ b = 0x45) := by rcases hb with rfl | rfl | rfl | rfl | rfl | rfl <;> decide
  have n2 : ¬ b = 0x46 := by rcases hb with rfl | rfl | rfl | rfl | rfl | rfl <;> decide
  have n3 : ¬ (b = 0x10 ∨ b = 0x11 ∨ b = 0x12 ∨ b = 0x13) := by
    rcases hb with rfl | rfl | rfl | rfl | rfl | rfl <;> decide
  have hk3 : b.toNat % 4 ≤ 3 := by omega
  have hlen : r.length = p.buf.size - (p.used + 1) := by rw [← hr]; simp
  unfold processOne
  simp only
  rw [if_neg n1, if_neg n2, if_neg n3, if_pos hb]
  by_cases hf : p.used + 1 + 2 ^ (b.toNat % 4) ≤ p.size
  · rw [consume_ok h1 _ false (by omega) hf]
    simp only [Bool.not_true, Bool.false_eq_true, if_false]
    have h2 : Shape { p with used := p.used + 1 + 2 ^ (b.toNat % 4) } := h.withUsed _ hf
    have htb : ({ p with used := p.used + 1 + 2 ^ (b.toNat % 4) } : Parser).touchBuf (p.used + 1) (2 ^ (b.toNat % 4))
        = { p with used := p.used + 1 + 2 ^ (b.toNat % 4) } :=
      touchBuf_of_le (by rw [show ({ p with used := p.used + 1 + 2 ^ (b.toNat % 4) } : Parser).buf.size = p.buf.size from rfl, h.hbs]; omega)
    have hlv : parseIntVal { p with used := p.used + 1 + 2 ^ (b.toNat % 4) } ⟨p.used + 1, 2 ^ (b.toNat % 4)⟩
        = parseIntVal p ⟨p.used + 1, 2 ^ (b.toNat % 4)⟩ :=
      parseIntVal_congr (p := p) (q := { p with used := p.used + 1 + 2 ^ (b.toNat % 4) }) rfl _
    simp only [htb, hlv]
    cases hbo : intBoundsOk (parseIntVal p ⟨p.used + 1, 2 ^ (b.toNat % 4)⟩) (2 ^ (b.toNat % 4))
    · left; simp
    · simp only [Bool.not_true, Bool.false_eq_true, if_false]
      have hd := decIntBody_of_bounds (p := p) (b.toNat % 4) hk3 (p.used + 1) r hr (by omega) hbo
      generalize parseIntVal p ⟨p.used + 1, 2 ^ (b.toNat % 4)⟩ = L at hd ⊢
      by_cases hrg : 0 ≤ L ∧ L ≤ 2147483647
      · simp only [hrg, and_self, decide_true, Bool.not_true, Bool.false_eq_true, if_false]
        have hLn : L.toNat < 2 ^ 63 := by omega
        by_cases hf2 : p.used + 1 + 2 ^ (b.toNat % 4) + L.toNat ≤ p.size
        · right
          refine ⟨(r.drop (2 ^ (b.toNat % 4))).take L.toNat, (r.drop (2 ^ (b.toNat % 4))).drop L.toNat, ?_⟩
          unfold decBlob
          rw [hd]
          simp only
          rw [if_neg (by omega), if_neg (by rw [List.length_drop]; omega)]
        · left
          rw [consume_fail h2 _ false hLn hf2]
          simp
      · left
        simp [hrg]
  · left
    rw [consume_fail h1 _ false (by omega) hf]
    simp

theorem lexOne_str {p : Parser} (h : Shape p) (hu : p.used < p.size) (b : UInt8) (r : Bytes)
    (hb : b = 0x14 ∨ b = 0x15 ∨ b = 0x16)
    (hr : p.buf.toList.drop (p.used + 1) = r) : LexOne p b r := by
  have hk : b.toNat % 4 = b.toNat - 0x14 := by rcases hb with rfl | rfl | rfl <;> decide
  have hrg : (0x14 : UInt8) ≤ b ∧ b ≤ 0x16 := by rcases hb with rfl | rfl | rfl <;> decide
  rcases blob_cases h hu b r (by rcases hb with rfl | rfl | rfl <;> decide) hr with he | ⟨s, r', hd⟩
  · exact Or.inl he
  · right; left
    rw [hk] at hd
    obtain ⟨hl, he⟩ := blob_sound 0x14 0x14 (by omega) rfl b r s r' hrg.1 hrg.2 hd
    exact ⟨.str s, r', rfl, by simp only [wfValue, decide_eq_true_eq]; exact hl, he⟩

theorem lexOne_bytes {p : Parser} (h : Shape p) (hu : p.used < p.size) (b : UInt8) (r : Bytes)
    (hb : b = 0x18 ∨ b = 0x19 ∨ b = 0x1a)
    (hr : p.buf.toList.drop (p.used + 1) = r) : LexOne p b r := by
  have hk : b.toNat % 4 = b.toNat - 0x18 := by rcases hb with rfl | rfl | rfl <;> decide
  have hrg : (0x18 : UInt8) ≤ b ∧ b ≤ 0x1a := by rcases hb with rfl | rfl | rfl <;> decide
  rcases blob_cases h hu b r (by rcases hb with rfl | rfl | rfl <;> decide) hr with he | ⟨s, r', hd⟩
  · exact Or.inl he
  · right; left
    rw [hk] at hd
    obtain ⟨hl, he⟩ := blob_sound 0x18 0x18 (by omega) rfl b r s r' hrg.1 hrg.2 hd
    exact ⟨.bytes s, r', rfl, by simp only [wfValue, decide_eq_true_eq]; exact hl, he⟩

theorem lexOne {p : Parser} (h : Shape p) (hu : p.used < p.size) (b : UInt8) (r : Bytes)
    (hr : p.buf.toList.drop (p.used + 1) = r) : LexOne p b r := by
  by_cases c1 : b = 0x44 ∨ b = 0x45
  · exact lexOne_bool p b r c1
  by_cases c2 : b = 0x46
  · subst c2; exact lexOne_dbl h hu r hr
  by_cases c3 : b = 0x10 ∨ b = 0x11 ∨ b = 0x12 ∨ b = 0x13
  · exact lexOne_int h hu b r c3 hr
  by_cases c4 : b = 0x14 ∨ b = 0x15 ∨ b = 0x16 ∨ b = 0x18 ∨ b = 0x19 ∨ b = 0x1a
  · rcases c4 with e | e | e | e | e | e
    · exact lexOne_str h hu b r (by simp [e]) hr
    · exact lexOne_str h hu b r (by simp [e]) hr
    · exact lexOne_str h hu b r (by simp [e]) hr
    · exact lexOne_bytes h hu b r (by simp [e]) hr
    · exact lexOne_bytes h hu b r (by simp [e]) hr
    · exact lexOne_bytes h hu b r (by simp [e]) hr
  · left
    unfold processOne
    simp only
    rw [if_neg c1, if_neg c2, if_neg c3, if_neg c4]

theorem lex_cases {p : Parser} (h : Shape p) (he : p.err = .none) (bc0 : Nat) : Lex p bc0 := by
  have _ := he
  by_cases hu : p.used < p.size
  · have hrem := rem_eq_cons h hu
    have hcl := classify_peek h hu bc0
    by_cases e0 : p.byte p.used = 0x40
    · exact .objBegin _ (by rw [hrem, e0])
    by_cases e1 : p.byte p.used = 0x41
    · exact .objEnd _ (by rw [hrem, e1])
    by_cases e2 : p.byte p.used = 0x42
    · exact .arrBegin _ (by rw [hrem, e2])
    by_cases e3 : p.byte p.used = 0x43
    · exact .arrEnd _ (by rw [hrem, e3])
    rw [if_neg e0, if_neg e1, if_neg e2, if_neg e3] at hcl
    rcases lexOne h hu (p.byte p.used) _ rfl with hx | ⟨v, rest, hs, hwf, henc⟩ | ⟨w, hfit, hp, hbad⟩
    · exact .err (by rw [hcl]; exact hx)
    · exact .scalar v rest hs hwf (by rw [hrem]; exact henc)
    · exact .badInt w hfit (by rw [hcl]; exact hp) hbad
  · have hsz := h.hsz
    have hus := h.hus
    refine .err ?_
    unfold classify
    simp only [touchLvl_of_lt h.lvlIdx_lt]
    rw [consume_fail h 1 true (by omega) (by omega)]
    simp

end Binson
