/-
  Layer 4, part 5: one loop iteration on a container END token AT the originating level:
  `next`/lookup return without consuming it, `leave_*` consume it and stop. Plus the root `{`
  of an object document in ENTER mode.
-/
import Binson.Lemmas.NavTokBegin
namespace Binson

theorem outOf_none : outOf none = .stop := rfl

/-- `}` at the originating level while looking for the next field: not consumed, the call returns false -/
theorem iter_objEnd_value {st : LoopSt} {sn : Option (List UInt8)} {oa od : Nat} (hsh : Shape st.p) (he : st.p.err = .none)
    (hcl : classify st.p st.bc = ⟨.objEnd, ⟨st.p.used, 1⟩, st.bc, st.p⟩)
    (hf : (st.p.getLvl st.p.lvlIdx).flags = .expField) (hsc : st.scan = some .value) (hod : od = st.p.depth) :
    ∃ st', iter st sn oa od = (st', .ret false) ∧ StepRes st st' 0 (some .value) st.p.depth (fun i => st.p.getLvl i) := by
  have hli := hsh.lvlIdx_lt
  have hspl := hsh.hsp he st.p.lvlIdx
  have hina : (st.p.getLvl st.p.lvlIdx).flags.inArray = false := by rw [hf]; rfl
  unfold iter
  simp only [hcl, show Tok.objEnd ≠ Tok.error by decide, if_false]
  rw [objBlock_end rfl (by decide)]
  simp only [arrBlock_notArr _ _ _ hina]
  show ∃ st', caseObjEnd _ _ _ _ _ _ = (st', .ret false) ∧ _
  unfold caseObjEnd
  rw [if_neg (by simp [hf]), hsc, if_pos (by rfl)]
  dsimp only
  rw [if_pos hod]
  have hc : clear (some Scan.value) .leaveObj = some .value := rfl
  rw [hc, if_pos ⟨hod, rfl⟩]
  obtain ⟨s1, s2, _, s4, s5, s6, _, _, _, _, _⟩ :=
    setLvl_ok (p0 := st.p) hsh (Parser.Frame.refl _) (st.p.getLvl st.p.lvlIdx) hli hspl
  have hgq : ∀ i, (st.p.setLvl st.p.lvlIdx (st.p.getLvl st.p.lvlIdx)).getLvl i = st.p.getLvl i := by
    intro i; rw [getLvl_setLvl _ hli i]; split
    · rename_i h; rw [h]
    · rfl
  exact ⟨_, rfl, StepRes.ofEq (P := st.p.setLvl st.p.lvlIdx (st.p.getLvl st.p.lvlIdx)) rfl rfl s1 (s6.trans he) s4 s5 s2 hgq⟩

/-- `}` of a nested object at the originating level in LEAVE_OBJECT mode: consumed, the state entry
    is wiped and released, the loop stops -/
theorem iter_objEnd_leave {st : LoopSt} {sn : Option (List UInt8)} {oa od : Nat} (hsh : Shape st.p) (he : st.p.err = .none)
    (hcl : classify st.p st.bc = ⟨.objEnd, ⟨st.p.used, 1⟩, st.bc, st.p⟩)
    (hlt : st.p.used < st.p.size) (hf : (st.p.getLvl st.p.lvlIdx).flags = .expField) (hd2 : 2 ≤ st.p.depth)
    (hsc : st.scan = some .leaveObj) (hod : od = st.p.depth) :
    ∃ st', iter st sn oa od = (st', .stop) ∧
      StepRes st st' 1 none (st.p.depth - 1) (fun i => if i = st.p.depth - 1 then Level.zero else st.p.getLvl i) := by
  have hli := hsh.lvlIdx_lt
  have hidx : st.p.lvlIdx = st.p.depth - 1 := Parser.lvlIdx_of_pos (by omega)
  have hspl := hsh.hsp he st.p.lvlIdx
  have hina : (st.p.getLvl st.p.lvlIdx).flags.inArray = false := by rw [hf]; rfl
  unfold iter
  simp only [hcl, show Tok.objEnd ≠ Tok.error by decide, if_false]
  rw [objBlock_end rfl (by decide)]
  simp only [arrBlock_notArr _ _ _ hina]
  show ∃ st', caseObjEnd _ _ _ _ _ _ = (st', .stop) ∧ _
  unfold caseObjEnd
  rw [if_neg (by simp [hf]), hsc, if_pos (by rfl)]
  dsimp only
  rw [if_pos hod]
  have hc : clear (some Scan.leaveObj) .leaveObj = none := rfl
  rw [hc, if_neg (by intro h; exact absurd h.2 (by decide))]
  obtain ⟨s1, s2, _, s4, s5, s6, s7, s8, s9, s10, s11⟩ :=
    setLvl_ok (p0 := st.p) hsh (Parser.Frame.refl _) (st.p.getLvl st.p.lvlIdx) hli hspl
  have hgq : ∀ i, (st.p.setLvl st.p.lvlIdx (st.p.getLvl st.p.lvlIdx)).getLvl i = st.p.getLvl i := by
    intro i; rw [getLvl_setLvl _ hli i]; split
    · rename_i h; rw [h]
    · rfl
  generalize st.p.setLvl st.p.lvlIdx (st.p.getLvl st.p.lvlIdx) = q at s1 s2 s4 s5 s6 s7 s8 s9 s10 s11 hgq
  have hq2 : Shape { q with used := q.used + 1 } := s1.withUsed (q.used + 1) (by rw [s4, s8]; omega)
  have hcur : ({ q with used := q.used + 1 } : Parser).cur < ({ q with used := q.used + 1 } : Parser).levels.size := hq2.cur_lt
  rw [touchLvl_of_lt hcur]
  have hqc : ({ q with used := q.used + 1 } : Parser).cur = st.p.depth - 1 := by
    show q.cur = _; rw [s7, hsh.hcur, hidx]
  obtain ⟨t1, t2, _, t4, t5, t6, t7, t8, t9, t10, t11⟩ :=
    setLvl_ok (p0 := st.p) hq2 (s2.trans ⟨rfl, rfl, rfl, rfl, rfl⟩) Level.zero hcur (Level.zero_spansOk _)
  have hgw : ∀ i, (({ q with used := q.used + 1 } : Parser).setLvl ({ q with used := q.used + 1 } : Parser).cur Level.zero).getLvl i =
      if i = st.p.depth - 1 then Level.zero else st.p.getLvl i := by
    intro i
    have := getLvl_setLvl (p := ({ q with used := q.used + 1 } : Parser)) Level.zero hcur i
    rw [this, hqc]
    split
    · rfl
    · exact hgq i
  generalize ({ q with used := q.used + 1 } : Parser).setLvl ({ q with used := q.used + 1 } : Parser).cur Level.zero = w
    at t1 t2 t4 t5 t6 t7 t8 t9 t10 t11 hgw
  have hwd : w.depth = st.p.depth := by rw [t5]; exact s5
  rw [if_pos (by rw [hwd]; omega : w.depth > 1)]
  have hw : Shape { w with depth := w.depth - 1, cur := w.depth - 1 - 1 } := by
    refine t1.update ⟨rfl, rfl, rfl, rfl, rfl⟩ t1.hnf t1.hno (by have := t1.hdp; simp; omega) ?_ t1.hus ?_
    · simp only [Parser.lvlIdx]; split <;> omega
    · intro e i; exact t1.hsp e i
  have hc2 : w.depth - 1 - 1 < ({ w with depth := w.depth - 1, cur := w.depth - 1 - 1 } : Parser).levels.size := hw.cur_lt
  have hwe : ({ w with depth := w.depth - 1, cur := w.depth - 1 - 1 } : Parser).err = .none := by
    show w.err = .none; rw [t6]; show q.err = .none; rw [s6]; exact he
  try dsimp only
  rw [finish_go' _ _ ({ w with depth := w.depth - 1, cur := w.depth - 1 - 1 }) _ _ _ hc2 hwe, outOf_none]
  have hspp := hw.hsp hwe (w.depth - 1 - 1)
  obtain ⟨u1, u2, _, u4, u5, u6, u7, u8, u9, u10, u11⟩ :=
    setLvl_ok (p0 := st.p) hw (t2.trans ⟨rfl, rfl, rfl, rfl, rfl⟩)
      (({ w with depth := w.depth - 1, cur := w.depth - 1 - 1 } : Parser).getLvl (w.depth - 1 - 1)) hc2 hspp
  have hgf : ∀ i, (({ w with depth := w.depth - 1, cur := w.depth - 1 - 1 } : Parser).setLvl (w.depth - 1 - 1)
      (({ w with depth := w.depth - 1, cur := w.depth - 1 - 1 } : Parser).getLvl (w.depth - 1 - 1))).getLvl i =
      if i = st.p.depth - 1 then Level.zero else st.p.getLvl i := by
    intro i
    have := getLvl_setLvl (p := ({ w with depth := w.depth - 1, cur := w.depth - 1 - 1 } : Parser))
      (({ w with depth := w.depth - 1, cur := w.depth - 1 - 1 } : Parser).getLvl (w.depth - 1 - 1)) hc2 i
    rw [this]
    split
    · rename_i h; rw [h]; exact hgw _
    · exact hgw i
  refine ⟨_, rfl, StepRes.ofEq (P := (({ w with depth := w.depth - 1, cur := w.depth - 1 - 1 } : Parser).setLvl (w.depth - 1 - 1)
      (({ w with depth := w.depth - 1, cur := w.depth - 1 - 1 } : Parser).getLvl (w.depth - 1 - 1)))) rfl rfl u1 (u6.trans hwe) ?_ ?_ u2 hgf⟩
  · rw [u4]; show w.used = _; rw [t4]; show q.used + 1 = _; rw [s4]
  · rw [u5]; show w.depth - 1 = _; rw [hwd]

/-- root `}` of an object document in LEAVE_OBJECT mode: the call returns; FORMAT iff bytes remain -/
theorem iter_objEnd_leaveRoot {st : LoopSt} {sn : Option (List UInt8)} {oa od : Nat}
    (hsh : Shape st.p) (he : st.p.err = .none) (hsc : st.scan = some .leaveObj) (hd : st.p.depth = 1)
    (hf : (st.p.getLvl 0).flags = .expField) (hod : od = 1)
    (rest : Bytes) (hrem : st.p.rem = 0x41 :: rest) :
    ∃ st', iter st sn oa od = (st', .ret false) ∧
      st'.p.err = (if rest = [] then .none else .format) ∧ st'.p.depth = 0 ∧ st.p.Frame st'.p ∧
      st'.p.fault = false ∧ st'.p.oof = false := by
  have hli := hsh.lvlIdx_lt
  have hidx : st.p.lvlIdx = 0 := by unfold Parser.lvlIdx; rw [hd]; rfl
  have hcl := classify_objEnd hsh he st.bc rest hrem
  obtain ⟨_, hlt, hr1⟩ := rem_cons hsh hrem
  have h0 : 0 < st.p.levels.size := by rw [← hidx]; exact hli
  have hspl := hsh.hsp he 0
  have hina : (st.p.getLvl 0).flags.inArray = false := by rw [hf]; rfl
  unfold iter
  simp only [hcl, show Tok.objEnd ≠ Tok.error by decide, if_false, hidx]
  rw [objBlock_end rfl (by decide)]
  simp only [arrBlock_notArr _ _ _ hina]
  show ∃ st', caseObjEnd _ _ _ _ _ _ = (st', .ret false) ∧ _
  unfold caseObjEnd
  rw [if_neg (by simp [hf]), hsc, if_pos (by rfl)]
  have hodp : od = st.p.depth := by rw [hd]; exact hod
  dsimp only
  rw [if_pos hodp]
  have hc : clear (some Scan.leaveObj) .leaveObj = none := rfl
  rw [hc, if_neg (by intro h; exact absurd h.2 (by decide))]
  obtain ⟨s1, s2, _, s4, s5, s6, s7, s8, s9, s10, s11⟩ :=
    setLvl_ok (p0 := st.p) hsh (Parser.Frame.refl _) (st.p.getLvl 0) h0 hspl
  generalize st.p.setLvl 0 (st.p.getLvl 0) = q at s1 s2 s4 s5 s6 s7 s8 s9 s10 s11
  have hq2 : Shape { q with used := q.used + 1 } := s1.withUsed (q.used + 1) (by rw [s4, s8]; omega)
  have hcur : ({ q with used := q.used + 1 } : Parser).cur < ({ q with used := q.used + 1 } : Parser).levels.size := hq2.cur_lt
  rw [touchLvl_of_lt hcur]
  obtain ⟨t1, t2, _, t4, t5, t6, t7, t8, t9, t10, t11⟩ :=
    setLvl_ok (p0 := st.p) hq2 (s2.trans ⟨rfl, rfl, rfl, rfl, rfl⟩) Level.zero hcur (Level.zero_spansOk _)
  generalize ({ q with used := q.used + 1 } : Parser).setLvl ({ q with used := q.used + 1 } : Parser).cur Level.zero = w
    at t1 t2 t4 t5 t6 t7 t8 t9 t10 t11
  have hwd : w.depth = 1 := by rw [t5]; show q.depth = 1; rw [s5, hd]
  rw [if_neg (by rw [hwd]; omega : ¬ w.depth > 1), if_pos hwd]
  try dsimp only
  have hwu : w.used = st.p.used + 1 := by rw [t4]; show q.used + 1 = _; rw [s4]
  have hws : w.size = st.p.size := t2.1
  have hwe : w.err = .none := by rw [t6]; show q.err = .none; rw [s6]; exact he
  have hrl : (w.used ≠ w.size) ↔ rest ≠ [] := by
    rw [hwu, hws]
    unfold Parser.rem at hr1
    simp only at hr1
    have hlen : (st.p.buf.toList.drop (st.p.used + 1)).length = st.p.size - (st.p.used + 1) := by
      simp [hsh.hbs]
    rw [hr1] at hlen
    constructor
    · intro h hr; rw [hr] at hlen; simp at hlen; omega
    · intro h hu
      have : rest.length = 0 := by rw [hlen]; omega
      exact h (List.eq_nil_of_length_eq_zero this)
  by_cases hr : rest = []
  · have hu : w.used = w.size := by
      by_cases h : w.used = w.size
      · exact h
      · exact absurd (hrl.mp h) (by simp [hr])
    simp only [hu, ne_eq, not_true_eq_false, if_false, hr, if_true]
    exact ⟨_, rfl, hwe, rfl, t2.trans ⟨rfl, rfl, rfl, rfl, rfl⟩, t1.hnf, t1.hno⟩
  · have hu : ¬ w.used = w.size := fun h => (hrl.mpr hr) h
    simp only [hu, ne_eq, not_false_eq_true, if_true, hr, if_false]
    exact ⟨_, rfl, rfl, rfl, t2.trans ⟨rfl, rfl, rfl, rfl, rfl⟩, t1.hnf, t1.hno⟩

end Binson

namespace Binson

theorem arrBlock_orig_end {lv : Level} {oa od d : Nat} (s : Option Scan) (hina : lv.flags.inArray = true)
    (hoa : oa = lv.ad) (hod : od = d) :
    arrBlock lv .arrEnd (decide (oa = lv.ad ∧ od = d)) s = (lv, clear s .value) := by
  unfold arrBlock
  simp [hina, hoa, hod]

/-- `]` at the originating level while looking for the next element: not consumed, the call returns false -/
theorem iter_arrEnd_value {st : LoopSt} {sn : Option (List UInt8)} {oa od : Nat} (hsh : Shape st.p) (he : st.p.err = .none)
    (hcl : classify st.p st.bc = ⟨.arrEnd, ⟨st.p.used, 1⟩, st.bc, st.p⟩)
    (hf : (st.p.getLvl st.p.lvlIdx).flags = .arr1 ∨ (st.p.getLvl st.p.lvlIdx).flags = .arr2)
    (hsc : st.scan = some .value) (hoa : oa = (st.p.getLvl st.p.lvlIdx).ad) (hod : od = st.p.depth) :
    ∃ st', iter st sn oa od = (st', .ret false) ∧ StepRes st st' 0 none st.p.depth (fun i => st.p.getLvl i) := by
  have hli := hsh.lvlIdx_lt
  have hspl := hsh.hsp he st.p.lvlIdx
  have hina : (st.p.getLvl st.p.lvlIdx).flags.inArray = true := by rcases hf with h | h <;> rw [h] <;> rfl
  unfold iter
  simp only [hcl, show Tok.arrEnd ≠ Tok.error by decide, if_false]
  rw [objBlock_end rfl (by decide)]
  simp only [arrBlock_orig_end _ hina hoa hod, hsc]
  show ∃ st', caseArrEnd _ _ _ _ _ _ _ = (st', .ret false) ∧ _
  unfold caseArrEnd
  simp only [hina, Bool.not_true, Bool.false_eq_true, if_false]
  have hc : clear (some Scan.value) .value = none := rfl
  rw [hc, if_neg (by decide)]
  obtain ⟨s1, s2, _, s4, s5, s6, _, _, _, _, _⟩ :=
    setLvl_ok (p0 := st.p) hsh (Parser.Frame.refl _) (st.p.getLvl st.p.lvlIdx) hli hspl
  have hgq : ∀ i, (st.p.setLvl st.p.lvlIdx (st.p.getLvl st.p.lvlIdx)).getLvl i = st.p.getLvl i := by
    intro i; rw [getLvl_setLvl _ hli i]; split
    · rename_i h; rw [h]
    · rfl
  exact ⟨_, rfl, StepRes.ofEq (P := st.p.setLvl st.p.lvlIdx (st.p.getLvl st.p.lvlIdx)) rfl rfl s1 (s6.trans he) s4 s5 s2 hgq⟩

/-- `]` at the originating level in LEAVE_ARRAY mode (not the root array's): consumed, the loop stops -/
theorem iter_arrEnd_leave {st : LoopSt} {sn : Option (List UInt8)} {oa od : Nat} (hsh : Shape st.p) (he : st.p.err = .none)
    (hcl : classify st.p st.bc = ⟨.arrEnd, ⟨st.p.used, 1⟩, st.bc, st.p⟩)
    (hlt : st.p.used < st.p.size)
    (hf : (st.p.getLvl st.p.lvlIdx).flags = .arr1 ∨ (st.p.getLvl st.p.lvlIdx).flags = .arr2)
    (had : 1 ≤ (st.p.getLvl st.p.lvlIdx).ad)
    (hnr : ¬ ((st.p.getLvl st.p.lvlIdx).ad = 1 ∧ st.p.ptype = 2 ∧ st.p.depth = 1))
    (hsc : st.scan = some .leaveArr) (hoa : oa = (st.p.getLvl st.p.lvlIdx).ad) (hod : od = st.p.depth) :
    ∃ st', iter st sn oa od = (st', .stop) ∧
      StepRes st st' 1 none st.p.depth (fun i => if i = st.p.lvlIdx then arrEndLevel (st.p.getLvl st.p.lvlIdx) else st.p.getLvl i) := by
  have hli := hsh.lvlIdx_lt
  have hspl := hsh.hsp he st.p.lvlIdx
  have hina : (st.p.getLvl st.p.lvlIdx).flags.inArray = true := by rcases hf with h | h <;> rw [h] <;> rfl
  unfold iter
  simp only [hcl, show Tok.arrEnd ≠ Tok.error by decide, if_false]
  rw [objBlock_end rfl (by decide)]
  simp only [arrBlock_orig_end _ hina hoa hod, hsc]
  show ∃ st', caseArrEnd _ _ _ _ _ _ _ = (st', .stop) ∧ _
  unfold caseArrEnd
  simp only [hina, Bool.not_true, Bool.false_eq_true, if_false]
  have hc : clear (some Scan.leaveArr) .value = some .leaveArr := rfl
  rw [hc, if_pos (by rfl)]
  try dsimp only
  rw [if_pos (show od = st.p.depth ∧ oa = (st.p.getLvl st.p.lvlIdx).ad from ⟨hod, hoa⟩), if_neg (by omega : ¬ (st.p.getLvl st.p.lvlIdx).ad = 0)]
  have hc2 : clear (some Scan.leaveArr) .leaveArr = none := rfl
  rw [hc2]
  have hq1 : Shape { st.p with used := st.p.used + 1 } := hsh.withUsed (st.p.used + 1) (by omega)
  have hqe : ({ st.p with used := st.p.used + 1 } : Parser).err = .none := he
  have fin : ∀ (L : Level) (_ : L.name = (st.p.getLvl st.p.lvlIdx).name ∧ L.val = (st.p.getLvl st.p.lvlIdx).val),
      ∃ st', finish { st with bc := st.bc } .arrEnd { st.p with used := st.p.used + 1 } L st.p.lvlIdx none false = (st', .stop) ∧
        StepRes st st' 1 none st.p.depth (fun i => if i = st.p.lvlIdx then L else st.p.getLvl i) := by
    intro L hL
    rw [finish_go' _ _ ({ st.p with used := st.p.used + 1 }) _ _ _ hli hqe, outOf_none]
    obtain ⟨t1, t2, _, t4, t5, t6, _, _, _, _, _⟩ :=
      setLvl_ok (p0 := st.p) hq1 ⟨rfl, rfl, rfl, rfl, rfl⟩ L hli (SpansOk_of_fields hL.1 hL.2 hspl)
    have hg := getLvl_setLvl_used st.p (st.p.used + 1) st.p.lvlIdx L hli
    exact ⟨_, rfl, StepRes.ofEq (P := ({ st.p with used := st.p.used + 1 } : Parser).setLvl st.p.lvlIdx L) rfl rfl t1 (t6.trans hqe) t4 t5 t2 hg⟩
  unfold arrEndLevel
  by_cases h0 : (st.p.getLvl st.p.lvlIdx).ad - 1 = 0
  · simp only [h0, if_true]
    have hroot : ¬ (st.p.ptype = 2 ∧ st.p.depth = 1) := by
      intro h; exact hnr ⟨by omega, h.1, h.2⟩
    rw [if_neg hroot]
    exact fin _ ⟨rfl, rfl⟩
  · simp only [h0, if_false]
    exact fin _ ⟨rfl, rfl⟩

/-- root `]` of an array document in LEAVE_ARRAY mode: the call returns; FORMAT iff bytes remain -/
theorem iter_arrEnd_leaveRoot {st : LoopSt} {sn : Option (List UInt8)} {oa od : Nat}
    (hsh : Shape st.p) (he : st.p.err = .none) (hsc : st.scan = some .leaveArr) (hd : st.p.depth = 1) (hpt : st.p.ptype = 2)
    (hf : (st.p.getLvl 0).flags = .arr1 ∨ (st.p.getLvl 0).flags = .arr2) (had : (st.p.getLvl 0).ad = 1)
    (hoa : oa = 1) (hod : od = 1)
    (rest : Bytes) (hrem : st.p.rem = 0x43 :: rest) :
    ∃ st', iter st sn oa od = (st', .ret false) ∧
      st'.p.err = (if rest = [] then .none else .format) ∧ st'.p.depth = 1 ∧ st.p.Frame st'.p ∧
      st'.p.fault = false ∧ st'.p.oof = false := by
  have hli := hsh.lvlIdx_lt
  have hidx : st.p.lvlIdx = 0 := by unfold Parser.lvlIdx; rw [hd]; rfl
  have hcl := classify_arrEnd hsh he st.bc rest hrem
  obtain ⟨_, hlt, hr1⟩ := rem_cons hsh hrem
  have h0 : 0 < st.p.levels.size := by rw [← hidx]; exact hli
  have hspl := hsh.hsp he 0
  have hina : (st.p.getLvl 0).flags.inArray = true := by rcases hf with h | h <;> rw [h] <;> rfl
  unfold iter
  simp only [hcl, show Tok.arrEnd ≠ Tok.error by decide, if_false, hidx]
  rw [objBlock_end rfl (by decide)]
  simp only [arrBlock_orig_end (d := st.p.depth) _ hina (hoa.trans had.symm) (hod.trans hd.symm), hsc]
  show ∃ st', caseArrEnd _ _ _ _ _ _ _ = (st', .ret false) ∧ _
  unfold caseArrEnd
  simp only [hina, Bool.not_true, Bool.false_eq_true, if_false]
  have hc : clear (some Scan.leaveArr) .value = some .leaveArr := rfl
  rw [hc, if_pos (by rfl)]
  try dsimp only
  rw [if_pos (show od = st.p.depth ∧ oa = (st.p.getLvl 0).ad from ⟨hod.trans hd.symm, hoa.trans had.symm⟩), if_neg (by rw [had]; decide : ¬ (st.p.getLvl 0).ad = 0)]
  have h10 : (st.p.getLvl 0).ad - 1 = 0 := by rw [had]
  simp only [h10, if_true]
  rw [if_pos ⟨hpt, hd⟩]
  have hq1 : Shape { st.p with used := st.p.used + 1 } := hsh.withUsed (st.p.used + 1) (by omega)
  obtain ⟨t1, t2, _, t4, t5, t6, t7, t8, t9, t10, t11⟩ :=
    setLvl_ok (p0 := st.p) hq1 ⟨rfl, rfl, rfl, rfl, rfl⟩ { st.p.getLvl 0 with ad := 0, flags := .expField } h0
      (SpansOk_of_fields rfl rfl hspl)
  generalize ({ st.p with used := st.p.used + 1 } : Parser).setLvl 0 { st.p.getLvl 0 with ad := 0, flags := .expField } = w
    at t1 t2 t4 t5 t6 t7 t8 t9 t10 t11
  have hwu : w.used = st.p.used + 1 := t4
  have hws : w.size = st.p.size := t2.1
  have hwe : w.err = .none := t6.trans he
  have hwd : w.depth = 1 := t5.trans hd
  have hrl : (w.used ≠ w.size) ↔ rest ≠ [] := by
    rw [hwu, hws]
    unfold Parser.rem at hr1
    simp only at hr1
    have hlen : (st.p.buf.toList.drop (st.p.used + 1)).length = st.p.size - (st.p.used + 1) := by
      simp [hsh.hbs]
    rw [hr1] at hlen
    constructor
    · intro h hr; rw [hr] at hlen; simp at hlen; omega
    · intro h hu
      have : rest.length = 0 := by rw [hlen]; omega
      exact h (List.eq_nil_of_length_eq_zero this)
  by_cases hr : rest = []
  · have hu : w.used = w.size := by
      by_cases h : w.used = w.size
      · exact h
      · exact absurd (hrl.mp h) (by simp [hr])
    simp only [hu, ne_eq, not_true_eq_false, if_false, hr, if_true]
    exact ⟨_, rfl, hwe, hwd, t2, t1.hnf, t1.hno⟩
  · have hu : ¬ w.used = w.size := fun h => (hrl.mpr hr) h
    simp only [hu, ne_eq, not_false_eq_true, if_true, hr, if_false]
    exact ⟨_, rfl, rfl, hwd, t2.trans ⟨rfl, rfl, rfl, rfl, rfl⟩, t1.hnf, t1.hno⟩

end Binson

namespace Binson

/-- root `{` of an object document in ENTER_OBJECT mode: depth 0 → 1, level 0 expects a field, the loop stops -/
theorem iter_root_objBegin_enter {st : LoopSt} {sn : Option (List UInt8)} {oa od : Nat}
    (hsh : Shape st.p) (he : st.p.err = .none) (hsc : st.scan = some .enterObj) (hd : st.p.depth = 0)
    (hz : ∀ i, st.p.getLvl i = Level.zero) (hmd : st.p.maxDepth ≤ 255)
    (rest : Bytes) (hrem : st.p.rem = 0x40 :: rest) :
    ∃ st', iter st sn oa od = (st', .stop) ∧
      StepRes st st' 1 none 1 (fun i => if i = 0 then { Level.zero with ctype := .object, flags := .expField } else Level.zero) := by
  have hli := hsh.lvlIdx_lt
  have hidx : st.p.lvlIdx = 0 := by unfold Parser.lvlIdx; rw [hd]; rfl
  have hcl := classify_objBegin hsh he st.bc rest hrem
  have hlt := (rem_cons hsh hrem).2.1
  rw [hidx, hz 0] at hcl
  have h0 : 0 < st.p.levels.size := by rw [← hidx]; exact hli
  obtain ⟨s1, s2, _, s4, s5, s6, s7, s8, s9, s10, s11⟩ :=
    setLvl_ok (p0 := st.p) hsh (Parser.Frame.refl _) { Level.zero with ctype := .object } h0 (SpansOk_of_fields rfl rfl (Level.zero_spansOk _))
  have hgq : ∀ i, (st.p.setLvl 0 { Level.zero with ctype := .object }).getLvl i =
      if i = 0 then { Level.zero with ctype := .object } else Level.zero := by
    intro i; rw [getLvl_setLvl _ h0 i]; split
    · rfl
    · exact hz i
  generalize st.p.setLvl 0 { Level.zero with ctype := .object } = q at hcl s1 s2 s4 s5 s6 s7 s8 s9 s10 s11 hgq
  have hqi : q.lvlIdx = 0 := by unfold Parser.lvlIdx; rw [s5, hd]; rfl
  have h0q : 0 < q.levels.size := by rw [s9]; exact h0
  unfold iter
  simp only [hcl, show Tok.objBegin ≠ Tok.error by decide, if_false]
  rw [hqi, hgq]
  simp only [if_true]
  have hob : objBlock { Level.zero with ctype := .object } .objBegin = some ({ Level.zero with ctype := .object }, .objBegin) := by
    unfold objBlock; simp [Level.zero, Flags.inObject]
  rw [hob]
  simp only [arrBlock_notArr _ _ _ (show ({ Level.zero with ctype := .object } : Level).flags.inArray = false from rfl)]
  show ∃ st', caseObjBegin _ _ _ _ _ = (st', .stop) ∧ _
  unfold caseObjBegin
  rw [hsc, if_pos (by rfl)]
  have hc : clear (some Scan.enterObj) .enterObj = none := rfl
  rw [hc]
  obtain ⟨t1, t2, _, t4, t5, t6, t7, t8, t9, t10, t11⟩ :=
    setLvl_ok (p0 := st.p) s1 s2 { Level.zero with ctype := .object } h0q (SpansOk_of_fields rfl rfl (Level.zero_spansOk _))
  have hgw : ∀ i, (q.setLvl 0 { Level.zero with ctype := .object }).getLvl i =
      if i = 0 then { Level.zero with ctype := .object } else Level.zero := by
    intro i; rw [getLvl_setLvl _ h0q i]; split
    · rfl
    · rw [hgq]; rename_i h; simp [h]
  generalize q.setLvl 0 { Level.zero with ctype := .object } = w at t1 t2 t4 t5 t6 t7 t8 t9 t10 t11 hgw
  dsimp only
  have hwd : w.depth = 0 := by rw [t5, s5, hd]
  have hcond : w.depth < 255 ∧ w.depth < w.maxDepth := by
    rw [hwd, t11, s11]; have := hsh.hmd; omega
  rw [if_pos hcond]
  have hn1 : Shape { w with used := w.used + 1, depth := w.depth + 1, cur := w.depth + 1 - 1 } := by
    refine t1.update ⟨rfl, rfl, rfl, rfl, rfl⟩ t1.hnf t1.hno (by have := t1.hmd; simp; omega) (by simp [Parser.lvlIdx]) (by simp; rw [t4, s4, t8, s8]; omega) ?_
    intro e i; exact t1.hsp e i
  have hcur : ({ w with used := w.used + 1, depth := w.depth + 1, cur := w.depth + 1 - 1 } : Parser).cur
      < ({ w with used := w.used + 1, depth := w.depth + 1, cur := w.depth + 1 - 1 } : Parser).levels.size := hn1.cur_lt
  rw [touchLvl_of_lt hcur]
  have hne : ({ w with used := w.used + 1, depth := w.depth + 1, cur := w.depth + 1 - 1 } : Parser).err = .none := by
    show w.err = .none; rw [t6, s6]; exact he
  have hcd : w.depth + 1 - 1 = 0 := by rw [hwd]
  have hlv : ({ w with used := w.used + 1, depth := w.depth + 1, cur := w.depth + 1 - 1 } : Parser).getLvl (w.depth + 1 - 1) =
      { Level.zero with ctype := .object } := by
    show w.getLvl (w.depth + 1 - 1) = _
    rw [hcd, hgw]; simp
  dsimp only
  rw [hlv]
  rw [finish_go' _ _ ({ w with used := w.used + 1, depth := w.depth + 1, cur := w.depth + 1 - 1 }) _ _ _ hcur hne, outOf_none]
  obtain ⟨u1, u2, _, u4, u5, u6, u7, u8, u9, u10, u11⟩ :=
    setLvl_ok (p0 := st.p) hn1 (t2.trans ⟨rfl, rfl, rfl, rfl, rfl⟩) { Level.zero with ctype := .object, flags := .expField } hcur
      (SpansOk_of_fields rfl rfl (Level.zero_spansOk _))
  have hgf : ∀ i, (({ w with used := w.used + 1, depth := w.depth + 1, cur := w.depth + 1 - 1 } : Parser).setLvl (w.depth + 1 - 1)
      { Level.zero with ctype := .object, flags := .expField }).getLvl i =
      if i = 0 then { Level.zero with ctype := .object, flags := .expField } else Level.zero := by
    intro i
    have := getLvl_setLvl (p := ({ w with used := w.used + 1, depth := w.depth + 1, cur := w.depth + 1 - 1 } : Parser))
      { Level.zero with ctype := .object, flags := .expField } hcur i
    rw [this, hcd]
    split
    · rfl
    · show w.getLvl i = _
      rw [hgw]; rename_i h; simp [h]
  refine ⟨_, rfl, StepRes.ofEq (P := (({ w with used := w.used + 1, depth := w.depth + 1, cur := w.depth + 1 - 1 } : Parser).setLvl (w.depth + 1 - 1)
      { Level.zero with ctype := .object, flags := .expField })) rfl rfl u1 (u6.trans hne) ?_ ?_ u2 hgf⟩
  · exact u4.trans (by show w.used + 1 = _; rw [t4, s4])
  · exact u5.trans (by show w.depth + 1 = _; rw [hwd])

end Binson
