/-
  C08, part 5: one pass through the loop body from a state satisfying the invariant `ZG`, in
  EVERY scan mode - BEGIN and END tokens. (The per-token reasoning of VerifySoundStep.lean,
  with the "not consumed" outcomes added.)
-/
import Binson.Lemmas.StreamInv
namespace Binson

theorem valPos_of {buf : Array UInt8} {L : Level} {g : Grp} {D : Nat} (h : LvOk buf L g true) (hg : GrpOk D g)
    (hp : g.arrs = [] → ∃ n, g.pend = some n) : ValPos L.flags := by
  rcases h.cases hg with ⟨_, h2, _⟩ | ⟨_, _, h3, _, _⟩ | ⟨h1, h2, _⟩
  · rcases h2 with h2 | h2
    · exact Or.inr (Or.inl h2)
    · exact Or.inr (Or.inr (Or.inl h2))
  · exact Or.inl h3
  · obtain ⟨n, hn⟩ := hp h1
    rw [h2] at hn; cases hn

theorem expField_of {buf : Array UInt8} {L : Level} {g : Grp} {D : Nat} (h : LvOk buf L g true) (hg : GrpOk D g)
    (hnp : ¬ (g.arrs = [] → ∃ n, g.pend = some n)) : L.flags = .expField ∧ g.arrs = [] ∧ g.pend = none ∧ g.virt = false := by
  rcases h.cases hg with ⟨h1, _⟩ | ⟨_, h2, _⟩ | ⟨h1, h2, h3, _, h5⟩
  · exact absurd (fun h => absurd h h1) hnp
  · exact absurd (fun _ => h2) hnp
  · exact ⟨h3, h1, h2, h5⟩

/-- `ValAfter` from array flags gives array flags, from `expValue` gives `expField` -/
theorem ValAfter.arr {f f' : Flags} (h : ValAfter f f') (hf : f = .arr1 ∨ f = .arr2) : f' = .arr1 ∨ f' = .arr2 := by
  rcases h with ⟨h1, _⟩ | ⟨_, h2⟩ | ⟨h1, _⟩
  · rcases hf with e | e <;> rw [e] at h1 <;> cases h1
  · exact h2
  · rcases hf with e | e <;> rw [e] at h1 <;> cases h1

theorem ValAfter.obj {f f' : Flags} (h : ValAfter f f') (hf : f = .expValue) : f' = .expField := by
  rcases h with ⟨_, h2⟩ | ⟨h1, _⟩ | ⟨h1, _⟩
  · exact h2
  · rcases h1 with e | e <;> rw [e] at hf <;> cases hf
  · rw [h1] at hf; cases hf

section
variable {buf : Array UInt8} {md t : Nat}

/-- `{` -/
theorem g_objBegin {st : LoopSt} {g : Grp} {rest : List Grp} (hZ : ZG buf md t st.p (g :: rest))
    (sn : Option (List UInt8)) (oa od : Nat) (rs : Bytes) (hrem : st.p.rem = 0x40 :: rs)
    (R : Parser) (hR : R = (iter st sn oa od).1.p) (hRs : Shape R) (hfr : st.p.Frame R) : Res buf md t R := by
  have hT := hZ.top
  have hsh := hZ.shape
  have hcl := classify_objBegin hsh hZ.err st.bc rs hrem
  by_cases hp : g.arrs = [] → ∃ n, g.pend = some n
  · have hvp := valPos_of hT.lv hT.ok hp
    rw [← hT.idx] at hvp
    rcases tok_objBegin sn oa od hsh hZ.err rs hrem hvp R hR with h | ⟨r1, r2, r3, r4, L', a1, a2, a3, r5⟩ | ⟨r1, r2, r3, L', hsim, r5⟩
    · exact Or.inl h
    · refine Or.inr (Or.inr (Or.inl ⟨newGrp :: g :: rest, ?_⟩))
      have hdep : st.p.depth = rest.length + 1 := hT.dep
      have hne : st.p.depth ≠ st.p.lvlIdx := by rw [hT.idx, hdep]; omega
      have hz0 := hZ.zeros st.p.depth (Nat.le_refl _)
      simp only [if_neg hne, hz0] at r5
      rw [hT.idx] at a1 a2 a3
      have hlvN : R.getLvl (rest.length + 1) = freshObjLevel := by rw [r5, hdep, if_pos rfl]; rfl
      have hlvO : R.getLvl rest.length = L' := by
        rw [r5, hdep, if_neg (by omega), hT.idx, if_pos rfl]
      refine hZ.next hRs r1 hfr (by rw [r3, hdep]; rfl) (by simp)
        (fun i hi => by
          rw [r5]
          rw [r3] at hi
          have h1 : i ≠ st.p.depth := by omega
          have h2 : i ≠ st.p.lvlIdx := by rw [hT.idx]; omega
          simp only [h1, h2, if_false]; exact hZ.zeros i (by omega)) ?_
        [0x40] rs (by simpa using hrem) r2 ?_
      · refine ⟨?_, GrpOk_new _, ⟨fun h => (by cases h), fun h => (by cases h.1)⟩, ?_⟩
        · show LvOk buf (R.getLvl (rest.length + 1)) newGrp true
          rw [hlvN]
          exact ⟨rfl, fun h => absurd rfl h, fun _ _ => Or.inl ⟨rfl, rfl⟩, fun _ h => (by cases h), fun _ => rfl⟩
        · refine hZ.mirror.replaceTop (fun i hi => by
            rw [r5]
            have h1 : i ≠ st.p.depth := by omega
            have h2 : i ≠ st.p.lvlIdx := by rw [hT.idx]; omega
            simp [h1, h2]) ?_ hT.ok rfl
          rw [hlvO]
          refine ⟨a1.trans hT.lv.ad, ?_, fun _ h => (by cases h), ?_, fun hvf => by rw [a2]; exact hT.lv.name hvf⟩
          · intro hne'
            exact a3.arr (hT.lv.arrFlags hne')
          · intro ha _
            rcases hT.lv.objTop ha rfl with ⟨h1, _⟩ | ⟨h1, h2⟩
            · obtain ⟨n, hn⟩ := hp ha; rw [h1] at hn; cases hn
            · exact ⟨h1, a3.obj h2⟩
      · show encGs rest ++ encGrp g ++ encGrp newGrp = encGs rest ++ encGrp g ++ [0x40]
        rw [encGrp_new]
    · exact Or.inr (Or.inr (Or.inl ⟨_, hZ.same hRs r1 hfr r2 r3 L' hsim r5⟩))
  · left
    rw [hR]
    refine iter_err_objBlock ?_ ?_ ?_ ?_
    all_goals rw [hcl]
    · exact fun h => nomatch h
    · show ((st.p.setLvl st.p.lvlIdx _).getLvl (st.p.setLvl st.p.lvlIdx _).lvlIdx).flags = _
      rw [flags_setCtype hsh.lvlIdx_lt, hT.idx]; exact (expField_of hT.lv hT.ok hp).1
    · rfl
    · exact fun h => nomatch h

/-- `[` -/
theorem g_arrBegin {st : LoopSt} {g : Grp} {rest : List Grp} (hZ : ZG buf md t st.p (g :: rest))
    (sn : Option (List UInt8)) (oa od : Nat) (rs : Bytes) (hrem : st.p.rem = 0x42 :: rs)
    (R : Parser) (hR : R = (iter st sn oa od).1.p) (hRs : Shape R) (hfr : st.p.Frame R) : Res buf md t R := by
  have hT := hZ.top
  have hsh := hZ.shape
  have hcl := classify_arrBegin hsh hZ.err st.bc rs hrem
  by_cases hp : g.arrs = [] → ∃ n, g.pend = some n
  · have hvp := valPos_of hT.lv hT.ok hp
    rw [← hT.idx] at hvp
    rcases tok_arrBegin sn oa od hsh hZ.err rs hrem hvp R hR with h | ⟨r1, r2, r3, r4, L', a1, a2, a3, r5⟩ | ⟨r1, r2, r3, L', hsim, r5⟩
    · exact Or.inl h
    · refine Or.inr (Or.inr (Or.inl ⟨{ g with arrs := [] :: g.arrs } :: rest, ?_⟩))
      rw [hT.idx] at a1 a2 r4
      have hlv' : R.getLvl rest.length = L' := by rw [r5, hT.idx, if_pos rfl]
      refine hZ.next hRs r1 hfr (by rw [r3, hT.dep]; rfl) (by simp)
        (fun i hi => by
          rw [r5]
          have : i ≠ st.p.lvlIdx := by rw [hT.idx]; rw [r3, hT.dep] at hi; omega
          simp only [this, if_false]; exact hZ.zeros i (by rw [← r3]; exact hi)) ?_
        [0x42] rs (by simpa using hrem) r2 ?_
      · refine hZ.mirror.replaceTop (fun i hi => by
          rw [r5]
          have : i ≠ st.p.lvlIdx := by rw [hT.idx]; omega
          simp [this]) ?_ ?_ rfl
        · rw [hlv']
          refine ⟨?_, fun _ => Or.inl a3, fun h => (by simp at h), fun h => (by simp at h), fun hvf => by rw [a2]; exact hT.lv.name hvf⟩
          show L'.ad = (g.arrs.length + 1)
          rw [a1, hT.lv.ad]
        · refine GrpOk_openArr _ g hT.ok (by rw [← hT.lv.ad]; exact r4) ?_
          intro hvf
          by_cases hne : g.arrs = []
          · exact hp hne
          · exact hT.ok.arrPend hvf hne
      · show encGs rest ++ encGrp { g with arrs := [] :: g.arrs } = encGs rest ++ encGrp g ++ [0x42]
        rw [encGrp_openArr, List.append_assoc]
    · exact Or.inr (Or.inr (Or.inl ⟨_, hZ.same hRs r1 hfr r2 r3 L' hsim r5⟩))
  · left
    rw [hR]
    refine iter_err_objBlock ?_ ?_ ?_ ?_
    all_goals rw [hcl]
    · exact fun h => nomatch h
    · show ((st.p.setLvl st.p.lvlIdx _).getLvl (st.p.setLvl st.p.lvlIdx _).lvlIdx).flags = _
      rw [flags_setCtype hsh.lvlIdx_lt, hT.idx]; exact (expField_of hT.lv hT.ok hp).1
    · rfl
    · exact fun h => nomatch h

/-- the unread part of the buffer has `size - used` bytes -/
theorem rem_length {p : Parser} (hs : Shape p) : p.rem.length = p.size - p.used := by
  unfold Parser.rem
  rw [List.length_drop, Array.length_toList, hs.hbs]

/-- a one-byte token after which the cursor is at the end was the last byte -/
theorem last_token {p R : Parser} {b : UInt8} {rs : Bytes} (hs : Shape p) (hrem : p.rem = b :: rs) (fr : p.Frame R)
    (hu : R.used = p.used + 1) (he : R.used = R.size) : rs = [] := by
  have hl := rem_length hs
  rw [hrem, List.length_cons] at hl
  rw [fr.1] at he
  apply List.eq_nil_of_length_eq_zero
  omega

/-- `]` -/
theorem g_arrEnd {st : LoopSt} {g : Grp} {rest : List Grp} (hZ : ZG buf md t st.p (g :: rest))
    (sn : Option (List UInt8)) (oa od : Nat) (rs : Bytes) (hrem : st.p.rem = 0x43 :: rs)
    (R : Parser) (hR : R = (iter st sn oa od).1.p) (hRs : Shape R) (hfr : st.p.Frame R) : Res buf md t R := by
  have hT := hZ.top
  have hsh := hZ.shape
  have hnj := hT.lv.noJunk hT.ok
  rw [← hT.idx] at hnj
  rcases tok_arrEnd sn oa od hsh hZ.err rs hrem hnj R hR with
    h | ⟨_, r1, r2, r3, L', hsim, r5⟩ | ⟨r0, r00, r01, r1, r2, r3, L', a1, a2, a3, r5⟩ | ⟨r0, r00, r01, r02, r1, r2, r3⟩
  · exact Or.inl h
  · exact Or.inr (Or.inr (Or.inl ⟨_, hZ.same hRs r1 hfr r2 r3 L' hsim r5⟩))
  · -- an array (not the root array) is closed
    rw [hT.idx] at r0 r00 r01 a1 a2 a3
    rcases hT.lv.cases hT.ok with ⟨hne, hfl, _⟩ | ⟨_, _, hfl, _⟩ | ⟨_, _, hfl, _⟩
    · obtain ⟨a, as, hga⟩ : ∃ a as, g.arrs = a :: as := by
        cases hx : g.arrs with
        | nil => exact absurd hx hne
        | cons a as => exact ⟨a, as, rfl⟩
      have hadL : (st.p.getLvl rest.length).ad = as.length + 1 := by rw [hT.lv.ad, hga]; rfl
      have harrs := hT.ok.arrs
      rw [hga] at harrs
      obtain ⟨hw, hf, _⟩ := closeArr_ok _ a as harrs
      have hroot : ¬ (as = [] ∧ t = 2 ∧ rest = []) := by
        rintro ⟨h1, h2, h3⟩
        apply r01
        refine ⟨by rw [hadL, h1]; rfl, by rw [hZ.hpt]; exact h2, by rw [hT.dep, h3]; rfl⟩
      have hvirt : as = [] → g.virt = false := by
        intro h0
        cases hvv : g.virt with
        | false => rfl
        | true =>
          have := hT.virt.mp hvv
          exact absurd ⟨h0, this.2, this.1⟩ hroot
      have hp0 : ({ g with arrs := as } : Grp).arrs = [] → ∃ n, ({ g with arrs := as } : Grp).pend = some n := by
        intro h0
        exact hT.ok.arrPend (hvirt h0) hne
      refine Or.inr (Or.inr (Or.inl ⟨addVal { g with arrs := as } (.arr (toElems a .nil)) :: rest, ?_⟩))
      have hlv' : R.getLvl rest.length = L' := by rw [r5, hT.idx, if_pos rfl]
      refine hZ.next hRs r1 hfr (by rw [r3, hT.dep]; rfl) (by simp)
        (fun i hi => by
          rw [r5]
          have : i ≠ st.p.lvlIdx := by rw [hT.idx]; rw [r3, hT.dep] at hi; omega
          simp only [this, if_false]; exact hZ.zeros i (by rw [← r3]; exact hi)) ?_
        [0x43] rs (by simpa using hrem) r2 ?_
      · refine hZ.mirror.replaceTop (fun i hi => by
          rw [r5]
          have : i ≠ st.p.lvlIdx := by rw [hT.idx]; omega
          simp [this]) ?_ ?_ (addVal_virt _ _)
        · rw [hlv']
          refine LvOk_addVal buf _ { g with arrs := as } _ ?_ ?_ ?_ hp0 (fun hvf => by rw [a2]; exact hT.lv.name hvf)
          · show L'.ad = as.length
            rw [a1, hadL]; rfl
          · intro h0
            have : as.length ≠ 0 := fun h => h0 (List.eq_nil_of_length_eq_zero h)
            rw [a3, hadL]
            simp [this]
          · intro h0
            have h0' : as = [] := h0
            rw [a3, hadL, h0']
            simp
        · refine GrpOk_addVal _ _ _ (GrpOk_dropArr _ g a as hT.ok hga ?_) hp0 hw hf
          intro hvt h0
          rw [hvirt h0] at hvt; cases hvt
      · show encGs rest ++ encGrp (addVal { g with arrs := as } (.arr (toElems a .nil))) = encGs rest ++ encGrp g ++ [0x43]
        rw [encGrp_addVal { g with arrs := as } _ (fun h0 => ⟨hvirt h0, hp0 h0⟩), List.append_assoc, encGrp_closeArr g a as hga]
    · rw [hfl] at r0; cases r0
    · rw [hfl] at r0; cases r0
  · -- the root array is closed
    rw [hT.idx] at r0 r00
    rw [hT.dep] at r02
    have hrest : rest = [] := List.eq_nil_of_length_eq_zero (by omega)
    subst hrest
    have ht : t = 2 := by rw [← hZ.hpt]; exact r01
    subst ht
    rcases hT.lv.cases hT.ok with ⟨hne, hfl, _⟩ | ⟨_, _, hfl, _⟩ | ⟨_, _, hfl, _⟩
    · obtain ⟨a, as, hga⟩ : ∃ a as, g.arrs = a :: as := by
        cases hx : g.arrs with
        | nil => exact absurd hx hne
        | cons a as => exact ⟨a, as, rfl⟩
      have hadL : (st.p.getLvl ([] : List Grp).length).ad = as.length + 1 := by rw [hT.lv.ad, hga]; rfl
      have has : as = [] := List.eq_nil_of_length_eq_zero (by rw [hadL] at r00; omega)
      subst has
      have harrs := hT.ok.arrs
      rw [hga] at harrs
      obtain ⟨hw, hf, _⟩ := closeArr_ok _ a [] harrs
      have hrs : rs = [] := last_token hsh hrem hfr r2 r3
      have hv : g.virt = true := hT.virt.mpr ⟨rfl, rfl⟩
      refine Or.inr (Or.inr (Or.inr ⟨r3, .arr (toElems a .nil), hw, ?_, Or.inr ⟨rfl, ⟨_, rfl⟩, hf⟩⟩))
      have hb := hZ.bytes
      rw [hrem, hrs] at hb
      rw [hb]
      show _ = [] ++ encGrp g ++ [0x43]
      rw [List.nil_append, encGrp_closeArr g a [] hga]
      simp [encGrp, encArrs, hv]
    · rw [hfl] at r0; cases r0
    · rw [hfl] at r0; cases r0

/-- `}` -/
theorem g_objEnd {st : LoopSt} {g : Grp} {rest : List Grp} (hZ : ZG buf md t st.p (g :: rest))
    (sn : Option (List UInt8)) (oa od : Nat) (rs : Bytes) (hrem : st.p.rem = 0x41 :: rs)
    (R : Parser) (hR : R = (iter st sn oa od).1.p) (hRs : Shape R) (hfr : st.p.Frame R) : Res buf md t R := by
  have hT := hZ.top
  have hsh := hZ.shape
  have hobj : (st.p.getLvl rest.length).flags = .expField → g.arrs = [] ∧ g.pend = none ∧ g.virt = false := by
    intro hf
    rcases hT.lv.cases hT.ok with ⟨_, hfl, _⟩ | ⟨_, _, hfl, _⟩ | ⟨ha, hpn, _, _, hvf⟩
    · rcases hfl with h | h <;> rw [h] at hf <;> cases hf
    · rw [hfl] at hf; cases hf
    · exact ⟨ha, hpn, hvf⟩
  rcases tok_objEnd sn oa od hsh hZ.err rs hrem R hR with
    h | ⟨_, r1, r2, r3, r5⟩ | ⟨r0, r00, r1, r2, r3, r5⟩ | ⟨r0, r00, r1, r2, r3, r4⟩
  · exact Or.inl h
  · exact Or.inr (Or.inr (Or.inl ⟨_, hZ.same' hRs r1 hfr r2 r3 r5⟩))
  · -- a nested object is closed
    rw [hT.idx] at r0
    obtain ⟨ha, hpn, hvf⟩ := hobj r0
    cases rest with
    | nil => rw [hT.dep] at r00; simp at r00
    | cons g2 r2' =>
      have hdep : st.p.depth = r2'.length + 2 := hT.dep
      have hidx : st.p.lvlIdx = r2'.length + 1 := hT.idx
      obtain ⟨l2, ok2, v2, low2⟩ := hT.low
      have hp2 : g2.arrs = [] → ∃ n, g2.pend = some n := fun h => (l2.objLow h rfl).1
      have hok : GrpOk (md - (r2'.length + 2)) g := hT.ok
      have hroom : r2'.length + 2 ≤ md := hT.room
      obtain ⟨hw, hf⟩ := closeObj_ok (md - (r2'.length + 2)) (255 - g2.arrs.length) g hok
      rw [show md - (r2'.length + 2) + 1 = md - (r2'.length + 1) by omega] at hf
      refine Or.inr (Or.inr (Or.inl ⟨addVal g2 (.obj (toFields g.fs .nil)) :: r2', ?_⟩))
      have hlv' : R.getLvl r2'.length = st.p.getLvl r2'.length := by
        rw [r5, hidx, if_neg (by omega)]
      refine hZ.next hRs r1 hfr (by rw [r3, hdep]; simp) (by simp)
        (fun i hi => by
          rw [r5]
          split
          · rfl
          · exact hZ.zeros i (by rw [r3] at hi; rename_i hne; rw [hidx] at hne; omega)) ?_
        [0x41] rs (by simpa using hrem) r2 ?_
      · refine ⟨?_, GrpOk_addVal _ g2 _ ok2 hp2 hw hf, by rw [addVal_virt]; exact v2, Mirror.congr (fun i hi => by
          rw [r5, hidx, if_neg (by omega)]) low2⟩
        rw [hlv']
        exact LvOk_addVal buf _ g2 _ l2.ad l2.arrFlags (fun h => (l2.objLow h rfl).2) hp2 l2.name
      · show encGs r2' ++ encGrp (addVal g2 (.obj (toFields g.fs .nil))) = encGs r2' ++ encGrp g2 ++ encGrp g ++ [0x41]
        have hv2 : g2.arrs = [] → g2.virt = false := fun h => virt_false_of ok2 h
        rw [encGrp_addVal g2 _ (fun h0 => ⟨hv2 h0, hp2 h0⟩), ← encGrp_closeObj g hvf ha hpn]
        simp only [List.append_assoc]
  · -- the root object is closed
    rw [hT.idx] at r0
    obtain ⟨ha, hpn, hvf⟩ := hobj r0
    rw [hT.dep] at r00
    have hrest : rest = [] := List.eq_nil_of_length_eq_zero (by omega)
    subst hrest
    have ht : t = 1 := by
      rcases hZ.t12 with h | h
      · exact h
      · have := hT.virt.mpr ⟨rfl, h⟩
        rw [hvf] at this; cases this
    subst ht
    have hrs : rs = [] := last_token hsh hrem hfr r2 r3
    obtain ⟨hw, hf⟩ := closeObj_ok (md - 1) 255 g hT.ok
    have hroom : 1 ≤ md := hT.room
    rw [show md - 1 + 1 = md by omega] at hf
    refine Or.inr (Or.inr (Or.inr ⟨r3, .obj (toFields g.fs .nil), hw, ?_, Or.inl ⟨rfl, ⟨_, rfl⟩, hf⟩⟩))
    have hb := hZ.bytes
    rw [hrem, hrs] at hb
    rw [hb]
    show _ = [] ++ encGrp g ++ [0x41]
    rw [List.nil_append, encGrp_closeObj g hvf ha hpn]

end
end Binson
