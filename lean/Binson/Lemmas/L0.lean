/-
  Layer 0: arithmetic and bytes. Little-endian packing/unpacking, two's complement,
  minimal widths. Everything later rests on these.
-/
import Binson.Spec.Value
import Binson.Spec.Decode
import Binson.Model.Parser
import Binson.Model.Writer
namespace Binson

@[simp] theorem leBytes_length (w n : Nat) : (leBytes w n).length = w := by
  induction w generalizing n with
  | zero => rfl
  | succ w ih => simp [leBytes, ih]

theorem UInt8_toNat_ofNat_mod (n : Nat) : (UInt8.ofNat (n % 256)).toNat = n % 256 := by
  simp [UInt8.toNat_ofNat']

theorem leNatL_leBytes (w n : Nat) : leNatL (leBytes w n) = n % 256 ^ w := by
  induction w generalizing n with
  | zero => simp [leBytes, leNatL, Nat.mod_one]
  | succ w ih =>
    simp only [leBytes, leNatL, ih, UInt8_toNat_ofNat_mod]
    rw [Nat.pow_succ, Nat.mul_comm (256 ^ w) 256, Nat.mod_mul]

theorem leNatL_lt (b : Bytes) : leNatL b < 256 ^ b.length := by
  induction b with
  | nil => simp [leNatL]
  | cons x r ih =>
    have hx : x.toNat < 256 := x.toNat_lt
    simp only [leNatL, List.length_cons, Nat.pow_succ]
    omega

theorem leBytes_leNatL (b : Bytes) : leBytes b.length (leNatL b) = b := by
  induction b with
  | nil => rfl
  | cons x r ih =>
    have hx : x.toNat < 256 := x.toNat_lt
    simp only [List.length_cons, leBytes, leNatL]
    have h1 : (x.toNat + 256 * leNatL r) % 256 = x.toNat := by omega
    have h2 : (x.toNat + 256 * leNatL r) / 256 = leNatL r := by omega
    rw [h1, h2, ih]
    simp

theorem leBytes_mod (w n : Nat) : leBytes w (n % 256 ^ w) = leBytes w n := by
  have h := leNatL_leBytes w n
  have := leBytes_leNatL (leBytes w n)
  rw [leBytes_length, h] at this
  exact this

theorem leBytes_append (w1 w2 n : Nat) : leBytes (w1 + w2) n = leBytes w1 n ++ leBytes w2 (n / 256 ^ w1) := by
  induction w1 generalizing n with
  | zero => simp [leBytes]
  | succ w ih =>
    have : w + 1 + w2 = (w + w2) + 1 := by omega
    rw [this]
    simp only [leBytes, ih, List.cons_append]
    congr 2
    rw [Nat.pow_succ, Nat.div_div_eq_div_mul, Nat.mul_comm]

/-! ### widths -/

theorem intWidthExp_le_three (i : Int) : intWidthExp i ≤ 3 := by
  unfold intWidthExp; split <;> (try split) <;> (try split) <;> omega

theorem intWidth_cases (i : Int) : intWidth i = 1 ∨ intWidth i = 2 ∨ intWidth i = 4 ∨ intWidth i = 8 := by
  unfold intWidth intWidthExp
  split
  · simp
  · split
    · simp
    · split <;> simp

theorem fits0 (i : Int) : FitsWidth i (2^0) ↔ (-128 ≤ i ∧ i < 128) := by simp [FitsWidth]
theorem fits1 (i : Int) : FitsWidth i (2^1) ↔ (-32768 ≤ i ∧ i < 32768) := by simp [FitsWidth]
theorem fits2 (i : Int) : FitsWidth i (2^2) ↔ (-2147483648 ≤ i ∧ i < 2147483648) := by simp [FitsWidth]
theorem fits3 (i : Int) : FitsWidth i (2^3) ↔ (-9223372036854775808 ≤ i ∧ i < 9223372036854775808) := by simp [FitsWidth]

theorem intWidthExp_eq (i : Int) :
    (intWidthExp i = 0 ∧ -128 ≤ i ∧ i ≤ 127) ∨
    (intWidthExp i = 1 ∧ ¬(-128 ≤ i ∧ i ≤ 127) ∧ -32768 ≤ i ∧ i ≤ 32767) ∨
    (intWidthExp i = 2 ∧ ¬(-32768 ≤ i ∧ i ≤ 32767) ∧ -2147483648 ≤ i ∧ i ≤ 2147483647) ∨
    (intWidthExp i = 3 ∧ ¬(-2147483648 ≤ i ∧ i ≤ 2147483647)) := by
  unfold intWidthExp
  by_cases h0 : -128 ≤ i ∧ i ≤ 127
  · simp [h0]
  · by_cases h1 : -32768 ≤ i ∧ i ≤ 32767
    · simp [h0, h1]
    · by_cases h2 : -2147483648 ≤ i ∧ i ≤ 2147483647
      · simp [h0, h1, h2]
      · simp [h0, h1, h2]

/-- the encoded width is the least of 1, 2, 4, 8 bytes in which `i` fits (for int64 `i`) -/
theorem intWidth_minimal (i : Int) (h : int64Min ≤ i ∧ i ≤ int64Max) :
    FitsWidth i (intWidth i) ∧ ∀ k, k < intWidthExp i → ¬ FitsWidth i (2 ^ k) := by
  unfold int64Min int64Max at h
  unfold intWidth
  rcases intWidthExp_eq i with ⟨e, h1⟩ | ⟨e, h0, h1⟩ | ⟨e, h0, h1⟩ | ⟨e, h0⟩ <;> rw [e]
  · exact ⟨(fits0 i).mpr (by omega), fun k hk => by omega⟩
  · refine ⟨(fits1 i).mpr (by omega), fun k hk => ?_⟩
    have : k = 0 := by omega
    subst this; rw [fits0]; omega
  · refine ⟨(fits2 i).mpr (by omega), fun k hk => ?_⟩
    have : k = 0 ∨ k = 1 := by omega
    rcases this with rfl | rfl
    · rw [fits0]; omega
    · rw [fits1]; omega
  · refine ⟨(fits3 i).mpr (by omega), fun k hk => ?_⟩
    have : k = 0 ∨ k = 1 ∨ k = 2 := by omega
    rcases this with rfl | rfl | rfl
    · rw [fits0]; omega
    · rw [fits1]; omega
    · rw [fits2]; omega

end Binson

namespace Binson

theorem pow256 (w : Nat) : (256 : Nat) ^ w = 2 ^ (8 * w) := by
  rw [show (256 : Nat) = 2 ^ 8 by rfl, ← Nat.pow_mul]

theorem half_pow (w : Nat) (hw : 1 ≤ w) : 2 * 2 ^ (8 * w - 1) = 2 ^ (8 * w) := by
  have : 8 * w = (8 * w - 1) + 1 := by omega
  conv => rhs; rw [this, Nat.pow_succ]
  omega

/-- two's complement round trip: the low `w` bytes of `i`, sign-extended, give `i` back -/
theorem sext_roundtrip (w : Nat) (hw : 1 ≤ w) (i : Int) (h : FitsWidth i w) :
    sext w (i % ((256 : Int) ^ w)).toNat = i := by
  unfold FitsWidth at h
  unfold sext
  have hp := half_pow w hw
  have e1 : ((256 : Int) ^ w) = ((2 ^ (8 * w) : Nat) : Int) := by
    rw [← pow256]; simp
  have e2 : ((2 : Int) ^ (8 * w - 1)) = ((2 ^ (8 * w - 1) : Nat) : Int) := by simp
  have e3 : ((2 : Int) ^ (8 * w)) = ((2 ^ (8 * w) : Nat) : Int) := by simp
  rw [e1, e3]
  rw [e2] at h
  generalize (2 ^ (8 * w - 1) : Nat) = H at *
  generalize (2 ^ (8 * w) : Nat) = M at *
  by_cases hneg : i < 0
  · have h1 : i % (M : Int) = i + M := by
      have : (i + M) % (M : Int) = i + M := Int.emod_eq_of_lt (by omega) (by omega)
      rw [← this]; simp
    rw [h1]
    have h3 : ((i + (M : Int)).toNat : Int) = i + M := Int.toNat_of_nonneg (by omega)
    have h5 : ¬ ((i + (M : Int)).toNat < H) := by omega
    simp only [h5, if_false, h3]; omega
  · have h1 : i % (M : Int) = i := Int.emod_eq_of_lt (by omega) (by omega)
    rw [h1]
    have h3 : (i.toNat : Int) = i := Int.toNat_of_nonneg (by omega)
    have h5 : i.toNat < H := by omega
    simp only [h5, if_true, h3]

/-- conversely every `w`-byte pattern is the low bytes of its sign extension, which fits `w` bytes -/
theorem sext_fits (w : Nat) (hw : 1 ≤ w) (n : Nat) (hn : n < 256 ^ w) :
    FitsWidth (sext w n) w ∧ ((sext w n) % ((256 : Int) ^ w)).toNat = n := by
  unfold FitsWidth sext
  have hp := half_pow w hw
  have e1 : ((256 : Int) ^ w) = ((2 ^ (8 * w) : Nat) : Int) := by
    rw [← pow256]; simp
  have e2 : ((2 : Int) ^ (8 * w - 1)) = ((2 ^ (8 * w - 1) : Nat) : Int) := by simp
  have e3 : ((2 : Int) ^ (8 * w)) = ((2 ^ (8 * w) : Nat) : Int) := by simp
  rw [pow256] at hn
  rw [e1, e2, e3]
  generalize (2 ^ (8 * w - 1) : Nat) = H at *
  generalize (2 ^ (8 * w) : Nat) = M at *
  by_cases hlt : n < H
  · simp only [hlt, if_true]
    refine ⟨by omega, ?_⟩
    have : (n : Int) % (M : Int) = n := Int.emod_eq_of_lt (by omega) (by omega)
    rw [this]; simp
  · simp only [hlt, if_false]
    refine ⟨by omega, ?_⟩
    have : ((n : Int) - (M : Int)) % (M : Int) = n := by
      have : ((n : Int) - M + M) % (M : Int) = n := by
        have : (n : Int) - M + M = n := by omega
        rw [this]; exact Int.emod_eq_of_lt (by omega) (by omega)
      rw [← this]; simp
    rw [this]; simp

/-- integer payload: exactly `intWidth i` bytes -/
@[simp] theorem encIntBody_length (i : Int) : (encIntBody i).length = intWidth i := by
  simp [encIntBody]

theorem leNatL_encIntBody (i : Int) : leNatL (encIntBody i) = (i % ((256 : Int) ^ intWidth i)).toNat := by
  unfold encIntBody
  simp only
  rw [leNatL_leBytes]
  apply Nat.mod_eq_of_lt
  have hpos : (0 : Int) < (256 : Int) ^ intWidth i := Int.pow_pos (by decide)
  have h1 := Int.emod_lt_of_pos i hpos
  have h0 := Int.emod_nonneg i (Int.ne_of_gt hpos)
  have : ((i % (256 : Int) ^ intWidth i).toNat : Int) < ((256 ^ intWidth i : Nat) : Int) := by
    rw [Int.toNat_of_nonneg h0]; simpa using h1
  exact Int.ofNat_lt.mp this

theorem intWidth_pos (i : Int) : 1 ≤ intWidth i := by
  rcases intWidth_cases i with h | h | h | h <;> omega

/-- reading back an encoded integer payload gives the integer (for int64 values) -/
theorem sext_encIntBody (i : Int) (h : int64Min ≤ i ∧ i ≤ int64Max) :
    sext (intWidth i) (leNatL (encIntBody i)) = i := by
  rw [leNatL_encIntBody]
  exact sext_roundtrip _ (intWidth_pos i) i (intWidth_minimal i h).1

end Binson
