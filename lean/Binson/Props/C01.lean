/-
  C01 — the parser never touches memory outside the buffer and its own state.
  In the model every buffer read and every `state[i]` access goes through `touchBuf`/`touchLvl`/
  `setLvl`, which set the ghost `fault` when the range is not inside `buf` / `levels`; writes are
  to the model's `Parser` value (the parser object and its state array) by construction.
  `Shape` contains `fault = false`, `used ≤ size` and "every stored span is inside the buffer".
-/
import Binson.Lemmas.Safe
import Binson.Model.Transcribe
namespace Binson

/-- init on ANY allocated object (arbitrary previous contents), accepted or rejected, leaves the
    object in shape: no out-of-bounds access happened and none is pending -/
theorem c01_init_shape (g : Parser) (ha : Alloc g) (buf : Array UInt8) (t : Nat) (ht : t = 1 ∨ t = 2)
    (hb : buf.size < 2 ^ 63) : Shape (init g buf t).1 :=
  init_shape g ha buf t ht hb

/-- one public call, whatever it is and whatever the parser's error state: still in shape (no
    fault), and the span it hands back (name, string, bytes, raw) lies inside the buffer -/
theorem c01_step_safe (p : Parser) (op : Op) (h : Shape p) (hv : op.Valid) :
    Shape (step p op).1 ∧ (step p op).1.fault = false ∧ (step p op).2.SpansInside (step p op).1.size :=
  ⟨step_shape p op h hv, (step_shape p op h hv).hnf, step_spans p op h hv⟩

/-- any sequence of public calls after an init on arbitrary memory - return values ignored,
    including after an init that rejected the buffer - never faults, and every prefix of the
    sequence hands back only spans inside the buffer of the most recent init -/
theorem c01_run_safe (g : Parser) (ha : Alloc g) (buf : Array UInt8) (t : Nat) (ht : t = 1 ∨ t = 2)
    (hb : buf.size < 2 ^ 63) (ops : List Op) (hv : ∀ op ∈ ops, op.Valid) :
    (run (init g buf t).1 ops).fault = false ∧
    ∀ (pre : List Op) (op : Op) (post : List Op), ops = pre ++ op :: post →
      let q := run (init g buf t).1 pre
      (step q op).2.SpansInside (step q op).1.size ∧ (step q op).1.used ≤ (step q op).1.size ∧
      (step q op).1.buf.size = (step q op).1.size := by
  have h0 := init_shape g ha buf t ht hb
  refine ⟨(run_shape ops _ h0 hv).hnf, ?_⟩
  intro pre op post e q
  have hpre : ∀ o ∈ pre, o.Valid := fun o ho => hv o (by rw [e]; exact List.mem_append_left _ ho)
  have hop : op.Valid := hv op (by rw [e]; simp)
  have hq : Shape q := run_shape pre _ h0 hpre
  have hs := step_shape q op hq hop
  exact ⟨step_spans q op hq hop, hs.hus, hs.hbs⟩

/-- while no error is pending, every span stored in any state entry (what `string_equals`, the
    lookup comparison and the print callbacks read) lies inside the buffer -/
theorem c01_stored_spans (p : Parser) (h : Shape p) (he : p.err = .none) (i : Nat) :
    (∀ s, (p.getLvl i).name = some s → s.off + s.len ≤ p.buf.size) ∧
    (∀ s, (p.getLvl i).val = .span s → s.off + s.len ≤ p.buf.size) := by
  have := h.hsp he i
  rw [h.hbs]; exact this

/-- non-vacuity: a garbage-filled object with a 1-entry state array is `Alloc`, a 1-byte buffer is
    rejected by init, and `leave_object` afterwards is covered by the theorem -/
example : Alloc (garbageParser 1) ∧ (init (garbageParser 1) #[0x40] 1).2 = false ∧
    (run (init (garbageParser 1) #[0x40] 1).1 [.leaveObject, .leaveArray, .getDepth]).fault = false := by
  refine ⟨⟨rfl, by decide, rfl, rfl⟩, by decide, ?_⟩
  exact (c01_run_safe (garbageParser 1) ⟨rfl, by decide, rfl, rfl⟩ #[0x40] 1 (Or.inl rfl) (by decide) _
    (by intro op h; simp at h; rcases h with rfl | rfl | rfl <;> trivial)).1

end Binson
