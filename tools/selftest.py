#!/usr/bin/env python3
"""tools/selftest.py [seeded|harmless|all] [--thorough-nfi]
Regression test of the verification machinery itself (not a registered check; takes about an hour):
  seeded/<id>   : apply the breaking change to /repo, run the quick check of the property it breaks,
                  expect exit 1 with a VIOLATION line that names a concrete replay (not no-failing-input-found); undo.
  harmless/<id> : apply the behaviour-preserving rewrite, run ALL quick checks, expect exit 0 everywhere; undo.
/repo is restored after every change (git checkout -- .). Evidence files are rewritten by these runs:
run tools/run_all.sh on the clean tree afterwards before committing evidence."""
import json, os, subprocess, sys, glob
ROOT = os.path.dirname(os.path.dirname(os.path.abspath(__file__)))
ALL = ['C%02d' % i for i in range(1, 19)]
def sh(cmd, **kw): return subprocess.run(cmd, capture_output=True, text=True, **kw)
def clean():
    subprocess.run(['git', '-C', '/repo', 'checkout', '--', '.'])
def apply(patch):
    return subprocess.run(['git', '-C', '/repo', 'apply', patch]).returncode == 0
def main():
    what = sys.argv[1] if len(sys.argv) > 1 else 'all'
    if sh(['git', '-C', '/repo', 'status', '--porcelain', '--untracked-files=no']).stdout.strip():
        sys.exit('/repo has uncommitted changes to tracked files; refusing to run')
    bad = 0
    try:
        if what in ('seeded', 'all'):
            for d in sorted(glob.glob(os.path.join(ROOT, 'seeded', '*'))):
                meta = json.load(open(os.path.join(d, 'meta.json'))); pid = meta['breaks_property']
                if not apply(os.path.join(d, 'patch.diff')): print('SKIP (patch does not apply)', os.path.basename(d)); clean(); continue
                r = sh([os.path.join(ROOT, 'check'), pid, 'quick']); clean()
                v = [l for l in r.stdout.splitlines() if l.startswith('VIOLATION')]
                concrete = [l for l in v if not l.rstrip().endswith('no-failing-input-found')]
                status = 'caught' if (r.returncode == 1 and concrete) else ('nfi-only' if (r.returncode == 1 and v) else 'MISSED')
                if status != 'caught': bad += 1
                print('%-8s %-48s %s' % (status, os.path.basename(d), (concrete or v or [''])[0][:110]), flush=True)
        if what in ('harmless', 'all'):
            for d in sorted(glob.glob(os.path.join(ROOT, 'harmless', '*'))):
                if not apply(os.path.join(d, 'patch.diff')): print('SKIP (patch does not apply)', os.path.basename(d)); clean(); continue
                alarms = []
                nfi_ok = os.path.exists(os.path.join(d, 'expect_nfi'))   # the rewrite is known to break the syntactic tie (DESIGN 0.5)
                nfi = []
                for pid in ALL:
                    r = sh([os.path.join(ROOT, 'check'), pid, 'quick'])
                    if r.returncode != 0:
                        v = [l for l in r.stdout.splitlines() if l.startswith('VIOLATION')]
                        if nfi_ok and v and all(l.rstrip().endswith('no-failing-input-found') for l in v): nfi.append(pid)
                        else: alarms.append(pid)
                clean()
                if alarms: bad += 1
                print('%-8s %-48s %s' % ('ALARM' if alarms else ('nfi-only (expected)' if nfi else 'quiet'), os.path.basename(d), ' '.join(alarms or nfi)), flush=True)
    finally:
        clean()
    print('selftest: %d unexpected result(s)' % bad)
    sys.exit(1 if bad else 0)
main()
