/-
  Soundness of verify, part 5: one iteration of the VERIFY loop from a state satisfying the
  invariant `Z` either continues in a state satisfying `Z` (for the context extended by the
  token read), or does not continue, and then leaves an error unless the whole buffer is the
  canonical encoding of a well-formed document.
-/
import Binson.Lemmas.VerifySoundInv
import Binson.Lemmas.VerifySoundLex
import Binson.Lemmas.VerifySoundNeg
namespace Binson

/-- outcome of one iteration -/
def StepOk (buf : Array UInt8) (md t : Nat) (st : LoopSt) : Prop :=
  (∃ st' gs', iter st none 0 (t - 1) = (st', .cont) ∧ Z buf md t st' gs') ∨
  ((iter st none 0 (t - 1)).2 ≠ .cont ∧ ((iter st none 0 (t - 1)).1.p.err = .none → Accept buf md t))

theorem StepOk.ofErr {buf : Array UInt8} {md t : Nat} {st : LoopSt} (hs : Shape st.p) (he : st.p.err = .none)
    (h : (iter st none 0 (t - 1)).1.p.err ≠ .none) : StepOk buf md t st := by
  right
  refine ⟨fun hc => ?_, fun h' => absurd h' h⟩
  exact h ((iter_spec st none 0 (t - 1) hs he).cont hc).1

theorem StepOk.ofCont {buf : Array UInt8} {md t : Nat} {st st' : LoopSt} {gs' : List Grp}
    (h : iter st none 0 (t - 1) = (st', .cont)) (hZ : Z buf md t st' gs') : StepOk buf md t st :=
  Or.inl ⟨st', gs', h, hZ⟩

theorem valCtx_of {buf : Array UInt8} {L : Level} {g : Grp} {D : Nat} (h : LvOk buf L g true) (hg : GrpOk D g)
    (hp : g.arrs = [] → ∃ n, g.pend = some n) : ValCtx L := by
  rcases h.cases hg with ⟨_, h2, h3⟩ | ⟨_, _, h3, h4, _⟩ | ⟨h1, h2, _⟩
  · exact Or.inr ⟨h2, h3⟩
  · exact Or.inl ⟨h3, h4⟩
  · obtain ⟨n, hn⟩ := hp h1
    rw [h2] at hn; cases hn

theorem virt_false_of {D : Nat} {g : Grp} (hg : GrpOk D g) (ha : g.arrs = []) : g.virt = false := by
  cases hvv : g.virt with
  | false => rfl
  | true => exact absurd ha (hg.virtArr hvv)

/-- a scalar value in value position -/
theorem step_scalar {buf : Array UInt8} {md t : Nat} {st : LoopSt} {g : Grp} {rest : List Grp}
    (hZ : Z buf md t st (g :: rest)) (v : Value) (rs : Bytes) (hsv : v.isContainer = false) (hwf : wfValue v = true)
    (hrem : st.p.rem = encode v ++ rs) (hp : g.arrs = [] → ∃ n, g.pend = some n) : StepOk buf md t st := by
  have hT := hZ.top
  have hD := hZ.deep
  have hctx : ValCtx (st.p.getLvl st.p.lvlIdx) := by rw [hT.idx]; exact valCtx_of hT.lv hT.ok hp
  obtain ⟨st', hit, hrem', hP⟩ := pass_scalar v hsv (sn := none) hD rs hrem hwf hctx
  refine StepOk.ofCont (gs' := addVal g v :: rest) hit ?_
  have hidx := hT.idx
  have hfl := hP.flags
  have had := hP.ad
  have hnm := hP.name
  rw [hidx] at hfl had hnm
  have hv : v.isArr = false := by cases v <;> first | rfl | cases hsv
  rw [hv] at hfl
  refine hZ.next hP.base.moved.shape hP.base.moved.err hP.base.moved.scan hP.base.moved.frame
    (by rw [hP.base.depth, hT.dep]; rfl) (by simp) (fun i hi => hP.base.zeros i (by rw [← hP.base.depth]; exact hi)) ?_
    (encode v) rs hrem hrem' ?_
  · refine hZ.mirror.replaceTop (fun i hi => hP.base.moved.lower i (by rw [hidx]; exact hi)) ?_ ?_ (addVal_virt g v)
    · refine LvOk_addVal buf _ g v (by rw [had]; exact hT.lv.ad) ?_ ?_ hp ?_
      · intro hne
        have := hT.lv.arrFlags hne
        rw [hfl]; unfold afterFlags
        rcases this with h | h <;> simp [h]
      · intro ha
        rcases hT.lv.objTop ha rfl with ⟨h1, _⟩ | ⟨_, h2⟩
        · obtain ⟨n, hn⟩ := hp ha; rw [h1] at hn; cases hn
        · rw [hfl]; unfold afterFlags; simp [h2]
      · intro hvf; rw [hnm]; exact hT.lv.name hvf
    · exact GrpOk_addVal _ g v hT.ok hp hwf (fits_scalar _ _ v hsv)
  · show encGs rest ++ encGrp (addVal g v) = encGs rest ++ encGrp g ++ encode v
    rw [encGrp_addVal g v (fun ha => ⟨virt_false_of hT.ok ha, hp ha⟩), List.append_assoc]

/-- a string where a field name is expected -/
theorem step_name {buf : Array UInt8} {md t : Nat} {st : LoopSt} {g : Grp} {rest : List Grp}
    (hZ : Z buf md t st (g :: rest)) (s rs : Bytes) (hs : s.length ≤ INT32_MAX)
    (hrem : st.p.rem = encStr 0x14 s ++ rs) (ha : g.arrs = []) (hpn : g.pend = none) : StepOk buf md t st := by
  have hT := hZ.top
  have hD := hZ.deep
  have hsh := hZ.shape
  obtain ⟨c1, c2, _⟩ := classify_str hsh hZ.err st.bc rs s hs hrem
  rcases hT.lv.cases hT.ok with ⟨h1, _⟩ | ⟨_, ⟨n, hn⟩, _⟩ | ⟨_, _, hfl, had, hvf⟩
  · exact absurd ha h1
  · rw [hpn] at hn; cases hn
  have hfit := rem_fit hsh hrem
  rw [encStr_length] at hfit
  have hname := hT.lv.name hvf
  have hlast : lastName g = topName g.fs := by unfold lastName; rw [hpn]
  rw [hlast] at hname
  have hsl : sliceB buf ⟨st.p.used + 1 + intWidth s.length, s.length⟩ = s := by
    rw [← hZ.hbuf]; exact c2 st.p rfl
  have hslp : ∀ sp, st.p.slice sp = sliceB buf sp := fun sp => by rw [slice_eq_sliceB, hZ.hbuf]
  have hflx : (st.p.getLvl st.p.lvlIdx).flags = .expField := by rw [hT.idx]; exact hfl
  by_cases hord : nameAfter (topName g.fs) s = true
  · obtain ⟨st', hit, s1, e1, sc1, u1, d1, f1, g1, _⟩ := iter_fieldName' (sn := none) hD
      ⟨st.p.used + 1 + intWidth s.length, s.length⟩ (1 + intWidth s.length + s.length) _ (by simp only [Nat.add_assoc]) c1 hfit
      (by simp only; omega) hflx (by
        intro pn hpn'
        rw [hT.idx] at hpn'
        rw [hpn'] at hname
        simp only [Option.map_some] at hname
        rw [← hname] at hord
        rw [hslp, hslp, hsl]
        exact cmpBytes_neg_of_lt _ _ hord)
    refine StepOk.ofCont (gs' := { g with pend := some s } :: rest) hit ?_
    have hlv' : st'.p.getLvl rest.length = nameLevel (st.p.getLvl rest.length) ⟨st.p.used + 1 + intWidth s.length, s.length⟩ := by
      rw [g1, hT.idx]; simp
    refine hZ.next s1 e1 sc1 f1 (by rw [d1, hT.dep]; rfl) (by simp)
      (fun i hi => by
        rw [g1]
        have : i ≠ st.p.lvlIdx := by rw [hT.idx]; rw [d1, hT.dep] at hi; omega
        simp only [this, if_false]; exact hZ.zeros i (by rw [← d1]; exact hi)) ?_
      (encStr 0x14 s) rs hrem (rem_of_frame f1.2.1 u1 hsh hrem (encStr_length _ _)) ?_
    · refine hZ.mirror.replaceTop (fun i hi => by
        rw [g1]
        have : i ≠ st.p.lvlIdx := by rw [hT.idx]; omega
        simp [this]) ?_ (GrpOk_name _ g s hT.ok ha hord hs) rfl
      rw [hlv']
      refine ⟨hT.lv.ad, fun hne => absurd ha hne, fun _ _ => Or.inr ⟨⟨s, rfl⟩, rfl⟩, fun _ h => (by cases h), fun _ => ?_⟩
      show Option.map (sliceB buf) (some _) = some s
      rw [Option.map_some, hsl]
    · show encGs rest ++ encGrp { g with pend := some s } = encGs rest ++ encGrp g ++ encStr 0x14 s
      rw [encGrp_name g s hvf ha hpn, List.append_assoc]
  · -- the name is not greater than the previous one
    cases hm : topName g.fs with
    | none => rw [hm] at hord; exact absurd rfl hord
    | some m =>
      rw [hm] at hord hname
      cases hnm : (st.p.getLvl rest.length).name with
      | none => rw [hnm] at hname; cases hname
      | some pn =>
        rw [hnm] at hname
        simp only [Option.map_some, Option.some.injEq] at hname
        refine StepOk.ofErr hsh hZ.err ?_
        refine iter_err_nameOrder hD ⟨st.p.used + 1 + intWidth s.length, s.length⟩ (1 + intWidth s.length + s.length) _
          (by simp only [Nat.add_assoc]) c1 hfit (by simp only; omega) hflx pn (by rw [hT.idx]; exact hnm) ?_
        intro hlt
        rw [hslp, hslp, hsl, hname] at hlt
        exact hord (bytesLt_of_cmpBytes_neg _ _ hlt)

theorem lvlIdx_setLvl (p : Parser) (i : Nat) (l : Level) : (p.setLvl i l).lvlIdx = p.lvlIdx := by
  unfold Parser.lvlIdx Parser.setLvl; split <;> rfl

theorem flags_setCtype {p : Parser} (hli : p.lvlIdx < p.levels.size) (ty : Ty) :
    ((p.setLvl p.lvlIdx { p.getLvl p.lvlIdx with ctype := ty }).getLvl
      (p.setLvl p.lvlIdx { p.getLvl p.lvlIdx with ctype := ty }).lvlIdx).flags = (p.getLvl p.lvlIdx).flags := by
  rw [lvlIdx_setLvl, getLvl_setLvl _ hli]; simp

theorem lastName_arrs (g : Grp) (as : List (List Value)) : lastName { g with arrs := as } = lastName g := rfl

/-- `[` -/
theorem step_arrBegin {buf : Array UInt8} {md t : Nat} {st : LoopSt} {g : Grp} {rest : List Grp}
    (hZ : Z buf md t st (g :: rest)) (rs : Bytes) (hrem : st.p.rem = 0x42 :: rs) : StepOk buf md t st := by
  have hT := hZ.top
  have hD := hZ.deep
  have hsh := hZ.shape
  have hcl := classify_arrBegin hsh hZ.err st.bc rs hrem
  have hlt := (rem_cons hsh hrem).2.1
  by_cases hp : g.arrs = [] → ∃ n, g.pend = some n
  · have hctx : ValCtx (st.p.getLvl st.p.lvlIdx) := by rw [hT.idx]; exact valCtx_of hT.lv hT.ok hp
    by_cases had : (st.p.getLvl st.p.lvlIdx).ad < 255
    · obtain ⟨st', hit, s1, e1, sc1, u1, d1, f1, g1, _⟩ := iter_arrBegin' (sn := none) hD hcl hlt hctx had
      refine StepOk.ofCont (gs' := { g with arrs := [] :: g.arrs } :: rest) hit ?_
      have hlv' : st'.p.getLvl rest.length = arrInnerLevel (st.p.getLvl rest.length) := by
        rw [g1, hT.idx]; simp
      refine hZ.next s1 e1 sc1 f1 (by rw [d1, hT.dep]; rfl) (by simp)
        (fun i hi => by
          rw [g1]
          have : i ≠ st.p.lvlIdx := by rw [hT.idx]; rw [d1, hT.dep] at hi; omega
          simp only [this, if_false]; exact hZ.zeros i (by rw [← d1]; exact hi)) ?_
        [0x42] rs (by simpa using hrem) (rem_step hsh hrem f1 u1) ?_
      · refine hZ.mirror.replaceTop (fun i hi => by
          rw [g1]
          have : i ≠ st.p.lvlIdx := by rw [hT.idx]; omega
          simp [this]) ?_ ?_ rfl
        · rw [hlv']
          refine ⟨?_, fun _ => Or.inl rfl, fun h => (by simp at h), fun h => (by simp at h), fun hvf => hT.lv.name hvf⟩
          show (st.p.getLvl rest.length).ad + 1 = (g.arrs.length + 1)
          rw [hT.lv.ad]
        · refine GrpOk_openArr _ g hT.ok (by rw [← hT.lv.ad, ← hT.idx]; exact had) ?_
          intro hvf
          by_cases hne : g.arrs = []
          · exact hp hne
          · exact hT.ok.arrPend hvf hne
      · show encGs rest ++ encGrp { g with arrs := [] :: g.arrs } = encGs rest ++ encGrp g ++ [0x42]
        rw [encGrp_openArr, List.append_assoc]
    · exact StepOk.ofErr hsh hZ.err (iter_err_arrBegin_depth hD hcl hlt hctx had)
  · -- a field name is expected
    refine StepOk.ofErr hsh hZ.err (iter_err_objBlock ?_ ?_ ?_ ?_)
    all_goals rw [hcl]
    · exact fun h => nomatch h
    · rcases hT.lv.cases hT.ok with ⟨h1, _⟩ | ⟨h1, h2, _⟩ | ⟨_, _, hfl, _⟩
      · exact absurd (fun h => absurd h h1) hp
      · exact absurd (fun _ => h2) hp
      · show ((st.p.setLvl st.p.lvlIdx _).getLvl (st.p.setLvl st.p.lvlIdx _).lvlIdx).flags = _
        rw [flags_setCtype hsh.lvlIdx_lt, hT.idx]; exact hfl
    · rfl
    · exact fun h => nomatch h

/-- `{` -/
theorem step_objBegin {buf : Array UInt8} {md t : Nat} {st : LoopSt} {g : Grp} {rest : List Grp}
    (hZ : Z buf md t st (g :: rest)) (rs : Bytes) (hrem : st.p.rem = 0x40 :: rs) : StepOk buf md t st := by
  have hT := hZ.top
  have hD := hZ.deep
  have hsh := hZ.shape
  have hcl := classify_objBegin hsh hZ.err st.bc rs hrem
  have hlt := (rem_cons hsh hrem).2.1
  by_cases hp : g.arrs = [] → ∃ n, g.pend = some n
  · have hctx : ValCtx (st.p.getLvl st.p.lvlIdx) := by rw [hT.idx]; exact valCtx_of hT.lv hT.ok hp
    by_cases hdm : st.p.depth < st.p.maxDepth
    · obtain ⟨st', hit, s1, e1, sc1, u1, d1, f1, g1, _⟩ := iter_objBegin (sn := none) hD hcl hlt hctx hdm
      refine StepOk.ofCont (gs' := newGrp :: g :: rest) hit ?_
      have hdep : st.p.depth = rest.length + 1 := hT.dep
      have hlvN : st'.p.getLvl (rest.length + 1) = freshObjLevel := by rw [g1, hdep]; simp
      have hlvO : st'.p.getLvl rest.length = objOuterLevel (st.p.getLvl rest.length) := by
        rw [g1, hdep, hT.idx]; simp
      refine hZ.next s1 e1 sc1 f1 (by rw [d1, hdep]; rfl) (by simp)
        (fun i hi => by
          rw [g1]
          rw [d1] at hi
          have h1 : i ≠ st.p.depth := by omega
          have h2 : i ≠ st.p.lvlIdx := by rw [hT.idx]; omega
          simp only [h1, h2, if_false]; exact hZ.zeros i (by omega)) ?_
        [0x40] rs (by simpa using hrem) (rem_step hsh hrem f1 u1) ?_
      · refine ⟨?_, GrpOk_new _, ⟨fun h => (by cases h), fun h => (by cases h.1)⟩, ?_⟩
        · show LvOk buf (st'.p.getLvl (rest.length + 1)) newGrp true
          rw [hlvN]
          exact ⟨rfl, fun h => absurd rfl h, fun _ _ => Or.inl ⟨rfl, rfl⟩, fun _ h => (by cases h), fun _ => rfl⟩
        · refine hZ.mirror.replaceTop (fun i hi => by
            rw [g1]
            have h1 : i ≠ st.p.depth := by omega
            have h2 : i ≠ st.p.lvlIdx := by rw [hT.idx]; omega
            simp [h1, h2]) ?_ hT.ok rfl
          rw [hlvO]
          refine ⟨hT.lv.ad, ?_, fun _ h => (by cases h), ?_, fun hvf => hT.lv.name hvf⟩
          · intro hne
            have := hT.lv.arrFlags hne
            unfold objOuterLevel
            rcases this with h | h <;> simp [h]
          · intro ha _
            rcases hT.lv.objTop ha rfl with ⟨h1, _⟩ | ⟨h1, h2⟩
            · obtain ⟨n, hn⟩ := hp ha; rw [h1] at hn; cases hn
            · exact ⟨h1, by unfold objOuterLevel; simp [h2]⟩
      · show encGs rest ++ encGrp g ++ encGrp newGrp = encGs rest ++ encGrp g ++ [0x40]
        rw [encGrp_new]
    · exact StepOk.ofErr hsh hZ.err (iter_err_objBegin_depth hD hcl hlt hctx hdm)
  · refine StepOk.ofErr hsh hZ.err (iter_err_objBlock ?_ ?_ ?_ ?_)
    all_goals rw [hcl]
    · exact fun h => nomatch h
    · rcases hT.lv.cases hT.ok with ⟨h1, _⟩ | ⟨h1, h2, _⟩ | ⟨_, _, hfl, _⟩
      · exact absurd (fun h => absurd h h1) hp
      · exact absurd (fun _ => h2) hp
      · show ((st.p.setLvl st.p.lvlIdx _).getLvl (st.p.setLvl st.p.lvlIdx _).lvlIdx).flags = _
        rw [flags_setCtype hsh.lvlIdx_lt, hT.idx]; exact hfl
    · rfl
    · exact fun h => nomatch h

/-- `]` -/
theorem step_arrEnd {buf : Array UInt8} {md t : Nat} {st : LoopSt} {g : Grp} {rest : List Grp}
    (hZ : Z buf md t st (g :: rest)) (rs : Bytes) (hrem : st.p.rem = 0x43 :: rs) : StepOk buf md t st := by
  have hT := hZ.top
  have hD := hZ.deep
  have hsh := hZ.shape
  have hcl := classify_arrEnd hsh hZ.err st.bc rs hrem
  have hlt := (rem_cons hsh hrem).2.1
  have hnotarr : (st.p.getLvl rest.length).flags = .expValue ∨ (st.p.getLvl rest.length).flags = .expField → StepOk buf md t st := by
    intro h
    refine StepOk.ofErr hsh hZ.err (iter_err_arrEnd hD hcl ?_)
    rw [hT.idx]
    rcases h with h | h <;> rw [h] <;> rfl
  rcases hT.lv.cases hT.ok with ⟨hne, hfl, _⟩ | ⟨_, _, hfl, _⟩ | ⟨_, _, hfl, _⟩
  · obtain ⟨a, as, hga⟩ : ∃ a as, g.arrs = a :: as := by
      cases hx : g.arrs with
      | nil => exact absurd hx hne
      | cons a as => exact ⟨a, as, rfl⟩
    have hadL : (st.p.getLvl rest.length).ad = as.length + 1 := by rw [hT.lv.ad, hga]; rfl
    have harrs := hT.ok.arrs
    rw [hga] at harrs
    obtain ⟨hw, hf, _⟩ := closeArr_ok _ a as harrs
    by_cases hroot : as = [] ∧ t = 2 ∧ rest = []
    · obtain ⟨rfl, rfl, rfl⟩ := hroot
      obtain ⟨st', hit, _, e3, _⟩ := iter_root_arrEnd (sn := none) (oa := 0) (od := 2 - 1) hsh hZ.err hZ.scan hT.dep hZ.hpt hfl hadL
        (by decide) rs hrem
      right
      rw [hit]
      refine ⟨fun h => (by cases h), fun he => ?_⟩
      simp only at he
      rw [e3] at he
      have hrs : rs = [] := by
        by_cases h : rs = []
        · exact h
        · rw [if_neg h] at he; cases he
      have hv : g.virt = true := hT.virt.mpr ⟨rfl, rfl⟩
      refine ⟨.arr (toElems a .nil), hw, ?_, Or.inr ⟨rfl, ⟨_, rfl⟩, hf⟩⟩
      have hb := hZ.bytes
      rw [hrem, hrs] at hb
      rw [hb]
      show _ = [] ++ encGrp g ++ [0x43]
      rw [List.nil_append, encGrp_closeArr g a [] hga]
      simp [encGrp, encArrs, hv]
    · have hnr : ¬ ((st.p.getLvl st.p.lvlIdx).ad = 1 ∧ st.p.ptype = 2 ∧ st.p.depth = 1) := by
        rintro ⟨h1, h2, h3⟩
        rw [hT.idx, hadL] at h1
        rw [hT.dep] at h3
        apply hroot
        refine ⟨List.eq_nil_of_length_eq_zero (by omega), by rw [← hZ.hpt]; exact h2, List.eq_nil_of_length_eq_zero (by omega)⟩
      obtain ⟨st', hit, s1, e1, sc1, u1, d1, f1, g1, _⟩ := iter_arrEnd (sn := none) hD hcl hlt (by rw [hT.idx]; exact hfl)
        (by rw [hT.idx, hadL]; omega) hnr
      have hvirt : as = [] → g.virt = false := by
        intro h0
        cases hvv : g.virt with
        | false => rfl
        | true =>
          have := hT.virt.mp hvv
          exact absurd ⟨h0, this.2, this.1⟩ hroot
      have hp0 : ({ g with arrs := as } : Grp).arrs = [] → ∃ n, ({ g with arrs := as } : Grp).pend = some n := by
        intro h0
        exact hT.ok.arrPend (hvirt h0) hne
      refine StepOk.ofCont (gs' := addVal { g with arrs := as } (.arr (toElems a .nil)) :: rest) hit ?_
      have hlv' : st'.p.getLvl rest.length = arrEndLevel (st.p.getLvl rest.length) := by
        rw [g1, hT.idx]; simp
      refine hZ.next s1 e1 sc1 f1 (by rw [d1, hT.dep]; rfl) (by simp)
        (fun i hi => by
          rw [g1]
          have : i ≠ st.p.lvlIdx := by rw [hT.idx]; rw [d1, hT.dep] at hi; omega
          simp only [this, if_false]; exact hZ.zeros i (by rw [← d1]; exact hi)) ?_
        [0x43] rs (by simpa using hrem) (rem_step hsh hrem f1 u1) ?_
      · refine hZ.mirror.replaceTop (fun i hi => by
          rw [g1]
          have : i ≠ st.p.lvlIdx := by rw [hT.idx]; omega
          simp [this]) ?_ ?_ (addVal_virt _ _)
        · rw [hlv']
          refine LvOk_addVal buf _ { g with arrs := as } _ ?_ ?_ ?_ hp0 (fun hvf => hT.lv.name hvf)
          · show (st.p.getLvl rest.length).ad - 1 = as.length
            rw [hadL]; rfl
          · intro h0
            have : as.length ≠ 0 := fun h => h0 (List.eq_nil_of_length_eq_zero h)
            unfold arrEndLevel
            rw [hadL]
            simp [this]
          · intro h0
            have h0' : as = [] := h0
            unfold arrEndLevel
            rw [hadL, h0']
            simp
        · refine GrpOk_addVal _ _ _ (GrpOk_dropArr _ g a as hT.ok hga ?_) hp0 hw hf
          intro hvt h0
          rw [hvirt h0] at hvt; cases hvt
      · show encGs rest ++ encGrp (addVal { g with arrs := as } (.arr (toElems a .nil))) = encGs rest ++ encGrp g ++ [0x43]
        rw [encGrp_addVal { g with arrs := as } _ (fun h0 => ⟨hvirt h0, hp0 h0⟩), List.append_assoc, encGrp_closeArr g a as hga]
  · exact hnotarr (Or.inl hfl)
  · exact hnotarr (Or.inr hfl)

/-- `}` -/
theorem step_objEnd {buf : Array UInt8} {md t : Nat} {st : LoopSt} {g : Grp} {rest : List Grp}
    (hZ : Z buf md t st (g :: rest)) (rs : Bytes) (hrem : st.p.rem = 0x41 :: rs) : StepOk buf md t st := by
  have hT := hZ.top
  have hD := hZ.deep
  have hsh := hZ.shape
  have hcl := classify_objEnd hsh hZ.err st.bc rs hrem
  have hlt := (rem_cons hsh hrem).2.1
  have hnotf : (st.p.getLvl rest.length).flags ≠ .expField → StepOk buf md t st := by
    intro h
    refine StepOk.ofErr hsh hZ.err (iter_err_objEnd hD hcl ?_)
    rw [hT.idx]; exact h
  rcases hT.lv.cases hT.ok with ⟨_, hfl, _⟩ | ⟨_, _, hfl, _⟩ | ⟨ha, hpn, hfl, _, hvf⟩
  · exact hnotf (by rcases hfl with h | h <;> rw [h] <;> exact fun h => nomatch h)
  · exact hnotf (by rw [hfl]; exact fun h => nomatch h)
  · cases rest with
    | nil =>
      have ht : t = 1 := by
        rcases hZ.t12 with h | h
        · exact h
        · have := hT.virt.mpr ⟨rfl, h⟩
          rw [hvf] at this; cases this
      subst ht
      obtain ⟨st', hit, _, e3, _⟩ := iter_root_objEnd (sn := none) (oa := 0) (od := 1 - 1) hsh hZ.err hZ.scan hT.dep hfl
        (by decide) rs hrem
      right
      rw [hit]
      refine ⟨fun h => (by cases h), fun he => ?_⟩
      simp only at he
      rw [e3] at he
      have hrs : rs = [] := by
        by_cases h : rs = []
        · exact h
        · rw [if_neg h] at he; cases he
      obtain ⟨hw, hf⟩ := closeObj_ok (md - 1) 255 g hT.ok
      have hroom : 1 ≤ md := hT.room
      rw [show md - 1 + 1 = md by omega] at hf
      refine ⟨.obj (toFields g.fs .nil), hw, ?_, Or.inl ⟨rfl, ⟨_, rfl⟩, hf⟩⟩
      have hb := hZ.bytes
      rw [hrem, hrs] at hb
      rw [hb]
      show _ = [] ++ encGrp g ++ [0x41]
      rw [List.nil_append, encGrp_closeObj g hvf ha hpn]
    | cons g2 r2 =>
      have hdep : st.p.depth = r2.length + 2 := hT.dep
      have hod : t - 1 < st.p.depth := by
        rw [hdep]; rcases hZ.t12 with h | h <;> rw [h] <;> omega
      obtain ⟨st', hit, s1, e1, sc1, u1, d1, f1, g1, _⟩ := iter_objEnd (sn := none) hD hcl hlt (by rw [hT.idx]; exact hfl)
        (by rw [hdep]; omega) hod
      obtain ⟨l2, ok2, v2, low2⟩ := hT.low
      have hp2 : g2.arrs = [] → ∃ n, g2.pend = some n := fun h => (l2.objLow h rfl).1
      have hok : GrpOk (md - (r2.length + 2)) g := hT.ok
      have hroom : r2.length + 2 ≤ md := hT.room
      obtain ⟨hw, hf⟩ := closeObj_ok (md - (r2.length + 2)) (255 - g2.arrs.length) g hok
      rw [show md - (r2.length + 2) + 1 = md - (r2.length + 1) by omega] at hf
      refine StepOk.ofCont (gs' := addVal g2 (.obj (toFields g.fs .nil)) :: r2) hit ?_
      have hlv' : st'.p.getLvl r2.length = st.p.getLvl r2.length := by
        rw [g1, hdep, if_neg (by omega)]
      refine hZ.next s1 e1 sc1 f1 (by rw [d1, hdep]; simp) (by simp)
        (fun i hi => by
          rw [g1]
          split
          · rfl
          · exact hZ.zeros i (by rw [d1] at hi; omega)) ?_
        [0x41] rs (by simpa using hrem) (rem_step hsh hrem f1 u1) ?_
      · refine ⟨?_, GrpOk_addVal _ g2 _ ok2 hp2 hw hf, by rw [addVal_virt]; exact v2, Mirror.congr (fun i hi => by
          rw [g1, hdep, if_neg (by omega)]) low2⟩
        rw [hlv']
        exact LvOk_addVal buf _ g2 _ l2.ad l2.arrFlags (fun h => (l2.objLow h rfl).2) hp2 l2.name
      · show encGs r2 ++ encGrp (addVal g2 (.obj (toFields g.fs .nil))) = encGs r2 ++ encGrp g2 ++ encGrp g ++ [0x41]
        have hv2 : g2.arrs = [] → g2.virt = false := fun h => virt_false_of ok2 h
        rw [encGrp_addVal g2 _ (fun h0 => ⟨hv2 h0, hp2 h0⟩), ← encGrp_closeObj g hvf ha hpn]
        simp only [List.append_assoc]

/-- a scalar value token other than a string where a field name is expected -/
theorem step_field_scalar {buf : Array UInt8} {md t : Nat} {st : LoopSt} {g : Grp} {rest : List Grp}
    (hZ : Z buf md t st (g :: rest)) (hnp : ¬ (g.arrs = [] → ∃ n, g.pend = some n))
    (tok : Tok) (span : Span) (bc u : Nat) (hcl : classify st.p st.bc = ⟨tok, span, bc, { st.p with used := u }⟩)
    (hv : tok.isValue = true) (hns : tok ≠ .string) : StepOk buf md t st := by
  have hT := hZ.top
  refine StepOk.ofErr hZ.shape hZ.err (iter_err_objBlock ?_ ?_ ?_ ?_)
  all_goals rw [hcl]
  · intro h
    have h' : tok = .error := h
    rw [h'] at hv; cases hv
  · rcases hT.lv.cases hT.ok with ⟨h1, _⟩ | ⟨h1, h2, _⟩ | ⟨_, _, hfl, _⟩
    · exact absurd (fun h => absurd h h1) hnp
    · exact absurd (fun _ => h2) hnp
    · show (st.p.getLvl st.p.lvlIdx).flags = _
      rw [hT.idx]; exact hfl
  · exact hv
  · exact hns

/-- one iteration of the VERIFY loop from a state satisfying the invariant -/
theorem zstep {buf : Array UInt8} {md t : Nat} {st : LoopSt} {gs : List Grp} (hZ : Z buf md t st gs) : StepOk buf md t st := by
  obtain ⟨g, rest, rfl⟩ : ∃ g rest, gs = g :: rest := by
    cases gs with
    | nil => exact absurd rfl hZ.ne
    | cons g rest => exact ⟨g, rest, rfl⟩
  have hT := hZ.top
  have hsh := hZ.shape
  have he := hZ.err
  cases lex_cases hsh he st.bc with
  | err h => exact StepOk.ofErr hsh he (iter_err_classify hsh he h)
  | objBegin rs h => exact step_objBegin hZ rs h
  | objEnd rs h => exact step_objEnd hZ rs h
  | arrBegin rs h => exact step_arrBegin hZ rs h
  | arrEnd rs h => exact step_arrEnd hZ rs h
  | badInt w hfit hcl hbad =>
    by_cases hp : g.arrs = [] → ∃ n, g.pend = some n
    · have hctx : ValCtx (st.p.getLvl st.p.lvlIdx) := by rw [hT.idx]; exact valCtx_of hT.lv hT.ok hp
      exact StepOk.ofErr hsh he (iter_err_badInt hZ.deep w hfit hcl hbad hctx)
    · exact step_field_scalar hZ hp _ _ _ _ hcl rfl (fun h => nomatch h)
  | scalar v rs hsv hwf hrem =>
    by_cases hp : g.arrs = [] → ∃ n, g.pend = some n
    · exact step_scalar hZ v rs hsv hwf hrem hp
    · cases v with
      | arr xs => cases hsv
      | obj fs => cases hsv
      | str s =>
        have hs : s.length ≤ INT32_MAX := by simpa [wfValue] using hwf
        have hrem' : st.p.rem = encStr 0x14 s ++ rs := by simpa [encode] using hrem
        rcases hT.lv.cases hT.ok with ⟨h1, _⟩ | ⟨h1, h2, _⟩ | ⟨ha, hpn, _⟩
        · exact absurd (fun h => absurd h h1) hp
        · exact absurd (fun _ => h2) hp
        · exact step_name hZ s rs hs hrem' ha hpn
      | bool b =>
        have hrem' : st.p.rem = (if b then 0x44 else 0x45) :: rs := by simpa [encode] using hrem
        obtain ⟨c1, _, _⟩ := classify_bool hsh he st.bc rs b hrem'
        exact step_field_scalar hZ hp _ _ _ _ c1 rfl (fun h => nomatch h)
      | int i =>
        have hi : int64Min ≤ i ∧ i ≤ int64Max := by simpa [wfValue] using hwf
        have hrem' : st.p.rem = encInt 0x10 i ++ rs := by simpa [encode] using hrem
        obtain ⟨c1, _, _, _⟩ := classify_int hsh he st.bc rs i hi hrem'
        exact step_field_scalar hZ hp _ _ _ _ c1 rfl (fun h => nomatch h)
      | dbl bits =>
        have hrem' : st.p.rem = 0x46 :: (leBytes 8 bits.toNat ++ rs) := by simpa [encode] using hrem
        obtain ⟨c1, _, _⟩ := classify_dbl hsh he st.bc rs bits hrem'
        exact step_field_scalar hZ hp _ _ _ _ c1 rfl (fun h => nomatch h)
      | bytes s =>
        have hs : s.length ≤ INT32_MAX := by simpa [wfValue] using hwf
        have hrem' : st.p.rem = encStr 0x18 s ++ rs := by simpa [encode] using hrem
        obtain ⟨c1, _, _⟩ := classify_bytes hsh he st.bc rs s hs hrem'
        exact step_field_scalar hZ hp _ _ _ _ c1 rfl (fun h => nomatch h)

end Binson
