/-
  C09 — errors latch: one check at the end is enough.
  Parser: with an error pending, every call other than init/reset/verify changes nothing at
  all and answers neutrally. Writer: after the first failing write every later write returns
  false, stores nothing, the counter keeps counting, the error stays.
  (to_string/print call verify and therefore also reset the parser; stated in DESIGN.md.)
-/
import Binson.Lemmas.Latch
import Binson.Lemmas.WriterXLemmas
import Binson.Lemmas.WriterLemmas
import Binson.Model.Transcribe
namespace Binson

/-! ### parser -/

/-- with an error pending, any advancing call or getter leaves the parser exactly as it was
    (so the error code stays) and returns its neutral result: false / NONE / 0 / NULL -/
theorem parser_latch (p : Parser) (h : Shape p) (he : p.err ≠ .none) (op : Op) (hr : op.Resetting = false) :
    (step p op).1 = p ∧ (step p op).2 = neutralRet p op := by
  rw [pstep_latched p h he op hr]; exact ⟨rfl, rfl⟩

/-- the neutral results, spelled out: advancing calls false, type NONE, integer 0, double +0.0, spans NULL -/
theorem neutral_results (p : Parser) :
    neutralRet p .next = .bool false ∧ neutralRet p .goIntoObject = .bool false ∧ neutralRet p .leaveArray = .bool false ∧
    neutralRet p .getType = .ty .none ∧ neutralRet p .getInteger = .int 0 ∧ neutralRet p .getBoolean = .bool false ∧
    neutralRet p .getDouble = .nat 0 ∧ neutralRet p .getName = .span none ∧ neutralRet p .getStringBbuf = .span none ∧
    neutralRet p .getBytesBbuf = .span none ∧ neutralRet p .getRaw = .raw false ⟨0, 0⟩ ∧
    (∀ nm, neutralRet p (.field nm) = .bool false) ∧ (∀ s, neutralRet p (.stringEquals s) = .bool false) :=
  ⟨rfl, rfl, rfl, rfl, rfl, rfl, rfl, rfl, rfl, rfl, rfl, fun _ => rfl, fun _ => rfl⟩

/-- any sequence of such calls: the parser does not move and the error stays set -/
theorem parser_latch_run (p : Parser) (h : Shape p) (he : p.err ≠ .none) (ops : List Op)
    (hr : ∀ op ∈ ops, op.Resetting = false) : run p ops = p ∧ (run p ops).err ≠ .none := by
  rw [prun_latched ops p h he hr]; exact ⟨rfl, he⟩

/-- a single check after the last call detects a failure anywhere in the sequence: if some
    prefix of the calls (none of them init/reset/verify afterwards) ends with an error set, the
    error is still set at the end -/
theorem single_check_suffices (p : Parser) (h : Shape p) (pre post : List Op) (hv : ∀ op ∈ pre, op.Valid)
    (hr : ∀ op ∈ post, op.Resetting = false) (he : (run p pre).err ≠ .none) :
    (run p (pre ++ post)).err = (run p pre).err ∧ (run p (pre ++ post)).err ≠ .none := by
  have hs : Shape (run p pre) := run_shape pre p h hv
  have : run p (pre ++ post) = run (run p pre) post := by simp [run, List.foldl_append]
  rw [this, prun_latched post _ hs he hr]
  exact ⟨rfl, he⟩

/-- non-vacuity: a truncated document puts a shaped parser into the RANGE error state -/
example : let p := (next (goIntoObject (init (garbageParser 2) #[0x40, 0x14, 0x41] 1).1).1).1
    p.err = .range ∧ (step p .next).2 = .bool false ∧ (step p .getType).2 = .ty .none := by decide

/-! ### writer -/

/-- after the first failing write every later call (valid or not) returns false, stores nothing,
    keeps the error set, and the counter keeps counting (modulo 2^64, as `size_t`) -/
theorem writer_latch (w : Writer) (op : WOp) (h : w.err ≠ .none) :
    (w.step op).2 = false ∧ (w.step op).1.mem = w.mem ∧ (w.step op).1.err ≠ .none ∧
    (w.step op).1.fault = w.fault ∧
    (w.step op).1.used = (w.used + totalLen op.pieces) % two64 :=
  step_latched w op h

theorem writer_latch_run (w : Writer) (ops : List WOp) (h : w.err ≠ .none) :
    (w.run ops).err ≠ .none ∧ (w.run ops).mem = w.mem :=
  let ⟨a, b, _⟩ := run_latched ops w h; ⟨a, b⟩


/-- the same over the writer's FULL call vocabulary (`WOpX`: valid calls, a NULL name or data pointer, a raw write
    of SIZE_MAX bytes): once the flag is set - by overflow or by a NULL argument - every later call other than a
    reset returns false, stores nothing, and the flag stays set -/
theorem writer_latch_full (w : Writer) (op : WOpX) (h : w.err ≠ .none) (hr : op ≠ .reset) :
    (w.stepX op).2 = false ∧ (w.stepX op).1.mem = w.mem ∧ (w.stepX op).1.err ≠ .none ∧ (w.stepX op).1.fault = w.fault :=
  stepX_latched w op h hr

theorem writer_latch_full_run (ops : List WOpX) (w : Writer) (h : w.err ≠ .none) (hn : ∀ op ∈ ops, op ≠ .reset) :
    (w.runX ops).err ≠ .none ∧ (w.runX ops).mem = w.mem ∧ (w.runX ops).fault = w.fault :=
  runX_latched ops w h hn

/-- the calls outside `WOp` themselves: false, nothing stored, an error set -/
theorem writer_invalid_calls (w : Writer) (op : WOpX) (hv : ∀ o, op ≠ .op o) (hr : op ≠ .reset) :
    (w.stepX op).2 = false ∧ (w.stepX op).1.mem = w.mem ∧ (w.stepX op).1.err ≠ .none ∧ (w.stepX op).1.fault = w.fault ∧
    (w.stepX op).1.cap = w.cap :=
  stepX_invalid w op hv hr

/-- non-vacuity: a 1-byte buffer overflows on the second byte -/
example : ((Writer.init #[0] 1).1.run [.objBegin, .objEnd]).err = .range := by decide

end Binson
