/-
  Layer 4, final part: the navigation refinement. On the canonical encoding of every well-formed
  document, every protocol-following sequence of navigation calls makes the machine and the
  reference cursor agree on every observable (`nav_refines`).
-/
import Binson.Lemmas.NavRaw
namespace Binson

theorem start_allowed (root : Root) (v : Value) (op : COp) (ha : (Cursor.start root v).allowed op = true) :
    (op = .enterObj ∧ ∃ fs, v = .obj fs) ∨ (op = .enterArr ∧ ∃ xs, v = .arr xs) := by
  cases op with
  | next => simp [Cursor.start, Cursor.allowed] at ha
  | leaveObj => simp [Cursor.start, Cursor.allowed] at ha
  | leaveArr => simp [Cursor.start, Cursor.allowed] at ha
  | raw => simp [Cursor.start, Cursor.allowed] at ha
  | field nm => simp [Cursor.start, Cursor.allowed] at ha
  | enterObj =>
    left
    refine ⟨rfl, ?_⟩
    cases v with
    | obj fs => exact ⟨fs, rfl⟩
    | _ => simp [Cursor.start, Cursor.allowed, Cursor.pending, annotate, Node.item] at ha
  | enterArr =>
    right
    refine ⟨rfl, ?_⟩
    cases v with
    | arr xs => exact ⟨xs, rfl⟩
    | _ => simp [Cursor.start, Cursor.allowed, Cursor.pending, annotate, Node.item] at ha

/-- entering the root object right after init -/
theorem start_enterObj {p : Parser} (fs : Fields) (hF : Fresh p (encode (.obj fs)).toArray 1 p.maxDepth) (hmd : p.maxDepth ≤ 255)
    (hwf : wfDoc .object p.maxDepth (.obj fs) = true) :
    Obs p (Cursor.start .object (.obj fs)) .enterObj ∧
    Agree (machNav p .enterObj).1 ((Cursor.start .object (.obj fs)).step .enterObj).1 := by
  have hm : machNav p .enterObj = ((advance p .enterObj none).p, (advance p .enterObj none).ret, none) := rfl
  have hsh := hF.shape
  have hd0 : p.depth = 0 := hF.depth
  unfold wfDoc at hwf
  simp only [Bool.and_eq_true] at hwf
  obtain ⟨⟨hw1, _⟩, hfit⟩ := hwf
  have hfit' : 1 ≤ p.maxDepth ∧ fitsF (p.maxDepth - 1) fs = true := by simpa [fits] using hfit
  have hrem : p.rem = 0x40 :: (encFields fs ++ [0x41]) := by
    unfold Parser.rem; rw [hF.used, hF.buf, List.drop_zero]; simp [encode]
  have hsize : p.size = (encFields fs).length + 2 := by
    rw [← hsh.hbs, hF.buf]; simp [encode]
  obtain ⟨st', i1, r1⟩ := iter_root_objBegin_enter (st := ⟨p, some .enterObj, 0, []⟩) (sn := none)
    (oa := (p.getLvl p.cur).ad) (od := p.depth) hsh hF.err rfl hd0 hF.zeros hmd _ hrem
  simp only at r1
  obtain ⟨e1, e2⟩ := advance_of_halts hsh hF.err .enterObj none (Halts.stop i1 r1.err)
  have hr1 : st'.p.rem = encFields fs ++ [0x41] := rem_step hsh hrem r1.frame r1.used
  have hmd' : st'.p.maxDepth = p.maxDepth := r1.frame.2.2.1
  have hc : (Cursor.start .object (.obj fs)).step .enterObj =
      (mkCur false p.size (flat [⟨none, some fs, []⟩]) none, ⟨true, none, none⟩) := by
    have : p.size - ((encFields fs).length + 1) = 1 := by omega
    simp [Cursor.start, Cursor.step, Cursor.pending, mkCur, flat, RLevel.frames, cframes, tailBytes, RFrame.enc, RFrame.nodes,
      RFrame.isObj, annotate, Node.item, Node.children, this]
  have hrun : Run st'.p (mkCur false p.size (flat [⟨none, some fs, []⟩]) none) ⟨none, some fs, []⟩ [] none := by
    refine ⟨r1.shape, r1.err, by rw [hmd']; exact hmd, r1.depth, ?_, ?_, ⟨by simp [mkCur], by simp⟩, ⟨?_, ?_, ?_, trivial⟩, trivial,
      by rw [r1.frame.1]; rfl, rfl, rfl, ⟨?_, ?_, Or.inl rfl⟩⟩
    · intro i hi; rw [r1.depth] at hi; rw [r1.lvl]
      have : i ≠ 0 := by omega
      simp [this]
    · show false = true ↔ st'.p.ptype = 2
      rw [r1.frame.2.2.2.1, hF.ptype]; simp
    · show (st'.p.getLvl 0).ad = 0; rw [r1.lvl]; rfl
    · show (st'.p.getLvl 0).name.map st'.p.slice = none; rw [r1.lvl]; rfl
    · intro fs' hfs
      injection hfs with hfs
      subst hfs
      exact ⟨by simpa [wfValue] using hw1, by rw [hmd']; exact hfit'.2⟩
    · rw [hr1]; simp [flat, RLevel.frames, tailBytes, RFrame.enc, RFrame.endB]
    · show (st'.p.getLvl 0).flags = _; rw [r1.lvl]; rfl
  rw [← e1] at hrun
  exact obs_agree (c := Cursor.start .object (.obj fs)) hm hc e2 rfl (fun it hi => by cases hi) hrun

/-- entering the root array right after init -/
theorem start_enterArr {p : Parser} (xs : Elems) (hF : Fresh p (encode (.arr xs)).toArray 2 p.maxDepth) (hmd : p.maxDepth ≤ 255)
    (hwf : wfDoc .array p.maxDepth (.arr xs) = true) :
    Obs p (Cursor.start .array (.arr xs)) .enterArr ∧
    Agree (machNav p .enterArr).1 ((Cursor.start .array (.arr xs)).step .enterArr).1 := by
  have hm : machNav p .enterArr = ((advance p .enterArr none).p, (advance p .enterArr none).ret, none) := rfl
  have hsh := hF.shape
  have hd1 : p.depth = 1 := hF.depth
  have hli : p.lvlIdx = 0 := by unfold Parser.lvlIdx; rw [hd1]; rfl
  unfold wfDoc at hwf
  simp only [Bool.and_eq_true] at hwf
  obtain ⟨⟨hw1, _⟩, hfit⟩ := hwf
  have hfit' : fitsE (p.maxDepth - 1) 254 xs = true := by simpa [fits] using hfit
  have hrem : p.rem = 0x42 :: (encElems xs ++ [0x43]) := by
    unfold Parser.rem; rw [hF.used, hF.buf, List.drop_zero]; simp [encode]
  have hsize : p.size = (encElems xs).length + 2 := by
    rw [← hsh.hbs, hF.buf]; simp [encode]
  have hcl := classify_arrBegin hsh hF.err 0 _ hrem
  have hlt := (rem_cons hsh hrem).2.1
  have hz : p.getLvl p.lvlIdx = Level.zero := hF.zeros _
  obtain ⟨st', i1, r1⟩ := iter_arrBegin_enter (st := ⟨p, some .enterArr, 0, []⟩) (sn := none)
    (oa := (p.getLvl p.cur).ad) (od := p.depth) hsh hF.err hcl hlt
    { p.getLvl p.lvlIdx with ctype := .array } { p.getLvl p.lvlIdx with ctype := .array } (some .enterArr)
    (objBlock_notObj _ (by show (p.getLvl p.lvlIdx).flags.inObject = false; rw [hz]; rfl))
    (arrBlock_notArr _ _ _ (by show (p.getLvl p.lvlIdx).flags.inArray = false; rw [hz]; rfl))
    (by show (p.getLvl p.lvlIdx).ad < 255; rw [hz]; decide) rfl
  rw [show clear (some Scan.enterArr) .enterArr = none from rfl, outOf_none] at i1
  simp only at r1
  obtain ⟨e1, e2⟩ := advance_of_halts hsh hF.err .enterArr none (Halts.stop i1 r1.err)
  have hr1 : st'.p.rem = encElems xs ++ [0x43] := rem_step hsh hrem r1.frame r1.used
  have hmd' : st'.p.maxDepth = p.maxDepth := r1.frame.2.2.1
  have hL : st'.p.getLvl 0 = { Level.zero with ctype := .array, flags := .arr1, ad := 1 } := by
    rw [r1.lvl, hli]; simp only [if_true]; rw [hF.zeros 0]; rfl
  have hc : (Cursor.start .array (.arr xs)).step .enterArr =
      (mkCur true p.size (flat [⟨none, none, [xs]⟩]) none, ⟨true, none, none⟩) := by
    have : p.size - ((encElems xs).length + 1) = 1 := by omega
    simp [Cursor.start, Cursor.step, Cursor.pending, mkCur, flat, RLevel.frames, cframes, tailBytes, RFrame.enc, RFrame.nodes,
      RFrame.isObj, annotate, Node.item, Node.children, this]
  have hrun : Run st'.p (mkCur true p.size (flat [⟨none, none, [xs]⟩]) none) ⟨none, none, [xs]⟩ [] none := by
    refine ⟨r1.shape, r1.err, by rw [hmd']; exact hmd, by rw [r1.depth, hd1]; rfl, ?_, ?_, ⟨by simp [mkCur], by simp⟩,
      ⟨?_, ?_, ?_, ?_⟩, trivial, by rw [r1.frame.1]; rfl, rfl, rfl, ⟨?_, ?_, Or.inl rfl⟩⟩
    · intro i hi; rw [r1.depth, hd1] at hi; rw [r1.lvl, hli]
      have : i ≠ 0 := by omega
      simp only [this, if_false]; exact hF.zeros i
    · show true = true ↔ st'.p.ptype = 2
      rw [r1.frame.2.2.2.1, hF.ptype]; simp
    · show (st'.p.getLvl 0).ad = 1; rw [hL]
    · show (st'.p.getLvl 0).name.map st'.p.slice = none; rw [hL]; rfl
    · intro fs' hfs; cases hfs
    · show NArrsOk (st'.p.maxDepth - (0 + 1)) [xs]
      rw [hmd']
      exact ⟨by simpa [wfValue] using hw1, hfit', trivial⟩
    · rw [hr1]; simp [flat, RLevel.frames, tailBytes, RFrame.enc, RFrame.endB]
    · show (st'.p.getLvl 0).flags = _; rw [hL]; rfl
  rw [← e1] at hrun
  exact obs_agree (c := Cursor.start .array (.arr xs)) hm hc e2 rfl (fun it hi => by cases hi) hrun

/-- one protocol-following call: all observables agree, and the invariant holds again -/
theorem agree_step {p : Parser} {c : Cursor} (h : Agree p c) (op : COp) (ha : c.allowed op = true) :
    Obs p c op ∧ Agree (machNav p op).1 (c.step op).1 := by
  cases h with
  | start root v hc hF hmd hwf =>
    subst hc
    have hrk : rootKindOk root v = true := by
      unfold wfDoc at hwf; simp only [Bool.and_eq_true] at hwf; exact hwf.1.2
    rcases start_allowed root v op ha with ⟨rfl, fs, rfl⟩ | ⟨rfl, xs, rfl⟩
    · cases root with
      | object => exact start_enterObj fs hF hmd hwf
      | array => simp [rootKindOk] at hrk
    · cases root with
      | array => exact start_enterArr xs hF hmd hwf
      | object => simp [rootKindOk] at hrk
  | run L Ls pend h =>
    cases op with
    | next => exact h.step_next
    | enterObj => exact h.step_enterObj ha
    | enterArr => exact h.step_enterArr ha
    | leaveObj => exact h.step_leaveObj ha
    | leaveArr => exact h.step_leaveArr ha
    | raw => exact h.step_raw ha
    | field nm => exact h.step_field nm ha
  | done hf hd =>
    cases op <;> simp [Cursor.allowed, Cursor.pending, hf, hd] at ha

theorem navOk_of_agree : ∀ (ops : List COp) (p : Parser) (c : Cursor), Agree p c → NavOk p c ops
  | [], _, _, _ => trivial
  | op :: ops, p, c, h => by
    intro ha
    obtain ⟨⟨o1, o2, o3, o4, o5, o6, o7⟩, hn⟩ := agree_step h op ha
    exact ⟨o1, o2, o3, o4, o5, o6, o7, navOk_of_agree ops _ _ hn⟩

/-- **Navigation refinement.** On the canonical encoding of every well-formed document that fits the
    depth configuration, from any allocated parser object, every protocol-following sequence of
    `next` / `go_into_*` / `leave_*` / `get_raw` / field lookups makes the machine agree with the
    reference cursor on every observable of every call. -/
theorem nav_refines (g : Parser) (ha : Alloc g) (hmd : g.maxDepth ≤ 255) (root : Root) (v : Value)
    (hwf : wfDoc root g.maxDepth v = true) (hsz : (encode v).length < 2 ^ 63) (ops : List COp) :
    NavOk (init g (encode v).toArray (rootNum root)).1 (Cursor.start root v) ops := by
  obtain ⟨_, hF, _, _⟩ := verify_wellformed g ha hmd root v hwf hsz
  have hm : (init g (encode v).toArray (rootNum root)).1.maxDepth = g.maxDepth := hF.maxDepth
  apply navOk_of_agree
  exact Agree.start root v rfl (by rw [hm]; exact hF) (by rw [hm]; exact hmd) (by rw [hm]; exact hwf)

end Binson
