/-
  C04 — the writer never writes past its buffer and always reports the exact size.
  `fault = false` is "never stores past `mem`", `mem.size = cap` says the array did not grow,
  `used` is the exact size of the output whether or not it fitted.
  Also: the writer halves of C09 (error latch) and C12 (init / reset give a fresh writer).
-/
import Binson.Lemmas.WriterLemmas
import Binson.Lemmas.WriterXLemmas
import Binson.Lemmas.OracleSpec
namespace Binson

/-! ### C04 -/

/-- Any sequence of valid calls on an initialised writer over a buffer of exactly `cap` bytes:
    no store outside the buffer, `used` is the total size of all pieces (fitted or not),
    `err = range` exactly when that exceeds `cap`, and the buffer holds every piece up to the
    first one that did not fit, followed by its untouched old contents. -/
theorem writer_run (ops : List WOp) (cap : Nat) (m0 : Array UInt8) (hm : m0.size = cap)
    (hv : ∀ op ∈ ops, op.Valid) (hsz : totalLen (allPieces ops) < 2 ^ 63) (hcap : cap < 2 ^ 63) :
    let w := (Writer.init m0 cap).1.run ops
    w.fault = false ∧ w.mem.size = cap ∧ w.used = totalLen (allPieces ops) ∧
    (w.err = .range ↔ cap < totalLen (allPieces ops)) ∧ (w.err = .none ∨ w.err = .range) ∧
    w.mem.toList = fittedPieces cap 0 (allPieces ops) ++ m0.toList.drop (fittedPieces cap 0 (allPieces ops)).length := by
  intro w
  have hw : w = (Writer.init m0 cap).1.writes (allPieces ops) := run_eq_writes ops _ hv
  have h := writes_inv cap (allPieces ops) (Writer.init m0 cap).1 [] m0.toList
    rfl rfl rfl hm rfl (Nat.zero_le _) (by unfold two64; omega)
    (by show 0 + _ < two64; unfold two64; omega) rfl rfl
  rw [← hw] at h
  obtain ⟨h1, h2, _, _, h5, h6, h7, h8⟩ := h
  have hu : (Writer.init m0 cap).1.used = 0 := rfl
  rw [hu] at h5 h6 h8
  simp only [Nat.zero_add, List.nil_append] at h5 h6 h8
  exact ⟨h1, h2, h5, h6, h7, h8⟩

/-- a buffer of exactly the reported size is filled exactly -/
theorem writer_rerun (ops : List WOp) (m0 : Array UInt8) (hv : ∀ op ∈ ops, op.Valid)
    (hm : m0.size = totalLen (allPieces ops)) (hsz : m0.size < 2 ^ 63) :
    let w := (Writer.init m0 m0.size).1.run ops
    w.err = .none ∧ w.mem.toList = (allPieces ops).flatten := by
  intro w
  obtain ⟨_, _, _, h4, h5, h6⟩ := writer_run ops m0.size m0 rfl hv (by omega) hsz
  have hall : fittedPieces m0.size 0 (allPieces ops) = (allPieces ops).flatten :=
    fittedPieces_all _ _ _ (by omega)
  have hlen : (allPieces ops).flatten.length = m0.toList.length := by
    rw [← totalLen_eq_flatten, ← hm]; simp
  refine ⟨?_, ?_⟩
  · rcases h5 with h | h
    · exact h
    · have := h4.mp h; omega
  · show w.mem.toList = _
    have h6' : w.mem.toList = _ := h6
    rw [h6', hall, hlen, List.drop_length, List.append_nil]

/-- the hypotheses of `writer_run` are satisfiable, with overflow: `{"a":1}` into 5 bytes -/
example :
    let ops := [WOp.objBegin, .str [0x61], .int 1, .objEnd]
    (∀ op ∈ ops, op.Valid) ∧ totalLen (allPieces ops) = 7 ∧
    fittedPieces 5 0 (allPieces ops) = [0x40, 0x14, 0x01, 0x61] ∧
    ((Writer.init #[9, 9, 9, 9, 9] 5).1.run ops).mem.toList = [0x40, 0x14, 0x01, 0x61, 9] := by
  refine ⟨?_, by decide, by decide, by decide⟩
  intro op h
  simp only [List.mem_cons, List.not_mem_nil, or_false] at h
  rcases h with rfl | rfl | rfl | rfl <;> simp [WOp.Valid]

/-- the hypotheses of `writer_rerun` are satisfiable -/
example :
    let ops := [WOp.objBegin, .str [0x61], .int 1, .objEnd]
    let m0 : Array UInt8 := #[0, 0, 0, 0, 0, 0, 0]
    m0.size = totalLen (allPieces ops) ∧
    ((Writer.init m0 m0.size).1.run ops).mem.toList = [0x40, 0x14, 0x01, 0x61, 0x10, 0x01, 0x41] := by
  exact ⟨by decide, by decide⟩


/-- the destination image the driver's C04 oracle demands of the implementation (`fitted` over `specPieces`,
    Spec/WriterSpec.lean, written from the encoding rules) is exactly the image `writer_run` proves for the model -/
theorem c04_oracle_is_spec (cap : Nat) (ops : List WOp) :
    fitted cap 0 (ops.flatMap specPieces) = fittedPieces cap 0 (allPieces ops) :=
  oracle_image_eq cap ops


/-- a raw write with the absurd length SIZE_MAX is refused by the capacity test of `_write` (the sum wraps around
    to a value above the capacity or below the counter): `WOpX.hugeRaw` models exactly that outcome -/
theorem c04_huge_length_refused (w : Writer) (hu : w.used < two64) (hc : w.cap < sizeMaxW) :
    let c := (sizeMaxW + w.used) % two64
    c > w.cap ∨ c < w.used :=
  hugeRaw_refused w hu hc

end Binson
