"""Per-property configuration of ./check: which correspondence profiles run, which oracle tags
count as this property's violations, who owns a sanitizer abort."""

A_MODEL = 'the hand-written Lean model corresponds to the C code only as far as the differential run explores (differential testing, not proof)'
A_SIZE = 'buffer size < 2^63 (size_t wrap-around branches of _check_boundary/_write are dead); max_depth <= 255 (uint_fast8_t is 8 bits on this target)'
A_LIBC = 'libc: memcmp/memset/memmove/strlen/snprintf/printf behave per ISO C; %lld and %f are parameters of the theorems (executable instances compared with glibc each run)'

CONFIG = {
 'C01': dict(level='proof', tags={'C01'}, owns_crash=['parser', 'other', 'print'],
             profiles=[('any', 36000, 1152000), ('reuse', 12000, 384000), ('verify', 18000, 576000), ('nav', 12000, 384000)],
             assumptions=[A_MODEL, A_SIZE, 'field lookups are issued only while positioned inside an object (documented)']),
 'C02': dict(level='proof', tags={'C02'}, profiles=[('verify', 72000, 2304000), ('stream', 6000, 192000), ('xverify', 4, 5)], assumptions=[A_MODEL, A_SIZE]),
 'C03': dict(level='proof', tags={'C03'}, owns_crash_ops=['gt', 'gD', 'gs', 'gy', 'gn', 'gi', 'gb', 'gd', 'se'], profiles=[('walk', 18000, 576000), ('navg', 18000, 576000)], assumptions=[A_MODEL, A_SIZE]),
 'C04': dict(level='proof', tags={'C04'}, owns_crash=['writer'], profiles=[('writer', 14400, 460800)], assumptions=[A_MODEL, A_SIZE, 'valid arguments: non-NULL pointers, lengths <= INT32_MAX']),
 'C05': dict(level='proof', tags={'C05'}, profiles=[('rt', 9600, 307200), ('writer', 7200, 230400)], assumptions=[A_MODEL, A_SIZE]),
 'C06': dict(level='proof', tags={'C06'}, owns_crash_ops=['n', 'io', 'ia', 'lo', 'la'], profiles=[('nav', 48000, 1536000), ('navg', 12000, 384000), ('xnav', 46, 58)], assumptions=[A_MODEL, A_SIZE]),
 'C07': dict(level='proof', tags={'C07'}, owns_crash_ops=['f', 'fz', 'F', 'Fz'], profiles=[('nav', 48000, 1536000), ('xnav', 46, 57)], assumptions=[A_MODEL, A_SIZE]),
 'C08': dict(level='proof', tags={'C08'}, profiles=[('stream', 60000, 1920000)], assumptions=[A_MODEL, A_SIZE]),
 'C09': dict(level='proof', tags={'C09'}, profiles=[('any', 36000, 1152000), ('writer', 9600, 307200), ('stream', 9600, 307200), ('nav', 24000, 768000)], assumptions=[A_MODEL, A_SIZE]),
 'C10': dict(level='proof', tags={'C10'}, owns_crash=['writer'], profiles=[('tr', 36000, 1152000), ('rt', 6000, 192000)], assumptions=[A_MODEL, A_SIZE]),
 'C11': dict(level='proof', tags={'C11'}, owns_crash_ops=['gr', 'p2w'], profiles=[('nav', 48000, 1536000), ('xnav', 46, 57)], assumptions=[A_MODEL, A_SIZE]),
 'C12': dict(level='proof', tags={'C12'}, owns_crash=['writer'], profiles=[('reuse', 36000, 1152000), ('writer', 6000, 192000)], assumptions=[A_MODEL, A_SIZE]),
 'C13': dict(level='proof', tags={'C13'}, owns_crash=['print'], profiles=[('print', 14400, 24000), ('any', 9600, 307200)], assumptions=[A_MODEL, A_SIZE, A_LIBC]),
 'C14': dict(level='proof', tags={'C14'}, profiles=[('print', 18000, 30000)], assumptions=[A_MODEL, A_SIZE, A_LIBC]),
 'C16': dict(level='proof', tags={'C16'}, owns_crash=['timeout'], profiles=[('any', 36000, 1152000), ('anyL', 12000, 384000), ('verify', 24000, 768000), ('stream', 18000, 576000)], assumptions=[A_MODEL, A_SIZE]),
 'C15': dict(level='proof', tags={'C15'}, profiles=[('cpp-trees', 0, 0), ('cpp-bytes', 0, 0)], special='c15', assumptions=[A_MODEL, A_SIZE, 'std::map orders std::string keys as unsigned bytes; std::string/std::vector have value semantics', 'crashes, uninitialised reads and the exception machinery are runtime behaviour outside the Lean model: decided by the ASan+UBSan harness with a poisoned stack (partial)']),
 'C17': dict(level='proof', tags=set(), profiles=[], special='c17'),
 'C18': dict(level='translation_validation', tags=set(), profiles=[], special='c18'),
}
