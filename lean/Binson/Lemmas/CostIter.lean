/-
  C16, tight form, part 1: the cursor `buffer_used` across ONE pass through the loop body of
  `_advance_parsing`, in every scan mode and for arbitrary bytes.

  * `iter_overshoot_unreads_one`: the only backwards move in the code (`buffer_used -= bytes_consumed`
    in the lookup-overshoot branch) un-reads exactly the one name token read in this same
    iteration: the new cursor is the cursor at the start of the iteration.
  * `iter_used_mono`: hence the cursor never moves backwards across an iteration.
-/
import Binson.Lemmas.Advance
namespace Binson

/-! ### elementary updates and the cursor -/

theorem cost_setLvl_used (p : Parser) (i : Nat) (l : Level) : (p.setLvl i l).used = p.used := by
  unfold Parser.setLvl; split <;> rfl
theorem cost_setLvl_err (p : Parser) (i : Nat) (l : Level) : (p.setLvl i l).err = p.err := by
  unfold Parser.setLvl; split <;> rfl
theorem cost_touchLvl_used (p : Parser) (i : Nat) : (p.touchLvl i).used = p.used := by
  unfold Parser.touchLvl; split <;> rfl
theorem cost_touchLvl_err (p : Parser) (i : Nat) : (p.touchLvl i).err = p.err := by
  unfold Parser.touchLvl; split <;> rfl
theorem cost_touchBuf_used (p : Parser) (o l : Nat) : (p.touchBuf o l).used = p.used := by
  unfold Parser.touchBuf; split <;> rfl
theorem cost_touchBuf_err (p : Parser) (o l : Nat) : (p.touchBuf o l).err = p.err := by
  unfold Parser.touchBuf; split <;> rfl
theorem cost_touchName_used (p : Parser) (n : Option Span) : (touchName p n).used = p.used := by
  unfold touchName; split
  · exact cost_touchBuf_used _ _ _
  · rfl
theorem cost_touchName_err (p : Parser) (n : Option Span) : (touchName p n).err = p.err := by
  unfold touchName; split
  · exact cost_touchBuf_err _ _ _
  · rfl

theorem cost_finish_p (st : LoopSt) (tok : Tok) (p : Parser) (lv : Level) (li : Nat) (scan : Option Scan) (force : Bool) :
    (finish st tok p lv li scan force).1.p = p.setLvl li lv := by
  unfold finish
  dsimp only
  split
  · rfl
  · split <;> rfl

theorem cost_finish_used (st : LoopSt) (tok : Tok) (p : Parser) (lv : Level) (li : Nat) (scan : Option Scan) (force : Bool) :
    (finish st tok p lv li scan force).1.p.used = p.used := by
  rw [cost_finish_p, cost_setLvl_used]

/-! ### `_consume`, `_process_one`, the classification stage: the cursor only moves forward -/

theorem cost_consume_used (p : Parser) (n : Nat) (peek : Bool) : p.used ≤ (consume p n peek).2.2.used := by
  unfold consume
  split
  · exact Nat.le_refl _
  · cases peek
    · exact Nat.le_add_right _ _
    · exact Nat.le_refl _

/-- `_process_one` reads the type byte, then only `_consume`s -/
theorem cost_processOne_used (p : Parser) (b0 : UInt8) : p.used ≤ (processOne p b0).p.used := by
  unfold processOne
  dsimp only
  have h1 : ∀ n, p.used ≤ (consume { p with used := p.used + 1 } n false).2.2.used := fun n =>
    Nat.le_trans (Nat.le_add_right _ 1) (cost_consume_used { p with used := p.used + 1 } n false)
  split
  · exact Nat.le_add_right _ _
  · split
    · have := h1 8
      generalize consume { p with used := p.used + 1 } 8 false = r at this
      obtain ⟨ok, s, q⟩ := r
      dsimp only at this ⊢
      split <;> exact this
    · split
      · have := h1 (2 ^ (b0.toNat % 4))
        generalize consume { p with used := p.used + 1 } (2 ^ (b0.toNat % 4)) false = r at this
        obtain ⟨ok, s, q⟩ := r
        dsimp only at this ⊢
        split <;> exact this
      · split
        · have := h1 (2 ^ (b0.toNat % 4))
          generalize consume { p with used := p.used + 1 } (2 ^ (b0.toNat % 4)) false = r at this
          obtain ⟨ok, s, q⟩ := r
          dsimp only at this ⊢
          split
          · exact this
          · have hq : (q.touchBuf s.off s.len).used = q.used := cost_touchBuf_used _ _ _
            split
            · show p.used ≤ (q.touchBuf s.off s.len).used; rw [hq]; exact this
            · split
              · show p.used ≤ (q.touchBuf s.off s.len).used; rw [hq]; exact this
              · have h2 := cost_consume_used (q.touchBuf s.off s.len) (parseIntVal (q.touchBuf s.off s.len) s).toNat false
                rw [hq] at h2
                generalize consume (q.touchBuf s.off s.len) (parseIntVal (q.touchBuf s.off s.len) s).toNat false = r2 at h2
                obtain ⟨ok2, s2, q2⟩ := r2
                dsimp only at h2 ⊢
                split <;> exact Nat.le_trans this h2
        · exact Nat.le_add_right _ _

/-- the classification stage never moves the cursor backwards (no hypothesis at all) -/
theorem cost_classify_used (p : Parser) (bc0 : Nat) : p.used ≤ (classify p bc0).p.used := by
  unfold classify
  dsimp only
  have h0 : (p.touchLvl p.lvlIdx).used = p.used := cost_touchLvl_used _ _
  have h1 := cost_consume_used (p.touchLvl p.lvlIdx) 1 true
  rw [h0] at h1
  generalize consume (p.touchLvl p.lvlIdx) 1 true = r at h1
  obtain ⟨ok, s, q⟩ := r
  dsimp only at h1 ⊢
  have hq : (q.touchBuf s.off 1).used = q.used := cost_touchBuf_used _ _ _
  split
  · exact h1
  · split
    · rw [cost_setLvl_used, hq]; exact h1
    · split
      · rw [hq]; exact h1
      · split
        · rw [cost_setLvl_used, hq]; exact h1
        · split
          · rw [hq]; exact h1
          · exact Nat.le_trans (by rw [hq]; exact h1) (cost_processOne_used _ _)

/-! ### the six token cases: the cursor stays or moves one byte forward; only the field-name
    case can move it back, by exactly `bytes_consumed` -/

theorem cost_caseObjBegin_used (st : LoopSt) (p : Parser) (lv : Level) (li : Nat) (scan : Option Scan) :
    p.used ≤ (caseObjBegin st p lv li scan).1.p.used ∧ (caseObjBegin st p lv li scan).1.p.used ≤ p.used + 1 := by
  unfold caseObjBegin
  split
  · dsimp only
    split
    · rw [cost_finish_used, cost_touchLvl_used]
      show p.used ≤ (p.setLvl li lv).used + 1 ∧ (p.setLvl li lv).used + 1 ≤ p.used + 1
      rw [cost_setLvl_used]; omega
    · rw [cost_finish_used]
      show p.used ≤ (p.setLvl li lv).used + 1 ∧ (p.setLvl li lv).used + 1 ≤ p.used + 1
      rw [cost_setLvl_used]; omega
  · rw [cost_finish_used]; omega

theorem cost_caseArrBegin_used (st : LoopSt) (p : Parser) (lv : Level) (li : Nat) (scan : Option Scan) :
    p.used ≤ (caseArrBegin st p lv li scan).1.p.used ∧ (caseArrBegin st p lv li scan).1.p.used ≤ p.used + 1 := by
  unfold caseArrBegin
  split
  · rw [cost_finish_used]; show p.used ≤ p.used ∧ p.used ≤ p.used + 1; omega
  · split
    · dsimp only; rw [cost_finish_used]; show p.used ≤ p.used + 1 ∧ p.used + 1 ≤ p.used + 1; omega
    · rw [cost_finish_used]; omega

theorem cost_caseObjEnd_used (st : LoopSt) (p : Parser) (lv : Level) (li : Nat) (scan : Option Scan) (od : Nat) :
    p.used ≤ (caseObjEnd st p lv li scan od).1.p.used ∧ (caseObjEnd st p lv li scan od).1.p.used ≤ p.used + 1 := by
  unfold caseObjEnd
  by_cases h1 : lv.flags ≠ .expField
  · rw [if_pos h1, cost_finish_used]; show p.used ≤ p.used ∧ p.used ≤ p.used + 1; omega
  rw [if_neg h1]
  have hs : (p.setLvl li lv).used = p.used := cost_setLvl_used _ _ _
  by_cases h2 : has scan [.verify, .leaveObj, .value, .leaveArr] = true
  · rw [if_pos h2]
    dsimp only
    generalize (if od = p.depth then clear scan .leaveObj else scan) = scan'
    by_cases h3 : od = p.depth ∧ has scan' [.value] = true
    · rw [if_pos h3]
      show p.used ≤ (p.setLvl li lv).used ∧ (p.setLvl li lv).used ≤ p.used + 1
      omega
    rw [if_neg h3]
    generalize p.setLvl li lv = q at hs
    have hw : ((({ q with used := q.used + 1 } : Parser).touchLvl ({ q with used := q.used + 1 } : Parser).cur).setLvl
        ({ q with used := q.used + 1 } : Parser).cur Level.zero).used = p.used + 1 := by
      rw [cost_setLvl_used, cost_touchLvl_used]
      show q.used + 1 = p.used + 1
      rw [hs]
    generalize ((({ q with used := q.used + 1 } : Parser).touchLvl ({ q with used := q.used + 1 } : Parser).cur).setLvl
        ({ q with used := q.used + 1 } : Parser).cur Level.zero) = w at hw
    by_cases h4 : w.depth > 1
    · rw [if_pos h4, cost_finish_used]; show p.used ≤ w.used ∧ w.used ≤ p.used + 1; omega
    rw [if_neg h4]
    by_cases h5 : w.depth = 1
    · rw [if_pos h5]
      dsimp only
      by_cases h6 : w.used ≠ w.size
      · rw [if_pos h6]; show p.used ≤ w.used ∧ w.used ≤ p.used + 1; omega
      · rw [if_neg h6]; show p.used ≤ w.used ∧ w.used ≤ p.used + 1; omega
    · rw [if_neg h5]; show p.used ≤ w.used ∧ w.used ≤ p.used + 1; omega
  · rw [if_neg h2]
    show p.used ≤ (p.setLvl li lv).used ∧ (p.setLvl li lv).used ≤ p.used + 1
    omega

theorem cost_caseArrEnd_used (st : LoopSt) (p : Parser) (lv : Level) (li : Nat) (scan : Option Scan) (oa od : Nat) :
    p.used ≤ (caseArrEnd st p lv li scan oa od).1.p.used ∧ (caseArrEnd st p lv li scan oa od).1.p.used ≤ p.used + 1 := by
  unfold caseArrEnd
  by_cases h1 : (!lv.flags.inArray) = true
  · rw [if_pos h1, cost_finish_used]; show p.used ≤ p.used ∧ p.used ≤ p.used + 1; omega
  rw [if_neg h1]
  by_cases h2 : has scan [.verify, .value, .leaveArr, .leaveObj] = true
  · rw [if_pos h2]
    dsimp only
    generalize (if od = p.depth ∧ oa = lv.ad then clear scan .leaveArr else scan) = scan'
    by_cases h3 : lv.ad = 0
    · rw [if_pos h3, cost_finish_used]; show p.used ≤ p.used ∧ p.used ≤ p.used + 1; omega
    rw [if_neg h3]
    by_cases h4 : lv.ad - 1 = 0
    · rw [if_pos h4]
      by_cases h5 : p.ptype = 2 ∧ p.depth = 1
      · rw [if_pos h5]
        have hw : (({ p with used := p.used + 1 } : Parser).setLvl li { lv with ad := lv.ad - 1, flags := .expField }).used = p.used + 1 := by
          rw [cost_setLvl_used]
        generalize (({ p with used := p.used + 1 } : Parser).setLvl li { lv with ad := lv.ad - 1, flags := .expField }) = w at hw
        by_cases h6 : w.used ≠ w.size
        · rw [if_pos h6]; show p.used ≤ w.used ∧ w.used ≤ p.used + 1; omega
        · rw [if_neg h6]; show p.used ≤ w.used ∧ w.used ≤ p.used + 1; omega
      · rw [if_neg h5, cost_finish_used]; show p.used ≤ p.used + 1 ∧ p.used + 1 ≤ p.used + 1; omega
    · rw [if_neg h4, cost_finish_used]; show p.used ≤ p.used + 1 ∧ p.used + 1 ≤ p.used + 1; omega
  · rw [if_neg h2]
    show p.used ≤ (p.setLvl li lv).used ∧ (p.setLvl li lv).used ≤ p.used + 1
    rw [cost_setLvl_used]; omega

theorem cost_caseScalar_used (st : LoopSt) (tok : Tok) (p : Parser) (lv : Level) (li : Nat) (scan : Option Scan) (consumed : Span) :
    (caseScalar st tok p lv li scan consumed).1.p.used = p.used := by
  unfold caseScalar
  split
  · rw [cost_finish_used]
  · rw [cost_finish_used]
  · dsimp only
    split
    · rw [cost_finish_used]; exact cost_touchBuf_used _ _ _
    · rw [cost_finish_used]; exact cost_touchBuf_used _ _ _
  · dsimp only; rw [cost_finish_used]; exact cost_touchBuf_used _ _ _
  · rw [cost_finish_used]
  · rfl

/-- the field-name case: either the cursor stays, or (lookup overshoot) it goes back by exactly
    `bytes_consumed`, the call returns `false` with no error set and no callback made -/
theorem cost_caseFieldName_used (st : LoopSt) (p : Parser) (lv : Level) (li : Nat) (scan : Option Scan)
    (consumed : Span) (bc : Nat) (sn : Option (List UInt8)) (oa od : Nat) :
    (caseFieldName st p lv li scan consumed bc sn oa od).1.p.used = p.used ∨
    ((caseFieldName st p lv li scan consumed bc sn oa od).1.p.used = p.used - bc ∧
     (caseFieldName st p lv li scan consumed bc sn oa od).2 = .ret false ∧
     (caseFieldName st p lv li scan consumed bc sn oa od).1.p.err = p.err ∧
     (caseFieldName st p lv li scan consumed bc sn oa od).1.ev = st.ev ∧
     overshoot (touchName (p.touchBuf consumed.off consumed.len) lv.name) consumed sn = true) := by
  have hu : (touchName (p.touchBuf consumed.off consumed.len) lv.name).used = p.used := by
    rw [cost_touchName_used, cost_touchBuf_used]
  have he : (touchName (p.touchBuf consumed.off consumed.len) lv.name).err = p.err := by
    rw [cost_touchName_err, cost_touchBuf_err]
  unfold caseFieldName
  dsimp only
  generalize touchName (p.touchBuf consumed.off consumed.len) lv.name = q at hu he
  split
  · left; rw [cost_finish_used]; exact hu
  · split
    · split
      · rename_i hov
        right
        refine ⟨?_, rfl, ?_, rfl, hov⟩
        · show (({ q with used := q.used - bc } : Parser).setLvl li { lv with flags := .expField }).used = p.used - bc
          rw [cost_setLvl_used]; show q.used - bc = _; rw [hu]
        · show (({ q with used := q.used - bc } : Parser).setLvl li { lv with flags := .expField }).err = p.err
          rw [cost_setLvl_err]; exact he
      · left; rw [cost_finish_used]; exact hu
    · left; rw [cost_finish_used]; exact hu

/-! ### one iteration -/

/-- **The un-read is exactly one name token.** For one pass through the loop body from a shaped,
    error-free parser, with `c` the classification of the token at the cursor (`c.p.used` is the
    furthest position this iteration reads up to): either nothing is un-read (the iteration leaves
    the cursor at or beyond `c.p.used`), or the iteration took the lookup-overshoot branch:
    the token was ONE string token occupying exactly the `c.bc = bytes_consumed` bytes from the
    cursor at the start of the iteration, `bytes_consumed` was not carried over from an earlier
    iteration, the new cursor IS the cursor at the start of the iteration, the call returns
    `false` with no error set and without a callback. -/
theorem iter_overshoot_unreads_one (st : LoopSt) (sn : Option (List UInt8)) (oa od : Nat)
    (h : Shape st.p) (he : st.p.err = .none) :
    (classify st.p st.bc).p.used ≤ (iter st sn oa od).1.p.used ∨
    ((classify st.p st.bc).tok = .string ∧
     (classify st.p st.bc).p.used = st.p.used + (classify st.p st.bc).bc ∧ 1 ≤ (classify st.p st.bc).bc ∧
     (iter st sn oa od).1.p.used = st.p.used ∧
     (iter st sn oa od).2 = .ret false ∧ (iter st sn oa od).1.p.err = .none ∧ (iter st sn oa od).1.ev = st.ev ∧
     overshoot (classify st.p st.bc).p (classify st.p st.bc).span sn = true) := by
  unfold iter
  simp only
  rcases classify_spec h he st.bc with ⟨et, ce⟩ | ⟨et, co⟩
  · rw [if_pos et]
    left; exact Nat.le_refl _
  · rw [if_neg et]
    generalize classify st.p st.bc = c at et co
    obtain ⟨csh, cerr, cfr, cspan, cnf, cbe, csc⟩ := co
    have hce : c.p.err = .none := cerr.trans he
    have hsz : c.p.size = st.p.size := cfr.2.2.2.1
    have hsp0 := csh.hsp hce c.p.lvlIdx
    cases hob : objBlock (c.p.getLvl c.p.lvlIdx) c.tok with
    | none =>
      simp only
      left; exact Nat.le_refl _
    | some r =>
      obtain ⟨lv, tok⟩ := r
      simp only
      obtain ⟨o1, o2, o3, o4, o5⟩ := objBlock_spec hob
      have hlv : lv.SpansOk c.p.size := SpansOk_of_fields o1 o2 hsp0
      obtain ⟨a1, a2, a3, a4⟩ := arrBlock_spec lv tok (decide (oa = lv.ad ∧ od = c.p.depth)) st.scan
      have hlv2 : (arrBlock lv tok (decide (oa = lv.ad ∧ od = c.p.depth)) st.scan).1.SpansOk c.p.size := SpansOk_of_fields a1 a2 hlv
      generalize (arrBlock lv tok (decide (oa = lv.ad ∧ od = c.p.depth)) st.scan) = ab at hlv2
      have hev : ({ st with bc := c.bc } : LoopSt).ev = st.ev := rfl
      rw [← hev]
      generalize ({ st with bc := c.bc } : LoopSt) = st'
      cases tok with
      | objBegin => left; exact (cost_caseObjBegin_used st' c.p ab.1 c.p.lvlIdx ab.2).1
      | objEnd => left; exact (cost_caseObjEnd_used st' c.p ab.1 c.p.lvlIdx ab.2 od).1
      | arrBegin => left; exact (cost_caseArrBegin_used st' c.p ab.1 c.p.lvlIdx ab.2).1
      | arrEnd => left; exact (cost_caseArrEnd_used st' c.p ab.1 c.p.lvlIdx ab.2 oa od).1
      | string => left; exact Nat.le_of_eq (cost_caseScalar_used st' _ c.p ab.1 c.p.lvlIdx ab.2 c.span).symm
      | boolean => left; exact Nat.le_of_eq (cost_caseScalar_used st' _ c.p ab.1 c.p.lvlIdx ab.2 c.span).symm
      | double => left; exact Nat.le_of_eq (cost_caseScalar_used st' _ c.p ab.1 c.p.lvlIdx ab.2 c.span).symm
      | integer => left; exact Nat.le_of_eq (cost_caseScalar_used st' _ c.p ab.1 c.p.lvlIdx ab.2 c.span).symm
      | bytes => left; exact Nat.le_of_eq (cost_caseScalar_used st' _ c.p ab.1 c.p.lvlIdx ab.2 c.span).symm
      | error => left; exact Nat.le_of_eq (cost_caseScalar_used st' _ c.p ab.1 c.p.lvlIdx ab.2 c.span).symm
      | fieldName =>
        have hts : c.tok = .string := by
          rcases o5 with e | ⟨e, _⟩
          · exact absurd e.symm cnf
          · exact e
        have hsc := csc (by rw [hts]; rfl)
        -- the two `memcmp` range checks are in bounds
        have hb : c.span.off + c.span.len ≤ c.p.buf.size := by rw [csh.hbs, hsz]; exact cspan
        have htn : touchName (c.p.touchBuf c.span.off c.span.len) ab.1.name = c.p := by
          rw [touchBuf_of_le hb]
          unfold touchName
          cases hn : ab.1.name with
          | none => rfl
          | some pn => exact touchBuf_of_le (by rw [csh.hbs]; exact hlv2.1 pn hn)
        rcases cost_caseFieldName_used st' c.p ab.1 c.p.lvlIdx ab.2 c.span c.bc sn oa od with e | ⟨e1, e2, e3, e4, e5⟩
        · left; exact Nat.le_of_eq e.symm
        · right
          rw [htn] at e5
          exact ⟨hts, hsc.1, hsc.2.1, by rw [e1, hsc.1]; omega, e2, e3.trans hce, e4, e5⟩

/-- **The cursor never moves backwards across an iteration**, in any scan mode, for arbitrary bytes. -/
theorem iter_used_mono (st : LoopSt) (sn : Option (List UInt8)) (oa od : Nat)
    (h : Shape st.p) (he : st.p.err = .none) :
    st.p.used ≤ (iter st sn oa od).1.p.used := by
  rcases iter_overshoot_unreads_one st sn oa od h he with h1 | ⟨_, _, _, h2, _⟩
  · exact Nat.le_trans (cost_classify_used _ _) h1
  · exact Nat.le_of_eq h2.symm

end Binson
