/-
  Layer 4, part 15: `_advance_parsing(VALUE)` - the engine of `next` and of the field lookup -
  against the invariant: at the end of the container, on an overshooting name, on the next child.
-/
import Binson.Lemmas.NavOpBase
namespace Binson

namespace Run

variable {p : Parser} {c : Cursor} {Ls : List RLevel} {pend : Option Value}

theorem tail_obj (pv : Option Bytes) (fs : Fields) (Ls : List RLevel) :
    tailBytes (flat (⟨pv, some fs, []⟩ :: Ls)) = encFields fs ++ 0x41 :: tailBytes (flat Ls) := by
  rw [flat_obj]; rfl

theorem tail_arr (pv : Option Bytes) (b : Option Fields) (xs : Elems) (ar : List Elems) (Ls : List RLevel) :
    tailBytes (flat (⟨pv, b, xs :: ar⟩ :: Ls)) = encElems xs ++ 0x43 :: tailBytes (flat (⟨pv, b, ar⟩ :: Ls)) := by
  rw [flat_arr]; rfl

/-- a run that ended where the prelude left it: nothing but the skipped container has changed -/
theorem unchanged (h : Run p c L Ls pend) {scan : Scan} {st1 st' : LoopSt} {oa od : Nat}
    (k1 : Kept ⟨p, some scan, 0, []⟩ st1) (r1 : st1.p.rem = tailBytes (flat (L :: Ls)))
    (n1 : (st1.p.getLvl Ls.length).name = (p.getLvl Ls.length).name) (f1 : (st1.p.getLvl Ls.length).flags = nflags L)
    (o' : AtOrig st' oa od) (k' : Kept st1 st') (r' : st'.p.rem = st1.p.rem) (l' : ∀ i, st'.p.getLvl i = st1.p.getLvl i) :
    Run st'.p (mkCur c.arrayRoot p.size (flat (L :: Ls)) none) L Ls none := by
  have hli := h.lvlIdx
  have k := k1.trans k'
  refine h.next_state o'.shape o'.err k.frame k.depth (fun i hi => k.lower i (by show i < p.lvlIdx; rw [hli]; exact hi)) o'.zeros
    L none none h.base ?_ ⟨r'.trans r1, by rw [l']; exact f1, Or.inl rfl⟩
  have had := k.ad
  simp only at had
  rw [hli] at had
  exact h.top.transfer had (by rw [l']; exact n1) k.frame.2.1 k.frame.2.2.1

/-- VALUE mode at the end of an object -/
theorem value_obj_nil {pv : Option Bytes} (h : Run p c ⟨pv, some .nil, []⟩ Ls pend) (sn : Option (List UInt8)) :
    (advance p .value sn).ret = false ∧
    Run (advance p .value sn).p (mkCur c.arrayRoot p.size (flat (⟨pv, some .nil, []⟩ :: Ls)) none) ⟨pv, some .nil, []⟩ Ls none := by
  obtain ⟨st1, s1, o1, c1, k1, r1, n1, f1⟩ := h.prelude .value (Or.inr (Or.inr (Or.inl rfl))) sn
  have hli1 : st1.p.lvlIdx = Ls.length := by rw [k1.lvlIdx]; exact h.lvlIdx
  have hr : st1.p.rem = 0x41 :: tailBytes (flat Ls) := by rw [r1, tail_obj]; rfl
  obtain ⟨st', hh, o', k', r', l'⟩ := value_obj_end (sn := sn) o1 c1 _ hr (by rw [hli1, f1]; rfl)
  obtain ⟨e1, e2⟩ := advance_of_halts h.shape h.err .value sn (s1.halts hh)
  rw [e1, e2]
  exact ⟨rfl, h.unchanged k1 r1 n1 f1 o' k' r' l'⟩

/-- VALUE mode at the end of an array -/
theorem value_arr_nil {pv : Option Bytes} {b : Option Fields} {ar : List Elems} (h : Run p c ⟨pv, b, .nil :: ar⟩ Ls pend)
    (sn : Option (List UInt8)) :
    (advance p .value sn).ret = false ∧
    Run (advance p .value sn).p (mkCur c.arrayRoot p.size (flat (⟨pv, b, .nil :: ar⟩ :: Ls)) none) ⟨pv, b, .nil :: ar⟩ Ls none := by
  obtain ⟨st1, s1, o1, c1, k1, r1, n1, f1⟩ := h.prelude .value (Or.inr (Or.inr (Or.inl rfl))) sn
  have hli1 : st1.p.lvlIdx = Ls.length := by rw [k1.lvlIdx]; exact h.lvlIdx
  have hr : st1.p.rem = 0x43 :: tailBytes (flat (⟨pv, b, ar⟩ :: Ls)) := by rw [r1, tail_arr]; rfl
  obtain ⟨st', hh, o', k', r', l'⟩ := value_arr_end (sn := sn) o1 c1 _ hr (by rw [hli1, f1]; exact Or.inl rfl)
  obtain ⟨e1, e2⟩ := advance_of_halts h.shape h.err .value sn (s1.halts hh)
  rw [e1, e2]
  exact ⟨rfl, h.unchanged k1 r1 n1 f1 o' k' r' l'⟩

/-- what the well-formedness of the remaining fields says about the first of them -/
theorem wf_cons {pv : Option Bytes} {n : Bytes} {v : Value} {r : Fields} {d : Nat}
    (h : wfFields pv (.cons n v r) = true ∧ fitsF d (.cons n v r) = true) :
    nameAfter pv n = true ∧ n.length ≤ INT32_MAX ∧ wfValue v = true ∧ wfFields (some n) r = true ∧
    fits d 255 v = true ∧ fitsF d r = true := by
  obtain ⟨h1, h2⟩ := h
  have a : nameAfter pv n = true ∧ n.length ≤ INT32_MAX ∧ wfValue v = true ∧ wfFields (some n) r = true := by
    simpa [wfFields, and_assoc] using h1
  have b : fits d 255 v = true ∧ fitsF d r = true := by simpa [fitsF] using h2
  exact ⟨a.1, a.2.1, a.2.2.1, a.2.2.2, b.1, b.2⟩

/-- the name the ordering check uses, after the prelude -/
theorem prevName_eq (h : Run p c L Ls pend) {scan : Scan} {st1 : LoopSt} (k1 : Kept ⟨p, some scan, 0, []⟩ st1)
    (n1 : (st1.p.getLvl Ls.length).name = (p.getLvl Ls.length).name) : prevName st1.p = L.prev := by
  have hli1 : st1.p.lvlIdx = Ls.length := by rw [k1.lvlIdx]; exact h.lvlIdx
  unfold prevName
  rw [hli1, n1, ← h.top.name]
  cases (p.getLvl Ls.length).name with
  | none => rfl
  | some s => simp only [Option.map]; rw [slice_congr k1.frame.2.1]

/-- lookup: the next name is already beyond the one looked for -/
theorem value_obj_over {pv : Option Bytes} {n : Bytes} {v : Value} {r : Fields}
    (h : Run p c ⟨pv, some (.cons n v r), []⟩ Ls pend) (nm : List UInt8) (hov : cmpBytes n nm > 0) :
    (advance p .value (some nm)).ret = false ∧
    Run (advance p .value (some nm)).p (mkCur c.arrayRoot p.size (flat (⟨pv, some (.cons n v r), []⟩ :: Ls)) none)
      ⟨pv, some (.cons n v r), []⟩ Ls none := by
  obtain ⟨st1, s1, o1, c1, k1, r1, n1, f1⟩ := h.prelude .value (Or.inr (Or.inr (Or.inl rfl))) (some nm)
  have hli1 : st1.p.lvlIdx = Ls.length := by rw [k1.lvlIdx]; exact h.lvlIdx
  obtain ⟨w1, w2, _, _, _, _⟩ := wf_cons (h.top.base _ rfl)
  have hr : st1.p.rem = encStr 0x14 n ++ (encode v ++ (encFields r ++ 0x41 :: tailBytes (flat Ls))) := by
    rw [r1, tail_obj]; simp [encFields]
  obtain ⟨st', hh, o', k', r', l'⟩ := Binson.value_obj_over o1 n _ hr w2 (by rw [h.prevName_eq k1 n1]; exact w1)
    (by rw [hli1, f1]; rfl) nm hov
  obtain ⟨e1, e2⟩ := advance_of_halts h.shape h.err .value (some nm) (s1.halts hh)
  rw [e1, e2]
  exact ⟨rfl, h.unchanged k1 r1 n1 f1 o' k' r' l'⟩

theorem BaseOk_congr {ar : Bool} {L L' : RLevel} {Ls : List RLevel} (h : BaseOk ar L Ls)
    (h1 : L'.base = none ↔ L.base = none) (h2 : L'.base = none → L'.arrs ≠ []) : BaseOk ar L' Ls := by
  cases Ls with
  | nil => exact ⟨h1.trans h.1, h2⟩
  | cons L2 r => exact ⟨fun hn => h.1 (h1.mp hn), h.2⟩

theorem hdr_eq (o u n : Nat) (h : o = u) : o + hdrLen n + n = u + (1 + intWidth (n : Int) + n) := by
  unfold hdrLen; omega

/-- `next`/lookup on an object: the next field becomes current -/
theorem value_obj_read {pv : Option Bytes} {n : Bytes} {v : Value} {r : Fields}
    (h : Run p c ⟨pv, some (.cons n v r), []⟩ Ls pend) (sn : Option (List UInt8))
    (hno : ∀ nm, sn = some nm → ¬ cmpBytes n nm > 0) :
    (advance p .value sn).ret = true ∧
    Run (advance p .value sn).p
      (mkCur c.arrayRoot p.size (flat (⟨some n, some r, []⟩ :: Ls))
        (some (fieldNode (p.size - (tailBytes (flat (⟨pv, some (.cons n v r), []⟩ :: Ls))).length) n v)))
      ⟨some n, some r, []⟩ Ls (if v.isContainer then some v else none) ∧
    ItemMatches (advance p .value sn).p (fieldNode (p.size - (tailBytes (flat (⟨pv, some (.cons n v r), []⟩ :: Ls))).length) n v).item ∧
    curNameBytes (advance p .value sn).p = n := by
  obtain ⟨st1, s1, o1, c1, k1, r1, n1, f1⟩ := h.prelude .value (Or.inr (Or.inr (Or.inl rfl))) sn
  have hli := h.lvlIdx
  have hli1 : st1.p.lvlIdx = Ls.length := by rw [k1.lvlIdx]; exact hli
  obtain ⟨w1, w2, w3, w4, w5, w6⟩ := wf_cons (h.top.base _ rfl)
  have hr : st1.p.rem = encStr 0x14 n ++ (encode v ++ (encFields r ++ 0x41 :: tailBytes (flat Ls))) := by
    rw [r1, tail_obj]; simp [encFields]
  have had1 : (st1.p.getLvl st1.p.lvlIdx).ad = 0 := by
    have := k1.ad; simp only at this; rw [hli] at this; rw [hli1, this]; exact h.top.ad
  obtain ⟨st', hh, o', k', nmE, slc, bnd, cty, hcont, hscal⟩ := Binson.value_obj_read (sn := sn) o1 c1 n v _ hr w2
    (by rw [h.prevName_eq k1 n1]; exact w1) w3
    (by rw [k1.frame.2.2.1, k1.depth]; show fits (p.maxDepth - p.depth) 255 v = true; rw [h.depth]; exact w5)
    (by rw [hli1, f1]; rfl) had1 hno
  rw [hli1] at nmE cty hcont hscal
  obtain ⟨e1, e2⟩ := advance_of_halts h.shape h.err .value sn (s1.halts hh)
  rw [e1, e2]
  have k := k1.trans k'
  have hsz : st'.p.size = p.size := k.frame.1
  have hbuf : st'.p.buf = p.buf := k.frame.2.1
  have hbuf1 : st'.p.buf = st1.p.buf := k'.frame.2.1
  have hmd : st'.p.maxDepth = p.maxDepth := k.frame.2.2.1
  have hcur : st'.p.cur = Ls.length := by rw [o'.shape.hcur, k'.lvlIdx, hli1]
  have ho : p.size - (tailBytes (flat (⟨pv, some (.cons n v r), []⟩ :: Ls))).length = st1.p.used := by
    have := rem_len o1.shape r1
    have hs1 : st1.p.size = p.size := k1.frame.1
    omega
  generalize p.size - (tailBytes (flat (⟨pv, some (.cons n v r), []⟩ :: Ls))).length = o at ho
  have hoff := hdr_eq o st1.p.used n.length ho
  have hspan : (⟨o + hdrLen n.length, n.length⟩ : Span) = ⟨st1.p.used + 1 + intWidth (n.length : Int), n.length⟩ := by
    rw [ho, hdr_off]
  have had' : (st'.p.getLvl Ls.length).ad = 0 := by
    have := k.ad; simp only at this; rw [hli] at this; rw [this]; exact h.top.ad
  refine ⟨rfl, ?_, ?_, ?_⟩
  · refine h.next_state o'.shape o'.err k.frame k.depth (fun i hi => k.lower i (by show i < p.lvlIdx; rw [hli]; exact hi)) o'.zeros
      ⟨some n, some r, []⟩ _ _ (BaseOk_congr h.base (by simp) (by simp)) ⟨had', ?_, ?_, trivial⟩ ?_
    · rw [nmE]; simp only [Option.map]; rw [slc st'.p hbuf1]
    · intro fs hfs
      injection hfs with hfs
      subst hfs
      exact ⟨w4, by rw [hmd]; exact w6⟩
    · cases hc : v.isContainer with
      | true =>
        obtain ⟨a1, a2, a3⟩ := hcont hc
        refine ⟨hc, by rw [a1, tail_obj], by rw [a3]; rfl, ⟨some (n, ⟨o + hdrLen n.length, n.length⟩), ?_⟩, cty, w3, ?_⟩
        · show some (fieldNode o n v) = _
          unfold fieldNode; rw [hoff, a2]
        · rw [hmd]; exact w5
      | false =>
        obtain ⟨a1, a2, a3⟩ := hscal hc
        refine ⟨by rw [a1, tail_obj], by rw [a2]; rfl, Or.inr ⟨fieldNode o n v, rfl, ?_, ?_, ?_⟩⟩
        · rw [cty]; unfold fieldNode; exact annotate_ty_off _ _ _ _ _
        · have := annotate_isContainer (some (n, ⟨o + hdrLen n.length, n.length⟩)) (o + hdrLen n.length + n.length) v
          rw [hc] at this
          intro hf; unfold fieldNode at hf; rw [hf] at this; simp at this
        · have := annotate_isContainer (some (n, ⟨o + hdrLen n.length, n.length⟩)) (o + hdrLen n.length + n.length) v
          rw [hc] at this
          intro hf; unfold fieldNode at hf; rw [hf] at this; simp at this
  · unfold fieldNode
    refine itemMatches_of st'.p o'.err v _ _ (by rw [hcur, cty]; exact annotate_ty_off _ _ _ _ _) ?_ ?_
    · intro b s hb
      injection hb with hb
      injection hb with hb1 hb2
      subst hb1; subst hb2
      rw [hcur, nmE, hspan]
      refine ⟨rfl, slc st'.p hbuf1, ?_⟩
      rw [hsz, ← k1.frame.1]; simp only; omega
    · intro hc
      obtain ⟨_, _, sc⟩ := hscal hc
      rw [hoff, hcur]
      obtain ⟨v1, v2⟩ := annotate_val_nm (some (n, ⟨o + hdrLen n.length, n.length⟩)) none (st1.p.used + (1 + intWidth (n.length : Int) + n.length)) v
      rw [v1, v2]
      refine ⟨sc.val, fun s hs => ?_⟩
      have := sc.span s hs
      rw [slice_congr hbuf1, hsz, ← k1.frame.1]; exact this
  · unfold curNameBytes
    rw [hcur, nmE]
    exact slc st'.p hbuf1

/-- `next` on an array: the next element becomes current -/
theorem value_arr_read {pv : Option Bytes} {b : Option Fields} {v : Value} {r : Elems} {ar : List Elems}
    (h : Run p c ⟨pv, b, .cons v r :: ar⟩ Ls pend) (sn : Option (List UInt8)) :
    (advance p .value sn).ret = true ∧
    Run (advance p .value sn).p
      (mkCur c.arrayRoot p.size (flat (⟨pv, b, r :: ar⟩ :: Ls))
        (some (annotate none (p.size - (tailBytes (flat (⟨pv, b, .cons v r :: ar⟩ :: Ls))).length) v)))
      ⟨pv, b, r :: ar⟩ Ls (if v.isContainer then some v else none) ∧
    ItemMatches (advance p .value sn).p (annotate none (p.size - (tailBytes (flat (⟨pv, b, .cons v r :: ar⟩ :: Ls))).length) v).item := by
  obtain ⟨st1, s1, o1, c1, k1, r1, n1, f1⟩ := h.prelude .value (Or.inr (Or.inr (Or.inl rfl))) sn
  have hli := h.lvlIdx
  have hli1 : st1.p.lvlIdx = Ls.length := by rw [k1.lvlIdx]; exact hli
  obtain ⟨w1, w2, w3⟩ := h.top.arrs
  have w1' : wfValue v = true ∧ wfElems r = true := by simpa [wfElems] using w1
  have w2' : fits (p.maxDepth - (Ls.length + 1)) (255 - (ar.length + 1)) v = true ∧
      fitsE (p.maxDepth - (Ls.length + 1)) (255 - (ar.length + 1)) r = true := by simpa [fitsE] using w2
  have hr : st1.p.rem = encode v ++ (encElems r ++ 0x43 :: tailBytes (flat (⟨pv, b, ar⟩ :: Ls))) := by
    rw [r1, tail_arr]; simp [encElems]
  have had1 : (st1.p.getLvl st1.p.lvlIdx).ad = ar.length + 1 := by
    have := k1.ad; simp only at this; rw [hli] at this; rw [hli1, this, h.top.ad]; rfl
  obtain ⟨st', hh, o', k', nmE, cty, hcont, hscal⟩ := Binson.value_arr_read (sn := sn) o1 c1 v _ hr w1'.1
    (by rw [k1.frame.2.2.1, k1.depth, had1]; show fits (p.maxDepth - p.depth) _ v = true; rw [h.depth]; exact w2'.1)
    (by rw [hli1, f1]; rfl) (by rw [had1]; omega)
  rw [hli1] at nmE cty hcont hscal
  obtain ⟨e1, e2⟩ := advance_of_halts h.shape h.err .value sn (s1.halts hh)
  rw [e1, e2]
  have k := k1.trans k'
  have hsz : st'.p.size = p.size := k.frame.1
  have hbuf1 : st'.p.buf = st1.p.buf := k'.frame.2.1
  have hmd : st'.p.maxDepth = p.maxDepth := k.frame.2.2.1
  have hcur : st'.p.cur = Ls.length := by rw [o'.shape.hcur, k'.lvlIdx, hli1]
  have ho : p.size - (tailBytes (flat (⟨pv, b, .cons v r :: ar⟩ :: Ls))).length = st1.p.used := by
    have := rem_len o1.shape r1
    have hs1 : st1.p.size = p.size := k1.frame.1
    omega
  rw [ho]
  have had' : (st'.p.getLvl Ls.length).ad = (p.getLvl Ls.length).ad := by
    have := k.ad; simp only at this; rw [hli] at this; exact this
  refine ⟨rfl, ?_, ?_⟩
  · refine h.next_state o'.shape o'.err k.frame k.depth (fun i hi => k.lower i (by show i < p.lvlIdx; rw [hli]; exact hi)) o'.zeros
      ⟨pv, b, r :: ar⟩ _ _ (BaseOk_congr h.base (by simp) (by simp)) ⟨by rw [had', h.top.ad]; rfl, ?_, ?_, ?_⟩ ?_
    · have := (h.top.transfer had' (nmE.trans n1) k.frame.2.1 hmd).name
      exact this
    · rw [hmd]; exact h.top.base
    · rw [hmd]; exact ⟨w1'.2, w2'.2, w3⟩
    · cases hc : v.isContainer with
      | true =>
        obtain ⟨a1, a2, a3⟩ := hcont hc
        refine ⟨hc, by rw [a1, hr, tail_arr], by rw [a3]; rfl, ⟨none, by rw [a2]; rfl⟩, cty, w1'.1, ?_⟩
        rw [hmd]; exact w2'.1
      | false =>
        obtain ⟨a1, a2, a3⟩ := hscal hc
        refine ⟨by rw [a1, tail_arr], by rw [a2]; rfl, Or.inr ⟨_, rfl, ?_, ?_, ?_⟩⟩
        · rw [cty]; exact annotate_ty_off _ _ _ _ _
        · have := annotate_isContainer none st1.p.used v
          rw [hc] at this
          intro hf; rw [hf] at this; simp at this
        · have := annotate_isContainer none st1.p.used v
          rw [hc] at this
          intro hf; rw [hf] at this; simp at this
  · refine itemMatches_of st'.p o'.err v _ _ (by rw [hcur, cty]; exact annotate_ty_off _ _ _ _ _) (fun b s hb => by cases hb) ?_
    intro hc
    obtain ⟨_, _, sc⟩ := hscal hc
    rw [hcur]
    refine ⟨sc.val, fun s hs => ?_⟩
    have := sc.span s hs
    rw [slice_congr hbuf1, hsz, ← k1.frame.1]; exact this

end Run

end Binson
