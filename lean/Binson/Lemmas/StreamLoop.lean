/-
  C08, part 7: the loop body from the not-yet-entered state and from the closed state; the
  invariant `Inv` through the whole loop and through `_advance_parsing`, in every scan mode.
-/
import Binson.Lemmas.StreamStep2
namespace Binson

section
variable {buf : Array UInt8} {md t : Nat}

theorem FlagsSim.undef {f' : Flags} (h : FlagsSim .undef f') : f' = .undef := by
  rcases h with h | ⟨h, _⟩
  · exact h
  · rcases h with h | h <;> cases h

/-- nothing consumed in the not-yet-entered state -/
theorem ZF.same {p q : Parser} (hF : ZF buf md t p) (hs : Shape q) (he : q.err = .none) (fr : p.Frame q)
    (hu : q.used = p.used) (hd : q.depth = p.depth)
    (L' : Level) (hsim : (p.getLvl p.lvlIdx).Sim L') (hg : ∀ j, q.getLvl j = if j = p.lvlIdx then L' else p.getLvl j) :
    ZF buf md t q := by
  have hidx : p.lvlIdx = 0 := by
    unfold Parser.lvlIdx
    rw [hF.depth]
    rcases hF.root with ⟨h, _⟩ | ⟨h, _⟩ <;> rw [h] <;> rfl
  rw [hidx] at hsim hg
  obtain ⟨s1, s2, s3⟩ := hsim
  rw [hF.flags0] at s3
  refine ⟨hs, he, fr.2.1.trans hF.hbuf, fr.2.2.1.trans hF.hmd, hF.md255, fr.2.2.2.1.trans hF.hpt, ?_, hd.trans hF.depth, hu.trans hF.used, ?_, ?_, ?_, ?_⟩
  · rw [rem_same fr.2.1 hu]; exact hF.root
  · rw [hg, if_pos rfl]; exact s3.undef
  · rw [hg, if_pos rfl, s1]; exact hF.ad0
  · rw [hg, if_pos rfl, s2]; exact hF.name0
  · intro i hi
    rw [hg, if_neg (by omega)]; exact hF.zeros i hi

/-- one pass through the loop body in the not-yet-entered state -/
theorem zf_iter {st : LoopSt} (hF : ZF buf md t st.p) (sn : Option (List UInt8)) (oa od : Nat) :
    Res buf md t (iter st sn oa od).1.p := by
  have hsh := hF.shape
  have he := hF.err
  have hspec := iter_spec st sn oa od hsh he
  have hRs := hspec.shape
  have hfr := hspec.frame
  have hb : buf.toList = st.p.rem := by unfold Parser.rem; rw [hF.used, hF.hbuf]; rfl
  have hvp : ValPos (st.p.getLvl st.p.lvlIdx).flags := by
    have hidx : st.p.lvlIdx = 0 := by
      unfold Parser.lvlIdx
      rw [hF.depth]
      rcases hF.root with ⟨h, _⟩ | ⟨h, _⟩ <;> rw [h] <;> rfl
    rw [hidx, hF.flags0]; exact Or.inr (Or.inr (Or.inr rfl))
  rcases hF.root with ⟨rfl, rs, hrem⟩ | ⟨rfl, rs, hrem⟩
  · have hd0 : st.p.depth = 0 := hF.depth
    have hidx : st.p.lvlIdx = 0 := by unfold Parser.lvlIdx; rw [hd0]; rfl
    rcases tok_objBegin sn oa od hsh he rs hrem hvp _ rfl with h | ⟨r1, r2, r3, r4, L', a1, a2, a3, r5⟩ | ⟨r1, r2, r3, L', hsim, r5⟩
    · exact Or.inl h
    · refine Or.inr (Or.inr (Or.inl ⟨[newGrp], ?_⟩))
      rw [hidx, hd0] at r5
      simp only [if_true] at r5
      rw [hidx] at a1 a2
      refine ⟨hRs, r1, hfr.2.1.trans hF.hbuf, hfr.2.2.1.trans hF.hmd, hF.md255, hfr.2.2.2.1.trans hF.hpt, Or.inl rfl,
        by rw [r3, hd0]; rfl, by simp, ?_, ?_, ?_⟩
      · intro i hi
        rw [r3, hd0] at hi
        rw [r5, if_neg (by omega), if_neg (by omega)]
        exact hF.zeros i (by omega)
      · refine ⟨?_, GrpOk_new _, ⟨fun h => (by cases h), fun h => (by cases h.2)⟩, trivial⟩
        show LvOk buf ((iter st sn oa od).1.p.getLvl 0) newGrp true
        rw [r5, if_pos rfl]
        exact ⟨a1.trans hF.ad0, fun h => absurd rfl h, fun _ _ => Or.inl ⟨rfl, rfl⟩, fun _ h => (by cases h),
          fun _ => by show Option.map (sliceB buf) L'.name = none; rw [a2, hF.name0]; rfl⟩
      · rw [hb, hrem, rem_step hsh hrem hfr r2]
        rfl
    · exact Or.inr (Or.inl (hF.same hRs r1 hfr r2 r3 L' hsim r5))
  · have hd1 : st.p.depth = 1 := hF.depth
    have hidx : st.p.lvlIdx = 0 := by unfold Parser.lvlIdx; rw [hd1]; rfl
    rcases tok_arrBegin sn oa od hsh he rs hrem hvp _ rfl with h | ⟨r1, r2, r3, r4, L', a1, a2, a3, r5⟩ | ⟨r1, r2, r3, L', hsim, r5⟩
    · exact Or.inl h
    · refine Or.inr (Or.inr (Or.inl ⟨[rootArrGrp], ?_⟩))
      rw [hidx] at r5 a1 a2
      refine ⟨hRs, r1, hfr.2.1.trans hF.hbuf, hfr.2.2.1.trans hF.hmd, hF.md255, hfr.2.2.2.1.trans hF.hpt, Or.inr rfl,
        by rw [r3, hd1]; rfl, by simp, ?_, ?_, ?_⟩
      · intro i hi
        rw [r3, hd1] at hi
        rw [r5, if_neg (by omega)]
        exact hF.zeros i hi
      · refine ⟨?_, GrpOk_rootArr _, ⟨fun _ => ⟨rfl, rfl⟩, fun _ => rfl⟩, trivial⟩
        show LvOk buf ((iter st sn oa od).1.p.getLvl 0) rootArrGrp true
        rw [r5, if_pos rfl]
        exact ⟨by rw [a1, hF.ad0]; rfl, fun _ => Or.inl a3, fun h => (by cases h), fun h => (by cases h), fun h => (by cases h)⟩
      · rw [hb, hrem, rem_step hsh hrem hfr r2]
        rfl
    · exact Or.inr (Or.inl (hF.same hRs r1 hfr r2 r3 L' hsim r5))

/-- at the end of the buffer the classification stage fails -/
theorem classify_eof {p : Parser} (hs : Shape p) (he : p.err = .none) (hu : p.used = p.size) (bc0 : Nat) :
    (classify p bc0).tok = .error := by
  rcases classify_spec hs he bc0 with ⟨h, _⟩ | ⟨_, c⟩
  · exact h
  · exfalso
    cases hbe : (classify p bc0).tok.isBeginEnd with
    | true => have := (c.be hbe).2.2.2; omega
    | false =>
      have h1 := c.sc hbe
      have h2 := c.shape.hus
      have h3 : (classify p bc0).p.size = p.size := c.frame.2.2.2.1
      omega

/-- the parser between two passes through the loop body, and between two calls -/
structure Inv (buf : Array UInt8) (md t : Nat) (p : Parser) : Prop where
  shape : Shape p
  hbuf : p.buf = buf
  hmd : p.maxDepth = md
  hpt : p.ptype = t
  res : Res buf md t p

theorem Inv.ofErr {p : Parser} (hs : Shape p) (hb : p.buf = buf) (hm : p.maxDepth = md) (ht : p.ptype = t) (he : p.err ≠ .none) :
    Inv buf md t p := ⟨hs, hb, hm, ht, Or.inl he⟩

/-- one pass through the loop body, any mode -/
theorem iter_inv {st : LoopSt} (hI : Inv buf md t st.p) (he : st.p.err = .none) (sn : Option (List UInt8)) (oa od : Nat) :
    Inv buf md t (iter st sn oa od).1.p := by
  have hspec := iter_spec st sn oa od hI.shape he
  have hfr := hspec.frame
  refine ⟨hspec.shape, hfr.2.1.trans hI.hbuf, hfr.2.2.1.trans hI.hmd, hfr.2.2.2.1.trans hI.hpt, ?_⟩
  rcases hI.res with h | hF | ⟨gs, hZ⟩ | ⟨hu, _⟩
  · exact absurd he h
  · exact zf_iter hF sn oa od
  · exact zg_iter hZ sn oa od
  · exact Or.inl (iter_err_classify hI.shape he (classify_eof hI.shape he hu st.bc))

/-- the loop -/
theorem advLoop_inv (f : Nat) (st : LoopSt) (sn : Option (List UInt8)) (oa od : Nat)
    (hI : Inv buf md t st.p) (he : st.p.err = .none) : Inv buf md t (advLoop f st sn oa od).1.p := by
  induction f generalizing st with
  | zero => exact hI
  | succ f ih =>
    have h1 := iter_inv hI he sn oa od
    have hspec := iter_spec st sn oa od hI.shape he
    unfold advLoop
    generalize iter st sn oa od = r at h1 hspec
    obtain ⟨st', out⟩ := r
    cases out with
    | ret b => exact h1
    | stop => exact h1
    | cont => exact ih st' h1 (hspec.cont rfl).1

/-- `_advance_parsing` -/
theorem advance_inv (p : Parser) (scan : Scan) (sn : Option (List UInt8)) (hI : Inv buf md t p) :
    Inv buf md t (advance p scan sn).p := by
  unfold advance
  by_cases he : p.err = .none
  · rw [if_neg (by simp [he])]
    simp only [touchLvl_of_lt hI.shape.cur_lt]
    have ls := advLoop_spec (p.size - p.used + 2) ⟨p, some scan, 0, []⟩ sn (p.getLvl p.cur).ad p.depth hI.shape he (by simp)
    have li := advLoop_inv (p.size - p.used + 2) ⟨p, some scan, 0, []⟩ sn (p.getLvl p.cur).ad p.depth hI he
    generalize advLoop (p.size - p.used + 2) ⟨p, some scan, 0, []⟩ sn (p.getLvl p.cur).ad p.depth = r at ls li
    cases hr : r.2 with
    | done b => simp only; exact li
    | outOfFuel => exact absurd hr ls.fuel
  · rw [if_pos (by simpa using he)]
    exact hI

end
end Binson
