"""Per-property configuration of ./check: which correspondence profiles run, which oracle tags
count as this property's violations, who owns a sanitizer abort."""

A_MODEL = 'the hand-written Lean model corresponds to the C code only as far as the differential run explores (differential testing, not proof)'
A_SIZE = 'buffer size < 2^63 (size_t wrap-around branches of _check_boundary/_write are dead); max_depth <= 255 (uint_fast8_t is 8 bits on this target)'
A_LIBC = 'libc: memcmp/memset/memmove/strlen/snprintf/printf behave per ISO C; %lld and %f are parameters of the theorems (executable instances compared with glibc each run)'

CONFIG = {
 'C01': dict(level='proof', tags={'C01'}, owns_crash=['parser', 'other'],
             profiles=[('any', 3000, 60000), ('reuse', 1000, 20000), ('verify', 1500, 40000), ('nav', 1000, 20000)],
             assumptions=[A_MODEL, A_SIZE, 'field lookups are issued only while positioned inside an object (documented)']),
 'C02': dict(level='proof', tags={'C02'}, profiles=[('verify', 6000, 300000), ('stream', 500, 10000), ('xverify', 4, 5)], assumptions=[A_MODEL, A_SIZE]),
 'C03': dict(level='proof', tags={'C03'}, profiles=[('walk', 1500, 40000), ('navg', 1500, 40000)], assumptions=[A_MODEL, A_SIZE]),
 'C04': dict(level='proof', tags={'C04'}, owns_crash=['writer'], profiles=[('writer', 1200, 30000)], assumptions=[A_MODEL, A_SIZE, 'valid arguments: non-NULL pointers, lengths <= INT32_MAX']),
 'C05': dict(level='proof', tags={'C05'}, profiles=[('rt', 800, 20000), ('writer', 600, 10000)], assumptions=[A_MODEL, A_SIZE]),
 'C06': dict(level='proof', tags={'C06'}, profiles=[('nav', 4000, 150000), ('navg', 1000, 30000), ('xnav', 46, 58)], assumptions=[A_MODEL, A_SIZE]),
 'C07': dict(level='proof', tags={'C07'}, profiles=[('nav', 4000, 150000), ('xnav', 46, 57)], assumptions=[A_MODEL, A_SIZE]),
 'C08': dict(level='proof', tags={'C08'}, profiles=[('stream', 5000, 200000)], assumptions=[A_MODEL, A_SIZE]),
 'C09': dict(level='proof', tags={'C09'}, profiles=[('any', 3000, 60000), ('writer', 800, 20000), ('stream', 800, 20000)], assumptions=[A_MODEL, A_SIZE]),
 'C10': dict(level='proof', tags={'C10'}, profiles=[('tr', 3000, 100000), ('rt', 500, 10000)], assumptions=[A_MODEL, A_SIZE]),
 'C11': dict(level='proof', tags={'C11'}, profiles=[('nav', 4000, 150000), ('xnav', 46, 57)], assumptions=[A_MODEL, A_SIZE]),
 'C12': dict(level='proof', tags={'C12'}, profiles=[('reuse', 3000, 100000), ('writer', 500, 10000)], assumptions=[A_MODEL, A_SIZE]),
 'C13': dict(level='proof', tags={'C13'}, owns_crash=['print'], profiles=[('print', 1200, 30000), ('any', 800, 10000)], assumptions=[A_MODEL, A_SIZE, A_LIBC]),
 'C14': dict(level='proof', tags={'C14'}, profiles=[('print', 1500, 40000)], assumptions=[A_MODEL, A_SIZE, A_LIBC]),
 'C16': dict(level='proof', tags={'C16'}, owns_crash=['timeout'], profiles=[('any', 3000, 60000), ('verify', 2000, 60000), ('stream', 1500, 40000)], assumptions=[A_MODEL, A_SIZE]),
 'C15': dict(level='proof', tags={'C15'}, profiles=[('cpp-trees', 0, 0), ('cpp-bytes', 0, 0)], special='c15', assumptions=[A_MODEL, A_SIZE, 'std::map orders std::string keys as unsigned bytes; std::string/std::vector have value semantics', 'crashes, uninitialised reads and the exception machinery are runtime behaviour outside the Lean model: decided by the ASan+UBSan harness with a poisoned stack (partial)']),
 'C17': dict(level='proof', tags=set(), profiles=[], special='c17'),
 'C18': dict(level='translation_validation', tags=set(), profiles=[], special='c18'),
}
