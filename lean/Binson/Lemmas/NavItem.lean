/-
  Layer 4, part 11: from the contents of the current state entry to `ItemMatches` - every getter
  answers what the annotated tree says about the child just returned.
-/
import Binson.Lemmas.NavSpec
namespace Binson

theorem itemMatches_of (p : Parser) (he : p.err = .none) (v : Value) (nm : Option (Bytes × Span)) (off : Nat)
    (hty : (p.getLvl p.cur).ctype = (annotate nm off v).item.ty)
    (hname : ∀ b s, nm = some (b, s) → (p.getLvl p.cur).name = some s ∧ p.slice s = b ∧ s.off + s.len ≤ p.size)
    (hsc : v.isContainer = false → (p.getLvl p.cur).val = (annotate nm off v).item.val ∧
      ∀ s, (annotate nm off v).item.val = .span s → p.slice s = (annotate nm off v).item.payload ∧ s.off + s.len ≤ p.size) :
    ItemMatches p (annotate nm off v).item := by
  have hnm : ∀ b s, (annotate nm off v).item.name = some (b, s) → getName p = (p, some s) ∧ p.slice s = b ∧ s.off + s.len ≤ p.size := by
    intro b s h
    rw [annotate_item_name] at h
    obtain ⟨h1, h2, h3⟩ := hname b s h
    refine ⟨?_, h2, h3⟩
    unfold getName
    rw [if_neg (by simp [he]), h1]
  cases v with
  | bool b =>
    obtain ⟨hv, _⟩ := hsc rfl
    simp only [annotate, Node.item] at hty hv
    refine ⟨?_, hnm, ?_, ?_, ?_, ?_, ?_, ?_, ?_⟩ <;>
      simp [getType, getInteger, getBoolean, getDouble, getStringBbuf, getBytesBbuf, stringEquals, curSpan, annotate, Node.item, he, hty, hv]
  | int i =>
    obtain ⟨hv, _⟩ := hsc rfl
    simp only [annotate, Node.item] at hty hv
    refine ⟨?_, hnm, ?_, ?_, ?_, ?_, ?_, ?_, ?_⟩ <;>
      simp [getType, getInteger, getBoolean, getDouble, getStringBbuf, getBytesBbuf, stringEquals, curSpan, annotate, Node.item, he, hty, hv]
  | dbl d =>
    obtain ⟨hv, _⟩ := hsc rfl
    simp only [annotate, Node.item] at hty hv
    refine ⟨?_, hnm, ?_, ?_, ?_, ?_, ?_, ?_, ?_⟩ <;>
      simp [getType, getInteger, getBoolean, getDouble, getStringBbuf, getBytesBbuf, stringEquals, curSpan, annotate, Node.item, he, hty, hv]
  | str s =>
    obtain ⟨hv, hp⟩ := hsc rfl
    simp only [annotate, Node.item] at hty hv hp
    have hp' := hp _ rfl
    refine ⟨?_, hnm, ?_, ?_, ?_, ?_, ?_, ?_, ?_⟩
    · simp [getType, he, hty, annotate, Node.item]
    · simp [getInteger, he, hty, annotate, Node.item]
    · simp [getBoolean, he, hty, annotate, Node.item]
    · simp [getDouble, he, hty, annotate, Node.item]
    · simp [getStringBbuf, curSpan, he, hty, hv, annotate, Node.item]
    · simp [getBytesBbuf, he, hty, annotate, Node.item]
    · intro sp h
      simp only [annotate, Node.item, Val.span.injEq] at h ⊢
      subst h; exact hp'
    · intro t
      simp only [stringEquals, curSpan, he, hty, hv, annotate, Node.item, and_self, if_true, true_and]
      rw [hp'.1]
      by_cases h : s = t
      · simp [h, (cmpBytes_eq_zero t t).mpr rfl]
      · have : ¬ cmpBytes s t = 0 := fun hc => h ((cmpBytes_eq_zero s t).mp hc)
        simp [h, this]
  | bytes s =>
    obtain ⟨hv, hp⟩ := hsc rfl
    simp only [annotate, Node.item] at hty hv hp
    have hp' := hp _ rfl
    refine ⟨?_, hnm, ?_, ?_, ?_, ?_, ?_, ?_, ?_⟩
    · simp [getType, he, hty, annotate, Node.item]
    · simp [getInteger, he, hty, annotate, Node.item]
    · simp [getBoolean, he, hty, annotate, Node.item]
    · simp [getDouble, he, hty, annotate, Node.item]
    · simp [getStringBbuf, he, hty, annotate, Node.item]
    · simp [getBytesBbuf, curSpan, he, hty, hv, annotate, Node.item]
    · intro sp h
      simp only [annotate, Node.item, Val.span.injEq] at h ⊢
      subst h; exact hp'
    · intro t
      simp [stringEquals, he, hty, annotate, Node.item]
  | arr xs =>
    simp only [annotate, Node.item] at hty
    refine ⟨?_, hnm, ?_, ?_, ?_, ?_, ?_, ?_, ?_⟩ <;>
      simp [getType, getInteger, getBoolean, getDouble, getStringBbuf, getBytesBbuf, stringEquals, annotate, Node.item, he, hty]
  | obj fs =>
    simp only [annotate, Node.item] at hty
    refine ⟨?_, hnm, ?_, ?_, ?_, ?_, ?_, ?_, ?_⟩ <;>
      simp [getType, getInteger, getBoolean, getDouble, getStringBbuf, getBytesBbuf, stringEquals, annotate, Node.item, he, hty]

end Binson
