#!/bin/sh
# Runs the repository's pinned test suite from /repo's current working tree with the
# verification guard OFF (no -DBINSON_VERIF), exactly as the baseline was configured.
# Builds in a scratch directory outside /repo and /verif and removes it afterwards.
set -e
REPO=${VERIF_REPO:-/repo}
D=$(mktemp -d /var/tmp/binson-baseline.XXXXXX)
trap 'rm -rf "$D"' EXIT
cmake -G Ninja -S "$REPO" -B "$D" -DCMAKE_BUILD_TYPE=RelWithDebInfo -DBUILD_TESTS=ON -DWITH_PRINT=ON -DWITH_CPP=ON -DCMAKE_C_FLAGS=-Wno-error > "$D/configure.log" 2>&1 || { tail -30 "$D/configure.log"; exit 2; }
cmake --build "$D" > "$D/build.log" 2>&1 || { tail -40 "$D/build.log"; exit 2; }
ctest --test-dir "$D" -j8 --timeout 900 > "$D/ctest.log" 2>&1 || { tail -40 "$D/ctest.log"; exit 1; }
tail -3 "$D/ctest.log"
