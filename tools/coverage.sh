#!/bin/sh
# tools/coverage.sh : which lines of /repo/src does the correspondence run execute? (not a registered check)
# A breaking change in a line the harness never executes cannot be caught by the correspondence run, so the lines
# left over must be ones the properties exclude (NULL-pointer guards, invalid configurations) or dead code.
# Builds the harnesses with gcov instrumentation in /verif/build/cov, runs every profile, prints the unexecuted lines.
set -e
ROOT=$(cd "$(dirname "$0")/.." && pwd); REPO=${VERIF_REPO:-/repo}
D=$ROOT/build/cov; rm -rf "$D"; mkdir -p "$D"; cd "$D"
gcc -std=gnu11 -w -O0 -g --coverage -DBINSON_PARSER_WITH_PRINT -I$REPO/include $ROOT/harness/drive.c $REPO/src/binson_parser.c $REPO/src/binson_writer.c -o drive_cov
for prof in verify nav navg walk any stream print writer rt tr reuse; do ./drive_cov gen $prof 7 ${N:-4000} ops.$prof impl.$prof >/dev/null 2>&1 || true; done
./drive_cov gen xverify 1000 3 ox ix >/dev/null 2>&1 || true; ./drive_cov gen xnav 1000 35 ox ix >/dev/null 2>&1 || true
for f in $ROOT/corpus/*.txt; do grep -v "^#" $f > c.ops; ./drive_cov replay c.ops c.impl >/dev/null 2>&1 || true; done
gcov -b drive_cov-binson_parser.gcda drive_cov-binson_writer.gcda 2>/dev/null | grep -A3 "src/binson_parser.c'\|src/binson_writer.c'" | grep -E "File|Lines|Taken"
for f in binson_parser.c binson_writer.c; do echo "--- unexecuted lines of $f"; grep "#####" $f.gcov | sed 's/^ *#####: *//' | cut -c1-120; done
g++ -std=gnu++14 -w -O0 -g --coverage -DBINSON_PARSER_WITH_PRINT -I$REPO/include $ROOT/harness/drive_cpp.cpp $REPO/src/binson.cpp -x c $REPO/src/binson_parser.c $REPO/src/binson_writer.c -o cpp_cov
./cpp_cov gen 5 3000 xo xi >/dev/null 2>&1 || true; ./drive_cov docs 9 6000 docs.ops >/dev/null 2>&1; ./cpp_cov replay docs.ops docs.impl >/dev/null 2>&1 || true
gcov -b cpp_cov-binson.gcda 2>/dev/null | grep -A3 "src/binson.cpp'" | grep -E "File|Lines|Taken"
echo "--- unexecuted lines of binson.cpp"; grep "#####" binson.cpp.gcov | sed 's/^ *#####: *//' | cut -c1-120
cd "$ROOT"; rm -rf "$D"
