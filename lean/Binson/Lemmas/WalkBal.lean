/-
  Traversal on ARBITRARY bytes, part 6: the depth-balance of the C++ `deserialize` recursion.
  Whenever `deseralizeItem` / `deseralizeItems` / the array loop return normally, either the
  buffer is a well-formed document anyway (`Accept`), or the parser is error-free at the depth
  it had on entry - by induction on the fuel, from the per-call facts of parts 2-5 and the C08
  invariant `Inv`, which every navigation call preserves.
-/
import Binson.Lemmas.WalkModeLO
import Binson.Lemmas.WalkModeEnter
import Binson.Lemmas.WalkModeV
import Binson.Lemmas.WalkModeLA
import Binson.Model.Cpp
namespace Binson

theorem walk_getName_noerr (p : Parser) (h : (getName p).1.err = .none) : (getName p).1 = p ∧ p.err = .none := by
  unfold getName at h ⊢
  by_cases he : p.err ≠ .none
  · rw [if_pos he] at h ⊢; exact absurd h he
  · rw [if_neg he] at h ⊢
    have he' : p.err = .none := Classical.not_not.mp he
    cases hn : (p.getLvl p.cur).name with
    | some s => exact ⟨rfl, he'⟩
    | none => rw [hn] at h; cases h

section
variable {buf : Array UInt8} {md : Nat}

/-- an invariant, error-free state at depth >= 1 of an object document: the open arrays of the
    current entry are counted and its flags word is one the loop wrote -/
theorem walk_inv_arr {p : Parser} (hI : Inv buf md 1 p) (he : p.err = .none) (hd : 1 ≤ p.depth) :
    Accept buf md 1 ∨
    ((p.getLvl p.lvlIdx).flags.inArray = true → 1 ≤ (p.getLvl p.lvlIdx).ad ∧ NoJunk (p.getLvl p.lvlIdx).flags) := by
  rcases hI.res with h | hF | ⟨gs, hZ⟩ | ⟨_, hacc⟩
  · exact absurd he h
  · have := hF.depth; omega
  · right
    obtain ⟨g, rest, rfl⟩ : ∃ g rest, gs = g :: rest := by
      cases gs with
      | nil => exact absurd rfl hZ.ne
      | cons g rest => exact ⟨g, rest, rfl⟩
    have hT := hZ.top
    intro hin
    rw [hT.idx] at hin ⊢
    refine ⟨?_, hT.lv.noJunk hT.ok⟩
    rcases hT.lv.cases hT.ok with ⟨_, _, h3⟩ | ⟨_, _, h3, _⟩ | ⟨_, _, h3, _⟩
    · exact h3
    · rw [h3] at hin; cases hin
    · rw [h3] at hin; cases hin
  · exact Or.inl hacc

/-- the walk's checkpoint: invariant, no error, depth `d` -/
def WalkAt (buf : Array UInt8) (md : Nat) (p : Parser) (d : Nat) : Prop := Inv buf md 1 p ∧ p.err = .none ∧ p.depth = d

theorem walk_bal (f : Nat) :
    (∀ (p : Parser) (v : Value) (p' : Parser) (d : Nat), cppDesItem f p = .ok (v, p') → WalkAt buf md p d → 1 ≤ d → walkPend p →
      Accept buf md 1 ∨ WalkAt buf md p' d) ∧
    (∀ (p : Parser) (acc fs : Fields) (p' : Parser) (d : Nat), cppDesItems f p acc = .ok (fs, p') → WalkAt buf md p d → 1 ≤ d →
      Accept buf md 1 ∨ WalkAt buf md p' d) ∧
    (∀ (p : Parser) (xs : Elems) (p' : Parser) (d : Nat), cppDesElems f p = .ok (xs, p') → WalkAt buf md p d → 1 ≤ d →
      Accept buf md 1 ∨ (Inv buf md 1 p' ∧ (p'.err = .none → p'.depth = d))) := by
  induction f with
  | zero =>
    refine ⟨fun p v p' d h => ?_, fun p acc fs p' d h => ?_, fun p xs p' d h => ?_⟩
    · rw [cppDesItem] at h; cases h
    · rw [cppDesItems] at h; cases h
    · rw [cppDesElems] at h; cases h
  | succ f ih =>
    obtain ⟨ihV, ihF, ihE⟩ := ih
    refine ⟨fun p v p' d h hW hd hP => ?_, fun p acc fs p' d h hW hd => ?_, fun p xs p' d h hW hd => ?_⟩
    · -- deseralizeItem
      obtain ⟨hI, he, hdp⟩ := hW
      have hs := hI.shape
      have hpt := hI.hpt
      rw [cppDesItem] at h
      simp only [he, ne_eq, not_true_eq_false, if_false] at h
      cases ht : getType p with
      | boolean => rw [ht] at h; simp only [Except.ok.injEq, Prod.mk.injEq] at h; rw [← h.2]; exact Or.inr ⟨hI, he, hdp⟩
      | integer => rw [ht] at h; simp only [Except.ok.injEq, Prod.mk.injEq] at h; rw [← h.2]; exact Or.inr ⟨hI, he, hdp⟩
      | double => rw [ht] at h; simp only [Except.ok.injEq, Prod.mk.injEq] at h; rw [← h.2]; exact Or.inr ⟨hI, he, hdp⟩
      | string =>
        rw [ht] at h
        simp only at h
        split at h
        · simp only [Except.ok.injEq, Prod.mk.injEq] at h; rw [← h.2]; exact Or.inr ⟨hI, he, hdp⟩
        · cases h
      | bytes =>
        rw [ht] at h
        simp only at h
        split at h
        · simp only [Except.ok.injEq, Prod.mk.injEq] at h; rw [← h.2]; exact Or.inr ⟨hI, he, hdp⟩
        · cases h
      | object =>
        rw [ht] at h
        simp only at h
        have hct : (p.getLvl p.cur).ctype = .object := by
          unfold getType at ht; rw [if_pos he] at ht; exact ht
        obtain ⟨rs, hrem⟩ := hP hct
        by_cases hg : (goIntoObject p).2 = true
        · simp only [hg, Bool.not_true, Bool.false_eq_true, if_false] at h
          obtain ⟨g1, g2⟩ := walk_goIntoObject_true p hs he rs hrem hg
          have gI : Inv buf md 1 (goIntoObject p).1 := advance_inv p .enterObj none hI
          cases hr : cppDesItems f (goIntoObject p).1 .nil with
          | error e => rw [hr] at h; cases h
          | ok r =>
            obtain ⟨fs, p2⟩ := r
            rw [hr] at h
            simp only at h
            rcases ihF _ _ _ _ (d + 1) hr ⟨gI, g1, by rw [g2, hdp]⟩ (by omega) with hacc | ⟨i2, e2, d2⟩
            · exact Or.inl hacc
            · by_cases hl : (leaveObject p2).2 = true
              · simp only [hl, Bool.not_true, Bool.false_eq_true, if_false, Except.ok.injEq, Prod.mk.injEq] at h
                obtain ⟨_, l1, l2, _⟩ := walk_leaveObject_true p2 i2.shape i2.hpt (by omega) hl
                rw [← h.2]
                exact Or.inr ⟨leaveObject_inv p2 i2, l1, by omega⟩
              · simp only [hl, Bool.not_false, if_true] at h; cases h
        · simp only [hg, Bool.not_false, if_true] at h; cases h
      | array =>
        rw [ht] at h
        simp only at h
        by_cases hg : (goIntoArray p).2 = true
        · simp only [hg, Bool.not_true, Bool.false_eq_true, if_false] at h
          obtain ⟨_, g1, g2⟩ := walk_goIntoArray_true p hs hg
          have gI : Inv buf md 1 (goIntoArray p).1 := advance_inv p .enterArr none hI
          cases hr : cppDesElems f (goIntoArray p).1 with
          | error e => rw [hr] at h; cases h
          | ok r =>
            obtain ⟨xs, p2⟩ := r
            rw [hr] at h
            simp only at h
            rcases ihE _ _ _ d hr ⟨gI, g1, by rw [g2, hdp]⟩ hd with hacc | ⟨i2, d2⟩
            · exact Or.inl hacc
            · by_cases hl : (leaveArray p2).2 = true
              · simp only [hl, Bool.not_true, Bool.false_eq_true, if_false, Except.ok.injEq, Prod.mk.injEq] at h
                -- `leave_array` returned true, so no error was pending before it
                have he2 : p2.err = .none := by
                  apply Classical.byContradiction
                  intro hne
                  have hl' := hl
                  unfold leaveArray at hl'
                  simp only [touchLvl_of_lt i2.shape.lvlIdx_lt] at hl'
                  split at hl'
                  · cases hl'
                  · rw [advance_err p2 _ _ hne] at hl'
                    simp only [Bool.not_false, if_true] at hl'
                    exact hne (by simpa using hl')
                have hd2 := d2 he2
                rcases walk_inv_arr i2 he2 (by omega) with hacc | had
                · exact Or.inl hacc
                · obtain ⟨_, l1, l2⟩ := walk_leaveArray_true p2 i2.shape i2.hpt (by omega) had hl
                  rw [← h.2]
                  exact Or.inr ⟨leaveArray_inv p2 i2, l1, by omega⟩
              · simp only [hl, Bool.not_false, if_true] at h; cases h
        · simp only [hg, Bool.not_false, if_true] at h; cases h
      | none => rw [ht] at h; cases h
      | objectEnd => rw [ht] at h; cases h
      | arrayEnd => rw [ht] at h; cases h
    · -- deseralizeItems
      obtain ⟨hI, he, hdp⟩ := hW
      have hs := hI.shape
      have hpt := hI.hpt
      obtain ⟨n1, n2⟩ := walk_next_post p hs he hpt
      have nI : Inv buf md 1 (next p).1 := next_inv p hI
      rw [cppDesItems] at h
      by_cases hn : (next p).2 = true
      · simp only [hn, Bool.not_true, Bool.false_eq_true, if_false] at h
        obtain ⟨ne, nP⟩ := n2 hn
        by_cases hge : (getName (next p).1).1.err = .none
        · obtain ⟨hgp, _⟩ := walk_getName_noerr _ hge
          simp only [hge, ne_eq, not_true_eq_false, if_false] at h
          cases hgn : (getName (next p).1).2 with
          | none => rw [hgn] at h; cases h
          | some s =>
            rw [hgn] at h
            simp only at h
            rw [hgp] at h
            cases hr : cppDesItem f (next p).1 with
            | error e => rw [hr] at h; cases h
            | ok r =>
              obtain ⟨v, p2⟩ := r
              rw [hr] at h
              simp only at h
              rcases ihV _ _ _ d hr ⟨nI, ne, by rw [n1 ne, hdp]⟩ hd nP with hacc | w2
              · exact Or.inl hacc
              · exact ihF _ _ _ _ d h w2 hd
        · simp only [hge, ne_eq, not_false_eq_true, if_true] at h; cases h
      · simp only [hn, Bool.not_false, if_true] at h
        by_cases hne : (next p).1.err = .none
        · simp only [hne, ne_eq, not_true_eq_false, if_false, Except.ok.injEq, Prod.mk.injEq] at h
          rw [← h.2]
          exact Or.inr ⟨nI, hne, by rw [n1 hne, hdp]⟩
        · simp only [hne, ne_eq, not_false_eq_true, if_true] at h; cases h
    · -- the array loop
      obtain ⟨hI, he, hdp⟩ := hW
      have hs := hI.shape
      have hpt := hI.hpt
      obtain ⟨n1, n2⟩ := walk_next_post p hs he hpt
      have nI : Inv buf md 1 (next p).1 := next_inv p hI
      rw [cppDesElems] at h
      by_cases hn : (next p).2 = true
      · simp only [hn, Bool.not_true, Bool.false_eq_true, if_false] at h
        obtain ⟨ne, nP⟩ := n2 hn
        cases hr : cppDesItem f (next p).1 with
        | error e => rw [hr] at h; cases h
        | ok r =>
          obtain ⟨v, p2⟩ := r
          rw [hr] at h
          simp only at h
          rcases ihV _ _ _ d hr ⟨nI, ne, by rw [n1 ne, hdp]⟩ hd nP with hacc | w2
          · exact Or.inl hacc
          · cases hr2 : cppDesElems f p2 with
            | error e => rw [hr2] at h; cases h
            | ok r2 =>
              obtain ⟨xs2, p3⟩ := r2
              rw [hr2] at h
              simp only [Except.ok.injEq, Prod.mk.injEq] at h
              rw [← h.2]
              exact ihE _ _ _ d hr2 w2 hd
      · simp only [hn, Bool.not_false, if_true, Except.ok.injEq, Prod.mk.injEq] at h
        rw [← h.2]
        exact Or.inr ⟨nI, fun hne => by rw [n1 hne, hdp]⟩

end
end Binson
