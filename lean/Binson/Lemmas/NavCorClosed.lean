/-
  Layer 4, corollaries, part 5: leaving the ROOT container, with what `RootClosed` asks in addition
  to the refinement: the cursor stands at the end of the buffer, and the root array's count is 0.
  The iteration lemmas are those of `NavTokEnd.lean`, re-proved with the additional conclusions.
-/
import Binson.Lemmas.NavCorBase
namespace Binson

/-- root `}` of an object document in LEAVE_OBJECT mode: the call returns; FORMAT iff bytes remain -/
theorem navc_iter_objEnd_leaveRoot {st : LoopSt} {sn : Option (List UInt8)} {oa od : Nat}
    (hsh : Shape st.p) (he : st.p.err = .none) (hsc : st.scan = some .leaveObj) (hd : st.p.depth = 1)
    (hf : (st.p.getLvl 0).flags = .expField) (hod : od = 1)
    (rest : Bytes) (hrem : st.p.rem = 0x41 :: rest) :
    ∃ st', iter st sn oa od = (st', .ret false) ∧
      st'.p.err = (if rest = [] then .none else .format) ∧ st'.p.depth = 0 ∧ st.p.Frame st'.p ∧
      st'.p.fault = false ∧ st'.p.oof = false ∧ (rest = [] → st'.p.used = st'.p.size) := by
  have hli := hsh.lvlIdx_lt
  have hidx : st.p.lvlIdx = 0 := by unfold Parser.lvlIdx; rw [hd]; rfl
  have hcl := classify_objEnd hsh he st.bc rest hrem
  obtain ⟨_, hlt, hr1⟩ := rem_cons hsh hrem
  have h0 : 0 < st.p.levels.size := by rw [← hidx]; exact hli
  have hspl := hsh.hsp he 0
  have hina : (st.p.getLvl 0).flags.inArray = false := by rw [hf]; rfl
  unfold iter
  simp only [hcl, show Tok.objEnd ≠ Tok.error by decide, if_false, hidx]
  rw [objBlock_end rfl (by decide)]
  simp only [arrBlock_notArr _ _ _ hina]
  show ∃ st', caseObjEnd _ _ _ _ _ _ = (st', .ret false) ∧ _
  unfold caseObjEnd
  rw [if_neg (by simp [hf]), hsc, if_pos (by rfl)]
  have hodp : od = st.p.depth := by rw [hd]; exact hod
  dsimp only
  rw [if_pos hodp]
  have hc : clear (some Scan.leaveObj) .leaveObj = none := rfl
  rw [hc, if_neg (by intro h; exact absurd h.2 (by decide))]
  obtain ⟨s1, s2, _, s4, s5, s6, s7, s8, s9, s10, s11⟩ :=
    setLvl_ok (p0 := st.p) hsh (Parser.Frame.refl _) (st.p.getLvl 0) h0 hspl
  generalize st.p.setLvl 0 (st.p.getLvl 0) = q at s1 s2 s4 s5 s6 s7 s8 s9 s10 s11
  have hq2 : Shape { q with used := q.used + 1 } := s1.withUsed (q.used + 1) (by rw [s4, s8]; omega)
  have hcur : ({ q with used := q.used + 1 } : Parser).cur < ({ q with used := q.used + 1 } : Parser).levels.size := hq2.cur_lt
  rw [touchLvl_of_lt hcur]
  obtain ⟨t1, t2, _, t4, t5, t6, t7, t8, t9, t10, t11⟩ :=
    setLvl_ok (p0 := st.p) hq2 (s2.trans ⟨rfl, rfl, rfl, rfl, rfl⟩) Level.zero hcur (Level.zero_spansOk _)
  generalize ({ q with used := q.used + 1 } : Parser).setLvl ({ q with used := q.used + 1 } : Parser).cur Level.zero = w
    at t1 t2 t4 t5 t6 t7 t8 t9 t10 t11
  have hwd : w.depth = 1 := by rw [t5]; show q.depth = 1; rw [s5, hd]
  rw [if_neg (by rw [hwd]; omega : ¬ w.depth > 1), if_pos hwd]
  try dsimp only
  have hwu : w.used = st.p.used + 1 := by rw [t4]; show q.used + 1 = _; rw [s4]
  have hws : w.size = st.p.size := t2.1
  have hwe : w.err = .none := by rw [t6]; show q.err = .none; rw [s6]; exact he
  have hrl : (w.used ≠ w.size) ↔ rest ≠ [] := by
    rw [hwu, hws]
    unfold Parser.rem at hr1
    simp only at hr1
    have hlen : (st.p.buf.toList.drop (st.p.used + 1)).length = st.p.size - (st.p.used + 1) := by
      simp [hsh.hbs]
    rw [hr1] at hlen
    constructor
    · intro h hr; rw [hr] at hlen; simp at hlen; omega
    · intro h hu
      have : rest.length = 0 := by rw [hlen]; omega
      exact h (List.eq_nil_of_length_eq_zero this)
  by_cases hr : rest = []
  · have hu : w.used = w.size := by
      by_cases h : w.used = w.size
      · exact h
      · exact absurd (hrl.mp h) (by simp [hr])
    simp only [hu, ne_eq, not_true_eq_false, if_false, hr, if_true]
    exact ⟨_, rfl, hwe, rfl, t2.trans ⟨rfl, rfl, rfl, rfl, rfl⟩, t1.hnf, t1.hno, fun _ => rfl⟩
  · have hu : ¬ w.used = w.size := fun h => (hrl.mpr hr) h
    simp only [hu, ne_eq, not_false_eq_true, if_true, hr, if_false]
    exact ⟨_, rfl, rfl, rfl, t2.trans ⟨rfl, rfl, rfl, rfl, rfl⟩, t1.hnf, t1.hno, fun h => h.elim⟩


/-- root `]` of an array document in LEAVE_ARRAY mode: the call returns; FORMAT iff bytes remain -/
theorem navc_iter_arrEnd_leaveRoot {st : LoopSt} {sn : Option (List UInt8)} {oa od : Nat}
    (hsh : Shape st.p) (he : st.p.err = .none) (hsc : st.scan = some .leaveArr) (hd : st.p.depth = 1) (hpt : st.p.ptype = 2)
    (hf : (st.p.getLvl 0).flags = .arr1 ∨ (st.p.getLvl 0).flags = .arr2) (had : (st.p.getLvl 0).ad = 1)
    (hoa : oa = 1) (hod : od = 1)
    (rest : Bytes) (hrem : st.p.rem = 0x43 :: rest) :
    ∃ st', iter st sn oa od = (st', .ret false) ∧
      st'.p.err = (if rest = [] then .none else .format) ∧ st'.p.depth = 1 ∧ st.p.Frame st'.p ∧
      st'.p.fault = false ∧ st'.p.oof = false ∧ (rest = [] → st'.p.used = st'.p.size ∧ (st'.p.getLvl 0).ad = 0) := by
  have hli := hsh.lvlIdx_lt
  have hidx : st.p.lvlIdx = 0 := by unfold Parser.lvlIdx; rw [hd]; rfl
  have hcl := classify_arrEnd hsh he st.bc rest hrem
  obtain ⟨_, hlt, hr1⟩ := rem_cons hsh hrem
  have h0 : 0 < st.p.levels.size := by rw [← hidx]; exact hli
  have hspl := hsh.hsp he 0
  have hina : (st.p.getLvl 0).flags.inArray = true := by rcases hf with h | h <;> rw [h] <;> rfl
  unfold iter
  simp only [hcl, show Tok.arrEnd ≠ Tok.error by decide, if_false, hidx]
  rw [objBlock_end rfl (by decide)]
  simp only [arrBlock_orig_end (d := st.p.depth) _ hina (hoa.trans had.symm) (hod.trans hd.symm), hsc]
  show ∃ st', caseArrEnd _ _ _ _ _ _ _ = (st', .ret false) ∧ _
  unfold caseArrEnd
  simp only [hina, Bool.not_true, Bool.false_eq_true, if_false]
  have hc : clear (some Scan.leaveArr) .value = some .leaveArr := rfl
  rw [hc, if_pos (by rfl)]
  try dsimp only
  rw [if_pos (show od = st.p.depth ∧ oa = (st.p.getLvl 0).ad from ⟨hod.trans hd.symm, hoa.trans had.symm⟩), if_neg (by rw [had]; decide : ¬ (st.p.getLvl 0).ad = 0)]
  have h10 : (st.p.getLvl 0).ad - 1 = 0 := by rw [had]
  simp only [h10, if_true]
  rw [if_pos ⟨hpt, hd⟩]
  have hq1 : Shape { st.p with used := st.p.used + 1 } := hsh.withUsed (st.p.used + 1) (by omega)
  obtain ⟨t1, t2, _, t4, t5, t6, t7, t8, t9, t10, t11⟩ :=
    setLvl_ok (p0 := st.p) hq1 ⟨rfl, rfl, rfl, rfl, rfl⟩ { st.p.getLvl 0 with ad := 0, flags := .expField } h0
      (SpansOk_of_fields rfl rfl hspl)
  have hg0 : ((({ st.p with used := st.p.used + 1 } : Parser).setLvl 0 { st.p.getLvl 0 with ad := 0, flags := .expField }).getLvl 0).ad = 0 := by
    rw [getLvl_setLvl (p := ({ st.p with used := st.p.used + 1 } : Parser)) _ h0 0]; rfl
  generalize ({ st.p with used := st.p.used + 1 } : Parser).setLvl 0 { st.p.getLvl 0 with ad := 0, flags := .expField } = w
    at t1 t2 t4 t5 t6 t7 t8 t9 t10 t11 hg0
  have hwu : w.used = st.p.used + 1 := t4
  have hws : w.size = st.p.size := t2.1
  have hwe : w.err = .none := t6.trans he
  have hwd : w.depth = 1 := t5.trans hd
  have hrl : (w.used ≠ w.size) ↔ rest ≠ [] := by
    rw [hwu, hws]
    unfold Parser.rem at hr1
    simp only at hr1
    have hlen : (st.p.buf.toList.drop (st.p.used + 1)).length = st.p.size - (st.p.used + 1) := by
      simp [hsh.hbs]
    rw [hr1] at hlen
    constructor
    · intro h hr; rw [hr] at hlen; simp at hlen; omega
    · intro h hu
      have : rest.length = 0 := by rw [hlen]; omega
      exact h (List.eq_nil_of_length_eq_zero this)
  by_cases hr : rest = []
  · have hu : w.used = w.size := by
      by_cases h : w.used = w.size
      · exact h
      · exact absurd (hrl.mp h) (by simp [hr])
    simp only [hu, ne_eq, not_true_eq_false, if_false, hr, if_true]
    exact ⟨_, rfl, hwe, hwd, t2, t1.hnf, t1.hno, fun _ => ⟨hu, hg0⟩⟩
  · have hu : ¬ w.used = w.size := fun h => (hrl.mpr hr) h
    simp only [hu, ne_eq, not_false_eq_true, if_true, hr, if_false]
    exact ⟨_, rfl, rfl, hwd, t2.trans ⟨rfl, rfl, rfl, rfl, rfl⟩, t1.hnf, t1.hno, fun h => h.elim⟩


/-- `leave_object` from the root object; as `leave_obj_root`, plus: at the end of the buffer -/
theorem navc_leave_obj_root {st : LoopSt} {oa od : Nat} (hO : AtOrig st oa od) (hsc : st.scan = some .leaveObj)
    (fs : Fields) (rest : Bytes) (hrem : st.p.rem = encFields fs ++ 0x41 :: rest) (hwf : wfFields (prevName st.p) fs = true)
    (hfl : (st.p.getLvl st.p.lvlIdx).flags = .expField) (had : (st.p.getLvl st.p.lvlIdx).ad = 0)
    (hfit : fitsF (st.p.maxDepth - st.p.depth) fs = true) (hd : st.p.depth = 1) :
    ∃ st', Halts none oa od st st' false ∧ st'.p.err = (if rest = [] then .none else .format) ∧ st'.p.depth = 0 ∧
      (rest = [] → st'.p.used = st'.p.size) := by
  obtain ⟨st1, s1, r1, hO1, c1, k1, f1⟩ := orig_fields fs st oa od _ hO hsc hrem hwf hfl had hfit
  have hidx : st.p.lvlIdx = 0 := by unfold Parser.lvlIdx; rw [hd]; rfl
  rw [hidx] at f1
  obtain ⟨st2, i2, e2, d2, _, _, _, u2⟩ := navc_iter_objEnd_leaveRoot (sn := none) (oa := oa) (od := od) hO1.shape hO1.err c1
    (by rw [k1.depth]; exact hd) f1 (by rw [hO.od]; exact hd) rest r1
  exact ⟨st2, s1.halts (Halts.ret i2), e2, d2, u2⟩

/-- `leave_array` from the root array; as `leave_arr_root`, plus: at the end of the buffer, count 0 -/
theorem navc_leave_arr_root {st : LoopSt} {oa od : Nat} (hO : AtOrig st oa od) (hsc : st.scan = some .leaveArr)
    (xs : Elems) (rest : Bytes) (hrem : st.p.rem = encElems xs ++ 0x43 :: rest) (hwf : wfElems xs = true)
    (hctx : ((st.p.getLvl st.p.lvlIdx).flags = .arr1 ∨ (st.p.getLvl st.p.lvlIdx).flags = .arr2) ∧ 1 ≤ (st.p.getLvl st.p.lvlIdx).ad)
    (hfit : fitsE (st.p.maxDepth - st.p.depth) (255 - (st.p.getLvl st.p.lvlIdx).ad) xs = true)
    (hr : (st.p.getLvl st.p.lvlIdx).ad = 1 ∧ st.p.ptype = 2 ∧ st.p.depth = 1) :
    ∃ st', Halts none oa od st st' false ∧ st'.p.err = (if rest = [] then .none else .format) ∧ st'.p.depth = 1 ∧
      (rest = [] → st'.p.used = st'.p.size ∧ (st'.p.getLvl 0).ad = 0) := by
  obtain ⟨st1, s1, r1, hO1, c1, k1, n1, f1⟩ := orig_elems xs st oa od _ hO hsc hrem hwf hctx hfit
  have hidx : st.p.lvlIdx = 0 := by unfold Parser.lvlIdx; rw [hr.2.2]; rfl
  have ha1 := k1.ad
  rw [hidx] at f1 ha1
  have had0 : (st.p.getLvl 0).ad = 1 := by rw [← hidx]; exact hr.1
  obtain ⟨st2, i2, e2, d2, _, _, _, u2⟩ := navc_iter_arrEnd_leaveRoot (sn := none) (oa := oa) (od := od) hO1.shape hO1.err c1
    (by rw [k1.depth]; exact hr.2.2) (by rw [k1.frame.2.2.2.1]; exact hr.2.1) f1 (by rw [ha1]; exact had0)
    (by rw [hO.oa]; exact hr.1) (by rw [hO.od]; exact hr.2.2) rest r1
  exact ⟨st2, s1.halts (Halts.ret i2), e2, d2, u2⟩

namespace Run

variable {p : Parser} {c : Cursor} {L : RLevel} {Ls : List RLevel} {pend : Option Value}

theorem navc_adv_leave_obj_root {pv : Option Bytes} {fs : Fields} (h : Run p c ⟨pv, some fs, []⟩ [] pend) :
    (advance p .leaveObj none).ret = false ∧ (advance p .leaveObj none).p.err = .none ∧
    (advance p .leaveObj none).p.depth = 0 ∧ (advance p .leaveObj none).p.used = (advance p .leaveObj none).p.size := by
  obtain ⟨st1, s1, o1, c1, k1, r1, n1, f1⟩ := h.prelude .leaveObj (Or.inr (Or.inl rfl)) none
  have hli := h.lvlIdx
  have hli1 : st1.p.lvlIdx = ([] : List RLevel).length := by rw [k1.lvlIdx]; exact hli
  have hd1 : st1.p.depth = 1 := by rw [k1.depth]; exact h.depth
  have hmd1 : st1.p.maxDepth = p.maxDepth := k1.frame.2.2.1
  obtain ⟨w1, w2⟩ := h.top.base _ rfl
  have had1 : (st1.p.getLvl st1.p.lvlIdx).ad = 0 := by
    have := k1.ad; simp only at this; rw [hli] at this; rw [hli1, this]; exact h.top.ad
  obtain ⟨st', hh, e', d', u'⟩ := navc_leave_obj_root o1 c1 fs [] (by rw [r1, tail_obj]; rfl) (by rw [h.prevName_eq k1 n1]; exact w1)
    (by rw [hli1, f1]; rfl) had1 (by rw [hmd1, hd1]; exact w2) hd1
  obtain ⟨e1, e2⟩ := advance_of_halts h.shape h.err .leaveObj none (s1.halts hh)
  rw [e1, e2]
  exact ⟨rfl, e', d', u' rfl⟩

theorem navc_adv_leave_arr_root {pv : Option Bytes} {xs : Elems} (h : Run p c ⟨pv, none, [xs]⟩ [] pend) :
    (advance p .leaveArr none).ret = false ∧ (advance p .leaveArr none).p.err = .none ∧
    (advance p .leaveArr none).p.depth = 1 ∧ (advance p .leaveArr none).p.used = (advance p .leaveArr none).p.size ∧
    ((advance p .leaveArr none).p.getLvl 0).ad = 0 := by
  obtain ⟨st1, s1, o1, c1, k1, r1, n1, f1⟩ := h.prelude .leaveArr (Or.inr (Or.inr (Or.inr rfl))) none
  have hli := h.lvlIdx
  have hli1 : st1.p.lvlIdx = ([] : List RLevel).length := by rw [k1.lvlIdx]; exact hli
  have hd1 : st1.p.depth = 1 := by rw [k1.depth]; exact h.depth
  have hmd1 : st1.p.maxDepth = p.maxDepth := k1.frame.2.2.1
  obtain ⟨w1, w2, _⟩ := h.top.arrs
  have had1 : (st1.p.getLvl st1.p.lvlIdx).ad = 1 := by
    have := k1.ad; simp only at this; rw [hli] at this; rw [hli1, this, h.top.ad]; rfl
  have hroot := h.rootArr_iff.mpr ⟨rfl, rfl, rfl⟩
  obtain ⟨st', hh, e', d', u'⟩ := navc_leave_arr_root o1 c1 xs [] (by rw [r1, tail_arr]; rfl) w1
    ⟨by rw [hli1, f1]; exact Or.inl rfl, by rw [had1]; omega⟩ (by rw [hmd1, hd1, had1]; exact w2)
    ⟨had1, by rw [k1.frame.2.2.2.1]; exact hroot.2.1, hd1⟩
  obtain ⟨e1, e2⟩ := advance_of_halts h.shape h.err .leaveArr none (s1.halts hh)
  rw [e1, e2]
  exact ⟨rfl, e', d', (u' rfl).1, (u' rfl).2⟩

/-- if `leave_object` leaves the root (the cursor says: done), the machine has closed the root object -/
theorem navc_leaveObj_closed (h : Run p c L Ls pend) (ha : c.allowed .leaveObj = true)
    (hd : (c.step .leaveObj).1.done = true) :
    (leaveObject p).1.used = (leaveObject p).1.size ∧ (leaveObject p).1.depth = 0 ∧ c.arrayRoot = false := by
  obtain ⟨pv, b, arrs⟩ := L
  cases arrs with
  | cons xs ar =>
    rw [h.c_eq, flat_arr, allowed_leave_obj] at ha
    cases ha
  | nil =>
    obtain ⟨fs, hb⟩ := h.top_obj rfl
    simp only at hb
    subst hb
    have hfl : (p.getLvl p.lvlIdx).flags.inObject = true := by
      rw [h.lvlIdx]
      rcases h.top_flags with hf | hf <;> rw [hf] <;> rfl
    have hce := h.c_eq
    rw [flat_obj] at hce
    cases Ls with
    | cons L2 Ls' =>
      obtain ⟨f, fr, hfl2⟩ := flat_ne_nil h.base.2
      have hc : c.step .leaveObj = (mkCur c.arrayRoot p.size (flat (L2 :: Ls')) none, ⟨true, none, none⟩) := by
        rw [hce, step_leave _ _ _ _ _ _ (Or.inl rfl), cframes_isEmpty, hfl2]
        rfl
      rw [hc] at hd
      cases hd
    | nil =>
      obtain ⟨e, e2, e3, e4⟩ := h.navc_adv_leave_obj_root
      have har : c.arrayRoot = false := by
        cases hr : c.arrayRoot with
        | false => rfl
        | true => have := h.base.1.mpr hr; cases this
      rw [leaveObject_eq h.shape hfl, e]
      exact ⟨e4, e3, har⟩

/-- if `leave_array` leaves the root, the machine has closed the root array -/
theorem navc_leaveArr_closed (h : Run p c L Ls pend) (ha : c.allowed .leaveArr = true)
    (hd : (c.step .leaveArr).1.done = true) :
    (leaveArray p).1.used = (leaveArray p).1.size ∧ (leaveArray p).1.depth = 1 ∧ ((leaveArray p).1.getLvl 0).ad = 0 ∧
    c.arrayRoot = true := by
  obtain ⟨pv, b, arrs⟩ := L
  cases arrs with
  | nil =>
    obtain ⟨fs, hb⟩ := h.top_obj rfl
    simp only at hb
    subst hb
    rw [h.c_eq, flat_obj, allowed_leave_arr] at ha
    cases ha
  | cons xs ar =>
    have hfl : (p.getLvl p.lvlIdx).flags.inArray = true := by
      rw [h.lvlIdx]
      rcases h.top_flags with hf | hf <;> rw [hf] <;> rfl
    have hce := h.c_eq
    rw [flat_arr] at hce
    by_cases hroot : IsRootArr b ar Ls
    · obtain ⟨h1, h2, h3⟩ := hroot
      subst h1; subst h2; subst h3
      obtain ⟨e, e2, e3, e4, e5⟩ := h.navc_adv_leave_arr_root
      have har : c.arrayRoot = true := h.base.1.mp rfl
      rw [leaveArray_eq h.shape hfl, e]
      exact ⟨e4, e3, e5, har⟩
    · obtain ⟨e, hr⟩ := h.adv_leave_arr hroot
      obtain ⟨f, fr, hfl2⟩ := flat_ne_nil hr.base
      have hc : c.step .leaveArr = (mkCur c.arrayRoot p.size (flat (⟨pv, b, ar⟩ :: Ls)) none, ⟨true, none, none⟩) := by
        rw [hce, step_leave _ _ _ _ _ _ (Or.inr rfl), cframes_isEmpty, hfl2]
        rfl
      rw [hc] at hd
      cases hd

end Run

end Binson
