/-
  Traversal on ARBITRARY bytes, part 3: `go_into_array` never changes the depth; `go_into_object`
  with a `{` at the cursor, when it returns true, has gone exactly one level down.
-/
import Binson.Lemmas.WalkRaw
namespace Binson

def walkEaC (d0 : Nat) (q : Parser) (s : Option Scan) : Prop := s = some .enterArr ∧ q.depth = d0
def walkEaS (d0 : Nat) (q : Parser) : Prop := q.err = .none ∧ q.depth = d0

theorem walk_ea_dispatch (st : LoopSt) (q : Parser) (lv : Level) (li : Nat) (tok : Tok) (span : Span) (bc oa od d0 : Nat)
    (hd : q.depth = d0) :
    WalkPost (walkDispatch st q lv li (some .enterArr) tok span bc none oa od) (walkEaC d0) (walkEaS d0) (fun _ => True) := by
  have fin : ∀ (p : Parser) (lv : Level) (li : Nat) (tok : Tok) (s : Option Scan) (f : Bool), p.depth = d0 →
      (s = some .enterArr ∨ (f = false ∧ s = none)) →
      WalkPost (finish st tok p lv li s f) (walkEaC d0) (walkEaS d0) (fun _ => True) := by
    intro p lv li tok s f hp hsf
    refine walk_post_finish _ _ _ _ _ _ _ (fun _ => trivial) (fun _ h => ?_)
      (fun h _ => ⟨by rw [setLvl_err]; exact h, by rw [setLvl_depth]; exact hp⟩)
    refine ⟨?_, by rw [setLvl_depth]; exact hp⟩
    rcases hsf with rfl | ⟨rfl, rfl⟩
    · rfl
    · simp [walkProceed, has] at h
  unfold walkDispatch
  cases tok with
  | objBegin =>
    simp only
    unfold caseObjBegin
    rw [if_neg (by rw [show has (some Scan.enterArr) [.verify, .enterObj, .value, .leaveArr, .leaveObj] = false from rfl]; simp)]
    exact fin _ _ _ _ _ _ hd (Or.inl rfl)
  | objEnd =>
    simp only
    unfold caseObjEnd
    split
    · exact fin _ _ _ _ _ _ hd (Or.inl rfl)
    · rw [if_neg (by rw [show has (some Scan.enterArr) [.verify, .leaveObj, .value, .leaveArr] = false from rfl]; simp)]
      exact walk_post_ret _ trivial
  | fieldName =>
    simp only
    unfold caseFieldName
    simp only
    have hdp : (touchName (q.touchBuf span.off span.len) lv.name).depth = d0 := by
      rw [walk_touchName_depth, walk_touchBuf_depth]; exact hd
    split
    · exact fin _ _ _ _ _ _ hdp (Or.inl rfl)
    · split
      · rw [show overshoot (touchName (q.touchBuf span.off span.len) lv.name) span none = false from rfl]
        simp only [Bool.false_eq_true, if_false, show clear (some Scan.enterArr) .value = some .enterArr from rfl]
        exact fin _ _ _ _ _ _ hdp (Or.inl rfl)
      · exact fin _ _ _ _ _ _ hdp (Or.inl rfl)
  | arrBegin =>
    simp only
    unfold caseArrBegin
    split
    · exact fin _ _ _ _ _ _ hd (Or.inl rfl)
    · simp only [show has (some Scan.enterArr) [.verify, .value, .enterArr, .leaveArr, .leaveObj] = true from rfl, if_true]
      exact fin _ _ _ _ _ _ hd (Or.inr ⟨rfl, rfl⟩)
  | arrEnd =>
    simp only
    unfold caseArrEnd
    split
    · exact fin _ _ _ _ _ _ hd (Or.inl rfl)
    · rw [if_neg (by rw [show has (some Scan.enterArr) [.verify, .value, .leaveArr, .leaveObj] = false from rfl]; simp)]
      exact walk_post_ret _ trivial
  | string | boolean | double | integer | bytes =>
    simp only
    unfold caseScalar
    simp only
    first
      | exact fin _ _ _ _ _ _ hd (Or.inl rfl)
      | (split
         · exact fin _ _ _ _ _ _ (by rw [walk_touchBuf_depth]; exact hd) (Or.inl rfl)
         · exact fin _ _ _ _ _ _ (by rw [walk_touchBuf_depth]; exact hd) (Or.inl rfl))
      | exact fin _ _ _ _ _ _ (by rw [walk_touchBuf_depth]; exact hd) (Or.inl rfl)
  | error =>
    simp only
    unfold caseScalar
    exact walk_post_ret _ trivial

theorem walk_ea_iter (st : LoopSt) (oa od d0 : Nat) (hs : Shape st.p) (he : st.p.err = .none) (hJ : walkEaC d0 st.p st.scan) :
    WalkPost (iter st none oa od) (walkEaC d0) (walkEaS d0) (fun _ => True) := by
  refine walk_iter_post hs he (fun _ _ => trivial) (fun c lv tok hC _ => ?_)
  rw [hJ.1, walk_arrBlock_scan_ne _ _ _ _ (by decide)]
  exact walk_ea_dispatch _ _ _ _ _ _ _ _ _ _ (hC.depth.trans hJ.2)

/-- **`go_into_array` returning true** leaves no error and the depth unchanged (whatever is at the cursor) -/
theorem walk_goIntoArray_true (p : Parser) (hs : Shape p) (h : (goIntoArray p).2 = true) :
    p.err = .none ∧ (goIntoArray p).1.err = .none ∧ (goIntoArray p).1.depth = p.depth := by
  unfold goIntoArray at h ⊢
  simp only at h ⊢
  by_cases he : p.err = .none
  · rcases walk_mode_adv p hs he .enterArr none (walkEaC p.depth) (walkEaS p.depth) (fun _ => True) ⟨rfl, rfl⟩
      (fun st i1 i2 _ i4 => walk_ea_iter st _ _ _ i1 i2 i4) with ⟨a1, a2⟩ | ⟨hc, _⟩
    · exact ⟨he, a1, a2⟩
    · rw [hc] at h; cases h
  · rw [advance_err p _ _ he] at h; cases h

/-! ### `go_into_object` on a pending `{` -/

theorem walk_eo_dispatch (st : LoopSt) (q : Parser) (lv : Level) (li : Nat) (span : Span) (bc oa od d0 : Nat)
    (hd : q.depth = d0) :
    WalkPost (walkDispatch st q lv li (some .enterObj) .objBegin span bc none oa od) (fun _ _ => False)
      (fun r => r.err = .none ∧ r.depth = d0 + 1) (fun _ => True) := by
  unfold walkDispatch
  simp only
  unfold caseObjBegin
  simp only [show has (some Scan.enterObj) [.verify, .enterObj, .value, .leaveArr, .leaveObj] = true from rfl, if_true,
    show clear (some Scan.enterObj) .enterObj = none from rfl]
  split
  · refine walk_post_finish _ _ _ _ _ _ _ (fun _ => trivial) (fun _ h => ?_) (fun h _ => ⟨by rw [setLvl_err]; exact h, ?_⟩)
    · simp [walkProceed, has] at h
    · rw [setLvl_depth, walk_touchLvl_depth]
      show (q.setLvl li lv).depth + 1 = d0 + 1
      rw [setLvl_depth, hd]
  · refine walk_post_finish _ _ _ _ _ _ _ (fun _ => trivial) (fun h => ?_) (fun h => ?_) <;> simp at h

/-- **`go_into_object` returning true with a `{` at the cursor**: one level down, no error -/
theorem walk_goIntoObject_true (p : Parser) (hs : Shape p) (he : p.err = .none) (rs : Bytes) (hrem : p.rem = 0x40 :: rs)
    (h : (goIntoObject p).2 = true) :
    (goIntoObject p).1.err = .none ∧ (goIntoObject p).1.depth = p.depth + 1 := by
  unfold goIntoObject at h ⊢
  simp only at h ⊢
  rcases walk_mode_adv p hs he .enterObj none (fun q s => q = p ∧ s = some .enterObj) (fun r => r.err = .none ∧ r.depth = p.depth + 1)
      (fun _ => True) ⟨rfl, rfl⟩
      (fun st i1 i2 _ i4 => by
        obtain ⟨e1, e2⟩ := i4
        have W : WalkPost (iter st none (p.getLvl p.cur).ad p.depth) (fun _ _ => False) (fun r => r.err = .none ∧ r.depth = p.depth + 1)
            (fun _ => True) := by
          refine walk_iter_post i1 i2 (fun _ _ => trivial) (fun c lv tok hC hob => ?_)
          have htok : c.tok = .objBegin := hC.tokObj ⟨rs, by rw [e1]; exact hrem⟩
          have ht : tok = .objBegin := by
            rcases (objBlock_spec hob).2.2.2.2 with h | ⟨h, _⟩
            · rw [h, htok]
            · rw [htok] at h; cases h
          rw [e2, walk_arrBlock_scan_ne _ _ _ _ (by decide), ht]
          exact walk_eo_dispatch _ _ _ _ _ _ _ _ _ (by rw [hC.depth, e1])
        exact W.mono (fun _ _ hf => hf.elim) (fun _ h => h) (fun _ h => h)) with a | ⟨hc, _⟩
  · exact a
  · rw [hc] at h; cases h

end Binson
