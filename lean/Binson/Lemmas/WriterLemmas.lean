/-
  Writer lemmas: what the `_write` calls of an op sequence are (`WOp.pieces`), what a run of
  `_write` calls does to the writer (`Writer.writes`), and the link to the canonical encoder.
  Used by Props/C04 (bounds + exact size), Props/C05 (output = `encode v`).
-/
import Binson.Lemmas.L0
namespace Binson

/-! ### definitions -/

/-- payloads of the `_write` calls one op makes, in order -/
def WOp.pieces : WOp → List (List UInt8)
  | .objBegin => [[0x40]] | .objEnd => [[0x41]] | .arrBegin => [[0x42]] | .arrEnd => [[0x43]]
  | .bool b => [[if b then 0x44 else 0x45]]
  | .int v => [packInt 0x10 v]
  | .dbl bits => [0x46 :: leBytesM 8 bits]
  | .str s => packInt 0x14 (s.length : Int) :: (if s.length > 0 then [s] else [])
  | .bytes s => packInt 0x18 (s.length : Int) :: (if s.length > 0 then [s] else [])
  | .raw s => [s]

def allPieces (ops : List WOp) : List (List UInt8) := ops.flatMap WOp.pieces

def totalLen (ps : List (List UInt8)) : Nat := (ps.map List.length).sum

/-- everything written before the first piece that did not fit (later pieces are suppressed
    even if they would fit) -/
def fittedPieces (cap : Nat) : Nat → List (List UInt8) → List UInt8
  | _, [] => []
  | used, p :: r => if used + p.length ≤ cap then p ++ fittedPieces cap (used + p.length) r else []

/-- valid arguments: string/bytes lengths within INT32_MAX -/
def WOp.Valid : WOp → Prop
  | .str s => s.length ≤ 2147483647 | .bytes s => s.length ≤ 2147483647 | _ => True

/-- a sequence of `_write` calls -/
def Writer.writes (w : Writer) (ps : List (List UInt8)) : Writer :=
  ps.foldl (fun w p => (w.write p).1) w

/-! ### `totalLen`, `allPieces`, `fittedPieces` -/

@[simp] theorem totalLen_nil : totalLen [] = 0 := rfl
@[simp] theorem totalLen_cons (p : List UInt8) (r : List (List UInt8)) :
    totalLen (p :: r) = p.length + totalLen r := by simp [totalLen]
@[simp] theorem totalLen_append (a b : List (List UInt8)) : totalLen (a ++ b) = totalLen a + totalLen b := by
  induction a with
  | nil => simp
  | cons p r ih => simp [ih]; omega

theorem totalLen_eq_flatten (ps : List (List UInt8)) : totalLen ps = ps.flatten.length := by
  induction ps with
  | nil => rfl
  | cons p r ih => simp [ih]

@[simp] theorem allPieces_nil : allPieces [] = [] := rfl
@[simp] theorem allPieces_cons (op : WOp) (r : List WOp) : allPieces (op :: r) = op.pieces ++ allPieces r := by
  simp [allPieces]
@[simp] theorem allPieces_append (a b : List WOp) : allPieces (a ++ b) = allPieces a ++ allPieces b := by
  simp [allPieces]

theorem fittedPieces_cons_pos (cap used : Nat) (p : List UInt8) (r : List (List UInt8)) (h : used + p.length ≤ cap) :
    fittedPieces cap used (p :: r) = p ++ fittedPieces cap (used + p.length) r := by
  rw [fittedPieces, if_pos h]
theorem fittedPieces_cons_neg (cap used : Nat) (p : List UInt8) (r : List (List UInt8)) (h : ¬ used + p.length ≤ cap) :
    fittedPieces cap used (p :: r) = [] := by
  rw [fittedPieces, if_neg h]

theorem fittedPieces_length_le (cap : Nat) (ps : List (List UInt8)) (used : Nat) (h : used ≤ cap) :
    used + (fittedPieces cap used ps).length ≤ cap := by
  induction ps generalizing used with
  | nil => simpa [fittedPieces] using h
  | cons p r ih =>
    unfold fittedPieces
    split
    · rename_i hfit
      have := ih (used + p.length) hfit
      simp only [List.length_append]; omega
    · simpa using h

/-- if everything fits, everything is written -/
theorem fittedPieces_all (cap : Nat) (ps : List (List UInt8)) (used : Nat) (h : used + totalLen ps ≤ cap) :
    fittedPieces cap used ps = ps.flatten := by
  induction ps generalizing used with
  | nil => rfl
  | cons p r ih =>
    rw [totalLen_cons] at h
    unfold fittedPieces
    rw [if_pos (by omega), ih (used + p.length) (by omega)]
    simp

/-! ### `storeAt` -/

@[simp] theorem storeAt_size (mem : Array UInt8) (off : Nat) (data : List UInt8) :
    (storeAt mem off data).size = mem.size := by
  induction data generalizing mem off with
  | nil => rfl
  | cons b r ih => simp [storeAt, ih]

/-- `storeAt` at the end of a prefix `pre` overwrites the first `data.length` bytes that follow -/
theorem storeAt_toList_split (data : List UInt8) (mem : Array UInt8) (pre rest : List UInt8)
    (hm : mem.toList = pre ++ rest) (hl : data.length ≤ rest.length) :
    (storeAt mem pre.length data).toList = pre ++ data ++ rest.drop data.length := by
  induction data generalizing mem pre rest with
  | nil => simpa [storeAt] using hm
  | cons b d ih =>
    cases rest with
    | nil => simp at hl
    | cons x rest' =>
      simp only [List.length_cons] at hl
      have hm' : (mem.setIfInBounds pre.length b).toList = (pre ++ [b]) ++ rest' := by
        rw [Array.toList_setIfInBounds, hm]
        simp
      have := ih (mem.setIfInBounds pre.length b) (pre ++ [b]) rest' hm' (by omega)
      simp only [List.length_append, List.length_cons, List.length_nil] at this
      simp only [storeAt]
      rw [this]
      simp

theorem storeAt_toList (mem : Array UInt8) (off : Nat) (data : List UInt8) (h : off + data.length ≤ mem.size) :
    (storeAt mem off data).toList = mem.toList.take off ++ data ++ mem.toList.drop (off + data.length) := by
  have hlen : (mem.toList.take off).length = off := by
    simp; omega
  have := storeAt_toList_split data mem (mem.toList.take off) (mem.toList.drop off)
    (by simp) (by simp; omega)
  rw [hlen] at this
  rw [this, List.drop_drop]

/-! ### one `_write` -/

/-- a write that fits into the claimed capacity of a healthy writer -/
theorem write_ok (w : Writer) (data : List UInt8) (hb : w.bufNull = false) (he : w.err = .none)
    (hfit : w.used + data.length ≤ w.cap) (hc : w.cap < two64) :
    w.write data = ({ w with mem := storeAt w.mem w.used data,
                             fault := w.fault || decide (w.mem.size < w.used + data.length),
                             used := w.used + data.length }, true) := by
  have hmod : (w.used + data.length) % two64 = w.used + data.length := Nat.mod_eq_of_lt (by omega)
  have h1 : ¬ (w.used + data.length > w.cap) := by omega
  have h2 : ¬ (w.used + data.length < w.used) := by omega
  unfold Writer.write
  simp only [hmod, h1, h2, hb, he, if_false, if_true, decide_true, Bool.false_eq_true]

/-- a write that does not fit: nothing stored, error `range`, counter advances -/
theorem write_fail (w : Writer) (data : List UInt8) (hb : w.bufNull = false)
    (hfit : w.cap < w.used + data.length) (hc : w.used + data.length < two64) :
    w.write data = ({ w with err := .range, used := w.used + data.length }, false) := by
  have hmod : (w.used + data.length) % two64 = w.used + data.length := Nat.mod_eq_of_lt hc
  have h1 : w.used + data.length > w.cap := hfit
  unfold Writer.write
  simp [hmod, h1, hb]

/-- a write on a writer whose error is already set -/
theorem write_latched (w : Writer) (data : List UInt8) (h : w.err ≠ .none) :
    (w.write data).2 = false ∧ (w.write data).1.mem = w.mem ∧ (w.write data).1.err ≠ .none ∧
    (w.write data).1.fault = w.fault ∧ (w.write data).1.used = (w.used + data.length) % two64 ∧
    (w.write data).1.cap = w.cap ∧ (w.write data).1.bufNull = w.bufNull ∧
    (w.bufNull = false → w.err = .range → (w.write data).1.err = .range) := by
  have key : (if w.bufNull then Err.null else
      if (w.used + data.length) % two64 > w.cap then Err.range
      else if (w.used + data.length) % two64 < w.used then Err.range else w.err) ≠ .none := by
    split
    · simp
    · split
      · simp
      · split
        · simp
        · exact h
  unfold Writer.write
  simp only [key, if_false, decide_false]
  refine ⟨trivial, trivial, key, trivial, trivial, trivial, trivial, ?_⟩
  intro hb hr
  simp only [hb, hr, Bool.false_eq_true, if_false]
  split
  · rfl
  · split <;> rfl

/-! ### a sequence of `_write`s -/

@[simp] theorem writes_nil (w : Writer) : w.writes [] = w := rfl
@[simp] theorem writes_cons (w : Writer) (p : List UInt8) (r : List (List UInt8)) :
    w.writes (p :: r) = (w.write p).1.writes r := rfl
theorem writes_append (w : Writer) (a b : List (List UInt8)) : w.writes (a ++ b) = (w.writes a).writes b := by
  simp [Writer.writes]

/-- once the error is set, writes only move the counter -/
theorem writes_latched (ps : List (List UInt8)) (w : Writer) (h : w.err ≠ .none) :
    (w.writes ps).mem = w.mem ∧ (w.writes ps).err ≠ .none ∧ (w.writes ps).fault = w.fault ∧
    (w.writes ps).cap = w.cap ∧ (w.writes ps).bufNull = w.bufNull ∧
    (w.bufNull = false → w.err = .range → (w.writes ps).err = .range) ∧
    (w.used + totalLen ps < two64 → (w.writes ps).used = w.used + totalLen ps) := by
  induction ps generalizing w with
  | nil => simp [h]
  | cons p r ih =>
    obtain ⟨_, hmem, herr, hfault, hused, hcap, hbn, hrange⟩ := write_latched w p h
    obtain ⟨imem, ierr, ifault, icap, ibn, irange, iused⟩ := ih (w.write p).1 herr
    rw [writes_cons]
    refine ⟨by rw [imem, hmem], ierr, by rw [ifault, hfault], by rw [icap, hcap], by rw [ibn, hbn], ?_, ?_⟩
    · intro hb hr
      exact irange (by rw [hbn, hb]) (hrange hb hr)
    · intro hlt
      rw [totalLen_cons] at hlt
      have hmod : (w.used + p.length) % two64 = w.used + p.length := Nat.mod_eq_of_lt (by omega)
      rw [hused, hmod] at iused
      rw [iused (by omega), totalLen_cons]
      omega

/-- the invariant of a healthy writer over a sequence of writes: `pre` is what has been
    written so far, `rest` the not yet touched part of the buffer -/
theorem writes_inv (cap : Nat) (ps : List (List UInt8)) (w : Writer) (pre rest : List UInt8)
    (hcap : w.cap = cap) (hb : w.bufNull = false) (hf : w.fault = false) (hsz : w.mem.size = cap)
    (he : w.err = .none) (hu : w.used ≤ cap) (hc : cap < two64) (htot : w.used + totalLen ps < two64)
    (hm : w.mem.toList = pre ++ rest) (hpre : pre.length = w.used) :
    (w.writes ps).fault = false ∧ (w.writes ps).mem.size = cap ∧ (w.writes ps).cap = cap ∧
    (w.writes ps).bufNull = false ∧ (w.writes ps).used = w.used + totalLen ps ∧
    ((w.writes ps).err = .range ↔ cap < w.used + totalLen ps) ∧
    ((w.writes ps).err = .none ∨ (w.writes ps).err = .range) ∧
    (w.writes ps).mem.toList = pre ++ fittedPieces cap w.used ps ++ rest.drop (fittedPieces cap w.used ps).length := by
  induction ps generalizing w pre rest with
  | nil =>
    refine ⟨hf, hsz, hcap, hb, by simp, ?_, Or.inl he, by simpa [fittedPieces] using hm⟩
    simp only [writes_nil, totalLen_nil, Nat.add_zero, he]
    constructor
    · intro h; cases h
    · intro h; omega
  | cons p r ih =>
    rw [totalLen_cons] at htot
    have hlen : pre.length + rest.length = cap := by
      have := congrArg List.length hm
      simp only [Array.length_toList, List.length_append] at this
      omega
    rw [writes_cons, totalLen_cons]
    by_cases hfit : w.used + p.length ≤ cap
    · -- the piece fits
      rw [write_ok w p hb he (by omega) (by omega)]
      have hm1 : (storeAt w.mem w.used p).toList = (pre ++ p) ++ rest.drop p.length := by
        rw [← hpre]
        exact storeAt_toList_split p w.mem pre rest hm (by omega)
      have hnf : (w.fault || decide (w.mem.size < w.used + p.length)) = false := by
        have : ¬ (w.mem.size < w.used + p.length) := by omega
        simp [hf, this]
      have := ih { w with mem := storeAt w.mem w.used p,
                          fault := w.fault || decide (w.mem.size < w.used + p.length),
                          used := w.used + p.length } (pre ++ p) (rest.drop p.length)
        hcap hb hnf (by simp [hsz]) he hfit (by simp only; omega) hm1 (by simp [hpre])
      simp only at this
      obtain ⟨i1, i2, i3, i4, i5, i6, i7, i8⟩ := this
      refine ⟨i1, i2, i3, i4, by rw [i5]; omega, ?_, i7, ?_⟩
      · rw [i6]; omega
      · rw [i8]
        rw [fittedPieces_cons_pos _ _ _ _ hfit]
        simp only [List.append_assoc, List.length_append, List.drop_drop]
    · -- the piece does not fit: the error latches
      rw [write_fail w p hb (by omega) (by omega)]
      obtain ⟨l1, l2, l3, l4, l5, l6, l7⟩ :=
        writes_latched r { w with err := .range, used := w.used + p.length } (by simp)
      simp only at l1 l3 l4 l5 l6 l7
      have hr := l6 hb trivial
      refine ⟨by rw [l3, hf], by rw [l1, hsz], by rw [l4, hcap], by rw [l5, hb], ?_, ?_, Or.inr hr, ?_⟩
      · rw [l7 (by omega)]; omega
      · rw [hr]; simp; omega
      · rw [l1, hm]
        rw [fittedPieces_cons_neg _ _ _ _ hfit]
        simp

/-! ### ops -/

theorem writeBlob_eq_writes (w : Writer) (base : UInt8) (s : List UInt8) (h : s.length ≤ 2147483647) :
    (w.writeBlob base s).1 =
      w.writes (packInt base (s.length : Int) :: (if s.length > 0 then [s] else [])) := by
  have h' : ¬ (s.length > 2147483647) := by omega
  unfold Writer.writeBlob
  simp only [h', if_false]
  by_cases h0 : s.length > 0
  · simp only [h0, if_true, writes_cons, writes_nil]
  · simp only [h0, if_false, writes_cons, writes_nil]

/-- a valid call is exactly the `_write`s of its pieces -/
theorem step_eq_writes (w : Writer) (op : WOp) (hv : op.Valid) : (w.step op).1 = w.writes op.pieces := by
  cases op with
  | str s => exact writeBlob_eq_writes w 0x14 s hv
  | bytes s => exact writeBlob_eq_writes w 0x18 s hv
  | _ => rfl

@[simp] theorem run_nil (w : Writer) : w.run [] = w := rfl
@[simp] theorem run_cons (w : Writer) (op : WOp) (r : List WOp) : w.run (op :: r) = (w.step op).1.run r := rfl

theorem run_eq_writes (ops : List WOp) (w : Writer) (hv : ∀ op ∈ ops, op.Valid) :
    w.run ops = w.writes (allPieces ops) := by
  induction ops generalizing w with
  | nil => rfl
  | cons op r ih =>
    rw [run_cons, allPieces_cons, writes_append, step_eq_writes w op (hv op (by simp)),
      ih _ (fun o ho => hv o (by simp [ho]))]

/-- `writeBlob` on a writer whose error is already set (any length, also > INT32_MAX) -/
theorem writeBlob_latched (w : Writer) (base : UInt8) (s : List UInt8) (h : w.err ≠ .none) :
    (w.writeBlob base s).2 = false ∧ (w.writeBlob base s).1.mem = w.mem ∧ (w.writeBlob base s).1.err ≠ .none ∧
    (w.writeBlob base s).1.fault = w.fault ∧
    (w.writeBlob base s).1.used =
      (w.used + totalLen (packInt base (s.length : Int) :: (if s.length > 0 then [s] else []))) % two64 := by
  -- the writer after the INT32_MAX check
  have hw0 : ∀ w0 : Writer, w0.err ≠ .none → w0.mem = w.mem → w0.fault = w.fault → w0.used = w.used →
      (let r := w0.write (packInt base (s.length : Int))
       let r' := if s.length > 0 then r.1.write s else r
       r'.2 = false ∧ r'.1.mem = w.mem ∧ r'.1.err ≠ .none ∧ r'.1.fault = w.fault ∧
       r'.1.used = (w.used + totalLen (packInt base (s.length : Int) :: (if s.length > 0 then [s] else []))) % two64) := by
    intro w0 he hm hf hu
    obtain ⟨a1, a2, a3, a4, a5, _, _, _⟩ := write_latched w0 (packInt base (s.length : Int)) he
    by_cases h0 : s.length > 0
    · obtain ⟨b1, b2, b3, b4, b5, _, _, _⟩ := write_latched (w0.write (packInt base (s.length : Int))).1 s a3
      simp only [h0, if_true, totalLen_cons, totalLen_nil]
      refine ⟨b1, by rw [b2, a2, hm], b3, by rw [b4, a4, hf], ?_⟩
      rw [b5, a5, hu]
      unfold two64
      omega
    · simp only [h0, if_false, totalLen_cons, totalLen_nil]
      exact ⟨a1, by rw [a2, hm], a3, by rw [a4, hf], by rw [a5, hu]; rfl⟩
  unfold Writer.writeBlob
  by_cases hbig : s.length > 2147483647
  · simp only [hbig, if_true]
    exact hw0 { w with err := .format } (by simp) rfl rfl rfl
  · simp only [hbig, if_false]
    exact hw0 w h rfl rfl rfl

theorem step_latched (w : Writer) (op : WOp) (h : w.err ≠ .none) :
    (w.step op).2 = false ∧ (w.step op).1.mem = w.mem ∧ (w.step op).1.err ≠ .none ∧
    (w.step op).1.fault = w.fault ∧ (w.step op).1.used = (w.used + totalLen op.pieces) % two64 := by
  have single : ∀ d : List UInt8, (w.write d).2 = false ∧ (w.write d).1.mem = w.mem ∧ (w.write d).1.err ≠ .none ∧
      (w.write d).1.fault = w.fault ∧ (w.write d).1.used = (w.used + totalLen [d]) % two64 := by
    intro d
    obtain ⟨a1, a2, a3, a4, a5, _, _, _⟩ := write_latched w d h
    exact ⟨a1, a2, a3, a4, by rw [a5]; simp⟩
  cases op with
  | str s => exact writeBlob_latched w 0x14 s h
  | bytes s => exact writeBlob_latched w 0x18 s h
  | objBegin => exact single _
  | objEnd => exact single _
  | arrBegin => exact single _
  | arrEnd => exact single _
  | bool b => exact single _
  | int v => exact single _
  | dbl bits => exact single _
  | raw s => exact single _

theorem run_latched (ops : List WOp) (w : Writer) (h : w.err ≠ .none) :
    (w.run ops).err ≠ .none ∧ (w.run ops).mem = w.mem ∧ (w.run ops).fault = w.fault := by
  induction ops generalizing w with
  | nil => exact ⟨h, rfl, rfl⟩
  | cons op r ih =>
    obtain ⟨_, a2, a3, a4, _⟩ := step_latched w op h
    obtain ⟨i1, i2, i3⟩ := ih (w.step op).1 a3
    exact ⟨i1, by rw [run_cons, i2, a2], by rw [run_cons, i3, a4]⟩

/-! ### the writer's integer packing is the spec's -/

theorem leBytesM_eq_leBytes (w n : Nat) : leBytesM w n = leBytes w n := by
  induction w generalizing n with
  | zero => rfl
  | succ w ih => simp [leBytesM, leBytes, ih]

@[simp] theorem leBytesM_length (w n : Nat) : (leBytesM w n).length = w := by
  rw [leBytesM_eq_leBytes, leBytes_length]

/-- the low `w` bytes of `(uint64_t) v` are the low `w` bytes of `v mod 256^w`, `w ∈ {1,2,4,8}` -/
theorem leBytesM_toU64 (w : Nat) (hw : w = 1 ∨ w = 2 ∨ w = 4 ∨ w = 8) (v : Int) :
    leBytesM w (toU64 v) = leBytes w (v % ((256 : Int) ^ w)).toNat := by
  rw [leBytesM_eq_leBytes, ← leBytes_mod w (toU64 v), ← leBytes_mod w (v % ((256 : Int) ^ w)).toNat]
  congr 1
  unfold toU64 two64
  rcases hw with rfl | rfl | rfl | rfl
  · show _ % 256 = (v % 256).toNat % 256
    omega
  · show _ % 65536 = (v % 65536).toNat % 65536
    omega
  · show _ % 4294967296 = (v % 4294967296).toNat % 4294967296
    omega
  · show _ % 18446744073709551616 = (v % 18446744073709551616).toNat % 18446744073709551616
    omega

theorem packInt_encInt (base : UInt8) (v : Int) (_h : int64Min ≤ v ∧ v ≤ int64Max) :
    packInt base v = encInt base v := by
  unfold packInt encInt encIntBody intWidth
  rcases intWidthExp_eq v with ⟨e, h0⟩ | ⟨e, h0, h1⟩ | ⟨e, h0, h1, h2⟩ | ⟨e, h0⟩ <;> rw [e]
  · rw [if_pos h0, leBytesM_toU64 1 (by simp)]
    simp
  · rw [if_neg h0, if_pos h1, leBytesM_toU64 2 (by simp)]
    rfl
  · rw [if_neg (by omega), if_neg h0, if_pos ⟨h1, h2⟩, leBytesM_toU64 4 (by simp)]
    rfl
  · rw [if_neg (by omega), if_neg (by omega), if_neg h0, leBytesM_toU64 8 (by simp)]
    rfl

/-! ### the call sequence of a value -/

mutual
/-- the well-formed call sequence that writes a value: name before each value inside objects -/
def opsOf : Value → List WOp
  | .bool b => [.bool b] | .int i => [.int i] | .dbl d => [.dbl d.toNat] | .str s => [.str s] | .bytes s => [.bytes s]
  | .arr xs => .arrBegin :: (opsOfE xs ++ [.arrEnd])
  | .obj fs => .objBegin :: (opsOfF fs ++ [.objEnd])
def opsOfE : Elems → List WOp
  | .nil => []
  | .cons v r => opsOf v ++ opsOfE r
def opsOfF : Fields → List WOp
  | .nil => []
  | .cons n v r => .str n :: (opsOf v ++ opsOfF r)
end

/-- the pieces of a string/bytes call concatenate to the spec's `encStr` -/
theorem blob_pieces_flatten (base : UInt8) (s : List UInt8) (h : s.length ≤ INT32_MAX) :
    (packInt base (s.length : Int) :: (if s.length > 0 then [s] else [])).flatten = encStr base s := by
  unfold INT32_MAX at h
  have hp : packInt base (s.length : Int) = encInt base (s.length : Int) :=
    packInt_encInt base _ (by unfold int64Min int64Max; omega)
  unfold encStr
  rw [hp]
  by_cases h0 : s.length > 0
  · simp [h0]
  · have : s = [] := List.eq_nil_of_length_eq_zero (by omega)
    subst this
    simp

mutual
theorem flatten_pieces_opsOf (v : Value) (h : wfValue v = true) : (allPieces (opsOf v)).flatten = encode v := by
  cases v with
  | bool b => simp [opsOf, WOp.pieces, encode]
  | int i =>
    have hi : int64Min ≤ i ∧ i ≤ int64Max := by simpa [wfValue] using h
    simp [opsOf, WOp.pieces, encode, packInt_encInt _ _ hi]
  | dbl d => simp [opsOf, WOp.pieces, encode, leBytesM_eq_leBytes]
  | str s =>
    have hs : s.length ≤ INT32_MAX := by simpa [wfValue] using h
    simp only [opsOf, allPieces_cons, allPieces_nil, List.append_nil, WOp.pieces, encode]
    exact blob_pieces_flatten 0x14 s hs
  | bytes s =>
    have hs : s.length ≤ INT32_MAX := by simpa [wfValue] using h
    simp only [opsOf, allPieces_cons, allPieces_nil, List.append_nil, WOp.pieces, encode]
    exact blob_pieces_flatten 0x18 s hs
  | arr xs =>
    have hx : wfElems xs = true := by simpa [wfValue] using h
    simp [opsOf, WOp.pieces, encode, flatten_pieces_opsOfE xs hx]
  | obj fs =>
    have hf : wfFields none fs = true := by simpa [wfValue] using h
    simp [opsOf, WOp.pieces, encode, flatten_pieces_opsOfF none fs hf]
theorem flatten_pieces_opsOfE (xs : Elems) (h : wfElems xs = true) : (allPieces (opsOfE xs)).flatten = encElems xs := by
  cases xs with
  | nil => rfl
  | cons v r =>
    have hh : wfValue v = true ∧ wfElems r = true := by simpa [wfElems] using h
    simp [opsOfE, encElems, flatten_pieces_opsOf v hh.1, flatten_pieces_opsOfE r hh.2]
theorem flatten_pieces_opsOfF (prev : Option Bytes) (fs : Fields) (h : wfFields prev fs = true) :
    (allPieces (opsOfF fs)).flatten = encFields fs := by
  cases fs with
  | nil => rfl
  | cons n v r =>
    have hh : ((nameAfter prev n = true ∧ n.length ≤ INT32_MAX) ∧ wfValue v = true) ∧ wfFields (some n) r = true := by
      simpa [wfFields] using h
    have hn := blob_pieces_flatten 0x14 n hh.1.1.2
    simp only [opsOfF, encFields, allPieces_cons, allPieces_append, List.flatten_append, WOp.pieces,
      flatten_pieces_opsOf v hh.1.2, flatten_pieces_opsOfF (some n) r hh.2, hn]
end

theorem blob_valid_of_le {s : List UInt8} (h : s.length ≤ INT32_MAX) : s.length ≤ 2147483647 := h

mutual
theorem valid_opsOf (v : Value) (h : wfValue v = true) : ∀ op ∈ opsOf v, op.Valid := by
  cases v with
  | bool b => simp [opsOf, WOp.Valid]
  | int i => simp [opsOf, WOp.Valid]
  | dbl d => simp [opsOf, WOp.Valid]
  | str s =>
    have hs : s.length ≤ INT32_MAX := by simpa [wfValue] using h
    simpa [opsOf, WOp.Valid] using blob_valid_of_le hs
  | bytes s =>
    have hs : s.length ≤ INT32_MAX := by simpa [wfValue] using h
    simpa [opsOf, WOp.Valid] using blob_valid_of_le hs
  | arr xs =>
    have hx : wfElems xs = true := by simpa [wfValue] using h
    intro op hop
    simp only [opsOf, List.mem_cons, List.mem_append, List.not_mem_nil, or_false] at hop
    rcases hop with rfl | hop | rfl
    · trivial
    · exact valid_opsOfE xs hx op hop
    · trivial
  | obj fs =>
    have hf : wfFields none fs = true := by simpa [wfValue] using h
    intro op hop
    simp only [opsOf, List.mem_cons, List.mem_append, List.not_mem_nil, or_false] at hop
    rcases hop with rfl | hop | rfl
    · trivial
    · exact valid_opsOfF none fs hf op hop
    · trivial
theorem valid_opsOfE (xs : Elems) (h : wfElems xs = true) : ∀ op ∈ opsOfE xs, op.Valid := by
  cases xs with
  | nil => intro op hop; simp [opsOfE] at hop
  | cons v r =>
    have hh : wfValue v = true ∧ wfElems r = true := by simpa [wfElems] using h
    intro op hop
    simp only [opsOfE, List.mem_append] at hop
    rcases hop with hop | hop
    · exact valid_opsOf v hh.1 op hop
    · exact valid_opsOfE r hh.2 op hop
theorem valid_opsOfF (prev : Option Bytes) (fs : Fields) (h : wfFields prev fs = true) :
    ∀ op ∈ opsOfF fs, op.Valid := by
  cases fs with
  | nil => intro op hop; simp [opsOfF] at hop
  | cons n v r =>
    have hh : ((nameAfter prev n = true ∧ n.length ≤ INT32_MAX) ∧ wfValue v = true) ∧ wfFields (some n) r = true := by
      simpa [wfFields] using h
    intro op hop
    simp only [opsOfF, List.mem_cons, List.mem_append] at hop
    rcases hop with rfl | hop | hop
    · exact blob_valid_of_le hh.1.1.2
    · exact valid_opsOf v hh.1.2 op hop
    · exact valid_opsOfF (some n) r hh.2 op hop
end

end Binson
