/-
  Layer 4, part 18: `_advance_parsing(LEAVE_OBJECT / LEAVE_ARRAY)` from anywhere inside the
  container against the invariant.
-/
import Binson.Lemmas.NavOpEnter
namespace Binson

namespace Run

variable {p : Parser} {c : Cursor} {Ls : List RLevel} {pend : Option Value}

/-- leaving an inner object -/
theorem adv_leave_obj {pv : Option Bytes} {fs : Fields} {L2 : RLevel} {Ls' : List RLevel}
    (h : Run p c ⟨pv, some fs, []⟩ (L2 :: Ls') pend) :
    (advance p .leaveObj none).ret = true ∧
    Run (advance p .leaveObj none).p (mkCur c.arrayRoot p.size (flat (L2 :: Ls')) none) L2 Ls' none := by
  obtain ⟨st1, s1, o1, c1, k1, r1, n1, f1⟩ := h.prelude .leaveObj (Or.inr (Or.inl rfl)) none
  have hli := h.lvlIdx
  have hli1 : st1.p.lvlIdx = (L2 :: Ls').length := by rw [k1.lvlIdx]; exact hli
  have hd1 : st1.p.depth = Ls'.length + 1 + 1 := by rw [k1.depth]; exact h.depth
  have hmd1 : st1.p.maxDepth = p.maxDepth := k1.frame.2.2.1
  obtain ⟨w1, w2⟩ := h.top.base _ rfl
  have had1 : (st1.p.getLvl st1.p.lvlIdx).ad = 0 := by
    have := k1.ad; simp only at this; rw [hli] at this; rw [hli1, this]; exact h.top.ad
  obtain ⟨st', hh, r', s', e', d', fr', l'⟩ := leave_obj_run o1 c1 fs _ (by rw [r1, tail_obj]) (by rw [h.prevName_eq k1 n1]; exact w1)
    (by rw [hli1, f1]; rfl) had1 (by rw [hmd1, hd1]; exact w2) (by rw [hd1]; omega)
  obtain ⟨e1, e2⟩ := advance_of_halts h.shape h.err .leaveObj none (s1.halts hh)
  rw [e1, e2]
  have fr := k1.frame.trans fr'
  have hlow : ∀ i, i < Ls'.length + 1 → st'.p.getLvl i = p.getLvl i := by
    intro i hi
    rw [l', hd1]
    simp only [Nat.add_sub_cancel, hi, if_true]
    exact k1.lower i (by show i < p.lvlIdx; rw [hli]; exact hi)
  obtain ⟨t1, t2, t3⟩ := h.susp
  obtain ⟨b1, b2⟩ := h.base
  refine ⟨rfl, ⟨s', e', by rw [fr.2.2.1]; exact h.md, by rw [d', hd1]; simp, ?_, by rw [fr.2.2.2.1]; exact h.aroot, b2,
    t1.transfer (by rw [hlow _ (by omega)]) (by rw [hlow _ (by omega)]) fr.2.1 fr.2.2.1,
    t3.transfer (fun i hi => hlow i (by omega)) fr.2.1 fr.2.2.1, by rw [fr.1]; rfl, rfl, rfl, ?_⟩⟩
  · intro i hi
    rw [d', hd1] at hi
    rw [l', hd1]
    have : ¬ i < Ls'.length + 1 + 1 - 1 := by omega
    simp only [this, if_false]
  · exact ⟨r', by rw [hlow _ (by omega)]; exact t2, Or.inl rfl⟩

/-- leaving the root object -/
theorem adv_leave_obj_root {pv : Option Bytes} {fs : Fields} (h : Run p c ⟨pv, some fs, []⟩ [] pend) :
    (advance p .leaveObj none).ret = false ∧ (advance p .leaveObj none).p.err = .none ∧
    (advance p .leaveObj none).p.depth = 0 ∧ (advance p .leaveObj none).p.fault = false ∧
    (advance p .leaveObj none).p.oof = false := by
  obtain ⟨st1, s1, o1, c1, k1, r1, n1, f1⟩ := h.prelude .leaveObj (Or.inr (Or.inl rfl)) none
  have hli := h.lvlIdx
  have hli1 : st1.p.lvlIdx = ([] : List RLevel).length := by rw [k1.lvlIdx]; exact hli
  have hd1 : st1.p.depth = 1 := by rw [k1.depth]; exact h.depth
  have hmd1 : st1.p.maxDepth = p.maxDepth := k1.frame.2.2.1
  obtain ⟨w1, w2⟩ := h.top.base _ rfl
  have had1 : (st1.p.getLvl st1.p.lvlIdx).ad = 0 := by
    have := k1.ad; simp only at this; rw [hli] at this; rw [hli1, this]; exact h.top.ad
  obtain ⟨st', hh, e', d', n', o'⟩ := leave_obj_root o1 c1 fs [] (by rw [r1, tail_obj]; rfl) (by rw [h.prevName_eq k1 n1]; exact w1)
    (by rw [hli1, f1]; rfl) had1 (by rw [hmd1, hd1]; exact w2) hd1
  obtain ⟨e1, e2⟩ := advance_of_halts h.shape h.err .leaveObj none (s1.halts hh)
  rw [e1, e2]
  exact ⟨rfl, e', d', n', o'⟩

/-- the root array of an array document is the only array in the bottom pseudo entry -/
def IsRootArr (b : Option Fields) (ar : List Elems) (Ls : List RLevel) : Prop := b = none ∧ ar = [] ∧ Ls = []

theorem rootArr_iff {pv : Option Bytes} {b : Option Fields} {xs : Elems} {ar : List Elems}
    (h : Run p c ⟨pv, b, xs :: ar⟩ Ls pend) :
    ((p.getLvl Ls.length).ad = 1 ∧ p.ptype = 2 ∧ p.depth = 1) ↔ IsRootArr b ar Ls := by
  have had := h.top.ad
  simp only [List.length_cons] at had
  constructor
  · intro ⟨h1, h2, h3⟩
    have hl : Ls = [] := by
      have := h.depth; rw [h3] at this
      cases Ls with
      | nil => rfl
      | cons _ _ => simp at this
    subst hl
    have hb := h.base
    refine ⟨hb.1.mpr (h.aroot.mpr h2), ?_, rfl⟩
    rw [had] at h1
    cases ar with
    | nil => rfl
    | cons _ _ => simp at h1
  · intro ⟨h1, h2, h3⟩
    subst h1; subst h2; subst h3
    have hb := h.base
    exact ⟨by rw [had]; rfl, h.aroot.mp (hb.1.mp rfl), by rw [h.depth]; rfl⟩

/-- leaving an array that is not the root array -/
theorem adv_leave_arr {pv : Option Bytes} {b : Option Fields} {xs : Elems} {ar : List Elems}
    (h : Run p c ⟨pv, b, xs :: ar⟩ Ls pend) (hnr : ¬ IsRootArr b ar Ls) :
    (advance p .leaveArr none).ret = true ∧
    Run (advance p .leaveArr none).p (mkCur c.arrayRoot p.size (flat (⟨pv, b, ar⟩ :: Ls)) none) ⟨pv, b, ar⟩ Ls none := by
  obtain ⟨st1, s1, o1, c1, k1, r1, n1, f1⟩ := h.prelude .leaveArr (Or.inr (Or.inr (Or.inr rfl))) none
  have hli := h.lvlIdx
  have hli1 : st1.p.lvlIdx = Ls.length := by rw [k1.lvlIdx]; exact hli
  have hd1 : st1.p.depth = Ls.length + 1 := by rw [k1.depth]; exact h.depth
  have hmd1 : st1.p.maxDepth = p.maxDepth := k1.frame.2.2.1
  obtain ⟨w1, w2, w3⟩ := h.top.arrs
  have had1 : (st1.p.getLvl st1.p.lvlIdx).ad = ar.length + 1 := by
    have := k1.ad; simp only at this; rw [hli] at this; rw [hli1, this, h.top.ad]; rfl
  have hnr1 : ¬ ((st1.p.getLvl st1.p.lvlIdx).ad = 1 ∧ st1.p.ptype = 2 ∧ st1.p.depth = 1) := by
    intro ⟨a1, a2, a3⟩
    apply hnr
    apply h.rootArr_iff.mp
    refine ⟨?_, by rw [← k1.frame.2.2.2.1]; exact a2, by rw [← k1.depth]; exact a3⟩
    have := k1.ad; simp only at this; rw [hli] at this; rw [← this, ← hli1]; exact a1
  obtain ⟨st', hh, r', s', e', d', fr', lo', z', a', nm', fl'⟩ := leave_arr_run o1 c1 xs _ (by rw [r1, tail_arr]) w1
    ⟨by rw [hli1, f1]; exact Or.inl rfl, by rw [had1]; omega⟩ (by rw [hmd1, hd1, had1]; exact w2) hnr1
  rw [hli1] at lo' a' nm' fl'
  rw [hli1] at had1
  obtain ⟨e1, e2⟩ := advance_of_halts h.shape h.err .leaveArr none (s1.halts hh)
  rw [e1, e2]
  have fr := k1.frame.trans fr'
  have hbase : BaseOk c.arrayRoot ⟨pv, b, ar⟩ Ls := by
    refine BaseOk_congr h.base (by simp) ?_
    intro hb har
    simp only at hb har
    apply hnr
    refine ⟨hb, har, ?_⟩
    cases Ls with
    | nil => rfl
    | cons _ _ => exact absurd hb h.base.1
  refine ⟨rfl, h.next_state s' e' fr (d'.trans k1.depth)
    (fun i hi => by rw [lo' i hi]; exact k1.lower i (by show i < p.lvlIdx; rw [hli]; exact hi))
    (fun i hi => z' i (by rw [d'] at hi; exact hi)) ⟨pv, b, ar⟩ none none hbase ⟨?_, ?_, ?_, ?_⟩ ?_⟩
  · rw [a', had1]; simp
  · rw [nm', n1, map_slice_congr fr.2.1]; exact h.top.name
  · rw [fr.2.2.1]; exact h.top.base
  · rw [fr.2.2.1]; exact w3
  · refine ⟨r', ?_, Or.inl rfl⟩
    rw [fl', had1]
    cases ar with
    | nil => rfl
    | cons _ _ => simp [nflags]

/-- leaving the root array -/
theorem adv_leave_arr_root {pv : Option Bytes} {xs : Elems} (h : Run p c ⟨pv, none, [xs]⟩ [] pend) :
    (advance p .leaveArr none).ret = false ∧ (advance p .leaveArr none).p.err = .none ∧
    (advance p .leaveArr none).p.depth = 1 ∧ (advance p .leaveArr none).p.fault = false ∧
    (advance p .leaveArr none).p.oof = false := by
  obtain ⟨st1, s1, o1, c1, k1, r1, n1, f1⟩ := h.prelude .leaveArr (Or.inr (Or.inr (Or.inr rfl))) none
  have hli := h.lvlIdx
  have hli1 : st1.p.lvlIdx = ([] : List RLevel).length := by rw [k1.lvlIdx]; exact hli
  have hd1 : st1.p.depth = 1 := by rw [k1.depth]; exact h.depth
  have hmd1 : st1.p.maxDepth = p.maxDepth := k1.frame.2.2.1
  obtain ⟨w1, w2, _⟩ := h.top.arrs
  have had1 : (st1.p.getLvl st1.p.lvlIdx).ad = 1 := by
    have := k1.ad; simp only at this; rw [hli] at this; rw [hli1, this, h.top.ad]; rfl
  have hroot := h.rootArr_iff.mpr ⟨rfl, rfl, rfl⟩
  obtain ⟨st', hh, e', d', n', o'⟩ := leave_arr_root o1 c1 xs [] (by rw [r1, tail_arr]; rfl) w1
    ⟨by rw [hli1, f1]; exact Or.inl rfl, by rw [had1]; omega⟩ (by rw [hmd1, hd1, had1]; exact w2)
    ⟨had1, by rw [k1.frame.2.2.2.1]; exact hroot.2.1, hd1⟩
  obtain ⟨e1, e2⟩ := advance_of_halts h.shape h.err .leaveArr none (s1.halts hh)
  rw [e1, e2]
  exact ⟨rfl, e', d', n', o'⟩

end Run

end Binson
