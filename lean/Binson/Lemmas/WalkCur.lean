/-
  Traversal programs, part 1: what the reference cursor does on the calls a recursive traversal
  makes (only its frame stack and current child matter), the combined machine/cursor step used by
  the traversal proofs, and `mapPut` on ascending insertions (append at the end).
-/
import Binson.Lemmas.Nav
import Binson.Lemmas.CppSerMap
namespace Binson

/-! ### the cursor on `next` / `go_into_*` / `leave_*` -/

theorem walk_cur_next_allowed {c : Cursor} {f : Frame} {fr : List Frame} (hf : c.frames = f :: fr) :
    c.allowed .next = true := by
  simp [Cursor.allowed, hf]

theorem walk_cur_next_cons {c : Cursor} {io : Bool} {n : Node} {r : List Node} {fr : List Frame}
    (hf : c.frames = ⟨io, n :: r⟩ :: fr) :
    (c.step .next).1.frames = ⟨io, r⟩ :: fr ∧ (c.step .next).1.cur = some n ∧
    (c.step .next).2.ok = true ∧ (c.step .next).2.item = some n.item := by
  simp [Cursor.step, hf]

theorem walk_cur_next_nil {c : Cursor} {io : Bool} {fr : List Frame} (hf : c.frames = ⟨io, []⟩ :: fr) :
    (c.step .next).1.frames = ⟨io, []⟩ :: fr ∧ (c.step .next).2.ok = false := by
  simp [Cursor.step, hf]

theorem walk_cur_enterObj {c : Cursor} {f : Frame} {fr : List Frame} {n : Node}
    (hf : c.frames = f :: fr) (hc : c.cur = some n) (ht : n.item.ty = .object) :
    c.allowed .enterObj = true ∧ (c.step .enterObj).1.frames = ⟨true, n.children⟩ :: f :: fr ∧
    (c.step .enterObj).2.ok = true := by
  simp [Cursor.allowed, Cursor.step, Cursor.pending, hf, hc, ht]

theorem walk_cur_enterArr {c : Cursor} {f : Frame} {fr : List Frame} {n : Node}
    (hf : c.frames = f :: fr) (hc : c.cur = some n) (ht : n.item.ty = .array) :
    c.allowed .enterArr = true ∧ (c.step .enterArr).1.frames = ⟨false, n.children⟩ :: f :: fr ∧
    (c.step .enterArr).2.ok = true := by
  simp [Cursor.allowed, Cursor.step, Cursor.pending, hf, hc, ht]

theorem walk_cur_leaveObj {c : Cursor} {r : List Node} {fr : List Frame} (hf : c.frames = ⟨true, r⟩ :: fr) :
    c.allowed .leaveObj = true ∧ (c.step .leaveObj).1.frames = fr ∧ (c.step .leaveObj).2.ok = true := by
  simp [Cursor.allowed, Cursor.step, hf]

theorem walk_cur_leaveArr {c : Cursor} {r : List Node} {fr : List Frame} (hf : c.frames = ⟨false, r⟩ :: fr) :
    c.allowed .leaveArr = true ∧ (c.step .leaveArr).1.frames = fr ∧ (c.step .leaveArr).2.ok = true := by
  simp [Cursor.allowed, Cursor.step, hf]

/-- entering the root container right after init -/
theorem walk_cur_start_obj (fs : Fields) :
    (Cursor.start .object (.obj fs)).allowed .enterObj = true ∧
    ((Cursor.start .object (.obj fs)).step .enterObj).1.frames = [⟨true, annotateF 1 fs⟩] ∧
    ((Cursor.start .object (.obj fs)).step .enterObj).2.ok = true := by
  simp [Cursor.start, Cursor.allowed, Cursor.step, Cursor.pending, annotate, Node.item, Node.children]

theorem walk_cur_start_arr (xs : Elems) :
    (Cursor.start .array (.arr xs)).allowed .enterArr = true ∧
    ((Cursor.start .array (.arr xs)).step .enterArr).1.frames = [⟨false, annotateE 1 xs⟩] ∧
    ((Cursor.start .array (.arr xs)).step .enterArr).2.ok = true := by
  simp [Cursor.start, Cursor.allowed, Cursor.step, Cursor.pending, annotate, Node.item, Node.children]

/-! ### the machine side of one call, packaged -/

/-- what one protocol-following call gives the traversal: return value as the cursor says, no error,
    the getters match the item returned, and the agreement holds again -/
theorem walk_call {p : Parser} {c : Cursor} (h : Agree p c) (op : COp) (ha : c.allowed op = true) :
    (machNav p op).2.1 = (c.step op).2.ok ∧ (machNav p op).1.err = .none ∧
    (∀ it, (c.step op).2.item = some it → ItemMatches (machNav p op).1 it) ∧
    Agree (machNav p op).1 (c.step op).1 := by
  obtain ⟨⟨o1, _, o3, _, _, _, o7⟩, hn⟩ := agree_step h op ha
  exact ⟨o1, o3, o7, hn⟩

theorem walk_machNav_next (p : Parser) : machNav p .next = ((next p).1, (next p).2, none) := rfl
theorem walk_machNav_enterObj (p : Parser) : machNav p .enterObj = ((goIntoObject p).1, (goIntoObject p).2, none) := rfl
theorem walk_machNav_enterArr (p : Parser) : machNav p .enterArr = ((goIntoArray p).1, (goIntoArray p).2, none) := rfl
theorem walk_machNav_leaveObj (p : Parser) : machNav p .leaveObj = ((leaveObject p).1, (leaveObject p).2, none) := rfl
theorem walk_machNav_leaveArr (p : Parser) : machNav p .leaveArr = ((leaveArray p).1, (leaveArray p).2, none) := rfl

/-! ### annotated items -/

theorem walk_item_ty (nm : Option (Bytes × Span)) (off : Nat) (v : Value) :
    (annotate nm off v).item.ty =
      (match v with
       | .bool _ => Ty.boolean | .int _ => .integer | .dbl _ => .double | .str _ => .string
       | .bytes _ => .bytes | .arr _ => .array | .obj _ => .object) := by
  cases v <;> rfl

/-! ### `mapPut` with ascending keys appends -/

def walkAppF : Fields → Fields → Fields
  | .nil, b => b
  | .cons n v r, b => .cons n v (walkAppF r b)

theorem walk_appF_nil_right : ∀ a : Fields, walkAppF a .nil = a
  | .nil => rfl
  | .cons n v r => by rw [walkAppF, walk_appF_nil_right r]

theorem walk_appF_assoc : ∀ a b c : Fields, walkAppF (walkAppF a b) c = walkAppF a (walkAppF b c)
  | .nil, _, _ => rfl
  | .cons n v r, b, c => by simp only [walkAppF]; rw [walk_appF_assoc r b c]

theorem walk_names_appF : ∀ a b : Fields, (walkAppF a b).names = a.names ++ b.names
  | .nil, _ => rfl
  | .cons n v r, b => by simp [walkAppF, Fields.names, walk_names_appF r b]

theorem walk_bytesLt_asymm {a b : Bytes} (h : bytesLt a b = true) : bytesLt b a = false := by
  cases hb : bytesLt b a with
  | false => rfl
  | true =>
    have := bytesLt_trans a b a h hb
    rw [bytesLt_irrefl] at this; cases this

/-- inserting a key above all present keys appends it -/
theorem walk_mapPut_appF : ∀ (acc : Fields) (prev : Option Bytes) (k : Bytes) (v : Value) (r : Fields),
    ascF prev (walkAppF acc (.cons k v r)) = true → mapPut acc k v = walkAppF acc (.cons k v .nil)
  | .nil, _, _, _, _, _ => rfl
  | .cons n x a, prev, k, v, r, h => by
    have hh : nameAfter prev n = true ∧ ascF (some n) (walkAppF a (.cons k v r)) = true := by simpa [walkAppF, ascF] using h
    have hlt : bytesLt n k = true :=
      ascF_lt n _ hh.2 k (by rw [walk_names_appF]; simp [Fields.names])
    rw [mapPut_cons, if_neg (by rw [walk_bytesLt_asymm hlt]; simp), if_pos hlt, walk_mapPut_appF a (some n) k v r hh.2]
    rfl

end Binson
