/-
  C05 — writer output is canonical and round-trips.
  For ANY well-formed value `v` the well-formed write sequence `opsOf v` (balanced begin/end, a name
  before each value inside objects, names ascending) produces exactly `encode v`, the canonical Binson
  encoding (shortest 1/2/4/8-byte two's-complement forms for integers and lengths, doubles as their
  8 IEEE-754 bytes little-endian, text and bytes verbatim); the output is accepted by
  `binson_parser_verify` and `binson_writer_verify` within their depth limits, and decodes to exactly the
  values written. (Proofs: Lemmas/WriterLemmas, Lemmas/WriterProps, Lemmas/Walk*.)
-/
import Binson.Lemmas.WriterProps
import Binson.Lemmas.Walk
namespace Binson

/-- `_int_pack_size` produces the spec's minimal-width two's complement encoding (integers, and with tags 0x14/0x18 lengths) -/
theorem c05_packInt_eq_encInt (base : UInt8) (v : Int) (h : int64Min ≤ v ∧ v ≤ int64Max) :
    packInt base v = encInt base v :=
  packInt_eq_encInt base v h

/-- the `_write` payloads of the call sequence of `v`, concatenated, are `encode v` -/
theorem c05_pieces_opsOf (v : Value) (h : wfValue v = true) : (allPieces (opsOf v)).flatten = encode v :=
  pieces_opsOf v h

/-- every call in the call sequence of a well-formed value has valid arguments -/
theorem c05_opsOf_valid (v : Value) (h : wfValue v = true) : ∀ op ∈ opsOf v, op.Valid :=
  opsOf_valid v h

/-- writing a well-formed value into a large enough buffer produces exactly `encode v` -/
theorem c05_write_value_encode (v : Value) (h : wfValue v = true) (m0 : Array UInt8)
    (hlen : (encode v).length ≤ m0.size) (hsz : m0.size < 2 ^ 63) :
    let w := (Writer.init m0 m0.size).1.run (opsOf v)
    w.err = .none ∧ w.used = (encode v).length ∧ w.mem.toList.take (encode v).length = encode v :=
  write_value_encode v h m0 hlen hsz

/-- the canonical encoding of a well-formed object document is accepted by `binson_parser_verify`
    (within the depth limit), from any allocated parser object -/
theorem c05_written_verifies (g : Parser) (ha : Alloc g) (hmd : g.maxDepth ≤ 255) (v : Value)
    (hwf : wfDoc .object g.maxDepth v = true) (hsz : (encode v).length < 2 ^ 63) :
    (init g (encode v).toArray 1).2 = true ∧ (verify (init g (encode v).toArray 1).1).2.1 = true :=
  written_verifies g ha hmd v hwf hsz

/-- ... and by `binson_writer_verify` (a depth-10 parser over the bytes written so far) -/
theorem c05_writer_verify_ok (v : Value) (hwf : wfDoc .object 10 v = true) (m0 : Array UInt8)
    (hlen : (encode v).length ≤ m0.size) (hsz : m0.size < 2 ^ 63) :
    writerVerify ((Writer.init m0 m0.size).1.run (opsOf v)) = true :=
  writer_verify_ok v hwf m0 hlen hsz

/-- ... and decodes to exactly the values written: the bytes the writer left, handed to the full
    traversal program (next / get_name / typed getters / go_into / leave), give back exactly `fs` -/
theorem c05_written_decodes (fs : Fields) (hwf : wfDoc .object 10 (.obj fs) = true) (m0 : Array UInt8)
    (hlen : (encode (.obj fs)).length ≤ m0.size) (hsz : m0.size < 2 ^ 63) :
    let w := (Writer.init m0 m0.size).1.run (opsOf (.obj fs))
    cppDeserialize (w.mem.extract 0 w.used) = .ok fs := by
  intro w
  have hwv : wfValue (.obj fs) = true := by
    unfold wfDoc at hwf; simp only [Bool.and_eq_true] at hwf; exact hwf.1.1
  obtain ⟨_, hu, ht⟩ := write_value_encode (.obj fs) hwv m0 hlen hsz
  have hb : w.mem.extract 0 w.used = (encode (.obj fs)).toArray := by
    apply Array.ext'
    rw [Array.toList_extract, hu]
    simpa using ht
  rw [hb]
  exact cppDes_valid fs hwf (by omega)

/-- the encoding is unique: two well-formed values with the same bytes are the same value -/
theorem c05_encoding_unique (v v' : Value) (hw : wfValue v = true) (hw' : wfValue v' = true)
    (h : encode v = encode v') : v = v' :=
  (encode_prefix_free v v' [] [] hw hw' (by simpa using h)).1

end Binson
