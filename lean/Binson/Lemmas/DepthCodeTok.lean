/-
  C02, last sentence, part 1: the two BEGIN tokens in the failing case (no state entry left /
  255 arrays already open in this level), and `firstObstacle = none ↔ fits`.
-/
import Binson.Lemmas.PassRoot
import Binson.Spec.Decode
namespace Binson

/-- the error code a nesting obstacle is reported with -/
def obstacleErr (b : Bool) : Err := if b then Err.maxDepthObject else Err.maxDepthArray

theorem obstacleErr_ne (b : Bool) : obstacleErr b ≠ .none := by cases b <;> simp [obstacleErr]

mutual
theorem firstObstacle_none_iff_fits : ∀ (d a : Nat) (v : Value), firstObstacle d a v = none ↔ fits d a v = true
  | _, _, .bool _ => by simp [firstObstacle, fits]
  | _, _, .int _ => by simp [firstObstacle, fits]
  | _, _, .dbl _ => by simp [firstObstacle, fits]
  | _, _, .str _ => by simp [firstObstacle, fits]
  | _, _, .bytes _ => by simp [firstObstacle, fits]
  | d, a, .arr xs => by
    have ih := firstObstacleE_none_iff_fitsE d (a - 1) xs
    unfold firstObstacle fits
    by_cases h : a = 0
    · simp [h]
    · have : 1 ≤ a := by omega
      simp [h, this, ih]
  | d, _, .obj fs => by
    have ih := firstObstacleF_none_iff_fitsF (d - 1) fs
    unfold firstObstacle fits
    by_cases h : d = 0
    · simp [h]
    · have : 1 ≤ d := by omega
      simp [h, this, ih]
theorem firstObstacleE_none_iff_fitsE : ∀ (d a : Nat) (xs : Elems), firstObstacleE d a xs = none ↔ fitsE d a xs = true
  | _, _, .nil => by simp [firstObstacleE, fitsE]
  | d, a, .cons v r => by
    have ih1 := firstObstacle_none_iff_fits d a v
    have ih2 := firstObstacleE_none_iff_fitsE d a r
    unfold firstObstacleE fitsE
    cases h : firstObstacle d a v with
    | none =>
      have := ih1.mp h
      simp [this, ih2]
    | some o =>
      have : ¬ fits d a v = true := fun hf => by rw [ih1.mpr hf] at h; cases h
      simp [this]
theorem firstObstacleF_none_iff_fitsF : ∀ (d : Nat) (fs : Fields), firstObstacleF d fs = none ↔ fitsF d fs = true
  | _, .nil => by simp [firstObstacleF, fitsF]
  | d, .cons _ v r => by
    have ih1 := firstObstacle_none_iff_fits d 255 v
    have ih2 := firstObstacleF_none_iff_fitsF d r
    unfold firstObstacleF fitsF
    cases h : firstObstacle d 255 v with
    | none =>
      have := ih1.mp h
      simp [this, ih2]
    | some o =>
      have : ¬ fits d 255 v = true := fun hf => by rw [ih1.mpr hf] at h; cases h
      simp [this]
end

/-- "fits, or there is a first obstacle": the case split is exhaustive -/
theorem fits_or_firstObstacle (d a : Nat) (v : Value) : fits d a v = true ∨ ∃ b, firstObstacle d a v = some b := by
  cases h : firstObstacle d a v with
  | none => exact Or.inl ((firstObstacle_none_iff_fits d a v).mp h)
  | some b => exact Or.inr ⟨b, rfl⟩

theorem setLvl_err_dc (p : Parser) (i : Nat) (l : Level) : (p.setLvl i l).err = p.err := by
  unfold Parser.setLvl; split <;> rfl

/-- a pending error ends the iteration: `return false` before the callback -/
theorem finish_err_dc (st : LoopSt) (tok : Tok) (p : Parser) (lv : Level) (li : Nat) (scan : Option Scan) (force : Bool)
    (he : p.err ≠ .none) :
    finish st tok p lv li scan force = ({ st with p := p.setLvl li lv, scan := scan }, .ret false) := by
  unfold finish
  have e : (p.setLvl li lv).err ≠ .none := by rw [setLvl_err_dc]; exact he
  exact if_pos e

/-- `{` in value position with no state entry left: BINSON_ERROR_MAX_DEPTH_OBJECT, the call returns false -/
theorem iter_objBegin_full {st : LoopSt} {sn : Option (List UInt8)} {oa od : Nat} (hD : Deep st oa od)
    (hcl : classify st.p st.bc = ⟨.objBegin, ⟨st.p.used, 1⟩, st.bc,
      st.p.setLvl st.p.lvlIdx { st.p.getLvl st.p.lvlIdx with ctype := .object }⟩)
    (hctx : ValCtx (st.p.getLvl st.p.lvlIdx)) (hdm : st.p.maxDepth ≤ st.p.depth) :
    ∃ st', iter st sn oa od = (st', .ret false) ∧ st'.p.err = .maxDepthObject := by
  have hsh := hD.shape
  have hli := hsh.lvlIdx_lt
  have hspl := hsh.hsp hD.err st.p.lvlIdx
  obtain ⟨s1, s2, _, s4, s5, s6, s7, s8, s9, s10, s11⟩ :=
    setLvl_ok (p0 := st.p) hsh (Parser.Frame.refl _) { st.p.getLvl st.p.lvlIdx with ctype := .object } hli (SpansOk_of_fields rfl rfl hspl)
  have hgq : ∀ i, (st.p.setLvl st.p.lvlIdx { st.p.getLvl st.p.lvlIdx with ctype := .object }).getLvl i =
      if i = st.p.lvlIdx then { st.p.getLvl st.p.lvlIdx with ctype := .object } else st.p.getLvl i :=
    fun i => getLvl_setLvl _ hli i
  generalize hqdef : st.p.setLvl st.p.lvlIdx { st.p.getLvl st.p.lvlIdx with ctype := .object } = q at hcl s1 s2 s4 s5 s6 s7 s8 s9 s10 s11 hgq
  have hqi : q.lvlIdx = st.p.lvlIdx := by unfold Parser.lvlIdx; rw [s5]
  have hqg : q.getLvl q.lvlIdx = { st.p.getLvl st.p.lvlIdx with ctype := .object } := by rw [hqi, hgq]; simp
  have hli' : st.p.lvlIdx < q.levels.size := by rw [s9]; exact hli
  obtain ⟨lv', hob, hab, h1, h2, h3, h4, _, h6, h7⟩ :=
    blocks_value hD (lv := { st.p.getLvl st.p.lvlIdx with ctype := .object }) (tok := .objBegin) q s5 ⟨rfl, rfl⟩ hctx rfl true
  unfold iter
  simp only [hcl, show Tok.objBegin ≠ Tok.error by decide, if_false]
  rw [hqg, hob]
  simp only [hab, hqi]
  show ∃ st', caseObjBegin _ _ _ _ _ = (st', .ret false) ∧ _
  unfold caseObjBegin
  rw [if_pos hD.cont.has_objBegin, hD.cont.clear_enterObj]
  have hspo : lv'.SpansOk q.size := by rw [s8]; exact SpansOk_of_fields h2 h3 hspl
  obtain ⟨t1, t2, _, t4, t5, t6, t7, t8, t9, t10, t11⟩ := setLvl_ok (p0 := st.p) s1 s2 lv' hli' hspo
  generalize hwdef : q.setLvl st.p.lvlIdx lv' = w at t1 t2 t4 t5 t6 t7 t8 t9 t10 t11
  dsimp only
  have hcond : ¬ (w.depth < 255 ∧ w.depth < w.maxDepth) := by
    rw [t5, s5, t11, s11]; omega
  rw [if_neg hcond]
  rw [finish_err_dc _ _ _ _ _ _ _ (by simp)]
  exact ⟨_, rfl, setLvl_err_dc _ _ _⟩

/-- `[` in value position with 255 arrays already open in this level: BINSON_ERROR_MAX_DEPTH_ARRAY -/
theorem iter_arrBegin_full {st : LoopSt} {sn : Option (List UInt8)} {oa od : Nat} (hD : Deep st oa od)
    (hcl : classify st.p st.bc = ⟨.arrBegin, ⟨st.p.used, 1⟩, st.bc,
      st.p.setLvl st.p.lvlIdx { st.p.getLvl st.p.lvlIdx with ctype := .array }⟩)
    (hctx : ValCtx (st.p.getLvl st.p.lvlIdx)) (had : 255 ≤ (st.p.getLvl st.p.lvlIdx).ad) :
    ∃ st', iter st sn oa od = (st', .ret false) ∧ st'.p.err = .maxDepthArray := by
  have hsh := hD.shape
  have hli := hsh.lvlIdx_lt
  have hspl := hsh.hsp hD.err st.p.lvlIdx
  obtain ⟨s1, s2, _, s4, s5, s6, s7, s8, s9, s10, s11⟩ :=
    setLvl_ok (p0 := st.p) hsh (Parser.Frame.refl _) { st.p.getLvl st.p.lvlIdx with ctype := .array } hli (SpansOk_of_fields rfl rfl hspl)
  have hgq : ∀ i, (st.p.setLvl st.p.lvlIdx { st.p.getLvl st.p.lvlIdx with ctype := .array }).getLvl i =
      if i = st.p.lvlIdx then { st.p.getLvl st.p.lvlIdx with ctype := .array } else st.p.getLvl i :=
    fun i => getLvl_setLvl _ hli i
  generalize hqdef : st.p.setLvl st.p.lvlIdx { st.p.getLvl st.p.lvlIdx with ctype := .array } = q at hcl s1 s2 s4 s5 s6 s7 s8 s9 s10 s11 hgq
  have hqi : q.lvlIdx = st.p.lvlIdx := by unfold Parser.lvlIdx; rw [s5]
  have hqg : q.getLvl q.lvlIdx = { st.p.getLvl st.p.lvlIdx with ctype := .array } := by rw [hqi, hgq]; simp
  obtain ⟨lv', hob, hab, h1, h2, h3, h4, _, h6, h7⟩ :=
    blocks_value hD (lv := { st.p.getLvl st.p.lvlIdx with ctype := .array }) (tok := .arrBegin) q s5 ⟨rfl, rfl⟩ hctx rfl true
  unfold iter
  simp only [hcl, show Tok.arrBegin ≠ Tok.error by decide, if_false]
  rw [hqg, hob]
  simp only [hab, hqi]
  show ∃ st', caseArrBegin _ _ _ _ _ = (st', .ret false) ∧ _
  unfold caseArrBegin
  have hadl : lv'.ad ≥ 255 := by rw [h1]; exact had
  rw [if_pos hadl]
  rw [finish_err_dc _ _ _ _ _ _ _ (by simp)]
  exact ⟨_, rfl, setLvl_err_dc _ _ _⟩

end Binson
