/-
  Layer 4, corollaries, part 2: pure facts about strictly ascending name lists and about what a
  lookup does to the reference cursor (`Cursor.step (.field nm)`), in terms of `namesAhead`.
-/
import Binson.Lemmas.NavCorBase
namespace Binson

/-! ### strictly ascending lists of names -/

theorem navc_lt_asymm {a b : Bytes} (h : bytesLt a b = true) : bytesLt b a = false := by
  cases h' : bytesLt b a with
  | false => rfl
  | true => have := bytesLt_trans a b a h h'; rw [bytesLt_irrefl] at this; cases this

theorem navc_lt_ne {a b : Bytes} (h : bytesLt a b = true) : a ≠ b := by
  intro e; subst e; rw [bytesLt_irrefl] at h; cases h

theorem navc_asc_cons : ∀ (r : List Bytes) (a : Bytes), ascNames (a :: r) = true →
    (∀ x ∈ r, bytesLt a x = true) ∧ ascNames r = true
  | [], _, _ => ⟨fun _ h => (by cases h), rfl⟩
  | b :: r, a, h => by
    have h' : bytesLt a b = true ∧ ascNames (b :: r) = true := by simpa [ascNames] using h
    obtain ⟨h1, h2⟩ := navc_asc_cons r b h'.2
    refine ⟨?_, h'.2⟩
    intro x hx
    rcases List.mem_cons.mp hx with rfl | hx
    · exact h'.1
    · exact bytesLt_trans a b x h'.1 (h1 x hx)

theorem navc_asc_of_cons (a : Bytes) : ∀ (r : List Bytes), (∀ x ∈ r, bytesLt a x = true) → ascNames r = true →
    ascNames (a :: r) = true
  | [], _, _ => rfl
  | b :: r, h1, h2 => by
    simp only [ascNames, Bool.and_eq_true]
    exact ⟨h1 b List.mem_cons_self, h2⟩

/-- in an ascending list, skipping the smaller names is filtering them out -/
theorem navc_dropWhile_eq_filter (nm : Bytes) : ∀ (l : List Bytes), ascNames l = true →
    l.dropWhile (fun x => bytesLt x nm) = l.filter (fun x => !bytesLt x nm)
  | [], _ => rfl
  | a :: r, h => by
    obtain ⟨h1, h2⟩ := navc_asc_cons r a h
    rw [List.dropWhile_cons, List.filter_cons]
    cases ha : bytesLt a nm with
    | true => simp only [if_true, Bool.not_true, Bool.false_eq_true, if_false]; exact navc_dropWhile_eq_filter nm r h2
    | false =>
      simp only [Bool.false_eq_true, if_false, Bool.not_false, if_true]
      congr 1
      symm
      rw [List.filter_eq_self]
      intro x hx
      cases hx' : bytesLt x nm with
      | false => rfl
      | true => have := bytesLt_trans a x nm (h1 x hx) hx'; rw [ha] at this; cases this

/-- in an ascending list, `nm` occurs iff it is the first name that is not smaller -/
theorem navc_mem_iff_head (nm : Bytes) : ∀ (l : List Bytes), ascNames l = true →
    (nm ∈ l ↔ (l.dropWhile (fun x => bytesLt x nm)).head? = some nm)
  | [], _ => by simp
  | a :: r, h => by
    obtain ⟨h1, h2⟩ := navc_asc_cons r a h
    rw [List.dropWhile_cons]
    cases ha : bytesLt a nm with
    | true =>
      simp only [if_true]
      rw [← navc_mem_iff_head nm r h2, List.mem_cons]
      constructor
      · rintro (e | e)
        · exact absurd e.symm (navc_lt_ne ha)
        · exact e
      · exact Or.inr
    | false =>
      simp only [Bool.false_eq_true, if_false, List.head?_cons, List.mem_cons]
      constructor
      · rintro (e | e)
        · rw [e]
        · have := h1 nm e; rw [ha] at this; cases this
      · intro e; injection e with e; exact Or.inl e.symm

/-- after a hit, what remains are the names strictly greater -/
theorem navc_after_hit (nm : Bytes) : ∀ (l r : List Bytes), ascNames l = true →
    l.dropWhile (fun x => bytesLt x nm) = nm :: r → r = l.filter (fun x => bytesLt nm x)
  | [], _, _, e => by simp at e
  | a :: l, r, h, e => by
    obtain ⟨h1, h2⟩ := navc_asc_cons l a h
    rw [List.dropWhile_cons] at e
    rw [List.filter_cons]
    cases ha : bytesLt a nm with
    | true =>
      rw [ha] at e
      simp only [if_true] at e
      rw [navc_lt_asymm ha]
      simp only [Bool.false_eq_true, if_false]
      exact navc_after_hit nm l r h2 e
    | false =>
      rw [ha] at e
      simp only [Bool.false_eq_true, if_false] at e
      injection e with e1 e2
      subst e1
      rw [bytesLt_irrefl]
      simp only [Bool.false_eq_true, if_false]
      rw [← e2]
      symm
      rw [List.filter_eq_self]
      exact h1

/-- for an absent name, "not smaller" and "greater" select the same names -/
theorem navc_filter_absent (nm : Bytes) (l : List Bytes) (hn : nm ∉ l) :
    l.filter (fun x => !bytesLt x nm) = l.filter (fun x => bytesLt nm x) := by
  apply List.filter_congr
  intro x hx
  cases h1 : bytesLt x nm with
  | true => rw [navc_lt_asymm h1]; rfl
  | false =>
    cases h2 : bytesLt nm x with
    | true => rfl
    | false => exact absurd (bytesLt_total x nm h1 h2 ▸ hx) hn

theorem navc_mem_filter_gt {nm x : Bytes} (l : List Bytes) (h : bytesLt nm x = true) :
    x ∈ l.filter (fun y => bytesLt nm y) ↔ x ∈ l := by
  rw [List.mem_filter]
  exact ⟨fun h' => h'.1, fun h' => ⟨h', h⟩⟩

/-! ### the names of a field sequence -/

def fieldNames : Fields → List Bytes
  | .nil => []
  | .cons n _ r => n :: fieldNames r

theorem navc_names_annotateF : ∀ (fs : Fields) (off : Nat), (annotateF off fs).map nameOf = fieldNames fs
  | .nil, _ => by simp [annotateF, fieldNames]
  | .cons n v r, off => by
    rw [annotateF_cons, List.map_cons, nameOf_annotate, fieldNames, navc_names_annotateF r]

/-- well-formed field sequences have strictly ascending names -/
theorem navc_asc_of_wf : ∀ (fs : Fields) (pv : Option Bytes), wfFields pv fs = true → ascNames (fieldNames fs) = true
  | .nil, _, _ => rfl
  | .cons n v .nil, _, _ => rfl
  | .cons n v (.cons n' v' r), pv, h => by
    have h1 : wfFields (some n) (.cons n' v' r) = true := by
      rw [wfFields] at h; simp only [Bool.and_eq_true] at h; exact h.2
    have h2 : bytesLt n n' = true := by
      rw [wfFields] at h1; simp only [Bool.and_eq_true, nameAfter] at h1; exact h1.1.1.1
    have ih := navc_asc_of_wf (.cons n' v' r) (some n) h1
    simp only [fieldNames, ascNames, Bool.and_eq_true] at ih ⊢
    exact ⟨h2, ih⟩

/-! ### the reference cursor inside an object -/

theorem Cursor.namesAhead_of_frames {c : Cursor} {f : Frame} {fs : List Frame} (h : c.frames = f :: fs) :
    c.namesAhead = f.rest.map nameOf := by
  unfold Cursor.namesAhead; rw [h]

theorem Cursor.inObject_of_frames {c : Cursor} {f : Frame} {fs : List Frame} (h : c.frames = f :: fs) :
    c.inObject = f.isObj := by
  unfold Cursor.inObject; rw [h]

theorem Cursor.frames_of_inObject {c : Cursor} (h : c.inObject = true) : ∃ f fs, c.frames = f :: fs ∧ f.isObj = true := by
  unfold Cursor.inObject at h
  cases hf : c.frames with
  | nil => rw [hf] at h; cases h
  | cons f fs => rw [hf] at h; exact ⟨f, fs, rfl, h⟩

theorem Cursor.allowed_field_of_inObject {c : Cursor} (h : c.inObject = true) (nm : Bytes) : c.allowed (.field nm) = true := h

/-- a lookup that hits: the field found is the first one not smaller; it becomes current -/
theorem Cursor.step_field_hit {c : Cursor} {f : Frame} {fs : List Frame} (hf : c.frames = f :: fs) (nm : Bytes)
    {n : Node} {r : List Node} (hd : f.rest.dropWhile (fun x => bytesLt (nameOf x) nm) = n :: r) (hn : nameOf n = nm) :
    (c.step (.field nm)).1.frames = ⟨f.isObj, r⟩ :: fs ∧ (c.step (.field nm)).1.cur = some n ∧
    (c.step (.field nm)).2 = ⟨true, some n.item, none⟩ := by
  simp [Cursor.step, hf, hd, hn]

/-- a lookup that misses: only the smaller fields are passed, nothing is current -/
theorem Cursor.step_field_miss {c : Cursor} {f : Frame} {fs : List Frame} (hf : c.frames = f :: fs) (nm : Bytes)
    (hd : ∀ n r, f.rest.dropWhile (fun x => bytesLt (nameOf x) nm) = n :: r → nameOf n ≠ nm) :
    (c.step (.field nm)).1.frames = ⟨f.isObj, f.rest.dropWhile (fun x => bytesLt (nameOf x) nm)⟩ :: fs ∧
    (c.step (.field nm)).1.cur = none ∧ (c.step (.field nm)).2 = ⟨false, none, none⟩ := by
  simp only [Cursor.step, hf]
  cases hr : f.rest.dropWhile (fun x => bytesLt (nameOf x) nm) with
  | nil => exact ⟨rfl, rfl, rfl⟩
  | cons n r =>
    simp [hd n r hr]

theorem navc_dropWhile_names (nm : Bytes) (l : List Node) :
    (l.dropWhile (fun x => bytesLt (nameOf x) nm)).map nameOf = (l.map nameOf).dropWhile (fun x => bytesLt x nm) := by
  rw [List.dropWhile_map]; rfl

/-- the lookup of the reference cursor, read on `namesAhead` (inside a frame with ascending names) -/
theorem Cursor.step_field_names {c : Cursor} (hfr : c.frames ≠ []) (hasc : ascNames c.namesAhead = true) (nm : Bytes) :
    ((c.step (.field nm)).2.ok = true ↔ nm ∈ c.namesAhead) ∧
    (c.step (.field nm)).1.namesAhead = c.namesAhead.filter (fun x => bytesLt nm x) ∧
    ((c.step (.field nm)).2.ok = false →
      (c.step (.field nm)).1.namesAhead = c.namesAhead.filter (fun x => !bytesLt x nm) ∧ (c.step (.field nm)).1.cur = none) ∧
    (c.step (.field nm)).1.inObject = c.inObject := by
  obtain ⟨f, fs, hf⟩ : ∃ f fs, c.frames = f :: fs := by
    cases h : c.frames with
    | nil => exact absurd h hfr
    | cons f fs => exact ⟨f, fs, rfl⟩
  rw [Cursor.namesAhead_of_frames hf] at hasc ⊢
  have hmem := navc_mem_iff_head nm _ hasc
  have hdn := navc_dropWhile_names nm f.rest
  cases hr : f.rest.dropWhile (fun x => bytesLt (nameOf x) nm) with
  | nil =>
    obtain ⟨s1, s2, s3⟩ := Cursor.step_field_miss hf nm (fun n r h => by rw [hr] at h; cases h)
    rw [hr] at hdn s1
    have hno : nm ∉ f.rest.map nameOf := by rw [hmem, ← hdn]; simp
    have e1 : (c.step (.field nm)).1.namesAhead = (f.rest.map nameOf).filter (fun x => !bytesLt x nm) := by
      rw [Cursor.namesAhead_of_frames s1, ← navc_dropWhile_eq_filter nm _ hasc, ← hdn]
    refine ⟨by rw [s3]; simp [hno], by rw [e1]; exact navc_filter_absent nm _ hno, fun _ => ⟨e1, s2⟩, ?_⟩
    rw [Cursor.inObject_of_frames s1, Cursor.inObject_of_frames hf]
  | cons n r =>
    rw [hr, List.map_cons] at hdn
    by_cases hn : nameOf n = nm
    · obtain ⟨s1, s2, s3⟩ := Cursor.step_field_hit hf nm hr hn
      rw [hn] at hdn
      have hin : nm ∈ f.rest.map nameOf := by rw [hmem, ← hdn]; rfl
      refine ⟨by rw [s3]; simp [hin], ?_, fun h => (by rw [s3] at h; cases h), ?_⟩
      · rw [Cursor.namesAhead_of_frames s1]
        exact navc_after_hit nm _ _ hasc hdn.symm
      · rw [Cursor.inObject_of_frames s1, Cursor.inObject_of_frames hf]
    · obtain ⟨s1, s2, s3⟩ := Cursor.step_field_miss hf nm (fun n' r' h => by rw [hr] at h; injection h with h1 _; rw [← h1]; exact hn)
      rw [hr] at s1
      have hno : nm ∉ f.rest.map nameOf := by
        rw [hmem, ← hdn]; simp only [List.head?_cons]; intro e; injection e with e; exact hn e
      have e1 : (c.step (.field nm)).1.namesAhead = (f.rest.map nameOf).filter (fun x => !bytesLt x nm) := by
        rw [Cursor.namesAhead_of_frames s1, ← navc_dropWhile_eq_filter nm _ hasc, ← hdn]; rfl
      refine ⟨by rw [s3]; simp [hno], by rw [e1]; exact navc_filter_absent nm _ hno, fun _ => ⟨e1, s2⟩, ?_⟩
      rw [Cursor.inObject_of_frames s1, Cursor.inObject_of_frames hf]

/-- the field a lookup of `nm` refers to: the first (and, names being distinct, only) field ahead
    of the cursor whose name has exactly these bytes -/
def Cursor.fieldAhead (c : Cursor) (nm : Bytes) : Option Node :=
  match c.frames with
  | f :: _ => f.rest.find? (fun n => decide (nameOf n = nm))
  | [] => none

theorem Cursor.fieldAhead_of_frames {c : Cursor} {f : Frame} {fs : List Frame} (h : c.frames = f :: fs) (nm : Bytes) :
    c.fieldAhead nm = f.rest.find? (fun n => decide (nameOf n = nm)) := by
  unfold Cursor.fieldAhead; rw [h]

theorem Cursor.fieldAhead_some {c : Cursor} {nm : Bytes} {n : Node} (h : c.fieldAhead nm = some n) :
    ∃ f fs, c.frames = f :: fs ∧ n ∈ f.rest ∧ nameOf n = nm := by
  unfold Cursor.fieldAhead at h
  cases hf : c.frames with
  | nil => rw [hf] at h; cases h
  | cons f fs =>
    rw [hf] at h
    simp only at h
    have h1 := List.mem_of_find?_eq_some h
    have h2 := List.find?_some h
    exact ⟨f, fs, rfl, h1, by simpa using h2⟩

theorem Cursor.fieldAhead_isSome (c : Cursor) (nm : Bytes) : (c.fieldAhead nm).isSome = true ↔ nm ∈ c.namesAhead := by
  unfold Cursor.fieldAhead Cursor.namesAhead
  cases c.frames with
  | nil => simp
  | cons f fs => simp [List.find?_isSome]

theorem navc_find_of_dropWhile (nm : Bytes) : ∀ (l : List Node) (n : Node) (r : List Node),
    l.dropWhile (fun x => bytesLt (nameOf x) nm) = n :: r → nameOf n = nm →
    l.find? (fun x => decide (nameOf x = nm)) = some n
  | [], _, _, e, _ => by simp at e
  | a :: l, n, r, e, hn => by
    rw [List.dropWhile_cons] at e
    cases ha : bytesLt (nameOf a) nm with
    | true =>
      rw [ha] at e
      simp only [if_true] at e
      rw [List.find?_cons, show decide (nameOf a = nm) = false from decide_eq_false (navc_lt_ne ha)]
      exact navc_find_of_dropWhile nm l n r e hn
    | false =>
      rw [ha] at e
      simp only [Bool.false_eq_true, if_false] at e
      injection e with e1 _
      subst e1
      rw [List.find?_cons, show decide (nameOf a = nm) = true from decide_eq_true hn]

/-- what the lookup of the reference cursor makes current is `fieldAhead` -/
theorem Cursor.step_field_cur {c : Cursor} (hfr : c.frames ≠ []) (hasc : ascNames c.namesAhead = true) (nm : Bytes) :
    (c.step (.field nm)).1.cur = c.fieldAhead nm ∧ (c.step (.field nm)).2.item = (c.fieldAhead nm).map Node.item ∧
    (c.step (.field nm)).2.ok = (c.fieldAhead nm).isSome := by
  obtain ⟨f, fs, hf⟩ : ∃ f fs, c.frames = f :: fs := by
    cases h : c.frames with
    | nil => exact absurd h hfr
    | cons f fs => exact ⟨f, fs, rfl⟩
  have hmiss : (c.step (.field nm)).2.ok = false → c.fieldAhead nm = none := by
    intro h
    cases hx : c.fieldAhead nm with
    | none => rfl
    | some n =>
      have := (Cursor.fieldAhead_isSome c nm).mp (by rw [hx]; rfl)
      have := (Cursor.step_field_names hfr hasc nm).1.mpr this
      rw [h] at this; cases this
  cases hr : f.rest.dropWhile (fun x => bytesLt (nameOf x) nm) with
  | nil =>
    obtain ⟨_, s2, s3⟩ := Cursor.step_field_miss hf nm (fun n r h => by rw [hr] at h; cases h)
    rw [hmiss (by rw [s3]), s2, s3]; exact ⟨rfl, rfl, rfl⟩
  | cons n r =>
    by_cases hn : nameOf n = nm
    · obtain ⟨_, s2, s3⟩ := Cursor.step_field_hit hf nm hr hn
      rw [Cursor.fieldAhead_of_frames hf, navc_find_of_dropWhile nm _ n r hr hn, s2, s3]; exact ⟨rfl, rfl, rfl⟩
    · obtain ⟨_, s2, s3⟩ := Cursor.step_field_miss hf nm (fun n' r' h => by rw [hr] at h; injection h with h1 _; rw [← h1]; exact hn)
      rw [hmiss (by rw [s3]), s2, s3]; exact ⟨rfl, rfl, rfl⟩

end Binson
