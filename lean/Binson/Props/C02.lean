/-
  C02 — verify accepts exactly the well-formed Binson documents.
  `verify_iff`: from ANY allocated parser object (whatever it held before), init followed by
  verify returns true exactly for the byte strings that are the canonical encoding of a
  well-formed value of the right root kind within the depth limits.
  `c02_depth_code`: a document that is well-formed except that it nests too deep for this parser
  is rejected with exactly the error code of the FIRST nesting obstacle in byte order
  (`firstObstacle`, Spec/Decode.lean); `c02_fits_or_obstacle` shows the case split is exhaustive.
-/
import Binson.Lemmas.VerifyValid
import Binson.Lemmas.VerifySound
import Binson.Lemmas.DepthCode
import Binson.Lemmas.DecodeRef
namespace Binson

/-- C02: verify accepts exactly the well-formed documents. `wfDoc` = integers in int64 and every
    integer/length in its shortest form (by construction of `encode`), lengths ≤ INT32_MAX, names
    strictly ascending, object nesting ≤ max_depth (an array root occupies one level), array nesting
    ≤ 255; `encode v = buf` says there are no trailing bytes. -/
theorem c02_verify_iff (g : Parser) (ha : Alloc g) (hmd : g.maxDepth ≤ 255) (buf : Array UInt8) (hsz : buf.size < 2 ^ 63) (root : Root) :
    ((init g buf (rootNum root)).2 = true ∧ (verify (init g buf (rootNum root)).1).2.1 = true) ↔
    ∃ v, wfDoc root g.maxDepth v = true ∧ encode v = buf.toList :=
  verify_iff g ha hmd buf hsz root

/-- C02, last sentence: when nesting is the first obstacle met, the error code is the matching
    MAX_DEPTH_OBJECT / MAX_DEPTH_ARRAY (`b = true`: object depth). -/
theorem c02_depth_code (g : Parser) (ha : Alloc g) (hmd : g.maxDepth ≤ 255) (root : Root) (v : Value)
    (hwfv : wfValue v = true) (hrk : rootKindOk root v = true) (hsz : (encode v).length < 2 ^ 63) (b : Bool)
    (hob : firstObstacle (match root with | .object => g.maxDepth | .array => g.maxDepth - 1) 255 v = some b) :
    (init g (encode v).toArray (rootNum root)).2 = true ∧
    (verify (init g (encode v).toArray (rootNum root)).1).2.1 = false ∧
    (verify (init g (encode v).toArray (rootNum root)).1).1.err = (if b then Err.maxDepthObject else Err.maxDepthArray) :=
  verify_depth_code g ha hmd root v hwfv hrk hsz b hob

/-- every well-formed value of the right root kind either fits (and is accepted, `c02_verify_iff`)
    or has a first nesting obstacle (and gets its code, `c02_depth_code`) -/
theorem c02_fits_or_obstacle (root : Root) (md : Nat) (v : Value) (hwfv : wfValue v = true) (hrk : rootKindOk root v = true) :
    wfDoc root md v = true ∨ ∃ b, firstObstacle (match root with | .object => md | .array => md - 1) 255 v = some b :=
  wfDoc_or_firstObstacle root md v hwfv hrk

/-- ⇐ of `verify_iff`: init then verify accept the canonical encoding of every well-formed value
    of the right root kind within the depth limits -/
theorem verify_accepts_wellformed (g : Parser) (ha : Alloc g) (hmd : g.maxDepth ≤ 255) (root : Root) (v : Value)
    (hwf : wfDoc root g.maxDepth v = true) (hsz : (encode v).length < 2 ^ 63) :
    (init g (encode v).toArray (rootNum root)).2 = true ∧
    (verify (init g (encode v).toArray (rootNum root)).1).2.1 = true :=
  let h := verify_wellformed g ha hmd root v hwf hsz; ⟨h.1, h.2.2.1⟩

/-- the executable oracle `decodeRef` used by the violation search is the declarative spec:
    it returns `v` exactly for the canonical encoding of a well-formed `v` -/
theorem oracle_is_spec (b : Bytes) (v : Value) : decodeRef b = some v ↔ (wfValue v = true ∧ encode v = b) :=
  decodeRef_iff b v

/-- a value has one encoding and encodings are prefix-free (a document cannot be continued) -/
theorem encoding_unique (v v' : Value) (r r' : Bytes) (h : wfValue v = true) (h' : wfValue v' = true)
    (e : encode v ++ r = encode v' ++ r') : v = v' ∧ r = r' :=
  encode_prefix_free v v' r r' h h' e

/-- non-vacuity: `{"a":[1,{}]}` is a well-formed object document at depth 2 -/
example : wfDoc .object 2 (.obj (.cons [0x61] (.arr (.cons (.int 1) (.cons (.obj .nil) .nil))) .nil)) = true := by decide

end Binson
