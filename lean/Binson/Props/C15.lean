/-
  C15 — C++ Binson class (model of src/binson.cpp in Model/Cpp.lean; std::map = a `Fields`
  list kept sorted by `mapPut`).  PARTIAL by nature: "never crashes / never acts on an
  uninitialised parser / failures are std::exception" is runtime behaviour that no Lean model
  can exhibit; harness/drive_cpp.cpp (ASan+UBSan, poisoned stack) decides that part.

  Serialize half (all trees, any insertion order, both the 1000-byte first try and the retry) and
  deserialize half (round trips; "returns normally exactly when verify at depth 10 accepts", for
  ARBITRARY bytes; overload 3 on a parser that has been used before) are proved below for the model.
-/
import Binson.Lemmas.CppSer
import Binson.Lemmas.Walk
namespace Binson

/-- `serialize()` of the map content `fs` is the canonical encoding of the object — whatever the
    size (first try ≤ 1000 bytes, otherwise the retry at the size the dry pass counted). Only the
    lengths have to be admissible (≤ INT32_MAX); the counter is a 64-bit `size_t`. -/
theorem c15_serialize_canonical (fs : Fields) (hl : lensOkF fs = true) (hlen : (encode (.obj fs)).length < 2 ^ 64) :
    cppSerialize fs = encode (.obj fs) :=
  cppSerialize_encode fs hl hlen

/-- the retry path in isolation: the first pass over 1000 bytes ends in RANGE with the counter at the
    exact size, and the second pass produces the encoding -/
theorem c15_serialize_retry (fs : Fields) (hl : lensOkF fs = true)
    (hbig : 1000 < (encode (.obj fs)).length) (hlen : (encode (.obj fs)).length < 2 ^ 64) :
    (cppSerTo (Writer.init (Array.replicate 1000 0) 1000).1 fs).err = .range ∧
    (cppSerTo (Writer.init (Array.replicate 1000 0) 1000).1 fs).counter = (encode (.obj fs)).length ∧
    cppSerialize fs = encode (.obj fs) :=
  cppSerialize_retry fs hl hbig hlen

/-- field order on the wire is bytewise ascending regardless of insertion order: a tree built by
    `put()` calls in ANY order (nested objects likewise, later puts of the same key win) is the
    key-sorted tree of Spec/Canon.lean, and its serialization is the encoding of that tree -/
theorem c15_any_insertion_order (fs : Fields) (hl : lensOkF fs = true) (hlen : (encode (.obj fs)).length < 2 ^ 64) :
    putAllF fs .nil = sortKeysF fs ∧ ascF none (putAllF fs .nil) = true ∧
    cppSerialize (putAllF fs .nil) = encode (sortKeys (.obj fs)) :=
  ⟨putAllF_nil_eq_sortKeysF fs, ascF_putAllF_nil fs, cppSerialize_putAll' fs hl hlen⟩

/-- the serialization of a tree of admissible values nested at most 10 objects deep is accepted by
    verify at the wrapper's depth limit, from whatever the stack held -/
theorem c15_serialize_verifies (fs : Fields) (hi : insOkF fs = true)
    (hd : fits 10 255 (.obj fs) = true) (hsz : (encode (.obj fs)).length < 2 ^ 63) :
    (init (garbageParser 10) (cppSerialize (putAllF fs .nil)).toArray 1).2 = true ∧
    (verify (init (garbageParser 10) (cppSerialize (putAllF fs .nil)).toArray 1).1).2.1 = true :=
  cppSerialize_putAll_verifies fs hi hd hsz


/-! ### Deserialize half (Lemmas/Walk*.lean) -/

/-- deserialize(serialize(x)) = x for every tree of admissible values with object nesting ≤ 10, built by
    put() calls in any order -/
theorem c15_roundtrip_tree (ins : Fields) (hi : insOkF ins = true) (hd : fits 10 255 (.obj ins) = true)
    (hsz : (encode (.obj ins)).length < 2 ^ 63) :
    cppDeserialize (cppSerialize (putAllF ins .nil)).toArray = .ok (putAllF ins .nil) :=
  cppDes_cppSer_putAll ins hi hd hsz

/-- for ARBITRARY bytes (length 0 and 1 included): deserialize returns normally EXACTLY when verify at the
    wrapper's depth limit of 10 accepts the bytes; otherwise the model returns an error (= throws) -/
theorem c15_returns_iff_verify (bytes : Array UInt8) (hsz : bytes.size < 2 ^ 63) :
    (∃ fs, cppDeserialize bytes = .ok fs) ↔
    ((init (garbageParser 10) bytes 1).2 = true ∧ (verify (init (garbageParser 10) bytes 1).1).2.1 = true) :=
  cppDes_iff bytes hsz

/-- and when it returns, the tree is the decoded document and serialize(deserialize(bytes)) = bytes -/
theorem c15_roundtrip_bytes (bytes : Array UInt8) (hsz : bytes.size < 2 ^ 63) (fs : Fields) (h : cppDeserialize bytes = .ok fs) :
    wfDoc .object 10 (.obj fs) = true ∧ encode (.obj fs) = bytes.toList ∧ cppSerialize fs = bytes.toList :=
  cppDes_ok_canonical bytes hsz fs h

/-- overload 3 (`deserialize(binson_parser*)`) on ANY shaped parser object — fresh, in the middle of a
    traversal, or with its error flag set — over ARBITRARY bytes: returns the tree iff the bytes are the
    canonical encoding of that tree within the parser's depth limit (the reset at its start makes the
    result independent of the parser's history) -/
theorem c15_parser_overload (W : Parser) (hs : Shape W) (hpt : W.ptype = 1) (hmd255 : W.maxDepth ≤ 255) (fs : Fields) :
    cppDeserializeP W = .ok fs ↔ (wfDoc .object W.maxDepth (.obj fs) = true ∧ encode (.obj fs) = W.buf.toList) :=
  cppDesP_iff W hs hpt hmd255 fs

/-- non-vacuity: b, a, b inserted in that order -/
example : putAllF (.cons [0x62] (.int 1) (.cons [0x61] (.bool true) (.cons [0x62] (.int 2) .nil))) .nil
    = .cons [0x61] (.bool true) (.cons [0x62] (.int 2) .nil) := by rfl

end Binson
