/-
  Layer 1, part 6: the parser's error latch (C09) and history-freedom of init/reset/verify (C12).
-/
import Binson.Lemmas.Safe
namespace Binson

def Op.Resetting : Op → Bool
  | .init _ _ | .reset | .verify => true
  | _ => false

/-- what each call answers while an error is pending (everything but `get_depth` is a constant) -/
def neutralRet (p : Parser) : Op → Ret
  | .getDepth => .nat p.depth
  | .getType => .ty .none
  | .getName | .getStringBbuf | .getBytesBbuf => .span none
  | .getInteger => .int 0
  | .getDouble => .nat 0
  | .getRaw => .raw false ⟨0, 0⟩
  | _ => .bool false

theorem fieldLoop_err (f : Nat) (p : Parser) (nm : List UInt8) (he : p.err ≠ .none) : fieldLoop (f + 1) p nm = (p, false) := by
  unfold fieldLoop
  rw [advance_err p _ _ he]
  simp

/-- with an error pending, a call that is not init/reset/verify changes nothing at all and answers neutrally -/
theorem step_latched (p : Parser) (h : Shape p) (he : p.err ≠ .none) (op : Op) (hr : op.Resetting = false) :
    step p op = (p, neutralRet p op) := by
  cases op with
  | init _ _ => cases hr
  | reset => cases hr
  | verify => cases hr
  | next => simp [step, next, advance_err p _ _ he, neutralRet]
  | goIntoObject => simp [step, goIntoObject, advance_err p _ _ he, neutralRet]
  | goIntoArray => simp [step, goIntoArray, advance_err p _ _ he, neutralRet]
  | nextEnsure t => simp [step, nextEnsure, next, advance_err p _ _ he, neutralRet]
  | field nm => simp [step, field, fieldLoop_err _ p nm he, neutralRet]
  | fieldEnsure nm t => simp [step, fieldEnsure, field, fieldLoop_err _ p nm he, neutralRet]
  | leaveObject =>
    simp only [step, leaveObject, touchLvl_of_lt h.lvlIdx_lt, advance_err p _ _ he, neutralRet]
    split <;> simp [he]
  | leaveArray =>
    simp only [step, leaveArray, touchLvl_of_lt h.lvlIdx_lt, advance_err p _ _ he, neutralRet]
    split <;> simp [he]
  | getDepth => rfl
  | getType => simp [step, getType, he, neutralRet]
  | getName => simp [step, getName, he, neutralRet]
  | getStringBbuf => simp [step, getStringBbuf, he, neutralRet]
  | getBytesBbuf => simp [step, getBytesBbuf, he, neutralRet]
  | getInteger => simp [step, getInteger, he, neutralRet]
  | getBoolean => simp [step, getBoolean, he, neutralRet]
  | getDouble => simp [step, getDouble, he, neutralRet]
  | stringEquals s => simp [step, stringEquals, he, neutralRet]
  | getRaw => simp [step, getRaw, he, neutralRet]

theorem run_latched (ops : List Op) (p : Parser) (h : Shape p) (he : p.err ≠ .none) (hr : ∀ op ∈ ops, op.Resetting = false) :
    run p ops = p := by
  induction ops with
  | nil => rfl
  | cons op r ih =>
    unfold run
    simp only [List.foldl_cons]
    rw [step_latched p h he op (hr op List.mem_cons_self)]
    exact ih (fun o ho => hr o (List.mem_cons_of_mem _ ho))

/-! ### history-freedom -/

/-- everything a public function can read: all scalar fields, and the state entries while no error is pending -/
structure ObsEq (p q : Parser) : Prop where
  ptype : p.ptype = q.ptype
  depth : p.depth = q.depth
  maxDepth : p.maxDepth = q.maxDepth
  size : p.size = q.size
  used : p.used = q.used
  buf : p.buf = q.buf
  err : p.err = q.err
  cur : p.cur = q.cur
  fault : p.fault = q.fault
  oof : p.oof = q.oof
  lsize : p.levels.size = q.levels.size
  levels : p.err = .none → p.levels = q.levels

theorem ObsEq.refl (p : Parser) : ObsEq p p := ⟨rfl, rfl, rfl, rfl, rfl, rfl, rfl, rfl, rfl, rfl, rfl, fun _ => rfl⟩

theorem ObsEq.eq_of_noerr {p q : Parser} (e : ObsEq p q) (he : p.err = .none) : p = q := by
  obtain ⟨a1, a2, a3, a4, a5, a6, a7, a8, a9, a11, _, a13⟩ := e
  have := a13 he
  cases p; cases q; simp_all

/-- `reset` reads no state entry: observationally equal objects stay so, with the same answer -/
theorem reset_obsEq (p q : Parser) (e : ObsEq p q) : (reset p).2 = (reset q).2 ∧ ObsEq (reset p).1 (reset q).1 := by
  obtain ⟨a1, a2, a3, a4, a5, a6, a7, a8, a9, a11, a12, a13⟩ := e
  cases p with
  | mk pt pd pm ps pu pb pe pl pc pf po =>
  cases q with
  | mk qt qd qm qs qu qb qe ql qc qf qo =>
  simp only at a1 a2 a3 a4 a5 a6 a7 a8 a9 a11 a12 a13
  subst a1 a2 a3 a4 a5 a6 a7 a8 a9 a11
  unfold reset
  simp only [Parser.touchBuf, Parser.byte, wipe]
  repeat' split
  all_goals first
    | exact ⟨rfl, ⟨rfl, rfl, rfl, rfl, rfl, rfl, rfl, rfl, rfl, rfl, a12, a13⟩⟩
    | exact ⟨rfl, ⟨rfl, rfl, rfl, rfl, rfl, rfl, rfl, rfl, rfl, rfl, a12, fun h => by cases h⟩⟩
    | exact ⟨rfl, ⟨rfl, rfl, rfl, rfl, rfl, rfl, rfl, rfl, by simp [a12], rfl, by simp [a12], fun _ => by simp [a12]⟩⟩

end Binson
