/*
 * drive.c - in-process driver of the real binson-c-light C library.
 *
 *   drive gen <profile> <seed> <ncases> <ops_out> <impl_out>   generate cases, execute them, log both
 *   drive replay <ops_in> <impl_out>                           execute a script
 *
 * One operation per line (see DESIGN.md 3.4b). Every buffer handed to the library is a heap
 * block of exactly its size, so that ASan sees any access outside it. The generator is
 * adaptive: it looks only at what the public API answered.
 */
#define _GNU_SOURCE
#include <stdio.h>
#include <sys/time.h>
#include <sys/mman.h>
#include <time.h>
#include <stdlib.h>
#include <string.h>
#include <stdarg.h>
#include <unistd.h>
#include <fcntl.h>
#include <signal.h>
#include "binson_light.h"

/* ---------- PRNG: one xorshift state, everything derives from it ---------- */
static uint64_t S = 88172645463325252ULL;
static uint64_t r64(void) { S ^= S << 13; S ^= S >> 7; S ^= S << 17; return S; }
static uint32_t rn(uint32_t n) { return n ? (uint32_t)((r64() >> 11) % n) : 0; }
static int chance(int pct) { return (int)rn(100) < pct; }

/* ---------- objects ---------- */
#define NOBJ 4
typedef struct { binson_parser *p; binson_state *st; uint8_t *buf; size_t len; int md; } PObj;
typedef struct { binson_writer *w; uint8_t *mem; size_t cap; int isnull; } WObj;
static PObj P[NOBJ];
static WObj W[NOBJ];
static FILE *fout;          /* implementation observations */
static FILE *fops;          /* ops log (gen mode) */
static long ncb;
static int last_ret;     /* return value of the last bool-returning parser call */
static int use_cb = 1;   /* K 0: this case runs with NO callback installed (the observation then has "c-"): code that behaves differently when nobody listens */
static void count_cb(binson_parser *p, uint16_t ns, void *ctx) { (void)p; (void)ns; (void)ctx; ncb++; }

static void free_p(int k) { free(P[k].p); free(P[k].st); free(P[k].buf); memset(&P[k], 0, sizeof P[k]); }
static void free_w(int k) { free(W[k].w); free(W[k].mem); memset(&W[k], 0, sizeof W[k]); }

static int hexv(int c) { return c <= '9' ? c - '0' : (c | 32) - 'a' + 10; }
static size_t unhex(const char *s, uint8_t **out) {
    size_t n = strlen(s) / 2; if (s[0] == '-') n = 0;
    uint8_t *b = malloc(n ? n : 1);
    for (size_t i = 0; i < n; i++) b[i] = (uint8_t)(hexv(s[2*i]) * 16 + hexv(s[2*i+1]));
    *out = b; return n;
}
static void hexout(FILE *f, const uint8_t *b, size_t n) {
    if (n == 0) { fputc('-', f); return; }
    for (size_t i = 0; i < n; i++) fprintf(f, "%02x", b[i]);
}
static uint64_t fnv(const uint8_t *b, size_t n) { uint64_t h = 1469598103934665603ULL; for (size_t i = 0; i < n; i++) { h ^= b[i]; h *= 1099511628211ULL; } return h; }
/* memory image: hex when small, length+hash when large */
static void memout(FILE *f, const uint8_t *b, size_t n) {
    if (n <= 160) hexout(f, b, n); else fprintf(f, "#%zu:%016llx", n, (unsigned long long)fnv(b, n));
}

static void span_out(char *dst, PObj *o, const bbuf *b) {
    if (!b || !b->bptr) { strcpy(dst, "NULL"); return; }
    sprintf(dst, "%zu+%zu", (size_t)(b->bptr - o->buf), b->bsize);
}

/* the uniform observation after a parser call */
static const char *obs_suffix = NULL;
static void pobs(int k, const char *ret) {
    PObj *o = &P[k]; binson_parser *p = o->p;
    char nm[64] = "-", v[96] = "_";
    int t = (int)binson_parser_get_type(p);
    if (p->error_flags == BINSON_ERROR_NONE) {
        if (p->current_state && p->current_state->current_name.bptr) span_out(nm, o, &p->current_state->current_name);
        switch (t) {
        case BINSON_TYPE_INTEGER: sprintf(v, "i%lld", (long long)binson_parser_get_integer(p)); break;
        case BINSON_TYPE_BOOLEAN: sprintf(v, "b%d", (int)binson_parser_get_boolean(p)); break;
        case BINSON_TYPE_DOUBLE: { double d = binson_parser_get_double(p); uint64_t u; memcpy(&u, &d, 8); sprintf(v, "d%llu", (unsigned long long)u); } break;
        case BINSON_TYPE_STRING: { char s[64]; span_out(s, o, binson_parser_get_string_bbuf(p)); sprintf(v, "s%s", s); } break;
        case BINSON_TYPE_BYTES: { char s[64]; span_out(s, o, binson_parser_get_bytes_bbuf(p)); sprintf(v, "y%s", s); } break;
        default: break;
        }
    } else strcpy(v, "x");
    char cbs[32]; if (use_cb) sprintf(cbs, "c%ld", ncb); else strcpy(cbs, "c-");
    fprintf(fout, "%s e%d d%zu u%zu t%d n%s %s %s%s", ret, (int)p->error_flags, binson_parser_get_depth(p),
            p->buffer_used, t, nm, v, cbs, obs_suffix ? obs_suffix : "\n");
}
/* print / to_string install an internal callback for the duration of the call; one that is still installed when the
   call has returned would be invoked (with a dangling context) by every later call on this object - a carry-over (C12).
   Reported in the observation; then removed so that the harness itself stays memory-safe. */
static const char *cb_left(binson_parser *p) {
    if (p->cb == NULL && p->cb_context == NULL) return "";
    p->cb = NULL; p->cb_context = NULL; return " CBLEFT";
}
static void wobs(int k, int ret) {
    binson_writer *w = W[k].w;
    fprintf(fout, "%d e%d c%zu\n", ret, (int)w->error_flags, binson_writer_get_counter(w));
}

/* captured stdout of binson_parser_print */
static uint8_t *capture_print(binson_parser *p, int *ret, size_t *n) {
    fflush(stdout);
    char path[] = "/dev/shm/binson_pr_XXXXXX";
    int fd = mkstemp(path); if (fd < 0) { perror("mkstemp"); exit(3); }
    unlink(path);
    int saved = dup(1); dup2(fd, 1);
    *ret = binson_parser_print(p);
    fflush(stdout); dup2(saved, 1); close(saved);
    off_t sz = lseek(fd, 0, SEEK_END); lseek(fd, 0, SEEK_SET);
    uint8_t *b = malloc(sz ? (size_t)sz : 1); size_t got = 0;
    while (got < (size_t)sz) { ssize_t r = read(fd, b + got, (size_t)sz - got); if (r <= 0) break; got += (size_t)r; }
    close(fd); *n = got; return b;
}

/* transcription parser -> writer through the public API only (C10) */
static int transcribe_items(binson_parser *p, binson_writer *w, int in_obj);
static int transcribe_value(binson_parser *p, binson_writer *w) {
    switch (binson_parser_get_type(p)) {
    case BINSON_TYPE_BOOLEAN: return binson_write_boolean(w, binson_parser_get_boolean(p)), 1;
    case BINSON_TYPE_INTEGER: return binson_write_integer(w, binson_parser_get_integer(p)), 1;
    case BINSON_TYPE_DOUBLE: return binson_write_double(w, binson_parser_get_double(p)), 1;
    case BINSON_TYPE_STRING: { bbuf *b = binson_parser_get_string_bbuf(p); if (!b) return 0; binson_write_string_with_len(w, (const char *)b->bptr, b->bsize); return 1; }
    case BINSON_TYPE_BYTES: { bbuf *b = binson_parser_get_bytes_bbuf(p); if (!b) return 0; binson_write_bytes(w, b->bptr, b->bsize); return 1; }
    case BINSON_TYPE_OBJECT:
        if (!binson_parser_go_into_object(p)) return 0;
        binson_write_object_begin(w);
        if (!transcribe_items(p, w, 1)) return 0;
        if (!binson_parser_leave_object(p)) return 0;
        binson_write_object_end(w); return 1;
    case BINSON_TYPE_ARRAY:
        if (!binson_parser_go_into_array(p)) return 0;
        binson_write_array_begin(w);
        if (!transcribe_items(p, w, 0)) return 0;
        if (!binson_parser_leave_array(p)) return 0;
        binson_write_array_end(w); return 1;
    default: return 0;
    }
}
static int transcribe_items(binson_parser *p, binson_writer *w, int in_obj) {
    while (binson_parser_next(p)) {
        if (in_obj) { bbuf *n = binson_parser_get_name(p); if (!n) return 0; binson_write_string_with_len(w, (const char *)n->bptr, n->bsize); }
        if (!transcribe_value(p, w)) return 0;
    }
    return p->error_flags == BINSON_ERROR_NONE;
}

static void garbage_fill(binson_parser *p, binson_state *st, int md, uint64_t gseed) {
    uint64_t g = gseed * 2654435761ULL + 12345;
    uint8_t *b = (uint8_t *)p; for (size_t i = 0; i < sizeof(binson_parser); i++) { g = g * 6364136223846793005ULL + 1442695040888963407ULL; b[i] = (uint8_t)(g >> 56); }
    b = (uint8_t *)st; for (size_t i = 0; i < sizeof(binson_state) * (size_t)(md ? md : 1); i++) { g = g * 6364136223846793005ULL + 1442695040888963407ULL; b[i] = (uint8_t)(g >> 56); }
}
static unsigned garbage_flags0(int md, uint64_t gseed) {
    binson_parser tmp; binson_state *st = malloc(sizeof(binson_state) * (size_t)(md ? md : 1));
    garbage_fill(&tmp, st, md, gseed); unsigned f = st[0].flags; free(st); return f;
}

/* ---------- executing one op line ---------- */
static char *tok[8]; static int ntok;
static void split(char *line) { ntok = 0; char *s = strtok(line, " \t\r\n"); while (s && ntok < 8) { tok[ntok++] = s; s = strtok(NULL, " \t\r\n"); } }

/* watchdog on the CPU time of this process (robust on a loaded machine): no library call needs more than a few ms */
static void arm_watchdog(void) { struct itimerval it; memset(&it, 0, sizeof it); it.it_value.tv_sec = 4; setitimer(ITIMER_VIRTUAL, &it, NULL); }
static void arm_watchdog_long(void) { struct itimerval it; memset(&it, 0, sizeof it); it.it_value.tv_sec = 30; setitimer(ITIMER_VIRTUAL, &it, NULL); }
static void on_alarm(int sig) { (void)sig; static const char m[] = "TIMEOUT: a library call did not return within the watchdog limit\n"; if (write(2, m, sizeof m - 1)) {} _exit(97); }
static void exec_line(const char *line_in) {
    char *line = strdup(line_in); split(line);
    arm_watchdog(); alarm(60);
    int k = 0, a = 0;
    if (ntok && tok[0][0] == '@') { k = atoi(tok[0] + 1) % NOBJ; a = 1; }
    if (ntok <= a) { free(line); return; }
    const char *op = tok[a]; char **arg = tok + a + 1; int na = ntok - a - 1;
    PObj *o = &P[k]; binson_parser *p = o->p; WObj *wo = &W[k];
    char rb[160];
    ncb = 0;
#define NEEDP if (!p) { fprintf(fout, "no-parser\n"); goto done; }
#define NEEDW if (!wo->w) { fprintf(fout, "no-writer\n"); goto done; }
#define BOOLOP(call) do { NEEDP; p->cb = use_cb ? count_cb : NULL; int r_ = (call); p->cb = NULL; last_ret = r_; sprintf(rb, "%d", r_); pobs(k, rb); } while (0)
    if (!strcmp(op, "M")) { fprintf(fout, "M %s\n", na ? arg[0] : "-"); }
    else if (!strcmp(op, "K")) { use_cb = na ? atoi(arg[0]) : 1; fprintf(fout, "K\n"); }
    else if (!strcmp(op, "C")) {
        use_cb = 1;
        for (int i = 0; i < NOBJ; i++) { free_p(i); free_w(i); }
        fprintf(fout, "C %s\n", na ? arg[0] : "0");
    } else if (!strcmp(op, "P") && na >= 2) {
        /* new parser object over garbage memory: P <maxdepth> <gseed> [<flags0>] */
        free_p(k);
        int md = atoi(arg[0]);
        o->md = md; o->p = malloc(sizeof(binson_parser)); o->st = malloc(sizeof(binson_state) * (size_t)(md ? md : 1));
        garbage_fill(o->p, o->st, md, strtoull(arg[1], NULL, 10));
        o->p->state = o->st; o->p->max_depth = (uint_fast8_t)md;
        fprintf(fout, "P %d f%u\n", md, (unsigned)o->st[0].flags);
    } else if (!strcmp(op, "I") && na >= 2) {
        NEEDP;
        { uint8_t *nb0; size_t nl0 = unhex(arg[1], &nb0);
          if (o->buf && nl0 == o->len && nl0 > 0 && na >= 3 && arg[2][0] == 's') {   /* "I <t> <hex> s": init again over the SAME memory (same pointer, same size), contents replaced */
              memcpy(o->buf, nb0, nl0); free(nb0);
              int r0 = arg[0][0] == 'a' ? binson_parser_init_array(p, o->buf, o->len) : binson_parser_init(p, o->buf, o->len);
              sprintf(rb, "%d", r0); pobs(k, rb); goto done; }
          free(nb0); }
        free(o->buf); o->len = unhex(arg[1], &o->buf);
        { uint8_t *ex = malloc(o->len ? o->len : 1); memcpy(ex, o->buf, o->len); free(o->buf); o->buf = ex; if (o->len == 0) { free(o->buf); o->buf = malloc(0); if (!o->buf) o->buf = malloc(1); } }
        int r = arg[0][0] == 'a' ? binson_parser_init_array(p, o->buf, o->len) : binson_parser_init(p, o->buf, o->len);
        sprintf(rb, "%d", r); pobs(k, rb);
    } else if (!strcmp(op, "B") && na >= 1) {
        /* rewrite the caller's buffer in place under the live parser (same size) */
        NEEDP; uint8_t *nb; size_t nl = unhex(arg[0], &nb);
        if (nl == o->len && o->buf) { memcpy(o->buf, nb, nl); fprintf(fout, "B ok\n"); } else fprintf(fout, "B size-mismatch\n");
        free(nb);
    } else if (!strcmp(op, "r")) BOOLOP(binson_parser_reset(p));
    else if (!strcmp(op, "v")) BOOLOP(binson_parser_verify(p));
    else if (!strcmp(op, "n")) BOOLOP(binson_parser_next(p));
    else if (!strcmp(op, "N") && na >= 1) BOOLOP(binson_parser_next_ensure(p, (binson_type)atoi(arg[0])));
    else if (!strcmp(op, "io")) BOOLOP(binson_parser_go_into_object(p));
    else if (!strcmp(op, "ia")) BOOLOP(binson_parser_go_into_array(p));
    else if (!strcmp(op, "lo")) BOOLOP(binson_parser_leave_object(p));
    else if (!strcmp(op, "la")) BOOLOP(binson_parser_leave_array(p));
    else if ((!strcmp(op, "f") || !strcmp(op, "fz") || !strcmp(op, "F") || !strcmp(op, "Fz")) && na >= 1) {
        NEEDP;
        uint8_t *nm; size_t nl = unhex(arg[0], &nm);
        char *z = malloc(nl + 1); memcpy(z, nm, nl); z[nl] = 0;
        uint8_t *ex = malloc(nl ? nl : 1); memcpy(ex, nm, nl);   /* exact-size, not NUL-terminated */
        int r; p->cb = use_cb ? count_cb : NULL;
        if (!strcmp(op, "f")) r = binson_parser_field_with_length(p, (const char *)ex, nl);
        else if (!strcmp(op, "fz")) r = binson_parser_field(p, z);
        else if (!strcmp(op, "F")) r = binson_parser_field_ensure_with_length(p, (const char *)ex, nl, (binson_type)atoi(na >= 2 ? arg[1] : "0"));
        else r = binson_parser_field_ensure(p, z, (binson_type)atoi(na >= 2 ? arg[1] : "0"));
        p->cb = NULL; free(nm); free(z); free(ex); last_ret = r;
        sprintf(rb, "%d", r); pobs(k, rb);
    } else if (!strcmp(op, "gt")) { NEEDP; sprintf(rb, "T%d", (int)binson_parser_get_type(p)); pobs(k, rb); }
    else if (!strcmp(op, "gD")) { NEEDP; sprintf(rb, "D%zu", binson_parser_get_depth(p)); pobs(k, rb); }
    else if (!strcmp(op, "gn")) { NEEDP; char s[64]; span_out(s, o, binson_parser_get_name(p)); sprintf(rb, "N%s", s); pobs(k, rb); }
    else if (!strcmp(op, "gs")) { NEEDP; char s[64]; span_out(s, o, binson_parser_get_string_bbuf(p)); sprintf(rb, "S%s", s); pobs(k, rb); }
    else if (!strcmp(op, "gy")) { NEEDP; char s[64]; span_out(s, o, binson_parser_get_bytes_bbuf(p)); sprintf(rb, "Y%s", s); pobs(k, rb); }
    else if (!strcmp(op, "gi")) { NEEDP; sprintf(rb, "I%lld", (long long)binson_parser_get_integer(p)); pobs(k, rb); }
    else if (!strcmp(op, "gb")) { NEEDP; sprintf(rb, "B%d", (int)binson_parser_get_boolean(p)); pobs(k, rb); }
    else if (!strcmp(op, "gd")) { NEEDP; double d = binson_parser_get_double(p); uint64_t u; memcpy(&u, &d, 8); sprintf(rb, "G%llu", (unsigned long long)u); pobs(k, rb); }
    else if (!strcmp(op, "se") && na >= 1) {
        NEEDP; uint8_t *s; size_t sl = unhex(arg[0], &s); char *z = malloc(sl + 1); memcpy(z, s, sl); z[sl] = 0;
        sprintf(rb, "E%d", (int)binson_parser_string_equals(p, z)); free(s); free(z); pobs(k, rb);
    } else if (!strcmp(op, "gr")) {
        NEEDP; bbuf raw; raw.bptr = NULL; raw.bsize = 0; p->cb = use_cb ? count_cb : NULL; int r = binson_parser_get_raw(p, &raw); p->cb = NULL; last_ret = r;
        if (r) { char s[64]; span_out(s, o, &raw); sprintf(rb, "1R%s", s); } else strcpy(rb, "0R-");
        pobs(k, rb);
    } else if (!strcmp(op, "ts") && na >= 1) {
        NEEDP;
        int isnull = !strcmp(arg[0], "NULL"); size_t cap = isnull ? 0 : (size_t)strtoull(arg[0], NULL, 10);
        size_t sz = (na >= 2) ? (size_t)strtoull(arg[1], NULL, 10) : cap;      /* *buf_size handed in */
        char *dst = isnull ? NULL : malloc(cap ? cap : 0); if (!isnull && !dst) dst = malloc(1);
        if (dst) memset(dst, 0xAA, cap);
        int r = binson_parser_to_string(p, dst, &sz, chance(50));
        fprintf(fout, "%d z%zu m", r, sz); if (dst) memout(fout, (uint8_t *)dst, cap); else fputs("NULL", fout);
        /* x: what the property speaks about on success - the text and its terminator (the bytes of the destination after the terminator
           are not specified; they are part of m, which only the model comparison looks at) */
        fputs(" x", fout); if (r && dst) memout(fout, (uint8_t *)dst, sz + 1 <= cap ? sz + 1 : cap); else fputc('-', fout);
        fprintf(fout, " e%d d%zu u%zu%s\n", (int)p->error_flags, binson_parser_get_depth(p), p->buffer_used, cb_left(p));
        free(dst);
    } else if (!strcmp(op, "tsH")) {
        /* binson_parser_to_string into a REAL destination of 2 GiB + 4 KiB (lazily mapped, never touched beyond the text):
           a capacity that does not fit an int must behave like any other sufficient capacity */
        NEEDP; size_t cap = ((size_t)1 << 31) + 4096;
        char *dst = mmap(NULL, cap, PROT_READ | PROT_WRITE, MAP_PRIVATE | MAP_ANONYMOUS | MAP_NORESERVE, -1, 0);
        if (dst == MAP_FAILED) { fprintf(fout, "skip\n"); }
        else {
            size_t sz = cap; int r = binson_parser_to_string(p, dst, &sz, chance(50));
            size_t show = sz + 1 < 64 ? sz + 1 : 64; if (!r) show = 0;
            fprintf(fout, "%d z%zu m", r, sz); memout(fout, (uint8_t *)dst, show);
            fprintf(fout, " e%d d%zu u%zu%s\n", (int)p->error_flags, binson_parser_get_depth(p), p->buffer_used, cb_left(p));
            munmap(dst, cap);
        }
    } else if (!strcmp(op, "tq") && na >= 1) {
        /* time class of binson_parser_to_string on {"a": <n bytes>} vs {"a": <4n bytes>}: "lin" unless the larger one costs more than 10x the smaller (CPU time, best of 3) */
        size_t n = (size_t)strtoull(arg[0], NULL, 10); double best[2] = { 1e9, 1e9 };
        for (int which = 0; which < 2; which++) {
            size_t len = which ? 4 * n : n;
            struct { uint8_t *b; size_t n; } d; d.b = malloc(len + 16); d.n = 0;
            if (na >= 2 && arg[1][0] == 'A') {   /* many tokens: an array of len/2 one-byte integers */
                d.b[d.n++] = 0x42; for (size_t i = 0; i + 1 < len; i += 2) { d.b[d.n++] = 0x10; d.b[d.n++] = (uint8_t)(i & 0x7f); } d.b[d.n++] = 0x43;
            } else {
            d.b[d.n++] = 0x40; d.b[d.n++] = 0x14; d.b[d.n++] = 0x01; d.b[d.n++] = 'a';
            if (len <= 127) { d.b[d.n++] = 0x18; d.b[d.n++] = (uint8_t)len; }
            else if (len <= 32767) { d.b[d.n++] = 0x19; d.b[d.n++] = (uint8_t)(len & 255); d.b[d.n++] = (uint8_t)(len >> 8); }
            else { d.b[d.n++] = 0x1a; for (int sh = 0; sh < 32; sh += 8) d.b[d.n++] = (uint8_t)((len >> sh) & 255); }
            memset(d.b + d.n, 0x5a, len); d.n += len; d.b[d.n++] = 0x41;
            }
            char *dst = malloc(3 * len + 64);
            for (int rep = 0; rep < 3; rep++) {
                binson_parser ps; binson_state st[2]; memset(&ps, 0, sizeof ps); ps.state = st; ps.max_depth = 2;
                if (!((na >= 2 && arg[1][0] == 'A') ? binson_parser_init_array(&ps, d.b, d.n) : binson_parser_init_object(&ps, d.b, d.n))) break;
                size_t sz = 3 * len + 64; struct timespec a, b; clock_gettime(CLOCK_PROCESS_CPUTIME_ID, &a);
                arm_watchdog_long(); int okr = binson_parser_to_string(&ps, dst, &sz, false); if (getenv("TQDEBUG")) fprintf(stderr, "tq which=%d rep=%d ok=%d sz=%zu err=%d\n", which, rep, okr, sz, (int)ps.error_flags);
                clock_gettime(CLOCK_PROCESS_CPUTIME_ID, &b);
                double t = (double)(b.tv_sec - a.tv_sec) + 1e-9 * (double)(b.tv_nsec - a.tv_nsec); if (t < best[which]) best[which] = t;
            }
            free(dst); free(d.b);
        }
        /* the CPU clock of this machine may tick in steps of several ms: a smaller measurement that is below 20 ms is inconclusive */
        if (best[0] < 0.020 || best[1] <= 10.0 * best[0] + 0.010) fprintf(fout, "lin\n"); else fprintf(fout, "superlinear %.4fs for n, %.4fs for 4n\n", best[0], best[1]);
    } else if (!strcmp(op, "pr")) {
        NEEDP; int r; size_t n; uint8_t *b = capture_print(p, &r, &n);
        fprintf(fout, "%d o", r); memout(fout, b, n); fprintf(fout, " e%d d%zu u%zu%s\n", (int)p->error_flags, binson_parser_get_depth(p), p->buffer_used, cb_left(p)); free(b);
    } else if (!strcmp(op, "W") && na >= 1) {
        free_w(k);
        int isnull = !strcmp(arg[0], "NULL"); size_t cap = isnull ? 0 : (size_t)strtoull(arg[0], NULL, 10);
        wo->w = malloc(sizeof(binson_writer)); memset(wo->w, 0xC3, sizeof(binson_writer));
        wo->cap = cap; wo->isnull = isnull; wo->mem = isnull ? NULL : malloc(cap); if (!isnull && !wo->mem) wo->mem = malloc(1);
        if (wo->mem) memset(wo->mem, 0xAA, cap);
        int r = binson_writer_init(wo->w, wo->mem, cap); wobs(k, r);
    } else if (!strcmp(op, "wx")) { NEEDW; wobs(k, binson_writer_reset(wo->w)); }
    else if (!strcmp(op, "wob")) { NEEDW; wobs(k, binson_write_object_begin(wo->w)); }
    else if (!strcmp(op, "woe")) { NEEDW; wobs(k, binson_write_object_end(wo->w)); }
    else if (!strcmp(op, "wab")) { NEEDW; wobs(k, binson_write_array_begin(wo->w)); }
    else if (!strcmp(op, "wae")) { NEEDW; wobs(k, binson_write_array_end(wo->w)); }
    else if (!strcmp(op, "wb") && na >= 1) { NEEDW; wobs(k, binson_write_boolean(wo->w, atoi(arg[0]) != 0)); }
    else if (!strcmp(op, "wi") && na >= 1) { NEEDW; wobs(k, binson_write_integer(wo->w, (int64_t)strtoll(arg[0], NULL, 10))); }
    else if (!strcmp(op, "wd") && na >= 1) { NEEDW; uint64_t u = strtoull(arg[0], NULL, 10); double d; memcpy(&d, &u, 8); wobs(k, binson_write_double(wo->w, d)); }
    else if ((!strcmp(op, "ws") || !strcmp(op, "wy") || !strcmp(op, "wn") || !strcmp(op, "wr")) && na >= 1) {
        NEEDW; uint8_t *s; size_t sl = unhex(arg[0], &s);
        uint8_t *ex = malloc(sl ? sl : 1); memcpy(ex, s, sl); int r;
        if (na >= 2 && !strcmp(arg[1], "N") && sl == 0) { free(ex); ex = NULL; }   /* an empty value as (NULL, 0), as std::vector<uint8_t>().data() gives it */
        if (!strcmp(op, "ws")) r = binson_write_string_with_len(wo->w, (const char *)ex, sl);
        else if (!strcmp(op, "wy")) r = binson_write_bytes(wo->w, ex, sl);
        else if (!strcmp(op, "wr")) r = binson_write_raw(wo->w, ex, sl);
        else { char *z = malloc(sl + 1); memcpy(z, s, sl); z[sl] = 0; r = binson_write_name(wo->w, z); free(z); }
        free(s); free(ex); wobs(k, r);
    } else if (!strcmp(op, "wrA") && na >= 2) {   /* binson_write_raw(w, destination + off, len): source aliases the destination */
        NEEDW; size_t off = (size_t)strtoull(arg[0], NULL, 10), len = (size_t)strtoull(arg[1], NULL, 10);
        if (wo->isnull || off + len > wo->cap) fprintf(fout, "skip\n"); else wobs(k, binson_write_raw(wo->w, wo->mem + off, len));
    } else if (!strcmp(op, "wrH")) {   /* binson_write_raw with an absurd length (SIZE_MAX): used + length wraps around; must be refused with RANGE, nothing read or stored */
        NEEDW; uint8_t one = 0x5a; wobs(k, binson_write_raw(wo->w, &one, (size_t)-1));
    } else if (!strcmp(op, "wnN")) { NEEDW; wobs(k, binson_write_name(wo->w, NULL)); }
    else if (!strcmp(op, "wrN") && na >= 1) { NEEDW; wobs(k, binson_write_raw(wo->w, NULL, (size_t)strtoull(arg[0], NULL, 10))); }
    else if (!strcmp(op, "wc")) { NEEDW; wobs(k, 1); }
    else if (!strcmp(op, "wv")) {
        NEEDW;
        if (wo->isnull || wo->w->buffer_used > wo->cap) fprintf(fout, "skip\n");   /* would read past the destination */
        else wobs(k, binson_writer_verify(wo->w));
    } else if (!strcmp(op, "dump")) { NEEDW; fputs("m", fout); if (wo->mem) memout(fout, wo->mem, wo->cap); else fputs("NULL", fout); fputc('\n', fout); }
    else if (!strcmp(op, "p2w")) {
        NEEDP; NEEDW; p->cb = use_cb ? count_cb : NULL; int r = binson_parser_to_writer(p, wo->w); p->cb = NULL;
        sprintf(rb, "%d", r); obs_suffix = " | "; pobs(k, rb); obs_suffix = NULL; wobs(k, r);
    } else if (!strcmp(op, "tr") && na >= 1) {
        /* transcribe parser @k (freshly reset) into a new writer @k of capacity <cap> */
        NEEDP;
        if (na >= 2 && arg[1][0] == 'O') {
            /* in-place compaction: the document sits <shift> bytes into a work buffer, the writer's destination is the start of
               the same buffer; the writer trails the parser, every copy overlaps its source (dst < src). Uses objects of its own. */
            size_t cap = (size_t)strtoull(arg[0], NULL, 10), shift = (size_t)strtoull(arg[1] + 1, NULL, 10), len = o->len;
            uint8_t *work = malloc(len + shift + 1); memset(work, 0xAA, len + shift); memcpy(work + shift, o->buf, len);
            binson_parser tp; binson_state *st = calloc((size_t)o->md, sizeof *st); memset(&tp, 0, sizeof tp); tp.state = st; tp.max_depth = (uint_fast8_t)o->md;
            binson_writer tw; binson_writer_init(&tw, work, cap);
            int ok = (p->type == 1) ? binson_parser_init_object(&tp, work + shift, len) : binson_parser_init_array(&tp, work + shift, len);
            if (ok) { if (tp.type == 1) { ok = binson_parser_go_into_object(&tp); if (ok) { binson_write_object_begin(&tw); ok = transcribe_items(&tp, &tw, 1) && binson_parser_leave_object(&tp); if (ok) binson_write_object_end(&tw); } }
                      else { ok = binson_parser_go_into_array(&tp); if (ok) { binson_write_array_begin(&tw); ok = transcribe_items(&tp, &tw, 0) && binson_parser_leave_array(&tp); if (ok) binson_write_array_end(&tw); } } }
            fprintf(fout, "%d e%d we%d c%zu m", ok, (int)tp.error_flags, (int)tw.error_flags, binson_writer_get_counter(&tw));
            /* beyond what the writer wrote the work buffer holds the (shifted) input, which a separate destination would not: show the written part only */
            { size_t wn = binson_writer_get_counter(&tw); if (wn > cap) wn = cap; uint8_t *img = malloc(cap ? cap : 1); memset(img, 0xAA, cap); memcpy(img, work, wn); memout(fout, img, cap); free(img); }
            fputc('\n', fout);
            free(work); free(st); return;
        }
        free_w(k);
        size_t cap = (size_t)strtoull(arg[0], NULL, 10);
        wo->w = malloc(sizeof(binson_writer)); wo->cap = cap; wo->mem = malloc(cap ? cap : 1); memset(wo->mem, 0xAA, cap);
        binson_writer_init(wo->w, wo->mem, cap);
        int ok = binson_parser_reset(p);
        if (ok) { if (p->type == 1) { ok = binson_parser_go_into_object(p); if (ok) { binson_write_object_begin(wo->w); ok = transcribe_items(p, wo->w, 1) && binson_parser_leave_object(p); if (ok) binson_write_object_end(wo->w); } }
                  else { ok = binson_parser_go_into_array(p); if (ok) { binson_write_array_begin(wo->w); ok = transcribe_items(p, wo->w, 0) && binson_parser_leave_array(p); if (ok) binson_write_array_end(wo->w); } } }
        fprintf(fout, "%d e%d we%d c%zu m", ok, (int)p->error_flags, (int)wo->w->error_flags, binson_writer_get_counter(wo->w)); memout(fout, wo->mem, cap); fputc('\n', fout);
    } else fprintf(fout, "bad-op\n");
done:
    free(line);
}

/* ---------- generation ---------- */
static void emit(const char *fmt, ...) {
    char line[1 << 18]; va_list ap; va_start(ap, fmt); vsnprintf(line, sizeof line, fmt, ap); va_end(ap);
    fprintf(fops, "%s\n", line); fflush(fops); exec_line(line);
}

typedef struct { uint8_t *b; size_t n, cap; } Buf;
static void put(Buf *o, uint8_t x) { if (o->n == o->cap) { o->cap = o->cap ? o->cap * 2 : 256; o->b = realloc(o->b, o->cap); } o->b[o->n++] = x; }
static void putn(Buf *o, const uint8_t *s, size_t n) { for (size_t i = 0; i < n; i++) put(o, s[i]); }
static int width_k(int64_t v) { return (v >= -128 && v <= 127) ? 0 : (v >= -32768 && v <= 32767) ? 1 : (v >= -2147483648LL && v <= 2147483647LL) ? 2 : 3; }
static void put_int(Buf *o, uint8_t base, int64_t v, int k) { put(o, (uint8_t)(base + k)); uint64_t u = (uint64_t)v; for (int i = 0; i < (1 << k); i++) { put(o, (uint8_t)(u & 255)); u >>= 8; } }

/* name pool, sorted bytewise (memcmp then length) at start-up */
typedef struct { const char *s; int n; } Name;
static char LONG127[128], LONG128[129], LONG321[322], LONG33000[33001];
static Name NM[] = { {LONG127, 127}, {LONG128, 128}, {LONG321, 321}, {LONG33000, 33000}, {"", 0}, {"\0", 1}, {"\0a", 2}, {"a", 1}, {"a\0", 2}, {"a\0b", 3}, {"aa", 2}, {"ab", 2}, {"abc", 3}, {"b", 1}, {"c", 1},
    {"d", 1}, {"e", 1}, {"key", 3}, {"z\x7f", 2}, {"\x80", 1}, {"\x80\x01", 2}, {"\xc3\xa5", 2}, {"\xff", 1}, {"\xff z", 3} };
#define NNM ((int)(sizeof NM / sizeof *NM))
static int namecmp(const void *a, const void *b) { const Name *x = a, *y = b; int m = x->n < y->n ? x->n : y->n; int r = memcmp(x->s, y->s, (size_t)m); return r ? r : x->n - y->n; }

/* fault injection: exactly one site of kind fault_kind fires when its countdown reaches 0 */
enum { F_NONE, F_DUP, F_DESC, F_INTW, F_LENW, F_NEGLEN, F_BIGLEN, F_TAG8, F_NONAME, F_EXTRANAME, F_WRONGEND, F_NOEND, F_EXTRAEND, F_BADTAG, F_TRAIL, F_TRUNC, F_FLIP, F_INS, F_DEL, F_NKINDS };
static int fault_kind, fault_cd, fault_fired;
static int hit(int kind) { if (kind != fault_kind || fault_fired) return 0; if (fault_cd-- > 0) return 0; fault_fired = 1; return 1; }

static int64_t INTS[] = { 0, 1, -1, 127, 128, -128, -129, 255, 256, 32767, 32768, -32768, -32769, 65535, 65536, 2147483647LL, 2147483648LL,
    -2147483648LL, -2147483649LL, 4294967295LL, 4294967296LL, INT64_MAX, INT64_MIN, INT64_MAX - 1, INT64_MIN + 1 };
static int64_t pick_int(void) {
    switch (rn(4)) { case 0: return INTS[rn(sizeof INTS / sizeof *INTS)];
    case 1: { int64_t b = INTS[rn(sizeof INTS / sizeof *INTS)]; int64_t d = (int64_t)rn(5) - 2; if ((d > 0 && b > INT64_MAX - d) || (d < 0 && b < INT64_MIN - d)) return b; return b + d; }
    case 2: return (int64_t)(r64() >> rn(64)) * (chance(50) ? 1 : -1);
    default: return (int64_t)rn(300) - 150; }
}
static uint64_t DBL[] = { 0, 0x8000000000000000ULL, 1,
    /* bit patterns that are small as an int64 (every integer width boundary, both signs): a double must not be packed like an integer */
    0x7fULL, 0x80ULL, 0x1234ULL, 0x7fffULL, 0x8000ULL, 0x12345678ULL, 0x7fffffffULL, 0x80000000ULL, 0xffffffffffffff80ULL, 0xffffffffffffff7fULL,
    0xffffffffffff8000ULL, 0xffffffffffff7fffULL, 0xffffffff80000000ULL, 0xffffffff7fffffffULL, 0x000fffffffffffffULL, 0x0010000000000000ULL, 0x7fefffffffffffffULL, 0x7ff0000000000000ULL,
    0xfff0000000000000ULL, 0x7ff8000000000000ULL, 0xfff8000000000001ULL, 0x7ff0000000000001ULL, 0x3fe0000000000000ULL, 0x3ff0000000000000ULL,
    0x400921fb54442d18ULL, 0x0102030405060708ULL, 0x7fe1ccf385ebc8a0ULL /*1e308*/, 0x3eb0c6f7a0b5ed8dULL, 0x3ea0c6f7a0b5ed8dULL, 0x4059000000000000ULL, 0xc08f400000000000ULL, 0x3fc999999999999aULL };
static uint64_t pick_dbl(void) { return chance(60) ? DBL[rn(sizeof DBL / sizeof *DBL)] : r64(); }
static int big_ok;           /* allow long payloads in this document */
static size_t pick_len(void) {
    if (big_ok && chance(8)) { static const size_t L[] = { 126, 127, 128, 129, 255, 256, 257, 300, 1000, 4095, 16384, 32766, 32767, 32768, 32769, 40000, 65535, 65536, 65537, 70000 }; return L[rn(sizeof L / sizeof *L)]; }
    return chance(85) ? rn(6) : rn(40);
}
static void put_blob(Buf *o, uint8_t base, const uint8_t *s, size_t n) {
    int k = width_k((int64_t)n);
    if (hit(F_LENW) && k < 2) { put_int(o, base, (int64_t)n, k + 1); }
    else if (hit(F_NEGLEN)) { put(o, base); put(o, (uint8_t)(0x80 + rn(128))); return; }
    else if (hit(F_TAG8)) { put_int(o, base, (int64_t)n, 3); }
    else if (hit(F_BIGLEN)) { put_int(o, base, (int64_t)n + 1 + (int64_t)rn(300), width_k((int64_t)n + 301)); }
    else put_int(o, base, (int64_t)n, k);
    putn(o, s, n);
}
static void gen_value(Buf *o, int depth, int *budget);
static void gen_payload(Buf *o, uint8_t base, int texty) {
    size_t n = pick_len(); uint8_t *s = malloc(n ? n : 1);
    for (size_t i = 0; i < n; i++) s[i] = texty ? (uint8_t)(chance(90) ? 'a' + rn(4) : (chance(50) ? 0 : 0x80 + rn(128))) : (uint8_t)r64();
    put_blob(o, base, s, n); free(s);
}
/* dense names: all strings over {00, 'a', 'b', 80, ff} of length 0..3 - any two of them exercise the byte comparison */
static const uint8_t ALPHA[] = { 0x00, 'a', 'b', 0x80, 0xff };
static void dense_name(uint32_t id, uint8_t *out, int *len) {   /* id in [0,156) */
    if (id == 0) { *len = 0; return; }
    if (id < 6) { *len = 1; out[0] = ALPHA[id - 1]; return; }
    if (id < 31) { id -= 6; *len = 2; out[0] = ALPHA[id / 5]; out[1] = ALPHA[id % 5]; return; }
    id -= 31; *len = 3; out[0] = ALPHA[id / 25]; out[1] = ALPHA[(id / 5) % 5]; out[2] = ALPHA[id % 5];
}
static int dense_cmp(const void *a, const void *b) {
    uint8_t x[3], y[3]; int xl, yl; dense_name(*(const uint32_t *)a, x, &xl); dense_name(*(const uint32_t *)b, y, &yl);
    int m = xl < yl ? xl : yl; int r = memcmp(x, y, (size_t)m); return r ? r : xl - yl;
}
static void gen_object(Buf *o, int depth, int *budget);
static void gen_object_dense(Buf *o, int depth, int *budget) {
    put(o, 0x40);
    uint32_t ids[6]; int n = (int)rn(depth > 4 ? 3 : 6), k = 0;
    for (int i = 0; i < n; i++) { uint32_t id = rn(156); int dup = 0; for (int j = 0; j < k; j++) if (ids[j] == id) dup = 1; if (!dup) ids[k++] = id; }
    qsort(ids, (size_t)k, sizeof *ids, dense_cmp);
    if (hit(F_DESC) && k >= 2) { uint32_t a = rn((uint32_t)k - 1); uint32_t t = ids[a]; ids[a] = ids[a + 1]; ids[a + 1] = t; }
    for (int i = 0; i < k && *budget > 0; i++) {
        (*budget)--; uint8_t nm[3]; int nl; dense_name(ids[i], nm, &nl);
        put_blob(o, 0x14, nm, (size_t)nl); gen_value(o, depth + 1, budget);
        if (hit(F_DUP)) { put_blob(o, 0x14, nm, (size_t)nl); gen_value(o, depth + 1, budget); }
    }
    if (hit(F_NOEND)) return;
    put(o, hit(F_WRONGEND) ? 0x43 : 0x41);
}
static int dense_pct = 35;
static void gen_wide(Buf *o, int obj);
static void gen_object(Buf *o, int depth, int *budget) {
    if (big_ok && depth <= 2 && chance(10)) { gen_wide(o, 1); return; }
    if (chance(dense_pct)) { gen_object_dense(o, depth, budget); return; }
    put(o, 0x40);
    int n = (int)rn(depth > 4 ? 2 : 5), idx = (int)rn(NNM / 2);
    for (int i = 0; i < n && idx < NNM && *budget > 0; i++) {
        (*budget)--;
        Name *nm = &NM[idx];
        if (nm->n > 1000 && !big_ok) { idx++; if (idx >= NNM) break; nm = &NM[idx]; }
        if (hit(F_DESC) && idx > 0) nm = &NM[rn((uint32_t)idx)];
        if (!hit(F_NONAME)) put_blob(o, 0x14, (const uint8_t *)nm->s, (size_t)nm->n);
        if (hit(F_EXTRANAME)) put_blob(o, 0x14, (const uint8_t *)"zz", 2);
        gen_value(o, depth + 1, budget);
        if (hit(F_DUP)) { put_blob(o, 0x14, (const uint8_t *)nm->s, (size_t)nm->n); gen_value(o, depth + 1, budget); }
        idx += 1 + (int)rn(3);
    }
    if (hit(F_NOEND)) return;
    put(o, hit(F_WRONGEND) ? 0x43 : 0x41);
    if (hit(F_EXTRAEND)) put(o, chance(50) ? 0x41 : 0x43);
}
/* many siblings: an object of 260..600 fields with generated ascending names (3-byte base-26 names), or an array of as many scalars */
static void gen_wide(Buf *o, int obj) {
    int n = 260 + (int)rn(340);
    put(o, obj ? 0x40 : 0x42);
    for (int i = 0; i < n; i++) {
        if (obj) { uint8_t nm[3] = { (uint8_t)('a' + i / 676), (uint8_t)('a' + (i / 26) % 26), (uint8_t)('a' + i % 26) }; put_blob(o, 0x14, nm, 3); }
        switch (rn(4)) { case 0: put(o, 0x44); break; case 1: put_int(o, 0x10, (int64_t)i - 300, width_k((int64_t)i - 300)); break; case 2: put_blob(o, 0x14, (const uint8_t *)"v", 1); break; default: put(o, 0x42); put(o, 0x43); break; }
    }
    put(o, obj ? 0x41 : 0x43);
}
static void gen_array(Buf *o, int depth, int *budget) {
    if (big_ok && depth <= 2 && chance(10)) { gen_wide(o, 0); return; }
    put(o, 0x42);
    int n = (int)rn(depth > 4 ? 2 : 5);
    for (int i = 0; i < n && *budget > 0; i++) { (*budget)--; gen_value(o, depth + 1, budget); }
    if (hit(F_NOEND)) return;
    put(o, hit(F_WRONGEND) ? 0x41 : 0x43);
    if (hit(F_EXTRAEND)) put(o, chance(50) ? 0x41 : 0x43);
}
static int cont_bias = 35;   /* percent of values that are containers */
static void gen_value(Buf *o, int depth, int *budget) {
    if (hit(F_BADTAG)) { static const uint8_t T[] = { 0x00, 0x0f, 0x17, 0x1b, 0x1c, 0x3f, 0x47, 0x80, 0xff }; put(o, T[rn(sizeof T)]); return; }
    if (depth < 12 && chance(cont_bias)) { if (chance(50)) gen_object(o, depth, budget); else gen_array(o, depth, budget); return; }
    switch (rn(5)) {
    case 0: put(o, chance(50) ? 0x44 : 0x45); break;
    case 1: { int64_t v = pick_int(); int k = width_k(v); if (hit(F_INTW) && k < 3) k++; put_int(o, 0x10, v, k); } break;
    case 2: { put(o, 0x46); uint64_t u = pick_dbl(); for (int i = 0; i < 8; i++) { put(o, (uint8_t)(u & 255)); u >>= 8; } } break;
    case 3: gen_payload(o, 0x14, 1); break;
    default: gen_payload(o, 0x18, 0); break;
    }
}
/* deep nesting: d objects, or arrays, or a mix */
static void gen_deep(Buf *o, int d, int kind) {
    char *stack = malloc((size_t)d + 1);
    for (int i = 0; i < d; i++) {
        int obj = kind == 0 ? 1 : kind == 1 ? 0 : (int)rn(2);
        if (i > 0 && stack[i - 1] == 'o') put_blob(o, 0x14, (const uint8_t *)"a", 1);
        put(o, obj ? 0x40 : 0x42); stack[i] = obj ? 'o' : 'a';
    }
    for (int i = d - 1; i >= 0; i--) put(o, stack[i] == 'o' ? 0x41 : 0x43);
    free(stack);
}
/* build one document; returns 1 if a fault was injected (document probably invalid) */
static int gen_doc(Buf *o, int arr, int want_fault, int budget0) {
    o->n = 0; fault_fired = 0; fault_kind = F_NONE; fault_cd = 0;
    if (want_fault) { fault_kind = 1 + (int)rn(F_NKINDS - 1); fault_cd = (int)rn(6); }
    big_ok = chance(4);
    if (!want_fault && chance(3)) { { static const int DB[] = { 253, 254, 255, 256, 257 }; gen_deep(o, chance(25) ? DB[rn(5)] : 1 + (int)rn(chance(20) ? 300 : 14), arr ? (chance(50) ? 1 : 2) : (chance(50) ? 0 : 2)); } if (arr && o->b[0] != 0x42) { o->b[0] = 0x42; o->b[o->n - 1] = 0x43; } return 0; }
    int budget = budget0;
    if (arr) gen_array(o, 0, &budget); else gen_object(o, 0, &budget);
    if (fault_kind == F_TRAIL) { put(o, (uint8_t)(chance(50) ? (arr ? 0x43 : 0x41) : r64())); fault_fired = 1; }
    if (fault_kind == F_TRUNC && o->n > 1) { o->n -= 1 + rn((uint32_t)(o->n - 1 < 4 ? o->n - 1 : 4)); if (chance(50)) o->b[o->n - 1] = arr ? 0x43 : 0x41; fault_fired = 1; }
    if (fault_kind == F_FLIP && o->n) { o->b[rn((uint32_t)o->n)] ^= (uint8_t)(1u << rn(8)); fault_fired = 1; }
    if (fault_kind == F_INS) { size_t pos = rn((uint32_t)o->n + 1); put(o, 0); memmove(o->b + pos + 1, o->b + pos, o->n - 1 - pos); static const uint8_t T[] = { 0x40, 0x41, 0x42, 0x43, 0x44, 0x10, 0x14, 0x18, 0x00, 0x01 }; o->b[pos] = chance(60) ? T[rn(sizeof T)] : (uint8_t)r64(); fault_fired = 1; }
    if (fault_kind == F_DEL && o->n > 2) { size_t pos = rn((uint32_t)o->n); memmove(o->b + pos, o->b + pos + 1, o->n - 1 - pos); o->n--; fault_fired = 1; }
    return fault_fired;
}

static char *hexs(const uint8_t *b, size_t n) { char *s = malloc(2 * n + 2); if (n == 0) { strcpy(s, "-"); return s; } for (size_t i = 0; i < n; i++) sprintf(s + 2 * i, "%02x", b[i]); return s; }
static int pick_md(void) { switch (rn(8)) { case 0: return 1; case 1: return 2; case 2: return 3; case 3: return 10; case 4: return 255; default: return 1 + (int)rn(12); } }
static void new_parser(int k, int md) { unsigned g = rn(1000000); emit("@%d P %d %u %u", k, md, g, garbage_flags0(md, g)); }
static void init_doc(int k, int arr, Buf *d) { char *h = hexs(d->b, d->n); emit("@%d I %c %s", k, arr ? 'a' : 'o', h); free(h); }
static uint8_t dn_buf[4]; static Name dn_name;
static const Name NM_EMPTY = { "", 0 };
static const Name *pick_name(void) {
    if (chance(35)) { int l; dense_name(rn(156), dn_buf, &l); dn_name.s = (const char *)dn_buf; dn_name.n = l; return &dn_name; }
    { const Name *n = &NM[rn(NNM)]; if (n->n > 1000 && !chance(10)) n = &NM[rn(NNM)]; return n; }
}
static void emit_field(int k, const char *op, const Name *nm, int ty) {
    char *h = hexs((const uint8_t *)nm->s, (size_t)nm->n);
    int nul = 0; for (int i = 0; i < nm->n; i++) if (!nm->s[i]) nul = 1;
    char o2[4]; strcpy(o2, op); if (!nul && chance(30)) strcat(o2, "z");
    if (op[0] == 'F') emit("@%d %s %s %d", k, o2, h, ty); else emit("@%d %s %s", k, o2, h);
    free(h);
}
static void emit_se(int k, const char *fallback, int fmax) {
    binson_parser *p = P[k].p;
    if (p && p->error_flags == BINSON_ERROR_NONE && p->current_state && binson_parser_get_type(p) == BINSON_TYPE_STRING && chance(60)) {
        bbuf *b = binson_parser_get_string_bbuf(p);
        if (b && b->bptr && b->bsize < 2000) {
            size_t n = 0; while (n < b->bsize && b->bptr[n]) n++;      /* the C string the value starts with */
            uint8_t tmp[2002]; memcpy(tmp, b->bptr, n);
            if (chance(25)) tmp[n++] = 'x';                            /* one byte longer */
            else if (n > 0 && chance(15)) n--;                         /* one byte shorter */
            char *h = hexs(tmp, n); emit("@%d se %s", k, h); free(h); return;
        }
    }
    char *h = hexs((const uint8_t *)fallback, rn((uint32_t)fmax + 1)); emit("@%d se %s", k, h); free(h);
}
static const char *GETTERS[] = { "gt", "gD", "gs", "gy", "gi", "gb", "gd", "gn" };
static void emit_getters(int k, int with_name) {
    for (int i = 0; i < 7 + (with_name ? 1 : 0); i++) emit("@%d %s", k, GETTERS[i]);
}

/* lookups are issued only with an object on top (the domain of the properties, C01): judged by the parser's own level
   flags, not by this generator's bookkeeping, which a non-protocol call can leave behind */
static int obj_on_top(binson_parser *p) { return p->error_flags == BINSON_ERROR_NONE && p->current_state && (p->current_state->flags & 3); }
/* the type left behind by a container that a failed lookup skipped: to_writer would enter and leave from here */
static int stale_container(binson_parser *p) { int t = (int)binson_parser_get_type(p); return t == BINSON_TYPE_OBJECT || t == BINSON_TYPE_ARRAY; }
/* protocol-following navigation guided only by the parser's own answers.
   finish: keep going until the root has been left (complete traversal). */
static void nav_ops0(int k, int arr, int maxops, int finish, int all_getters, int lookups, int ensure);
/* C09: wherever the traversal stopped on an error - also one raised outside the scanner (wrong type of an ensure call, a
   name asked for where there is none) with the cursor standing anywhere, e.g. right before a closing byte - every advancing
   call that follows must fail and move nothing, every getter must be neutral */
static void nav_ops(int k, int arr, int maxops, int finish, int all_getters, int lookups, int ensure) {
    binson_parser *p = P[k].p;
    nav_ops0(k, arr, maxops, finish, all_getters, lookups, ensure);
    if (p && p->error_flags != BINSON_ERROR_NONE) {
        static const char *PROBE[] = { "lo", "la", "n", "io", "ia", "gr", "lo", "n", "gt", "gi", "gs", "gn" };
        int np = 2 + (int)rn(4);
        for (int i = 0; i < np; i++) {
            int c = (int)rn(14);
            if (c < 12) emit("@%d %s", k, PROBE[c]);
            else if (c == 12) emit("@%d N %d", k, (int)rn(10));
            else emit_field(k, "f", pick_name(), 0);
        }
    }
}
static void nav_ops0(int k, int arr, int maxops, int finish, int all_getters, int lookups, int ensure) {
    binson_parser *p = P[k].p; static char stack[600]; int sp = 0;
    emit("@%d %s", k, arr ? "ia" : "io");
    if (!last_ret || p->error_flags) return;
    stack[sp++] = arr ? 'a' : 'o';
    int pending = 0;    /* last next/lookup returned an un-entered container */
    int steps = 0;
    while (sp > 0) {
        if (p->error_flags) return;
        if (++steps > maxops && !finish) return;
        if (steps > maxops + 2000) return;
        if (steps <= maxops && chance(2)) {   /* abandon the traversal where it stands: reset, start again from the root */
            emit("@%d r", k); if (!last_ret || p->error_flags) return;
            emit("@%d %s", k, arr ? "ia" : "io"); if (!last_ret || p->error_flags) return;
            sp = 0; stack[sp++] = arr ? 'a' : 'o'; pending = 0; continue;
        }
        int top = stack[sp - 1];
        int x = (int)rn(100);
        if (steps > maxops) x = (pending && chance(30)) ? 65 : 95;           /* wrap up */
        int advanced = 0;
        if (x < 50) { emit("@%d n", k); advanced = 1; }
        else if (x < 60) { if (top == 'o' && lookups && obj_on_top(p)) { emit_field(k, (!ensure || chance(80)) ? "f" : "F", chance(5) ? &NM_EMPTY : pick_name(), (int)rn(10)); advanced = 1; } }
        else if (x < 72) {
            if (pending && sp < 590) {
                int t = (int)binson_parser_get_type(p);
                emit("@%d %s", k, t == BINSON_TYPE_OBJECT ? "io" : "ia");
                if (!last_ret) return;
                stack[sp++] = t == BINSON_TYPE_OBJECT ? 'o' : 'a'; pending = 0;
            }
        }
        else if (x < 78) { if (pending) { emit("@%d gr", k); pending = 0; if (!last_ret) return; } }
        else if (x < 80) { if (pending && W[k].w) { emit("@%d p2w", k); pending = 0; if (!last_ret) return; }
                           else if (!pending && W[k].w && chance(40) && !stale_container(p)) { emit("@%d p2w", k); emit("@%d wc", k); } }   /* not on a container: refused, nothing changes (writer included) */
        else if (x < 84) { const char *g = GETTERS[rn(top == 'o' ? 8 : 7)]; if (!strcmp(g, "gn") && !(p->current_state && p->current_state->current_name.bptr)) g = "gt"; emit("@%d %s", k, g); }
        else if (x < 86) { emit_se(k, "abc", 3); }
        else if (x < 88) { if (pending && ensure) { emit("@%d N %d", k, (int)binson_parser_get_type(p)); }
                           else if (!pending && ensure && chance(25)) { emit("@%d N %d", k, (int)rn(10)); advanced = 1; } }   /* not protocol: next_ensure skips the pending one; elsewhere it is next + a type check that may fail (WRONG_TYPE with the value consumed) */
        else { emit("@%d %s", k, top == 'o' ? "lo" : "la"); if (!last_ret) return; sp--; pending = 0; }
        if (x >= 86 && x < 88 && ensure && pending) { advanced = 1; }
        if (advanced) {
            pending = 0;
            if (p->error_flags == BINSON_ERROR_NONE && last_ret) {
                int t = (int)binson_parser_get_type(p);
                if (t == BINSON_TYPE_OBJECT || t == BINSON_TYPE_ARRAY) pending = 1;
                if (all_getters) emit_getters(k, top == 'o');
            }
        }
    }
}

/* canonical full traversal: enter everything, all getters at every position */
static void walk_ops(int k, int arr) {
    binson_parser *p = P[k].p; static char stack[600]; int sp = 0;
    emit("@%d %s", k, arr ? "ia" : "io"); if (!last_ret) return; stack[sp++] = arr ? 'a' : 'o';
    int guard = 0;
    while (sp > 0 && guard++ < 100000) {
        emit("@%d n", k);
        if (p->error_flags) return;
        if (!last_ret) { emit("@%d %s", k, stack[sp - 1] == 'o' ? "lo" : "la"); if (!last_ret) return; sp--; continue; }
        emit_getters(k, stack[sp - 1] == 'o');
        if (chance(30)) emit_se(k, "abca", 4);
        int t = (int)binson_parser_get_type(p);
        if ((t == BINSON_TYPE_OBJECT || t == BINSON_TYPE_ARRAY) && sp < 590) {
            emit("@%d %s", k, t == BINSON_TYPE_OBJECT ? "io" : "ia"); if (!last_ret) return; stack[sp++] = t == BINSON_TYPE_OBJECT ? 'o' : 'a';
        }
    }
}

static int lookups_anywhere = 0;
static const char *ALLOPS[] = { "n", "n", "n", "io", "ia", "lo", "la", "gr", "gt", "gD", "gn", "gs", "gy", "gi", "gb", "gd", "v", "r", "N", "f", "F", "se", "ts", "pr" };
static void any_op(int k) {
    const char *op = ALLOPS[rn(sizeof ALLOPS / sizeof *ALLOPS)];
    if (!strcmp(op, "N")) emit("@%d N %d", k, (int)rn(10));
    else if (!strcmp(op, "f") || !strcmp(op, "F")) {
        /* lookups only with an object on top (documented assumption): flags of the level in use; profile anyL (C16: "no call
           sequence makes a call loop forever") issues them anywhere, in a binary built without UBSan's nonnull-attribute check */
        binson_parser *p = P[k].p;
        if (lookups_anywhere) { emit_field(k, op, chance(8) ? &NM_EMPTY : pick_name(), (int)rn(10)); return; }
        if (p->error_flags == BINSON_ERROR_NONE && p->current_state && p->current_state->current_name.bptr == NULL && !(p->depth > 0 && (p->current_state->flags & 3))) { emit("@%d n", k); return; }
        if (p->error_flags == BINSON_ERROR_NONE && !(p->current_state->flags & 3)) { emit("@%d gt", k); return; }
        emit_field(k, op, chance(8) ? &NM_EMPTY : pick_name(), (int)rn(10));
    }
    else if (!strcmp(op, "se")) emit_se(k, "abc", 3);
    else if (!strcmp(op, "ts")) { if (chance(30)) { if (chance(50)) emit("@%d ts NULL", k); else emit("@%d ts NULL %u", k, 1 + rn(300)); } else emit("@%d ts %u", k, rn(chance(50) ? 8 : 120)); }
    else emit("@%d %s", k, op);
}

static Buf D;
static void case_begin(long id) { emit("C %ld", id); }

static void gen_verify(long id) {
    if (id % 2999 == 5) { case_begin(id); new_parser(0, 2); emit("@0 tq %u", 524288u); return; }
    if (id % 2999 == 6) { case_begin(id); new_parser(0, 2); emit("@0 tq %u A", 2097152u); return; }   /* ... and on many small tokens (64 Ki vs 256 Ki integers) */   /* C16: time class of to_string on a large bytes value */
    int arr = chance(25); int fault = chance(55);
    gen_doc(&D, arr, fault, 2 + (int)rn(14));
    case_begin(id); new_parser(0, pick_md()); init_doc(0, arr, &D); emit("@0 v");
    if (chance(20)) emit("@0 v");
    if (chance(10)) { emit("@0 n"); emit("@0 v"); }
}
static void gen_longname_doc(Buf *o, int arr);
/* the smallest max_depth at which verify accepts the document (0 if none up to 40): arrays need no state entry,
   so a parser with exactly this depth walks arrays with no slack at all */
static int tight_md(Buf *d, int arr) {
    for (int md = 1; md <= 40; md++) {
        binson_parser p; binson_state *st = calloc((size_t)md, sizeof *st); memset(&p, 0, sizeof p); p.state = st; p.max_depth = (uint_fast8_t)md;
        uint8_t *ex = malloc(d->n ? d->n : 1); memcpy(ex, d->b, d->n);
        int ok = (arr ? binson_parser_init_array(&p, ex, d->n) : binson_parser_init_object(&p, ex, d->n)) && binson_parser_verify(&p);
        free(ex); free(st); if (ok) return md;
    }
    return 0;
}
static int nav_md(Buf *d, int arr) { int t = chance(35) ? tight_md(d, arr) : 0; return t ? t : (chance(80) ? 16 : 255); }
/* an extra case (own case number, PRNG state put back afterwards so that the regular cases are what they were): a chain of
   11..40 nested containers - deeper than the default depth of a BINSON_PARSER_DEF parser - extracted with get_raw or handed
   to the writer whole by parser_to_writer (C11: "appends exactly those bytes", whatever the container holds) */
static void deep_chain_case(long id) {
    int levels = 11 + (int)rn(30); static uint8_t closers[64]; int nc = 0;
    D.n = 0; fault_kind = F_NONE; fault_fired = 0; fault_cd = 0;
    put(&D, 0x40); put_blob(&D, 0x14, (const uint8_t *)"a", 1);
    for (int i = 0; i < levels; i++) {
        if (chance(70)) { put(&D, 0x40); put_blob(&D, 0x14, (const uint8_t *)"a", 1); closers[nc++] = 0x41; }
        else { put(&D, 0x42); closers[nc++] = 0x43; }
    }
    put_int(&D, 0x10, 7, 0);
    while (nc > 0) put(&D, closers[--nc]);
    put_blob(&D, 0x14, (const uint8_t *)"b", 1); put_int(&D, 0x10, 1, 0); put(&D, 0x41);
    case_begin(id); new_parser(0, 60); init_doc(0, 0, &D);
    emit("@0 W %zu", D.n + rn(8)); emit("@0 io"); emit("@0 n");
    if (chance(70)) { emit("@0 p2w"); emit("@0 wc"); emit("@0 dump"); } else emit("@0 gr");
    emit("@0 n"); emit("@0 gi"); emit("@0 lo");
}
static void gen_nav(long id, int all_getters) {
    if (id % 251 == 17) { uint64_t keep = S; deep_chain_case(1000000000L + id); S = keep; }
    int arr = chance(25);
    cont_bias = 45; gen_doc(&D, arr, 0, 3 + (int)rn(16)); cont_bias = 35;
    if (chance(4)) gen_longname_doc(&D, arr);
    case_begin(id); if (chance(25)) emit("K 0"); new_parser(0, nav_md(&D, arr)); init_doc(0, arr, &D);
    if (chance(30)) emit("@0 W %u", 20 + rn(200));
    nav_ops(0, arr, 4 + (int)rn(40), chance(50), all_getters, 1, 1);
}
static void gen_walk(long id) {
    int arr = chance(25);
    gen_doc(&D, arr, 0, 3 + (int)rn(20));
    case_begin(id); new_parser(0, nav_md(&D, arr)); init_doc(0, arr, &D); walk_ops(0, arr);
}
static void gen_any(long id) {
    case_begin(id);
    int n = 1 + (int)rn(3);
    for (int round = 0; round < n; round++) {
        int arr = chance(25); int fault = chance(45);
        gen_doc(&D, arr, fault, 2 + (int)rn(10));
        if (chance(15)) D.n = rn(3);                       /* too short: rejected init */
        if (chance(10) && D.n) D.b[0] ^= 0x3;              /* wrong first byte: rejected init */
        if (round == 0 || chance(30)) new_parser(0, pick_md());
        init_doc(0, arr, &D);
        int ops = (int)rn(25);
        for (int i = 0; i < ops; i++) any_op(0);
    }
}
/* a document whose object holds one field with a LONG name (length at a header-width boundary) between short ones;
   the lookups of nav_ops then overshoot onto it, rewind over its 2-, 3- or 5-byte header, and go on */
static void gen_longname_doc(Buf *o, int arr) {
    static const size_t L[] = { 127, 128, 255, 256, 32767, 32768, 40000, 65535, 65536 };
    size_t n = L[rn(sizeof L / sizeof *L)]; uint8_t *nm = malloc(n); memset(nm, 'k', n); if (chance(50)) nm[n - 1] = 'l';
    o->n = 0; if (arr) put(o, 0x42);
    put(o, 0x40);
    put_blob(o, 0x14, (const uint8_t *)"a", 1); put_int(o, 0x10, 1, 0);
    if (chance(50)) { put_blob(o, 0x14, (const uint8_t *)"j", 1); put(o, 0x40); put(o, 0x41); }
    put_blob(o, 0x14, nm, n); if (chance(50)) { put(o, 0x42); put(o, 0x44); put(o, 0x43); } else put_int(o, 0x10, 2, 0);
    if (chance(60)) { put_blob(o, 0x14, (const uint8_t *)"z", 1); put_int(o, 0x10, 3, 0); }
    put(o, 0x41);
    if (arr) { put_int(o, 0x10, 7, 0); put(o, 0x43); }
    free(nm);
}
static void gen_stream(long id) {
    int arr = chance(25); int fault = chance(50);
    gen_doc(&D, arr, fault, 2 + (int)rn(12));
    if (chance(4)) gen_longname_doc(&D, arr);
    int md = pick_md();
    case_begin(id); new_parser(0, md); init_doc(0, arr, &D);
    if (last_ret) nav_ops(0, arr, 3 + (int)rn(25), 1, 0, 1, 0);
    emit("@0 gt");                                          /* final observation: error flag */
    new_parser(1, md); init_doc(1, arr, &D); emit("@1 v");
}
static void gen_print(long id, int thorough) {
    int arr = chance(25); int fault = chance(15);
    cont_bias = 45; gen_doc(&D, arr, fault, 2 + (int)rn(14)); cont_bias = 35;
    case_begin(id); new_parser(0, 16); init_doc(0, arr, &D);
    emit("@0 ts NULL"); emit("@0 pr");
    size_t need = 0; { size_t sz = 0; binson_parser_to_string(P[0].p, NULL, &sz, false); need = sz; }
    if (need > 4000) need = 4000;
    if (thorough || need < 60) { for (size_t c = 0; c <= need + 2; c++) emit("@0 ts %zu", c); }
    else { for (int i = 0; i < 12; i++) emit("@0 ts %zu", (size_t)rn((uint32_t)need + 3)); emit("@0 ts %zu", need); emit("@0 ts %zu", need - 1); emit("@0 ts %zu", need + 1); }
    if (chance(20)) emit("@0 ts %u %u", 10 + rn(20), rn(10));   /* claimed size smaller than the block */
    if (chance(30)) emit("@0 ts NULL %zu", chance(50) ? need : (size_t)(1 + rn(5000)));
    if (id % 499 == 7) emit("@0 tsH");     /* a capacity beyond INT_MAX */
    if (id % 1999 == 3) emit("@0 tq %u", 524288u);
    if (id % 1999 == 4) emit("@0 tq %u A", 2097152u);   /* linear-time class of rendering one large bytes value (512 KiB vs 2 MiB) */   /* size query reusing a variable that still holds an old size */
}
/* writer sequences */
static void emit_wvalue(int k, int depth, int *budget, int wellformed);
static void emit_wblob(int k, const char *op, int texty) {
    size_t n = pick_len(); uint8_t *s = malloc(n ? n : 1);
    for (size_t i = 0; i < n; i++) s[i] = texty ? (uint8_t)('a' + rn(4)) : (uint8_t)r64();
    char *h = hexs(s, n); if (n == 0 && strcmp(op, "wr") && chance(50)) emit("@%d %s %s N", k, op, h); else emit("@%d %s %s", k, op, h); free(h); free(s);
}
static void emit_wobject(int k, int depth, int *budget) {
    emit("@%d wob", k); int n = (int)rn(4), idx = (int)rn(NNM / 2);
    if (chance(20)) { n = 2 + (int)rn(5); idx = (int)rn(NNM - 4); }   /* more fields, names from the whole pool: ASCII next to bytes >= 0x80 in one object */
    for (int i = 0; i < n && idx < NNM && *budget > 0; i++) {
        (*budget)--; Name *nm = &NM[idx]; char *h = hexs((const uint8_t *)nm->s, (size_t)nm->n);
        int nul = 0; for (int j = 0; j < nm->n; j++) if (!nm->s[j]) nul = 1;
        emit("@%d %s %s", k, (!nul && chance(40)) ? "wn" : "ws", h); free(h);
        emit_wvalue(k, depth + 1, budget, 1); idx += 1 + (int)rn(3);
        if (depth == 0 && chance(6) && W[k].w && !W[k].isnull && W[k].w->buffer_used <= W[k].cap) emit("@%d wv", k);   /* verify asked too early: false, and nothing else changes */
    }
    emit("@%d woe", k);
}
static void emit_wvalue(int k, int depth, int *budget, int wellformed) {
    (void)wellformed;
    if (depth < 9 && chance(30)) {
        if (chance(50)) emit_wobject(k, depth, budget);
        else { emit("@%d wab", k); int n = (int)rn(4); for (int i = 0; i < n && *budget > 0; i++) { (*budget)--; emit_wvalue(k, depth + 1, budget, 1); } emit("@%d wae", k); }
        return;
    }
    switch (rn(5)) {
    case 0: emit("@%d wb %d", k, (int)rn(2)); break;
    case 1: emit("@%d wi %lld", k, (long long)pick_int()); break;
    case 2: emit("@%d wd %llu", k, (unsigned long long)pick_dbl()); break;
    case 3: emit_wblob(k, "ws", 1); break;
    default: emit_wblob(k, "wy", 0); break;
    }
}
static const char *WOPS[] = { "wob", "woe", "wab", "wae", "wb", "wi", "wd", "ws", "wy", "wn", "wr", "wc", "wx" };
static void emit_wany(int k) {
    const char *op = WOPS[rn(sizeof WOPS / sizeof *WOPS)];
    if (!strcmp(op, "wb")) emit("@%d wb %d", k, (int)rn(2));
    else if (!strcmp(op, "wi")) emit("@%d wi %lld", k, (long long)pick_int());
    else if (!strcmp(op, "wd")) emit("@%d wd %llu", k, (unsigned long long)pick_dbl());
    else if (!strcmp(op, "ws") || !strcmp(op, "wy") || !strcmp(op, "wr")) emit_wblob(k, op, chance(50));
    else if (!strcmp(op, "wn")) { Name *nm = &NM[rn(NNM)]; int nul = 0; for (int j = 0; j < nm->n; j++) if (!nm->s[j]) nul = 1; if (nul) nm = &NM[3]; char *h = hexs((const uint8_t *)nm->s, (size_t)nm->n); emit("@%d wn %s", k, h); free(h); }
    else if (!strcmp(op, "wx")) { if (chance(15)) emit("@%d wx", k); else if (chance(8)) { if (chance(50)) emit("@%d wnN", k); else emit("@%d wrN %u", k, rn(6)); } else emit("@%d wc", k); }
    else emit("@%d %s", k, op);
}
/* 1 when the error flag of writer k has just become non-zero (a dump right then is the baseline of the latch oracle) */
static int w_err_edge(int k) { static int prev[NOBJ]; int e = W[k].w ? (int)W[k].w->error_flags : 0; int edge = e && !prev[k]; prev[k] = e; return edge; }
/* a write sequence replayed at several capacities: the ops are fixed first, then re-emitted */
static void gen_writer(long id, int thorough) {
    case_begin(id);
    /* first pass at a huge capacity to learn the total, logging the op lines */
    static char *lines[4000]; int nl = 0;
    FILE *save_ops = fops, *save_out = fout;
    char *mo = NULL, *mi = NULL; size_t so = 0, si = 0;
    fops = open_memstream(&mo, &so); fout = open_memstream(&mi, &si);
    emit("@1 W %u", 200000u);
    int wellformed = chance(60), budget = 2 + (int)rn(12);
    big_ok = chance(6);
    if (wellformed) emit_wobject(1, 0, &budget); else { int n = 1 + (int)rn(14); for (int i = 0; i < n; i++) emit_wany(1); }
    size_t total = binson_writer_get_counter(W[1].w);
    fclose(fops); fclose(fout); fops = save_ops; fout = save_out;
    { char *q = mo; char *e; nl = 0; while ((e = strchr(q, '\n')) && nl < 4000) { *e = 0; lines[nl++] = q; q = e + 1; } }
    /* lines[0] is the W line; re-emit the rest at chosen capacities on writer @0 */
    int ncap = thorough ? 0 : 5;
    size_t caps[8]; caps[0] = total; caps[1] = total ? total - 1 : 0; caps[2] = 0; caps[3] = total + 2; caps[4] = total ? rn((uint32_t)total) : 1;
    if (thorough && total <= 300) { for (size_t c = 0; c <= total + 2; c++) { emit("@0 W %zu", c); for (int i = 1; i < nl; i++) { char b[1 << 18]; snprintf(b, sizeof b, "@0%s", lines[i] + 2); emit("%s", b); if (chance(25) || w_err_edge(0)) emit("@0 dump"); } emit("@0 dump"); if (wellformed) { emit("@0 wv"); if (chance(10)) { emit("@0 wb 1"); emit("@0 dump"); emit("@0 wc"); } } } }
    else { if (thorough) ncap = 5; for (int j = 0; j < ncap; j++) { emit("@0 W %zu", caps[j]); for (int i = 1; i < nl; i++) { char b[1 << 18]; snprintf(b, sizeof b, "@0%s", lines[i] + 2); emit("%s", b); if (chance(10) || w_err_edge(0)) emit("@0 dump"); } emit("@0 dump"); if (wellformed) emit("@0 wv"); } }
    if (chance(10)) { emit("@0 W NULL"); emit("@0 wb 1"); emit("@0 wx"); }
    if (chance(6)) { emit("@0 W %u", 4 + rn(20)); if (chance(70)) emit("@0 wob"); emit("@0 wrH"); emit("@0 dump"); emit("@0 wb 1"); emit("@0 dump"); }   /* size_t wrap-around in the capacity test */
    if (chance(10)) {   /* copy a document that sits in the destination itself a few bytes further (overlapping source and destination) */
        unsigned cap = 24 + rn(40); emit("@0 W %u", cap); emit("@0 wob"); emit("@0 wn 61"); emit("@0 wi %lld", (long long)pick_int()); emit("@0 wn 62"); emit("@0 ws 68656c6c6f"); emit("@0 woe"); emit("@0 dump");
        size_t used = binson_writer_get_counter(W[0].w); if (used <= cap && used >= 4) {
            switch (rn(4)) {
            case 0: emit("@0 wrA %u %zu", rn(3), used - rn(3)); break;                                   /* the whole document, again */
            case 1: { unsigned kk = 1 + rn(4); emit("@0 wrA %zu %u", used - kk, 2 * kk); } break;          /* source overlaps the destination from below (dst > src) */
            case 2: { unsigned kk = 1 + rn(4); if (used + kk + 6 <= cap) emit("@0 wrA %zu %u", used + kk, 6u); } break;   /* from above (dst < src) */
            default: emit("@0 wrA %zu %u", used / 2, 1 + rn(6)); break;
            }
            emit("@0 dump");
        }
    }
    if (chance(10)) {   /* a NULL argument as the very first call (counter still 0), then reset: must come back like a fresh writer */
        emit("@0 W %u", 2 + rn(30)); if (chance(50)) emit("@0 wnN"); else emit("@0 wrN %u", rn(9)); emit("@0 dump"); emit("@0 wx"); emit("@0 wob"); emit("@0 wb 1"); emit("@0 woe"); emit("@0 dump");
    }
    if (chance(12)) {   /* an error that is not an overflow: reset refuses a destination of fewer than 2 bytes; nothing may be stored afterwards */
        emit("@0 W %u", rn(2)); emit("@0 wx"); emit("@0 dump"); if (chance(50)) emit("@0 wx"); int n = 1 + (int)rn(4); for (int i = 0; i < n; i++) { emit_wany(0); if (chance(50)) emit("@0 dump"); } emit("@0 dump");
    }
    free(mo); free(mi);
}
/* round trip: well-formed write sequence, then parse what was written (C05), then transcribe (C10) */
static void gen_rt(long id) {
    case_begin(id);
    emit("@0 W %u", 100000u); int budget = 2 + (int)rn(14); big_ok = chance(5);
    emit_wobject(0, 0, &budget); emit("@0 wv");
    binson_writer *w = W[0].w; size_t n = binson_writer_get_counter(w);
    if (w->error_flags || n > 100000) return;
    D.n = 0; putn(&D, W[0].mem, n);
    new_parser(0, 16); init_doc(0, 0, &D); emit("@0 v"); walk_ops(0, 0);
    emit("@0 tr %zu", n); if (chance(30)) emit("@0 tr %zu", n ? n - 1 : 0);
}
static void gen_tr(long id) {
    int arr = chance(25);
    gen_doc(&D, arr, chance(10), 3 + (int)rn(20));
    if (chance(6)) {   /* a document with ONE field per object level (so that nothing the parser still needs is overwritten) for the in-place transcription */
        arr = 0; D.n = 0; fault_kind = F_NONE; put(&D, 0x40); put_blob(&D, 0x14, (const uint8_t *)"a", 1);
        switch (rn(3)) { case 0: { size_t n = 20 + rn(300); uint8_t *pl = malloc(n); memset(pl, 'q', n); put_blob(&D, chance(50) ? 0x14 : 0x18, pl, n); free(pl); } break;
                         case 1: put(&D, 0x42); for (int i = 0; i < 12; i++) put_int(&D, 0x10, 1000 + i, 1); put(&D, 0x43); break;
                         default: put(&D, 0x40); put_blob(&D, 0x14, (const uint8_t *)"k", 1); put_blob(&D, 0x14, (const uint8_t *)"a long enough value to overlap", 30); put(&D, 0x41); break; }
        put(&D, 0x41);
        case_begin(id); new_parser(0, 16); init_doc(0, arr, &D); emit("@0 v"); emit("@0 tr %zu O%u", D.n, 1 + rn(12)); return;
    }
    case_begin(id); new_parser(0, 16); init_doc(0, arr, &D); emit("@0 v"); emit("@0 tr %zu", D.n); if (chance(20)) emit("@0 tr %zu", D.n + 3);
}
/* reuse (C12): previous use then a new document on the same object, and on a fresh one */
static void gen_reuse(long id) {
    case_begin(id);
    int md = pick_md();
    new_parser(0, md);
    int arr = chance(25); gen_doc(&D, arr, chance(40), 2 + (int)rn(10)); init_doc(0, arr, &D);
    int ops = (int)rn(20); for (int i = 0; i < ops; i++) any_op(0);
    /* the document and script under test */
    arr = chance(25); gen_doc(&D, arr, chance(30), 2 + (int)rn(10));
    uint64_t save = S;
    int how = (int)rn(5);
    if (how == 4) {
        /* a document with a name-order defect (or any other) of the size of an earlier VALID document that the same object
           verified successfully and partly read: the new bytes arrive in the same memory - init again over the same pointer
           and size, or an in-place rewrite followed by reset - and a complete walk must stop where a fresh object stops */
        if (chance(70)) { D.n = 0; fault_fired = 0; fault_kind = chance(50) ? F_DUP : F_DESC; fault_cd = (int)rn(3); big_ok = 0; { int b = 4 + (int)rn(10); if (arr) gen_array(&D, 0, &b); else gen_object(&D, 0, &b); } fault_kind = F_NONE; }
    }
    if (how == 4 && D.n >= 16 && D.n < 30000) {
        Buf F = {0}; size_t n = D.n; size_t over = arr ? 9 : 12; size_t L = n - over; if (L >= 128) L -= 1;
        put(&F, arr ? 0x42 : 0x40); if (!arr) { put(&F, 0x14); put(&F, 0x01); put(&F, 'a'); }
        put(&F, 0x40); put(&F, 0x14); put(&F, 0x01); put(&F, 'z');
        put_int(&F, 0x18, (int64_t)L, width_k((int64_t)L)); for (size_t i = 0; i < L; i++) put(&F, (uint8_t)r64());
        put(&F, 0x41); put(&F, arr ? 0x43 : 0x41);
        if (F.n == n) {
            init_doc(0, arr, &F); emit("@0 v");
            if (chance(50)) { emit("@0 %s", arr ? "ia" : "io"); emit("@0 n"); if (chance(50)) { emit("@0 io"); emit("@0 n"); } }
            if (chance(30)) emit("@0 v");
            char *h = hexs(D.b, D.n);
            if (chance(50)) emit("@0 I %c %s s", arr ? 'a' : 'o', h); else { emit("@0 B %s", h); emit("@0 r"); }
            free(h);
        } else { init_doc(0, arr, &D); }
        free(F.b);
    }
    else if (how == 3 && D.n >= 16 && D.n < 30000) {
        /* same object, same buffer memory: an earlier document of exactly the same size is traversed into a nested object,
           then the bytes are overwritten in place - a damaged frame first (reset fails), then the document under test */
        Buf F = {0}; size_t n = D.n; size_t over = arr ? 9 : 12; size_t L = n - over; if (L >= 128) L -= 1;
        put(&F, arr ? 0x42 : 0x40); if (!arr) { put(&F, 0x14); put(&F, 0x01); put(&F, 'a'); }
        put(&F, 0x40); put(&F, 0x14); put(&F, 0x01); put(&F, 'z');
        put_int(&F, 0x18, (int64_t)L, width_k((int64_t)L)); for (size_t i = 0; i < L; i++) put(&F, (uint8_t)r64());
        put(&F, 0x41); put(&F, arr ? 0x43 : 0x41);
        if (F.n == n) {
            init_doc(0, arr, &F);
            emit("@0 %s", arr ? "ia" : "io"); emit("@0 n"); emit("@0 io"); emit("@0 n"); if (chance(50)) emit("@0 n");
            char *h = hexs(F.b, F.n); h[strlen(h) - 1] = '0'; h[strlen(h) - 2] = '0'; emit("@0 B %s", h); free(h); emit("@0 r");
            h = hexs(D.b, D.n); emit("@0 B %s", h); free(h); emit("@0 r");
        } else { init_doc(0, arr, &D); }
        free(F.b);
    }
    else if (how == 0 || how == 3 || how == 4) { init_doc(0, arr, &D); } else if (how == 1) { init_doc(0, arr, &D); emit("@0 n"); emit("@0 r"); } else { init_doc(0, arr, &D); emit("@0 v"); }
    int ops2 = (int)rn(20); uint64_t s2 = S;
    emit("M a0"); if (how == 4) walk_ops(0, arr); else for (int i = 0; i < ops2; i++) any_op(0); emit("M a1");
    (void)save;
    uint64_t s3 = S;
    new_parser(1, md); init_doc(1, arr, &D); if (how == 2) emit("@1 v");
    /* same op stream on the fresh object: re-derived from the same PRNG state */
    S = s2; emit("M b0"); if (how == 4) walk_ops(1, arr); else for (int i = 0; i < ops2; i++) any_op(1); emit("M b1"); S = s3; r64();
}


/* ---------- exhaustive small-scope streams (no PRNG): every token string / every small valid
   document x every call sequence, up to a bound; sharded by index ---------- */
typedef struct { int n; uint8_t b[9]; } XTok;
static const XTok XV[] = {   /* every token kind and the width/minimality boundaries */
    {1,{0x40}}, {1,{0x41}}, {1,{0x42}}, {1,{0x43}}, {1,{0x44}}, {2,{0x10,0x05}}, {3,{0x11,0x80,0x00}}, {3,{0x11,0x05,0x00}},
    {3,{0x14,0x01,0x61}}, {3,{0x14,0x01,0x62}}, {2,{0x14,0x00}}, {3,{0x18,0x01,0x00}}, {4,{0x14,0x02,0x61,0x62}},
    {9,{0x46,1,2,3,4,5,6,7,8}}, {4,{0x15,0x01,0x00,0x61}}, {3,{0x14,0x01,0x80}} };
static const XTok XN[] = {   /* structure-rich alphabet for navigation */
    {1,{0x40}}, {1,{0x41}}, {1,{0x42}}, {1,{0x43}}, {1,{0x44}}, {3,{0x14,0x01,0x61}}, {3,{0x14,0x01,0x62}}, {2,{0x10,0x05}} };
/* the idx-th string (shortest first) over an alphabet of `na` tokens, wrapped in the root's BEGIN/END; 0 = past the end */
static int xstring(Buf *d, const XTok *al, int na, int maxlen, long idx, int arr) {
    int len = 0; long cnt = 1;
    while (idx >= cnt) { idx -= cnt; cnt *= na; len++; if (len > maxlen) return 0; }
    d->n = 0; put(d, arr ? 0x42 : 0x40);
    int digs[16]; for (int i = len - 1; i >= 0; i--) { digs[i] = (int)(idx % na); idx /= na; }
    for (int i = 0; i < len; i++) putn(d, al[digs[i]].b, (size_t)al[digs[i]].n);
    put(d, arr ? 0x43 : 0x41); return 1;
}
static void xgen_verify(int shard, int nshards, int maxlen) {
    long id = 0;
    for (long idx = shard; ; idx += nshards) {
        if (!xstring(&D, XV, 16, maxlen, idx, 0)) break;
        for (int arr = 0; arr < 2; arr++) {
            xstring(&D, XV, 16, maxlen, idx, arr);
            for (int md = 1; md <= 3; md++) {
                emit("C %ld", id++); emit("@0 P %d %u %u", md, 7u, garbage_flags0(md, 7u)); init_doc(0, arr, &D); emit("@0 v");
            }
        }
    }
}
static const char *XOPS[] = { "n", "io", "ia", "lo", "la", "gr", "f 61", "f 62", "f 6162" };
#define NXOPS 9
static int x_valid(Buf *d, int arr) {
    binson_parser p; binson_state st[6]; memset(&p, 0, sizeof p); memset(st, 0, sizeof st); p.state = st; p.max_depth = 6;
    uint8_t *ex = malloc(d->n); memcpy(ex, d->b, d->n);
    int ok = (arr ? binson_parser_init_array(&p, ex, d->n) : binson_parser_init_object(&p, ex, d->n)) && binson_parser_verify(&p);
    free(ex); return ok;
}
/* all PROTOCOL-FOLLOWING call sequences of length <= K over XOPS on one valid document (enter only a container
   that next/lookup has just returned, leave only the kind of container one is in, lookups only inside an object,
   get_raw only on a current item, nothing after the root has been left), as an odometer that skips every
   extension of a prefix whose last call was not allowed or was a no-op (false, nothing moved) */
static void xnav_doc(long *id, Buf *d, int arr, int K) {
    int seq[12]; memset(seq, 0, sizeof seq);
    for (;;) {
        binson_parser *p = NULL; int j; char stack[16]; int sp = 0; int cur = 0 /* 0 none, 1 scalar, 'o', 'a' */; int started = 0, emitted = 0; int bump = K - 1;
        for (j = 0; j < K; j++) {
            int op = seq[j]; int ok;
            if (!started) ok = (op == (arr ? 2 : 1));
            else if (sp == 0) ok = 0;
            else switch (op) {
                case 0: ok = 1; break;
                case 1: ok = cur == 'o'; break;
                case 2: ok = cur == 'a'; break;
                case 3: ok = stack[sp - 1] == 'o'; break;
                case 4: ok = stack[sp - 1] == 'a'; break;
                case 5: ok = cur != 0; break;
                default: ok = stack[sp - 1] == 'o'; break;
            }
            if (!ok || sp >= 15) { bump = j; break; }
            if (!emitted) { emit("C %ld", (*id)++); emit("@0 P 6 %u %u", 7u, garbage_flags0(6, 7u)); init_doc(0, arr, d); p = P[0].p; emitted = 1; }
            size_t u0 = p->buffer_used; unsigned f0 = p->current_state ? p->current_state->flags : 0;
            emit("@0 %s", XOPS[op]);
            if (p->error_flags) { bump = j; break; }
            int moved = last_ret || p->buffer_used != u0 || (p->current_state ? p->current_state->flags : 0) != f0 || cur != 0;
            switch (op) {
                case 0: default: if (last_ret) { int t = (int)binson_parser_get_type(p); cur = t == BINSON_TYPE_OBJECT ? 'o' : t == BINSON_TYPE_ARRAY ? 'a' : 1; } else cur = 0; break;
                case 1: case 2: if (last_ret) { stack[sp++] = op == 1 ? 'o' : 'a'; started = 1; } cur = 0; break;
                case 3: case 4: if (last_ret) sp--; cur = 0; break;
                case 5: if (last_ret) cur = 0; break;
            }
            if (!moved) { bump = j; break; }
        }
        /* advance the odometer: at the op that was not allowed, or at the last op executed */
        int pos = bump;
        for (int i = pos + 1; i < K; i++) seq[i] = 0;
        while (pos >= 0 && ++seq[pos] >= NXOPS) { seq[pos] = 0; pos--; }
        if (pos < 0) return;
    }
}
static void xgen_nav(int shard, int nshards, int maxlen, int K) {
    long id = 0; long docno = 0;
    for (long idx = 0; ; idx++) {
        if (!xstring(&D, XN, 8, maxlen, idx, 0)) break;
        for (int arr = 0; arr < 2; arr++) {
            xstring(&D, XN, 8, maxlen, idx, arr);
            if (!x_valid(&D, arr)) continue;
            if (docno++ % nshards != shard) continue;
            Buf copy = {0}; putn(&copy, D.b, D.n);
            xnav_doc(&id, &copy, arr, K);
            free(copy.b);
        }
    }
}

static void load_corpus_case(long id, const char *path, int valid) {
    FILE *f = fopen(path, "rb"); if (!f) return; static uint8_t b[1 << 20]; size_t n = fread(b, 1, sizeof b, f); fclose(f);
    D.n = 0; putn(&D, b, n);
    case_begin(id); emit("@0 P 10 7"); init_doc(0, 0, &D); emit("@0 v");
    if (valid) { emit("@0 ts NULL"); emit("@0 tr %zu", n); walk_ops(0, 0); }
    else { if (last_ret) { nav_ops(0, 0, 20, 1, 0, 1, 0); } }
}

int main(int argc, char **argv) {
    setvbuf(stdout, NULL, _IOFBF, 1 << 16);
    signal(SIGALRM, on_alarm); signal(SIGVTALRM, on_alarm);
    memset(LONG127, 'k', 127); memset(LONG128, 'k', 128); memset(LONG321, 'k', 321); memset(LONG33000, 'k', 33000);
    qsort(NM, NNM, sizeof *NM, namecmp);
    if (argc >= 4 && !strcmp(argv[1], "replay")) {
        FILE *in = fopen(argv[2], "r"); fout = fopen(argv[3], "w"); if (!in || !fout) { perror("open"); return 2; }
        setvbuf(fout, NULL, _IOLBF, 1 << 16);
        static char line[1 << 20];
        while (fgets(line, sizeof line, in)) { exec_line(line); fflush(fout); }
        fclose(fout); return 0;
    }
    if (argc >= 7 && !strcmp(argv[1], "gen")) {
        const char *prof = argv[2]; uint64_t seed = strtoull(argv[3], NULL, 10); long n = atol(argv[4]);
        fops = fopen(argv[5], "w"); fout = fopen(argv[6], "w"); if (!fops || !fout) { perror("open"); return 2; }
        setvbuf(fout, NULL, _IOLBF, 1 << 16);
        S = 88172645463325252ULL ^ (seed * 0x9E3779B97F4A7C15ULL); for (int i = 0; i < 8; i++) r64();
        int thorough = argc >= 8 && !strcmp(argv[7], "thorough");
        if (prof[0] == 'x') {   /* exhaustive streams: seed = shard + 1000 * nshards, n = bound (verify: max tokens; nav: 10 * max tokens + max calls) */
            int shard = (int)(seed % 1000), nshards = (int)(seed / 1000); if (nshards < 1) nshards = 1;
            if (!strcmp(prof, "xverify")) xgen_verify(shard, nshards, (int)n);
            else if (!strcmp(prof, "xnav")) xgen_nav(shard, nshards, (int)(n / 10), (int)(n % 10));
            else { fprintf(stderr, "unknown profile %s\n", prof); return 2; }
            fclose(fops); fclose(fout); return 0;
        }
        for (long id = 0; id < n; id++) {
            if (!strcmp(prof, "verify")) gen_verify(id);
            else if (!strcmp(prof, "nav")) gen_nav(id, 0);
            else if (!strcmp(prof, "navg")) gen_nav(id, 1);
            else if (!strcmp(prof, "walk")) gen_walk(id);
            else if (!strcmp(prof, "any")) gen_any(id);
            else if (!strcmp(prof, "anyL")) { lookups_anywhere = 1; gen_any(id); }
            else if (!strcmp(prof, "stream")) gen_stream(id);
            else if (!strcmp(prof, "print")) gen_print(id, thorough);
            else if (!strcmp(prof, "writer")) gen_writer(id, thorough);
            else if (!strcmp(prof, "rt")) gen_rt(id);
            else if (!strcmp(prof, "tr")) gen_tr(id);
            else if (!strcmp(prof, "reuse")) gen_reuse(id);
            else { fprintf(stderr, "unknown profile %s\n", prof); return 2; }
            fflush(fops); fflush(fout);
        }
        fclose(fops); fclose(fout); return 0;
    }
    if (argc >= 6 && !strcmp(argv[1], "corpus")) {
        /* drive corpus <listfile> <valid 0|1> <ops_out> <impl_out> */
        FILE *lst = fopen(argv[2], "r"); int valid = atoi(argv[3]); fops = fopen(argv[4], "w"); fout = fopen(argv[5], "w"); setvbuf(fout, NULL, _IOLBF, 1 << 16);
        char path[4096]; long id = 0;
        while (lst && fgets(path, sizeof path, lst)) { path[strcspn(path, "\n")] = 0; load_corpus_case(id++, path, valid); }
        fclose(fops); fclose(fout); return 0;
    }
    if (argc >= 5 && !strcmp(argv[1], "docs")) {
        /* drive docs <seed> <n> <out>: byte documents (valid, near-miss, blind mutants, tiny) as ops for drive_cpp */
        uint64_t seed = strtoull(argv[2], NULL, 10); long n = atol(argv[3]); FILE *o = fopen(argv[4], "w"); if (!o) return 2;
        S = 88172645463325252ULL ^ (seed * 0x9E3779B97F4A7C15ULL); for (int i = 0; i < 8; i++) r64();
        for (long id = 0; id < n; id++) {
            int fault = chance(50);
            gen_doc(&D, chance(5), fault, 2 + (int)rn(14));
            if (chance(4)) D.n = rn(3);
            if (chance(2)) { D.n = 0; gen_deep(&D, 8 + (int)rn(5), 0); }
            char *h = hexs(D.b, D.n);
            int kk = 1 + (int)rn(5), fill = chance(50) ? 0 : 200; const char *pre = chance(40) ? "p" : "";
            if (id % 16 == 5) { free(h); D.n = 0; h = hexs(D.b, 0); kk = 1 + (int)(id / 16 % 2); fill = (id / 32 % 3 == 0) ? 200 : -1; }   /* nothing to parse at all: empty vector / (NULL, 0), over a poisoned stack or right after a successful call */
            else if (id % 16 == 6) fill = -1;
            fprintf(o, "C %ld\nxd%d%s %d %s\n", id, kk, pre, fill, h); free(h);
        }
        fclose(o); return 0;
    }
    fprintf(stderr, "usage: drive gen <profile> <seed> <n> <ops> <impl> [thorough] | replay <ops> <impl> | corpus <list> <valid> <ops> <impl>\n");
    return 2;
}
