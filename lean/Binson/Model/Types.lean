/-
  Machine model, part 1: the data of `binson_parser` / `binson_state` as plain structures.
  Enumerations stand for the bit words `flags`, `scan_flags`, `next_state`; that this loses
  nothing is what `Binson/Bridge.lean` proves over the constants regenerated from the source.
-/
namespace Binson

/-- `binson_type` -/
inductive Ty | none | object | objectEnd | array | arrayEnd | boolean | integer | double | string | bytes
  deriving DecidableEq, Repr, Inhabited
/-- `binson_err` -/
inductive Err | none | range | format | eof | endOfBlock | null | state | wrongType | maxDepthObject | maxDepthArray
  deriving DecidableEq, Repr, Inhabited
/-- `binson_state.flags`. `junk o a` is an arbitrary (uninitialised) word of which only the two
    mask tests `CHECKBITMASK(flags, IN_OBJECT)` = `o` and `CHECKBITMASK(flags, IN_ARRAY)` = `a`
    are ever looked at (by `leave_*` after a rejected init). -/
inductive Flags | undef | expField | expValue | arr1 | arr2 | junk (o a : Bool)
  deriving DecidableEq, Repr, Inhabited
/-- `next_state` -/
inductive Tok | string | boolean | double | integer | bytes | objBegin | objEnd | arrBegin | arrEnd | error | fieldName
  deriving DecidableEq, Repr, Inhabited
/-- one bit of `scan_flags` -/
inductive Scan | verify | enterObj | leaveObj | enterArr | leaveArr | value
  deriving DecidableEq, Repr, Inhabited

def Flags.inObject : Flags → Bool | .expField | .expValue => true | .junk o _ => o | _ => false
def Flags.inArray : Flags → Bool | .arr1 | .arr2 => true | .junk _ a => a | _ => false
/-- `CHECKBITMASK(next_state, BINSON_STATE_VALUE_FLAG)` -/
def Tok.isValue : Tok → Bool
  | .string | .boolean | .double | .integer | .bytes | .objBegin | .arrBegin => true | _ => false

/-- a `bbuf` into the input buffer: offset relative to `parser->buffer`, and size -/
structure Span where
  off : Nat
  len : Nat
  deriving DecidableEq, Repr, Inhabited

/-- the `binson_value` union, as one tagged slot -/
inductive Val | none | int (v : Int) | bool (b : Bool) | dbl (bits : Nat) | span (s : Span)
  deriving DecidableEq, Repr, Inhabited

/-- `binson_state` -/
structure Level where
  ctype : Ty := .none
  val : Val := .none
  name : Option Span := none
  flags : Flags := .undef
  ad : Nat := 0
  deriving DecidableEq, Repr, Inhabited

def Level.zero : Level := {}

/-- `binson_parser` (without the callback pointer: callbacks are returned as a log) -/
structure Parser where
  ptype : Nat            -- 1 object, 2 array, anything else: garbage
  depth : Nat
  maxDepth : Nat
  size : Nat
  used : Nat
  buf : Array UInt8
  err : Err
  levels : Array Level
  cur : Nat              -- index of `current_state` in `state[]`
  fault : Bool := false  -- ghost: an access outside `buf` / `levels` was attempted
  oof : Bool := false    -- ghost: the model's loop fuel ran out (proved impossible, C16)
  deriving Repr, Inhabited

/-- what the callback is handed: the token and a snapshot of `*parser->current_state` -/
abbrev Event := Tok × Level

def two64 : Nat := 18446744073709551616

/-- `_check_boundary`, with `size_t` wrap-around -/
def checkBoundary (a b max : Nat) : Bool :=
  let c := (a + b) % two64
  if c > max then false else if c < a then false else true

def Parser.lvlIdx (p : Parser) : Nat := if p.depth > 0 then p.depth - 1 else 0

def Parser.getLvl (p : Parser) (i : Nat) : Level := p.levels.getD i Level.zero
def Parser.setLvl (p : Parser) (i : Nat) (l : Level) : Parser :=
  if i < p.levels.size then { p with levels := p.levels.setIfInBounds i l } else { p with fault := true }
def Parser.touchLvl (p : Parser) (i : Nat) : Parser :=
  if i < p.levels.size then p else { p with fault := true }

def Parser.byte (p : Parser) (i : Nat) : UInt8 := p.buf.getD i 0
def Parser.touchBuf (p : Parser) (off len : Nat) : Parser :=
  if off + len ≤ p.buf.size then p else { p with fault := true }

def Parser.slice (p : Parser) (s : Span) : List UInt8 := (p.buf.extract s.off (s.off + s.len)).toList

end Binson
