/-
  Traversal on ARBITRARY bytes, part 1: the loop body `iter` decomposed into its stages with the
  scan mode kept explicit (the C08 lemmas abstract it away), `finish` in closed form, and the
  induction principle for the loop / `_advance_parsing`.
-/
import Binson.Lemmas.Stream
namespace Binson

/-! ### projections through the elementary updates -/

theorem walk_setLvl_cur (p : Parser) (i : Nat) (l : Level) : (p.setLvl i l).cur = p.cur := by
  unfold Parser.setLvl; split <;> rfl
theorem walk_setLvl_buf (p : Parser) (i : Nat) (l : Level) : (p.setLvl i l).buf = p.buf := by
  unfold Parser.setLvl; split <;> rfl
theorem walk_setLvl_ptype (p : Parser) (i : Nat) (l : Level) : (p.setLvl i l).ptype = p.ptype := by
  unfold Parser.setLvl; split <;> rfl
theorem walk_touchLvl_depth (p : Parser) (i : Nat) : (p.touchLvl i).depth = p.depth := by
  unfold Parser.touchLvl; split <;> rfl
theorem walk_touchLvl_used (p : Parser) (i : Nat) : (p.touchLvl i).used = p.used := by
  unfold Parser.touchLvl; split <;> rfl
theorem walk_touchLvl_err (p : Parser) (i : Nat) : (p.touchLvl i).err = p.err := by
  unfold Parser.touchLvl; split <;> rfl
theorem walk_touchLvl_size (p : Parser) (i : Nat) : (p.touchLvl i).size = p.size := by
  unfold Parser.touchLvl; split <;> rfl
theorem walk_touchLvl_ptype (p : Parser) (i : Nat) : (p.touchLvl i).ptype = p.ptype := by
  unfold Parser.touchLvl; split <;> rfl
theorem walk_touchLvl_cur (p : Parser) (i : Nat) : (p.touchLvl i).cur = p.cur := by
  unfold Parser.touchLvl; split <;> rfl
theorem walk_touchLvl_getLvl (p : Parser) (i j : Nat) : (p.touchLvl i).getLvl j = p.getLvl j := by
  unfold Parser.touchLvl; split <;> rfl
theorem walk_touchBuf_depth (p : Parser) (o n : Nat) : (p.touchBuf o n).depth = p.depth := by
  unfold Parser.touchBuf; split <;> rfl
theorem walk_touchBuf_used (p : Parser) (o n : Nat) : (p.touchBuf o n).used = p.used := by
  unfold Parser.touchBuf; split <;> rfl
theorem walk_touchBuf_err (p : Parser) (o n : Nat) : (p.touchBuf o n).err = p.err := by
  unfold Parser.touchBuf; split <;> rfl
theorem walk_touchBuf_ptype (p : Parser) (o n : Nat) : (p.touchBuf o n).ptype = p.ptype := by
  unfold Parser.touchBuf; split <;> rfl
theorem walk_touchName_depth (p : Parser) (n : Option Span) : (touchName p n).depth = p.depth := by
  unfold touchName; split
  · exact walk_touchBuf_depth _ _ _
  · rfl
theorem walk_touchName_used (p : Parser) (n : Option Span) : (touchName p n).used = p.used := by
  unfold touchName; split
  · exact walk_touchBuf_used _ _ _
  · rfl
theorem walk_touchName_err (p : Parser) (n : Option Span) : (touchName p n).err = p.err := by
  unfold touchName; split
  · exact walk_touchBuf_err _ _ _
  · rfl

theorem walk_getLvl_setLvl_ne (p : Parser) (i j : Nat) (l : Level) (h : j ≠ i) : (p.setLvl i l).getLvl j = p.getLvl j := by
  by_cases hi : i < p.levels.size
  · rw [getLvl_setLvl l hi, if_neg h]
  · unfold Parser.setLvl; rw [if_neg hi]; rfl

/-! ### `finish` in closed form -/

def walkProceed (scan : Option Scan) (force : Bool) : Out :=
  if force || has scan [.verify, .leaveObj, .value, .leaveArr] then .cont else .stop

theorem walk_finish_p (st : LoopSt) (tok : Tok) (p : Parser) (lv : Level) (li : Nat) (scan : Option Scan) (force : Bool) :
    (finish st tok p lv li scan force).1.p = p.setLvl li lv := finish_p st tok p lv li scan force

theorem walk_finish_scan (st : LoopSt) (tok : Tok) (p : Parser) (lv : Level) (li : Nat) (scan : Option Scan) (force : Bool) :
    (finish st tok p lv li scan force).1.scan = scan := by
  unfold finish
  dsimp only
  split
  · rfl
  · split <;> rfl

theorem walk_finish_out (st : LoopSt) (tok : Tok) (p : Parser) (lv : Level) (li : Nat) (scan : Option Scan) (force : Bool) :
    (finish st tok p lv li scan force).2 = if p.err ≠ .none then .ret false else walkProceed scan force := by
  unfold finish walkProceed
  dsimp only
  rw [setLvl_err]
  split
  · rfl
  · split <;> rfl

/-! ### the stages of `iter`, scan mode explicit -/

/-- the `switch (next_state)` -/
def walkDispatch (st : LoopSt) (p : Parser) (lv : Level) (li : Nat) (scan : Option Scan) (tok : Tok) (span : Span) (bc : Nat)
    (sn : Option (List UInt8)) (oa od : Nat) : LoopSt × Out :=
  match tok with
  | .objBegin => caseObjBegin st p lv li scan
  | .objEnd => caseObjEnd st p lv li scan od
  | .fieldName => caseFieldName st p lv li scan span bc sn oa od
  | .arrBegin => caseArrBegin st p lv li scan
  | .arrEnd => caseArrEnd st p lv li scan oa od
  | tok => caseScalar st tok p lv li scan span

theorem walk_iter_cases (st : LoopSt) (sn : Option (List UInt8)) (oa od : Nat) :
    ((classify st.p st.bc).tok = .error ∧
      iter st sn oa od = ({ st with p := (classify st.p st.bc).p, bc := (classify st.p st.bc).bc }, .ret false)) ∨
    ((classify st.p st.bc).tok ≠ .error ∧
      objBlock ((classify st.p st.bc).p.getLvl (classify st.p st.bc).p.lvlIdx) (classify st.p st.bc).tok = none ∧
      iter st sn oa od = ({ st with p := { (classify st.p st.bc).p with err := .format }, bc := (classify st.p st.bc).bc }, .ret false)) ∨
    (∃ lv tok, (classify st.p st.bc).tok ≠ .error ∧
      objBlock ((classify st.p st.bc).p.getLvl (classify st.p st.bc).p.lvlIdx) (classify st.p st.bc).tok = some (lv, tok) ∧
      iter st sn oa od = walkDispatch { st with bc := (classify st.p st.bc).bc } (classify st.p st.bc).p
        (arrBlock lv tok (decide (oa = lv.ad ∧ od = (classify st.p st.bc).p.depth)) st.scan).1 (classify st.p st.bc).p.lvlIdx
        (arrBlock lv tok (decide (oa = lv.ad ∧ od = (classify st.p st.bc).p.depth)) st.scan).2 tok
        (classify st.p st.bc).span (classify st.p st.bc).bc sn oa od) := by
  unfold iter
  generalize classify st.p st.bc = c
  by_cases he : c.tok = .error
  · left
    exact ⟨he, by simp only [he, if_true]⟩
  · right
    simp only [he, if_false]
    cases hob : objBlock (c.p.getLvl c.p.lvlIdx) c.tok with
    | none => left; exact ⟨he, rfl, rfl⟩
    | some r =>
      right
      obtain ⟨lv, tok⟩ := r
      refine ⟨lv, tok, he, rfl, ?_⟩
      simp only
      unfold walkDispatch
      cases tok <;> rfl

/-! ### the scan word through the array toggle -/

theorem walk_arrBlock_scan (lv : Level) (tok : Tok) (b : Bool) (s : Option Scan) :
    (arrBlock lv tok b s).2 = s ∨ ((arrBlock lv tok b s).2 = clear s .value ∧ lv.flags.inArray = true ∧ b = true) := by
  unfold arrBlock
  by_cases h1 : lv.flags.inArray = true ∧ b = true
  · rw [if_pos h1]
    split
    · split
      · exact Or.inr ⟨rfl, h1⟩
      · exact Or.inl rfl
    · exact Or.inr ⟨rfl, h1⟩
  · rw [if_neg h1]; exact Or.inl rfl

theorem walk_clear_ne (s : Option Scan) (x : Scan) (h : s ≠ some x) : clear s x = s := by
  unfold clear; rw [if_neg h]

theorem walk_arrBlock_scan_ne (lv : Level) (tok : Tok) (b : Bool) (s : Option Scan) (h : s ≠ some .value) :
    (arrBlock lv tok b s).2 = s := by
  rcases walk_arrBlock_scan lv tok b s with e | ⟨e, _⟩
  · exact e
  · rw [e, walk_clear_ne s _ h]

/-! ### induction over the loop -/

/-- a loop invariant `I` (with shape and no error) and a postcondition `Q` on the final state and the
    value `_advance_parsing` returns -/
theorem walk_advLoop_ind (sn : Option (List UInt8)) (oa od : Nat) (I : LoopSt → Prop) (Q : LoopSt → Bool → Prop)
    (hstep : ∀ st, I st →
      ((iter st sn oa od).2 = .cont → I (iter st sn oa od).1) ∧
      ((iter st sn oa od).2 = .stop → Q (iter st sn oa od).1 (decide ((iter st sn oa od).1.p.err = .none))) ∧
      (∀ b, (iter st sn oa od).2 = .ret b → Q (iter st sn oa od).1 b)) :
    ∀ (f : Nat) (st st' : LoopSt) (b : Bool), I st → advLoop f st sn oa od = (st', .done b) → Q st' b := by
  intro f
  induction f with
  | zero => intro st st' b _ h; simp [advLoop] at h
  | succ f ih =>
    intro st st' b hI h
    obtain ⟨s1, s2, s3⟩ := hstep st hI
    unfold advLoop at h
    generalize iter st sn oa od = r at h s1 s2 s3
    obtain ⟨st1, out⟩ := r
    cases out with
    | ret b' =>
      simp only [Prod.mk.injEq, LoopRes.done.injEq] at h
      obtain ⟨rfl, rfl⟩ := h
      exact s3 b' rfl
    | stop =>
      simp only [Prod.mk.injEq, LoopRes.done.injEq] at h
      obtain ⟨rfl, rfl⟩ := h
      exact s2 rfl
    | cont => exact ih st1 st' b (s1 rfl) h

/-- the same for `_advance_parsing` on a shaped, error-free parser -/
theorem walk_advance_ind (p : Parser) (hs : Shape p) (he : p.err = .none) (scan : Scan) (sn : Option (List UInt8))
    (I : LoopSt → Prop) (Q : LoopSt → Bool → Prop)
    (h0 : I ⟨p, some scan, 0, []⟩)
    (hstep : ∀ st, I st →
      ((iter st sn (p.getLvl p.cur).ad p.depth).2 = .cont → I (iter st sn (p.getLvl p.cur).ad p.depth).1) ∧
      ((iter st sn (p.getLvl p.cur).ad p.depth).2 = .stop →
        Q (iter st sn (p.getLvl p.cur).ad p.depth).1 (decide ((iter st sn (p.getLvl p.cur).ad p.depth).1.p.err = .none))) ∧
      (∀ b, (iter st sn (p.getLvl p.cur).ad p.depth).2 = .ret b → Q (iter st sn (p.getLvl p.cur).ad p.depth).1 b)) :
    ∃ st', (advance p scan sn).p = st'.p ∧ Q st' (advance p scan sn).ret := by
  unfold advance
  rw [if_neg (by simp [he])]
  simp only [touchLvl_of_lt hs.cur_lt]
  have ls := advLoop_spec (p.size - p.used + 2) ⟨p, some scan, 0, []⟩ sn (p.getLvl p.cur).ad p.depth hs he (by simp)
  have hq := walk_advLoop_ind sn (p.getLvl p.cur).ad p.depth I Q hstep (p.size - p.used + 2) ⟨p, some scan, 0, []⟩
  generalize advLoop (p.size - p.used + 2) ⟨p, some scan, 0, []⟩ sn (p.getLvl p.cur).ad p.depth = r at ls hq
  obtain ⟨st', res⟩ := r
  cases res with
  | done b => exact ⟨st', rfl, hq st' b h0 rfl⟩
  | outOfFuel => exact absurd rfl ls.fuel

end Binson

namespace Binson

/-! ### outcome of one pass through the loop body, by the way it ends -/

/-- `C` holds if the loop goes on, `S` if it stops normally, `R` if the body returns (always `false`) -/
def WalkPost (r : LoopSt × Out) (C : Parser → Option Scan → Prop) (S : Parser → Prop) (R : Parser → Prop) : Prop :=
  (r.2 = .cont → C r.1.p r.1.scan) ∧ (r.2 = .stop → S r.1.p) ∧ (∀ b, r.2 = .ret b → b = false ∧ R r.1.p)

theorem walk_post_ret {C : Parser → Option Scan → Prop} {S R : Parser → Prop} (x : LoopSt) (h : R x.p) :
    WalkPost (x, .ret false) C S R :=
  ⟨fun h => (nomatch h), fun h => (nomatch h), fun b hb => by cases hb; exact ⟨rfl, h⟩⟩

theorem walk_post_finish {C : Parser → Option Scan → Prop} {S R : Parser → Prop}
    (st : LoopSt) (tok : Tok) (p : Parser) (lv : Level) (li : Nat) (scan : Option Scan) (force : Bool)
    (hR : p.err ≠ .none → R (p.setLvl li lv))
    (hC : p.err = .none → walkProceed scan force = .cont → C (p.setLvl li lv) scan)
    (hS : p.err = .none → walkProceed scan force = .stop → S (p.setLvl li lv)) :
    WalkPost (finish st tok p lv li scan force) C S R := by
  unfold WalkPost
  rw [walk_finish_out, walk_finish_p, walk_finish_scan]
  by_cases he : p.err = .none
  · rw [if_neg (by simp [he])]
    refine ⟨hC he, hS he, fun b hb => ?_⟩
    unfold walkProceed at hb
    split at hb <;> cases hb
  · rw [if_pos he]
    exact ⟨fun h => (nomatch h), fun h => (nomatch h), fun b hb => by cases hb; exact ⟨rfl, hR he⟩⟩

theorem WalkPost.mono {r : LoopSt × Out} {C C' : Parser → Option Scan → Prop} {S S' R R' : Parser → Prop}
    (h : WalkPost r C S R) (hC : ∀ q s, C q s → C' q s) (hS : ∀ q, S q → S' q) (hR : ∀ q, R q → R' q) :
    WalkPost r C' S' R' :=
  ⟨fun e => hC _ _ (h.1 e), fun e => hS _ (h.2.1 e), fun b e => ⟨(h.2.2 b e).1, hR _ (h.2.2 b e).2⟩⟩

/-! ### the classification stage, summarised for the traversal proofs -/

/-- a classification that did not fail: what it leaves alone, and what a BEGIN token says -/
structure WalkCls (p : Parser) (c : Cls) : Prop where
  shape : Shape c.p
  err : c.p.err = .none
  depth : c.p.depth = p.depth
  ptype : c.p.ptype = p.ptype
  cur : c.p.cur = p.cur
  buf : c.p.buf = p.buf
  lvlIdx : c.p.lvlIdx = p.lvlIdx
  tokOk : c.tok ≠ .error ∧ c.tok ≠ .fieldName
  used : p.used ≤ c.p.used
  beUsed : c.tok.isBeginEnd = true → c.p.used = p.used
  lvlNe : ∀ j, j ≠ p.lvlIdx → c.p.getLvl j = p.getLvl j
  lvlAd : (c.p.getLvl p.lvlIdx).ad = (p.getLvl p.lvlIdx).ad
  lvlFlags : (c.p.getLvl p.lvlIdx).flags = (p.getLvl p.lvlIdx).flags
  objB : c.tok = .objBegin → ∃ rs, p.rem = 0x40 :: rs
  tokObj : (∃ rs, p.rem = 0x40 :: rs) → c.tok = .objBegin
  ctyO : c.tok = .objBegin → (c.p.getLvl p.lvlIdx).ctype = .object
  ctyA : c.tok = .arrBegin → (c.p.getLvl p.lvlIdx).ctype = .array

theorem walk_classify {p : Parser} (hs : Shape p) (he : p.err = .none) (bc0 : Nat) :
    ((classify p bc0).tok = .error ∧ (classify p bc0).p.err ≠ .none) ∨ WalkCls p (classify p bc0) := by
  have hli := hs.lvlIdx_lt
  by_cases hu : p.used < p.size
  · have hrem := rem_eq_cons hs hu
    have hcl := classify_peek hs hu bc0
    have begin : ∀ (ty : Ty) (tk : Tok) (b : UInt8), p.byte p.used = b → tk ≠ .error ∧ tk ≠ .fieldName →
        (tk = .objBegin → b = 0x40 ∧ ty = .object) → (tk = .arrBegin → ty = .array) → (b = 0x40 → tk = .objBegin) →
        WalkCls p ⟨tk, ⟨p.used, 1⟩, bc0, p.setLvl p.lvlIdx { p.getLvl p.lvlIdx with ctype := ty }⟩ := by
      intro ty tk b hb htk ho ha hob
      obtain ⟨q1, q2, q3, q4, q5, _, _, q8⟩ := beginQ hs he ty _ rfl
      refine ⟨q1, q2, q4, walk_setLvl_ptype _ _ _, walk_setLvl_cur _ _ _, walk_setLvl_buf _ _ _, q5, htk, by rw [q3]; exact Nat.le_refl _,
        fun _ => q3, ?_, ?_, ?_, ?_, ?_, ?_, ?_⟩
      · intro j hj; rw [q8, if_neg hj]
      · rw [q8, if_pos rfl]
      · rw [q8, if_pos rfl]
      · intro h; exact ⟨_, by rw [hrem, hb, (ho h).1]⟩
      · rintro ⟨rs, h⟩
        rw [hrem, hb] at h
        exact hob (List.cons.inj h).1
      · intro h; rw [q8, if_pos rfl]; exact (ho h).2
      · intro h; rw [q8, if_pos rfl]; exact ha h
    have same : ∀ (tk : Tok), tk ≠ .error ∧ tk ≠ .fieldName → tk ≠ .objBegin → tk ≠ .arrBegin → p.byte p.used ≠ 0x40 →
        WalkCls p ⟨tk, ⟨p.used, 1⟩, bc0, p⟩ := by
      intro tk htk h1 h2 hb
      exact ⟨hs, he, rfl, rfl, rfl, rfl, rfl, htk, Nat.le_refl _, fun _ => rfl, fun _ _ => rfl, rfl, rfl,
        fun h => absurd h h1, fun ⟨rs, h⟩ => by rw [hrem] at h; exact absurd (List.cons.inj h).1 hb,
        fun h => absurd h h1, fun h => absurd h h2⟩
    by_cases e0 : p.byte p.used = 0x40
    · rw [if_pos e0] at hcl
      right; rw [hcl]
      exact begin .object .objBegin 0x40 e0 ⟨by decide, by decide⟩ (fun _ => ⟨rfl, rfl⟩) (fun h => nomatch h) (fun _ => rfl)
    by_cases e1 : p.byte p.used = 0x41
    · rw [if_neg e0, if_pos e1] at hcl
      right; rw [hcl]
      exact same .objEnd ⟨by decide, by decide⟩ (by decide) (by decide) e0
    by_cases e2 : p.byte p.used = 0x42
    · rw [if_neg e0, if_neg e1, if_pos e2] at hcl
      right; rw [hcl]
      exact begin .array .arrBegin 0x42 e2 ⟨by decide, by decide⟩ (fun h => nomatch h) (fun _ => rfl) (fun h => by cases h)
    by_cases e3 : p.byte p.used = 0x43
    · rw [if_neg e0, if_neg e1, if_neg e2, if_pos e3] at hcl
      right; rw [hcl]
      exact same .arrEnd ⟨by decide, by decide⟩ (by decide) (by decide) e0
    rw [if_neg e0, if_neg e1, if_neg e2, if_neg e3] at hcl
    rw [hcl]
    rcases processOne_spec hs hu (p.byte p.used) bc0 with ⟨e, c⟩ | ⟨e, hbe, c⟩
    · exact Or.inl ⟨e, c.err⟩
    · right
      obtain ⟨f1, f2, _, _, f5, f6, _⟩ := c.frame
      have hlv := (c.sc hbe).2.2
      have hg : ∀ j, (processOne p (p.byte p.used)).p.getLvl j = p.getLvl j := by
        intro j; unfold Parser.getLvl; rw [hlv]
      have hnb : ∀ t : Tok, t.isBeginEnd = true → (processOne p (p.byte p.used)).tok ≠ t := by
        intro t ht h; rw [h] at hbe; rw [hbe] at ht; cases ht
      have hused : p.used ≤ (processOne p (p.byte p.used)).p.used := by have := (c.sc hbe).1; omega
      exact { shape := c.shape, err := c.err.trans he, depth := f2, ptype := f1, cur := f6, buf := f5,
              lvlIdx := by unfold Parser.lvlIdx; rw [f2]
              tokOk := ⟨e, c.notFieldName⟩, used := hused
              beUsed := fun h => by rw [hbe] at h; cases h
              lvlNe := fun j _ => hg j, lvlAd := by rw [hg], lvlFlags := by rw [hg]
              objB := fun h => absurd h (hnb .objBegin rfl)
              tokObj := fun ⟨rs, h⟩ => by rw [hrem] at h; exact absurd (List.cons.inj h).1 e0
              ctyO := fun h => absurd h (hnb .objBegin rfl)
              ctyA := fun h => absurd h (hnb .arrBegin rfl) }
  · left
    have hsz := hs.hsz
    have hus := hs.hus
    unfold classify
    simp only [touchLvl_of_lt hli]
    rw [consume_fail hs 1 true (by omega) (by omega)]
    simp

end Binson

namespace Binson

/-- one pass through the loop body from the facts about its `switch`: failures of the first two
    stages latch an error -/
theorem walk_iter_post {st : LoopSt} {sn : Option (List UInt8)} {oa od : Nat} (hs : Shape st.p) (he : st.p.err = .none)
    {C : Parser → Option Scan → Prop} {S R : Parser → Prop}
    (hR : ∀ q : Parser, q.err ≠ .none → R q)
    (hD : ∀ (c : Cls) (lv : Level) (tok : Tok), WalkCls st.p c → objBlock (c.p.getLvl c.p.lvlIdx) c.tok = some (lv, tok) →
      WalkPost (walkDispatch { st with bc := c.bc } c.p (arrBlock lv tok (decide (oa = lv.ad ∧ od = c.p.depth)) st.scan).1 c.p.lvlIdx
        (arrBlock lv tok (decide (oa = lv.ad ∧ od = c.p.depth)) st.scan).2 tok c.span c.bc sn oa od) C S R) :
    WalkPost (iter st sn oa od) C S R := by
  rcases walk_iter_cases st sn oa od with ⟨ht, e⟩ | ⟨_, _, e⟩ | ⟨lv, tok, hne, hob, e⟩
  · rw [e]
    rcases walk_classify hs he st.bc with ⟨_, hce⟩ | hC
    · exact walk_post_ret _ (hR _ hce)
    · exact absurd ht hC.tokOk.1
  · rw [e]
    exact walk_post_ret _ (hR _ (by simp))
  · rw [e]
    rcases walk_classify hs he st.bc with ⟨ht, _⟩ | hC
    · exact absurd ht hne
    · exact hD _ lv tok hC hob

/-- `_advance_parsing` from a mode invariant `J` on (parser, scan word) -/
theorem walk_mode_adv (p : Parser) (hs : Shape p) (he : p.err = .none) (scan : Scan) (sn : Option (List UInt8))
    (J : Parser → Option Scan → Prop) (S R : Parser → Prop) (h0 : J p (some scan))
    (hstep : ∀ st : LoopSt, Shape st.p → st.p.err = .none → st.p.ptype = p.ptype → J st.p st.scan →
      WalkPost (iter st sn (p.getLvl p.cur).ad p.depth) J S R) :
    S (advance p scan sn).p ∨ ((advance p scan sn).ret = false ∧ R (advance p scan sn).p) := by
  obtain ⟨st', e, hq⟩ := walk_advance_ind p hs he scan sn
    (fun st => Shape st.p ∧ st.p.err = .none ∧ st.p.ptype = p.ptype ∧ J st.p st.scan)
    (fun st b => S st.p ∨ (b = false ∧ R st.p)) ⟨hs, he, rfl, h0⟩
    (fun st hI => by
      obtain ⟨i1, i2, i3, i4⟩ := hI
      have W := hstep st i1 i2 i3 i4
      have sp := iter_spec st sn (p.getLvl p.cur).ad p.depth i1 i2
      refine ⟨fun h => ⟨sp.shape, (sp.cont h).1, sp.frame.2.2.2.1.trans i3, W.1 h⟩, fun h => Or.inl (W.2.1 h),
        fun b h => Or.inr (W.2.2 b h)⟩)
  rw [e]
  exact hq

end Binson
