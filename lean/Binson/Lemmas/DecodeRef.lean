/-
  `decodeRef` accepts exactly the canonical encodings of well-formed values:
  completeness (`decodeRef_encode`), soundness (`decodeRef_sound`), their conjunction
  (`decodeRef_iff`), and the corollaries `encode_injective`, `encode_prefix_free`.
-/
import Binson.Lemmas.L0
namespace Binson

theorem decValue_succ_cons (f : Nat) (t : UInt8) (r : Bytes) :
    decValue (f+1) (t :: r) =
    if t = 0x44 then some (.bool true, r)
    else if t = 0x45 then some (.bool false, r)
    else if t = 0x46 then
      (if r.length < 8 then none else some (.dbl (UInt64.ofNat (leNatL (r.take 8))), r.drop 8))
    else if 0x10 ≤ t ∧ t ≤ 0x13 then
      (match decIntBody (t.toNat - 0x10) r with
       | some (i, r') => some (.int i, r')
       | none => none)
    else if 0x14 ≤ t ∧ t ≤ 0x16 then
      (match decBlob (t.toNat - 0x14) r with
       | some (s, r') => some (.str s, r')
       | none => none)
    else if 0x18 ≤ t ∧ t ≤ 0x1a then
      (match decBlob (t.toNat - 0x18) r with
       | some (s, r') => some (.bytes s, r')
       | none => none)
    else if t = 0x42 then
      (match decElems f r with
       | some (xs, r') => some (.arr xs, r')
       | none => none)
    else if t = 0x40 then
      (match decFields f none r with
       | some (fs, r') => some (.obj fs, r')
       | none => none)
    else none := by
  rw [decValue]; rfl

/-! ### integer payloads -/

theorem decIntBody_enc (i : Int) (h : int64Min ≤ i ∧ i ≤ int64Max) (rest : Bytes) :
    decIntBody (intWidthExp i) (encIntBody i ++ rest) = some (i, rest) := by
  unfold decIntBody
  have hl : (encIntBody i).length = 2 ^ intWidthExp i := encIntBody_length i
  have h1 : ¬ ((encIntBody i ++ rest).length < 2 ^ intWidthExp i) := by
    rw [List.length_append]; omega
  have h2 : (encIntBody i ++ rest).take (2 ^ intWidthExp i) = encIntBody i := by
    rw [← hl]; simp
  have h3 : (encIntBody i ++ rest).drop (2 ^ intWidthExp i) = rest := by
    rw [← hl]; simp
  have h4 : sext (2 ^ intWidthExp i) (leNatL (encIntBody i)) = i := sext_encIntBody i h
  simp only [h1, h2, h3, h4, if_false, if_true]

theorem fits_int64 (i : Int) (k : Nat) (hk : k ≤ 3) (h : FitsWidth i (2 ^ k)) :
    int64Min ≤ i ∧ i ≤ int64Max := by
  unfold int64Min int64Max
  have : k = 0 ∨ k = 1 ∨ k = 2 ∨ k = 3 := by omega
  rcases this with rfl | rfl | rfl | rfl
  · rw [fits0] at h; omega
  · rw [fits1] at h; omega
  · rw [fits2] at h; omega
  · rw [fits3] at h; omega

theorem decIntBody_inv (k : Nat) (b : Bytes) (i : Int) (r : Bytes)
    (h : decIntBody k b = some (i, r)) :
    b = encIntBody i ++ r ∧ intWidthExp i = k ∧ int64Min ≤ i ∧ i ≤ int64Max := by
  unfold decIntBody at h
  simp only at h
  split at h
  · exact absurd h (by simp)
  · rename_i hlen
    split at h
    · rename_i hk
      simp only [Option.some.injEq, Prod.mk.injEq] at h
      obtain ⟨hi, hr⟩ := h
      have hw : 1 ≤ 2 ^ k := Nat.one_le_two_pow
      have htl : (b.take (2 ^ k)).length = 2 ^ k := by
        rw [List.length_take]; omega
      have hn : leNatL (b.take (2 ^ k)) < 256 ^ (2 ^ k) := by
        have := leNatL_lt (b.take (2 ^ k)); rwa [htl] at this
      have hf := sext_fits (2 ^ k) hw _ hn
      rw [hi] at hf hk
      have hk3 : k ≤ 3 := by rw [← hk]; exact intWidthExp_le_three i
      refine ⟨?_, hk, fits_int64 i k hk3 hf.1⟩
      have he : encIntBody i = b.take (2 ^ k) := by
        unfold encIntBody intWidth
        simp only
        rw [hk, hf.2]
        have := leBytes_leNatL (b.take (2 ^ k))
        rwa [htl] at this
      rw [he, ← hr, List.take_append_drop]
    · exact absurd h (by simp)

theorem len_exp (n : Nat) (h : n ≤ INT32_MAX) :
    intWidthExp (n : Int) ≤ 2 ∧ int64Min ≤ (n : Int) ∧ (n : Int) ≤ int64Max := by
  unfold INT32_MAX at h
  unfold int64Min int64Max
  rcases intWidthExp_eq (n : Int) with ⟨e, _⟩ | ⟨e, _⟩ | ⟨e, _⟩ | ⟨e, h0⟩ <;> omega

theorem exp_len (i : Int) (h : intWidthExp i ≤ 2) : i ≤ 2147483647 := by
  rcases intWidthExp_eq i with ⟨e, _⟩ | ⟨e, _⟩ | ⟨e, _⟩ | ⟨e, h0⟩ <;> omega

/-! ### length-prefixed blobs -/

theorem decBlob_enc (s rest : Bytes) (h : s.length ≤ INT32_MAX) :
    decBlob (intWidthExp (s.length : Int)) (encIntBody (s.length : Int) ++ (s ++ rest)) = some (s, rest) := by
  unfold decBlob
  rw [decIntBody_enc _ (len_exp _ h).2]
  simp

theorem decBlob_inv (k : Nat) (b s r : Bytes) (hk : k ≤ 2) (h : decBlob k b = some (s, r)) :
    b = encIntBody (s.length : Int) ++ (s ++ r) ∧ intWidthExp (s.length : Int) = k ∧ s.length ≤ INT32_MAX := by
  unfold decBlob at h
  split at h
  · exact absurd h (by simp)
  · rename_i i r' hd
    obtain ⟨hb, hke, _⟩ := decIntBody_inv k b i r' hd
    split at h
    · exact absurd h (by simp)
    · rename_i hneg
      split at h
      · exact absurd h (by simp)
      · rename_i hlen
        simp only [Option.some.injEq, Prod.mk.injEq] at h
        obtain ⟨hs, hr⟩ := h
        have hl : s.length = i.toNat := by rw [← hs, List.length_take]; omega
        have hi : ((s.length : Nat) : Int) = i := by rw [hl]; omega
        have hmax := exp_len i (by omega)
        refine ⟨?_, by rw [hi]; exact hke, by unfold INT32_MAX; omega⟩
        rw [hi, hb, ← hs, ← hr, List.take_append_drop]

/-! ### one step of `decValue`, by tag -/

theorem decValue_int_tag (f k : Nat) (r : Bytes) (hk : k ≤ 3) (i : Int) (r' : Bytes)
    (hd : decIntBody k r = some (i, r')) :
    decValue (f+1) ((0x10 + UInt8.ofNat k) :: r) = some (.int i, r') := by
  have : k = 0 ∨ k = 1 ∨ k = 2 ∨ k = 3 := by omega
  rcases this with rfl | rfl | rfl | rfl <;> simp [decValue_succ_cons, hd]

theorem decValue_str_tag (f k : Nat) (r : Bytes) (hk : k ≤ 2) (s : Bytes) (r' : Bytes)
    (hd : decBlob k r = some (s, r')) :
    decValue (f+1) ((0x14 + UInt8.ofNat k) :: r) = some (.str s, r') := by
  have : k = 0 ∨ k = 1 ∨ k = 2 := by omega
  rcases this with rfl | rfl | rfl <;> simp [decValue_succ_cons, hd]

theorem decValue_bytes_tag (f k : Nat) (r : Bytes) (hk : k ≤ 2) (s : Bytes) (r' : Bytes)
    (hd : decBlob k r = some (s, r')) :
    decValue (f+1) ((0x18 + UInt8.ofNat k) :: r) = some (.bytes s, r') := by
  have : k = 0 ∨ k = 1 ∨ k = 2 := by omega
  rcases this with rfl | rfl | rfl <;> simp [decValue_succ_cons, hd]

theorem decValue_nil (f : Nat) : decValue f [] = none := by
  cases f <;> simp [decValue]

theorem decValue_zero (b : Bytes) : decValue 0 b = none := by
  rw [decValue]

theorem decValue_head_ne (f : Nat) (t : UInt8) (r : Bytes) (x : Value × Bytes)
    (h : decValue f (t :: r) = some x) : t ≠ 0x43 := by
  intro e
  subst e
  cases f with
  | zero => rw [decValue_zero] at h; exact absurd h (by simp)
  | succ f => simp [decValue_succ_cons] at h

theorem decValue_dbl_tag (f : Nat) (bits : UInt64) (rest : Bytes) :
    decValue (f+1) (0x46 :: (leBytes 8 bits.toNat ++ rest)) = some (.dbl bits, rest) := by
  have hl : (leBytes 8 bits.toNat).length = 8 := leBytes_length _ _
  have h1 : ¬ ((leBytes 8 bits.toNat ++ rest).length < 8) := by
    rw [List.length_append]; omega
  have h2 : (leBytes 8 bits.toNat ++ rest).take 8 = leBytes 8 bits.toNat := by
    conv => lhs; arg 1; rw [← hl]
    simp
  have h3 : (leBytes 8 bits.toNat ++ rest).drop 8 = rest := by
    conv => lhs; arg 1; rw [← hl]
    simp
  have h4 : leNatL (leBytes 8 bits.toNat) = bits.toNat := by
    rw [leNatL_leBytes]
    exact Nat.mod_eq_of_lt (by have := bits.toNat_lt; omega)
  rw [decValue_succ_cons, if_neg (by decide), if_neg (by decide), if_pos rfl, if_neg h1, h2, h3, h4,
    UInt64.ofNat_toNat]

theorem encStr_append (base : UInt8) (s rest : Bytes) :
    encStr base s ++ rest =
      (base + UInt8.ofNat (intWidthExp (s.length : Int))) :: (encIntBody (s.length : Int) ++ (s ++ rest)) := by
  simp [encStr, encInt]

theorem encode_length_pos (v : Value) : 1 ≤ (encode v).length := by
  cases v <;> simp [encode, encStr, encInt] <;> omega

/-! ### one step of `decElems` / `decFields` -/

theorem decElems_succ_cons (f : Nat) (t : UInt8) (r : Bytes) :
    decElems (f+1) (t :: r) =
    if t = 0x43 then some (.nil, r) else
    match decValue f (t :: r) with
    | none => none
    | some (v, r') =>
      match decElems f r' with
      | none => none
      | some (xs, r'') => some (.cons v xs, r'') := by
  rw [decElems]; rfl

-- `decBlob` is sealed here: otherwise the defeq check tries to evaluate it on an open term
section
attribute [local irreducible] decBlob nameAfter
theorem decFields_succ_cons (f : Nat) (prev : Option Bytes) (t : UInt8) (r : Bytes) :
    decFields (f+1) prev (t :: r) =
    if t = 0x41 then some (.nil, r) else
    if 0x14 ≤ t ∧ t ≤ 0x16 then
      match decBlob (t.toNat - 0x14) r with
      | none => none
      | some (n, r') =>
        if !nameAfter prev n then none else
        match decValue f r' with
        | none => none
        | some (v, r'') =>
          match decFields f (some n) r'' with
          | none => none
          | some (fs, r''') => some (.cons n v fs, r''')
    else none := rfl
end

theorem decElems_cons_step (f : Nat) (b : Bytes) (v : Value) (r' : Bytes) (xs : Elems) (r'' : Bytes)
    (hv : decValue f b = some (v, r')) (hx : decElems f r' = some (xs, r'')) :
    decElems (f+1) b = some (.cons v xs, r'') := by
  cases b with
  | nil => rw [decValue_nil] at hv; exact absurd hv (by simp)
  | cons t r =>
    have ht := decValue_head_ne f t r _ hv
    rw [decElems_succ_cons, if_neg ht, hv]
    simp only [hx]

theorem decFields_cons_step (f : Nat) (prev : Option Bytes) (k : Nat) (r n r' : Bytes) (v : Value)
    (r'' : Bytes) (fs : Fields) (r''' : Bytes) (hk : k ≤ 2)
    (hb : decBlob k r = some (n, r')) (hn : nameAfter prev n = true)
    (hv : decValue f r' = some (v, r'')) (hfs : decFields f (some n) r'' = some (fs, r''')) :
    decFields (f+1) prev ((0x14 + UInt8.ofNat k) :: r) = some (.cons n v fs, r''') := by
  have : k = 0 ∨ k = 1 ∨ k = 2 := by omega
  rcases this with rfl | rfl | rfl <;> simp [decFields_succ_cons, hb, hn, hv, hfs]

/-! ### completeness: the decoder accepts every canonical encoding of a well-formed value -/

mutual
theorem decValue_enc : (v : Value) → (f : Nat) → (rest : Bytes) → (encode v).length ≤ f →
    wfValue v = true → decValue f (encode v ++ rest) = some (v, rest)
  | .bool b, f, rest, hf, _ => by
    cases f with
    | zero => simp [encode] at hf
    | succ f => cases b <;> simp [encode, decValue_succ_cons]
  | .int i, f, rest, hf, hw => by
    cases f with
    | zero => simp [encode, encInt] at hf
    | succ f =>
      simp only [wfValue, decide_eq_true_eq] at hw
      simp only [encode, encInt, List.cons_append]
      exact decValue_int_tag f _ _ (intWidthExp_le_three i) i rest (decIntBody_enc i hw rest)
  | .dbl bits, f, rest, hf, _ => by
    cases f with
    | zero => simp [encode] at hf
    | succ f =>
      simp only [encode, List.cons_append]
      exact decValue_dbl_tag f bits rest
  | .str s, f, rest, hf, hw => by
    cases f with
    | zero => simp [encode, encStr, encInt] at hf
    | succ f =>
      simp only [wfValue, decide_eq_true_eq] at hw
      simp only [encode, encStr_append]
      exact decValue_str_tag f _ _ (len_exp _ hw).1 s rest (decBlob_enc s rest hw)
  | .bytes s, f, rest, hf, hw => by
    cases f with
    | zero => simp [encode, encStr, encInt] at hf
    | succ f =>
      simp only [wfValue, decide_eq_true_eq] at hw
      simp only [encode, encStr_append]
      exact decValue_bytes_tag f _ _ (len_exp _ hw).1 s rest (decBlob_enc s rest hw)
  | .arr xs, f, rest, hf, hw => by
    cases f with
    | zero => simp [encode] at hf
    | succ f =>
      simp only [wfValue] at hw
      simp only [encode, List.length_cons, List.length_append, List.length_nil] at hf
      have ih := decElems_enc xs f rest (by omega) hw
      simp only [encode, List.cons_append, List.append_assoc, List.nil_append]
      rw [decValue_succ_cons]
      simp [ih]
  | .obj fs, f, rest, hf, hw => by
    cases f with
    | zero => simp [encode] at hf
    | succ f =>
      simp only [wfValue] at hw
      simp only [encode, List.length_cons, List.length_append, List.length_nil] at hf
      have ih := decFields_enc fs f none rest (by omega) hw
      simp only [encode, List.cons_append, List.append_assoc, List.nil_append]
      rw [decValue_succ_cons]
      simp [ih]
theorem decElems_enc : (xs : Elems) → (f : Nat) → (rest : Bytes) → (encElems xs).length < f →
    wfElems xs = true → decElems f (encElems xs ++ 0x43 :: rest) = some (xs, rest)
  | .nil, f, rest, hf, _ => by
    cases f with
    | zero => omega
    | succ f => simp [encElems, decElems_succ_cons]
  | .cons v xs, f, rest, hf, hw => by
    cases f with
    | zero => omega
    | succ f =>
      simp only [wfElems, Bool.and_eq_true] at hw
      simp only [encElems, List.length_append] at hf
      have hp := encode_length_pos v
      have ihv := decValue_enc v f (encElems xs ++ 0x43 :: rest) (by omega) hw.1
      have ihx := decElems_enc xs f rest (by omega) hw.2
      simp only [encElems, List.append_assoc]
      exact decElems_cons_step f _ v _ xs rest ihv ihx
theorem decFields_enc : (fs : Fields) → (f : Nat) → (prev : Option Bytes) → (rest : Bytes) →
    (encFields fs).length < f → wfFields prev fs = true →
    decFields f prev (encFields fs ++ 0x41 :: rest) = some (fs, rest)
  | .nil, f, prev, rest, hf, _ => by
    cases f with
    | zero => omega
    | succ f => simp [encFields, decFields_succ_cons]
  | .cons n v fs, f, prev, rest, hf, hw => by
    cases f with
    | zero => omega
    | succ f =>
      simp only [wfFields, Bool.and_eq_true, decide_eq_true_eq] at hw
      obtain ⟨⟨⟨hna, hnl⟩, hwv⟩, hwf⟩ := hw
      simp only [encFields, List.length_append] at hf
      have hp : 1 ≤ (encStr 0x14 n).length := by simp [encStr, encInt]
      have ihv := decValue_enc v f (encFields fs ++ 0x41 :: rest) (by omega) hwv
      have ihf := decFields_enc fs f (some n) rest (by omega) hwf
      simp only [encFields, List.append_assoc]
      rw [encStr_append]
      exact decFields_cons_step f prev _ _ n _ v _ fs rest (len_exp _ hnl).1
        (decBlob_enc n _ hnl) hna ihv ihf
end

/-! ### soundness: whatever the decoder accepts is the canonical encoding of a well-formed value -/

theorem tag_inv_nat (t : UInt8) (b n : Nat) (hb : b + n < 256)
    (h1 : UInt8.ofNat b ≤ t) (h2 : t ≤ UInt8.ofNat (b + n)) :
    t = UInt8.ofNat b + UInt8.ofNat (t.toNat - b) ∧ t.toNat - b ≤ n := by
  rw [UInt8.le_iff_toNat_le, UInt8.toNat_ofNat'] at h1 h2
  refine ⟨?_, by omega⟩
  apply UInt8.toNat_inj.mp
  rw [UInt8.toNat_add, UInt8.toNat_ofNat', UInt8.toNat_ofNat']
  omega

theorem int_sound (t : UInt8) (r : Bytes) (i : Int) (r' : Bytes) (ht : 0x10 ≤ t ∧ t ≤ 0x13)
    (hd : decIntBody (t.toNat - 0x10) r = some (i, r')) :
    (int64Min ≤ i ∧ i ≤ int64Max) ∧ t :: r = encInt 0x10 i ++ r' := by
  obtain ⟨e, _⟩ := tag_inv_nat t 0x10 3 (by omega) ht.1 ht.2
  obtain ⟨hr, hk, hi⟩ := decIntBody_inv _ _ _ _ hd
  refine ⟨hi, ?_⟩
  rw [encInt, List.cons_append, hk, ← hr]
  exact congrArg (· :: r) e

theorem blob_sound (base : UInt8) (b : Nat) (hb : b + 2 < 256) (hbase : base = UInt8.ofNat b)
    (t : UInt8) (r s r' : Bytes)
    (h1 : UInt8.ofNat b ≤ t) (h2 : t ≤ UInt8.ofNat (b + 2))
    (hd : decBlob (t.toNat - b) r = some (s, r')) :
    s.length ≤ INT32_MAX ∧ t :: r = encStr base s ++ r' := by
  obtain ⟨e, hk2⟩ := tag_inv_nat t b 2 hb h1 h2
  obtain ⟨hr, hk, hl⟩ := decBlob_inv _ _ _ _ hk2 hd
  refine ⟨hl, ?_⟩
  rw [encStr_append, hk, ← hr, hbase]
  exact congrArg (· :: r) e

theorem decElems_zero (b : Bytes) : decElems 0 b = none := by
  rw [decElems]

theorem decElems_nil (f : Nat) : decElems f [] = none := by
  cases f <;> simp [decElems]

theorem decFields_zero (prev : Option Bytes) (b : Bytes) : decFields 0 prev b = none := rfl

theorem decFields_nil (f : Nat) (prev : Option Bytes) : decFields f prev [] = none := by
  cases f <;> rfl

theorem dbl_sound (r : Bytes) (h : ¬ r.length < 8) :
    0x46 :: r = encode (.dbl (UInt64.ofNat (leNatL (r.take 8)))) ++ r.drop 8 := by
  have htl : (r.take 8).length = 8 := by rw [List.length_take]; omega
  have hn : leNatL (r.take 8) < 2 ^ 64 := by
    have := leNatL_lt (r.take 8); rw [htl] at this; exact this
  have h1 : (UInt64.ofNat (leNatL (r.take 8))).toNat = leNatL (r.take 8) := by
    rw [UInt64.toNat_ofNat']; exact Nat.mod_eq_of_lt hn
  have h2 := leBytes_leNatL (r.take 8)
  rw [htl] at h2
  simp only [encode, h1, h2, List.cons_append, List.take_append_drop]

theorem dec_sound (f : Nat) :
    (∀ b v rest, decValue f b = some (v, rest) → wfValue v = true ∧ b = encode v ++ rest) ∧
    (∀ b xs rest, decElems f b = some (xs, rest) → wfElems xs = true ∧ b = encElems xs ++ 0x43 :: rest) ∧
    (∀ prev b fs rest, decFields f prev b = some (fs, rest) →
      wfFields prev fs = true ∧ b = encFields fs ++ 0x41 :: rest) := by
  induction f with
  | zero =>
    refine ⟨?_, ?_, ?_⟩
    · intro b v rest h; rw [decValue_zero] at h; exact absurd h (by simp)
    · intro b xs rest h; rw [decElems_zero] at h; exact absurd h (by simp)
    · intro prev b fs rest h; rw [decFields_zero] at h; exact absurd h (by simp)
  | succ f ih =>
    obtain ⟨ihV, ihE, ihF⟩ := ih
    refine ⟨?_, ?_, ?_⟩
    · intro b v rest h
      cases b with
      | nil => rw [decValue_nil] at h; exact absurd h (by simp)
      | cons t r =>
        rw [decValue_succ_cons] at h
        split at h
        · rename_i ht
          simp only [Option.some.injEq, Prod.mk.injEq] at h
          obtain ⟨rfl, rfl⟩ := h
          subst ht
          simp [wfValue, encode]
        split at h
        · rename_i ht
          simp only [Option.some.injEq, Prod.mk.injEq] at h
          obtain ⟨rfl, rfl⟩ := h
          subst ht
          simp [wfValue, encode]
        split at h
        · rename_i ht
          subst ht
          split at h
          · exact absurd h (by simp)
          · rename_i hl
            simp only [Option.some.injEq, Prod.mk.injEq] at h
            obtain ⟨rfl, rfl⟩ := h
            exact ⟨by simp [wfValue], dbl_sound r hl⟩
        split at h
        · rename_i ht
          split at h
          · rename_i i r' hd
            simp only [Option.some.injEq, Prod.mk.injEq] at h
            obtain ⟨rfl, rfl⟩ := h
            obtain ⟨hi, he⟩ := int_sound t r i r' ht hd
            exact ⟨by simp only [wfValue, decide_eq_true_eq]; exact hi, by rw [he, encode]⟩
          · exact absurd h (by simp)
        split at h
        · rename_i ht
          split at h
          · rename_i s r' hd
            simp only [Option.some.injEq, Prod.mk.injEq] at h
            obtain ⟨rfl, rfl⟩ := h
            obtain ⟨hi, he⟩ := blob_sound 0x14 0x14 (by omega) rfl t r s r' ht.1 ht.2 hd
            exact ⟨by simp only [wfValue, decide_eq_true_eq]; exact hi, by rw [he, encode]⟩
          · exact absurd h (by simp)
        split at h
        · rename_i ht
          split at h
          · rename_i s r' hd
            simp only [Option.some.injEq, Prod.mk.injEq] at h
            obtain ⟨rfl, rfl⟩ := h
            obtain ⟨hi, he⟩ := blob_sound 0x18 0x18 (by omega) rfl t r s r' ht.1 ht.2 hd
            exact ⟨by simp only [wfValue, decide_eq_true_eq]; exact hi, by rw [he, encode]⟩
          · exact absurd h (by simp)
        split at h
        · rename_i ht
          subst ht
          split at h
          · rename_i xs r' hd
            simp only [Option.some.injEq, Prod.mk.injEq] at h
            obtain ⟨rfl, rfl⟩ := h
            obtain ⟨hw, he⟩ := ihE _ _ _ hd
            exact ⟨by simp only [wfValue]; exact hw, by rw [he]; simp [encode]⟩
          · exact absurd h (by simp)
        split at h
        · rename_i ht
          subst ht
          split at h
          · rename_i fs r' hd
            simp only [Option.some.injEq, Prod.mk.injEq] at h
            obtain ⟨rfl, rfl⟩ := h
            obtain ⟨hw, he⟩ := ihF _ _ _ _ hd
            exact ⟨by simp only [wfValue]; exact hw, by rw [he]; simp [encode]⟩
          · exact absurd h (by simp)
        · exact absurd h (by simp)
    · intro b xs rest h
      cases b with
      | nil => rw [decElems_nil] at h; exact absurd h (by simp)
      | cons t r =>
        rw [decElems_succ_cons] at h
        split at h
        · rename_i ht
          simp only [Option.some.injEq, Prod.mk.injEq] at h
          obtain ⟨rfl, rfl⟩ := h
          subst ht
          simp [wfElems, encElems]
        · split at h
          · exact absurd h (by simp)
          · rename_i v r' hv
            split at h
            · exact absurd h (by simp)
            · rename_i xs' r'' hx
              simp only [Option.some.injEq, Prod.mk.injEq] at h
              obtain ⟨rfl, rfl⟩ := h
              obtain ⟨hwv, hev⟩ := ihV _ _ _ hv
              obtain ⟨hwx, hex⟩ := ihE _ _ _ hx
              refine ⟨by simp [wfElems, hwv, hwx], ?_⟩
              rw [hev, hex]; simp [encElems]
    · intro prev b fs rest h
      cases b with
      | nil => rw [decFields_nil] at h; exact absurd h (by simp)
      | cons t r =>
        rw [decFields_succ_cons] at h
        split at h
        · rename_i ht
          simp only [Option.some.injEq, Prod.mk.injEq] at h
          obtain ⟨rfl, rfl⟩ := h
          subst ht
          simp [wfFields, encFields]
        · split at h
          · rename_i ht
            split at h
            · exact absurd h (by simp)
            · rename_i n r' hd
              split at h
              · exact absurd h (by simp)
              · rename_i hna
                split at h
                · exact absurd h (by simp)
                · rename_i v r'' hv
                  split at h
                  · exact absurd h (by simp)
                  · rename_i fs' r''' hfs
                    simp only [Option.some.injEq, Prod.mk.injEq] at h
                    obtain ⟨rfl, rfl⟩ := h
                    obtain ⟨hnl, hen⟩ := blob_sound 0x14 0x14 (by omega) rfl t r n r' ht.1 ht.2 hd
                    obtain ⟨hwv, hev⟩ := ihV _ _ _ hv
                    obtain ⟨hwf, hef⟩ := ihF _ _ _ _ hfs
                    have hna' : nameAfter prev n = true := by
                      cases hq : nameAfter prev n with
                      | true => rfl
                      | false => rw [hq] at hna; exact absurd rfl hna
                    refine ⟨by simp [wfFields, hna', hnl, hwv, hwf], ?_⟩
                    rw [hen, hev, hef]; simp [encFields]
          · exact absurd h (by simp)

/-! ### the reference decoder characterises canonical encodings -/

/-- completeness: every well-formed value decodes from its encoding -/
theorem decodeRef_encode (v : Value) (h : wfValue v = true) : decodeRef (encode v) = some v := by
  have := decValue_enc v ((encode v).length + 1) [] (by omega) h
  rw [List.append_nil] at this
  unfold decodeRef
  rw [this]

/-- soundness: an accepted byte string is the encoding of a well-formed value -/
theorem decodeRef_sound (b : Bytes) (v : Value) (h : decodeRef b = some v) :
    wfValue v = true ∧ encode v = b := by
  unfold decodeRef at h
  split at h
  · rename_i v' hd
    simp only [Option.some.injEq] at h
    subst h
    obtain ⟨hw, he⟩ := (dec_sound _).1 _ _ _ hd
    exact ⟨hw, by rw [he, List.append_nil]⟩
  · exact absurd h (by simp)

theorem decodeRef_iff (b : Bytes) (v : Value) :
    decodeRef b = some v ↔ (wfValue v = true ∧ encode v = b) :=
  ⟨decodeRef_sound b v, fun ⟨hw, he⟩ => he ▸ decodeRef_encode v hw⟩

/-- the encoding of well-formed values is prefix-free (hence self-delimiting) -/
theorem encode_prefix_free (v v' : Value) (r r' : Bytes) (h : wfValue v = true) (h' : wfValue v' = true)
    (e : encode v ++ r = encode v' ++ r') : v = v' ∧ r = r' := by
  have h1 := decValue_enc v ((encode v).length + (encode v').length) r (by omega) h
  have h2 := decValue_enc v' ((encode v).length + (encode v').length) r' (by omega) h'
  rw [e, h2] at h1
  simp only [Option.some.injEq, Prod.mk.injEq] at h1
  exact ⟨h1.1.symm, h1.2.symm⟩

theorem encode_injective (v v' : Value) (h : wfValue v = true) (h' : wfValue v' = true)
    (e : encode v = encode v') : v = v' :=
  (encode_prefix_free v v' [] [] h h' (by rw [e])).1

end Binson
