/-
  Soundness of verify, part 3: the zipper. A context is the stack of open containers with
  their completed children, grouped by parser level: each level holds one open object (or,
  for the bottom level of an array-rooted parser, nothing) and the arrays opened on top of it.
  Pure data: encoding of a context, and closing containers into values.
-/
import Binson.Spec.Value
namespace Binson

/-- completed elements, newest first, onto an accumulator -/
def toElems : List Value → Elems → Elems
  | [], acc => acc
  | v :: r, acc => toElems r (.cons v acc)

/-- completed fields, newest first, onto an accumulator -/
def toFields : List (Bytes × Value) → Fields → Fields
  | [], acc => acc
  | (n, v) :: r, acc => toFields r (.cons n v acc)

def encRevE : List Value → Bytes
  | [] => []
  | v :: r => encRevE r ++ encode v

def encRevF : List (Bytes × Value) → Bytes
  | [] => []
  | (n, v) :: r => encRevF r ++ (encStr 0x14 n ++ encode v)

theorem encElems_toElems (l : List Value) (acc : Elems) : encElems (toElems l acc) = encRevE l ++ encElems acc := by
  induction l generalizing acc with
  | nil => simp [toElems, encRevE]
  | cons v r ih => simp [toElems, encRevE, ih, encElems]

theorem encFields_toFields (l : List (Bytes × Value)) (acc : Fields) :
    encFields (toFields l acc) = encRevF l ++ encFields acc := by
  induction l generalizing acc with
  | nil => simp [toFields, encRevF]
  | cons x r ih =>
    obtain ⟨n, v⟩ := x
    simp [toFields, encRevF, ih, encFields]

/-- one parser level: an open object (unless `virt`) and the arrays open on top of it -/
structure Grp where
  virt : Bool                       -- bottom level of an array-rooted parser: no object
  fs : List (Bytes × Value)         -- completed fields, newest first
  pend : Option Bytes               -- a name whose value is not complete yet
  arrs : List (List Value)          -- open arrays, innermost first; completed elements newest first

def encArrs : List (List Value) → Bytes
  | [] => []
  | a :: as => encArrs as ++ (0x42 :: encRevE a)

def encPend : Option Bytes → Bytes
  | none => []
  | some n => encStr 0x14 n

def encGrp (g : Grp) : Bytes :=
  (if g.virt then [] else 0x40 :: (encRevF g.fs ++ encPend g.pend)) ++ encArrs g.arrs

/-- everything consumed so far; the stack is innermost first -/
def encGs : List Grp → Bytes
  | [] => []
  | g :: r => encGs r ++ encGrp g

/-- a value has been completed in the innermost open container of the level -/
def addVal (g : Grp) (v : Value) : Grp :=
  match g.arrs with
  | a :: as => { g with arrs := (v :: a) :: as }
  | [] =>
    match g.pend with
    | some n => { g with fs := (n, v) :: g.fs, pend := none }
    | none => g

def newGrp : Grp := ⟨false, [], none, []⟩
def rootArrGrp : Grp := ⟨true, [], none, [[]]⟩

theorem encGrp_new : encGrp newGrp = [0x40] := rfl
theorem encGrp_rootArr : encGrp rootArrGrp = [0x42] := rfl

theorem encGrp_addVal (g : Grp) (v : Value) (h : g.arrs = [] → g.virt = false ∧ ∃ n, g.pend = some n) :
    encGrp (addVal g v) = encGrp g ++ encode v := by
  unfold addVal
  cases ha : g.arrs with
  | cons a as => simp [encGrp, encArrs, encRevE, ha]
  | nil =>
    obtain ⟨hv, n, hn⟩ := h ha
    simp [encGrp, encArrs, encRevF, encPend, ha, hn, hv]

theorem encGrp_name (g : Grp) (n : Bytes) (hv : g.virt = false) (ha : g.arrs = []) (hp : g.pend = none) :
    encGrp { g with pend := some n } = encGrp g ++ encStr 0x14 n := by
  simp [encGrp, encArrs, encPend, ha, hp, hv]

theorem encGrp_openArr (g : Grp) : encGrp { g with arrs := [] :: g.arrs } = encGrp g ++ [0x42] := by
  simp [encGrp, encArrs, encRevE]

/-- closing the innermost array of a level -/
theorem encGrp_closeArr (g : Grp) (a : List Value) (as : List (List Value)) (ha : g.arrs = a :: as) :
    encGrp g ++ [0x43] = encGrp { g with arrs := as } ++ encode (.arr (toElems a .nil)) := by
  simp [encGrp, encArrs, ha, encode, encElems_toElems, encElems]

/-- closing the object of a level -/
theorem encGrp_closeObj (g : Grp) (hv : g.virt = false) (ha : g.arrs = []) (hp : g.pend = none) :
    encGrp g ++ [0x41] = encode (.obj (toFields g.fs .nil)) := by
  simp [encGrp, encArrs, encPend, ha, hp, hv, encode, encFields_toFields, encFields]

/-! ### well-formedness and depth budgets of the completed parts -/

def topName : List (Bytes × Value) → Option Bytes
  | [] => none
  | (n, _) :: _ => some n

/-- completed fields: names strictly ascending (newest first = descending), everything
    well-formed and within the budget of `D` unused state entries -/
def FsOk (D : Nat) : List (Bytes × Value) → Prop
  | [] => True
  | (n, v) :: r => nameAfter (topName r) n = true ∧ n.length ≤ INT32_MAX ∧ wfValue v = true ∧ fits D 255 v = true ∧ FsOk D r

def ElOk (D a : Nat) (l : List Value) : Prop := ∀ v ∈ l, wfValue v = true ∧ fits D a v = true

/-- open arrays of a level: at most 255, the elements of the `k`-th (from outside) fit `255 - k` -/
def ArrsOk (D : Nat) : List (List Value) → Prop
  | [] => True
  | a :: as => as.length + 1 ≤ 255 ∧ ElOk D (255 - (as.length + 1)) a ∧ ArrsOk D as

structure GrpOk (D : Nat) (g : Grp) : Prop where
  fs : FsOk D g.fs
  pend : ∀ n, g.pend = some n → nameAfter (topName g.fs) n = true ∧ n.length ≤ INT32_MAX
  arrs : ArrsOk D g.arrs
  virtArr : g.virt = true → g.arrs ≠ []
  arrPend : g.virt = false → g.arrs ≠ [] → ∃ n, g.pend = some n

theorem wfFields_toFields (D : Nat) (l : List (Bytes × Value)) (acc : Fields) (h : FsOk D l)
    (hacc : wfFields (topName l) acc = true) : wfFields none (toFields l acc) = true := by
  induction l generalizing acc with
  | nil => simpa [toFields, topName] using hacc
  | cons x r ih =>
    obtain ⟨n, v⟩ := x
    obtain ⟨h1, h2, h3, _, h5⟩ := h
    simp only [toFields]
    apply ih _ h5
    simp only [wfFields, Bool.and_eq_true, decide_eq_true_eq]
    exact ⟨⟨⟨h1, h2⟩, h3⟩, by simpa [topName] using hacc⟩

theorem fitsF_toFields (D : Nat) (l : List (Bytes × Value)) (acc : Fields) (h : FsOk D l)
    (hacc : fitsF D acc = true) : fitsF D (toFields l acc) = true := by
  induction l generalizing acc with
  | nil => simpa [toFields] using hacc
  | cons x r ih =>
    obtain ⟨n, v⟩ := x
    obtain ⟨_, _, _, h4, h5⟩ := h
    simp only [toFields]
    apply ih _ h5
    simp only [fitsF, Bool.and_eq_true]
    exact ⟨h4, hacc⟩

theorem wfElems_toElems (D a : Nat) (l : List Value) (acc : Elems) (h : ElOk D a l)
    (hacc : wfElems acc = true) : wfElems (toElems l acc) = true := by
  induction l generalizing acc with
  | nil => simpa [toElems] using hacc
  | cons v r ih =>
    simp only [toElems]
    apply ih _ (fun x hx => h x (List.mem_cons_of_mem _ hx))
    simp only [wfElems, Bool.and_eq_true]
    exact ⟨(h v List.mem_cons_self).1, hacc⟩

theorem fitsE_toElems (D a : Nat) (l : List Value) (acc : Elems) (h : ElOk D a l)
    (hacc : fitsE D a acc = true) : fitsE D a (toElems l acc) = true := by
  induction l generalizing acc with
  | nil => simpa [toElems] using hacc
  | cons v r ih =>
    simp only [toElems]
    apply ih _ (fun x hx => h x (List.mem_cons_of_mem _ hx))
    simp only [fitsE, Bool.and_eq_true]
    exact ⟨(h v List.mem_cons_self).2, hacc⟩

/-- the array value a closed array frame becomes -/
theorem closeArr_ok (D : Nat) (a : List Value) (as : List (List Value)) (h : ArrsOk D (a :: as)) :
    wfValue (.arr (toElems a .nil)) = true ∧ fits D (255 - as.length) (.arr (toElems a .nil)) = true ∧ ArrsOk D as := by
  obtain ⟨h1, h2, h3⟩ := h
  refine ⟨?_, ?_, h3⟩
  · simp only [wfValue]
    exact wfElems_toElems D _ a .nil h2 rfl
  · simp only [fits, Bool.and_eq_true, decide_eq_true_eq]
    refine ⟨by omega, ?_⟩
    have : 255 - as.length - 1 = 255 - (as.length + 1) := by omega
    rw [this]
    exact fitsE_toElems D _ a .nil h2 rfl

/-- the object value a closed object frame becomes, seen from the level below (budget `D + 1`) -/
theorem closeObj_ok (D a : Nat) (g : Grp) (h : GrpOk D g) :
    wfValue (.obj (toFields g.fs .nil)) = true ∧ fits (D + 1) a (.obj (toFields g.fs .nil)) = true := by
  refine ⟨?_, ?_⟩
  · simp only [wfValue]
    exact wfFields_toFields D g.fs .nil h.fs (by simp [wfFields])
  · simp only [fits, Bool.and_eq_true, decide_eq_true_eq, Nat.add_sub_cancel]
    exact ⟨by omega, fitsF_toFields D g.fs .nil h.fs rfl⟩

theorem GrpOk_new (D : Nat) : GrpOk D newGrp :=
  ⟨trivial, fun n h => by simp [newGrp] at h, trivial, fun h => by simp [newGrp] at h, fun _ h => absurd rfl h⟩

theorem GrpOk_rootArr (D : Nat) : GrpOk D rootArrGrp :=
  ⟨trivial, fun n h => by simp [rootArrGrp] at h, ⟨by simp, fun v hv => by simp at hv, trivial⟩,
    fun _ => by simp [rootArrGrp], fun h => by simp [rootArrGrp] at h⟩

theorem GrpOk_addVal (D : Nat) (g : Grp) (v : Value) (h : GrpOk D g) (hp : g.arrs = [] → ∃ n, g.pend = some n)
    (hw : wfValue v = true) (hf : fits D (255 - g.arrs.length) v = true) : GrpOk D (addVal g v) := by
  unfold addVal
  cases ha : g.arrs with
  | cons a as =>
    have harr := h.arrs
    rw [ha] at harr hf
    obtain ⟨h1, h2, h3⟩ := harr
    refine ⟨h.fs, h.pend, ⟨h1, ?_, h3⟩, fun _ => by simp, fun hv _ => h.arrPend hv (by rw [ha]; simp)⟩
    intro x hx
    rcases List.mem_cons.mp hx with rfl | hx
    · exact ⟨hw, hf⟩
    · exact h2 x hx
  | nil =>
    obtain ⟨n, hn⟩ := hp ha
    rw [ha] at hf
    simp only [hn]
    have hpn := h.pend n hn
    refine ⟨⟨hpn.1, hpn.2, hw, by simpa using hf, h.fs⟩, fun m hm => by simp at hm, trivial,
      fun hv => absurd ha (h.virtArr hv), fun _ hne => absurd rfl hne⟩

theorem GrpOk_name (D : Nat) (g : Grp) (n : Bytes) (h : GrpOk D g) (ha : g.arrs = [])
    (hn : nameAfter (topName g.fs) n = true) (hl : n.length ≤ INT32_MAX) : GrpOk D { g with pend := some n } :=
  ⟨h.fs, fun m hm => by simp at hm; subst hm; exact ⟨hn, hl⟩, h.arrs, h.virtArr, fun _ hne => absurd ha hne⟩

theorem GrpOk_openArr (D : Nat) (g : Grp) (h : GrpOk D g) (hlen : g.arrs.length < 255)
    (hp : g.virt = false → ∃ n, g.pend = some n) : GrpOk D { g with arrs := [] :: g.arrs } :=
  ⟨h.fs, h.pend, ⟨by omega, fun v hv => by simp at hv, h.arrs⟩, fun _ => by simp, fun hv _ => hp hv⟩

theorem GrpOk_dropArr (D : Nat) (g : Grp) (a : List Value) (as : List (List Value)) (h : GrpOk D g) (ha : g.arrs = a :: as)
    (hv : g.virt = true → as ≠ []) : GrpOk D { g with arrs := as } := by
  have harr := h.arrs
  rw [ha] at harr
  exact ⟨h.fs, h.pend, harr.2.2, hv, fun hvf _ => h.arrPend hvf (by rw [ha]; simp)⟩

/-- the name the next field name of the level is compared with -/
def lastName (g : Grp) : Option Bytes :=
  match g.pend with
  | some n => some n
  | none => topName g.fs

theorem lastName_addVal (g : Grp) (v : Value) : lastName (addVal g v) = lastName g := by
  unfold addVal
  cases ha : g.arrs with
  | cons a as => rfl
  | nil =>
    cases hp : g.pend with
    | none => rfl
    | some n => simp [lastName, hp, topName]

end Binson
