/-
  Layer 4, part 3: closed forms of ONE loop iteration for the tokens the navigation calls meet
  AT the originating level (and, being stated over the outcome of the two flag blocks, anywhere):
  value tokens and field names. The END tokens are in `NavTokEnd.lean`.
-/
import Binson.Lemmas.NavRun
namespace Binson

/-- the proceed test of `finish` -/
def outOf (s : Option Scan) : Out := if has s [.verify, .leaveObj, .value, .leaveArr] then .cont else .stop

/-- what one iteration did to the parser -/
structure StepRes (st st' : LoopSt) (du : Nat) (scan' : Option Scan) (dep' : Nat) (lv : Nat → Level) : Prop where
  shape : Shape st'.p
  err : st'.p.err = .none
  scan : st'.scan = scan'
  used : st'.p.used = st.p.used + du
  depth : st'.p.depth = dep'
  frame : st.p.Frame st'.p
  lvl : ∀ i, st'.p.getLvl i = lv i

theorem finish_go (st : LoopSt) (tok : Tok) (p : Parser) (lv : Level) (li : Nat) (scan : Option Scan)
    (hli : li < p.levels.size) (he : p.err = .none) :
    ∃ st', finish st tok p lv li scan false = (st', outOf scan) ∧ st'.p = p.setLvl li lv ∧ st'.scan = scan := by
  unfold finish outOf
  have e : (p.setLvl li lv).err = .none := by rw [(setLvl_fields lv hli).2.2.2.2.2.2.1]; exact he
  simp only [e, ne_eq, not_true_eq_false, if_false, Bool.false_or]
  split <;> exact ⟨_, rfl, rfl, rfl⟩

theorem finish_go' (st : LoopSt) (tok : Tok) (p : Parser) (lv : Level) (li : Nat) (scan : Option Scan)
    (hli : li < p.levels.size) (he : p.err = .none) :
    finish st tok p lv li scan false =
      ({ st with p := p.setLvl li lv, scan := scan, ev := (tok, (p.setLvl li lv).getLvl (p.setLvl li lv).cur) :: st.ev }, outOf scan) := by
  unfold finish outOf
  have e : (p.setLvl li lv).err = .none := by rw [(setLvl_fields lv hli).2.2.2.2.2.2.1]; exact he
  simp only [e, ne_eq, not_true_eq_false, if_false, Bool.false_or]
  split <;> rfl

theorem StepRes.ofEq {st st' : LoopSt} {P : Parser} {du : Nat} {scan' : Option Scan} {dep' : Nat} {lv : Nat → Level}
    (hp : st'.p = P) (hs : st'.scan = scan') (h1 : Shape P) (h2 : P.err = .none) (h3 : P.used = st.p.used + du)
    (h4 : P.depth = dep') (h5 : st.p.Frame P) (h6 : ∀ i, P.getLvl i = lv i) : StepRes st st' du scan' dep' lv := by
  subst hp
  exact ⟨h1, h2, hs, h3, h4, h5, h6⟩

theorem caseScalar_eq (st : LoopSt) (tok : Tok) (q : Parser) (lv : Level) (li : Nat) (scan : Option Scan) (span : Span)
    (hsc : tok.isScalar = true) (hbuf : span.off + span.len ≤ q.buf.size)
    (hint : tok = .integer → intBoundsOk (parseIntVal q span) span.len = true) :
    caseScalar st tok q lv li scan span = finish st tok q (scalarStore tok lv span q) li scan false := by
  cases tok with
  | string => rfl
  | bytes => rfl
  | boolean => rfl
  | double =>
    unfold caseScalar scalarStore
    simp only [touchBuf_of_le hbuf]
  | integer =>
    unfold caseScalar scalarStore
    simp only [touchBuf_of_le hbuf]
    have hi := hint rfl
    simp only [hi, Bool.not_true, Bool.false_eq_true, if_false]
  | objBegin => cases hsc
  | objEnd => cases hsc
  | arrBegin => cases hsc
  | arrEnd => cases hsc
  | error => cases hsc
  | fieldName => cases hsc

theorem scalarStore_buf {p q : Parser} (h : q.buf = p.buf) (tok : Tok) (lv : Level) (span : Span) :
    scalarStore tok lv span q = scalarStore tok lv span p := by
  unfold scalarStore
  cases tok <;> simp only [parseIntVal_buf h, leNat_buf h, byte_buf h]

/-- a scalar value token, given what the two flag blocks make of the level -/
theorem iter_scalar_gen {st : LoopSt} {sn : Option (List UInt8)} {oa od : Nat} (hsh : Shape st.p) (he : st.p.err = .none)
    (tok : Tok) (span : Span) (bc : Nat) (q : Parser) (hq : q = { st.p with used := st.p.used + bc })
    (hcl : classify st.p st.bc = ⟨tok, span, bc, q⟩)
    (hfit : st.p.used + bc ≤ st.p.size) (hsp : span.off + span.len ≤ st.p.size)
    (hsc : tok.isScalar = true)
    (hint : tok = .integer → intBoundsOk (parseIntVal st.p span) span.len = true)
    (lv1 lv2 : Level) (scan2 : Option Scan)
    (hob : objBlock (st.p.getLvl st.p.lvlIdx) tok = some (lv1, tok))
    (hab : arrBlock lv1 tok (decide (oa = lv1.ad ∧ od = st.p.depth)) st.scan = (lv2, scan2)) :
    ∃ st', iter st sn oa od = (st', outOf scan2) ∧
      StepRes st st' bc scan2 st.p.depth (fun i => if i = st.p.lvlIdx then scalarStore tok lv2 span st.p else st.p.getLvl i) := by
  have hne : tok ≠ .error := by intro h; rw [h] at hsc; cases hsc
  have hqs : Shape q := by rw [hq]; exact hsh.withUsed _ hfit
  have hqd : q.depth = st.p.depth := by rw [hq]
  have hqi : q.lvlIdx = st.p.lvlIdx := by rw [hq]; rfl
  have hqg : q.getLvl q.lvlIdx = st.p.getLvl st.p.lvlIdx := by rw [hq]; rfl
  have hqe : q.err = .none := by rw [hq]; exact he
  have hqb : q.buf = st.p.buf := by rw [hq]
  have hqz : q.size = st.p.size := by rw [hq]
  have hli : st.p.lvlIdx < q.levels.size := by rw [← hqi]; exact hqs.lvlIdx_lt
  obtain ⟨o1, o2, _, _, _⟩ := objBlock_spec hob
  have ab := arrBlock_spec lv1 tok (decide (oa = lv1.ad ∧ od = st.p.depth)) st.scan
  rw [hab] at ab
  obtain ⟨a1, a2, _, _⟩ := ab
  have hspl := hsh.hsp he st.p.lvlIdx
  have hlv2 : lv2.SpansOk q.size := by rw [hqz]; exact SpansOk_of_fields (a1.trans o1) (a2.trans o2) hspl
  have hnls : (scalarStore tok lv2 span st.p).SpansOk q.size :=
    scalarStore_spans _ _ _ _ hlv2 (by rw [hqz]; exact hsp)
  obtain ⟨t1, t2, _, t4, t5, t6, _, _, _, _, _⟩ :=
    setLvl_ok (p0 := st.p) hqs (by rw [hq]; exact ⟨rfl, rfl, rfl, rfl, rfl⟩) (scalarStore tok lv2 span st.p) hli hnls
  have hg : ∀ i, (q.setLvl st.p.lvlIdx (scalarStore tok lv2 span st.p)).getLvl i =
      if i = st.p.lvlIdx then scalarStore tok lv2 span st.p else st.p.getLvl i := by
    intro i; rw [getLvl_setLvl _ hli i]; split
    · rfl
    · rw [hq]; rfl
  have hbuf : span.off + span.len ≤ q.buf.size := by rw [hqs.hbs, hqz]; exact hsp
  obtain ⟨st', hf, hp, hs⟩ := finish_go { st with bc := bc } tok q (scalarStore tok lv2 span st.p) st.p.lvlIdx scan2 hli hqe
  have key : caseScalar { st with bc := bc } tok q lv2 st.p.lvlIdx scan2 span = (st', outOf scan2) := by
    rw [caseScalar_eq _ _ _ _ _ _ _ hsc hbuf (fun h => by rw [parseIntVal_buf hqb]; exact hint h), scalarStore_buf hqb, hf]
  have hres : StepRes st st' bc scan2 st.p.depth (fun i => if i = st.p.lvlIdx then scalarStore tok lv2 span st.p else st.p.getLvl i) :=
    StepRes.ofEq hp hs t1 (t6.trans hqe) (t4.trans (by rw [hq])) (t5.trans hqd) t2 hg
  unfold iter
  simp only [hcl, hne, if_false]
  rw [hqg, hob]
  simp only [hqd, hab, hqi]
  cases tok with
  | string => exact ⟨_, key, hres⟩
  | bytes => exact ⟨_, key, hres⟩
  | boolean => exact ⟨_, key, hres⟩
  | double => exact ⟨_, key, hres⟩
  | integer => exact ⟨_, key, hres⟩
  | objBegin => cases hsc
  | objEnd => cases hsc
  | arrBegin => cases hsc
  | arrEnd => cases hsc
  | error => cases hsc
  | fieldName => cases hsc


/-- a field name AT the originating level: read and stored (the VALUE bit is cleared), or - when it
    already exceeds the name looked for - the cursor is rewound before it and the call returns -/
theorem iter_fieldName_orig {st : LoopSt} {sn : Option (List UInt8)} {oa od : Nat} (hsh : Shape st.p) (he : st.p.err = .none)
    (span : Span) (bc : Nat) (q : Parser) (hq : q = { st.p with used := st.p.used + bc })
    (hcl : classify st.p st.bc = ⟨.string, span, bc, q⟩)
    (hfit : st.p.used + bc ≤ st.p.size) (hsp : span.off + span.len ≤ st.p.size)
    (hf : (st.p.getLvl st.p.lvlIdx).flags = .expField)
    (hord : ∀ pn, (st.p.getLvl st.p.lvlIdx).name = some pn → cmpBytes (st.p.slice pn) (st.p.slice span) < 0)
    (hoa : oa = (st.p.getLvl st.p.lvlIdx).ad) (hod : od = st.p.depth) :
    (overshoot st.p span sn = false →
      ∃ st', iter st sn oa od = (st', .cont) ∧
        StepRes st st' bc (clear st.scan .value) st.p.depth
          (fun i => if i = st.p.lvlIdx then nameLevel (st.p.getLvl st.p.lvlIdx) span else st.p.getLvl i)) ∧
    (overshoot st.p span sn = true →
      ∃ st', iter st sn oa od = (st', .ret false) ∧ StepRes st st' 0 st.scan st.p.depth (fun i => st.p.getLvl i)) := by
  have hqs : Shape q := by rw [hq]; exact hsh.withUsed _ hfit
  have hqd : q.depth = st.p.depth := by rw [hq]
  have hqi : q.lvlIdx = st.p.lvlIdx := by rw [hq]; rfl
  have hqg : q.getLvl q.lvlIdx = st.p.getLvl st.p.lvlIdx := by rw [hq]; rfl
  have hqe : q.err = .none := by rw [hq]; exact he
  have hqb : q.buf = st.p.buf := by rw [hq]
  have hqz : q.size = st.p.size := by rw [hq]
  have hqu : q.used = st.p.used + bc := by rw [hq]
  have hli : st.p.lvlIdx < q.levels.size := by rw [← hqi]; exact hqs.lvlIdx_lt
  have hsl : ∀ s, q.slice s = st.p.slice s := by intro s; unfold Parser.slice; rw [hqb]
  have hspl := hsh.hsp he st.p.lvlIdx
  have hina : (st.p.getLvl st.p.lvlIdx).flags.inArray = false := by rw [hf]; rfl
  have hbuf : span.off + span.len ≤ q.buf.size := by rw [hqs.hbs, hqz]; exact hsp
  have htn : touchName (q.touchBuf span.off span.len) (st.p.getLvl st.p.lvlIdx).name = q := by
    rw [touchBuf_of_le hbuf]
    unfold touchName
    cases hn : (st.p.getLvl st.p.lvlIdx).name with
    | none => rfl
    | some pn => exact touchBuf_of_le (by rw [hqs.hbs, hqz]; exact hspl.1 pn hn)
  have hoe : nameOrdErr q (st.p.getLvl st.p.lvlIdx) span = false := by
    unfold nameOrdErr
    cases hn : (st.p.getLvl st.p.lvlIdx).name with
    | none => rfl
    | some pn =>
      simp only [hsl]
      have := hord pn hn
      simp; omega
  have hov : overshoot q span sn = overshoot st.p span sn := by
    unfold overshoot; cases sn <;> simp only [hsl]
  have hO : oa = (st.p.getLvl st.p.lvlIdx).ad ∧ od = q.depth := ⟨hoa, by rw [hqd]; exact hod⟩
  have common : iter st sn oa od =
      caseFieldName { st with bc := bc } q (st.p.getLvl st.p.lvlIdx) st.p.lvlIdx st.scan span bc sn oa od := by
    unfold iter
    simp only [hcl, show Tok.string ≠ Tok.error by decide, if_false]
    rw [hqg, objBlock_fieldName hf]
    simp only [arrBlock_notArr _ _ _ hina, hqi]
  constructor
  · intro hno
    rw [common]
    unfold caseFieldName
    simp only [htn, hoe, Bool.false_eq_true, if_false]
    rw [if_pos hO, hov, hno]
    simp only [Bool.false_eq_true, if_false]
    rw [finish_cont _ _ _ _ _ _ _ hli hqe (Or.inl rfl)]
    have hnl : (nameLevel (st.p.getLvl st.p.lvlIdx) span).SpansOk q.size := by
      rw [hqz]
      exact ⟨fun s hs => by simp [nameLevel] at hs; subst hs; exact hsp, fun s hs => hspl.2 s hs⟩
    obtain ⟨t1, t2, _, t4, t5, t6, _, _, _, _, _⟩ :=
      setLvl_ok (p0 := st.p) hqs (by rw [hq]; exact ⟨rfl, rfl, rfl, rfl, rfl⟩) (nameLevel (st.p.getLvl st.p.lvlIdx) span) hli hnl
    have hg : ∀ i, (q.setLvl st.p.lvlIdx (nameLevel (st.p.getLvl st.p.lvlIdx) span)).getLvl i =
        if i = st.p.lvlIdx then nameLevel (st.p.getLvl st.p.lvlIdx) span else st.p.getLvl i := by
      intro i; rw [getLvl_setLvl _ hli i]; split
      · rfl
      · rw [hq]; rfl
    exact ⟨_, rfl, StepRes.ofEq (P := q.setLvl st.p.lvlIdx (nameLevel (st.p.getLvl st.p.lvlIdx) span)) rfl rfl t1 (t6.trans hqe)
      (t4.trans hqu) (t5.trans hqd) t2 hg⟩
  · intro hyes
    rw [common]
    unfold caseFieldName
    simp only [htn, hoe, Bool.false_eq_true, if_false]
    rw [if_pos hO, hov, hyes]
    simp only [if_true]
    have hw : Shape { q with used := q.used - bc } := hqs.withUsed _ (by rw [hqu, hqz]; have := hsh.hus; omega)
    have hL : ({ st.p.getLvl st.p.lvlIdx with flags := .expField } : Level) = st.p.getLvl st.p.lvlIdx :=
      Level.eq_of_fields rfl rfl rfl hf.symm rfl
    rw [hL]
    obtain ⟨t1, t2, _, t4, t5, t6, _, _, _, _, _⟩ :=
      setLvl_ok (p0 := st.p) hw (by rw [hq]; exact ⟨rfl, rfl, rfl, rfl, rfl⟩) (st.p.getLvl st.p.lvlIdx) hli
        (by rw [show ({ q with used := q.used - bc } : Parser).size = st.p.size from hqz]; exact hspl)
    have hg : ∀ i, (({ q with used := q.used - bc } : Parser).setLvl st.p.lvlIdx (st.p.getLvl st.p.lvlIdx)).getLvl i = st.p.getLvl i := by
      intro i
      rw [getLvl_setLvl_used q (q.used - bc) st.p.lvlIdx _ hli i]
      split
      · rename_i h; rw [h]
      · rw [hq]; rfl
    exact ⟨_, rfl, StepRes.ofEq (P := ({ q with used := q.used - bc } : Parser).setLvl st.p.lvlIdx (st.p.getLvl st.p.lvlIdx)) rfl rfl t1
      (t6.trans hqe) (t4.trans (by show q.used - bc = _; rw [hqu]; omega)) (t5.trans hqd) t2 hg⟩

end Binson
