/-
  C05, first half — the writer's output is the canonical encoding: the call sequence `opsOf v`
  of a well-formed value, written into a large enough buffer, leaves exactly `encode v` there.
  (`opsOf` is defined in Lemmas/WriterLemmas; the spec encoder `encode` in Spec/Value.)
-/
import Binson.Lemmas.WriterLemmas
import Binson.Lemmas.VerifyValid
import Binson.Model.Transcribe
import Binson.Props.C04
namespace Binson

/-- `_int_pack_size` produces the spec's minimal-width two's complement encoding -/
theorem packInt_eq_encInt (base : UInt8) (v : Int) (h : int64Min ≤ v ∧ v ≤ int64Max) :
    packInt base v = encInt base v :=
  packInt_encInt base v h

/-- the `_write` payloads of the call sequence of `v`, concatenated, are `encode v` -/
theorem pieces_opsOf (v : Value) (h : wfValue v = true) : (allPieces (opsOf v)).flatten = encode v :=
  flatten_pieces_opsOf v h

/-- every call in the call sequence of a well-formed value has valid arguments -/
theorem opsOf_valid (v : Value) (h : wfValue v = true) : ∀ op ∈ opsOf v, op.Valid :=
  valid_opsOf v h

/-- C05: writing a well-formed value into a large enough buffer produces exactly `encode v` -/
theorem write_value_encode (v : Value) (h : wfValue v = true) (m0 : Array UInt8)
    (hlen : (encode v).length ≤ m0.size) (hsz : m0.size < 2 ^ 63) :
    let w := (Writer.init m0 m0.size).1.run (opsOf v)
    w.err = .none ∧ w.used = (encode v).length ∧ w.mem.toList.take (encode v).length = encode v := by
  intro w
  have hfl := pieces_opsOf v h
  have htot : totalLen (allPieces (opsOf v)) = (encode v).length := by
    rw [totalLen_eq_flatten, hfl]
  obtain ⟨_, _, h3, h4, h5, h6⟩ :=
    writer_run (opsOf v) m0.size m0 rfl (opsOf_valid v h) (by omega) hsz
  have hall : fittedPieces m0.size 0 (allPieces (opsOf v)) = encode v := by
    rw [fittedPieces_all _ _ _ (by omega), hfl]
  have h3' : w.used = _ := h3
  have h6' : w.mem.toList = _ := h6
  refine ⟨?_, by rw [h3', htot], ?_⟩
  · rcases h5 with h | h
    · exact h
    · have := h4.mp h; omega
  · rw [h6', hall, List.take_left']
    rfl

/-- not vacuous: `{"a":[1,-300]}` is well-formed and is written as its encoding -/
example :
    let v := Value.obj (.cons [0x61] (.arr (.cons (.int 1) (.cons (.int (-300)) .nil))) .nil)
    wfValue v = true ∧ encode v = [0x40, 0x14, 0x01, 0x61, 0x42, 0x10, 0x01, 0x11, 0xD4, 0xFE, 0x43, 0x41] := by
  exact ⟨by decide, by decide⟩

/-- and the model writer, run on it over a 14-byte buffer, leaves that encoding and the 2 old bytes -/
example :
    let v := Value.obj (.cons [0x61] (.arr (.cons (.int 1) (.cons (.int (-300)) .nil))) .nil)
    let m0 : Array UInt8 := Array.replicate 14 7
    ((Writer.init m0 m0.size).1.run (opsOf v)).mem.toList = encode v ++ [7, 7] := by decide

/-- C05, second half: the canonical encoding of a well-formed object document is accepted by
    `binson_parser_verify` (within the depth limit), from any allocated parser object -/
theorem written_verifies (g : Parser) (ha : Alloc g) (hmd : g.maxDepth ≤ 255) (v : Value)
    (hwf : wfDoc .object g.maxDepth v = true) (hsz : (encode v).length < 2 ^ 63) :
    (init g (encode v).toArray 1).2 = true ∧ (verify (init g (encode v).toArray 1).1).2.1 = true :=
  let h := verify_wellformed g ha hmd .object v hwf hsz; ⟨h.1, h.2.2.1⟩

/-- ... and by `binson_writer_verify` (a depth-10 parser over the bytes written so far) -/
theorem writer_verify_ok (v : Value) (hwf : wfDoc .object 10 v = true) (m0 : Array UInt8)
    (hlen : (encode v).length ≤ m0.size) (hsz : m0.size < 2 ^ 63) :
    writerVerify ((Writer.init m0 m0.size).1.run (opsOf v)) = true := by
  have hwv : wfValue v = true := by
    unfold wfDoc at hwf; simp only [Bool.and_eq_true] at hwf; exact hwf.1.1
  obtain ⟨_, hu, ht⟩ := write_value_encode v hwv m0 hlen hsz
  unfold writerVerify
  have hb : ((Writer.init m0 m0.size).1.run (opsOf v)).mem.extract 0 ((Writer.init m0 m0.size).1.run (opsOf v)).used = (encode v).toArray := by
    apply Array.ext'
    rw [Array.toList_extract, hu]
    simpa using ht
  simp only [hb]
  have h := verify_wellformed (garbageParser 10) ⟨rfl, by decide, rfl, rfl⟩ (by decide) .object v hwf (by omega)
  have h1 : (init (garbageParser 10) (encode v).toArray 1).2 = true := h.1
  have h2 : (verify (init (garbageParser 10) (encode v).toArray 1).1).2.1 = true := h.2.2.1
  simp [h1, h2]

end Binson
