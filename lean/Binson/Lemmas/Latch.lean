/-
  Layer 1, part 6: the parser's error latch (C09) and history-freedom of init/reset/verify (C12).
-/
import Binson.Lemmas.Safe
namespace Binson

def Op.Resetting : Op → Bool
  | .init _ _ | .reset | .verify => true
  | _ => false

/-- what each call answers while an error is pending (everything but `get_depth` is a constant) -/
def neutralRet (p : Parser) : Op → Ret
  | .getDepth => .nat p.depth
  | .getType => .ty .none
  | .getName | .getStringBbuf | .getBytesBbuf => .span none
  | .getInteger => .int 0
  | .getDouble => .nat 0
  | .getRaw => .raw false ⟨0, 0⟩
  | _ => .bool false

theorem fieldLoop_err (f : Nat) (p : Parser) (nm : List UInt8) (he : p.err ≠ .none) : fieldLoop (f + 1) p nm = (p, false) := by
  unfold fieldLoop
  rw [advance_err p _ _ he]
  simp

/-- with an error pending, a call that is not init/reset/verify changes nothing at all and answers neutrally -/
theorem pstep_latched (p : Parser) (h : Shape p) (he : p.err ≠ .none) (op : Op) (hr : op.Resetting = false) :
    step p op = (p, neutralRet p op) := by
  cases op with
  | init _ _ => cases hr
  | reset => cases hr
  | verify => cases hr
  | next => simp [step, next, advance_err p _ _ he, neutralRet]
  | goIntoObject => simp [step, goIntoObject, advance_err p _ _ he, neutralRet]
  | goIntoArray => simp [step, goIntoArray, advance_err p _ _ he, neutralRet]
  | nextEnsure t => simp [step, nextEnsure, next, advance_err p _ _ he, neutralRet]
  | field nm => simp [step, field, fieldLoop_err _ p nm he, neutralRet]
  | fieldEnsure nm t => simp [step, fieldEnsure, field, fieldLoop_err _ p nm he, neutralRet]
  | leaveObject =>
    simp only [step, leaveObject, touchLvl_of_lt h.lvlIdx_lt, advance_err p _ _ he, neutralRet]
    split <;> simp [he]
  | leaveArray =>
    simp only [step, leaveArray, touchLvl_of_lt h.lvlIdx_lt, advance_err p _ _ he, neutralRet]
    split <;> simp [he]
  | getDepth => rfl
  | getType => simp [step, getType, he, neutralRet]
  | getName => simp [step, getName, he, neutralRet]
  | getStringBbuf => simp [step, getStringBbuf, he, neutralRet]
  | getBytesBbuf => simp [step, getBytesBbuf, he, neutralRet]
  | getInteger => simp [step, getInteger, he, neutralRet]
  | getBoolean => simp [step, getBoolean, he, neutralRet]
  | getDouble => simp [step, getDouble, he, neutralRet]
  | stringEquals s => simp [step, stringEquals, he, neutralRet]
  | getRaw => simp [step, getRaw, he, neutralRet]

theorem prun_latched (ops : List Op) (p : Parser) (h : Shape p) (he : p.err ≠ .none) (hr : ∀ op ∈ ops, op.Resetting = false) :
    run p ops = p := by
  induction ops with
  | nil => rfl
  | cons op r ih =>
    unfold run
    simp only [List.foldl_cons]
    rw [pstep_latched p h he op (hr op List.mem_cons_self)]
    exact ih (fun o ho => hr o (List.mem_cons_of_mem _ ho))

/-! ### history-freedom -/

/-- everything a public function can read: all scalar fields, and the state entries while no error is pending -/
structure ObsEq (p q : Parser) : Prop where
  ptype : p.ptype = q.ptype
  depth : p.depth = q.depth
  maxDepth : p.maxDepth = q.maxDepth
  size : p.size = q.size
  used : p.used = q.used
  buf : p.buf = q.buf
  err : p.err = q.err
  cur : p.cur = q.cur
  fault : p.fault = q.fault
  oof : p.oof = q.oof
  lsize : p.levels.size = q.levels.size
  levels : p.err = .none → p.levels = q.levels

theorem ObsEq.refl (p : Parser) : ObsEq p p := ⟨rfl, rfl, rfl, rfl, rfl, rfl, rfl, rfl, rfl, rfl, rfl, fun _ => rfl⟩

theorem ObsEq.eq_of_noerr {p q : Parser} (e : ObsEq p q) (he : p.err = .none) : p = q := by
  obtain ⟨a1, a2, a3, a4, a5, a6, a7, a8, a9, a11, _, a13⟩ := e
  have := a13 he
  cases p; cases q; simp_all

/-- `reset` reads no state entry: observationally equal objects stay so, with the same answer -/
theorem reset_obsEq (p q : Parser) (e : ObsEq p q) : (reset p).2 = (reset q).2 ∧ ObsEq (reset p).1 (reset q).1 := by
  obtain ⟨a1, a2, a3, a4, a5, a6, a7, a8, a9, a11, a12, a13⟩ := e
  cases p with
  | mk pt pd pm ps pu pb pe pl pc pf po =>
  cases q with
  | mk qt qd qm qs qu qb qe ql qc qf qo =>
  simp only at a1 a2 a3 a4 a5 a6 a7 a8 a9 a11 a12 a13
  subst a1 a2 a3 a4 a5 a6 a7 a8 a9 a11
  unfold reset
  simp only [Parser.touchBuf, Parser.byte, wipe]
  repeat' split
  all_goals first
    | exact ⟨rfl, ⟨rfl, rfl, rfl, rfl, rfl, rfl, rfl, rfl, rfl, rfl, a12, a13⟩⟩
    | exact ⟨rfl, ⟨rfl, rfl, rfl, rfl, rfl, rfl, rfl, rfl, rfl, rfl, a12, fun h => by cases h⟩⟩
    | exact ⟨rfl, ⟨rfl, rfl, rfl, rfl, rfl, rfl, rfl, rfl, by simp [a12], rfl, by simp [a12], fun _ => by simp [a12]⟩⟩




/-- an accepted reset leaves no error -/
theorem reset_ok_err (p : Parser) : (reset p).2 = true → (reset p).1.err = .none := by
  unfold reset
  simp only [wipe]
  repeat' split
  all_goals (intro h; first | rfl | cases h)

/-- `reset` after `init` has overwritten buffer, size, error and type: the outcome depends on
    nothing else of the object (in particular not on the state entries nor on depth/cursor) -/
theorem reset_free (p q : Parser) (t : Nat) (ht : t = 1 ∨ t = 2) (buf : Array UInt8)
    (hm : p.maxDepth = q.maxDepth) (hmd : p.maxDepth ≠ 0) (hl : p.levels.size = q.levels.size)
    (hf : p.fault = q.fault) (ho : p.oof = q.oof) :
    (reset { p with buf := buf, size := buf.size, err := .none, ptype := t }).2 =
      (reset { q with buf := buf, size := buf.size, err := .none, ptype := t }).2 ∧
    ObsEq (reset { p with buf := buf, size := buf.size, err := .none, ptype := t }).1
      (reset { q with buf := buf, size := buf.size, err := .none, ptype := t }).1 := by
  cases p with
  | mk pt pd pm ps pu pb pe pl pc pf po =>
  cases q with
  | mk qt qd qm qs qu qb qe ql qc qf qo =>
  simp only at hm hmd hl hf ho
  subst hm hf ho
  unfold reset
  simp only [hmd, if_false]
  by_cases h2 : buf.size < 2
  · rw [if_pos h2, if_pos h2]
    exact ⟨rfl, ⟨rfl, rfl, rfl, rfl, rfl, rfl, rfl, rfl, rfl, rfl, hl, fun h => by cases h⟩⟩
  · rw [if_neg h2, if_neg h2]
    have t1 : ∀ (x : Parser), x.buf = buf → (x.touchBuf 0 1).touchBuf (buf.size - 1) 1 = x := by
      intro x hx
      have e1 : x.touchBuf 0 1 = x := touchBuf_of_le (by rw [hx]; omega)
      rw [e1]; exact touchBuf_of_le (by rw [hx]; omega)
    rw [t1 _ rfl, t1 _ rfl]
    simp only [wipe]
    rcases ht with rfl | rfl
    · simp only [if_true]
      repeat' split
      all_goals first
        | exact ⟨rfl, ⟨rfl, rfl, rfl, rfl, rfl, rfl, rfl, rfl, rfl, rfl, hl, fun h => by cases h⟩⟩
        | exact ⟨rfl, ⟨rfl, rfl, rfl, rfl, rfl, rfl, rfl, rfl, by simp [hl], rfl, by simp [hl], fun _ => by simp [hl]⟩⟩
        | (exfalso; simp_all [Parser.byte])
    · simp only [show (2 : Nat) ≠ 1 by decide, if_false, if_true]
      repeat' split
      all_goals first
        | exact ⟨rfl, ⟨rfl, rfl, rfl, rfl, rfl, rfl, rfl, rfl, rfl, rfl, hl, fun h => by cases h⟩⟩
        | exact ⟨rfl, ⟨rfl, rfl, rfl, rfl, rfl, rfl, rfl, rfl, by simp [hl], rfl, by simp [hl], fun _ => by simp [hl]⟩⟩
        | (exfalso; simp_all [Parser.byte])

/-- C12: init on two arbitrary allocated objects of the same depth configuration: same answer,
    observationally equal objects -/
theorem init_free (g g' : Parser) (ha : Alloc g) (ha' : Alloc g') (hm : g.maxDepth = g'.maxDepth)
    (buf : Array UInt8) (t : Nat) (ht : t = 1 ∨ t = 2) :
    (init g buf t).2 = (init g' buf t).2 ∧ ObsEq (init g buf t).1 (init g' buf t).1 := by
  unfold init
  have h1 : g.maxDepth ≠ 0 := by have := ha.hmd; omega
  have h2 : g'.maxDepth ≠ 0 := by have := ha'.hmd; omega
  rw [if_neg h1, if_neg h2]
  exact reset_free g g' t ht buf hm h1 (by rw [ha.hlv, ha'.hlv, hm]) (by rw [ha.hnf, ha'.hnf]) (by rw [ha.hno, ha'.hno])

theorem verify_obsEq (p q : Parser) (e : ObsEq p q) :
    (verify p).2.1 = (verify q).2.1 ∧ ObsEq (verify p).1 (verify q).1 := by
  have hr := reset_obsEq p q e
  have hok := reset_ok_err p
  unfold verify
  generalize reset p = r1 at hr hok
  generalize reset q = r2 at hr
  obtain ⟨p1, ok1⟩ := r1
  obtain ⟨q1, ok2⟩ := r2
  simp only at hr hok ⊢
  obtain ⟨e1, e2⟩ := hr
  subst e1
  cases ok1
  · exact ⟨rfl, e2⟩
  · have : p1 = q1 := e2.eq_of_noerr (hok rfl)
    subst this
    exact ⟨rfl, ObsEq.refl _⟩

/-- observationally equal parsers answer every call alike and stay observationally equal -/
theorem step_obsEq (p q : Parser) (hp : Shape p) (hq : Shape q) (e : ObsEq p q) (op : Op) (hv : op.Valid) :
    (step p op).2 = (step q op).2 ∧ ObsEq (step p op).1 (step q op).1 := by
  by_cases he : p.err = .none
  · have := e.eq_of_noerr he
    subst this
    exact ⟨rfl, ObsEq.refl _⟩
  · have heq : q.err ≠ .none := by rw [← e.err]; exact he
    cases hr : op.Resetting
    · rw [pstep_latched p hp he op hr, pstep_latched q hq heq op hr]
      refine ⟨?_, e⟩
      cases op <;> simp [neutralRet, e.depth]
    · cases op with
      | init buf t =>
        have h1 : p.maxDepth ≠ 0 := by have := hp.hmd; omega
        have h2 : q.maxDepth ≠ 0 := by have := hq.hmd; omega
        have := reset_free p q t hv.1 buf e.maxDepth h1 e.lsize e.fault e.oof
        simp only [step, init, h1, h2, if_false]
        exact ⟨by rw [this.1], this.2⟩
      | reset =>
        have := reset_obsEq p q e
        simp only [step]
        exact ⟨by rw [this.1], this.2⟩
      | verify =>
        have := verify_obsEq p q e
        simp only [step]
        exact ⟨by rw [this.1], this.2⟩
      | _ => cases hr





/-- `reset` does not read the error flag (for a parser that init has typed) -/
theorem reset_err_irrel (p : Parser) (e : Err) (hmd : p.maxDepth ≠ 0) (ht : p.ptype = 1 ∨ p.ptype = 2) :
    reset { p with err := e } = reset p := by
  unfold reset
  simp only [hmd, if_false]
  by_cases h2 : p.size < 2
  · rw [if_pos h2, if_pos h2]
  · rw [if_neg h2, if_neg h2]
    simp only [Parser.touchBuf, Parser.byte, wipe]
    rcases ht with h | h
    · simp only [h, if_true]
      repeat' split
      all_goals first | rfl | (exfalso; simp_all)
    · simp only [h, show (2 : Nat) ≠ 1 by decide, if_false, if_true]
      repeat' split
      all_goals first | rfl | (exfalso; simp_all)

/-- two shaped parsers over the same buffer and configuration: `reset` answers alike and leaves
    observationally equal objects, whatever their history -/
theorem reset_frame_obsEq (p q : Parser) (hp : Shape p) (hq : Shape q) (fr : p.Frame q) (ht : p.ptype = 1 ∨ p.ptype = 2) :
    (reset p).2 = (reset q).2 ∧ ObsEq (reset p).1 (reset q).1 := by
  obtain ⟨f1, f2, f3, f4, f5⟩ := fr
  have hmp : p.maxDepth ≠ 0 := by have := hp.hmd; omega
  have hmq : q.maxDepth ≠ 0 := by have := hq.hmd; omega
  have ep : reset p = reset { p with buf := p.buf, size := p.buf.size, err := .none, ptype := p.ptype } := by
    rw [← reset_err_irrel p .none hmp ht]
    congr 1
    cases p; simp only at *; simp [hp.hbs]
  have eq : reset q = reset { q with buf := p.buf, size := p.buf.size, err := .none, ptype := p.ptype } := by
    have htq : q.ptype = 1 ∨ q.ptype = 2 := by rw [f4]; exact ht
    rw [← reset_err_irrel q .none hmq htq]
    congr 1
    cases q; simp only at *; simp [← f2, hq.hbs, f4]
  rw [ep, eq]
  exact reset_free p q p.ptype ht p.buf f3.symm hmp f5.symm (by rw [hp.hnf, hq.hnf]) (by rw [hp.hno, hq.hno])

theorem reset_frame (p : Parser) : p.Frame (reset p).1 := by
  unfold reset
  split
  · exact Parser.Frame.refl p
  · simp only
    split
    · exact ⟨rfl, rfl, rfl, rfl, rfl⟩
    · simp only [Parser.touchBuf, wipe]
      repeat' split
      all_goals exact ⟨rfl, rfl, rfl, rfl, by simp⟩

theorem verify_frame (p : Parser) (h : Shape p) : p.Frame (verify p).1 := by
  unfold verify
  have hr := reset_shape p h
  have fr := reset_frame p
  generalize reset p = r at hr fr
  obtain ⟨q, ok⟩ := r
  simp only at hr fr ⊢
  cases ok
  · exact fr
  · simp only [Bool.not_true, Bool.false_eq_true, if_false]
    have fa := (advance_spec q .verify none hr).frame
    split
    · exact (fr.trans fa).trans (reset_frame _)
    · exact fr.trans fa

/-- verify's verdict depends only on buffer and configuration, not on the object's history -/
theorem verify_frame_eq (p q : Parser) (hp : Shape p) (hq : Shape q) (fr : p.Frame q) (ht : p.ptype = 1 ∨ p.ptype = 2) :
    (verify p).2.1 = (verify q).2.1 ∧ ObsEq (verify p).1 (verify q).1 := by
  have hr := reset_frame_obsEq p q hp hq fr ht
  have hok := reset_ok_err p
  unfold verify
  generalize reset p = r1 at hr hok
  generalize reset q = r2 at hr
  obtain ⟨p1, ok1⟩ := r1
  obtain ⟨q1, ok2⟩ := r2
  simp only at hr hok ⊢
  obtain ⟨e1, e2⟩ := hr
  subst e1
  cases ok1
  · exact ⟨rfl, e2⟩
  · have : p1 = q1 := e2.eq_of_noerr (hok rfl)
    subst this
    exact ⟨rfl, ObsEq.refl _⟩

/-- the observable trace of a call sequence -/
def trace (p : Parser) : List Op → List Ret
  | [] => []
  | op :: r => (step p op).2 :: trace (step p op).1 r

theorem trace_obsEq (ops : List Op) (p q : Parser) (hp : Shape p) (hq : Shape q) (e : ObsEq p q) (hv : ∀ op ∈ ops, op.Valid) :
    trace p ops = trace q ops := by
  induction ops generalizing p q with
  | nil => rfl
  | cons op r ih =>
    have hop := hv op List.mem_cons_self
    have s := step_obsEq p q hp hq e op hop
    simp only [trace]
    rw [s.1]
    congr 1
    exact ih _ _ (step_shape p op hp hop) (step_shape q op hq hop) s.2 (fun o ho => hv o (List.mem_cons_of_mem _ ho))

end Binson
