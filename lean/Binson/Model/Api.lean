/-
  Machine model, part 3: the public parser API of src/binson_parser.c (valid, non-NULL
  pointers assumed, as the properties do).
-/
import Binson.Model.Parser
namespace Binson

/-- lines 136-140 of `binson_parser_reset`: memset of all `max_depth` state entries, cursor, depth, error -/
def wipe (p : Parser) (d : Nat) : Parser :=
  { p with depth := d, levels := Array.replicate p.levels.size Level.zero, err := .none, used := 0, cur := 0,
           fault := p.fault || decide (p.levels.size < p.maxDepth) }

/-- `binson_parser_reset` -/
def reset (p : Parser) : Parser × Bool :=
  if p.maxDepth = 0 then (p, false) else
  let p := { p with depth := 0, used := 0, cur := 0 }
  if p.size < 2 then ({ p with err := .range }, false) else
  let p := (p.touchBuf 0 1).touchBuf (p.size - 1) 1
  if p.ptype = 1 then
    if !(p.byte 0 = 0x40 ∧ p.byte (p.size - 1) = 0x41) then ({ p with err := .format }, false)
    else (wipe p 0, true)
  else if p.ptype = 2 then
    if !(p.byte 0 = 0x42 ∧ p.byte (p.size - 1) = 0x43) then ({ p with err := .format }, false)
    else (wipe p 1, true)
  else (p, false)

/-- `_binson_parser_init`; `ptype` 1 = `binson_parser_init_object`, 2 = `binson_parser_init_array` -/
def init (p : Parser) (buf : Array UInt8) (ptype : Nat) : Parser × Bool :=
  if p.maxDepth = 0 then (p, false) else
  reset { p with buf := buf, size := buf.size, err := .none, ptype := ptype }

/-- `binson_parser_verify`; also returns the callback log -/
def verify (p : Parser) : Parser × Bool × List Event :=
  let (p, ok) := reset p
  if !ok then (p, false, []) else
  let r := advance p .verify none
  let ret := (r.ret = false) && (r.p.err = .none)
  if ret then ((reset r.p).1, true, r.ev) else (r.p, false, r.ev)

def getDepth (p : Parser) : Nat := p.depth

def next (p : Parser) : Parser × Bool := let r := advance p .value none; (r.p, r.ret)
def goIntoObject (p : Parser) : Parser × Bool := let r := advance p .enterObj none; (r.p, r.ret)
def goIntoArray (p : Parser) : Parser × Bool := let r := advance p .enterArr none; (r.p, r.ret)

def nextEnsure (p : Parser) (t : Ty) : Parser × Bool :=
  let (p, r) := next p
  if !r then (p, false) else
  if (p.getLvl p.cur).ctype ≠ t then ({ p with err := .wrongType }, false) else (p, true)

def getType (p : Parser) : Ty := if p.err = .none then (p.getLvl p.cur).ctype else .none

def leaveObject (p : Parser) : Parser × Bool :=
  let p := p.touchLvl p.lvlIdx
  if !(p.getLvl p.lvlIdx).flags.inObject then (p, false) else
  let r := advance p .leaveObj none
  if !r.ret then (r.p, r.p.err = .none) else (r.p, true)

def leaveArray (p : Parser) : Parser × Bool :=
  let p := p.touchLvl p.lvlIdx
  if !(p.getLvl p.lvlIdx).flags.inArray then (p, false) else
  let r := advance p .leaveArr none
  if !r.ret then (r.p, r.p.err = .none) else (r.p, true)

/-- the name `_cmp_name` sees in `binson_parser_field_with_length`; a NULL name (only outside
    an object, excluded by the documented protocol) compares as empty and sets `nullArg`. -/
def curNameBytes (p : Parser) : List UInt8 :=
  match (p.getLvl p.cur).name with
  | none => []
  | some s => p.slice s

def fieldLoop : Nat → Parser → List UInt8 → Parser × Bool
  | 0, p, _ => (p, false)
  | f+1, p, nm =>
    let r := advance p .value (some nm)
    if !r.ret then (r.p, false) else
    let c := cmpBytes nm (curNameBytes r.p)
    if c = 0 then (r.p, true) else if c < 0 then (r.p, false) else fieldLoop f r.p nm

/-- `binson_parser_field_with_length` -/
def field (p : Parser) (nm : List UInt8) : Parser × Bool := fieldLoop (p.size + 2) p nm

/-- `binson_parser_field_ensure_with_length` -/
def fieldEnsure (p : Parser) (nm : List UInt8) (t : Ty) : Parser × Bool :=
  let (p, r) := field p nm
  if !r then (p, false) else
  if t = getType p then (p, true) else ({ p with err := .wrongType }, false)

/-- `binson_parser_get_name`: NULL name sets `BINSON_ERROR_STATE` -/
def getName (p : Parser) : Parser × Option Span :=
  if p.err ≠ .none then (p, none) else
  match (p.getLvl p.cur).name with
  | some s => (p, some s)
  | none => ({ p with err := .state }, none)

def curSpan (p : Parser) : Option Span :=
  match (p.getLvl p.cur).val with
  | .span s => some s
  | _ => none

def getStringBbuf (p : Parser) : Option Span :=
  if p.err = .none ∧ (p.getLvl p.cur).ctype = .string then curSpan p else none
def getBytesBbuf (p : Parser) : Option Span :=
  if p.err = .none ∧ (p.getLvl p.cur).ctype = .bytes then curSpan p else none
def getInteger (p : Parser) : Int :=
  if p.err = .none ∧ (p.getLvl p.cur).ctype = .integer then
    (match (p.getLvl p.cur).val with | .int v => v | _ => 0) else 0
def getBoolean (p : Parser) : Bool :=
  if p.err = .none ∧ (p.getLvl p.cur).ctype = .boolean then
    (match (p.getLvl p.cur).val with | .bool b => b | _ => false) else false
/-- bit pattern of `binson_parser_get_double` (0 = +0.0) -/
def getDouble (p : Parser) : Nat :=
  if p.err = .none ∧ (p.getLvl p.cur).ctype = .double then
    (match (p.getLvl p.cur).val with | .dbl d => d | _ => 0) else 0

/-- `binson_parser_string_equals` (argument without NUL) -/
def stringEquals (p : Parser) (s : List UInt8) : Bool :=
  if p.err = .none ∧ (p.getLvl p.cur).ctype = .string then
    (match curSpan p with | some sp => decide (cmpBytes (p.slice sp) s = 0) | none => false)
  else false

/-- `binson_parser_get_raw` -/
def getRaw (p : Parser) : Parser × Bool × Span :=
  if p.err ≠ .none then (p, false, ⟨0,0⟩) else
  let pos := p.used
  let t := (p.getLvl p.cur).ctype
  if t = .object then
    let r := advance p .enterObj none
    if !r.ret then (r.p, false, ⟨pos, 0⟩) else
    let r := advance r.p .leaveObj none
    if !r.ret then (r.p, false, ⟨pos, 0⟩) else (r.p, true, ⟨pos, r.p.used - pos⟩)
  else if t = .array then
    let r := advance p .enterArr none
    if !r.ret then (r.p, false, ⟨pos, 0⟩) else
    let r := advance r.p .leaveArr none
    if !r.ret then (r.p, false, ⟨pos, 0⟩) else (r.p, true, ⟨pos, r.p.used - pos⟩)
  else (p, false, ⟨pos, 0⟩)

/-! ### All public parser calls as one step function (used by the invariants) -/

inductive Op
  | init (buf : Array UInt8) (ptype : Nat) | reset | verify
  | next | nextEnsure (t : Ty) | field (nm : List UInt8) | fieldEnsure (nm : List UInt8) (t : Ty)
  | goIntoObject | goIntoArray | leaveObject | leaveArray
  | getDepth | getType | getName | getStringBbuf | getBytesBbuf | getInteger | getBoolean | getDouble
  | stringEquals (s : List UInt8) | getRaw

/-- what a call hands back -/
inductive Ret
  | bool (b : Bool) | nat (n : Nat) | ty (t : Ty) | int (i : Int) | span (s : Option Span)
  | raw (ok : Bool) (s : Span)
  deriving DecidableEq, Repr

def step (p : Parser) : Op → Parser × Ret
  | .init buf t => let r := init p buf t; (r.1, .bool r.2)
  | .reset => let r := reset p; (r.1, .bool r.2)
  | .verify => let r := verify p; (r.1, .bool r.2.1)
  | .next => let r := next p; (r.1, .bool r.2)
  | .nextEnsure t => let r := nextEnsure p t; (r.1, .bool r.2)
  | .field nm => let r := field p nm; (r.1, .bool r.2)
  | .fieldEnsure nm t => let r := fieldEnsure p nm t; (r.1, .bool r.2)
  | .goIntoObject => let r := goIntoObject p; (r.1, .bool r.2)
  | .goIntoArray => let r := goIntoArray p; (r.1, .bool r.2)
  | .leaveObject => let r := leaveObject p; (r.1, .bool r.2)
  | .leaveArray => let r := leaveArray p; (r.1, .bool r.2)
  | .getDepth => (p, .nat (getDepth p))
  | .getType => (p, .ty (getType p))
  | .getName => let r := getName p; (r.1, .span r.2)
  | .getStringBbuf => (p, .span (getStringBbuf p))
  | .getBytesBbuf => (p, .span (getBytesBbuf p))
  | .getInteger => (p, .int (getInteger p))
  | .getBoolean => (p, .bool (getBoolean p))
  | .getDouble => (p, .nat (getDouble p))
  | .stringEquals s => (p, .bool (stringEquals p s))
  | .getRaw => let r := getRaw p; (r.1, .raw r.2.1 r.2.2)

def run (p : Parser) (ops : List Op) : Parser := ops.foldl (fun p op => (step p op).1) p

end Binson
