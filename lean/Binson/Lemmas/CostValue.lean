/-
  C16, tight form, part 3b (preparation for `field`): one loop iteration in VALUE mode
  (`scan_flags = VALUE`, the mode of `next` and of every `_advance_parsing` call `field` makes).
  A value-mode call can return `true` without moving the cursor in exactly one situation:
  the IN_ARRAY_1 → IN_ARRAY_2 toggle on a `{` / `[` element of an array.  These lemmas pin that down.
-/
import Binson.Lemmas.CostAdvance
namespace Binson

/-! ### `finish` -/

theorem cost_finish_scan (st : LoopSt) (tok : Tok) (p : Parser) (lv : Level) (li : Nat) (scan : Option Scan) (force : Bool) :
    (finish st tok p lv li scan force).1.scan = scan := by
  unfold finish
  dsimp only
  split
  · rfl
  · split <;> rfl

theorem cost_finish_notRetTrue (st : LoopSt) (tok : Tok) (p : Parser) (lv : Level) (li : Nat) (scan : Option Scan) (force : Bool) :
    (finish st tok p lv li scan force).2 ≠ .ret true := by
  unfold finish
  dsimp only
  split
  · exact fun h => nomatch h
  · split <;> exact fun h => nomatch h

theorem cost_finish_noStop (st : LoopSt) (tok : Tok) (p : Parser) (lv : Level) (li : Nat) (scan : Option Scan) (force : Bool)
    (h : (force || has scan [.verify, .leaveObj, .value, .leaveArr]) = true) :
    (finish st tok p lv li scan force).2 ≠ .stop := by
  unfold finish
  dsimp only
  by_cases he : (p.setLvl li lv).err ≠ .none
  · rw [if_pos he]; exact fun h => nomatch h
  · rw [if_neg he, if_pos h]; exact fun h => nomatch h

theorem cost_finish_noCont (st : LoopSt) (tok : Tok) (p : Parser) (lv : Level) (li : Nat) (scan : Option Scan)
    (h : has scan [.verify, .leaveObj, .value, .leaveArr] = false) :
    (finish st tok p lv li scan false).2 ≠ .cont := by
  unfold finish
  dsimp only
  by_cases he : (p.setLvl li lv).err ≠ .none
  · rw [if_pos he]; exact fun h => nomatch h
  · rw [if_neg he, if_neg (by simp [h])]; exact fun h => nomatch h

theorem cost_finish_err (st : LoopSt) (tok : Tok) (p : Parser) (lv : Level) (li : Nat) (scan : Option Scan) (force : Bool)
    (h : p.err ≠ .none) : (finish st tok p lv li scan force).2 = .ret false := by
  unfold finish
  dsimp only
  rw [if_pos (by rw [cost_setLvl_err]; exact h)]

/-- what the three summaries below say about a stage result in VALUE mode (`scan = some .value`):
    it does not stop, does not return `true`, and if it continues the mode is still VALUE -/
def ValueGo (r : LoopSt × Out) : Prop :=
  r.2 ≠ .stop ∧ r.2 ≠ .ret true ∧ (r.2 = .cont → r.1.scan = some .value)

/-- ... and once the VALUE bit has been cleared (`scan = none`): it does not continue, does not
    return `true`, and if it stops, a level that was in state IN_ARRAY_2 still is -/
def ValueEnd (p : Parser) (lv : Level) (li : Nat) (r : LoopSt × Out) : Prop :=
  r.2 ≠ .cont ∧ r.2 ≠ .ret true ∧
  (r.2 = .stop → li < p.levels.size → lv.flags = .arr2 → (r.1.p.getLvl li).flags = .arr2 ∧ r.1.p.depth = p.depth)

theorem cost_finish_valueGo (st : LoopSt) (tok : Tok) (p : Parser) (lv : Level) (li : Nat) (force : Bool) :
    ValueGo (finish st tok p lv li (some .value) force) :=
  ⟨cost_finish_noStop _ _ _ _ _ _ _ (by cases force <;> rfl), cost_finish_notRetTrue _ _ _ _ _ _ _,
    fun _ => cost_finish_scan _ _ _ _ _ _ _⟩

theorem cost_setLvl_depth (p : Parser) (i : Nat) (l : Level) : (p.setLvl i l).depth = p.depth := by
  unfold Parser.setLvl; split <;> rfl

/-- `finish` with the VALUE bit cleared, writing back a level whose flags are those of `lv` -/
theorem cost_finish_valueEnd (st : LoopSt) (tok : Tok) (p p' : Parser) (lv lv' : Level) (li : Nat)
    (hf : lv.flags = .arr2 → lv'.flags = .arr2) (hd : p'.depth = p.depth) (hs : p'.levels.size = p.levels.size) :
    ValueEnd p lv li (finish st tok p' lv' li none false) := by
  refine ⟨cost_finish_noCont _ _ _ _ _ _ rfl, cost_finish_notRetTrue _ _ _ _ _ _ _, ?_⟩
  intro _ hli hfl
  rw [cost_finish_p]
  refine ⟨?_, by rw [cost_setLvl_depth]; exact hd⟩
  rw [getLvl_setLvl _ (by rw [hs]; exact hli), if_pos rfl]
  exact hf hfl

theorem cost_ret_valueGo (s : LoopSt) : ValueGo (s, .ret false) :=
  ⟨(by intro h; cases h), (by intro h; cases h), (by intro h; cases h)⟩

theorem cost_ret_valueEnd (p : Parser) (lv : Level) (li : Nat) (s : LoopSt) : ValueEnd p lv li (s, .ret false) :=
  ⟨(by intro h; cases h), (by intro h; cases h), (by intro h; cases h)⟩

/-! ### the token cases in VALUE mode -/

theorem cost_touchBuf_depth (p : Parser) (o l : Nat) : (p.touchBuf o l).depth = p.depth := by
  unfold Parser.touchBuf; split <;> rfl
theorem cost_touchBuf_lsize (p : Parser) (o l : Nat) : (p.touchBuf o l).levels.size = p.levels.size := by
  unfold Parser.touchBuf; split <;> rfl

theorem cost_caseObjBegin_valueGo (st : LoopSt) (p : Parser) (lv : Level) (li : Nat) :
    ValueGo (caseObjBegin st p lv li (some .value)) := by
  unfold caseObjBegin
  rw [if_pos (by decide)]
  dsimp only
  have hc : clear (some Scan.value) .enterObj = some .value := by decide
  rw [hc]
  split
  · exact cost_finish_valueGo _ _ _ _ _ _
  · exact cost_finish_valueGo _ _ _ _ _ _

theorem cost_caseObjBegin_valueEnd (st : LoopSt) (p : Parser) (lv : Level) (li : Nat) :
    ValueEnd p lv li (caseObjBegin st p lv li none) := by
  unfold caseObjBegin
  rw [if_neg (by decide)]
  dsimp only
  refine cost_finish_valueEnd st _ p p lv _ li ?_ rfl rfl
  intro hf
  rw [if_neg (by rw [hf]; exact fun h => nomatch h)]
  exact hf

theorem cost_caseArrBegin_valueGo (st : LoopSt) (p : Parser) (lv : Level) (li : Nat) :
    ValueGo (caseArrBegin st p lv li (some .value)) := by
  unfold caseArrBegin
  split
  · exact cost_finish_valueGo _ _ _ _ _ _
  · rw [if_pos (by decide)]
    dsimp only
    have hc : clear (some Scan.value) .enterArr = some .value := by decide
    rw [hc]
    exact cost_finish_valueGo _ _ _ _ _ _

theorem cost_caseArrBegin_valueEnd (st : LoopSt) (p : Parser) (lv : Level) (li : Nat) :
    ValueEnd p lv li (caseArrBegin st p lv li none) := by
  unfold caseArrBegin
  split
  · exact cost_finish_valueEnd st _ p _ lv lv li (fun h => h) rfl rfl
  · rw [if_neg (by decide)]
    dsimp only
    refine cost_finish_valueEnd st _ p p lv _ li ?_ rfl rfl
    intro hf
    rw [if_neg (by rw [hf]; exact fun h => nomatch h)]
    exact hf

theorem cost_caseObjEnd_valueGo (st : LoopSt) (p : Parser) (lv : Level) (li : Nat) (od : Nat) :
    ValueGo (caseObjEnd st p lv li (some .value) od) := by
  unfold caseObjEnd
  by_cases h1 : lv.flags ≠ .expField
  · rw [if_pos h1]; exact cost_finish_valueGo _ _ _ _ _ _
  rw [if_neg h1, if_pos (by decide)]
  dsimp only
  have hc : (if od = p.depth then clear (some Scan.value) .leaveObj else some .value) = some .value := by
    split <;> rfl
  rw [hc]
  by_cases h3 : od = p.depth ∧ has (some Scan.value) [.value] = true
  · rw [if_pos h3]; exact cost_ret_valueGo _
  rw [if_neg h3]
  generalize (((({ p.setLvl li lv with used := (p.setLvl li lv).used + 1 } : Parser).touchLvl
      ({ p.setLvl li lv with used := (p.setLvl li lv).used + 1 } : Parser).cur).setLvl
      ({ p.setLvl li lv with used := (p.setLvl li lv).used + 1 } : Parser).cur Level.zero)) = w
  by_cases h4 : w.depth > 1
  · rw [if_pos h4]; exact cost_finish_valueGo _ _ _ _ _ _
  rw [if_neg h4]
  by_cases h5 : w.depth = 1
  · rw [if_pos h5]; exact cost_ret_valueGo _
  · rw [if_neg h5]; exact cost_ret_valueGo _

theorem cost_caseObjEnd_valueEnd (st : LoopSt) (p : Parser) (lv : Level) (li : Nat) (od : Nat) :
    ValueEnd p lv li (caseObjEnd st p lv li none od) := by
  unfold caseObjEnd
  by_cases h1 : lv.flags ≠ .expField
  · rw [if_pos h1]; exact cost_finish_valueEnd st _ p _ lv lv li (fun h => h) rfl rfl
  rw [if_neg h1, if_neg (by decide)]
  exact cost_ret_valueEnd _ _ _ _

theorem cost_caseArrEnd_valueGo (st : LoopSt) (p : Parser) (lv : Level) (li : Nat) (oa od : Nat) :
    ValueGo (caseArrEnd st p lv li (some .value) oa od) := by
  unfold caseArrEnd
  by_cases h1 : (!lv.flags.inArray) = true
  · rw [if_pos h1]; exact cost_finish_valueGo _ _ _ _ _ _
  rw [if_neg h1, if_pos (by decide)]
  dsimp only
  have hc : (if od = p.depth ∧ oa = lv.ad then clear (some Scan.value) .leaveArr else some .value) = some .value := by
    split <;> rfl
  rw [hc]
  by_cases h3 : lv.ad = 0
  · rw [if_pos h3]; exact cost_finish_valueGo _ _ _ _ _ _
  rw [if_neg h3]
  by_cases h4 : lv.ad - 1 = 0
  · rw [if_pos h4]
    by_cases h5 : p.ptype = 2 ∧ p.depth = 1
    · rw [if_pos h5]; exact cost_ret_valueGo _
    · rw [if_neg h5]; exact cost_finish_valueGo _ _ _ _ _ _
  · rw [if_neg h4]; exact cost_finish_valueGo _ _ _ _ _ _

theorem cost_caseArrEnd_valueEnd (st : LoopSt) (p : Parser) (lv : Level) (li : Nat) (oa od : Nat) :
    ValueEnd p lv li (caseArrEnd st p lv li none oa od) := by
  unfold caseArrEnd
  by_cases h1 : (!lv.flags.inArray) = true
  · rw [if_pos h1]; exact cost_finish_valueEnd st _ p _ lv lv li (fun h => h) rfl rfl
  rw [if_neg h1, if_neg (by decide)]
  exact cost_ret_valueEnd _ _ _ _

theorem cost_caseScalar_valueGo (st : LoopSt) (tok : Tok) (p : Parser) (lv : Level) (li : Nat) (consumed : Span) :
    ValueGo (caseScalar st tok p lv li (some .value) consumed) := by
  unfold caseScalar
  split
  · exact cost_finish_valueGo _ _ _ _ _ _
  · exact cost_finish_valueGo _ _ _ _ _ _
  · dsimp only
    split
    · exact cost_finish_valueGo _ _ _ _ _ _
    · exact cost_finish_valueGo _ _ _ _ _ _
  · exact cost_finish_valueGo _ _ _ _ _ _
  · exact cost_finish_valueGo _ _ _ _ _ _
  · exact cost_ret_valueGo _

theorem cost_caseScalar_valueEnd (st : LoopSt) (tok : Tok) (p : Parser) (lv : Level) (li : Nat) (consumed : Span) :
    ValueEnd p lv li (caseScalar st tok p lv li none consumed) := by
  unfold caseScalar
  split
  · exact cost_finish_valueEnd st _ p p lv _ li (fun h => h) rfl rfl
  · exact cost_finish_valueEnd st _ p p lv _ li (fun h => h) rfl rfl
  · dsimp only
    split
    · exact cost_finish_valueEnd st _ p _ lv _ li (fun h => h) (cost_touchBuf_depth _ _ _) (cost_touchBuf_lsize _ _ _)
    · exact cost_finish_valueEnd st _ p _ lv _ li (fun h => h) (cost_touchBuf_depth _ _ _) (cost_touchBuf_lsize _ _ _)
  · exact cost_finish_valueEnd st _ p _ lv _ li (fun h => h) (cost_touchBuf_depth _ _ _) (cost_touchBuf_lsize _ _ _)
  · exact cost_finish_valueEnd st _ p p lv _ li (fun h => h) rfl rfl
  · exact cost_ret_valueEnd _ _ _ _

/-- the field-name case never stops the loop and never returns `true`, in any mode -/
theorem cost_caseFieldName_noStop (st : LoopSt) (p : Parser) (lv : Level) (li : Nat) (scan : Option Scan)
    (consumed : Span) (bc : Nat) (sn : Option (List UInt8)) (oa od : Nat) :
    (caseFieldName st p lv li scan consumed bc sn oa od).2 ≠ .stop ∧
    (caseFieldName st p lv li scan consumed bc sn oa od).2 ≠ .ret true := by
  unfold caseFieldName
  dsimp only
  split
  · have := cost_finish_err st .fieldName
      { touchName (p.touchBuf consumed.off consumed.len) lv.name with err := .format } lv li scan false (fun h => nomatch h)
    rw [this]
    exact ⟨(by intro h; cases h), (by intro h; cases h)⟩
  · split
    · split
      · exact ⟨(by intro h; cases h), (by intro h; cases h)⟩
      · exact ⟨cost_finish_noStop _ _ _ _ _ _ _ rfl, cost_finish_notRetTrue _ _ _ _ _ _ _⟩
    · exact ⟨cost_finish_noStop _ _ _ _ _ _ _ rfl, cost_finish_notRetTrue _ _ _ _ _ _ _⟩

end Binson
