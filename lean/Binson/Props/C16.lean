/-
  C16 — every call terminates and work is linear in the bytes it moves over.
  The model's loop runs on fuel `size - used + 2`; `outOfFuel` is what non-termination of the C
  loop would look like. One loop iteration = one token processed = at most one callback.
-/
import Binson.Lemmas.Safe
import Binson.Model.Transcribe
namespace Binson

/-- `_advance_parsing` never runs out of the fuel `size - used + 2`: every iteration that continues
    has consumed at least one byte. Holds for every buffer content and every scan mode. -/
theorem c16_advance_terminates (p : Parser) (scan : Scan) (sn : Option (List UInt8)) (h : Shape p) :
    (advance p scan sn).outOfFuel = false ∧ (advance p scan sn).p.oof = false :=
  ⟨(advance_spec p scan sn h).fuel, (advance_spec p scan sn h).shape.hno⟩

/-- tokens processed (callbacks) by one `_advance_parsing` call are bounded by the bytes that remain plus one -/
theorem c16_advance_cost (p : Parser) (scan : Scan) (sn : Option (List UInt8)) (h : Shape p) :
    (advance p scan sn).ev.length ≤ (p.size - p.used) + 1 :=
  (advance_spec p scan sn h).ev

/-- verify processes at most `size + 1` tokens -/
theorem c16_verify_cost (p : Parser) (h : Shape p) : (verify p).2.2.length ≤ p.size + 1 := by
  unfold verify
  have hr := reset_shape p h
  have hsz : (reset p).1.size = p.size := by
    unfold reset
    split
    · rfl
    · simp only
      split
      · rfl
      · simp only [Parser.touchBuf]
        repeat' split
        all_goals rfl
  generalize reset p = r at hr hsz
  obtain ⟨q, ok⟩ := r
  simp only at hr hsz ⊢
  cases ok
  · simp
  · simp only [Bool.not_true, Bool.false_eq_true, if_false]
    have := (advance_spec q .verify none hr).ev
    split <;> (simp only; omega)

/-- no public call ever exhausts the loop fuel, from any allocated object and for any call sequence -/
theorem c16_run_terminates (g : Parser) (ha : Alloc g) (buf : Array UInt8) (t : Nat) (ht : t = 1 ∨ t = 2)
    (hb : buf.size < 2 ^ 63) (ops : List Op) (hv : ∀ op ∈ ops, op.Valid) :
    (run (init g buf t).1 ops).oof = false :=
  (run_shape ops _ (init_shape g ha buf t ht hb) hv).hno

/-- non-vacuity: a shaped parser on a real document -/
example : Shape (init (garbageParser 2) #[0x40, 0x14, 0x01, 0x61, 0x44, 0x41] 1).1 :=
  init_shape _ ⟨rfl, by decide, rfl, rfl⟩ _ 1 (Or.inl rfl) (by decide)

end Binson
