/-
  C02 — verify accepts exactly the well-formed Binson documents.
  `verify_iff`: from ANY allocated parser object (whatever it held before), init followed by
  verify returns true exactly for the byte strings that are the canonical encoding of a
  well-formed value of the right root kind within the depth limits.
  The statement about the MAX_DEPTH error code is not yet a theorem (correspondence run and the
  `firstObstacle` oracle decide it; see MANIFEST level note).
-/
import Binson.Lemmas.VerifyValid
import Binson.Lemmas.VerifySound
import Binson.Lemmas.DecodeRef
namespace Binson

/-- C02: verify accepts exactly the well-formed documents. `wfDoc` = integers in int64 and every
    integer/length in its shortest form (by construction of `encode`), lengths ≤ INT32_MAX, names
    strictly ascending, object nesting ≤ max_depth (an array root occupies one level), array nesting
    ≤ 255; `encode v = buf` says there are no trailing bytes. -/
theorem c02_verify_iff (g : Parser) (ha : Alloc g) (hmd : g.maxDepth ≤ 255) (buf : Array UInt8) (hsz : buf.size < 2 ^ 63) (root : Root) :
    ((init g buf (rootNum root)).2 = true ∧ (verify (init g buf (rootNum root)).1).2.1 = true) ↔
    ∃ v, wfDoc root g.maxDepth v = true ∧ encode v = buf.toList :=
  verify_iff g ha hmd buf hsz root

/-- ⇐ of `verify_iff`: init then verify accept the canonical encoding of every well-formed value
    of the right root kind within the depth limits -/
theorem verify_accepts_wellformed (g : Parser) (ha : Alloc g) (hmd : g.maxDepth ≤ 255) (root : Root) (v : Value)
    (hwf : wfDoc root g.maxDepth v = true) (hsz : (encode v).length < 2 ^ 63) :
    (init g (encode v).toArray (rootNum root)).2 = true ∧
    (verify (init g (encode v).toArray (rootNum root)).1).2.1 = true :=
  let h := verify_wellformed g ha hmd root v hwf hsz; ⟨h.1, h.2.2.1⟩

/-- the executable oracle `decodeRef` used by the violation search is the declarative spec:
    it returns `v` exactly for the canonical encoding of a well-formed `v` -/
theorem oracle_is_spec (b : Bytes) (v : Value) : decodeRef b = some v ↔ (wfValue v = true ∧ encode v = b) :=
  decodeRef_iff b v

/-- a value has one encoding and encodings are prefix-free (a document cannot be continued) -/
theorem encoding_unique (v v' : Value) (r r' : Bytes) (h : wfValue v = true) (h' : wfValue v' = true)
    (e : encode v ++ r = encode v' ++ r') : v = v' ∧ r = r' :=
  encode_prefix_free v v' r r' h h' e

/-- non-vacuity: `{"a":[1,{}]}` is a well-formed object document at depth 2 -/
example : wfDoc .object 2 (.obj (.cons [0x61] (.arr (.cons (.int 1) (.cons (.obj .nil) .nil))) .nil)) = true := by decide

end Binson
