/-
  Layer 1, part 4: the whole loop and `_advance_parsing`: shape preserved, fuel never exhausted,
  callbacks bounded by the bytes that remain.
-/
import Binson.Lemmas.Iter
namespace Binson

structure LoopOk (st : LoopSt) (r : LoopSt × LoopRes) : Prop where
  shape : Shape r.1.p
  frame : st.p.Frame r.1.p
  fuel : r.2 ≠ .outOfFuel
  ev : r.1.ev.length ≤ st.ev.length + (st.p.size - st.p.used) + 1

theorem advLoop_spec (f : Nat) (st : LoopSt) (sn : Option (List UInt8)) (oa od : Nat)
    (h : Shape st.p) (he : st.p.err = .none) (hf : st.p.size - st.p.used + 1 ≤ f) :
    LoopOk st (advLoop f st sn oa od) := by
  induction f generalizing st with
  | zero => omega
  | succ f ih =>
    have is := iter_spec st sn oa od h he
    unfold advLoop
    generalize iter st sn oa od = r at is
    obtain ⟨st', out⟩ := r
    obtain ⟨ish, ifr, iev, icont⟩ := is
    simp only at ish ifr iev icont
    cases out with
    | ret b =>
      show LoopOk st (st', .done b)
      exact ⟨ish, ifr, by simp, by simp only; omega⟩
    | stop =>
      show LoopOk st (st', .done _)
      exact ⟨ish, ifr, by simp, by simp only; omega⟩
    | cont =>
      obtain ⟨e', hu'⟩ := icont rfl
      have hsz : st'.p.size = st.p.size := ifr.1
      have hus := ish.hus
      have := ih st' ish e' (by omega)
      obtain ⟨a, b, c, d⟩ := this
      show LoopOk st (advLoop f st' sn oa od)
      exact ⟨a, ifr.trans b, c, by omega⟩

structure AdvOk (p : Parser) (r : AdvRes) : Prop where
  shape : Shape r.p
  frame : p.Frame r.p
  fuel : r.outOfFuel = false
  ev : r.ev.length ≤ (p.size - p.used) + 1

/-- `_advance_parsing` on a shaped parser -/
theorem advance_spec (p : Parser) (scan : Scan) (sn : Option (List UInt8)) (h : Shape p) : AdvOk p (advance p scan sn) := by
  unfold advance
  by_cases he : p.err = .none
  · rw [if_neg (by simp [he])]
    simp only [touchLvl_of_lt h.cur_lt]
    have ls := advLoop_spec (p.size - p.used + 2) ⟨p, some scan, 0, []⟩ sn (p.getLvl p.cur).ad p.depth h he (by simp)
    generalize advLoop (p.size - p.used + 2) ⟨p, some scan, 0, []⟩ sn (p.getLvl p.cur).ad p.depth = r at ls
    obtain ⟨a, b, c, d⟩ := ls
    simp only [List.length_nil, Nat.zero_add, Nat.add_zero] at d
    cases hr : r.2 with
    | done b' => simp only; exact ⟨a, b, rfl, by simpa using d⟩
    | outOfFuel => exact absurd hr c
  · rw [if_pos (by simpa using he)]
    exact ⟨h, Parser.Frame.refl p, rfl, by simp⟩

/-- an errored parser does not move -/
theorem advance_err (p : Parser) (scan : Scan) (sn : Option (List UInt8)) (he : p.err ≠ .none) :
    advance p scan sn = ⟨p, false, [], false⟩ := by
  unfold advance; rw [if_pos he]

end Binson
