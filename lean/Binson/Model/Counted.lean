/-
  The advancing API calls once more, additionally returning how many times `parser->cb` would
  have been called (the callback count the harness observes, C16). `Lemmas/Counted.lean` proves
  that state and return value are those of the functions in `Model/Api.lean`.
-/
import Binson.Model.Api
namespace Binson

def nextC (p : Parser) : Parser × Bool × Nat := let r := advance p .value none; (r.p, r.ret, r.ev.length)
def goIntoObjectC (p : Parser) : Parser × Bool × Nat := let r := advance p .enterObj none; (r.p, r.ret, r.ev.length)
def goIntoArrayC (p : Parser) : Parser × Bool × Nat := let r := advance p .enterArr none; (r.p, r.ret, r.ev.length)

def nextEnsureC (p : Parser) (t : Ty) : Parser × Bool × Nat :=
  let n := nextC p
  if !n.2.1 then (n.1, false, n.2.2) else
  if (n.1.getLvl n.1.cur).ctype ≠ t then ({ n.1 with err := .wrongType }, false, n.2.2) else (n.1, true, n.2.2)

def leaveObjectC (p : Parser) : Parser × Bool × Nat :=
  let p := p.touchLvl p.lvlIdx
  if !(p.getLvl p.lvlIdx).flags.inObject then (p, false, 0) else
  let r := advance p .leaveObj none
  if !r.ret then (r.p, r.p.err = .none, r.ev.length) else (r.p, true, r.ev.length)

def leaveArrayC (p : Parser) : Parser × Bool × Nat :=
  let p := p.touchLvl p.lvlIdx
  if !(p.getLvl p.lvlIdx).flags.inArray then (p, false, 0) else
  let r := advance p .leaveArr none
  if !r.ret then (r.p, r.p.err = .none, r.ev.length) else (r.p, true, r.ev.length)

def fieldLoopC : Nat → Parser → List UInt8 → Nat → Parser × Bool × Nat
  | 0, p, _, c => (p, false, c)
  | f+1, p, nm, c =>
    let r := advance p .value (some nm)
    if !r.ret then (r.p, false, c + r.ev.length) else
    let k := cmpBytes nm (curNameBytes r.p)
    if k = 0 then (r.p, true, c + r.ev.length) else if k < 0 then (r.p, false, c + r.ev.length)
    else fieldLoopC f r.p nm (c + r.ev.length)

def fieldC (p : Parser) (nm : List UInt8) : Parser × Bool × Nat := fieldLoopC (p.size + 2) p nm 0

def fieldEnsureC (p : Parser) (nm : List UInt8) (t : Ty) : Parser × Bool × Nat :=
  let r := fieldC p nm
  if !r.2.1 then (r.1, false, r.2.2) else
  if t = getType r.1 then (r.1, true, r.2.2) else ({ r.1 with err := .wrongType }, false, r.2.2)

def getRawC (p : Parser) : Parser × Bool × Span × Nat :=
  if p.err ≠ .none then (p, false, ⟨0,0⟩, 0) else
  let pos := p.used
  let t := (p.getLvl p.cur).ctype
  if t = .object then
    let r := advance p .enterObj none
    if !r.ret then (r.p, false, ⟨pos, 0⟩, r.ev.length) else
    let r2 := advance r.p .leaveObj none
    if !r2.ret then (r2.p, false, ⟨pos, 0⟩, r.ev.length + r2.ev.length) else (r2.p, true, ⟨pos, r2.p.used - pos⟩, r.ev.length + r2.ev.length)
  else if t = .array then
    let r := advance p .enterArr none
    if !r.ret then (r.p, false, ⟨pos, 0⟩, r.ev.length) else
    let r2 := advance r.p .leaveArr none
    if !r2.ret then (r2.p, false, ⟨pos, 0⟩, r.ev.length + r2.ev.length) else (r2.p, true, ⟨pos, r2.p.used - pos⟩, r.ev.length + r2.ev.length)
  else (p, false, ⟨pos, 0⟩, 0)

end Binson
