/-
  C15, serialize half, part 1: `Binson::serialize()` (model: `cppSerialize`) returns exactly the
  canonical encoding of the map content, on both paths (fits the 1000-byte first try / RANGE,
  then a second pass into a vector of the reported size).

  The only hypotheses needed are
    * `lensOk`: every string, bytes and field-name length is ≤ INT32_MAX (otherwise the writer
      latches FORMAT and `serialize()` returns the empty vector), and
    * the encoding is shorter than 2^64 (`size_t` counter does not wrap).
  Neither name order nor the int64 range of integers is needed (`packInt` agrees with `encInt`
  on every `Int`).
-/
import Binson.Lemmas.WriterLemmas
import Binson.Model.Cpp
namespace Binson

/-! ### the recursive serializer is the call sequence `opsOf` -/

theorem run_append (w : Writer) (a b : List WOp) : w.run (a ++ b) = (w.run a).run b := by
  simp [Writer.run]

mutual
theorem cppSerItem_run (w : Writer) (v : Value) : cppSerItem w v = w.run (opsOf v) := by
  cases v with
  | bool b => simp [cppSerItem, opsOf]
  | int i => simp [cppSerItem, opsOf]
  | dbl d => simp [cppSerItem, opsOf]
  | str s => simp [cppSerItem, opsOf]
  | bytes s => simp [cppSerItem, opsOf]
  | arr xs =>
    simp only [cppSerItem, opsOf, run_cons, run_append, run_nil]
    rw [cppSerElems_run]
  | obj fs =>
    simp only [cppSerItem, opsOf, run_cons, run_append, run_nil]
    rw [cppSerItems_run]
theorem cppSerItems_run (w : Writer) (fs : Fields) : cppSerItems w fs = w.run (opsOfF fs) := by
  cases fs with
  | nil => simp [cppSerItems, opsOfF]
  | cons n v r =>
    simp only [cppSerItems, opsOfF, run_cons, run_append]
    rw [cppSerItem_run, cppSerItems_run]
theorem cppSerElems_run (w : Writer) (xs : Elems) : cppSerElems w xs = w.run (opsOfE xs) := by
  cases xs with
  | nil => simp [cppSerElems, opsOfE]
  | cons v r =>
    simp only [cppSerElems, opsOfE, run_append]
    rw [cppSerItem_run, cppSerElems_run]
end

/-- `Binson::serialize(binson_writer*)` makes exactly the calls `opsOf (.obj fs)` -/
theorem cppSerTo_run (w : Writer) (fs : Fields) : cppSerTo w fs = w.run (opsOf (.obj fs)) := by
  unfold cppSerTo
  simp only [opsOf, run_cons, run_append, run_nil]
  rw [cppSerItems_run]

/-! ### the length-only part of `wfValue` -/

mutual
/-- every string / bytes / field-name length is within INT32_MAX (no order, no integer range) -/
def lensOk : Value → Bool
  | .str s => decide (s.length ≤ INT32_MAX)
  | .bytes s => decide (s.length ≤ INT32_MAX)
  | .arr xs => lensOkE xs
  | .obj fs => lensOkF fs
  | _ => true
def lensOkE : Elems → Bool
  | .nil => true
  | .cons v r => lensOk v && lensOkE r
def lensOkF : Fields → Bool
  | .nil => true
  | .cons n v r => decide (n.length ≤ INT32_MAX) && lensOk v && lensOkF r
end

mutual
theorem lensOk_of_wf (v : Value) (h : wfValue v = true) : lensOk v = true := by
  cases v with
  | bool b => simp [lensOk]
  | int i => simp [lensOk]
  | dbl d => simp [lensOk]
  | str s => simpa [lensOk, wfValue] using h
  | bytes s => simpa [lensOk, wfValue] using h
  | arr xs =>
    have hx : wfElems xs = true := by simpa [wfValue] using h
    simpa [lensOk] using lensOkE_of_wf xs hx
  | obj fs =>
    have hf : wfFields none fs = true := by simpa [wfValue] using h
    simpa [lensOk] using lensOkF_of_wf none fs hf
theorem lensOkE_of_wf (xs : Elems) (h : wfElems xs = true) : lensOkE xs = true := by
  cases xs with
  | nil => simp [lensOkE]
  | cons v r =>
    have hh : wfValue v = true ∧ wfElems r = true := by simpa [wfElems] using h
    simp [lensOkE, lensOk_of_wf v hh.1, lensOkE_of_wf r hh.2]
theorem lensOkF_of_wf (prev : Option Bytes) (fs : Fields) (h : wfFields prev fs = true) : lensOkF fs = true := by
  cases fs with
  | nil => simp [lensOkF]
  | cons n v r =>
    have hh : ((nameAfter prev n = true ∧ n.length ≤ INT32_MAX) ∧ wfValue v = true) ∧ wfFields (some n) r = true := by
      simpa [wfFields] using h
    simp [lensOkF, hh.1.1.2, lensOk_of_wf v hh.1.2, lensOkF_of_wf (some n) r hh.2]
end

/-! ### `packInt` is `encInt` on every integer (the int64 hypothesis of `packInt_encInt` is unused) -/

theorem packInt_encInt_all (base : UInt8) (v : Int) : packInt base v = encInt base v := by
  unfold packInt encInt encIntBody intWidth
  rcases intWidthExp_eq v with ⟨e, h0⟩ | ⟨e, h0, h1⟩ | ⟨e, h0, h1, h2⟩ | ⟨e, h0⟩ <;> rw [e]
  · rw [if_pos h0, leBytesM_toU64 1 (by simp)]
    simp
  · rw [if_neg h0, if_pos h1, leBytesM_toU64 2 (by simp)]
    rfl
  · rw [if_neg (by omega), if_neg h0, if_pos ⟨h1, h2⟩, leBytesM_toU64 4 (by simp)]
    rfl
  · rw [if_neg (by omega), if_neg (by omega), if_neg h0, leBytesM_toU64 8 (by simp)]
    rfl

/-! ### pieces and validity of `opsOf` under `lensOk` alone -/

mutual
theorem flatten_pieces_opsOf' (v : Value) (h : lensOk v = true) : (allPieces (opsOf v)).flatten = encode v := by
  cases v with
  | bool b => simp [opsOf, WOp.pieces, encode]
  | int i => simp [opsOf, WOp.pieces, encode, packInt_encInt_all]
  | dbl d => simp [opsOf, WOp.pieces, encode, leBytesM_eq_leBytes]
  | str s =>
    have hs : s.length ≤ INT32_MAX := by simpa [lensOk] using h
    simp only [opsOf, allPieces_cons, allPieces_nil, List.append_nil, WOp.pieces, encode]
    exact blob_pieces_flatten 0x14 s hs
  | bytes s =>
    have hs : s.length ≤ INT32_MAX := by simpa [lensOk] using h
    simp only [opsOf, allPieces_cons, allPieces_nil, List.append_nil, WOp.pieces, encode]
    exact blob_pieces_flatten 0x18 s hs
  | arr xs =>
    have hx : lensOkE xs = true := by simpa [lensOk] using h
    simp [opsOf, WOp.pieces, encode, flatten_pieces_opsOfE' xs hx]
  | obj fs =>
    have hf : lensOkF fs = true := by simpa [lensOk] using h
    simp [opsOf, WOp.pieces, encode, flatten_pieces_opsOfF' fs hf]
theorem flatten_pieces_opsOfE' (xs : Elems) (h : lensOkE xs = true) : (allPieces (opsOfE xs)).flatten = encElems xs := by
  cases xs with
  | nil => rfl
  | cons v r =>
    have hh : lensOk v = true ∧ lensOkE r = true := by simpa [lensOkE] using h
    simp [opsOfE, encElems, flatten_pieces_opsOf' v hh.1, flatten_pieces_opsOfE' r hh.2]
theorem flatten_pieces_opsOfF' (fs : Fields) (h : lensOkF fs = true) :
    (allPieces (opsOfF fs)).flatten = encFields fs := by
  cases fs with
  | nil => rfl
  | cons n v r =>
    have hh : (n.length ≤ INT32_MAX ∧ lensOk v = true) ∧ lensOkF r = true := by
      simpa [lensOkF] using h
    have hn := blob_pieces_flatten 0x14 n hh.1.1
    simp only [opsOfF, encFields, allPieces_cons, allPieces_append, List.flatten_append, WOp.pieces,
      flatten_pieces_opsOf' v hh.1.2, flatten_pieces_opsOfF' r hh.2, hn]
end

mutual
theorem valid_opsOf' (v : Value) (h : lensOk v = true) : ∀ op ∈ opsOf v, op.Valid := by
  cases v with
  | bool b => simp [opsOf, WOp.Valid]
  | int i => simp [opsOf, WOp.Valid]
  | dbl d => simp [opsOf, WOp.Valid]
  | str s =>
    have hs : s.length ≤ INT32_MAX := by simpa [lensOk] using h
    simpa [opsOf, WOp.Valid] using blob_valid_of_le hs
  | bytes s =>
    have hs : s.length ≤ INT32_MAX := by simpa [lensOk] using h
    simpa [opsOf, WOp.Valid] using blob_valid_of_le hs
  | arr xs =>
    have hx : lensOkE xs = true := by simpa [lensOk] using h
    intro op hop
    simp only [opsOf, List.mem_cons, List.mem_append, List.not_mem_nil, or_false] at hop
    rcases hop with rfl | hop | rfl
    · trivial
    · exact valid_opsOfE' xs hx op hop
    · trivial
  | obj fs =>
    have hf : lensOkF fs = true := by simpa [lensOk] using h
    intro op hop
    simp only [opsOf, List.mem_cons, List.mem_append, List.not_mem_nil, or_false] at hop
    rcases hop with rfl | hop | rfl
    · trivial
    · exact valid_opsOfF' fs hf op hop
    · trivial
theorem valid_opsOfE' (xs : Elems) (h : lensOkE xs = true) : ∀ op ∈ opsOfE xs, op.Valid := by
  cases xs with
  | nil => intro op hop; simp [opsOfE] at hop
  | cons v r =>
    have hh : lensOk v = true ∧ lensOkE r = true := by simpa [lensOkE] using h
    intro op hop
    simp only [opsOfE, List.mem_append] at hop
    rcases hop with hop | hop
    · exact valid_opsOf' v hh.1 op hop
    · exact valid_opsOfE' r hh.2 op hop
theorem valid_opsOfF' (fs : Fields) (h : lensOkF fs = true) : ∀ op ∈ opsOfF fs, op.Valid := by
  cases fs with
  | nil => intro op hop; simp [opsOfF] at hop
  | cons n v r =>
    have hh : (n.length ≤ INT32_MAX ∧ lensOk v = true) ∧ lensOkF r = true := by
      simpa [lensOkF] using h
    intro op hop
    simp only [opsOfF, List.mem_cons, List.mem_append] at hop
    rcases hop with rfl | hop | hop
    · exact blob_valid_of_le hh.1.1
    · exact valid_opsOf' v hh.1.2 op hop
    · exact valid_opsOfF' r hh.2 op hop
end

/-! ### `writer_run` with the full `size_t` range (2^64 instead of 2^63) -/

theorem writer_run64 (ops : List WOp) (cap : Nat) (m0 : Array UInt8) (hm : m0.size = cap)
    (hv : ∀ op ∈ ops, op.Valid) (hsz : totalLen (allPieces ops) < 2 ^ 64) (hcap : cap < 2 ^ 64) :
    let w := (Writer.init m0 cap).1.run ops
    w.fault = false ∧ w.mem.size = cap ∧ w.used = totalLen (allPieces ops) ∧
    (w.err = .range ↔ cap < totalLen (allPieces ops)) ∧ (w.err = .none ∨ w.err = .range) ∧
    w.mem.toList = fittedPieces cap 0 (allPieces ops) ++ m0.toList.drop (fittedPieces cap 0 (allPieces ops)).length := by
  intro w
  have hw : w = (Writer.init m0 cap).1.writes (allPieces ops) := run_eq_writes ops _ hv
  have h := writes_inv cap (allPieces ops) (Writer.init m0 cap).1 [] m0.toList
    rfl rfl rfl hm rfl (Nat.zero_le _) (by unfold two64; omega)
    (by show 0 + _ < two64; unfold two64; omega) rfl rfl
  rw [← hw] at h
  obtain ⟨h1, h2, _, _, h5, h6, h7, h8⟩ := h
  have hu : (Writer.init m0 cap).1.used = 0 := rfl
  rw [hu] at h5 h6 h8
  simp only [Nat.zero_add, List.nil_append] at h5 h6 h8
  exact ⟨h1, h2, h5, h6, h7, h8⟩

/-! ### the two-pass driver over an arbitrary valid call sequence -/

/-- `Binson::serialize()` with the recursive calls abstracted to a call sequence -/
def serializeOps (ops : List WOp) : Bytes :=
  let w1 := (Writer.init (Array.replicate 1000 0) 1000).1.run ops
  let w := if w1.err = .range then (Writer.init (Array.replicate w1.counter 0) w1.counter).1.run ops else w1
  if w.err = .none then (w.mem.extract 0 w.counter).toList else []

theorem cppSerialize_eq_serializeOps (fs : Fields) : cppSerialize fs = serializeOps (opsOf (.obj fs)) := by
  unfold cppSerialize serializeOps
  simp only [cppSerTo_run]

theorem extract_prefix (m : Array UInt8) (a rest : List UInt8) (n : Nat)
    (hm : m.toList = a ++ rest) (hn : a.length = n) : (m.extract 0 n).toList = a := by
  rw [Array.toList_extract, hm]
  subst hn
  simp [List.extract]

/-- first pass fits: no RANGE, the first `counter` bytes of the 1000-byte buffer are returned -/
theorem serializeOps_fit (ops : List WOp) (hv : ∀ op ∈ ops, op.Valid)
    (hfit : totalLen (allPieces ops) ≤ 1000) :
    ((Writer.init (Array.replicate 1000 0) 1000).1.run ops).err = .none ∧
    serializeOps ops = (allPieces ops).flatten := by
  obtain ⟨_, _, h3, h4, h5, h6⟩ :=
    writer_run64 ops 1000 (Array.replicate 1000 0) (by simp) hv (by omega) (by omega)
  have hnr : ((Writer.init (Array.replicate 1000 0) 1000).1.run ops).err ≠ .range := by
    intro h; have := h4.mp h; omega
  have hnone : ((Writer.init (Array.replicate 1000 0) 1000).1.run ops).err = .none := by
    rcases h5 with h | h
    · exact h
    · exact absurd h hnr
  refine ⟨hnone, ?_⟩
  unfold serializeOps
  simp only []
  rw [if_neg hnr, if_pos hnone]
  simp only [Writer.counter]
  rw [fittedPieces_all _ _ _ (by omega)] at h6
  rw [h3]
  exact extract_prefix _ _ _ _ h6 (totalLen_eq_flatten _).symm

/-- first pass overflows: RANGE with `counter` = full size, the second pass fills a vector of
    exactly that size -/
theorem serializeOps_retry (ops : List WOp) (hv : ∀ op ∈ ops, op.Valid)
    (hbig : 1000 < totalLen (allPieces ops)) (hsz : totalLen (allPieces ops) < 2 ^ 64) :
    ((Writer.init (Array.replicate 1000 0) 1000).1.run ops).err = .range ∧
    ((Writer.init (Array.replicate 1000 0) 1000).1.run ops).counter = totalLen (allPieces ops) ∧
    serializeOps ops = (allPieces ops).flatten := by
  obtain ⟨_, _, h3, h4, _, _⟩ :=
    writer_run64 ops 1000 (Array.replicate 1000 0) (by simp) hv hsz (by omega)
  have hr : ((Writer.init (Array.replicate 1000 0) 1000).1.run ops).err = .range := h4.mpr hbig
  have hc : ((Writer.init (Array.replicate 1000 0) 1000).1.run ops).counter = totalLen (allPieces ops) := h3
  refine ⟨hr, hc, ?_⟩
  unfold serializeOps
  simp only [hr, if_true, hc]
  generalize hN : totalLen (allPieces ops) = N at *
  obtain ⟨_, _, g3, g4, g5, g6⟩ :=
    writer_run64 ops N (Array.replicate N 0) (by simp) hv (by omega) hsz
  have hnone : ((Writer.init (Array.replicate N 0) N).1.run ops).err = .none := by
    rcases g5 with h | h
    · exact h
    · have := g4.mp h; omega
  simp only [hnone, if_true, Writer.counter]
  rw [fittedPieces_all _ _ _ (by omega)] at g6
  rw [g3]
  exact extract_prefix _ _ _ _ g6 (totalLen_eq_flatten _).symm

theorem serializeOps_flatten (ops : List WOp) (hv : ∀ op ∈ ops, op.Valid)
    (hsz : totalLen (allPieces ops) < 2 ^ 64) : serializeOps ops = (allPieces ops).flatten := by
  by_cases h : totalLen (allPieces ops) ≤ 1000
  · exact (serializeOps_fit ops hv h).2
  · exact (serializeOps_retry ops hv (by omega) hsz).2.2

/-! ### C15, serialize half -/

/-- `Binson::serialize()` returns the canonical encoding of the map content (both paths). -/
theorem cppSerialize_encode (fs : Fields) (hl : lensOkF fs = true)
    (hlen : (encode (.obj fs)).length < 2 ^ 64) :
    cppSerialize fs = encode (.obj fs) := by
  have hl' : lensOk (.obj fs) = true := by simpa [lensOk] using hl
  have hfl := flatten_pieces_opsOf' (.obj fs) hl'
  have htot : totalLen (allPieces (opsOf (.obj fs))) = (encode (.obj fs)).length := by
    rw [totalLen_eq_flatten, hfl]
  rw [cppSerialize_eq_serializeOps, serializeOps_flatten _ (valid_opsOf' _ hl') (by omega), hfl]

/-- the statement asked for: well-formed map content (names ascending, int64 integers,
    lengths ≤ INT32_MAX) shorter than 2^64 bytes -/
theorem cppSerialize_canonical (fs : Fields) (hwf : wfValue (.obj fs) = true)
    (hlen : (encode (.obj fs)).length < 2 ^ 64) :
    cppSerialize fs = encode (.obj fs) := by
  have h := lensOk_of_wf (.obj fs) hwf
  exact cppSerialize_encode fs (by simpa [lensOk] using h) hlen

/-- the fit path in isolation: at most 1000 bytes, the first pass does not report RANGE -/
theorem cppSerialize_first_try (fs : Fields) (hl : lensOkF fs = true)
    (hfit : (encode (.obj fs)).length ≤ 1000) :
    (cppSerTo (Writer.init (Array.replicate 1000 0) 1000).1 fs).err = .none ∧
    cppSerialize fs = encode (.obj fs) := by
  have hl' : lensOk (.obj fs) = true := by simpa [lensOk] using hl
  have hfl := flatten_pieces_opsOf' (.obj fs) hl'
  have htot : totalLen (allPieces (opsOf (.obj fs))) = (encode (.obj fs)).length := by
    rw [totalLen_eq_flatten, hfl]
  rw [cppSerTo_run]
  exact ⟨(serializeOps_fit _ (valid_opsOf' _ hl') (by omega)).1, cppSerialize_encode fs hl (by omega)⟩

/-- the retry path in isolation: more than 1000 bytes, the first pass ends in RANGE with
    `counter` = the full length, and the result is still the encoding -/
theorem cppSerialize_retry (fs : Fields) (hl : lensOkF fs = true)
    (hbig : 1000 < (encode (.obj fs)).length) (hlen : (encode (.obj fs)).length < 2 ^ 64) :
    (cppSerTo (Writer.init (Array.replicate 1000 0) 1000).1 fs).err = .range ∧
    (cppSerTo (Writer.init (Array.replicate 1000 0) 1000).1 fs).counter = (encode (.obj fs)).length ∧
    cppSerialize fs = encode (.obj fs) := by
  have hl' : lensOk (.obj fs) = true := by simpa [lensOk] using hl
  have hfl := flatten_pieces_opsOf' (.obj fs) hl'
  have htot : totalLen (allPieces (opsOf (.obj fs))) = (encode (.obj fs)).length := by
    rw [totalLen_eq_flatten, hfl]
  rw [cppSerTo_run]
  obtain ⟨a, b, _⟩ := serializeOps_retry _ (valid_opsOf' _ hl') (by omega) (by omega)
  exact ⟨a, by rw [b, htot], cppSerialize_encode fs hl hlen⟩

end Binson
