/-
  Layer 4, part 14: tools shared by the per-call refinement lemmas: the cursor in normal form,
  rebuilding the invariant after a call that stays in the same state entry, and the prelude of
  every continuing call (a pending container is skipped first).
-/
import Binson.Lemmas.NavCur
namespace Binson

theorem rem_len {p : Parser} (hs : Shape p) {bs : Bytes} (h : p.rem = bs) : p.used + bs.length = p.size := by
  have := congrArg List.length h
  unfold Parser.rem at this
  simp only [List.length_drop, Array.length_toList] at this
  have h1 := hs.hbs; have h2 := hs.hus
  omega

theorem annotate_val_nm (nm nm' : Option (Bytes × Span)) (off : Nat) (v : Value) :
    (annotate nm off v).item.val = (annotate nm' off v).item.val ∧
    (annotate nm off v).item.payload = (annotate nm' off v).item.payload := by
  cases v <;> simp [annotate, Node.item]

theorem LvlOk.transfer {p q : Parser} {j : Nat} {L : RLevel} (h : LvlOk p j L)
    (had : (q.getLvl j).ad = (p.getLvl j).ad) (hn : (q.getLvl j).name = (p.getLvl j).name)
    (hb : q.buf = p.buf) (hm : q.maxDepth = p.maxDepth) : LvlOk q j L := by
  refine ⟨by rw [had]; exact h.ad, ?_, by rw [hm]; exact h.base, by rw [hm]; exact h.arrs⟩
  rw [hn, ← h.name]
  cases (p.getLvl j).name with
  | none => rfl
  | some s => simp only [Option.map]; rw [slice_congr hb]

theorem nflags_nil (pv : Option Bytes) (b : Option Fields) : nflags ⟨pv, b, []⟩ = .expField := rfl
theorem nflags_cons (pv : Option Bytes) (b : Option Fields) (x : Elems) (r : List Elems) : nflags ⟨pv, b, x :: r⟩ = .arr1 := rfl
theorem pflags_nil (pv : Option Bytes) (b : Option Fields) : pflags ⟨pv, b, []⟩ = .expValue := rfl
theorem pflags_cons (pv : Option Bytes) (b : Option Fields) (x : Elems) (r : List Elems) : pflags ⟨pv, b, x :: r⟩ = .arr2 := rfl

namespace Run

variable {p : Parser} {c : Cursor} {L : RLevel} {Ls : List RLevel} {pend : Option Value}

theorem c_eq (h : Run p c L Ls pend) : c = mkCur c.arrayRoot p.size (flat (L :: Ls)) c.cur := by
  have h1 := h.frames; have h2 := h.root; have h3 := h.done
  cases c
  simp only at h1 h2 h3
  simp [mkCur, h1, h2, h3]

/-- the invariant after a call that stayed in the same state entry -/
theorem next_state (h : Run p c L Ls pend) {q : Parser} (hs : Shape q) (he : q.err = .none) (fr : p.Frame q)
    (hd : q.depth = p.depth) (hlow : ∀ i, i < Ls.length → q.getLvl i = p.getLvl i)
    (hz : ∀ i, q.depth ≤ i → q.getLvl i = Level.zero)
    (L' : RLevel) (cur' : Option Node) (pend' : Option Value)
    (hbase : BaseOk c.arrayRoot L' Ls) (htop : LvlOk q Ls.length L')
    (hpend : Pend q (mkCur c.arrayRoot p.size (flat (L' :: Ls)) cur') Ls.length L' (tailBytes (flat (L' :: Ls))) pend') :
    Run q (mkCur c.arrayRoot p.size (flat (L' :: Ls)) cur') L' Ls pend' :=
  ⟨hs, he, by rw [fr.2.2.1]; exact h.md, by rw [hd]; exact h.depth, hz, by rw [fr.2.2.2.1]; exact h.aroot, hbase, htop,
    h.susp.transfer hlow fr.2.1 fr.2.2.1, by rw [fr.1]; rfl, rfl, rfl, hpend⟩

/-- every continuing call first skips a container `next` had stopped at -/
theorem prelude (h : Run p c L Ls pend) (scan : Scan) (hcont : Cont (some scan)) (sn : Option (List UInt8)) :
    ∃ st1, Steps sn (p.getLvl p.cur).ad p.depth ⟨p, some scan, 0, []⟩ st1 ∧ AtOrig st1 (p.getLvl p.cur).ad p.depth ∧
      st1.scan = some scan ∧ Kept ⟨p, some scan, 0, []⟩ st1 ∧ st1.p.rem = tailBytes (flat (L :: Ls)) ∧
      (st1.p.getLvl Ls.length).name = (p.getLvl Ls.length).name ∧ (st1.p.getLvl Ls.length).flags = nflags L := by
  have hO := h.atOrig scan
  have hli := h.lvlIdx
  cases pend with
  | none =>
    obtain ⟨h1, h2, _⟩ := h.pend
    exact ⟨_, Steps.refl _ _ _ _, hO, rfl, Kept.refl _, h1, rfl, h2⟩
  | some v =>
    obtain ⟨h1, h2, h3, _, _, h6, h7⟩ := h.pend
    have hp : PendFlags ((⟨p, some scan, 0, []⟩ : LoopSt).p.getLvl (⟨p, some scan, 0, []⟩ : LoopSt).p.lvlIdx) (some scan) := by
      show PendFlags (p.getLvl p.lvlIdx) (some scan)
      rw [hli]
      have had := h.top.ad
      cases ha : L.arrs with
      | nil => rw [ha] at had; exact Or.inl ⟨by rw [h3]; unfold pflags; rw [ha], had⟩
      | cons x r => rw [ha] at had; exact Or.inr (Or.inl ⟨by rw [h3]; unfold pflags; rw [ha], by rw [had]; simp⟩)
    have hfit : fits ((⟨p, some scan, 0, []⟩ : LoopSt).p.maxDepth - (⟨p, some scan, 0, []⟩ : LoopSt).p.depth)
        (255 - ((⟨p, some scan, 0, []⟩ : LoopSt).p.getLvl (⟨p, some scan, 0, []⟩ : LoopSt).p.lvlIdx).ad) v = true := by
      show fits (p.maxDepth - p.depth) (255 - (p.getLvl p.lvlIdx).ad) v = true
      rw [hli, h.depth, h.top.ad]; exact h7
    obtain ⟨st1, s1, r1, o1, c1, k1, n1, f1⟩ := skip_container v h1 (sn := sn) hO hcont _ h2 h6 hfit hp
    have hn : (st1.p.getLvl Ls.length).name = (p.getLvl Ls.length).name := by
      have := n1; simp only at this; rw [hli] at this; exact this
    have hf : (st1.p.getLvl Ls.length).flags = nflags L := by
      have f1' : SkipFlags (p.getLvl Ls.length) (st1.p.getLvl Ls.length) := by
        have := f1; simp only at this; rw [hli] at this; exact this
      cases ha : L.arrs with
      | nil =>
        have : (p.getLvl Ls.length).flags = .expValue := by rw [h3]; unfold pflags; rw [ha]
        rw [f1'.1 this]; unfold nflags; rw [ha]
      | cons x r =>
        have : (p.getLvl Ls.length).flags = .arr2 := by rw [h3]; unfold pflags; rw [ha]
        rw [f1'.2.1 this]; unfold nflags; rw [ha]
    exact ⟨st1, s1, o1, c1, k1, r1, hn, hf⟩

end Run

end Binson
