/-
  Layer 3, part 2: closed forms of one loop iteration below the originating level, given the
  closed form of the classification stage (Lemmas/Tokens.lean supplies those from the bytes).
-/
import Binson.Lemmas.PassDefs
namespace Binson

theorem deep_notOrig {st : LoopSt} {oa od : Nat} (h : Deep st oa od) (a : Nat)
    (ha : a = (st.p.getLvl st.p.lvlIdx).ad) : decide (oa = a ∧ od = st.p.depth) = false := by
  rcases h.deeper with h1 | ⟨h1, h2⟩
  · simp; omega
  · simp; omega

theorem objBlock_val_obj {lv : Level} {tok : Tok} (hf : lv.flags = .expValue) (hv : tok.isValue = true) :
    objBlock lv tok = some ({ lv with flags := .expField }, tok) := by
  unfold objBlock
  simp [hf, Flags.inObject, hv]

theorem objBlock_arr {lv : Level} {tok : Tok} (hf : lv.flags = .arr1 ∨ lv.flags = .arr2) :
    objBlock lv tok = some (lv, tok) := by
  unfold objBlock
  rcases hf with hf | hf <;> simp [hf, Flags.inObject]

theorem arrBlock_notOrig (lv : Level) (tok : Tok) (s : Option Scan) : arrBlock lv tok false s = (lv, s) := by
  unfold arrBlock; simp

theorem arrBlock_notArr {lv : Level} (tok : Tok) (b : Bool) (s : Option Scan) (h : lv.flags.inArray = false) :
    arrBlock lv tok b s = (lv, s) := by
  unfold arrBlock; simp [h]

/-- value-context step of the two blocks: the level a value token is stored into, and the unchanged scan word -/
theorem blocks_value {st : LoopSt} {oa od : Nat} (hD : Deep st oa od) {lv : Level} {tok : Tok} (q : Parser)
    (hq : q.depth = st.p.depth) (hlv : lv.ad = (st.p.getLvl st.p.lvlIdx).ad ∧ lv.flags = (st.p.getLvl st.p.lvlIdx).flags)
    (hctx : ValCtx (st.p.getLvl st.p.lvlIdx)) (hv : tok.isValue = true) (isArr : Bool) :
    ∃ lv', objBlock lv tok = some (lv', tok) ∧
      arrBlock lv' tok (decide (oa = lv'.ad ∧ od = q.depth)) st.scan = (lv', st.scan) ∧
      lv'.ad = lv.ad ∧ lv'.name = lv.name ∧ lv'.val = lv.val ∧ lv'.ctype = lv.ctype ∧
      (if isArr then True else lv'.flags = afterFlags (st.p.getLvl st.p.lvlIdx) false) ∧
      ((st.p.getLvl st.p.lvlIdx).flags = .expValue → lv'.flags = .expField) ∧
      ((st.p.getLvl st.p.lvlIdx).flags ≠ .expValue → lv'.flags = lv.flags) := by
  rcases hctx with ⟨hf, ha⟩ | ⟨hf, ha⟩
  · refine ⟨{ lv with flags := .expField }, objBlock_val_obj (hlv.2.trans hf) hv, ?_, rfl, rfl, rfl, rfl, ?_, fun _ => rfl, fun h => absurd hf h⟩
    · exact arrBlock_notArr _ _ _ rfl
    · cases isArr <;> simp [afterFlags, hf]
  · have hf' : lv.flags = .arr1 ∨ lv.flags = .arr2 := by rw [hlv.2]; exact hf
    refine ⟨lv, objBlock_arr hf', ?_, rfl, rfl, rfl, rfl, ?_, fun h => ?_, fun _ => rfl⟩
    · have := deep_notOrig hD lv.ad hlv.1
      rw [hq, this]; exact arrBlock_notOrig _ _ _
    · cases isArr
      · simp only [Bool.false_eq_true, if_false]
        rw [hlv.2]; unfold afterFlags
        rcases hf with h | h <;> simp [h]
      · trivial
    · rcases hf with h1 | h1 <;> rw [h1] at h <;> cases h

end Binson

namespace Binson

/-- what `caseScalar` stores into the level -/
def scalarStore (tok : Tok) (lv : Level) (span : Span) (q : Parser) : Level :=
  match tok with
  | .string => { lv with ctype := .string, val := .span span }
  | .bytes => { lv with ctype := .bytes, val := .span span }
  | .integer => { lv with ctype := .integer, val := .int (parseIntVal q span) }
  | .double => { lv with ctype := .double, val := .dbl (leNat q span.off 8) }
  | .boolean => { lv with ctype := .boolean, val := .bool (q.byte span.off = 0x44) }
  | _ => lv

def Tok.isScalar : Tok → Bool
  | .string | .bytes | .integer | .double | .boolean => true
  | _ => false

theorem finish_cont (st : LoopSt) (tok : Tok) (p : Parser) (lv : Level) (li : Nat) (scan : Option Scan) (force : Bool)
    (hli : li < p.levels.size) (he : p.err = .none) (hc : force = true ∨ Cont scan) :
    finish st tok p lv li scan force =
      ({ st with p := p.setLvl li lv, scan := scan, ev := (tok, (p.setLvl li lv).getLvl (p.setLvl li lv).cur) :: st.ev }, .cont) := by
  unfold finish
  have e : (p.setLvl li lv).err = .none := by rw [(setLvl_fields lv hli).2.2.2.2.2.2.1]; exact he
  simp only [e, ne_eq, not_true_eq_false, if_false]
  have : (force || has scan [.verify, .leaveObj, .value, .leaveArr]) = true := by
    rcases hc with rfl | h
    · rfl
    · rw [h.has_objEnd]; simp
  rw [this]; rfl

theorem byte_buf {p q : Parser} (h : q.buf = p.buf) (i : Nat) : q.byte i = p.byte i := by
  unfold Parser.byte; rw [h]

theorem leNat_buf {p q : Parser} (h : q.buf = p.buf) (off w : Nat) : leNat q off w = leNat p off w := by
  induction w generalizing off with
  | zero => rfl
  | succ w ih => simp only [leNat, byte_buf h, ih]

theorem parseIntVal_buf {p q : Parser} (h : q.buf = p.buf) (s : Span) : parseIntVal q s = parseIntVal p s := by
  unfold parseIntVal
  simp only [leNat_buf h, byte_buf h]

theorem Level.eq_of_fields {a b : Level} (h1 : a.ctype = b.ctype) (h2 : a.val = b.val) (h3 : a.name = b.name)
    (h4 : a.flags = b.flags) (h5 : a.ad = b.ad) : a = b := by
  cases a; cases b; simp_all

/-- a scalar value token below the originating level -/
theorem iter_scalar {st : LoopSt} {sn : Option (List UInt8)} {oa od : Nat} (hD : Deep st oa od)
    (tok : Tok) (span : Span) (bc : Nat) (q : Parser) (hq : q = { st.p with used := st.p.used + bc })
    (hcl : classify st.p st.bc = ⟨tok, span, bc, q⟩)
    (hfit : st.p.used + bc ≤ st.p.size) (hsp : span.off + span.len ≤ st.p.size)
    (hctx : ValCtx (st.p.getLvl st.p.lvlIdx)) (hsc : tok.isScalar = true)
    (hint : tok = .integer → intBoundsOk (parseIntVal st.p span) span.len = true) :
    iter st sn oa od =
      ({ p := q.setLvl st.p.lvlIdx (scalarStore tok { st.p.getLvl st.p.lvlIdx with flags := afterFlags (st.p.getLvl st.p.lvlIdx) false } span st.p),
         scan := st.scan, bc := bc,
         ev := (tok, scalarStore tok { st.p.getLvl st.p.lvlIdx with flags := afterFlags (st.p.getLvl st.p.lvlIdx) false } span st.p) :: st.ev }, .cont) := by
  have hsh := hD.shape
  have hval : tok.isValue = true := by cases tok <;> simp_all [Tok.isScalar, Tok.isValue]
  have hne : tok ≠ .error := by intro h; rw [h] at hsc; cases hsc
  have hqs : Shape q := by rw [hq]; exact hsh.withUsed _ hfit
  have hqd : q.depth = st.p.depth := by rw [hq]
  have hqi : q.lvlIdx = st.p.lvlIdx := by rw [hq]; rfl
  have hqg : q.getLvl q.lvlIdx = st.p.getLvl st.p.lvlIdx := by rw [hq]; rfl
  have hqe : q.err = .none := by rw [hq]; exact hD.err
  have hqb : q.buf = st.p.buf := by rw [hq]
  have hqc : q.cur = st.p.lvlIdx := by rw [← hqi]; exact hqs.hcur
  have hli : st.p.lvlIdx < q.levels.size := by rw [← hqi]; exact hqs.lvlIdx_lt
  have hpi : parseIntVal q span = parseIntVal st.p span := parseIntVal_buf hqb span
  have hle : leNat q span.off 8 = leNat st.p span.off 8 := leNat_buf hqb _ _
  have hby : q.byte span.off = st.p.byte span.off := byte_buf hqb _
  obtain ⟨lv', hob, hab, h1, h2, h3, h4, h5, _, _⟩ :=
    blocks_value hD (lv := st.p.getLvl st.p.lvlIdx) (tok := tok) q hqd ⟨rfl, rfl⟩ hctx hval false
  simp only [Bool.false_eq_true, if_false] at h5
  have hlv' : lv' = { st.p.getLvl st.p.lvlIdx with flags := afterFlags (st.p.getLvl st.p.lvlIdx) false } :=
    Level.eq_of_fields h4 h3 h2 h5 h1
  unfold iter
  simp only [hcl, hne, if_false]
  rw [hqg, hob]
  simp only [hab, hqi]
  have hbuf : span.off + span.len ≤ q.buf.size := by rw [hqs.hbs, hq]; exact hsp
  have hev : ∀ l : Level, (q.setLvl st.p.lvlIdx l).getLvl (q.setLvl st.p.lvlIdx l).cur = l := by
    intro l
    rw [(setLvl_fields (p := q) l hli).2.2.2.2.2.2.2.1, hqc, getLvl_setLvl l hli]
    simp
  have hfin : ∀ l : Level, finish { st with bc := bc } tok q l st.p.lvlIdx st.scan false =
      ({ p := q.setLvl st.p.lvlIdx l, scan := st.scan, bc := bc, ev := (tok, l) :: st.ev }, .cont) := by
    intro l
    rw [finish_cont _ _ _ _ _ _ _ hli hqe (Or.inr hD.cont), hev l]
  subst hlv'
  cases tok with
  | string => exact hfin _
  | bytes => exact hfin _
  | boolean =>
    show caseScalar _ _ _ _ _ _ _ = _
    unfold caseScalar
    simp only [hby]
    exact hfin _
  | double =>
    show caseScalar _ _ _ _ _ _ _ = _
    unfold caseScalar
    simp only [touchBuf_of_le hbuf, hle]
    exact hfin _
  | integer =>
    show caseScalar _ _ _ _ _ _ _ = _
    unfold caseScalar
    simp only [touchBuf_of_le hbuf, hpi]
    have hi := hint rfl
    simp only [hi, Bool.not_true, Bool.false_eq_true, if_false]
    exact hfin _
  | objBegin => cases hsc
  | objEnd => cases hsc
  | arrBegin => cases hsc
  | arrEnd => cases hsc
  | error => cases hsc
  | fieldName => cases hsc

end Binson
