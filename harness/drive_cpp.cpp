/*
 * drive_cpp.cpp - in-process driver of the C++ Binson class (src/binson.cpp), C15.
 *
 *   drive_cpp gen <seed> <n> <ops_out> <impl_out>     random trees: serialize / round trips
 *   drive_cpp replay <ops_in> <impl_out>
 *
 * ops:  xs <tree>            build the tree with put() in the given order, serialize()
 *       xt <tree>            toStr()
 *       xr<k> <tree>         serialize, deserialize with overload k (1 vector, 2 ptr+size, 3 parser*, 4 parser* in mid-traversal,
 *                            5 parser* with its error flag set), serialize again
 *       xd<k> <fill> <hex>   deserialize arbitrary bytes with overload k after poisoning the stack with <fill>,
 *                            then serialize the result
 * tree: { k<hex> <v> ... }  [ <v> ... ]  t f i<dec> d<bits> s<hex> y<hex>
 * out:  ok <hex>  |  exc <what>   (a crash is a sanitizer abort)
 */
#include <cstdio>
#include <cstdlib>
#include <cstring>
#include <string>
#include <vector>
#include <sstream>
#include <stdexcept>
#include <unistd.h>
#include <signal.h>
#include "binson.hpp"

static uint64_t S = 88172645463325252ULL;
static uint64_t r64() { S ^= S << 13; S ^= S >> 7; S ^= S << 17; return S; }
static uint32_t rn(uint32_t n) { return n ? (uint32_t)((r64() >> 11) % n) : 0; }
static bool chance(int pct) { return (int)rn(100) < pct; }

static FILE *fout, *fops;

static int hexv(int c) { return c <= '9' ? c - '0' : (c | 32) - 'a' + 10; }
static std::string unhex(const std::string &s) { std::string o; if (s == "-") return o; for (size_t i = 0; i + 1 < s.size(); i += 2) o.push_back((char)(hexv(s[i]) * 16 + hexv(s[i + 1]))); return o; }
static std::string hex(const uint8_t *b, size_t n) { if (!n) return "-"; static const char *d = "0123456789abcdef"; std::string o; for (size_t i = 0; i < n; i++) { o.push_back(d[b[i] >> 4]); o.push_back(d[b[i] & 15]); } return o; }
static std::string hexs(const std::string &s) { return hex((const uint8_t *)s.data(), s.size()); }

/* ---- tree text -> Binson ---- */
struct Tok { std::vector<std::string> t; size_t i = 0; };
static BinsonValue parse_value(Tok &tk);
static Binson parse_object(Tok &tk) {   /* after "{" */
    Binson b;
    while (tk.i < tk.t.size() && tk.t[tk.i] != "}") {
        std::string k = tk.t[tk.i++];
        std::string key = unhex(k.substr(1));
        BinsonValue v = parse_value(tk);
        /* all three put() overloads build the same tree (chosen from the key, so that a line replays identically) */
        unsigned sel = (unsigned)(key.size() * 7 + (key.empty() ? 3 : (unsigned char)key[0]));
        if (v.myType() == BinsonValue::Types::objectType && sel % 2 == 0) b.put(key, Binson(v.getObject()));
        else if (v.myType() == BinsonValue::Types::binaryType && sel % 2 == 0) { const std::vector<uint8_t> &d = v.getBin(); static const uint8_t none = 0; b.put(key, d.empty() ? &none : d.data(), d.size()); }
        else b.put(key, v);
    }
    tk.i++;
    return b;
}
static BinsonValue parse_value(Tok &tk) {
    if (tk.i >= tk.t.size()) throw std::runtime_error("bad tree");
    std::string x = tk.t[tk.i++];
    /* every constructor and assignment operator of BinsonValue yields the same value; which one is used follows from the
       token text, so that a line replays identically */
    unsigned sel = (unsigned)x.size() + (unsigned char)x[x.size() - 1];
    switch (x[0]) {
    case 't': if (sel % 2) { BinsonValue v; v = true; return v; } return BinsonValue(true);
    case 'f': if (sel % 2) { BinsonValue v; v = false; return v; } return BinsonValue(false);
    case 'i': { int64_t n = (int64_t)strtoll(x.c_str() + 1, nullptr, 10);
                if (n >= -2147483647LL - 1 && n <= 2147483647LL && sel % 3 == 0) return BinsonValue((int)n);
                if (n >= -2147483647LL - 1 && n <= 2147483647LL && sel % 3 == 1) { BinsonValue v; v = (int)n; return v; }
                if (sel % 2) { BinsonValue v; v = (int64_t)n; return v; }
                return BinsonValue(n); }
    case 'd': { uint64_t u = strtoull(x.c_str() + 1, nullptr, 10); double d; memcpy(&d, &u, 8); if (sel % 2) { BinsonValue v; v = (double)d; return v; } return BinsonValue(d); }
    case 's': { std::string str = unhex(x.substr(1));
                if (str.find('\0') == std::string::npos && sel % 3 == 0) return BinsonValue(str.c_str());
                if (sel % 3 == 1) { const std::string &cref = str; return BinsonValue(cref); }
                if (sel % 2) { BinsonValue v; v = std::string(str); return v; }
                return BinsonValue(std::string(str)); }
    case 'y': { std::string s = unhex(x.substr(1)); std::vector<uint8_t> bin(s.begin(), s.end()); if (sel % 2) { BinsonValue v; v = std::vector<uint8_t>(bin); return v; } return BinsonValue(bin); }
    case '{': { Binson o = parse_object(tk); if (sel % 2) { BinsonValue v; v = Binson(o); return v; } return BinsonValue(o); }
    case '[': { std::vector<BinsonValue> a; while (tk.i < tk.t.size() && tk.t[tk.i] != "]") a.push_back(parse_value(tk)); tk.i++; if (sel % 2) { BinsonValue v; v = std::vector<BinsonValue>(a); return v; } return BinsonValue(a); }
    default: throw std::runtime_error("bad tree token " + x);
    }
}
static Binson parse_tree(const std::vector<std::string> &toks, size_t from) {
    Tok tk; tk.t.assign(toks.begin() + from, toks.end());
    if (tk.t.empty() || tk.t[0] != "{") throw std::runtime_error("tree must be an object");
    tk.i = 1; return parse_object(tk);
}

/* poison the stack region the callee's locals will occupy */
static void __attribute__((noinline)) poison_stack(int fill) {
    volatile unsigned char a[6000];
    for (size_t i = 0; i < sizeof a; i++) a[i] = (unsigned char)fill;
    __asm__ volatile("" ::: "memory");
}

static void do_deserialize(Binson &b, int k, const std::string &bytes, int fill) {
    if (k == 1) {
        std::vector<uint8_t> v(bytes.begin(), bytes.end()); v.shrink_to_fit();
        if (fill >= 0) poison_stack(fill);
        b.deserialize(v);
    } else if (k == 2) {
        uint8_t *ex = (uint8_t *)malloc(bytes.size() ? bytes.size() : 1); memcpy(ex, bytes.data(), bytes.size());
        try { if (fill >= 0) poison_stack(fill); b.deserialize(bytes.size() ? ex : (const uint8_t *)nullptr, bytes.size()); }   /* nothing to parse: (NULL, 0), what an empty container's data() gives */ catch (...) { free(ex); throw; }
        free(ex);
    } else {
        uint8_t *ex = (uint8_t *)malloc(bytes.size() ? bytes.size() : 1); memcpy(ex, bytes.data(), bytes.size());
        binson_state *st = (binson_state *)malloc(sizeof(binson_state) * 10); memset(st, fill, sizeof(binson_state) * 10);
        binson_parser *p = (binson_parser *)malloc(sizeof(binson_parser)); memset(p, fill, sizeof *p);
        p->state = st; p->max_depth = 10;
        bool ok = binson_parser_init(p, ex, bytes.size());
        if (ok && k == 4) { binson_parser_go_into_object(p); binson_parser_next(p); binson_parser_next(p); }   /* a parser that is in the middle of a traversal */
        if (ok && k == 5) { (void)binson_parser_get_name(p); }                                                  /* a parser whose error flag is set (STATE) */
        try { if (!ok) throw std::runtime_error("Parser init error"); b.deserialize(p); } catch (...) { free(ex); free(st); free(p); throw; }
        free(ex); free(st); free(p);
    }
}

static void on_alarm(int) { static const char m[] = "TIMEOUT\n"; if (write(2, m, sizeof m - 1)) {} _exit(97); }

static void exec_line(const std::string &line) {
    std::istringstream is(line); std::vector<std::string> t; std::string x; while (is >> x) t.push_back(x);
    if (t.empty()) return;
    alarm(20);
    try {
        if (t[0] == "C") { fprintf(fout, "C %s\n", t.size() > 1 ? t[1].c_str() : "0"); return; }
        if (t[0] == "xt") {      /* Binson::toStr(): the text of the tree, "" when the document is refused (e.g. nested deeper than 10) */
            Binson b = parse_tree(t, 1); std::string str = b.toStr();
            fprintf(fout, "ok %s\n", hexs(str).c_str()); return;
        }
        if (t[0] == "xs") {
            Binson b = parse_tree(t, 1); std::vector<uint8_t> v = b.serialize();
            fprintf(fout, "ok %s\n", hex(v.data(), v.size()).c_str()); return;
        }
        /* a trailing 'p' on xr<k>/xd<k>: the destination object already holds fields (deserialize must replace, not merge) */
        bool pre = t[0].size() == 4 && t[0][3] == 'p';
        if ((t[0].size() == 3 || pre) && t[0][0] == 'x' && t[0][1] == 'r') {
            Binson b = parse_tree(t, 1); std::vector<uint8_t> v = b.serialize();
            Binson c; if (pre) { c.put("zz", BinsonValue((int64_t)1)); c.put("", BinsonValue(std::string("old"))); }
            do_deserialize(c, t[0][2] - '0', std::string(v.begin(), v.end()), 0xC8);
            std::vector<uint8_t> w = c.serialize();
            /* the lookup interface agrees with the round trip: every key of x is in the result with the same type, no foreign key */
            for (auto it = b.begin(); it != b.end(); ++it) {
                if (!c.hasKey(it->first) || c.get(it->first).myType() != it->second.myType()) throw std::runtime_error("round trip lost or retyped a key");
            }
            if (c.hasKey(std::string("\x01no-such-key"))) throw std::runtime_error("hasKey true for an absent key");
            fprintf(fout, "ok %s %s\n", hex(v.data(), v.size()).c_str(), hex(w.data(), w.size()).c_str()); return;
        }
        if ((t[0].size() == 3 || pre) && t[0][0] == 'x' && t[0][1] == 'd' && t.size() >= 3) {
            Binson c; if (pre) { c.put("zz", BinsonValue((int64_t)1)); c.put("", BinsonValue(std::string("old"))); }
            int fill = atoi(t[1].c_str());
            if (fill < 0) {   /* fill -1: no poisoning - the stack holds what a successful deserialize of another document through the same overload left there */
                static const char good[] = "\x40\x14\x01\x61\x10\x07\x14\x01\x62\x14\x02hi\x41";
                Binson g; do_deserialize(g, t[0][2] - '0', std::string(good, sizeof good - 1), 0xC8);
            }
            do_deserialize(c, t[0][2] - '0', unhex(t[2]), fill);
            std::vector<uint8_t> w = c.serialize();
            fprintf(fout, "ok %s\n", hex(w.data(), w.size()).c_str()); return;
        }
        fprintf(fout, "bad-op\n");
    } catch (const std::exception &e) {
        fprintf(fout, "exc %s\n", e.what());
    }
}

/* ---- generator ---- */
static const char *KEYS[] = { "", "a", "ab", "abc", "b", "c", "key", "z", "\xc3\xa5", "\x80", "\xff", "a\x01", "B", "0" };
static std::string rnd_key() {
    if (chance(8)) { std::string k("a\0b", 3); if (chance(50)) k = std::string("\0", 1); return k; }
    return KEYS[rn(sizeof KEYS / sizeof *KEYS)];
}
static int64_t INTS[] = { 0, 1, -1, 127, 128, -128, -129, 32767, 32768, -32768, -32769, 2147483647LL, 2147483648LL, -2147483648LL, -2147483649LL, INT64_MAX, INT64_MIN };
static std::string gen_value(int depth, int &budget, int maxdepth);
static std::string gen_object(int depth, int &budget, int maxdepth) {
    std::string o = "{";
    int n = (int)rn(depth > 5 ? 2 : 5);
    for (int i = 0; i < n && budget > 0; i++) { budget--; o += " k" + hexs(rnd_key()) + " " + gen_value(depth + 1, budget, maxdepth); }
    return o + " }";
}
static std::string gen_value(int depth, int &budget, int maxdepth) {
    char b[64];
    if (depth < maxdepth && chance(30)) {
        if (chance(55)) return gen_object(depth, budget, maxdepth);
        std::string o = "["; int n = (int)rn(4); for (int i = 0; i < n && budget > 0; i++) { budget--; o += " " + gen_value(depth, budget, maxdepth); } return o + " ]";
    }
    switch (rn(5)) {
    case 0: return chance(50) ? "t" : "f";
    case 1: snprintf(b, sizeof b, "i%lld", (long long)(chance(60) ? INTS[rn(17)] : (int64_t)r64())); return b;
    case 2: { static const uint64_t D[] = { 0, 0x8000000000000000ULL, 0x7ff0000000000000ULL, 0x7ff8000000000001ULL, 0x3ff0000000000000ULL, 0x0102030405060708ULL, 1, 0x80ULL, 0x1234ULL, 0x8000ULL, 0x12345678ULL, 0x80000000ULL, 0xffffffffffffff7fULL, 0xffffffffffff7fffULL, 0xffffffff7fffffffULL }; snprintf(b, sizeof b, "d%llu", (unsigned long long)(chance(60) ? D[rn(15)] : r64())); return b; }
    case 3: { size_t n = chance(4) ? 200 + rn(1200) : rn(8); std::string s; for (size_t i = 0; i < n; i++) s.push_back((char)(chance(90) ? 'a' + rn(5) : (int)rn(256))); return "s" + hexs(s); }
    default: { size_t n = chance(4) ? 200 + rn(1200) : rn(8); std::string s; for (size_t i = 0; i < n; i++) s.push_back((char)rn(256)); return "y" + hexs(s); }
    }
}
static std::string gen_deep(int d) {   /* d nested objects */
    std::string o; for (int i = 0; i < d; i++) o += (i ? "k61 { " : "{ "); for (int i = 0; i < d; i++) o += "} "; return o;
}
static void emit(const std::string &line) { fprintf(fops, "%s\n", line.c_str()); fflush(fops); exec_line(line); }

int main(int argc, char **argv) {
    signal(SIGALRM, on_alarm);
    if (argc >= 4 && !strcmp(argv[1], "replay")) {
        FILE *in = fopen(argv[2], "r"); fout = fopen(argv[3], "w"); if (!in || !fout) return 2;
        setvbuf(fout, NULL, _IOLBF, 1 << 16);
        static char line[1 << 22];
        while (fgets(line, sizeof line, in)) exec_line(line);
        fclose(fout); return 0;
    }
    if (argc >= 6 && !strcmp(argv[1], "gen")) {
        uint64_t seed = strtoull(argv[2], nullptr, 10); long n = atol(argv[3]);
        fops = fopen(argv[4], "w"); fout = fopen(argv[5], "w"); if (!fops || !fout) return 2;
        setvbuf(fout, NULL, _IOLBF, 1 << 16);
        S ^= seed * 0x9E3779B97F4A7C15ULL; for (int i = 0; i < 8; i++) r64();
        for (long id = 0; id < n; id++) {
            char c[32]; snprintf(c, sizeof c, "C %ld", id); emit(c);
            int budget = 2 + (int)rn(16);
            std::string tree;
            if (chance(6)) tree = gen_deep(8 + (int)rn(5));      /* object nesting 8..12 (root counts) */
            else if (chance(5)) { int d = chance(50) ? 30 + (int)rn(10) : 200 + (int)rn(60); tree = "{ k61"; for (int i = 0; i < d; i++) tree += " ["; tree += " i7"; for (int i = 0; i < d; i++) tree += " ]"; tree += " }"; }   /* arrays nested 30..259 deep (limit 255) */
            else tree = gen_object(1, budget, chance(10) ? 12 : 8);
            emit("xs " + tree);
            if (chance(30)) emit("xt " + tree);
            char op[8]; snprintf(op, sizeof op, "xr%d%s", 1 + (int)rn(5), chance(40) ? "p" : ""); emit(std::string(op) + " " + tree);
        }
        fclose(fops); fclose(fout); return 0;
    }
    fprintf(stderr, "usage: drive_cpp gen <seed> <n> <ops> <impl> | replay <ops> <impl>\n"); return 2;
}
