/-
  The callback log a value must produce, as the print callbacks see it (`EvView`), defined
  structurally on the tree. `ad` is the array depth of the level the value sits in.
  The pass-through lemma (Lemmas/Pass*.lean) shows verify's log on `encode v` is `viewsOf 0 v`;
  the print theorems (C13/C14) are about these lists only.
-/
import Binson.Spec.Value
import Binson.Model.Print
namespace Binson

mutual
def viewsOf (ad : Nat) : Value → List EvView
  | .bool b => [⟨.boolean, 0, [], [], .bool b⟩]
  | .int i => [⟨.integer, 0, [], [], .int i⟩]
  | .dbl d => [⟨.double, 0, [], [], .dbl d.toNat⟩]
  | .str s => [⟨.string, 0, [], s, .none⟩]
  | .bytes s => [⟨.bytes, 0, [], s, .none⟩]
  | .arr xs => ⟨.arrBegin, 0, [], [], .none⟩ :: (viewsOfE (ad + 1) xs ++ [⟨.arrEnd, ad, [], [], .none⟩])
  | .obj fs => ⟨.objBegin, 0, [], [], .none⟩ :: (viewsOfF fs ++ [⟨.objEnd, ad, [], [], .none⟩])
def viewsOfE (ad : Nat) : Elems → List EvView
  | .nil => []
  | .cons v r => viewsOf ad v ++ viewsOfE ad r
def viewsOfF : Fields → List EvView
  | .nil => []
  | .cons n v r => ⟨.fieldName, 0, n, [], .none⟩ :: (viewsOf 0 v ++ viewsOfF r)
end

end Binson
