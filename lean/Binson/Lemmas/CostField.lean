/-
  C16, tight form, part 3d: `binson_parser_field_with_length`, a loop of VALUE-mode
  `_advance_parsing` calls.

  A call in the loop that lets the loop go on (it returned `true`) can have advanced ZERO bytes:
  on a `{` / `[` element of an array the first call only toggles IN_ARRAY_1 → IN_ARRAY_2 and
  reports the element (one token).  So "each continuing call advances ≥ 1 byte" is FALSE; what is
  true is that `cursor + [level is IN_ARRAY_2]` strictly increases over every call that returns
  `true` (`cost_advance_value_progress`).  With `advance_cost_tight` this gives
      tokens(field) ≤ 2 · (bytes advanced over) + 2          (`field_cost`).
  `tokens ≤ bytes + c` is false for every constant `c`: `field("x")` from inside the array
  `[{}{}…{}]` processes 3 tokens per 2 bytes (see the `#eval`s at the end of `Cost.lean`).
-/
import Binson.Lemmas.CostValueIter
import Binson.Lemmas.CostCalls
namespace Binson

/-- 1 if the level of the cursor is in state IN_ARRAY_2 (a `{` / `[` array element has been
    reported but not yet entered or skipped), else 0 -/
def Parser.arr2Bit (p : Parser) : Nat := if p.curFlags = .arr2 then 1 else 0

theorem cost_arr2Bit_le (p : Parser) : p.arr2Bit ≤ 1 := by
  unfold Parser.arr2Bit; split <;> omega

/-- the loop from a VALUE-mode state: a `true` result means `cursor + IN_ARRAY_2 bit` went up -/
theorem cost_advLoop_value1 (f : Nat) (st : LoopSt) (sn : Option (List UInt8)) (oa od : Nat)
    (h : Shape st.p) (he : st.p.err = .none) (hs : st.scan = some .value)
    (hr : (advLoop f st sn oa od).2 = .done true) :
    st.p.used + 1 ≤ (advLoop f st sn oa od).1.p.used + (advLoop f st sn oa od).1.p.arr2Bit := by
  cases f with
  | zero => unfold advLoop at hr; cases hr
  | succ f =>
    have is := iter_spec st sn oa od h he
    have im := iter_used_mono st sn oa od h he
    have iv := cost_iter_value st sn oa od h he hs
    unfold advLoop at hr ⊢
    generalize iter st sn oa od = r at is im iv hr
    obtain ⟨st', out⟩ := r
    obtain ⟨ish, ifr, iev, icont⟩ := is
    obtain ⟨iv1, iv2, iv3⟩ := iv
    simp only at ish ifr iev icont im iv1 iv2 iv3
    cases out with
    | ret b =>
      have hb : b = true := by
        have : (LoopRes.done b) = .done true := hr
        cases this; rfl
      rw [hb] at iv1; exact absurd rfl iv1
    | stop =>
      show st.p.used + 1 ≤ st'.p.used + st'.p.arr2Bit
      by_cases hz : st'.p.used = st.p.used
      · have := (iv2 rfl hz).2
        unfold Parser.arr2Bit; rw [if_pos this]; omega
      · omega
    | cont =>
      obtain ⟨e', hu'⟩ := icont rfl
      have := (cost_advLoop f st' sn oa od ish e').mono
      show st.p.used + 1 ≤ (advLoop f st' sn oa od).1.p.used + (advLoop f st' sn oa od).1.p.arr2Bit
      omega

/-- ... and from IN_ARRAY_2 it went up by two -/
theorem cost_advLoop_value2 (f : Nat) (st : LoopSt) (sn : Option (List UInt8)) (oa od : Nat)
    (h : Shape st.p) (he : st.p.err = .none) (hs : st.scan = some .value) (hf : st.p.curFlags = .arr2)
    (hr : (advLoop f st sn oa od).2 = .done true) :
    st.p.used + 2 ≤ (advLoop f st sn oa od).1.p.used + (advLoop f st sn oa od).1.p.arr2Bit := by
  cases f with
  | zero => unfold advLoop at hr; cases hr
  | succ f =>
    have is := iter_spec st sn oa od h he
    have im := iter_used_mono st sn oa od h he
    have iv := cost_iter_value st sn oa od h he hs
    unfold advLoop at hr ⊢
    generalize iter st sn oa od = r at is im iv hr
    obtain ⟨st', out⟩ := r
    obtain ⟨ish, ifr, iev, icont⟩ := is
    obtain ⟨iv1, iv2, iv3⟩ := iv
    simp only at ish ifr iev icont im iv1 iv2 iv3
    cases out with
    | ret b =>
      have hb : b = true := by
        have : (LoopRes.done b) = .done true := hr
        cases this; rfl
      rw [hb] at iv1; exact absurd rfl iv1
    | stop =>
      show st.p.used + 2 ≤ st'.p.used + st'.p.arr2Bit
      have hne : st'.p.used ≠ st.p.used := by
        intro hz
        have := (iv2 rfl hz).1
        rw [hf] at this; cases this
      have := (iv3 hf).1 rfl
      unfold Parser.arr2Bit; rw [if_pos this]; omega
    | cont =>
      obtain ⟨e', hu'⟩ := icont rfl
      have hs' := (iv3 hf).2 rfl
      have := cost_advLoop_value1 f st' sn oa od ish e' hs' hr
      show st.p.used + 2 ≤ (advLoop f st' sn oa od).1.p.used + (advLoop f st' sn oa od).1.p.arr2Bit
      omega

/-- **Progress of a VALUE-mode call that returns `true`** (`next`, and every call inside `field`
    after which the `field` loop goes on): `cursor + IN_ARRAY_2 bit` strictly increases. -/
theorem cost_advance_value_progress (p : Parser) (sn : Option (List UInt8)) (h : Shape p)
    (hr : (advance p .value sn).ret = true) :
    p.used + p.arr2Bit + 1 ≤ (advance p .value sn).p.used + (advance p .value sn).p.arr2Bit := by
  unfold advance at hr ⊢
  by_cases he : p.err = .none
  · rw [if_neg (by simp [he])] at hr ⊢
    simp only [touchLvl_of_lt h.cur_lt] at hr ⊢
    have l1 := cost_advLoop_value1 (p.size - p.used + 2) ⟨p, some .value, 0, []⟩ sn (p.getLvl p.cur).ad p.depth h he rfl
    have l2 := cost_advLoop_value2 (p.size - p.used + 2) ⟨p, some .value, 0, []⟩ sn (p.getLvl p.cur).ad p.depth h he rfl
    generalize advLoop (p.size - p.used + 2) ⟨p, some .value, 0, []⟩ sn (p.getLvl p.cur).ad p.depth = r at l1 l2 hr
    cases hr2 : r.2 with
    | done b =>
      rw [hr2] at hr l1 l2
      simp only at hr ⊢
      subst hr
      by_cases hf : p.curFlags = .arr2
      · have := l2 hf rfl
        have := cost_arr2Bit_le p
        simp only at *
        omega
      · have := l1 rfl
        have hb : p.arr2Bit = 0 := by unfold Parser.arr2Bit; rw [if_neg hf]
        simp only at *
        omega
    | outOfFuel =>
      rw [hr2] at hr
      simp only at hr
      cases hr
  · rw [if_pos (by simpa using he)] at hr
    cases hr

/-- the `field` loop: shape, monotone cursor, and
    `tokens + 2·cursor before + IN_ARRAY_2 bit ≤ 2·cursor after + 2` -/
theorem cost_fieldLoopC (f : Nat) (p : Parser) (nm : List UInt8) (c : Nat) (h : Shape p) :
    Shape (fieldLoopC f p nm c).1 ∧ (fieldLoopC f p nm c).1.size = p.size ∧ p.used ≤ (fieldLoopC f p nm c).1.used ∧
    (fieldLoopC f p nm c).2.2 + 2 * p.used + p.arr2Bit ≤ c + 2 * (fieldLoopC f p nm c).1.used + 2 := by
  induction f generalizing p c with
  | zero =>
    unfold fieldLoopC
    have := cost_arr2Bit_le p
    exact ⟨h, rfl, Nat.le_refl _, by simp only; omega⟩
  | succ f ih =>
    have ha := adv_shape p .value (some nm) h
    have hz := frame_adv p .value (some nm) h
    have hm := advance_used_mono p .value (some nm) h
    have hc := advance_cost_tight p .value (some nm) h
    have hp := cost_advance_value_progress p (some nm) h
    have hb := cost_arr2Bit_le p
    have hb' := cost_arr2Bit_le (advance p .value (some nm)).p
    unfold fieldLoopC
    simp only
    generalize advance p .value (some nm) = a at ha hz hm hc hp hb'
    cases hret : a.ret with
    | false =>
      simp only [Bool.not_false, if_true]
      exact ⟨ha, hz, hm, by omega⟩
    | true =>
      simp only [Bool.not_true, Bool.false_eq_true, if_false]
      have hp' := hp hret
      split
      · exact ⟨ha, hz, hm, by simp only; omega⟩
      · split
        · exact ⟨ha, hz, hm, by simp only; omega⟩
        · obtain ⟨i1, iz, i2, i3⟩ := ih a.p (c + a.ev.length) ha
          exact ⟨i1, iz.trans hz, Nat.le_trans hm i2, by omega⟩

/-- **`field_cost`**: `binson_parser_field_with_length` processes at most
    `2 · (bytes advanced over) + 2` tokens, and never leaves the cursor before where it found it. -/
theorem field_cost (p : Parser) (nm : List UInt8) (h : Shape p) :
    Shape (fieldC p nm).1 ∧ (fieldC p nm).1.size = p.size ∧ p.used ≤ (fieldC p nm).1.used ∧
    (fieldC p nm).2.2 + 2 * p.used ≤ 2 * (fieldC p nm).1.used + 2 := by
  obtain ⟨a, z, b, c⟩ := cost_fieldLoopC (p.size + 2) p nm 0 h
  exact ⟨a, z, b, by unfold fieldC; omega⟩

theorem fieldEnsure_cost (p : Parser) (nm : List UInt8) (t : Ty) (h : Shape p) :
    Shape (fieldEnsureC p nm t).1 ∧ (fieldEnsureC p nm t).1.size = p.size ∧ p.used ≤ (fieldEnsureC p nm t).1.used ∧
    (fieldEnsureC p nm t).2.2 + 2 * p.used ≤ 2 * (fieldEnsureC p nm t).1.used + 2 := by
  have hf := field_cost p nm h
  unfold fieldEnsureC
  generalize fieldC p nm = r at hf
  obtain ⟨q, ok, n⟩ := r
  simp only at hf ⊢
  split
  · exact hf
  · split
    · exact hf
    · exact ⟨hf.1.withErr _ (by simp), hf.2.1, hf.2.2.1, hf.2.2.2⟩

end Binson
