/-
  Layer 4, part 6: AT the originating level, a container value is skipped whole (entered by the
  at-level BEGIN lemma, passed through by `pass_fields`/`pass_elems`, closed by the below-level
  END lemma) in every continuing scan mode.
-/
import Binson.Lemmas.NavTokEnd
namespace Binson

/-- the loop state is AT the level `(od, oa)` the call started at -/
structure AtOrig (st : LoopSt) (oa od : Nat) : Prop where
  shape : Shape st.p
  err : st.p.err = .none
  d1 : 1 ≤ st.p.depth
  od : od = st.p.depth
  oa : oa = (st.p.getLvl st.p.lvlIdx).ad
  zeros : ∀ i, st.p.depth ≤ i → st.p.getLvl i = Level.zero
  md255 : st.p.maxDepth ≤ 255
  rootArr : st.p.ptype = 2 → st.p.depth = 1 → 1 ≤ (st.p.getLvl st.p.lvlIdx).ad

/-- what a run that comes back to the originating level leaves alone -/
structure Kept (st st' : LoopSt) : Prop where
  depth : st'.p.depth = st.p.depth
  frame : st.p.Frame st'.p
  lower : ∀ i, i < st.p.lvlIdx → st'.p.getLvl i = st.p.getLvl i
  ad : (st'.p.getLvl st.p.lvlIdx).ad = (st.p.getLvl st.p.lvlIdx).ad

theorem Kept.refl (st : LoopSt) : Kept st st := ⟨rfl, Parser.Frame.refl _, fun _ _ => rfl, rfl⟩

theorem Kept.lvlIdx {st st' : LoopSt} (h : Kept st st') : st'.p.lvlIdx = st.p.lvlIdx := by
  unfold Parser.lvlIdx; rw [h.depth]

theorem Kept.trans {a b c : LoopSt} (h1 : Kept a b) (h2 : Kept b c) : Kept a c := by
  have hi := h1.lvlIdx
  refine ⟨h2.depth.trans h1.depth, h1.frame.trans h2.frame, ?_, ?_⟩
  · intro i hlt; rw [h2.lower i (by rw [hi]; exact hlt), h1.lower i hlt]
  · have := h2.ad; rw [hi] at this; rw [this, h1.ad]

theorem objBlock_notObj {lv : Level} (tok : Tok) (h : lv.flags.inObject = false) : objBlock lv tok = some (lv, tok) := by
  unfold objBlock; simp [h]

theorem arrBlock_orig_begin1 {lv : Level} {tok : Tok} (s : Option Scan) (hf : lv.flags = .arr1)
    (ht : tok = .objBegin ∨ tok = .arrBegin) :
    arrBlock lv tok true s = ({ lv with flags := .arr2 }, clear s .value) := by
  unfold arrBlock; simp [hf, Flags.inArray, ht]

theorem arrBlock_orig_begin2 {lv : Level} {tok : Tok} (s : Option Scan) (hf : lv.flags = .arr2)
    (ht : tok = .objBegin ∨ tok = .arrBegin) :
    arrBlock lv tok true s = ({ lv with flags := .arr1 }, s) := by
  unfold arrBlock; simp [hf, Flags.inArray, ht]

theorem arrBlock_orig_scalar {lv : Level} {tok : Tok} (s : Option Scan) (hina : lv.flags.inArray = true)
    (ht : tok.isScalar = true) :
    arrBlock lv tok true s = (lv, clear s .value) := by
  unfold arrBlock
  have : ¬ (tok = .objBegin ∨ tok = .arrBegin) := by
    intro h; rcases h with h | h <;> rw [h] at ht <;> cases ht
  simp [hina, this]

theorem outOf_cont {s : Option Scan} (h : Cont s) : outOf s = .cont := by
  unfold outOf; rw [h.has_objEnd]; rfl

theorem clear_value_of_ne {s : Option Scan} (h : s ≠ some .value) : clear s .value = s := by
  unfold clear; rw [if_neg h]

/-- the flags of a level in front of a container value it is about to enter/skip -/
def PendFlags (l : Level) (scan : Option Scan) : Prop :=
  (l.flags = .expValue ∧ l.ad = 0) ∨ (l.flags = .arr2 ∧ 1 ≤ l.ad) ∨ (l.flags = .arr1 ∧ 1 ≤ l.ad ∧ scan ≠ some .value)

/-- what the two flag blocks make of a BEGIN token at the originating level -/
theorem blocks_begin_orig {L : Level} {tok : Tok} {scan : Option Scan} {oa od d : Nat} (ht : tok = .objBegin ∨ tok = .arrBegin)
    (hp : PendFlags L scan) (hoa : oa = L.ad) (hod : od = d) (ct : Ty) :
    ∃ lv1 lv2, objBlock { L with ctype := ct } tok = some (lv1, tok) ∧
      arrBlock lv1 tok (decide (oa = lv1.ad ∧ od = d)) scan = (lv2, scan) ∧
      lv2.ad = L.ad ∧ lv2.name = L.name ∧ lv2.val = L.val ∧ lv2.ctype = ct ∧
      (L.flags = .expValue → lv2.flags = .expField) ∧ (L.flags = .arr2 → lv2.flags = .arr1) ∧ (L.flags = .arr1 → lv2.flags = .arr2) := by
  have hv : tok.isValue = true := by rcases ht with h | h <;> rw [h] <;> rfl
  rcases hp with ⟨hf, _⟩ | ⟨hf, _⟩ | ⟨hf, _, hs⟩
  · refine ⟨{ { L with ctype := ct } with flags := .expField }, { { L with ctype := ct } with flags := .expField },
      objBlock_val_obj (lv := { L with ctype := ct }) hf hv, arrBlock_notArr _ _ _ rfl, rfl, rfl, rfl, rfl, fun _ => rfl, ?_, ?_⟩
    · intro h; rw [hf] at h; cases h
    · intro h; rw [hf] at h; cases h
  · have hd : decide (oa = ({ L with ctype := ct } : Level).ad ∧ od = d) = true := by simp [hoa, hod]
    refine ⟨{ L with ctype := ct }, { { L with ctype := ct } with flags := .arr1 }, objBlock_arr (lv := { L with ctype := ct }) (Or.inr hf), ?_,
      rfl, rfl, rfl, rfl, ?_, fun _ => rfl, ?_⟩
    · rw [hd]; exact arrBlock_orig_begin2 (lv := { L with ctype := ct }) _ hf ht
    · intro h; rw [hf] at h; cases h
    · intro h; rw [hf] at h; cases h
  · have hd : decide (oa = ({ L with ctype := ct } : Level).ad ∧ od = d) = true := by simp [hoa, hod]
    refine ⟨{ L with ctype := ct }, { { L with ctype := ct } with flags := .arr2 }, objBlock_arr (lv := { L with ctype := ct }) (Or.inl hf), ?_,
      rfl, rfl, rfl, rfl, ?_, ?_, fun _ => rfl⟩
    · rw [hd, arrBlock_orig_begin1 (lv := { L with ctype := ct }) _ hf ht, clear_value_of_ne hs]
    · intro h; rw [hf] at h; cases h
    · intro h; rw [hf] at h; cases h


/-- what `skip_container` says about the flags of the level afterwards -/
def SkipFlags (L L' : Level) : Prop :=
  (L.flags = .expValue → L'.flags = .expField) ∧ (L.flags = .arr2 → L'.flags = .arr1) ∧
  (L.flags = .arr1 → L'.flags = .arr1 ∨ L'.flags = .arr2)

theorem skip_obj (fs : Fields) {st : LoopSt} {sn : Option (List UInt8)} {oa od : Nat}
    (hO : AtOrig st oa od) (hcont : Cont st.scan) (rest : Bytes) (hrem : st.p.rem = encode (.obj fs) ++ rest)
    (hwf : wfValue (.obj fs) = true)
    (hfit : fits (st.p.maxDepth - st.p.depth) (255 - (st.p.getLvl st.p.lvlIdx).ad) (.obj fs) = true)
    (hp : PendFlags (st.p.getLvl st.p.lvlIdx) st.scan) :
    ∃ st', Steps sn oa od st st' ∧ st'.p.rem = rest ∧ AtOrig st' oa od ∧ st'.scan = st.scan ∧ Kept st st' ∧
      (st'.p.getLvl st.p.lvlIdx).name = (st.p.getLvl st.p.lvlIdx).name ∧
      SkipFlags (st.p.getLvl st.p.lvlIdx) (st'.p.getLvl st.p.lvlIdx) := by
  have hsh := hO.shape
  have hd1 := hO.d1
  have hidx : st.p.lvlIdx = st.p.depth - 1 := Parser.lvlIdx_of_pos hd1
  have hrem' : st.p.rem = 0x40 :: (encFields fs ++ 0x41 :: rest) := by simpa [encode] using hrem
  have hcl := classify_objBegin hsh hO.err st.bc _ hrem'
  have hlt := (rem_cons hsh hrem').2.1
  have hfit' : (1 ≤ st.p.maxDepth - st.p.depth) ∧ fitsF (st.p.maxDepth - st.p.depth - 1) fs = true := by
    simpa [fits] using hfit
  obtain ⟨lv1, lv2, hob, hab, b1, b2, _, _, b5, b6, b7⟩ :=
    blocks_begin_orig (tok := .objBegin) (d := st.p.depth) (Or.inl rfl) hp hO.oa hO.od .object
  obtain ⟨st1, i1, r1⟩ := iter_objBegin_enter (sn := sn) hsh hO.err hd1 (hO.zeros _ (Nat.le_refl _)) hO.md255 (by omega) hcl hlt
    lv1 lv2 st.scan hob hab hcont.has_objBegin
  rw [hcont.clear_enterObj] at i1 r1
  rw [outOf_cont hcont] at i1
  have hne : st.p.lvlIdx ≠ st.p.depth := by omega
  have hi1 : st1.p.lvlIdx = st.p.depth := by unfold Parser.lvlIdx; rw [r1.depth]; simp
  have hl1 : st1.p.getLvl st1.p.lvlIdx = freshObjLevel := by rw [hi1, r1.lvl]; simp
  have hD1 : Deep st1 oa od := by
    refine ⟨r1.shape, r1.err, by rw [r1.scan]; exact hcont, by rw [r1.depth]; omega, Or.inl (by rw [r1.depth, hO.od]; omega), ?_, ?_,
      by rw [r1.frame.2.2.1]; exact hO.md255⟩
    · intro i hi; rw [r1.depth] at hi; rw [r1.lvl]
      have h1 : i ≠ st.p.depth := by omega
      have h2 : i ≠ st.p.lvlIdx := by omega
      simp only [h1, h2, if_false]; exact hO.zeros i (by omega)
    · intro _ h; rw [r1.depth] at h; omega
  have hr1 : st1.p.rem = encFields fs ++ 0x41 :: rest := rem_step hsh hrem' r1.frame r1.used
  obtain ⟨st2, i2, r2, p2⟩ := pass_fields fs 0 st1 sn oa od (0x41 :: rest) hD1 hr1
    (by unfold prevName; rw [hl1]; simpa [wfValue, freshObjLevel, Level.zero] using hwf)
    (by rw [hl1]; rfl) (by rw [hl1]; rfl)
    (by rw [r1.depth, r1.frame.2.2.1, show st.p.maxDepth - (st.p.depth + 1) = st.p.maxDepth - st.p.depth - 1 by omega]; exact hfit'.2)
  have hD2 : Deep st2 oa od := hD1.after p2.base p2.ad
  have hd2 : st2.p.depth = st.p.depth + 1 := by rw [p2.base.depth, r1.depth]
  have hi2 : st2.p.lvlIdx = st.p.depth := by unfold Parser.lvlIdx; rw [hd2]; simp
  have hcl2 := classify_objEnd hD2.shape hD2.err st2.bc rest r2
  have hlt2 := (rem_cons hD2.shape r2).2.1
  obtain ⟨st3, i3, s3, e3, c3, u3, d3, f3, g3, _⟩ := iter_objEnd (sn := sn) hD2 hcl2 hlt2
    (by rw [hi2, ← hi1]; exact p2.flags) (by omega) (by rw [hd2, hO.od]; omega)
  have hr3 : st3.p.rem = rest := rem_step hD2.shape r2 f3 u3
  have hd3 : st3.p.depth = st.p.depth := by rw [d3, hd2]; omega
  have hlow : ∀ i, i < st.p.depth → st3.p.getLvl i = st1.p.getLvl i := by
    intro i hi
    rw [g3, hd2, Nat.add_sub_cancel]
    have : i ≠ st.p.depth := by omega
    simp only [this, if_false]
    exact p2.base.moved.lower i (by rw [hi1]; exact hi)
  have hL3 : st3.p.getLvl st.p.lvlIdx = lv2 := by
    rw [hlow _ (by omega), r1.lvl]; simp [hne]
  have hi3 : st3.p.lvlIdx = st.p.lvlIdx := by unfold Parser.lvlIdx; rw [hd3]
  refine ⟨st3, (Steps.one i1).trans ((Steps.ofPass i2).trans (Steps.one i3)), hr3, ?_, ?_, ?_, ?_, ?_⟩
  · refine ⟨s3, e3, by rw [hd3]; exact hd1, by rw [hd3]; exact hO.od, by rw [hi3, hL3, b1]; exact hO.oa, ?_,
      by rw [f3.2.2.1, p2.base.moved.frame.2.2.1, r1.frame.2.2.1]; exact hO.md255, ?_⟩
    · intro i hi; rw [hd3] at hi
      rw [g3, hd2, Nat.add_sub_cancel]
      by_cases h : i = st.p.depth
      · simp [h]
      · simp only [h, if_false]
        exact p2.base.zeros i (by rw [r1.depth]; omega)
    · intro h1 h2
      rw [hi3, hL3, b1]
      exact hO.rootArr (by rw [← r1.frame.2.2.2.1, ← p2.base.moved.frame.2.2.2.1, ← f3.2.2.2.1]; exact h1) (by rw [← hd3]; exact h2)
  · rw [c3, p2.base.moved.scan, r1.scan]
  · refine ⟨hd3, r1.frame.trans (p2.base.moved.frame.trans f3), ?_, by rw [hL3, b1]⟩
    intro i hi
    rw [hlow i (by omega), r1.lvl]
    have h1 : i ≠ st.p.depth := by omega
    have h2 : i ≠ st.p.lvlIdx := by omega
    simp [h1, h2]
  · rw [hL3, b2]
  · rw [hL3]; exact ⟨b5, b6, fun h => Or.inr (b7 h)⟩

theorem skip_arr (xs : Elems) {st : LoopSt} {sn : Option (List UInt8)} {oa od : Nat}
    (hO : AtOrig st oa od) (hcont : Cont st.scan) (rest : Bytes) (hrem : st.p.rem = encode (.arr xs) ++ rest)
    (hwf : wfValue (.arr xs) = true)
    (hfit : fits (st.p.maxDepth - st.p.depth) (255 - (st.p.getLvl st.p.lvlIdx).ad) (.arr xs) = true)
    (hp : PendFlags (st.p.getLvl st.p.lvlIdx) st.scan) :
    ∃ st', Steps sn oa od st st' ∧ st'.p.rem = rest ∧ AtOrig st' oa od ∧ st'.scan = st.scan ∧ Kept st st' ∧
      (st'.p.getLvl st.p.lvlIdx).name = (st.p.getLvl st.p.lvlIdx).name ∧
      SkipFlags (st.p.getLvl st.p.lvlIdx) (st'.p.getLvl st.p.lvlIdx) := by
  have hsh := hO.shape
  have hd1 := hO.d1
  have hrem' : st.p.rem = 0x42 :: (encElems xs ++ 0x43 :: rest) := by simpa [encode] using hrem
  have hcl := classify_arrBegin hsh hO.err st.bc _ hrem'
  have hlt := (rem_cons hsh hrem').2.1
  have hfit' : (1 ≤ 255 - (st.p.getLvl st.p.lvlIdx).ad) ∧
      fitsE (st.p.maxDepth - st.p.depth) (255 - (st.p.getLvl st.p.lvlIdx).ad - 1) xs = true := by
    simpa [fits] using hfit
  obtain ⟨lv1, lv2, hob, hab, b1, b2, _, _, _, _, _⟩ :=
    blocks_begin_orig (tok := .arrBegin) (d := st.p.depth) (Or.inr rfl) hp hO.oa hO.od .array
  obtain ⟨st1, i1, r1⟩ := iter_arrBegin_enter (sn := sn) hsh hO.err hcl hlt lv1 lv2 st.scan hob hab (by rw [b1]; omega) hcont.has_arrBegin
  rw [hcont.clear_enterArr] at i1 r1
  rw [outOf_cont hcont] at i1
  have hi1 : st1.p.lvlIdx = st.p.lvlIdx := by unfold Parser.lvlIdx; rw [r1.depth]
  have hl1 : st1.p.getLvl st1.p.lvlIdx = { lv2 with flags := .arr1, ad := lv2.ad + 1 } := by rw [hi1, r1.lvl]; simp
  have hl1ad : (st1.p.getLvl st1.p.lvlIdx).ad = (st.p.getLvl st.p.lvlIdx).ad + 1 := by rw [hl1]; simp only [b1]
  have hD1 : Deep st1 oa od := by
    refine ⟨r1.shape, r1.err, by rw [r1.scan]; exact hcont, by rw [r1.depth]; exact hd1,
      Or.inr ⟨by rw [r1.depth]; exact hO.od, by rw [hl1ad, hO.oa]; omega⟩, ?_, ?_, by rw [r1.frame.2.2.1]; exact hO.md255⟩
    · intro i hi; rw [r1.depth] at hi; rw [r1.lvl]
      have : i ≠ st.p.lvlIdx := by have := Parser.lvlIdx_of_pos hd1; omega
      simp only [this, if_false]; exact hO.zeros i hi
    · intro _ _; rw [hl1ad]; omega
  have hr1 : st1.p.rem = encElems xs ++ 0x43 :: rest := rem_step hsh hrem' r1.frame r1.used
  obtain ⟨st2, i2, r2, p2⟩ := pass_elems xs 0 st1 sn oa od (0x43 :: rest) hD1 hr1 (by simpa [wfValue] using hwf)
    ⟨by rw [hl1]; exact Or.inl rfl, by rw [hl1ad]; omega⟩
    (by rw [r1.depth, r1.frame.2.2.1, hl1ad,
      show 255 - ((st.p.getLvl st.p.lvlIdx).ad + 1) = 255 - (st.p.getLvl st.p.lvlIdx).ad - 1 by omega]; exact hfit'.2)
  have hD2 : Deep st2 oa od := hD1.after p2.base p2.ad
  have hd2 : st2.p.depth = st.p.depth := by rw [p2.base.depth, r1.depth]
  have hi2 : st2.p.lvlIdx = st.p.lvlIdx := by unfold Parser.lvlIdx; rw [hd2]
  have hl2ad : (st2.p.getLvl st2.p.lvlIdx).ad = (st.p.getLvl st.p.lvlIdx).ad + 1 := by
    have h := p2.ad; rw [hi1] at h; rw [hi2, h]; have h' := hl1ad; rw [hi1] at h'; exact h'
  have hl2f : (st2.p.getLvl st2.p.lvlIdx).flags = .arr1 ∨ (st2.p.getLvl st2.p.lvlIdx).flags = .arr2 := by
    rw [hi2, ← hi1]; exact p2.flags
  have hl2n : (st2.p.getLvl st2.p.lvlIdx).name = (st.p.getLvl st.p.lvlIdx).name := by
    rw [hi2]; have h := p2.name; rw [hi1] at h; rw [h, r1.lvl]; simp [b2]
  have hcl2 := classify_arrEnd hD2.shape hD2.err st2.bc rest r2
  have hlt2 := (rem_cons hD2.shape r2).2.1
  obtain ⟨st3, i3, s3, e3, c3, u3, d3, f3, g3, _⟩ := iter_arrEnd (sn := sn) hD2 hcl2 hlt2 hl2f (by rw [hl2ad]; omega)
    (by
      intro ⟨h1, h2, h3⟩
      rw [hl2ad] at h1
      have hpt : st.p.ptype = 2 := by rw [← r1.frame.2.2.2.1, ← p2.base.moved.frame.2.2.2.1]; exact h2
      have hdp : st.p.depth = 1 := by rw [← hd2]; exact h3
      have := hO.rootArr hpt hdp
      omega)
  have hr3 : st3.p.rem = rest := rem_step hD2.shape r2 f3 u3
  have hd3 : st3.p.depth = st.p.depth := by rw [d3, hd2]
  have hi3 : st3.p.lvlIdx = st.p.lvlIdx := by unfold Parser.lvlIdx; rw [hd3]
  have hL3 : st3.p.getLvl st.p.lvlIdx = arrEndLevel (st2.p.getLvl st2.p.lvlIdx) := by
    rw [g3, hi2]; simp
  have hL3ad : (st3.p.getLvl st.p.lvlIdx).ad = (st.p.getLvl st.p.lvlIdx).ad := by
    rw [hL3]; show (st2.p.getLvl st2.p.lvlIdx).ad - 1 = _; rw [hl2ad]; omega
  refine ⟨st3, (Steps.one i1).trans ((Steps.ofPass i2).trans (Steps.one i3)), hr3, ?_, ?_, ?_, ?_, ?_⟩
  · refine ⟨s3, e3, by rw [hd3]; exact hd1, by rw [hd3]; exact hO.od, by rw [hi3, hL3ad]; exact hO.oa, ?_,
      by rw [f3.2.2.1, p2.base.moved.frame.2.2.1, r1.frame.2.2.1]; exact hO.md255, ?_⟩
    · intro i hi; rw [hd3] at hi
      rw [g3, hi2]
      have : i ≠ st.p.lvlIdx := by have := Parser.lvlIdx_of_pos hd1; omega
      simp only [this, if_false]
      exact p2.base.zeros i (by rw [r1.depth]; exact hi)
    · intro h1 h2
      rw [hi3, hL3ad]
      exact hO.rootArr (by rw [← r1.frame.2.2.2.1, ← p2.base.moved.frame.2.2.2.1, ← f3.2.2.2.1]; exact h1) (by rw [← hd3]; exact h2)
  · rw [c3, p2.base.moved.scan, r1.scan]
  · refine ⟨hd3, r1.frame.trans (p2.base.moved.frame.trans f3), ?_, hL3ad⟩
    intro i hi
    rw [g3, hi2]
    simp only [Nat.ne_of_lt hi, if_false]
    rw [p2.base.moved.lower i (by rw [hi1]; exact hi), r1.lvl]
    simp [Nat.ne_of_lt hi]
  · rw [hL3]; exact hl2n
  · rw [hL3]
    have hfl : (arrEndLevel (st2.p.getLvl st2.p.lvlIdx)).flags =
        if (st.p.getLvl st.p.lvlIdx).ad = 0 then Flags.expField else Flags.arr1 := by
      show (if (st2.p.getLvl st2.p.lvlIdx).ad - 1 = 0 then Flags.expField else Flags.arr1) = _
      rw [hl2ad]; simp
    rw [SkipFlags, hfl]
    rcases hp with ⟨hf, ha⟩ | ⟨hf, ha⟩ | ⟨hf, ha, _⟩
    · refine ⟨fun _ => by simp [ha], fun h => ?_, fun h => ?_⟩ <;> rw [hf] at h <;> cases h
    · have : (st.p.getLvl st.p.lvlIdx).ad ≠ 0 := by omega
      refine ⟨fun h => ?_, fun _ => by simp [this], fun h => ?_⟩ <;> rw [hf] at h <;> cases h
    · have : (st.p.getLvl st.p.lvlIdx).ad ≠ 0 := by omega
      refine ⟨fun h => ?_, fun h => ?_, fun _ => Or.inl (by simp [this])⟩ <;> rw [hf] at h <;> cases h

/-- a container value in front of the cursor AT the originating level is skipped whole -/
theorem skip_container (v : Value) (hc : v.isContainer = true) {st : LoopSt} {sn : Option (List UInt8)} {oa od : Nat}
    (hO : AtOrig st oa od) (hcont : Cont st.scan) (rest : Bytes) (hrem : st.p.rem = encode v ++ rest)
    (hwf : wfValue v = true)
    (hfit : fits (st.p.maxDepth - st.p.depth) (255 - (st.p.getLvl st.p.lvlIdx).ad) v = true)
    (hp : PendFlags (st.p.getLvl st.p.lvlIdx) st.scan) :
    ∃ st', Steps sn oa od st st' ∧ st'.p.rem = rest ∧ AtOrig st' oa od ∧ st'.scan = st.scan ∧ Kept st st' ∧
      (st'.p.getLvl st.p.lvlIdx).name = (st.p.getLvl st.p.lvlIdx).name ∧
      SkipFlags (st.p.getLvl st.p.lvlIdx) (st'.p.getLvl st.p.lvlIdx) := by
  cases v with
  | obj fs => exact skip_obj fs hO hcont rest hrem hwf hfit hp
  | arr xs => exact skip_arr xs hO hcont rest hrem hwf hfit hp
  | bool _ => cases hc
  | int _ => cases hc
  | dbl _ => cases hc
  | str _ => cases hc
  | bytes _ => cases hc

end Binson
