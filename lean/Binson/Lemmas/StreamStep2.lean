/-
  C08, part 6: one pass through the loop body from a state satisfying the invariant `ZG`, in
  EVERY scan mode - field names and scalar values; then all tokens together (`zg_iter`).
-/
import Binson.Lemmas.StreamStep
namespace Binson

/-- the classification of a well-formed scalar value at the cursor -/
theorem classify_value {p : Parser} (hs : Shape p) (he : p.err = .none) (bc0 : Nat) (v : Value) (rs : Bytes)
    (hsv : v.isContainer = false) (hwf : wfValue v = true) (hrem : p.rem = encode v ++ rs) :
    ∃ tok span, classify p bc0 = ⟨tok, span, (encode v).length, { p with used := p.used + (encode v).length }⟩ ∧
      tok.isScalar = true ∧ span.off + span.len ≤ p.size ∧ (tok = .string → ∃ s, v = .str s) := by
  have hfit := rem_fit hs hrem
  cases v with
  | arr xs => cases hsv
  | obj fs => cases hsv
  | bool b =>
    have hrem' : p.rem = (if b then 0x44 else 0x45) :: rs := by simpa [encode] using hrem
    obtain ⟨c1, _, _⟩ := classify_bool hs he bc0 rs b hrem'
    have hl : (encode (.bool b)).length = 1 := by simp [encode]
    rw [hl] at hfit ⊢
    exact ⟨_, _, c1, rfl, hfit, fun h => nomatch h⟩
  | int i =>
    have hi : int64Min ≤ i ∧ i ≤ int64Max := by simpa [wfValue] using hwf
    have hrem' : p.rem = encInt 0x10 i ++ rs := by simpa [encode] using hrem
    obtain ⟨c1, _, _, _⟩ := classify_int hs he bc0 rs i hi hrem'
    have hl : (encode (.int i)).length = 1 + intWidth i := by simp [encode, encInt_length]
    rw [hl] at hfit ⊢
    rw [show p.used + 1 + intWidth i = p.used + (1 + intWidth i) by omega] at c1
    exact ⟨_, _, c1, rfl, by simp only; omega, fun h => nomatch h⟩
  | dbl bits =>
    have hrem' : p.rem = 0x46 :: (leBytes 8 bits.toNat ++ rs) := by simpa [encode] using hrem
    obtain ⟨c1, _, _⟩ := classify_dbl hs he bc0 rs bits hrem'
    have hl : (encode (.dbl bits)).length = 9 := by simp [encode]
    rw [hl] at hfit ⊢
    exact ⟨_, _, c1, rfl, by simp only; omega, fun h => nomatch h⟩
  | str s =>
    have hs' : s.length ≤ INT32_MAX := by simpa [wfValue] using hwf
    have hrem' : p.rem = encStr 0x14 s ++ rs := by simpa [encode] using hrem
    obtain ⟨c1, _, _⟩ := classify_str hs he bc0 rs s hs' hrem'
    have hl : (encode (.str s)).length = 1 + intWidth (s.length : Int) + s.length := by simp [encode, encStr_length]
    rw [hl] at hfit ⊢
    rw [show p.used + 1 + intWidth (s.length : Int) + s.length = p.used + (1 + intWidth (s.length : Int) + s.length) by omega] at c1
    exact ⟨_, _, c1, rfl, by simp only; omega, fun _ => ⟨s, rfl⟩⟩
  | bytes s =>
    have hs' : s.length ≤ INT32_MAX := by simpa [wfValue] using hwf
    have hrem' : p.rem = encStr 0x18 s ++ rs := by simpa [encode] using hrem
    obtain ⟨c1, _, _⟩ := classify_bytes hs he bc0 rs s hs' hrem'
    have hl : (encode (.bytes s)).length = 1 + intWidth (s.length : Int) + s.length := by simp [encode, encStr_length]
    rw [hl] at hfit ⊢
    rw [show p.used + 1 + intWidth (s.length : Int) + s.length = p.used + (1 + intWidth (s.length : Int) + s.length) by omega] at c1
    exact ⟨_, _, c1, rfl, by simp only; omega, fun h => nomatch h⟩

section
variable {buf : Array UInt8} {md t : Nat}

/-- a scalar value in value position -/
theorem g_scalar {st : LoopSt} {g : Grp} {rest : List Grp} (hZ : ZG buf md t st.p (g :: rest))
    (sn : Option (List UInt8)) (oa od : Nat) (v : Value) (rs : Bytes) (hsv : v.isContainer = false) (hwf : wfValue v = true)
    (hrem : st.p.rem = encode v ++ rs) (hp : g.arrs = [] → ∃ n, g.pend = some n)
    (R : Parser) (hR : R = (iter st sn oa od).1.p) (hRs : Shape R) (hfr : st.p.Frame R) : Res buf md t R := by
  have hT := hZ.top
  have hsh := hZ.shape
  obtain ⟨tok, span, hcl, hsc, hsp, _⟩ := classify_value hsh hZ.err st.bc v rs hsv hwf hrem
  have hvp := valPos_of hT.lv hT.ok hp
  rw [← hT.idx] at hvp
  rcases tok_scalar sn oa od hsh hZ.err tok span _ hcl hsc hsp hvp R hR with h | ⟨_, r1, r2, r3, L', a1, a2, a3, r5⟩
  · exact Or.inl h
  · refine Or.inr (Or.inr (Or.inl ⟨addVal g v :: rest, ?_⟩))
    rw [hT.idx] at a1 a2 a3
    have hlv' : R.getLvl rest.length = L' := by rw [r5, hT.idx, if_pos rfl]
    refine hZ.next hRs r1 hfr (by rw [r3, hT.dep]; rfl) (by simp)
      (fun i hi => by
        rw [r5]
        have : i ≠ st.p.lvlIdx := by rw [hT.idx]; rw [r3, hT.dep] at hi; omega
        simp only [this, if_false]; exact hZ.zeros i (by rw [← r3]; exact hi)) ?_
      (encode v) rs hrem r2 ?_
    · refine hZ.mirror.replaceTop (fun i hi => by
        rw [r5]
        have : i ≠ st.p.lvlIdx := by rw [hT.idx]; omega
        simp [this]) ?_ ?_ (addVal_virt g v)
      · rw [hlv']
        refine LvOk_addVal buf _ g v (a1.trans hT.lv.ad) ?_ ?_ hp (fun hvf => by rw [a2]; exact hT.lv.name hvf)
        · intro hne
          exact a3.arr (hT.lv.arrFlags hne)
        · intro ha
          rcases hT.lv.objTop ha rfl with ⟨h1, _⟩ | ⟨_, h2⟩
          · obtain ⟨n, hn⟩ := hp ha; rw [h1] at hn; cases hn
          · exact a3.obj h2
      · exact GrpOk_addVal _ g v hT.ok hp hwf (fits_scalar _ _ v hsv)
    · show encGs rest ++ encGrp (addVal g v) = encGs rest ++ encGrp g ++ encode v
      rw [encGrp_addVal g v (fun ha => ⟨virt_false_of hT.ok ha, hp ha⟩), List.append_assoc]

/-- a string where a field name is expected -/
theorem g_name {st : LoopSt} {g : Grp} {rest : List Grp} (hZ : ZG buf md t st.p (g :: rest))
    (sn : Option (List UInt8)) (oa od : Nat) (s rs : Bytes) (hs : s.length ≤ INT32_MAX)
    (hrem : st.p.rem = encStr 0x14 s ++ rs) (ha : g.arrs = []) (hpn : g.pend = none)
    (R : Parser) (hR : R = (iter st sn oa od).1.p) (hRs : Shape R) (hfr : st.p.Frame R) : Res buf md t R := by
  have hT := hZ.top
  have hsh := hZ.shape
  obtain ⟨c1, c2, _⟩ := classify_str hsh hZ.err st.bc rs s hs hrem
  rw [show st.p.used + 1 + intWidth (s.length : Int) + s.length = st.p.used + (1 + intWidth (s.length : Int) + s.length) by omega] at c1
  obtain ⟨hfl, _, _, hvf⟩ := expField_of hT.lv hT.ok (fun h => by obtain ⟨n, hn⟩ := h ha; rw [hpn] at hn; cases hn)
  have hfit := rem_fit hsh hrem
  rw [encStr_length] at hfit
  have hname := hT.lv.name hvf
  have hlast : lastName g = topName g.fs := by unfold lastName; rw [hpn]
  rw [hlast] at hname
  have hsl : sliceB buf ⟨st.p.used + 1 + intWidth s.length, s.length⟩ = s := by
    rw [← hZ.hbuf]; exact c2 st.p rfl
  have hslp : ∀ sp, st.p.slice sp = sliceB buf sp := fun sp => by rw [slice_eq_sliceB, hZ.hbuf]
  rcases tok_name sn oa od hsh hZ.err _ _ c1 (by simp only; omega) (by rw [hT.idx]; exact hfl) R hR with
    h | ⟨r1, r2, r3, r5⟩ | ⟨r0, r1, r2, r3, r5⟩
  · exact Or.inl h
  · exact Or.inr (Or.inr (Or.inl ⟨_, hZ.same' hRs r1 hfr r2 r3 r5⟩))
  · rw [hT.idx] at r0
    have hord : nameAfter (topName g.fs) s = true := by
      cases hnm : (st.p.getLvl rest.length).name with
      | none =>
        rw [hnm] at hname
        rw [← hname]; rfl
      | some pn =>
        rw [hnm] at hname
        simp only [Option.map_some] at hname
        rw [← hname]
        unfold nameOrdErr at r0
        rw [hnm] at r0
        simp only [hslp, hsl, decide_eq_false_iff_not, ge_iff_le, Int.not_le] at r0
        exact bytesLt_of_cmpBytes_neg _ _ r0
    refine Or.inr (Or.inr (Or.inl ⟨{ g with pend := some s } :: rest, ?_⟩))
    have hlv' : R.getLvl rest.length = nameLevel (st.p.getLvl rest.length) ⟨st.p.used + 1 + intWidth s.length, s.length⟩ := by
      rw [r5, hT.idx, if_pos rfl]
    refine hZ.next hRs r1 hfr (by rw [r3, hT.dep]; rfl) (by simp)
      (fun i hi => by
        rw [r5]
        have : i ≠ st.p.lvlIdx := by rw [hT.idx]; rw [r3, hT.dep] at hi; omega
        simp only [this, if_false]; exact hZ.zeros i (by rw [← r3]; exact hi)) ?_
      (encStr 0x14 s) rs hrem (by rw [r2, encStr_length]) ?_
    · refine hZ.mirror.replaceTop (fun i hi => by
        rw [r5]
        have : i ≠ st.p.lvlIdx := by rw [hT.idx]; omega
        simp [this]) ?_ (GrpOk_name _ g s hT.ok ha hord hs) rfl
      rw [hlv']
      refine ⟨hT.lv.ad, fun hne => absurd ha hne, fun _ _ => Or.inr ⟨⟨s, rfl⟩, rfl⟩, fun _ h => (by cases h), fun _ => ?_⟩
      show Option.map (sliceB buf) (some _) = some s
      rw [Option.map_some, hsl]
    · show encGs rest ++ encGrp { g with pend := some s } = encGs rest ++ encGrp g ++ encStr 0x14 s
      rw [encGrp_name g s hvf ha hpn, List.append_assoc]

/-- a scalar value token other than a string where a field name is expected -/
theorem g_field_scalar {st : LoopSt} {g : Grp} {rest : List Grp} (hZ : ZG buf md t st.p (g :: rest))
    (sn : Option (List UInt8)) (oa od : Nat) (hnp : ¬ (g.arrs = [] → ∃ n, g.pend = some n))
    (tok : Tok) (span : Span) (bc u : Nat) (hcl : classify st.p st.bc = ⟨tok, span, bc, { st.p with used := u }⟩)
    (hv : tok.isValue = true) (hns : tok ≠ .string) : (iter st sn oa od).1.p.err ≠ .none := by
  have hT := hZ.top
  refine iter_err_objBlock ?_ ?_ ?_ ?_
  all_goals rw [hcl]
  · intro h
    have h' : tok = .error := h
    rw [h'] at hv; cases hv
  · show (st.p.getLvl st.p.lvlIdx).flags = _
    rw [hT.idx]; exact (expField_of hT.lv hT.ok hnp).1
  · exact hv
  · exact hns

/-- one pass through the loop body from a state satisfying the invariant, in any scan mode,
    with any originating level and lookup name -/
theorem zg_iter {st : LoopSt} {gs : List Grp} (hZ : ZG buf md t st.p gs) (sn : Option (List UInt8)) (oa od : Nat) :
    Res buf md t (iter st sn oa od).1.p := by
  obtain ⟨g, rest, rfl⟩ : ∃ g rest, gs = g :: rest := by
    cases gs with
    | nil => exact absurd rfl hZ.ne
    | cons g rest => exact ⟨g, rest, rfl⟩
  have hT := hZ.top
  have hsh := hZ.shape
  have he := hZ.err
  have hspec := iter_spec st sn oa od hsh he
  have hRs := hspec.shape
  have hfr := hspec.frame
  cases lex_cases hsh he st.bc with
  | err h => exact Or.inl (iter_err_classify hsh he h)
  | objBegin rs h => exact g_objBegin hZ sn oa od rs h _ rfl hRs hfr
  | objEnd rs h => exact g_objEnd hZ sn oa od rs h _ rfl hRs hfr
  | arrBegin rs h => exact g_arrBegin hZ sn oa od rs h _ rfl hRs hfr
  | arrEnd rs h => exact g_arrEnd hZ sn oa od rs h _ rfl hRs hfr
  | badInt w hfit hcl hbad =>
    by_cases hp : g.arrs = [] → ∃ n, g.pend = some n
    · have hvp := valPos_of hT.lv hT.ok hp
      rw [← hT.idx] at hvp
      rw [show st.p.used + 1 + w = st.p.used + (1 + w) by omega] at hcl
      rcases tok_scalar sn oa od hsh he .integer ⟨st.p.used + 1, w⟩ (1 + w) hcl rfl (by simp only; omega) hvp _ rfl with h | ⟨r0, _⟩
      · exact Or.inl h
      · have := r0 rfl
        simp only at this
        rw [hbad] at this; cases this
    · exact Or.inl (g_field_scalar hZ sn oa od hp _ _ _ _ hcl rfl (fun h => nomatch h))
  | scalar v rs hsv hwf hrem =>
    by_cases hp : g.arrs = [] → ∃ n, g.pend = some n
    · exact g_scalar hZ sn oa od v rs hsv hwf hrem hp _ rfl hRs hfr
    · obtain ⟨tok, span, hcl, hsc, _, hstr⟩ := classify_value hsh he st.bc v rs hsv hwf hrem
      by_cases hts : tok = .string
      · obtain ⟨s, rfl⟩ := hstr hts
        have hs : s.length ≤ INT32_MAX := by simpa [wfValue] using hwf
        have hrem' : st.p.rem = encStr 0x14 s ++ rs := by simpa [encode] using hrem
        obtain ⟨_, ha, hpn, _⟩ := expField_of hT.lv hT.ok hp
        exact g_name hZ sn oa od s rs hs hrem' ha hpn _ rfl hRs hfr
      · have hval : tok.isValue = true := by cases tok <;> simp_all [Tok.isScalar, Tok.isValue]
        exact Or.inl (g_field_scalar hZ sn oa od hp _ _ _ _ hcl hval hts)

end
end Binson
