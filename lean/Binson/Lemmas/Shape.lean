/-
  Layer 1, part 1: the shape invariant of the parser object and its preservation by the
  elementary state updates the model is made of.
-/
import Binson.Model.Api
namespace Binson

/-- every span stored in a level lies inside a buffer of `n` bytes -/
def Level.SpansOk (n : Nat) (l : Level) : Prop :=
  (∀ s, l.name = some s → s.off + s.len ≤ n) ∧ (∀ s, l.val = .span s → s.off + s.len ≤ n)

theorem Level.zero_spansOk (n : Nat) : Level.zero.SpansOk n := by
  constructor <;> intro s h <;> simp [Level.zero] at h

/-- The shape invariant: sizes agree, indices are in range, the cursor is inside the buffer,
    stored spans are inside the buffer (while no error is pending), no out-of-bounds access so far. -/
structure Shape (p : Parser) : Prop where
  hlv : p.levels.size = p.maxDepth
  hmd : 1 ≤ p.maxDepth
  hdp : p.depth ≤ p.maxDepth
  hcur : p.cur = p.lvlIdx
  hus : p.used ≤ p.size
  hbs : p.buf.size = p.size
  hsz : p.size < 2 ^ 63
  hnf : p.fault = false
  hno : p.oof = false
  hsp : p.err = .none → ∀ i, (p.getLvl i).SpansOk p.size

theorem Shape.lvlIdx_lt {p : Parser} (h : Shape p) : p.lvlIdx < p.levels.size := by
  have := h.hlv; have := h.hmd; have := h.hdp
  unfold Parser.lvlIdx; split <;> omega

theorem Shape.cur_lt {p : Parser} (h : Shape p) : p.cur < p.levels.size := by
  rw [h.hcur]; exact h.lvlIdx_lt

@[simp] theorem touchLvl_of_lt {p : Parser} {i : Nat} (h : i < p.levels.size) : p.touchLvl i = p := by
  simp [Parser.touchLvl, h]

@[simp] theorem touchBuf_of_le {p : Parser} {o l : Nat} (h : o + l ≤ p.buf.size) : p.touchBuf o l = p := by
  simp [Parser.touchBuf, h]

theorem setLvl_of_lt {p : Parser} {i : Nat} (l : Level) (h : i < p.levels.size) :
    p.setLvl i l = { p with levels := p.levels.setIfInBounds i l } := by
  simp [Parser.setLvl, h]

theorem getLvl_setLvl {p : Parser} {i : Nat} (l : Level) (h : i < p.levels.size) (j : Nat) :
    (p.setLvl i l).getLvl j = if j = i then l else p.getLvl j := by
  rw [setLvl_of_lt l h]
  unfold Parser.getLvl
  by_cases hj : j = i
  · subst hj; simp [Array.getD_eq_getD_getElem?, h]
  · simp [Array.getD_eq_getD_getElem?, Ne.symm hj, hj]

/-- fields other than `levels` are untouched by `setLvl` on a valid index -/
theorem setLvl_fields {p : Parser} {i : Nat} (l : Level) (h : i < p.levels.size) :
    let q := p.setLvl i l
    q.ptype = p.ptype ∧ q.depth = p.depth ∧ q.maxDepth = p.maxDepth ∧ q.size = p.size ∧ q.used = p.used ∧ q.buf = p.buf ∧
    q.err = p.err ∧ q.cur = p.cur ∧ q.fault = p.fault ∧ q.oof = p.oof ∧ q.levels.size = p.levels.size := by
  rw [setLvl_of_lt l h]; simp

theorem Shape.setLvl {p : Parser} (h : Shape p) {i : Nat} (l : Level) (hi : i < p.levels.size)
    (hl : l.SpansOk p.size) : Shape (p.setLvl i l) := by
  have f := setLvl_fields (p := p) l hi
  simp only at f
  obtain ⟨f1, f2, f3, f4, f5, f6, f7, f8, f9, f11, f12⟩ := f
  refine ⟨by rw [f12, f3]; exact h.hlv, by rw [f3]; exact h.hmd, by rw [f2, f3]; exact h.hdp, ?_, by rw [f5, f4]; exact h.hus,
    by rw [f6, f4]; exact h.hbs, by rw [f4]; exact h.hsz, by rw [f9]; exact h.hnf, by rw [f11]; exact h.hno, ?_⟩
  · rw [f8]; unfold Parser.lvlIdx; rw [f2]; exact h.hcur
  · intro he j
    rw [f7] at he; rw [f4, getLvl_setLvl l hi]
    split
    · exact hl
    · exact h.hsp he j

/-- changing only the cursor -/
theorem Shape.withUsed {p : Parser} (h : Shape p) (u : Nat) (hu : u ≤ p.size) : Shape { p with used := u } :=
  ⟨h.hlv, h.hmd, h.hdp, h.hcur, hu, h.hbs, h.hsz, h.hnf, h.hno, h.hsp⟩

/-- setting an error keeps the shape -/
theorem Shape.withErr {p : Parser} (h : Shape p) (e : Err) (he : e ≠ .none) : Shape { p with err := e } :=
  ⟨h.hlv, h.hmd, h.hdp, h.hcur, h.hus, h.hbs, h.hsz, h.hnf, h.hno, fun h' => absurd h' he⟩

/-- `_check_boundary` without wrap-around -/
theorem checkBoundary_iff (a b max : Nat) (ha : a < 2 ^ 63) (hb : b < 2 ^ 63) :
    checkBoundary a b max = true ↔ a + b ≤ max := by
  unfold checkBoundary two64
  have : (a + b) % 18446744073709551616 = a + b := Nat.mod_eq_of_lt (by omega)
  simp only [this]
  by_cases h : a + b > max
  · simp [h]
  · simp [h]
    omega

/-- `_consume` on a shaped parser -/
theorem consume_ok {p : Parser} (h : Shape p) (n : Nat) (peek : Bool) (hn : n < 2 ^ 63) (hfit : p.used + n ≤ p.size) :
    consume p n peek = (true, ⟨p.used, n⟩, if peek then p else { p with used := p.used + n }) := by
  have hb : checkBoundary p.used n p.size = true :=
    (checkBoundary_iff _ _ _ (Nat.lt_of_le_of_lt h.hus h.hsz) hn).mpr hfit
  simp [consume, hb]

theorem consume_fail {p : Parser} (h : Shape p) (n : Nat) (peek : Bool) (hn : n < 2 ^ 63) (hfit : ¬ p.used + n ≤ p.size) :
    consume p n peek = (false, ⟨0, 0⟩, { p with err := .range }) := by
  have hb : checkBoundary p.used n p.size = false := by
    have := (checkBoundary_iff p.used n p.size (Nat.lt_of_le_of_lt h.hus h.hsz) hn)
    cases hc : checkBoundary p.used n p.size
    · rfl
    · exact absurd (this.mp hc) hfit
  simp [consume, hb]

end Binson
