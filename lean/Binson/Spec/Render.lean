/-
  Spec layer, part 3: the reference text rendering of C14.
-/
import Binson.Spec.Value
import Binson.Model.Fmt
namespace Binson

/-- integer and double formatting (`%lld`, `%f`) are parameters of the rendering -/
structure Fmts where
  int : Int → List UInt8
  dbl : Nat → List UInt8

def stdFmts : Fmts := ⟨fmtIntDec, fmtDoubleF⟩

/-- names and strings are quoted verbatim up to a 0x00 byte -/
def upToNul : Bytes → Bytes
  | [] => []
  | b :: r => if b = 0 then [] else b :: upToNul r

def hexText : Bytes → Bytes
  | [] => []
  | b :: r => hex2 b ++ hexText r

def quoted (s : Bytes) : Bytes := 0x22 :: (upToNul s ++ [0x22])

mutual
def render (F : Fmts) : Value → Bytes
  | .bool b => strBytes (if b then "true" else "false")
  | .int i => F.int i
  | .dbl bits => F.dbl bits.toNat
  | .str s => quoted s
  | .bytes s => strBytes "\"0x" ++ (hexText s ++ [0x22])
  | .arr xs => 0x5b :: (renderE F true xs ++ [0x5d])
  | .obj fs => 0x7b :: (renderF F true fs ++ [0x7d])
/-- elements, one comma between siblings (`first` = no comma before this one) -/
def renderE (F : Fmts) : Bool → Elems → Bytes
  | _, .nil => []
  | first, .cons v r => (if first then [] else [0x2c]) ++ (render F v ++ renderE F false r)
def renderF (F : Fmts) : Bool → Fields → Bytes
  | _, .nil => []
  | first, .cons n v r =>
    (if first then [] else [0x2c]) ++ (quoted n ++ (0x3a :: (render F v ++ renderF F false r)))
end

end Binson
