/-
  Layer 4, part 10: spec-side vocabulary of the navigation refinement. The reference cursor is
  described by the REMAINING children of every open container (`RFrame`), grouped by the state
  entry they share (`RLevel`: an object and the arrays nested directly in its current field);
  node offsets are counted from the end of the buffer, so they only depend on what remains.
-/
import Binson.Lemmas.NavValue
import Binson.Lemmas.VerifySoundNeg
namespace Binson

/-! ### `_cmp_name` as an order -/

theorem cmpBytes_eq_zero : ∀ (a b : Bytes), cmpBytes a b = 0 ↔ a = b
  | [], [] => by simp [cmpBytes]
  | [], _ :: _ => by simp [cmpBytes]
  | _ :: _, [] => by simp [cmpBytes]
  | x :: xs, y :: ys => by
    unfold cmpBytes
    by_cases h1 : x < y
    · simp only [h1, if_true]
      constructor
      · intro h; cases h
      · intro h; injection h with h2 _; rw [h2] at h1; exact absurd h1 (UInt8.lt_irrefl _)
    · by_cases h2 : x > y
      · simp only [h1, h2, if_true, if_false]
        constructor
        · intro h; cases h
        · intro h; injection h with h3 _; rw [h3] at h2; exact absurd h2 (UInt8.lt_irrefl _)
      · simp only [h1, h2, if_false]
        have hxy : x = y := UInt8.le_antisymm (UInt8.not_lt.mp h2) (UInt8.not_lt.mp h1)
        rw [cmpBytes_eq_zero xs ys]
        constructor
        · intro h; rw [hxy, h]
        · intro h; injection h

theorem cmpBytes_pos_iff : ∀ (a b : Bytes), cmpBytes a b > 0 ↔ cmpBytes b a < 0
  | [], [] => by simp [cmpBytes]
  | [], _ :: _ => by simp [cmpBytes]
  | _ :: _, [] => by simp [cmpBytes]
  | x :: xs, y :: ys => by
    unfold cmpBytes
    by_cases h1 : x < y
    · have h2 : ¬ y < x := fun h => absurd (UInt8.lt_trans h1 h) (UInt8.lt_irrefl _)
      have h3 : y > x := h1
      simp [h1, h2, h3]
    · by_cases h2 : y < x
      · have h3 : x > y := h2
        simp [h1, h2, h3]
      · have h3 : ¬ x > y := h2
        have h4 : ¬ y > x := h1
        simp only [h1, h2, h3, h4, if_false]
        exact cmpBytes_pos_iff xs ys

theorem cmpBytes_pos_lt (a b : Bytes) : cmpBytes a b > 0 ↔ bytesLt b a = true := by
  rw [cmpBytes_pos_iff]
  exact ⟨bytesLt_of_cmpBytes_neg b a, cmpBytes_neg_of_lt b a⟩

theorem cmpBytes_neg_lt (a b : Bytes) : cmpBytes a b < 0 ↔ bytesLt a b = true :=
  ⟨bytesLt_of_cmpBytes_neg a b, cmpBytes_neg_of_lt a b⟩

theorem bytesLt_irrefl_nav (a : Bytes) : bytesLt a a = false := by
  cases h : bytesLt a a with
  | false => rfl
  | true =>
    have := cmpBytes_neg_of_lt a a h
    rw [(cmpBytes_eq_zero a a).mpr rfl] at this
    omega

/-! ### remaining children -/

inductive RFrame
  | arr (xs : Elems)
  | obj (fs : Fields)

def RFrame.enc : RFrame → Bytes
  | .arr xs => encElems xs
  | .obj fs => encFields fs
def RFrame.endB : RFrame → UInt8
  | .arr _ => 0x43
  | .obj _ => 0x41
def RFrame.isObj : RFrame → Bool
  | .arr _ => false
  | .obj _ => true
def RFrame.nodes (off : Nat) : RFrame → List Node
  | .arr xs => annotateE off xs
  | .obj fs => annotateF off fs

/-- the bytes from the first remaining child of the innermost container to the end of the document -/
def tailBytes : List RFrame → Bytes
  | [] => []
  | f :: r => f.enc ++ f.endB :: tailBytes r

/-- the cursor's frames, offsets taken from the end of a buffer of `total` bytes -/
def cframes (total : Nat) : List RFrame → List Frame
  | [] => []
  | f :: r => ⟨f.isObj, f.nodes (total - (tailBytes (f :: r)).length)⟩ :: cframes total r

/-- one state entry: the remaining fields of its object (`none`: the pseudo level of an array
    document), the name read last, and the remaining elements of the arrays open in the
    current field, innermost first -/
structure RLevel where
  prev : Option Bytes
  base : Option Fields
  arrs : List Elems

def RLevel.frames (L : RLevel) : List RFrame :=
  L.arrs.map RFrame.arr ++ (match L.base with | some fs => [RFrame.obj fs] | none => [])

def flat : List RLevel → List RFrame
  | [] => []
  | L :: r => L.frames ++ flat r

theorem flat_arr (pv : Option Bytes) (b : Option Fields) (xs : Elems) (ar : List Elems) (Ls : List RLevel) :
    flat (⟨pv, b, xs :: ar⟩ :: Ls) = RFrame.arr xs :: flat (⟨pv, b, ar⟩ :: Ls) := by
  simp [flat, RLevel.frames]

theorem flat_obj (pv : Option Bytes) (fs : Fields) (Ls : List RLevel) :
    flat (⟨pv, some fs, []⟩ :: Ls) = RFrame.obj fs :: flat Ls := by
  simp [flat, RLevel.frames]

def objCount (fr : List RFrame) : Nat := (fr.filter RFrame.isObj).length

theorem cframes_objCount (total : Nat) (fr : List RFrame) :
    ((cframes total fr).filter (·.isObj)).length = objCount fr := by
  induction fr with
  | nil => rfl
  | cons f r ih =>
    unfold objCount at ih ⊢
    simp only [cframes, List.filter_cons]
    cases f.isObj <;> simp [ih]

/-! ### the annotated tree -/

theorem annotate_item_start (nm : Option (Bytes × Span)) (off : Nat) (v : Value) : (annotate nm off v).item.start = off := by
  cases v <;> simp [annotate, Node.item]

theorem annotate_item_name (nm : Option (Bytes × Span)) (off : Nat) (v : Value) : (annotate nm off v).item.name = nm := by
  cases v <;> simp [annotate, Node.item]

theorem annotate_item_len (nm : Option (Bytes × Span)) (off : Nat) (v : Value) (hc : v.isContainer = true) :
    (annotate nm off v).item.len = (encode v).length := by
  cases v with
  | arr xs => simp [annotate, Node.item]
  | obj fs => simp [annotate, Node.item]
  | _ => cases hc

theorem annotate_children_obj (nm : Option (Bytes × Span)) (off : Nat) (fs : Fields) :
    (annotate nm off (.obj fs)).children = annotateF (off + 1) fs := by
  simp [annotate, Node.children]

theorem annotate_children_arr (nm : Option (Bytes × Span)) (off : Nat) (xs : Elems) :
    (annotate nm off (.arr xs)).children = annotateE (off + 1) xs := by
  simp [annotate, Node.children]

theorem annotate_isContainer (nm : Option (Bytes × Span)) (off : Nat) (v : Value) :
    ((annotate nm off v).item.ty == .object || (annotate nm off v).item.ty == .array) = v.isContainer := by
  cases v <;> simp [annotate, Node.item, Value.isContainer]

theorem annotateF_cons (off : Nat) (n : Bytes) (v : Value) (r : Fields) :
    annotateF off (.cons n v r) =
      annotate (some (n, ⟨off + hdrLen n.length, n.length⟩)) (off + hdrLen n.length + n.length) v ::
        annotateF (off + hdrLen n.length + n.length + (encode v).length) r := by
  simp [annotateF]

theorem annotateE_cons (off : Nat) (v : Value) (r : Elems) :
    annotateE off (.cons v r) = annotate none off v :: annotateE (off + (encode v).length) r := by
  simp [annotateE]

theorem encFields_cons_length (n : Bytes) (v : Value) (r : Fields) :
    (encFields (.cons n v r)).length = hdrLen n.length + n.length + (encode v).length + (encFields r).length := by
  simp [encFields, encStr_length, hdrLen]; omega

theorem encElems_cons_length (v : Value) (r : Elems) :
    (encElems (.cons v r)).length = (encode v).length + (encElems r).length := by
  simp [encElems]

theorem nameOf_annotate (n : Bytes) (s : Span) (off : Nat) (v : Value) : nameOf (annotate (some (n, s)) off v) = n := by
  unfold nameOf; rw [annotate_item_name]

/-- the fields a lookup of `nm` leaves in front of the cursor -/
def dropLt (nm : Bytes) : Fields → Fields
  | .nil => .nil
  | .cons n v r => if bytesLt n nm then dropLt nm r else .cons n v r

theorem dropWhile_annotateF (nm : Bytes) (total t : Nat) : ∀ (fs : Fields), (encFields fs).length + t ≤ total →
    (annotateF (total - ((encFields fs).length + t)) fs).dropWhile (fun x => bytesLt (nameOf x) nm) =
      annotateF (total - ((encFields (dropLt nm fs)).length + t)) (dropLt nm fs)
  | .nil, _ => by simp [annotateF, dropLt]
  | .cons n v r, h => by
    rw [annotateF_cons, List.dropWhile_cons, nameOf_annotate]
    rw [encFields_cons_length] at h
    by_cases hlt : bytesLt n nm = true
    · simp only [hlt, if_true, dropLt]
      have := dropWhile_annotateF nm total t r (by omega)
      rw [← this]
      congr 2
      rw [encFields_cons_length]; omega
    · have hf : bytesLt n nm = false := by simpa using hlt
      simp only [hf, dropLt, Bool.false_eq_true, if_false]
      rw [annotateF_cons]

theorem dropLt_length_le (nm : Bytes) : ∀ fs, (encFields (dropLt nm fs)).length ≤ (encFields fs).length
  | .nil => by simp [dropLt]
  | .cons n v r => by
    unfold dropLt
    split
    · have := dropLt_length_le nm r
      rw [encFields_cons_length]; omega
    · exact Nat.le_refl _

end Binson
