/-
  Layer 4, part 8: the rest of a container AT the originating level in the two LEAVE modes
  (every remaining child is consumed, containers among them skipped whole), and the whole
  `leave_object` / `leave_array` run up to and including the END token.
-/
import Binson.Lemmas.NavScalar
namespace Binson

theorem overshoot_none (p : Parser) (s : Span) : overshoot p s none = false := rfl

theorem outOf_leaveObj : outOf (some .leaveObj) = .cont := rfl
theorem outOf_leaveArr : outOf (some .leaveArr) = .cont := rfl

/-- the remaining fields of the object the call started in, LEAVE_OBJECT mode -/
theorem orig_fields : (fs : Fields) → ∀ (st : LoopSt) (oa od : Nat) (rest : Bytes),
    AtOrig st oa od → st.scan = some .leaveObj → st.p.rem = encFields fs ++ rest → wfFields (prevName st.p) fs = true →
    (st.p.getLvl st.p.lvlIdx).flags = .expField → (st.p.getLvl st.p.lvlIdx).ad = 0 →
    fitsF (st.p.maxDepth - st.p.depth) fs = true →
    ∃ st', Steps none oa od st st' ∧ st'.p.rem = rest ∧ AtOrig st' oa od ∧ st'.scan = some .leaveObj ∧ Kept st st' ∧
      (st'.p.getLvl st.p.lvlIdx).flags = .expField
  | .nil, st, oa, od, rest, hO, hsc, hrem, _, hfl, _, _ =>
    ⟨st, Steps.refl _ _ _ _, by simpa [encFields] using hrem, hO, hsc, Kept.refl _, hfl⟩
  | .cons n v r, st, oa, od, rest, hO, hsc, hrem, hwf, hfl, had, hfit => by
    have hsh := hO.shape
    have hwf' : nameAfter (prevName st.p) n = true ∧ n.length ≤ INT32_MAX ∧ wfValue v = true ∧ wfFields (some n) r = true := by
      simpa [wfFields, and_assoc] using hwf
    have hfit' : fits (st.p.maxDepth - st.p.depth) 255 v = true ∧ fitsF (st.p.maxDepth - st.p.depth) r = true := by
      simpa [fitsF] using hfit
    have hrem' : st.p.rem = encStr 0x14 n ++ (encode v ++ (encFields r ++ rest)) := by simpa [encFields] using hrem
    -- the name
    obtain ⟨c1, c2, _⟩ := classify_str hsh hO.err st.bc _ n hwf'.2.1 hrem'
    have hfitn := rem_fit hsh hrem'
    rw [encStr_length] at hfitn
    have hord : ∀ pn, (st.p.getLvl st.p.lvlIdx).name = some pn →
        cmpBytes (st.p.slice pn) (st.p.slice ⟨st.p.used + 1 + intWidth (n.length : Int), n.length⟩) < 0 := by
      intro pn hpn
      rw [c2 st.p rfl]
      apply cmpBytes_neg_of_lt
      have := hwf'.1
      unfold prevName at this
      rw [hpn] at this
      simpa [nameAfter] using this
    obtain ⟨st1, i1, r1⟩ := (iter_fieldName_orig (sn := none) hsh hO.err
      ⟨st.p.used + 1 + intWidth (n.length : Int), n.length⟩ _ _ (by simp only [Nat.add_assoc]) c1
      hfitn (by simp only; omega) hfl hord hO.oa hO.od).1 (overshoot_none _ _)
    rw [hsc, show clear (some Scan.leaveObj) .value = some .leaveObj from rfl] at r1
    obtain ⟨hO1, k1, l1⟩ := stepRes_keeps hO r1 rfl
    have hi1 := k1.lvlIdx
    have hr1 : st1.p.rem = encode v ++ (encFields r ++ rest) :=
      rem_of_frame r1.frame.2.1 r1.used hsh hrem' (encStr_length _ _)
    have hl1f : (st1.p.getLvl st1.p.lvlIdx).flags = .expValue := by rw [hi1, l1]; rfl
    have hl1a : (st1.p.getLvl st1.p.lvlIdx).ad = 0 := by rw [hi1, l1]; exact had
    have hl1n : (st1.p.getLvl st1.p.lvlIdx).name = some ⟨st.p.used + 1 + intWidth (n.length : Int), n.length⟩ := by
      rw [hi1, l1]; rfl
    have hfitv : fits (st1.p.maxDepth - st1.p.depth) (255 - (st1.p.getLvl st1.p.lvlIdx).ad) v = true := by
      rw [r1.depth, r1.frame.2.2.1, hl1a]; exact hfit'.1
    -- the value
    have hval : ∃ st2, Steps none oa od st1 st2 ∧ st2.p.rem = encFields r ++ rest ∧ AtOrig st2 oa od ∧ st2.scan = some .leaveObj ∧
        Kept st1 st2 ∧ (st2.p.getLvl st1.p.lvlIdx).name = (st1.p.getLvl st1.p.lvlIdx).name ∧
        (st2.p.getLvl st1.p.lvlIdx).flags = .expField := by
      cases hc : v.isContainer with
      | true =>
        obtain ⟨st2, s2, r2, o2, c2', k2, n2, f2⟩ := skip_container v hc (sn := none) hO1 (by rw [r1.scan]; exact Or.inr (Or.inl rfl))
          _ hr1 hwf'.2.2.1 hfitv (Or.inl ⟨hl1f, hl1a⟩)
        exact ⟨st2, s2, r2, o2, c2'.trans r1.scan, k2, n2, f2.1 hl1f⟩
      | false =>
        obtain ⟨st2, i2, r2, c2', o2, k2, n2, f2, _⟩ := orig_scalar v hc (sn := none) hO1 _ hr1 hwf'.2.2.1 (Or.inl ⟨hl1f, hl1a⟩)
        have hsa : scanAfter (st1.p.getLvl st1.p.lvlIdx) st1.scan = some .leaveObj := by
          simp [scanAfter, hl1f, Flags.inArray, r1.scan]
        rw [hsa] at i2 c2'
        rw [outOf_leaveObj] at i2
        exact ⟨st2, Steps.one i2, r2, o2, c2', k2, n2, by rw [f2]; simp [afterFlags, hl1f]⟩
    obtain ⟨st2, s2, r2, hO2, c2', k2, n2, f2⟩ := hval
    have hi2 := k2.lvlIdx
    have hbuf2 : st2.p.buf = st.p.buf := (r1.frame.trans k2.frame).2.1
    -- the remaining fields
    obtain ⟨st3, s3, r3, hO3, c3, k3, f3⟩ := orig_fields r st2 oa od rest hO2 c2' r2
      (by
        unfold prevName
        rw [hi2, n2, hl1n]
        simp only [Option.map]
        rw [c2 st2.p hbuf2]; exact hwf'.2.2.2)
      (by rw [hi2]; exact f2) (by rw [hi2, k2.ad]; exact hl1a)
      (by rw [k2.depth, r1.depth, k2.frame.2.2.1, r1.frame.2.2.1]; exact hfit'.2)
    refine ⟨st3, (Steps.one i1).trans (s2.trans s3), r3, hO3, c3, k1.trans (k2.trans k3), ?_⟩
    have := f3; rw [hi2, hi1] at this; exact this

/-- the remaining elements of the array the call started in, LEAVE_ARRAY mode -/
theorem orig_elems : (xs : Elems) → ∀ (st : LoopSt) (oa od : Nat) (rest : Bytes),
    AtOrig st oa od → st.scan = some .leaveArr → st.p.rem = encElems xs ++ rest → wfElems xs = true →
    (((st.p.getLvl st.p.lvlIdx).flags = .arr1 ∨ (st.p.getLvl st.p.lvlIdx).flags = .arr2) ∧ 1 ≤ (st.p.getLvl st.p.lvlIdx).ad) →
    fitsE (st.p.maxDepth - st.p.depth) (255 - (st.p.getLvl st.p.lvlIdx).ad) xs = true →
    ∃ st', Steps none oa od st st' ∧ st'.p.rem = rest ∧ AtOrig st' oa od ∧ st'.scan = some .leaveArr ∧ Kept st st' ∧
      (st'.p.getLvl st.p.lvlIdx).name = (st.p.getLvl st.p.lvlIdx).name ∧
      ((st'.p.getLvl st.p.lvlIdx).flags = .arr1 ∨ (st'.p.getLvl st.p.lvlIdx).flags = .arr2)
  | .nil, st, oa, od, rest, hO, hsc, hrem, _, hctx, _ =>
    ⟨st, Steps.refl _ _ _ _, by simpa [encElems] using hrem, hO, hsc, Kept.refl _, rfl, hctx.1⟩
  | .cons v r, st, oa, od, rest, hO, hsc, hrem, hwf, hctx, hfit => by
    have hwf' : wfValue v = true ∧ wfElems r = true := by simpa [wfElems] using hwf
    have hfit' : fits (st.p.maxDepth - st.p.depth) (255 - (st.p.getLvl st.p.lvlIdx).ad) v = true ∧
        fitsE (st.p.maxDepth - st.p.depth) (255 - (st.p.getLvl st.p.lvlIdx).ad) r = true := by simpa [fitsE] using hfit
    have hrem' : st.p.rem = encode v ++ (encElems r ++ rest) := by simpa [encElems] using hrem
    have hval : ∃ st1, Steps none oa od st st1 ∧ st1.p.rem = encElems r ++ rest ∧ AtOrig st1 oa od ∧ st1.scan = some .leaveArr ∧
        Kept st st1 ∧ (st1.p.getLvl st.p.lvlIdx).name = (st.p.getLvl st.p.lvlIdx).name ∧
        ((st1.p.getLvl st.p.lvlIdx).flags = .arr1 ∨ (st1.p.getLvl st.p.lvlIdx).flags = .arr2) := by
      cases hc : v.isContainer with
      | true =>
        have hp : PendFlags (st.p.getLvl st.p.lvlIdx) st.scan := by
          rcases hctx.1 with h | h
          · exact Or.inr (Or.inr ⟨h, hctx.2, by rw [hsc]; decide⟩)
          · exact Or.inr (Or.inl ⟨h, hctx.2⟩)
        obtain ⟨st1, s1, r1, o1, c1, k1, n1, f1⟩ := skip_container v hc (sn := none) hO (by rw [hsc]; exact Or.inr (Or.inr (Or.inr rfl)))
          _ hrem' hwf'.1 hfit'.1 hp
        refine ⟨st1, s1, r1, o1, c1.trans hsc, k1, n1, ?_⟩
        rcases hctx.1 with h | h
        · exact f1.2.2 h
        · exact Or.inl (f1.2.1 h)
      | false =>
        obtain ⟨st1, i1, r1, c1, o1, k1, n1, f1, _⟩ := orig_scalar v hc (sn := none) hO _ hrem' hwf'.1 (Or.inr hctx)
        have hina : (st.p.getLvl st.p.lvlIdx).flags.inArray = true := by rcases hctx.1 with h | h <;> rw [h] <;> rfl
        have hsa : scanAfter (st.p.getLvl st.p.lvlIdx) st.scan = some .leaveArr := by
          simp [scanAfter, hina, hsc, clear]
        rw [hsa] at i1 c1
        rw [outOf_leaveArr] at i1
        refine ⟨st1, Steps.one i1, r1, o1, c1, k1, n1, ?_⟩
        rw [f1]; unfold afterFlags
        rcases hctx.1 with h | h <;> simp [h]
    obtain ⟨st1, s1, r1, hO1, c1, k1, n1, f1⟩ := hval
    have hi1 := k1.lvlIdx
    obtain ⟨st2, s2, r2, hO2, c2, k2, n2, f2⟩ := orig_elems r st1 oa od rest hO1 c1 r1 hwf'.2
      ⟨by rw [hi1]; exact f1, by rw [hi1, k1.ad]; exact hctx.2⟩
      (by rw [k1.depth, k1.frame.2.2.1, hi1, k1.ad]; exact hfit'.2)
    refine ⟨st2, s1.trans s2, r2, hO2, c2, k1.trans k2, ?_, ?_⟩
    · have := n2; rw [hi1] at this; rw [this, n1]
    · have := f2; rw [hi1] at this; exact this


/-- `leave_object` from an inner object: the remaining fields and the `}` are consumed, the entry released -/
theorem leave_obj_run {st : LoopSt} {oa od : Nat} (hO : AtOrig st oa od) (hsc : st.scan = some .leaveObj)
    (fs : Fields) (rest : Bytes) (hrem : st.p.rem = encFields fs ++ 0x41 :: rest) (hwf : wfFields (prevName st.p) fs = true)
    (hfl : (st.p.getLvl st.p.lvlIdx).flags = .expField) (had : (st.p.getLvl st.p.lvlIdx).ad = 0)
    (hfit : fitsF (st.p.maxDepth - st.p.depth) fs = true) (hd2 : 2 ≤ st.p.depth) :
    ∃ st', Halts none oa od st st' true ∧ st'.p.rem = rest ∧ Shape st'.p ∧ st'.p.err = .none ∧
      st'.p.depth = st.p.depth - 1 ∧ st.p.Frame st'.p ∧
      (∀ i, st'.p.getLvl i = if i < st.p.depth - 1 then st.p.getLvl i else Level.zero) := by
  obtain ⟨st1, s1, r1, hO1, c1, k1, f1⟩ := orig_fields fs st oa od _ hO hsc hrem hwf hfl had hfit
  have hi1 := k1.lvlIdx
  have hcl := classify_objEnd hO1.shape hO1.err st1.bc rest r1
  have hlt := (rem_cons hO1.shape r1).2.1
  obtain ⟨st2, i2, r2⟩ := iter_objEnd_leave (sn := none) hO1.shape hO1.err hcl hlt (by rw [hi1]; exact f1)
    (by rw [k1.depth]; exact hd2) c1 hO1.od
  have hidx : st.p.lvlIdx = st.p.depth - 1 := Parser.lvlIdx_of_pos hO.d1
  refine ⟨st2, s1.halts (Halts.stop i2 r2.err), rem_step hO1.shape r1 r2.frame r2.used, r2.shape, r2.err,
    by rw [r2.depth, k1.depth], k1.frame.trans r2.frame, ?_⟩
  intro i
  rw [r2.lvl, k1.depth]
  by_cases h : i = st.p.depth - 1
  · simp [h]
  · simp only [h, if_false]
    by_cases h2 : i < st.p.depth - 1
    · simp only [h2, if_true]
      exact k1.lower i (by omega)
    · simp only [h2, if_false]
      exact hO1.zeros i (by rw [k1.depth]; omega)

/-- `leave_object` from the root object: the call returns false, without error iff the buffer ends there -/
theorem leave_obj_root {st : LoopSt} {oa od : Nat} (hO : AtOrig st oa od) (hsc : st.scan = some .leaveObj)
    (fs : Fields) (rest : Bytes) (hrem : st.p.rem = encFields fs ++ 0x41 :: rest) (hwf : wfFields (prevName st.p) fs = true)
    (hfl : (st.p.getLvl st.p.lvlIdx).flags = .expField) (had : (st.p.getLvl st.p.lvlIdx).ad = 0)
    (hfit : fitsF (st.p.maxDepth - st.p.depth) fs = true) (hd : st.p.depth = 1) :
    ∃ st', Halts none oa od st st' false ∧ st'.p.err = (if rest = [] then .none else .format) ∧ st'.p.depth = 0 ∧
      st'.p.fault = false ∧ st'.p.oof = false := by
  obtain ⟨st1, s1, r1, hO1, c1, k1, f1⟩ := orig_fields fs st oa od _ hO hsc hrem hwf hfl had hfit
  have hidx : st.p.lvlIdx = 0 := by unfold Parser.lvlIdx; rw [hd]; rfl
  rw [hidx] at f1
  obtain ⟨st2, i2, e2, d2, _, n2, o2⟩ := iter_objEnd_leaveRoot (sn := none) (oa := oa) (od := od) hO1.shape hO1.err c1
    (by rw [k1.depth]; exact hd) f1 (by rw [hO.od]; exact hd) rest r1
  exact ⟨st2, s1.halts (Halts.ret i2), e2, d2, n2, o2⟩

/-- `leave_array` from an inner array: the remaining elements and the `]` are consumed -/
theorem leave_arr_run {st : LoopSt} {oa od : Nat} (hO : AtOrig st oa od) (hsc : st.scan = some .leaveArr)
    (xs : Elems) (rest : Bytes) (hrem : st.p.rem = encElems xs ++ 0x43 :: rest) (hwf : wfElems xs = true)
    (hctx : ((st.p.getLvl st.p.lvlIdx).flags = .arr1 ∨ (st.p.getLvl st.p.lvlIdx).flags = .arr2) ∧ 1 ≤ (st.p.getLvl st.p.lvlIdx).ad)
    (hfit : fitsE (st.p.maxDepth - st.p.depth) (255 - (st.p.getLvl st.p.lvlIdx).ad) xs = true)
    (hnr : ¬ ((st.p.getLvl st.p.lvlIdx).ad = 1 ∧ st.p.ptype = 2 ∧ st.p.depth = 1)) :
    ∃ st', Halts none oa od st st' true ∧ st'.p.rem = rest ∧ Shape st'.p ∧ st'.p.err = .none ∧
      st'.p.depth = st.p.depth ∧ st.p.Frame st'.p ∧
      (∀ i, i < st.p.lvlIdx → st'.p.getLvl i = st.p.getLvl i) ∧ (∀ i, st.p.depth ≤ i → st'.p.getLvl i = Level.zero) ∧
      (st'.p.getLvl st.p.lvlIdx).ad = (st.p.getLvl st.p.lvlIdx).ad - 1 ∧
      (st'.p.getLvl st.p.lvlIdx).name = (st.p.getLvl st.p.lvlIdx).name ∧
      (st'.p.getLvl st.p.lvlIdx).flags = (if (st.p.getLvl st.p.lvlIdx).ad - 1 = 0 then .expField else .arr1) := by
  obtain ⟨st1, s1, r1, hO1, c1, k1, n1, f1⟩ := orig_elems xs st oa od _ hO hsc hrem hwf hctx hfit
  have hi1 := k1.lvlIdx
  have hcl := classify_arrEnd hO1.shape hO1.err st1.bc rest r1
  have hlt := (rem_cons hO1.shape r1).2.1
  obtain ⟨st2, i2, r2⟩ := iter_arrEnd_leave (sn := none) hO1.shape hO1.err hcl hlt (by rw [hi1]; exact f1)
    (by rw [hi1, k1.ad]; exact hctx.2)
    (by rw [hi1, k1.ad, k1.frame.2.2.2.1, k1.depth]; exact hnr) c1 hO1.oa hO1.od
  have hd1 := hO.d1
  have hidx : st.p.lvlIdx = st.p.depth - 1 := Parser.lvlIdx_of_pos hd1
  have hL : st2.p.getLvl st.p.lvlIdx = arrEndLevel (st1.p.getLvl st.p.lvlIdx) := by rw [r2.lvl, hi1]; simp
  refine ⟨st2, s1.halts (Halts.stop i2 r2.err), rem_step hO1.shape r1 r2.frame r2.used, r2.shape, r2.err,
    by rw [r2.depth, k1.depth], k1.frame.trans r2.frame, ?_, ?_, ?_, ?_, ?_⟩
  · intro i hi
    rw [r2.lvl, hi1]; simp only [Nat.ne_of_lt hi, if_false]; exact k1.lower i hi
  · intro i hi
    rw [r2.lvl, hi1]
    have : i ≠ st.p.lvlIdx := by omega
    simp only [this, if_false]
    exact hO1.zeros i (by rw [k1.depth]; exact hi)
  · rw [hL]; show (st1.p.getLvl st.p.lvlIdx).ad - 1 = _; rw [k1.ad]
  · rw [hL]; show (st1.p.getLvl st.p.lvlIdx).name = _; exact n1
  · rw [hL]; show (if (st1.p.getLvl st.p.lvlIdx).ad - 1 = 0 then Flags.expField else Flags.arr1) = _; rw [k1.ad]

/-- `leave_array` from the root array of an array document -/
theorem leave_arr_root {st : LoopSt} {oa od : Nat} (hO : AtOrig st oa od) (hsc : st.scan = some .leaveArr)
    (xs : Elems) (rest : Bytes) (hrem : st.p.rem = encElems xs ++ 0x43 :: rest) (hwf : wfElems xs = true)
    (hctx : ((st.p.getLvl st.p.lvlIdx).flags = .arr1 ∨ (st.p.getLvl st.p.lvlIdx).flags = .arr2) ∧ 1 ≤ (st.p.getLvl st.p.lvlIdx).ad)
    (hfit : fitsE (st.p.maxDepth - st.p.depth) (255 - (st.p.getLvl st.p.lvlIdx).ad) xs = true)
    (hr : (st.p.getLvl st.p.lvlIdx).ad = 1 ∧ st.p.ptype = 2 ∧ st.p.depth = 1) :
    ∃ st', Halts none oa od st st' false ∧ st'.p.err = (if rest = [] then .none else .format) ∧ st'.p.depth = 1 ∧
      st'.p.fault = false ∧ st'.p.oof = false := by
  obtain ⟨st1, s1, r1, hO1, c1, k1, n1, f1⟩ := orig_elems xs st oa od _ hO hsc hrem hwf hctx hfit
  have hidx : st.p.lvlIdx = 0 := by unfold Parser.lvlIdx; rw [hr.2.2]; rfl
  have ha1 := k1.ad
  rw [hidx] at f1 ha1
  have had0 : (st.p.getLvl 0).ad = 1 := by rw [← hidx]; exact hr.1
  obtain ⟨st2, i2, e2, d2, _, n2, o2⟩ := iter_arrEnd_leaveRoot (sn := none) (oa := oa) (od := od) hO1.shape hO1.err c1
    (by rw [k1.depth]; exact hr.2.2) (by rw [k1.frame.2.2.2.1]; exact hr.2.1) f1 (by rw [ha1]; exact had0)
    (by rw [hO.oa]; exact hr.1) (by rw [hO.od]; exact hr.2.2) rest r1
  exact ⟨st2, s1.halts (Halts.ret i2), e2, d2, n2, o2⟩

end Binson
