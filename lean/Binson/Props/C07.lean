/-
  C07 — field lookup finds exactly the present names and never loses later fields.

  All statements are about a REACHABLE pair (p, c): the machine state `p` and the reference cursor `c`
  after ANY protocol-following call sequence (next / enter / leave / get_raw / lookups, any length) on
  ANY valid document (`Reachable`, Lemmas/NavCorBase.lean; `c07_reachable` builds it from the plain
  hypotheses), with the cursor inside an object. `c.namesAhead` are the names of the fields not yet
  returned in that object, in document order; names are byte strings compared over their full length
  (0x00 and bytes >= 0x80 included).
-/
import Binson.Lemmas.NavCor
namespace Binson

/-- every pair reached from init by a protocol-following call sequence on a valid document is `Reachable` -/
theorem c07_reachable (g : Parser) (ha : Alloc g) (hmd : g.maxDepth ≤ 255) (root : Root) (v : Value)
    (hwf : wfDoc root g.maxDepth v = true) (hsz : (encode v).length < 2 ^ 63) (ops : List COp) :
    Reachable g root v (navRun ((init g (encode v).toArray (rootNum root)).1, Cursor.start root v) ops).1
      (navRun ((init g (encode v).toArray (rootNum root)).1, Cursor.start root v) ops).2 :=
  reachable_of_run g ha hmd root v hwf hsz ops

/-- a lookup returns true iff a field with exactly those bytes exists at or after the cursor; no error either way -/
theorem c07_lookup_iff {g : Parser} {root : Root} {v : Value} {p : Parser} {c : Cursor}
    (h : Reachable g root v p c) (hin : c.inObject = true) (nm : Bytes) :
    ((field p nm).2 = true ↔ nm ∈ c.namesAhead) ∧ (field p nm).1.err = .none ∧ (field p nm).1.fault = false :=
  ⟨lookup_iff h hin nm, lookup_no_error h hin nm⟩

/-- after a hit the getters refer to that field, the cursor continues behind it -/
theorem c07_lookup_hit {g : Parser} {root : Root} {v : Value} {p : Parser} {c : Cursor}
    (h : Reachable g root v p c) (hin : c.inObject = true) (nm : Bytes) (hfound : (field p nm).2 = true) :
    ∃ f fs n, c.frames = f :: fs ∧ n ∈ f.rest ∧ nameOf n = nm ∧ c.fieldAhead nm = some n ∧
      ItemMatches (field p nm).1 n.item ∧
      (c.step (.field nm)).1.cur = some n ∧
      (c.step (.field nm)).1.namesAhead = c.namesAhead.filter (fun x => bytesLt nm x) ∧
      (c.step (.field nm)).1.inObject = true ∧
      Reachable g root v (field p nm).1 (c.step (.field nm)).1 :=
  lookup_hit_item h hin nm hfound

/-- a failed lookup raises no error and moves the cursor only past fields with smaller names -/
theorem c07_lookup_miss {g : Parser} {root : Root} {v : Value} {p : Parser} {c : Cursor}
    (h : Reachable g root v p c) (hin : c.inObject = true) (nm : Bytes) (hmiss : (field p nm).2 = false) :
    (field p nm).1.err = .none ∧
    (c.step (.field nm)).1.namesAhead = c.namesAhead.filter (fun x => !bytesLt x nm) ∧
    (c.step (.field nm)).1.namesAhead = c.namesAhead.dropWhile (fun x => bytesLt x nm) ∧
    (c.step (.field nm)).1.cur = none ∧
    (c.step (.field nm)).1.inObject = true ∧
    Reachable g root v (field p nm).1 (c.step (.field nm)).1 :=
  lookup_miss_moves_only_smaller h hin nm hmiss

/-- any series of lookups in (strictly) ascending name order finds exactly the names that are present,
    whatever absent names are asked for in between -/
theorem c07_lookup_series {g : Parser} {root : Root} {v : Value} {p : Parser} {c : Cursor}
    (h : Reachable g root v p c) (hin : c.inObject = true) (nms : List Bytes) (hasc : ascNames nms = true) :
    (lookups p nms).2 = nms.map (fun nm => decide (nm ∈ c.namesAhead)) :=
  lookup_series nms h hin hasc

/-- the `_ensure` variants succeed only if the type also matches and otherwise set WRONG_TYPE; an absent name: false, no error -/
theorem c07_lookup_ensure {g : Parser} {root : Root} {v : Value} {p : Parser} {c : Cursor}
    (h : Reachable g root v p c) (hin : c.inObject = true) (nm : Bytes) (t : Ty) :
    ((fieldEnsure p nm t).2 = true ↔ ∃ n, c.fieldAhead nm = some n ∧ n.item.ty = t) ∧
    (∀ n, c.fieldAhead nm = some n → n.item.ty = t →
      fieldEnsure p nm t = ((field p nm).1, true) ∧ (fieldEnsure p nm t).1.err = .none) ∧
    (∀ n, c.fieldAhead nm = some n → n.item.ty ≠ t →
      (fieldEnsure p nm t).2 = false ∧ (fieldEnsure p nm t).1.err = .wrongType) ∧
    (nm ∉ c.namesAhead → fieldEnsure p nm t = ((field p nm).1, false) ∧ (fieldEnsure p nm t).1.err = .none) :=
  lookup_ensure h hin nm t

end Binson
