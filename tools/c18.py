"""C18: behaviour independent of compiler, optimisation level, char signedness, sanitizers.
Translation validation against the one executable Lean model: the harness is built in every
configuration, all builds replay the same scenario scripts (all public C functions), and every
observation stream must equal the model's. A sanitizer abort on a scenario is undefined
behaviour the user can reach."""
import os, subprocess, json, time, shutil, hashlib

def sh(cmd, **kw): return subprocess.run(cmd, capture_output=True, text=True, **kw)

def configs():
    out = []
    for cc in ('gcc', 'clang'):
        for opt in ('-O0', '-O2', '-Os'):
            for ch in ('-fsigned-char', '-funsigned-char'):
                out.append(('%s%s%s' % (cc, opt, ch.replace('-f', '-').replace('-char', '')), cc, [opt, ch]))
        out.append((cc + '-asan-ubsan', cc, ['-O1', '-g', '-fsanitize=address,undefined', '-fno-sanitize-recover=all', '-fno-omit-frame-pointer']))
    return out

PROFILES = [('any', 400), ('nav', 400), ('navg', 200), ('walk', 200), ('verify', 500), ('stream', 400), ('print', 150), ('writer', 150), ('rt', 120), ('tr', 300), ('reuse', 300)]

def run(pid, tier, seed, chk):
    t0 = time.time()
    os.makedirs(chk.BUILD, exist_ok=True); os.makedirs(chk.EVID, exist_ok=True)
    rundir = os.path.join(chk.BUILD, 'run-%d' % os.getpid()); os.makedirs(rundir, exist_ok=True)
    mult = 1 if tier == 'quick' else 32
    broken = []; viols = []
    try:
        with chk.Lock('lean'):
            ok, msg = chk.regenerate()
            if not ok: broken.append('translator: ' + msg)
            dok, dlog = chk.build_driver()
            obligations, discharged, details, pb = chk.audit(pid, rundir, tier)
            broken += pb
        if not dok:
            broken.append('model driver does not build')
        # build all configurations in parallel
        cfgs = configs(); procs = []
        for name, cc, flags in cfgs:
            out = os.path.join(rundir, 'drive-' + name)
            cmd = [cc, '-std=gnu11', '-w'] + flags + ['-DBINSON_PARSER_WITH_PRINT', '-DBINSON_VERIF', '-I', os.path.join(chk.REPO, 'include'),
                   os.path.join(chk.ROOT, 'harness', 'drive.c'), os.path.join(chk.REPO, 'src', 'binson_parser.c'), os.path.join(chk.REPO, 'src', 'binson_writer.c'), '-o', out]
            procs.append((name, out, subprocess.Popen(cmd, stdout=subprocess.PIPE, stderr=subprocess.STDOUT, text=True)))
        builds = []
        for name, out, p in procs:
            log = p.communicate()[0]
            if p.returncode != 0: broken.append('build %s failed: %s' % (name, log[-300:]))
            else: builds.append((name, out))
        gen = [b for b in builds if b[0] == 'gcc-asan-ubsan']
        scripts = []
        if gen and dok:
            g = gen[0][1]
            ps = []
            for prof, n in PROFILES:
                base = os.path.join(rundir, 'sc-' + prof)
                ps.append((prof, base, subprocess.Popen([g, 'gen', prof, str(seed * 7 + 11), str(n * mult), base + '.ops', base + '.gen'], stdout=subprocess.DEVNULL, stderr=subprocess.PIPE, text=True, env=chk.ASAN_ENV)))
            for prof, base, p in ps:
                err = p.communicate()[1]
                if p.returncode != 0:
                    viols.append({'what': 'gcc-asan-ubsan aborted while generating profile %s: %s' % (prof, chk.crash_summary(err)), 'lines': chk.last_case(base + '.ops'), 'log': err[-2500:]})
                m = sh([chk.DRIVER, 'model', base + '.ops'])
                open(base + '.model', 'w').write(m.stdout)
                scripts.append((prof, base))
        # replay every script on every build, compare with the model's stream
        programs = 0; compared = 0; disagreements = 0
        jobs = [(name, exe, prof, base) for name, exe in builds for prof, base in scripts]
        running = []; pending = list(jobs); done = []
        while pending or running:
            while pending and len(running) < chk.NCPU:
                name, exe, prof, base = pending.pop(0)
                out = '%s.%s.impl' % (base, name)
                running.append((name, prof, base, out, subprocess.Popen([exe, 'replay', base + '.ops', out], stdout=subprocess.DEVNULL, stderr=subprocess.PIPE, text=True, env=chk.ASAN_ENV)))
            time.sleep(0.02)
            still = []
            for r in running:
                if r[4].poll() is None: still.append(r)
                else: done.append(r)
            running = still
        for name, prof, base, out, p in done:
            err = p.stderr.read() if p.stderr else ''
            programs += 1
            model = open(base + '.model', errors='replace').read().splitlines()
            impl = open(out, errors='replace').read().splitlines() if os.path.exists(out) else []
            ops = open(base + '.ops', errors='replace').read().splitlines()
            compared += len(impl)
            bad = None
            for i in range(max(len(model), len(impl))):
                a = model[i] if i < len(model) else '<none>'; b = impl[i] if i < len(impl) else '<no output: aborted>'
                if ' c-' in b + ' ':   # a case run with no callback installed (K 0): the model's token count is masked, as in the driver's own comparison
                    import re as _re
                    h, sep, t = a.partition(' | '); a = _re.sub(r' c[0-9]+( |$)', r' c-\1', h) + sep + t
                if a != b: bad = (i, a, b); break
            if p.returncode != 0 or bad:
                disagreements += 1
                i = bad[0] if bad else len(impl)
                # the case containing line i
                start = i
                while start > 0 and not ops[start].startswith('C '): start -= 1
                end = i + 1
                while end < len(ops) and not ops[end].startswith('C '): end += 1
                what = 'build %s, profile %s: ' % (name, prof)
                what += (chk.crash_summary(err) if p.returncode != 0 else 'observation differs from the model at op "%s": build says "%s", model says "%s"' % (ops[i] if i < len(ops) else '?', bad[2], bad[1]))
                viols.append({'what': what, 'lines': ops[start:end], 'log': err[-2500:]})
        nviol = 0; rc = 0; seen = set()
        known = chk.load_known()
        for v in viols:
            key = v['what'][:80]
            if key in seen or len(seen) >= 4: continue
            seen.add(key)
            sig = chk.signature(pid, v['what'].split(':')[0] + '|' + '\n'.join(l for l in v['lines'] if not l.startswith('C ')))
            k = [x for x in known if x[0] == pid and x[1] == sig]
            if k: print('KNOWN-FINDING: property=%s %s' % (pid, k[0][2] or v['what'])); continue
            body = '# property C18 violated: %s\n# signature %s\n# re-run: ./check replay <this file>  (gcc ASan+UBSan build), or ./check C18 quick for all builds\n' % (v['what'].replace('\n', ' '), sig)
            body += '\n'.join(v['lines']) + '\n' + '\n'.join('# ' + l for l in v.get('log', '').splitlines()[:30]) + '\n'
            path = chk.write_replay(pid, 'build', body)
            print('VIOLATION property=%s replay=%s' % (pid, path)); print('  ' + v['what'][:500]); nviol += 1; rc = 1
        if broken and nviol == 0:
            path = chk.write_replay(pid, 'unproved', '# property C18: the following no longer checks\n' + '\n'.join('# - ' + b.replace('\n', '\n#   ') for b in broken[:10]) + '\n')
            print('VIOLATION property=%s replay=%s no-failing-input-found' % (pid, path))
            for b in broken[:4]: print('  ' + b[:400].replace('\n', ' | '))
            nviol += 1; rc = 1
        samples = []
        for prof, base in scripts[:3]:
            samples.append({'profile': prof, 'script_head': open(base + '.ops', errors='replace').read().splitlines()[:8]})
        cov = {'programs': programs, 'disagreements_checked': disagreements, 'samples': samples or ['(no scripts)'],
               'builds': [b[0] for b in builds], 'scripts': [s[0] for s in scripts], 'lines_compared': compared,
               'evaluations': compared, 'distinct_nontrivial': programs,
               'rule': 'one program = one (build configuration, scenario script) pair whose complete observation stream was compared with the Lean model\'s; scripts cover every public C function',
               'bridge_obligations': obligations, 'bridge_discharged': discharged, 'broken': broken[:10]}
        ev = {'property_id': pid, 'tier': tier, 'seed': seed, 'level': 'translation_validation', 'coverage': cov,
              'assumptions': ['the scenario corpus is seeded and finite; the Lean model is the single reference every build is compared with',
                              'sanitizers: ASan+UBSan of gcc 12 and clang 14 with -fno-sanitize-recover=all'],
              'wall_s': round(time.time() - t0, 2), 'violations': nviol}
        tmp = os.path.join(chk.EVID, pid + '.json.tmp'); json.dump(ev, open(tmp, 'w'), indent=1); os.replace(tmp, os.path.join(chk.EVID, pid + '.json'))
        print('%s %s: %d builds x %d scripts = %d programs, %d lines compared, %d violations, %.1fs' % (pid, tier, len(builds), len(scripts), programs, compared, nviol, time.time() - t0))
        return rc
    finally:
        shutil.rmtree(rundir, ignore_errors=True)
