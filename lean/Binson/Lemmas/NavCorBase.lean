/-
  Layer 4, corollaries, part 1: "reachable" pairs of machine state and reference cursor, and the
  facts that hold for all of them: the agreement relation of the refinement (`reachable_agree`),
  the frame of the parser object (buffer, `max_depth`, parser type: `reachable_inv`), closure
  under one more allowed call (`reachable_step`).
-/
import Binson.Lemmas.Nav
import Binson.Lemmas.Stream
import Binson.Lemmas.NavRunDefs
import Binson.Lemmas.CppSerMap
namespace Binson

/-- the hypotheses under which the refinement holds: an allocated parser object, a depth
    configuration the state array can hold, a well-formed document that fits it -/
structure NavSetup (g : Parser) (root : Root) (v : Value) : Prop where
  alloc : Alloc g
  md : g.maxDepth ≤ 255
  wf : wfDoc root g.maxDepth v = true
  sz : (encode v).length < 2 ^ 63

/-- machine and cursor right after `init` on the canonical encoding of `v` -/
def navStart (g : Parser) (root : Root) (v : Value) : Parser × Cursor :=
  ((init g (encode v).toArray (rootNum root)).1, Cursor.start root v)

/-- `(p, c)` is what some protocol-following call sequence leads to -/
def Reachable (g : Parser) (root : Root) (v : Value) (p : Parser) (c : Cursor) : Prop :=
  NavSetup g root v ∧ ∃ ops, (p, c) = navRun (navStart g root v) ops

/-! ### `navRun` -/

theorem navRun_cons_allowed (pc : Parser × Cursor) (op : COp) (ops : List COp) (h : pc.2.allowed op = true) :
    navRun pc (op :: ops) = navRun ((machNav pc.1 op).1, (pc.2.step op).1) ops := by
  rw [navRun, if_pos h]

theorem navRun_cons_refused (pc : Parser × Cursor) (op : COp) (ops : List COp) (h : pc.2.allowed op = false) :
    navRun pc (op :: ops) = pc := by
  rw [navRun, if_neg (by rw [h]; decide)]

/-- a property of pairs that every allowed call preserves holds along `navRun` -/
theorem navRun_induct (P : Parser → Cursor → Prop)
    (hstep : ∀ p c op, P p c → c.allowed op = true → P (machNav p op).1 (c.step op).1) :
    ∀ (ops : List COp) (pc : Parser × Cursor), P pc.1 pc.2 → P (navRun pc ops).1 (navRun pc ops).2
  | [], _, h => h
  | op :: ops, pc, h => by
    cases ha : pc.2.allowed op with
    | false => rw [navRun_cons_refused pc op ops ha]; exact h
    | true =>
      rw [navRun_cons_allowed pc op ops ha]
      exact navRun_induct P hstep ops _ (hstep pc.1 pc.2 op h ha)

/-- one more allowed call after a run is again a run -/
theorem navRun_extend : ∀ (ops : List COp) (pc : Parser × Cursor) (op : COp), (navRun pc ops).2.allowed op = true →
    ∃ ops', navRun pc ops' = ((machNav (navRun pc ops).1 op).1, ((navRun pc ops).2.step op).1)
  | [], pc, op, h => ⟨[op], by rw [navRun_cons_allowed pc op [] h]; rfl⟩
  | o :: r, pc, op, h => by
    cases ha : pc.2.allowed o with
    | false =>
      rw [navRun_cons_refused pc o r ha] at h ⊢
      exact ⟨[op], by rw [navRun_cons_allowed pc op [] h]; rfl⟩
    | true =>
      rw [navRun_cons_allowed pc o r ha] at h ⊢
      obtain ⟨ops', e⟩ := navRun_extend r _ op h
      exact ⟨o :: ops', by rw [navRun_cons_allowed pc o ops' ha]; exact e⟩

/-! ### every navigation call keeps the frame invariant of the streaming proof -/

theorem machNav_inv {buf : Array UInt8} {md t : Nat} (p : Parser) (op : COp) (hI : Inv buf md t p) :
    Inv buf md t (machNav p op).1 := by
  cases op with
  | next => exact next_inv p hI
  | enterObj => exact advance_inv p .enterObj none hI
  | enterArr => exact advance_inv p .enterArr none hI
  | leaveObj => exact leaveObject_inv p hI
  | leaveArr => exact leaveArray_inv p hI
  | raw => exact getRaw_inv p hI
  | field nm => exact field_inv p nm hI

/-! ### the start -/

theorem NavSetup.fresh {g : Parser} {root : Root} {v : Value} (hS : NavSetup g root v) :
    Fresh (navStart g root v).1 (encode v).toArray (rootNum root) g.maxDepth :=
  (verify_wellformed g hS.alloc hS.md root v hS.wf hS.sz).2.1

theorem NavSetup.agree_start {g : Parser} {root : Root} {v : Value} (hS : NavSetup g root v) :
    Agree (navStart g root v).1 (navStart g root v).2 := by
  have hF := hS.fresh
  have hm : (navStart g root v).1.maxDepth = g.maxDepth := hF.maxDepth
  exact Agree.start root v rfl (by rw [hm]; exact hF) (by rw [hm]; exact hS.md) (by rw [hm]; exact hS.wf)

theorem NavSetup.inv_start {g : Parser} {root : Root} {v : Value} (hS : NavSetup g root v) :
    Inv (encode v).toArray g.maxDepth (rootNum root) (navStart g root v).1 := by
  have hi := (verify_wellformed g hS.alloc hS.md root v hS.wf hS.sz).1
  obtain ⟨h2, ht⟩ := init_accept g (encode v).toArray _ hi
  refine hS.fresh.inv hS.md h2 ?_
  rcases ht with ⟨a, b, _⟩ | ⟨a, b, _⟩
  · exact Or.inl ⟨a, b⟩
  · exact Or.inr ⟨a, b⟩

/-! ### reachable pairs -/

theorem Reachable.start {g : Parser} {root : Root} {v : Value} (hS : NavSetup g root v) :
    Reachable g root v (navStart g root v).1 (navStart g root v).2 := ⟨hS, [], rfl⟩

/-- "reachable" spelled out: the pair a call sequence leads to from `init` on the encoding of `v` -/
theorem reachable_of_run (g : Parser) (ha : Alloc g) (hmd : g.maxDepth ≤ 255) (root : Root) (v : Value)
    (hwf : wfDoc root g.maxDepth v = true) (hsz : (encode v).length < 2 ^ 63) (ops : List COp) :
    Reachable g root v (navRun ((init g (encode v).toArray (rootNum root)).1, Cursor.start root v) ops).1
      (navRun ((init g (encode v).toArray (rootNum root)).1, Cursor.start root v) ops).2 :=
  ⟨⟨ha, hmd, hwf, hsz⟩, ops, rfl⟩

/-- the agreement relation holds for every reachable pair -/
theorem reachable_agree {g : Parser} {root : Root} {v : Value} {p : Parser} {c : Cursor}
    (h : Reachable g root v p c) : Agree p c := by
  obtain ⟨hS, ops, e⟩ := h
  have := navRun_induct Agree (fun p c op hA ha => (agree_step hA op ha).2) ops (navStart g root v) hS.agree_start
  rw [← e] at this
  exact this

/-- the parser object of a reachable pair still describes the same buffer, depth configuration and
    parser type (and is in good shape) -/
theorem reachable_inv {g : Parser} {root : Root} {v : Value} {p : Parser} {c : Cursor}
    (h : Reachable g root v p c) : Inv (encode v).toArray g.maxDepth (rootNum root) p := by
  obtain ⟨hS, ops, e⟩ := h
  have := navRun_induct (fun p _ => Inv (encode v).toArray g.maxDepth (rootNum root) p)
    (fun p c op hI _ => machNav_inv p op hI) ops (navStart g root v) hS.inv_start
  rw [← e] at this
  exact this

/-- one more protocol-following call from a reachable pair gives a reachable pair -/
theorem reachable_step {g : Parser} {root : Root} {v : Value} {p : Parser} {c : Cursor}
    (h : Reachable g root v p c) (op : COp) (ha : c.allowed op = true) :
    Reachable g root v (machNav p op).1 (c.step op).1 := by
  obtain ⟨hS, ops, e⟩ := h
  have e1 : (navRun (navStart g root v) ops).1 = p := by rw [← e]
  have e2 : (navRun (navStart g root v) ops).2 = c := by rw [← e]
  obtain ⟨ops', e'⟩ := navRun_extend ops (navStart g root v) op (by rw [e2]; exact ha)
  rw [e1, e2] at e'
  exact ⟨hS, ops', e'.symm⟩

/-- what the refinement says about one call from a reachable pair -/
theorem reachable_obs {g : Parser} {root : Root} {v : Value} {p : Parser} {c : Cursor}
    (h : Reachable g root v p c) (op : COp) (ha : c.allowed op = true) : Obs p c op :=
  (agree_step (reachable_agree h) op ha).1

theorem Reachable.buf {g : Parser} {root : Root} {v : Value} {p : Parser} {c : Cursor}
    (h : Reachable g root v p c) : p.buf = (encode v).toArray := (reachable_inv h).hbuf

theorem Reachable.maxDepth {g : Parser} {root : Root} {v : Value} {p : Parser} {c : Cursor}
    (h : Reachable g root v p c) : p.maxDepth = g.maxDepth := (reachable_inv h).hmd

theorem Reachable.ptype {g : Parser} {root : Root} {v : Value} {p : Parser} {c : Cursor}
    (h : Reachable g root v p c) : p.ptype = rootNum root := (reachable_inv h).hpt

end Binson
