/-
  Traversal programs, part 2: the C++ `Binson::deserialize` recursion (`cppDesItem` / `cppDesItems` /
  `cppDesElems` of Model/Cpp.lean) on the encoding of a well-formed document rebuilds exactly the
  tree the bytes encode. The proof runs the program against the reference cursor: each call is
  `agree_step`, each getter is `ItemMatches`.
-/
import Binson.Lemmas.WalkCur
import Binson.Model.Cpp
namespace Binson

theorem walk_tokens_pos (v : Value) : 1 ≤ tokens v := by
  cases v <;> simp [tokens] <;> omega

theorem walk_uint64_ofNat_toNat (b : UInt64) : UInt64.ofNat b.toNat = b := by
  simp

mutual
/-- `deseralizeItem` on the child `next` has just returned -/
theorem walk_desItem (v : Value) (f : Nat) (p : Parser) (c : Cursor) (nm : Option (Bytes × Span)) (off : Nat)
    (hfu : tokens v ≤ f) (hA : Agree p c) (fr0 : Frame) (fr : List Frame) (hfr : c.frames = fr0 :: fr)
    (hcur : c.cur = some (annotate nm off v)) (he : p.err = .none)
    (hm : ItemMatches p (annotate nm off v).item) (hwf : wfValue v = true) :
    ∃ p' c', cppDesItem f p = .ok (v, p') ∧ Agree p' c' ∧ c'.frames = c.frames := by
  have hpos := walk_tokens_pos v
  obtain ⟨f', rfl⟩ : ∃ f', f = f' + 1 := ⟨f - 1, by omega⟩
  have hty := hm.ty
  rw [walk_item_ty] at hty
  cases v with
  | bool b =>
    have hb := hm.bool
    simp only [annotate, Node.item] at hb hty
    refine ⟨p, c, ?_, hA, rfl⟩
    rw [cppDesItem]
    simp only [he, hty, hb]
    simp
  | int i =>
    have hb := hm.int
    simp only [annotate, Node.item] at hb hty
    refine ⟨p, c, ?_, hA, rfl⟩
    rw [cppDesItem]
    simp only [he, hty, hb]
    simp
  | dbl d =>
    have hb := hm.dbl
    simp only [annotate, Node.item] at hb hty
    refine ⟨p, c, ?_, hA, rfl⟩
    rw [cppDesItem]
    simp only [he, hty, hb]
    simp
  | str s =>
    have hb := hm.str
    have hp := (hm.payload _ rfl).1
    simp only [annotate, Node.item] at hb hty hp
    refine ⟨p, c, ?_, hA, rfl⟩
    rw [cppDesItem]
    simp only [he, hty, hb, hp]
    simp
  | bytes s =>
    have hb := hm.bytes
    have hp := (hm.payload _ rfl).1
    simp only [annotate, Node.item] at hb hty hp
    refine ⟨p, c, ?_, hA, rfl⟩
    rw [cppDesItem]
    simp only [he, hty, hb, hp]
    simp
  | obj fs =>
    simp only at hty
    have hwf' : wfFields none fs = true := by simpa [wfValue] using hwf
    have hfu' : tokensF fs + 1 ≤ f' := by simp only [tokens] at hfu; omega
    -- go_into_object
    obtain ⟨a1, a2, a3⟩ := walk_cur_enterObj hfr hcur (by rw [walk_item_ty])
    obtain ⟨g1, g2, _, g4⟩ := walk_call hA .enterObj a1
    rw [walk_machNav_enterObj] at g1 g2 g4
    simp only at g1 g2 g4
    rw [a3] at g1
    rw [annotate_children_obj] at a2
    -- the fields
    obtain ⟨p2, c2, d1, d2, d3⟩ := walk_desItems fs f' (goIntoObject p).1 _ .nil true (fr0 :: fr) (off + 1) none
      hfu' g4 a2 hwf' (by simpa [walkAppF] using ascF_of_wfFields none fs hwf')
    -- leave_object
    obtain ⟨b1, b2, b3⟩ := walk_cur_leaveObj d3
    obtain ⟨l1, _, _, l4⟩ := walk_call d2 .leaveObj b1
    rw [walk_machNav_leaveObj] at l1 l4
    simp only at l1 l4
    rw [b3] at l1
    refine ⟨(leaveObject p2).1, _, ?_, l4, by rw [b2, hfr]⟩
    rw [cppDesItem]
    simp only [he, hty, g1, d1, l1]
    simp [walkAppF]
  | arr xs =>
    simp only at hty
    have hwf' : wfElems xs = true := by simpa [wfValue] using hwf
    have hfu' : tokensE xs + 1 ≤ f' := by simp only [tokens] at hfu; omega
    obtain ⟨a1, a2, a3⟩ := walk_cur_enterArr hfr hcur (by rw [walk_item_ty])
    obtain ⟨g1, g2, _, g4⟩ := walk_call hA .enterArr a1
    rw [walk_machNav_enterArr] at g1 g2 g4
    simp only at g1 g2 g4
    rw [a3] at g1
    rw [annotate_children_arr] at a2
    obtain ⟨p2, c2, d1, d2, d3⟩ := walk_desElems xs f' (goIntoArray p).1 _ false (fr0 :: fr) (off + 1) hfu' g4 a2 hwf'
    obtain ⟨b1, b2, b3⟩ := walk_cur_leaveArr d3
    obtain ⟨l1, _, _, l4⟩ := walk_call d2 .leaveArr b1
    rw [walk_machNav_leaveArr] at l1 l4
    simp only at l1 l4
    rw [b3] at l1
    refine ⟨(leaveArray p2).1, _, ?_, l4, by rw [b2, hfr]⟩
    rw [cppDesItem]
    simp only [he, hty, g1, d1, l1]
    simp
/-- `deseralizeItems`: the `while (next)` loop over the remaining fields of the object entered -/
theorem walk_desItems (fs : Fields) (f : Nat) (p : Parser) (c : Cursor) (acc : Fields) (io : Bool) (fr : List Frame) (off : Nat)
    (prev : Option Bytes) (hfu : tokensF fs + 1 ≤ f) (hA : Agree p c) (hfr : c.frames = ⟨io, annotateF off fs⟩ :: fr)
    (hwf : wfFields prev fs = true) (hasc : ascF none (walkAppF acc fs) = true) :
    ∃ p' c', cppDesItems f p acc = .ok (walkAppF acc fs, p') ∧ Agree p' c' ∧ c'.frames = ⟨io, []⟩ :: fr := by
  obtain ⟨f', rfl⟩ : ∃ f', f = f' + 1 := ⟨f - 1, by omega⟩
  obtain ⟨n1, n2, n3, n4⟩ := walk_call hA .next (walk_cur_next_allowed hfr)
  rw [walk_machNav_next] at n1 n2 n3 n4
  simp only at n1 n2 n3 n4
  cases fs with
  | nil =>
    simp only [annotateF] at hfr
    obtain ⟨s1, s2⟩ := walk_cur_next_nil hfr
    rw [s2] at n1
    refine ⟨(next p).1, _, ?_, n4, s1⟩
    rw [cppDesItems]
    simp only [n1, n2, walk_appF_nil_right]
    simp
  | cons n v r =>
    rw [annotateF_cons] at hfr
    obtain ⟨s1, s2, s3, s4⟩ := walk_cur_next_cons hfr
    rw [s3] at n1
    have hm := n3 _ s4
    have hh : ((nameAfter prev n = true ∧ n.length ≤ INT32_MAX) ∧ wfValue v = true) ∧ wfFields (some n) r = true := by
      simpa [wfFields] using hwf
    obtain ⟨gn1, gn2, _⟩ := hm.name n _ (annotate_item_name _ _ _)
    have hfu1 : tokens v ≤ f' := by simp only [tokensF] at hfu; omega
    have hfu2 : tokensF r + 1 ≤ f' := by simp only [tokensF] at hfu; omega
    -- the value
    obtain ⟨p2, c2, d1, d2, d3⟩ := walk_desItem v f' (next p).1 _ _ _ hfu1 n4 _ _ s1 s2 n2 hm hh.1.2
    rw [s1] at d3
    -- the remaining fields
    have hput : mapPut acc n v = walkAppF acc (.cons n v .nil) := walk_mapPut_appF acc none n v r hasc
    obtain ⟨p3, c3, e1, e2, e3⟩ := walk_desItems r f' p2 c2 (mapPut acc n v) io fr _ (some n) hfu2 d2 d3 hh.2
      (by rw [hput, walk_appF_assoc]; exact hasc)
    rw [hput, walk_appF_assoc] at e1
    simp only [walkAppF] at e1
    refine ⟨p3, c3, ?_, e2, e3⟩
    rw [cppDesItems]
    simp only [n1, gn1, n2, gn2, d1, hput, e1]
    simp
/-- the `while (next) push_back(deseralizeItem)` loop over the remaining elements of the array entered -/
theorem walk_desElems (xs : Elems) (f : Nat) (p : Parser) (c : Cursor) (io : Bool) (fr : List Frame) (off : Nat)
    (hfu : tokensE xs + 1 ≤ f) (hA : Agree p c) (hfr : c.frames = ⟨io, annotateE off xs⟩ :: fr)
    (hwf : wfElems xs = true) :
    ∃ p' c', cppDesElems f p = .ok (xs, p') ∧ Agree p' c' ∧ c'.frames = ⟨io, []⟩ :: fr := by
  obtain ⟨f', rfl⟩ : ∃ f', f = f' + 1 := ⟨f - 1, by omega⟩
  obtain ⟨n1, n2, n3, n4⟩ := walk_call hA .next (walk_cur_next_allowed hfr)
  rw [walk_machNav_next] at n1 n2 n3 n4
  simp only at n1 n2 n3 n4
  cases xs with
  | nil =>
    simp only [annotateE] at hfr
    obtain ⟨s1, s2⟩ := walk_cur_next_nil hfr
    rw [s2] at n1
    refine ⟨(next p).1, _, ?_, n4, s1⟩
    rw [cppDesElems]
    simp only [n1]
    simp
  | cons v r =>
    rw [annotateE_cons] at hfr
    obtain ⟨s1, s2, s3, s4⟩ := walk_cur_next_cons hfr
    rw [s3] at n1
    have hm := n3 _ s4
    have hh : wfValue v = true ∧ wfElems r = true := by simpa [wfElems] using hwf
    have hpos := walk_tokens_pos v
    have hfu1 : tokens v ≤ f' := by simp only [tokensE] at hfu; omega
    have hfu2 : tokensE r + 1 ≤ f' := by simp only [tokensE] at hfu; omega
    obtain ⟨p2, c2, d1, d2, d3⟩ := walk_desItem v f' (next p).1 _ _ _ hfu1 n4 _ _ s1 s2 n2 hm hh.1
    rw [s1] at d3
    obtain ⟨p3, c3, e1, e2, e3⟩ := walk_desElems r f' p2 c2 io fr _ hfu2 d2 d3 hh.2
    refine ⟨p3, c3, ?_, e2, e3⟩
    rw [cppDesElems]
    simp only [n1, d1, e1]
    simp
end

end Binson
