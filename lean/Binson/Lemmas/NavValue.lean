/-
  Layer 4, part 9: the VALUE mode (`next`, field lookup) AT the originating level, with the level
  in its normal state (nothing pending): the next child is read and made current (a container is
  left unconsumed in front of the cursor), or the END token / an overshooting name ends the call.
-/
import Binson.Lemmas.NavLeave
namespace Binson

/-- an iteration that changed nothing -/
theorem same_of_stepRes {st st' : LoopSt} {oa od : Nat} {s' : Option Scan} (hO : AtOrig st oa od)
    (r : StepRes st st' 0 s' st.p.depth (fun i => st.p.getLvl i)) :
    AtOrig st' oa od ∧ Kept st st' ∧ st'.p.rem = st.p.rem ∧ (∀ i, st'.p.getLvl i = st.p.getLvl i) := by
  have hi : st'.p.lvlIdx = st.p.lvlIdx := by unfold Parser.lvlIdx; rw [r.depth]
  refine ⟨⟨r.shape, r.err, by rw [r.depth]; exact hO.d1, by rw [r.depth]; exact hO.od, by rw [hi, r.lvl]; exact hO.oa, ?_,
    by rw [r.frame.2.2.1]; exact hO.md255, ?_⟩, ⟨r.depth, r.frame, fun i _ => r.lvl i, by rw [r.lvl]⟩, ?_, r.lvl⟩
  · intro i h; rw [r.depth] at h; rw [r.lvl]; exact hO.zeros i h
  · intro h1 h2; rw [hi, r.lvl]
    exact hO.rootArr (by rw [← r.frame.2.2.2.1]; exact h1) (by rw [← r.depth]; exact h2)
  · exact rem_of_frame (bs := []) r.frame.2.1 r.used hO.shape (by simp) rfl

/-- `}` ends `next`/lookup -/
theorem value_obj_end {st : LoopSt} {sn : Option (List UInt8)} {oa od : Nat} (hO : AtOrig st oa od) (hsc : st.scan = some .value)
    (rest : Bytes) (hrem : st.p.rem = 0x41 :: rest) (hfl : (st.p.getLvl st.p.lvlIdx).flags = .expField) :
    ∃ st', Halts sn oa od st st' false ∧ AtOrig st' oa od ∧ Kept st st' ∧ st'.p.rem = st.p.rem ∧
      (∀ i, st'.p.getLvl i = st.p.getLvl i) := by
  have hcl := classify_objEnd hO.shape hO.err st.bc rest hrem
  obtain ⟨st', i1, r1⟩ := iter_objEnd_value (sn := sn) (oa := oa) hO.shape hO.err hcl hfl hsc hO.od
  obtain ⟨a, b, c, d⟩ := same_of_stepRes hO r1
  exact ⟨st', Halts.ret i1, a, b, c, d⟩

/-- `]` ends `next` -/
theorem value_arr_end {st : LoopSt} {sn : Option (List UInt8)} {oa od : Nat} (hO : AtOrig st oa od) (hsc : st.scan = some .value)
    (rest : Bytes) (hrem : st.p.rem = 0x43 :: rest)
    (hfl : (st.p.getLvl st.p.lvlIdx).flags = .arr1 ∨ (st.p.getLvl st.p.lvlIdx).flags = .arr2) :
    ∃ st', Halts sn oa od st st' false ∧ AtOrig st' oa od ∧ Kept st st' ∧ st'.p.rem = st.p.rem ∧
      (∀ i, st'.p.getLvl i = st.p.getLvl i) := by
  have hcl := classify_arrEnd hO.shape hO.err st.bc rest hrem
  obtain ⟨st', i1, r1⟩ := iter_arrEnd_value (sn := sn) hO.shape hO.err hcl hfl hsc hO.oa hO.od
  obtain ⟨a, b, c, d⟩ := same_of_stepRes hO r1
  exact ⟨st', Halts.ret i1, a, b, c, d⟩

/-- the closed form of a field name token from the bytes, with the ordering check discharged -/
theorem name_token {st : LoopSt} (hsh : Shape st.p) (he : st.p.err = .none) (n : Bytes) (rest : Bytes)
    (hrem : st.p.rem = encStr 0x14 n ++ rest) (hn : n.length ≤ INT32_MAX) (hprev : nameAfter (prevName st.p) n = true) :
    classify st.p st.bc = ⟨.string, ⟨st.p.used + 1 + intWidth (n.length : Int), n.length⟩, 1 + intWidth (n.length : Int) + n.length,
      { st.p with used := st.p.used + 1 + intWidth (n.length : Int) + n.length }⟩ ∧
    (∀ q : Parser, q.buf = st.p.buf → q.slice ⟨st.p.used + 1 + intWidth (n.length : Int), n.length⟩ = n) ∧
    st.p.used + (1 + intWidth (n.length : Int) + n.length) ≤ st.p.size ∧
    (∀ pn, (st.p.getLvl st.p.lvlIdx).name = some pn →
        cmpBytes (st.p.slice pn) (st.p.slice ⟨st.p.used + 1 + intWidth (n.length : Int), n.length⟩) < 0) := by
  obtain ⟨c1, c2, _⟩ := classify_str hsh he st.bc _ n hn hrem
  have hfitn := rem_fit hsh hrem
  rw [encStr_length] at hfitn
  refine ⟨c1, c2, hfitn, ?_⟩
  intro pn hpn
  rw [c2 st.p rfl]
  apply cmpBytes_neg_of_lt
  unfold prevName at hprev
  rw [hpn] at hprev
  simpa [nameAfter] using hprev

/-- a name beyond the one looked for: the cursor is put back in front of it, the lookup fails -/
theorem value_obj_over {st : LoopSt} {oa od : Nat} (hO : AtOrig st oa od)
    (n : Bytes) (rest : Bytes) (hrem : st.p.rem = encStr 0x14 n ++ rest) (hn : n.length ≤ INT32_MAX)
    (hprev : nameAfter (prevName st.p) n = true)
    (hfl : (st.p.getLvl st.p.lvlIdx).flags = .expField) (nm : List UInt8) (hov : cmpBytes n nm > 0) :
    ∃ st', Halts (some nm) oa od st st' false ∧ AtOrig st' oa od ∧ Kept st st' ∧ st'.p.rem = st.p.rem ∧
      (∀ i, st'.p.getLvl i = st.p.getLvl i) := by
  obtain ⟨c1, c2, hfitn, hord⟩ := name_token hO.shape hO.err n rest hrem hn hprev
  obtain ⟨st', i1, r1⟩ := (iter_fieldName_orig (sn := some nm) hO.shape hO.err
    ⟨st.p.used + 1 + intWidth (n.length : Int), n.length⟩ _ _ (by simp only [Nat.add_assoc]) c1
    hfitn (by simp only; omega) hfl hord hO.oa hO.od).2 (by unfold overshoot; simp only [c2 st.p rfl]; simpa using hov)
  obtain ⟨a, b, c, d⟩ := same_of_stepRes hO r1
  exact ⟨st', Halts.ret i1, a, b, c, d⟩

theorem annotate_ty_obj (nm : Option (Bytes × Span)) (off : Nat) (fs : Fields) : (annotate nm off (.obj fs)).item.ty = .object := by
  simp [annotate, Node.item]
theorem annotate_ty_arr (nm : Option (Bytes × Span)) (off : Nat) (xs : Elems) : (annotate nm off (.arr xs)).item.ty = .array := by
  simp [annotate, Node.item]

/-- VALUE mode with an empty scan word (after the field name) or at an array level: the loop stops in
    front of a container value, which becomes pending -/
theorem stop_at_container (v : Value) (hc : v.isContainer = true) {st : LoopSt} {sn : Option (List UInt8)} {oa od : Nat}
    (hO : AtOrig st oa od) (rest : Bytes) (hrem : st.p.rem = encode v ++ rest)
    (hfit : fits (st.p.maxDepth - st.p.depth) (255 - (st.p.getLvl st.p.lvlIdx).ad) v = true)
    (hp : ((st.p.getLvl st.p.lvlIdx).flags = .expValue ∧ st.scan = none) ∨
          ((st.p.getLvl st.p.lvlIdx).flags = .arr1 ∧ st.scan = some .value)) :
    ∃ st', iter st sn oa od = (st', .stop) ∧ st'.p.err = .none ∧ AtOrig st' oa od ∧ Kept st st' ∧ st'.p.rem = st.p.rem ∧
      st'.p.used = st.p.used ∧
      (st'.p.getLvl st.p.lvlIdx).name = (st.p.getLvl st.p.lvlIdx).name ∧
      (st'.p.getLvl st.p.lvlIdx).ctype = (annotate none 0 v).item.ty ∧
      ((st.p.getLvl st.p.lvlIdx).flags = .expValue → (st'.p.getLvl st.p.lvlIdx).flags = .expValue) ∧
      ((st.p.getLvl st.p.lvlIdx).flags = .arr1 → (st'.p.getLvl st.p.lvlIdx).flags = .arr2) := by
  have hsh := hO.shape
  have hd : ∀ a : Nat, a = (st.p.getLvl st.p.lvlIdx).ad → decide (oa = a ∧ od = st.p.depth) = true := by
    intro a ha; simp [ha, ← hO.oa, ← hO.od]
  -- what the blocks do, for either BEGIN token
  have blocks : ∀ (tok : Tok) (ct : Ty), (tok = .objBegin ∨ tok = .arrBegin) →
      ∃ lv1 lv2, objBlock { st.p.getLvl st.p.lvlIdx with ctype := ct } tok = some (lv1, tok) ∧
        arrBlock lv1 tok (decide (oa = lv1.ad ∧ od = st.p.depth)) st.scan = (lv2, none) ∧
        lv2.ad = (st.p.getLvl st.p.lvlIdx).ad ∧
        (if lv2.flags = .expField then ({ lv2 with flags := .expValue } : Level) else lv2).ad = (st.p.getLvl st.p.lvlIdx).ad ∧
        (if lv2.flags = .expField then ({ lv2 with flags := .expValue } : Level) else lv2).name = (st.p.getLvl st.p.lvlIdx).name ∧
        (if lv2.flags = .expField then ({ lv2 with flags := .expValue } : Level) else lv2).ctype = ct ∧
        ((st.p.getLvl st.p.lvlIdx).flags = .expValue → (if lv2.flags = .expField then ({ lv2 with flags := .expValue } : Level) else lv2).flags = .expValue) ∧
        ((st.p.getLvl st.p.lvlIdx).flags = .arr1 → (if lv2.flags = .expField then ({ lv2 with flags := .expValue } : Level) else lv2).flags = .arr2) := by
    intro tok ct ht
    have hv : tok.isValue = true := by rcases ht with h | h <;> rw [h] <;> rfl
    rcases hp with ⟨hf, hs⟩ | ⟨hf, hs⟩
    · refine ⟨{ { st.p.getLvl st.p.lvlIdx with ctype := ct } with flags := .expField },
        { { st.p.getLvl st.p.lvlIdx with ctype := ct } with flags := .expField },
        objBlock_val_obj (lv := { st.p.getLvl st.p.lvlIdx with ctype := ct }) hf hv, ?_, rfl, rfl, rfl, rfl, fun _ => rfl, ?_⟩
      · rw [hs]; exact arrBlock_notArr _ _ _ rfl
      · intro h; rw [hf] at h; cases h
    · refine ⟨{ st.p.getLvl st.p.lvlIdx with ctype := ct }, { { st.p.getLvl st.p.lvlIdx with ctype := ct } with flags := .arr2 },
        objBlock_arr (lv := { st.p.getLvl st.p.lvlIdx with ctype := ct }) (Or.inl hf), ?_, rfl, rfl, rfl, rfl, ?_, fun _ => rfl⟩
      · rw [hd _ rfl, hs, arrBlock_orig_begin1 (lv := { st.p.getLvl st.p.lvlIdx with ctype := ct }) _ hf ht]; rfl
      · intro h; rw [hf] at h; cases h
  have fin : ∀ (st' : LoopSt) (NL : Level), StepRes st st' 0 none st.p.depth (fun i => if i = st.p.lvlIdx then NL else st.p.getLvl i) →
      NL.ad = (st.p.getLvl st.p.lvlIdx).ad → st'.p.err = .none ∧ AtOrig st' oa od ∧ Kept st st' ∧ st'.p.rem = st.p.rem ∧
      st'.p.used = st.p.used ∧ st'.p.getLvl st.p.lvlIdx = NL := by
    intro st' NL r had
    obtain ⟨k1, k2, k3⟩ := stepRes_keeps hO r had
    exact ⟨r.err, k1, k2, rem_of_frame (bs := []) r.frame.2.1 r.used hsh (by simp) rfl, r.used, k3⟩
  cases v with
  | obj fs =>
    have hrem' : st.p.rem = 0x40 :: (encFields fs ++ 0x41 :: rest) := by simpa [encode] using hrem
    have hcl := classify_objBegin hsh hO.err st.bc _ hrem'
    obtain ⟨lv1, lv2, hob, hab, _, b2, b3, b4, b5, b6⟩ := blocks .objBegin .object (Or.inl rfl)
    obtain ⟨st', i1, r1⟩ := iter_objBegin_noenter (sn := sn) hsh hO.err hcl lv1 lv2 none hob hab rfl
    rw [outOf_none] at i1
    obtain ⟨f1, f2, f3, f4, f5, f6⟩ := fin st' _ r1 b2
    exact ⟨st', i1, f1, f2, f3, f4, f5, by rw [f6, b3], by rw [f6, b4, annotate_ty_obj], by rw [f6]; exact b5, by rw [f6]; exact b6⟩
  | arr xs =>
    have hrem' : st.p.rem = 0x42 :: (encElems xs ++ 0x43 :: rest) := by simpa [encode] using hrem
    have hcl := classify_arrBegin hsh hO.err st.bc _ hrem'
    have hfit' : (1 ≤ 255 - (st.p.getLvl st.p.lvlIdx).ad) ∧
        fitsE (st.p.maxDepth - st.p.depth) (255 - (st.p.getLvl st.p.lvlIdx).ad - 1) xs = true := by
      simpa [fits] using hfit
    obtain ⟨lv1, lv2, hob, hab, b1, b2, b3, b4, b5, b6⟩ := blocks .arrBegin .array (Or.inr rfl)
    obtain ⟨st', i1, r1⟩ := iter_arrBegin_noenter (sn := sn) hsh hO.err hcl lv1 lv2 none hob hab (by rw [b1]; omega) rfl
    rw [outOf_none] at i1
    obtain ⟨f1, f2, f3, f4, f5, f6⟩ := fin st' _ r1 b2
    exact ⟨st', i1, f1, f2, f3, f4, f5, by rw [f6, b3], by rw [f6, b4, annotate_ty_arr], by rw [f6]; exact b5, by rw [f6]; exact b6⟩
  | bool _ => cases hc
  | int _ => cases hc
  | dbl _ => cases hc
  | str _ => cases hc
  | bytes _ => cases hc


theorem ScalarOk.frame {p q : Parser} {L : Level} {v : Value} {off : Nat} (fr : p.Frame q) (h : ScalarOk p L v off) :
    ScalarOk q L v off :=
  ⟨h.ty, h.val, fun s hs => by rw [slice_congr fr.2.1, fr.1]; exact h.span s hs⟩

theorem annotate_ty_off (nm nm' : Option (Bytes × Span)) (off off' : Nat) (v : Value) :
    (annotate nm off v).item.ty = (annotate nm' off' v).item.ty := by
  cases v <;> simp [annotate, Node.item]

/-- `next` at an array level: the next element is made current -/
theorem value_arr_read {st : LoopSt} {sn : Option (List UInt8)} {oa od : Nat} (hO : AtOrig st oa od) (hsc : st.scan = some .value)
    (v : Value) (rest : Bytes) (hrem : st.p.rem = encode v ++ rest) (hwf : wfValue v = true)
    (hfit : fits (st.p.maxDepth - st.p.depth) (255 - (st.p.getLvl st.p.lvlIdx).ad) v = true)
    (hfl : (st.p.getLvl st.p.lvlIdx).flags = .arr1) (had : 1 ≤ (st.p.getLvl st.p.lvlIdx).ad) :
    ∃ st', Halts sn oa od st st' true ∧ AtOrig st' oa od ∧ Kept st st' ∧
      (st'.p.getLvl st.p.lvlIdx).name = (st.p.getLvl st.p.lvlIdx).name ∧
      (st'.p.getLvl st.p.lvlIdx).ctype = (annotate none 0 v).item.ty ∧
      (v.isContainer = true → st'.p.rem = st.p.rem ∧ st'.p.used = st.p.used ∧ (st'.p.getLvl st.p.lvlIdx).flags = .arr2) ∧
      (v.isContainer = false → st'.p.rem = rest ∧ (st'.p.getLvl st.p.lvlIdx).flags = .arr1 ∧
        ScalarOk st.p (st'.p.getLvl st.p.lvlIdx) v st.p.used) := by
  cases hc : v.isContainer with
  | true =>
    obtain ⟨st', i1, e1, o1, k1, r1, u1, n1, t1, _, f1⟩ := stop_at_container v hc (sn := sn) hO rest hrem hfit (Or.inr ⟨hfl, hsc⟩)
    exact ⟨st', Halts.stop i1 e1, o1, k1, n1, t1, fun _ => ⟨r1, u1, f1 hfl⟩, fun h => by cases h⟩
  | false =>
    obtain ⟨st', i1, r1, c1, o1, k1, n1, f1, s1⟩ := orig_scalar v hc (sn := sn) hO rest hrem hwf (Or.inr ⟨Or.inl hfl, had⟩)
    have hsa : scanAfter (st.p.getLvl st.p.lvlIdx) st.scan = none := by
      simp [scanAfter, hfl, Flags.inArray, hsc, clear]
    rw [hsa, outOf_none] at i1
    refine ⟨st', Halts.stop i1 o1.err, o1, k1, n1, ?_, (fun h => by cases h), fun _ => ⟨r1, ?_, s1⟩⟩
    · rw [s1.ty]; exact annotate_ty_off _ _ _ _ _
    · rw [f1]; simp [afterFlags, hfl]

/-- `next`/lookup at an object level: the next field (name not beyond the one looked for) is made current -/
theorem value_obj_read {st : LoopSt} {sn : Option (List UInt8)} {oa od : Nat} (hO : AtOrig st oa od) (hsc : st.scan = some .value)
    (n : Bytes) (v : Value) (rest : Bytes) (hrem : st.p.rem = encStr 0x14 n ++ (encode v ++ rest)) (hn : n.length ≤ INT32_MAX)
    (hprev : nameAfter (prevName st.p) n = true) (hwf : wfValue v = true)
    (hfit : fits (st.p.maxDepth - st.p.depth) 255 v = true)
    (hfl : (st.p.getLvl st.p.lvlIdx).flags = .expField) (had : (st.p.getLvl st.p.lvlIdx).ad = 0)
    (hno : ∀ nm, sn = some nm → ¬ cmpBytes n nm > 0) :
    ∃ st', Halts sn oa od st st' true ∧ AtOrig st' oa od ∧ Kept st st' ∧
      (st'.p.getLvl st.p.lvlIdx).name = some ⟨st.p.used + 1 + intWidth (n.length : Int), n.length⟩ ∧
      (∀ q : Parser, q.buf = st.p.buf → q.slice ⟨st.p.used + 1 + intWidth (n.length : Int), n.length⟩ = n) ∧
      st.p.used + (1 + intWidth (n.length : Int) + n.length) ≤ st.p.size ∧
      (st'.p.getLvl st.p.lvlIdx).ctype = (annotate none 0 v).item.ty ∧
      (v.isContainer = true → st'.p.rem = encode v ++ rest ∧ st'.p.used = st.p.used + (1 + intWidth (n.length : Int) + n.length) ∧
        (st'.p.getLvl st.p.lvlIdx).flags = .expValue) ∧
      (v.isContainer = false → st'.p.rem = rest ∧ (st'.p.getLvl st.p.lvlIdx).flags = .expField ∧
        ScalarOk st.p (st'.p.getLvl st.p.lvlIdx) v (st.p.used + (1 + intWidth (n.length : Int) + n.length))) := by
  have hsh := hO.shape
  obtain ⟨c1, c2, hfitn, hord⟩ := name_token hsh hO.err n _ hrem hn hprev
  have hnov : overshoot st.p ⟨st.p.used + 1 + intWidth (n.length : Int), n.length⟩ sn = false := by
    unfold overshoot
    cases sn with
    | none => rfl
    | some nm => simp only [c2 st.p rfl]; simpa using hno nm rfl
  obtain ⟨st1, i1, r1⟩ := (iter_fieldName_orig (sn := sn) hsh hO.err
    ⟨st.p.used + 1 + intWidth (n.length : Int), n.length⟩ _ _ (by simp only [Nat.add_assoc]) c1
    hfitn (by simp only; omega) hfl hord hO.oa hO.od).1 hnov
  rw [hsc, show clear (some Scan.value) .value = none from rfl] at r1
  obtain ⟨hO1, k1, l1⟩ := stepRes_keeps hO r1 rfl
  have hi1 := k1.lvlIdx
  have hr1 : st1.p.rem = encode v ++ rest := rem_of_frame r1.frame.2.1 r1.used hsh hrem (encStr_length _ _)
  have hl1f : (st1.p.getLvl st1.p.lvlIdx).flags = .expValue := by rw [hi1, l1]; rfl
  have hl1a : (st1.p.getLvl st1.p.lvlIdx).ad = 0 := by rw [hi1, l1]; exact had
  have hl1n : (st1.p.getLvl st1.p.lvlIdx).name = some ⟨st.p.used + 1 + intWidth (n.length : Int), n.length⟩ := by
    rw [hi1, l1]; rfl
  have hfitv : fits (st1.p.maxDepth - st1.p.depth) (255 - (st1.p.getLvl st1.p.lvlIdx).ad) v = true := by
    rw [r1.depth, r1.frame.2.2.1, hl1a]; exact hfit
  cases hc : v.isContainer with
  | true =>
    obtain ⟨st2, i2, e2, o2, k2, r2, u2, n2, t2, f2, _⟩ := stop_at_container v hc (sn := sn) hO1 rest hr1 hfitv (Or.inl ⟨hl1f, r1.scan⟩)
    rw [hi1] at n2 t2 f2
    refine ⟨st2, (Steps.one i1).halts (Halts.stop i2 e2), o2, k1.trans k2, ?_, c2, hfitn, t2, fun _ => ⟨r2.trans hr1, u2.trans r1.used, ?_⟩,
      fun h => by cases h⟩
    · rw [n2, ← hi1]; exact hl1n
    · exact f2 (by rw [← hi1]; exact hl1f)
  | false =>
    obtain ⟨st2, i2, r2, _, o2, k2, n2, f2, s2⟩ := orig_scalar v hc (sn := sn) hO1 rest hr1 hwf (Or.inl ⟨hl1f, hl1a⟩)
    have hsa : scanAfter (st1.p.getLvl st1.p.lvlIdx) st1.scan = none := by
      simp [scanAfter, hl1f, Flags.inArray, r1.scan]
    rw [hsa, outOf_none] at i2
    rw [hi1] at n2 f2 s2
    refine ⟨st2, (Steps.one i1).halts (Halts.stop i2 o2.err), o2, k1.trans k2, ?_, c2, hfitn, ?_, (fun h => by cases h), fun _ => ⟨r2, ?_, ?_⟩⟩
    · rw [n2, ← hi1]; exact hl1n
    · rw [s2.ty]; exact annotate_ty_off _ _ _ _ _
    · rw [f2]; simp [afterFlags, ← hi1, hl1f]
    · have := s2.frame (q := st.p) ⟨r1.frame.1.symm, r1.frame.2.1.symm, r1.frame.2.2.1.symm, r1.frame.2.2.2.1.symm, r1.frame.2.2.2.2.symm⟩
      rw [r1.used] at this; exact this

end Binson
