/-
  The model-level traversal PROGRAMS are correct (C10, C15 deserialize half, C03 full traversal).

  A. `Binson::deserialize` (Model/Cpp.lean: `cppDesItem` / `cppDesItems` / `cppDesElems`, `cppDeserializeP`,
     `cppDeserialize`):
       1. `cppDes_valid`          - on the encoding of a well-formed object document (<= 10 levels) the result is
                                     EXACTLY the tree the bytes encode                           (WalkDesTop)
       2. `cppDesP_history_free`  - the same from ANY shaped parser object over those bytes (overload 3 on a used
                                     parser); `cppDesP_frame_eq`, `cppDesP_reset_only`: history freedom on arbitrary
                                     bytes; `cppDesP_iff`: normal return iff the buffer is a valid document (WalkDesTop, WalkIff)
       3. `cppDes_iff`            - returns normally exactly when verify accepts (arbitrary bytes)  (WalkIff; the
                                     (=>) direction is the depth-balance argument of WalkRaw / WalkMode* / WalkBal)
       4. `cppDes_cppSer`, `cppDes_cppSer_putAll`, `cppDes_of_verify`, `cppDes_ok_canonical` - round trips
  B. `transcribe` (Model/Transcribe.lean):
       5. `transcribe_id`         - decode then encode reproduces every valid document byte for byte, object- and
                                     array-rooted; `transcribe_ops` (the writer calls are `opsOf v`, from any shaped
                                     parser), `transcribe_counter` (any capacity: the counter is exact)   (WalkTrTop)

  Per-call facts on ARBITRARY bytes (any shaped object-rooted parser), used for 3 and of independent interest:
  `walk_next_post`, `walk_goIntoObject_true`, `walk_goIntoArray_true`, `walk_leaveObject_true`, `walk_leaveArray_true`.
-/
import Binson.Lemmas.WalkDesTop
import Binson.Lemmas.WalkTrTop
import Binson.Lemmas.WalkIff
namespace Binson

/-! ### not vacuous -/

/-- `{"a":[1,-300,{},[]],"b":{"\x01":"\x01\x02","\x02":true}}` is a depth-10 document ... -/
def walkDoc : Fields :=
  .cons [0x61] (.arr (.cons (.int 1) (.cons (.int (-300)) (.cons (.obj .nil) (.cons (.arr .nil) .nil)))))
    (.cons [0x62] (.obj (.cons [1] (.str [1, 2]) (.cons [2] (.bool true) .nil))) .nil)

example : wfDoc .object 10 (.obj walkDoc) = true := by decide

/-- ... and an array-rooted one for `transcribe_id` -/
example : wfDoc .array 10 (.arr (.cons (.int 1) (.cons (.obj walkDoc) .nil))) = true := by decide

/-- `cppDes_valid` on the smallest and on the sample document -/
example : cppDeserialize (encode (.obj .nil)).toArray = .ok .nil := cppDes_valid .nil (by decide) (by decide)
example : cppDeserialize (encode (.obj walkDoc)).toArray = .ok walkDoc := cppDes_valid walkDoc (by decide) (by decide)

/-- `cppDes_iff` has both outcomes: `{}` is accepted (above), `{[}]}` is refused by both sides -/
example : ¬ ∃ fs, cppDeserialize #[0x40, 0x42, 0x41, 0x43, 0x41] = .ok fs := by
  rw [cppDes_iff _ (by decide)]
  intro h
  have : (verify (init (garbageParser 10) #[0x40, 0x42, 0x41, 0x43, 0x41] 1).1).2.1 = false := by decide
  rw [this] at h
  exact absurd h.2 (by decide)

end Binson

open Binson in
#print axioms cppDes_valid
open Binson in
#print axioms cppDesP_history_free
open Binson in
#print axioms cppDesP_frame_eq
open Binson in
#print axioms cppDesP_iff
open Binson in
#print axioms cppDes_iff
open Binson in
#print axioms cppDes_cppSer
open Binson in
#print axioms cppDes_cppSer_putAll
open Binson in
#print axioms cppDes_of_verify
open Binson in
#print axioms cppDes_ok_canonical
open Binson in
#print axioms transcribe_ops
open Binson in
#print axioms transcribe_id
open Binson in
#print axioms transcribe_counter
open Binson in
#print axioms walk_next_post
open Binson in
#print axioms walk_goIntoObject_true
open Binson in
#print axioms walk_goIntoArray_true
open Binson in
#print axioms walk_leaveObject_true
open Binson in
#print axioms walk_leaveArray_true
