/-
  C16, tight form, part 2: one call of `_advance_parsing`.
  Tokens processed (= callbacks = loop iterations that log an event) are bounded by the bytes the
  call ADVANCES OVER plus one, and the cursor never ends before where it started.
-/
import Binson.Lemmas.CostIter
namespace Binson

/-- the loop from `st`: the cursor does not go back, and
    `events logged ≤ bytes advanced over + 1` (written without subtraction) -/
structure CostLoop (st : LoopSt) (r : LoopSt × LoopRes) : Prop where
  shape : Shape r.1.p
  mono : st.p.used ≤ r.1.p.used
  ev : r.1.ev.length + st.p.used ≤ st.ev.length + r.1.p.used + 1

theorem cost_advLoop (f : Nat) (st : LoopSt) (sn : Option (List UInt8)) (oa od : Nat)
    (h : Shape st.p) (he : st.p.err = .none) : CostLoop st (advLoop f st sn oa od) := by
  induction f generalizing st with
  | zero =>
    unfold advLoop
    exact ⟨h, Nat.le_refl _, by simp only; omega⟩
  | succ f ih =>
    have is := iter_spec st sn oa od h he
    have im := iter_used_mono st sn oa od h he
    unfold advLoop
    generalize iter st sn oa od = r at is im
    obtain ⟨st', out⟩ := r
    obtain ⟨ish, ifr, iev, icont⟩ := is
    simp only at ish ifr iev icont im
    cases out with
    | ret b =>
      show CostLoop st (st', .done b)
      exact ⟨ish, im, by simp only; omega⟩
    | stop =>
      show CostLoop st (st', .done _)
      exact ⟨ish, im, by simp only; omega⟩
    | cont =>
      obtain ⟨e', hu'⟩ := icont rfl
      obtain ⟨a, b, c⟩ := ih st' ish e'
      show CostLoop st (advLoop f st' sn oa od)
      exact ⟨a, by omega, by omega⟩

/-- **`advance_used_mono`**: a call of `_advance_parsing` never leaves the cursor before where it
    found it (with a latched error the call does nothing). -/
theorem advance_used_mono (p : Parser) (scan : Scan) (sn : Option (List UInt8)) (h : Shape p) :
    p.used ≤ (advance p scan sn).p.used := by
  unfold advance
  by_cases he : p.err = .none
  · rw [if_neg (by simp [he])]
    simp only [touchLvl_of_lt h.cur_lt]
    have ls := cost_advLoop (p.size - p.used + 2) ⟨p, some scan, 0, []⟩ sn (p.getLvl p.cur).ad p.depth h he
    generalize advLoop (p.size - p.used + 2) ⟨p, some scan, 0, []⟩ sn (p.getLvl p.cur).ad p.depth = r at ls
    obtain ⟨_, b, _⟩ := ls
    cases hr : r.2 with
    | done b' => exact b
    | outOfFuel => exact b
  · rw [if_pos (by simpa using he)]
    exact Nat.le_refl _

/-- **`advance_cost_tight`**: tokens processed (callbacks made) by one call of `_advance_parsing`
    ≤ bytes the call advanced over + 1. -/
theorem advance_cost_tight (p : Parser) (scan : Scan) (sn : Option (List UInt8)) (h : Shape p) :
    (advance p scan sn).ev.length + p.used ≤ (advance p scan sn).p.used + 1 := by
  unfold advance
  by_cases he : p.err = .none
  · rw [if_neg (by simp [he])]
    simp only [touchLvl_of_lt h.cur_lt]
    have ls := cost_advLoop (p.size - p.used + 2) ⟨p, some scan, 0, []⟩ sn (p.getLvl p.cur).ad p.depth h he
    generalize advLoop (p.size - p.used + 2) ⟨p, some scan, 0, []⟩ sn (p.getLvl p.cur).ad p.depth = r at ls
    obtain ⟨_, _, c⟩ := ls
    simp only [List.length_nil, Nat.zero_add] at c
    cases hr : r.2 with
    | done b' => simpa using c
    | outOfFuel => simpa using c
  · rw [if_pos (by simpa using he)]
    simp

/-- the same with the subtraction the property sentence uses -/
theorem advance_cost_tight' (p : Parser) (scan : Scan) (sn : Option (List UInt8)) (h : Shape p) :
    (advance p scan sn).ev.length ≤ ((advance p scan sn).p.used - p.used) + 1 := by
  have := advance_cost_tight p scan sn h
  have := advance_used_mono p scan sn h
  omega

end Binson
