/-
  Soundness of verify, part 2: the rejecting branches of one loop iteration. Each lemma says
  that `iter` leaves an error set in the parser (so the iteration cannot have continued, and
  verify cannot report success).
-/
import Binson.Lemmas.PassRoot
namespace Binson

/-- `_cmp_name` orders like `bytesLt` (converse of `cmpBytes_neg_of_lt`) -/
theorem bytesLt_of_cmpBytes_neg : ∀ (a b : Bytes), cmpBytes a b < 0 → bytesLt a b = true := by
  intro a b
  induction a generalizing b with
  | nil =>
    cases b with
    | nil => intro h; simp [cmpBytes] at h
    | cons y ys => intro _; simp [bytesLt]
  | cons x xs ih =>
    cases b with
    | nil => intro h; simp [cmpBytes] at h
    | cons y ys =>
      intro h
      unfold cmpBytes at h
      unfold bytesLt
      by_cases h1 : x < y
      · simp [h1]
      · simp only [h1, if_false] at h ⊢
        by_cases h2 : y < x
        · have : x > y := h2
          simp [this] at h
        · have : ¬ x > y := h2
          simp only [this, if_false] at h
          simp only [h2, if_false]
          exact ih ys h

theorem setLvl_err (p : Parser) (i : Nat) (l : Level) : (p.setLvl i l).err = p.err := by
  unfold Parser.setLvl
  split <;> rfl

theorem finish_err (st : LoopSt) (tok : Tok) (p : Parser) (lv : Level) (li : Nat) (scan : Option Scan) (force : Bool)
    (he : p.err ≠ .none) : (finish st tok p lv li scan force).1.p.err ≠ .none := by
  unfold finish
  have e : (p.setLvl li lv).err ≠ .none := by rw [setLvl_err]; exact he
  simp only [e, ne_eq, not_false_eq_true, if_true]

/-- the classification stage failed -/
theorem iter_err_classify {st : LoopSt} {sn : Option (List UInt8)} {oa od : Nat}
    (hs : Shape st.p) (he : st.p.err = .none) (h : (classify st.p st.bc).tok = .error) :
    (iter st sn oa od).1.p.err ≠ .none := by
  unfold iter
  simp only [h, if_true]
  rcases classify_spec hs he st.bc with ⟨_, c⟩ | ⟨c, _⟩
  · exact c.err
  · exact absurd h c

/-- a value token other than a string where a field name is expected -/
theorem iter_err_objBlock {st : LoopSt} {sn : Option (List UInt8)} {oa od : Nat}
    (hne : (classify st.p st.bc).tok ≠ .error)
    (hf : ((classify st.p st.bc).p.getLvl (classify st.p st.bc).p.lvlIdx).flags = .expField)
    (hv : (classify st.p st.bc).tok.isValue = true) (hns : (classify st.p st.bc).tok ≠ .string) :
    (iter st sn oa od).1.p.err ≠ .none := by
  unfold iter
  generalize classify st.p st.bc = c at hne hf hv hns ⊢
  simp only [hne, if_false]
  have hob : objBlock (c.p.getLvl c.p.lvlIdx) c.tok = none := by
    unfold objBlock
    simp [hf, Flags.inObject, hns, hv]
  rw [hob]
  simp

/-- a field name that is not strictly greater than the previous name of the object -/
theorem iter_err_nameOrder {st : LoopSt} {sn : Option (List UInt8)} {oa od : Nat} (hD : Deep st oa od)
    (span : Span) (bc : Nat) (q : Parser) (hq : q = { st.p with used := st.p.used + bc })
    (hcl : classify st.p st.bc = ⟨.string, span, bc, q⟩)
    (hfit : st.p.used + bc ≤ st.p.size) (hsp : span.off + span.len ≤ st.p.size)
    (hf : (st.p.getLvl st.p.lvlIdx).flags = .expField)
    (pn : Span) (hpn : (st.p.getLvl st.p.lvlIdx).name = some pn)
    (hord : ¬ cmpBytes (st.p.slice pn) (st.p.slice span) < 0) :
    (iter st sn oa od).1.p.err ≠ .none := by
  have hsh := hD.shape
  have hqs : Shape q := by rw [hq]; exact hsh.withUsed _ hfit
  have hqd : q.depth = st.p.depth := by rw [hq]
  have hqi : q.lvlIdx = st.p.lvlIdx := by rw [hq]; rfl
  have hqg : q.getLvl q.lvlIdx = st.p.getLvl st.p.lvlIdx := by rw [hq]; rfl
  have hqb : q.buf = st.p.buf := by rw [hq]
  have hsl : ∀ s, q.slice s = st.p.slice s := by intro s; unfold Parser.slice; rw [hqb]
  unfold iter
  simp only [hcl, show Tok.string ≠ Tok.error by decide, if_false]
  rw [hqg, objBlock_fieldName hf]
  have hno := deep_notOrig hD (st.p.getLvl st.p.lvlIdx).ad rfl
  simp only [hqd, hno, arrBlock_notOrig, hqi]
  show (caseFieldName _ _ _ _ _ _ _ _ _ _).1.p.err ≠ .none
  unfold caseFieldName
  have hbuf : span.off + span.len ≤ q.buf.size := by rw [hqs.hbs, hq]; exact hsp
  have hspl := hsh.hsp hD.err st.p.lvlIdx
  have htn : touchName (q.touchBuf span.off span.len) (st.p.getLvl st.p.lvlIdx).name = q := by
    rw [touchBuf_of_le hbuf]
    unfold touchName
    rw [hpn]
    exact touchBuf_of_le (by rw [hqs.hbs, hq]; exact hspl.1 pn hpn)
  simp only [htn]
  have hoe : nameOrdErr q (st.p.getLvl st.p.lvlIdx) span = true := by
    unfold nameOrdErr
    rw [hpn]
    simp only [hsl]
    simp; omega
  simp only [hoe, if_true]
  exact finish_err _ _ _ _ _ _ _ (by simp)

/-- an integer value that is not in shortest form -/
theorem iter_err_badInt {st : LoopSt} {sn : Option (List UInt8)} {oa od : Nat} (hD : Deep st oa od)
    (w : Nat) (hfit : st.p.used + 1 + w ≤ st.p.size)
    (hcl : classify st.p st.bc = ⟨.integer, ⟨st.p.used + 1, w⟩, 1 + w, { st.p with used := st.p.used + 1 + w }⟩)
    (hbad : intBoundsOk (parseIntVal st.p ⟨st.p.used + 1, w⟩) w = false)
    (hctx : ValCtx (st.p.getLvl st.p.lvlIdx)) :
    (iter st sn oa od).1.p.err ≠ .none := by
  have hsh := hD.shape
  generalize hq : ({ st.p with used := st.p.used + 1 + w } : Parser) = q at hcl
  have hqs : Shape q := by rw [← hq]; exact hsh.withUsed _ hfit
  have hqd : q.depth = st.p.depth := by rw [← hq]
  have hqi : q.lvlIdx = st.p.lvlIdx := by rw [← hq]; rfl
  have hqg : q.getLvl q.lvlIdx = st.p.getLvl st.p.lvlIdx := by rw [← hq]; rfl
  have hqb : q.buf = st.p.buf := by rw [← hq]
  have hqz : q.size = st.p.size := by rw [← hq]
  have hpi : parseIntVal q ⟨st.p.used + 1, w⟩ = parseIntVal st.p ⟨st.p.used + 1, w⟩ := parseIntVal_buf hqb _
  obtain ⟨lv', hob, hab, _⟩ :=
    blocks_value hD (lv := st.p.getLvl st.p.lvlIdx) (tok := .integer) q hqd ⟨rfl, rfl⟩ hctx rfl false
  unfold iter
  simp only [hcl, show Tok.integer ≠ Tok.error by decide, if_false]
  rw [hqg, hob]
  simp only [hab, hqi]
  show (caseScalar _ _ _ _ _ _ _).1.p.err ≠ .none
  unfold caseScalar
  have hbuf : (st.p.used + 1) + w ≤ q.buf.size := by rw [hqs.hbs, hqz]; exact hfit
  simp only [touchBuf_of_le hbuf, hpi, hbad, Bool.not_false, if_true]
  exact finish_err _ _ _ _ _ _ _ (by simp)

/-- `{` in value position with no state entry left -/
theorem iter_err_objBegin_depth {st : LoopSt} {sn : Option (List UInt8)} {oa od : Nat} (hD : Deep st oa od)
    (hcl : classify st.p st.bc = ⟨.objBegin, ⟨st.p.used, 1⟩, st.bc,
      st.p.setLvl st.p.lvlIdx { st.p.getLvl st.p.lvlIdx with ctype := .object }⟩)
    (hlt : st.p.used < st.p.size) (hctx : ValCtx (st.p.getLvl st.p.lvlIdx)) (hdm : ¬ st.p.depth < st.p.maxDepth) :
    (iter st sn oa od).1.p.err ≠ .none := by
  have hsh := hD.shape
  have hli := hsh.lvlIdx_lt
  have hspl := hsh.hsp hD.err st.p.lvlIdx
  obtain ⟨s1, s2, _, s4, s5, s6, s7, s8, s9, s10, s11⟩ :=
    setLvl_ok (p0 := st.p) hsh (Parser.Frame.refl _) { st.p.getLvl st.p.lvlIdx with ctype := .object } hli (SpansOk_of_fields rfl rfl hspl)
  have hgq : ∀ i, (st.p.setLvl st.p.lvlIdx { st.p.getLvl st.p.lvlIdx with ctype := .object }).getLvl i =
      if i = st.p.lvlIdx then { st.p.getLvl st.p.lvlIdx with ctype := .object } else st.p.getLvl i :=
    fun i => getLvl_setLvl _ hli i
  generalize hqdef : st.p.setLvl st.p.lvlIdx { st.p.getLvl st.p.lvlIdx with ctype := .object } = q at hcl s1 s2 s4 s5 s6 s7 s8 s9 s10 s11 hgq
  have hqi : q.lvlIdx = st.p.lvlIdx := by unfold Parser.lvlIdx; rw [s5]
  have hqg : q.getLvl q.lvlIdx = { st.p.getLvl st.p.lvlIdx with ctype := .object } := by rw [hqi, hgq]; simp
  have hli' : st.p.lvlIdx < q.levels.size := by rw [s9]; exact hli
  obtain ⟨lv', hob, hab, _⟩ :=
    blocks_value hD (lv := { st.p.getLvl st.p.lvlIdx with ctype := .object }) (tok := .objBegin) q s5 ⟨rfl, rfl⟩ hctx rfl true
  unfold iter
  simp only [hcl, show Tok.objBegin ≠ Tok.error by decide, if_false]
  rw [hqg, hob]
  simp only [hab, hqi]
  show (caseObjBegin _ _ _ _ _).1.p.err ≠ .none
  unfold caseObjBegin
  rw [if_pos hD.cont.has_objBegin]
  have f := setLvl_fields (p := q) lv' hli'
  simp only at f
  have hcond : ¬ ((q.setLvl st.p.lvlIdx lv').depth < 255 ∧ (q.setLvl st.p.lvlIdx lv').depth < (q.setLvl st.p.lvlIdx lv').maxDepth) := by
    rw [f.2.1, f.2.2.1, s5, s11]
    intro h; exact hdm h.2
  dsimp only
  rw [if_neg hcond]
  exact finish_err _ _ _ _ _ _ _ (by simp)

/-- `[` in value position with the array nesting budget of the level used up -/
theorem iter_err_arrBegin_depth {st : LoopSt} {sn : Option (List UInt8)} {oa od : Nat} (hD : Deep st oa od)
    (hcl : classify st.p st.bc = ⟨.arrBegin, ⟨st.p.used, 1⟩, st.bc,
      st.p.setLvl st.p.lvlIdx { st.p.getLvl st.p.lvlIdx with ctype := .array }⟩)
    (hlt : st.p.used < st.p.size) (hctx : ValCtx (st.p.getLvl st.p.lvlIdx)) (had : ¬ (st.p.getLvl st.p.lvlIdx).ad < 255) :
    (iter st sn oa od).1.p.err ≠ .none := by
  have hsh := hD.shape
  have hli := hsh.lvlIdx_lt
  have hspl := hsh.hsp hD.err st.p.lvlIdx
  obtain ⟨s1, s2, _, s4, s5, s6, s7, s8, s9, s10, s11⟩ :=
    setLvl_ok (p0 := st.p) hsh (Parser.Frame.refl _) { st.p.getLvl st.p.lvlIdx with ctype := .array } hli (SpansOk_of_fields rfl rfl hspl)
  have hgq : ∀ i, (st.p.setLvl st.p.lvlIdx { st.p.getLvl st.p.lvlIdx with ctype := .array }).getLvl i =
      if i = st.p.lvlIdx then { st.p.getLvl st.p.lvlIdx with ctype := .array } else st.p.getLvl i :=
    fun i => getLvl_setLvl _ hli i
  generalize hqdef : st.p.setLvl st.p.lvlIdx { st.p.getLvl st.p.lvlIdx with ctype := .array } = q at hcl s1 s2 s4 s5 s6 s7 s8 s9 s10 s11 hgq
  have hqi : q.lvlIdx = st.p.lvlIdx := by unfold Parser.lvlIdx; rw [s5]
  have hqg : q.getLvl q.lvlIdx = { st.p.getLvl st.p.lvlIdx with ctype := .array } := by rw [hqi, hgq]; simp
  obtain ⟨lv', hob, hab, h1, _⟩ :=
    blocks_value hD (lv := { st.p.getLvl st.p.lvlIdx with ctype := .array }) (tok := .arrBegin) q s5 ⟨rfl, rfl⟩ hctx rfl true
  unfold iter
  simp only [hcl, show Tok.arrBegin ≠ Tok.error by decide, if_false]
  rw [hqg, hob]
  simp only [hab, hqi]
  show (caseArrBegin _ _ _ _ _).1.p.err ≠ .none
  unfold caseArrBegin
  have hadl : lv'.ad ≥ 255 := by rw [h1]; simp only; omega
  rw [if_pos hadl]
  exact finish_err _ _ _ _ _ _ _ (by simp)

/-- `}` where no field name is expected (a value is pending, or inside an array) -/
theorem iter_err_objEnd {st : LoopSt} {sn : Option (List UInt8)} {oa od : Nat} (hD : Deep st oa od)
    (hcl : classify st.p st.bc = ⟨.objEnd, ⟨st.p.used, 1⟩, st.bc, st.p⟩)
    (hf : (st.p.getLvl st.p.lvlIdx).flags ≠ .expField) :
    (iter st sn oa od).1.p.err ≠ .none := by
  have hno := deep_notOrig hD (st.p.getLvl st.p.lvlIdx).ad rfl
  unfold iter
  simp only [hcl, show Tok.objEnd ≠ Tok.error by decide, if_false]
  rw [objBlock_end rfl (by decide)]
  simp only [hno, arrBlock_notOrig]
  show (caseObjEnd _ _ _ _ _ _).1.p.err ≠ .none
  unfold caseObjEnd
  rw [if_pos hf]
  exact finish_err _ _ _ _ _ _ _ (by simp)

/-- `]` outside an array -/
theorem iter_err_arrEnd {st : LoopSt} {sn : Option (List UInt8)} {oa od : Nat} (hD : Deep st oa od)
    (hcl : classify st.p st.bc = ⟨.arrEnd, ⟨st.p.used, 1⟩, st.bc, st.p⟩)
    (hf : (st.p.getLvl st.p.lvlIdx).flags.inArray = false) :
    (iter st sn oa od).1.p.err ≠ .none := by
  unfold iter
  simp only [hcl, show Tok.arrEnd ≠ Tok.error by decide, if_false]
  rw [objBlock_end rfl (by decide)]
  simp only [arrBlock_notArr _ _ _ hf]
  show (caseArrEnd _ _ _ _ _ _ _).1.p.err ≠ .none
  unfold caseArrEnd
  rw [if_pos (by rw [hf]; rfl)]
  exact finish_err _ _ _ _ _ _ _ (by simp)

end Binson
