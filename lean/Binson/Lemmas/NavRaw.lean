/-
  Layer 4, part 20: `get_raw` (enter + leave of the pending container) and the two calls that are
  possible right after init (entering the root container).
-/
import Binson.Lemmas.NavOps
namespace Binson

theorem getRaw_scalar {p : Parser} (he : p.err = .none) (h1 : (p.getLvl p.cur).ctype ≠ .object) (h2 : (p.getLvl p.cur).ctype ≠ .array) :
    getRaw p = (p, false, ⟨p.used, 0⟩) := by
  unfold getRaw
  simp [he, h1, h2]

theorem getRaw_obj {p : Parser} (he : p.err = .none) (ht : (p.getLvl p.cur).ctype = .object)
    (h1 : (advance p .enterObj none).ret = true) (h2 : (advance (advance p .enterObj none).p .leaveObj none).ret = true) :
    getRaw p = ((advance (advance p .enterObj none).p .leaveObj none).p, true,
      ⟨p.used, (advance (advance p .enterObj none).p .leaveObj none).p.used - p.used⟩) := by
  unfold getRaw
  simp [he, ht, h1, h2]

theorem getRaw_arr {p : Parser} (he : p.err = .none) (ht : (p.getLvl p.cur).ctype = .array)
    (h1 : (advance p .enterArr none).ret = true) (h2 : (advance (advance p .enterArr none).p .leaveArr none).ret = true) :
    getRaw p = ((advance (advance p .enterArr none).p .leaveArr none).p, true,
      ⟨p.used, (advance (advance p .enterArr none).p .leaveArr none).p.used - p.used⟩) := by
  unfold getRaw
  simp [he, ht, h1, h2]

namespace Run

variable {p : Parser} {c : Cursor} {L : RLevel} {Ls : List RLevel} {pend : Option Value}

/-- `get_raw` -/
theorem step_raw (h : Run p c L Ls pend) (ha : c.allowed .raw = true) :
    Obs p c .raw ∧ Agree (machNav p .raw).1 (c.step .raw).1 := by
  have hm0 : machNav p .raw = ((getRaw p).1, (getRaw p).2.1, if (getRaw p).2.1 then some (getRaw p).2.2 else none) := rfl
  obtain ⟨f, fr, hfl⟩ := flat_ne_nil h.base
  have hce := h.c_eq
  have hcur := h.cur
  cases pend with
  | none =>
    obtain ⟨_, _, h3⟩ := h.pend
    rcases h3 with h3 | ⟨n, h3, h4, h5, h6⟩
    · rw [h3, hfl] at hce; rw [hce, allowed_raw] at ha; cases ha
    · rw [getRaw_scalar h.err (by rw [hcur, h4]; exact h5) (by rw [hcur, h4]; exact h6)] at hm0
      simp only [Bool.false_eq_true, if_false] at hm0
      rw [h3] at hce
      have hc : c.step .raw = (mkCur c.arrayRoot p.size (flat (L :: Ls)) (some n), ⟨false, none, none⟩) := by
        rw [hce]; exact step_raw_scalar _ _ _ _ h5 h6
      have hr : Run p (mkCur c.arrayRoot p.size (flat (L :: Ls)) (some n)) L Ls none := by rw [← hce]; exact h
      exact obs_agree hm0 hc rfl rfl (fun it hi => by cases hi) hr
  | some v =>
    obtain ⟨h1, h2, _, ⟨nm, h4⟩, h5, _, _⟩ := h.pend
    have hrl := rem_len h.shape h2
    rw [h4] at hce
    have hc : c.step .raw = (mkCur c.arrayRoot p.size (flat (L :: Ls)) none, ⟨true, none, some ⟨p.used, (encode v).length⟩⟩) := by
      rw [hce]; exact step_raw_container _ _ _ _ _ _ h1
    cases v with
    | obj fs =>
      obtain ⟨e1, r1⟩ := h.adv_enter_obj
      obtain ⟨e2, r2⟩ := r1.adv_leave_obj
      have hsz : (advance p .enterObj none).p.size = p.size := frame_adv p .enterObj none h.shape
      have hsz2 : (advance (advance p .enterObj none).p .leaveObj none).p.size = p.size := by
        rw [frame_adv _ .leaveObj none r1.shape, hsz]
      rw [getRaw_obj h.err (by rw [hcur, h5]; exact annotate_ty_obj _ _ _) e1 e2] at hm0
      simp only [if_true] at hm0
      have hrl2 := rem_len r2.shape r2.pend.1
      rw [hsz2] at hrl2
      simp only [List.length_append] at hrl
      have hu : (advance (advance p .enterObj none).p .leaveObj none).p.used - p.used = (encode (Value.obj fs)).length := by omega
      rw [hu] at hm0
      rw [hsz] at r2
      exact obs_agree hm0 hc rfl rfl (fun it hi => by cases hi) r2
    | arr xs =>
      obtain ⟨pv, b, arrs⟩ := L
      obtain ⟨e1, r1⟩ := h.adv_enter_arr
      have hnr : ¬ IsRootArr b arrs Ls := by
        intro ⟨a1, a2, a3⟩
        subst a1; subst a2; subst a3
        exact h.base.2 rfl rfl
      obtain ⟨e2, r2⟩ := r1.adv_leave_arr hnr
      have hsz : (advance p .enterArr none).p.size = p.size := frame_adv p .enterArr none h.shape
      have hsz2 : (advance (advance p .enterArr none).p .leaveArr none).p.size = p.size := by
        rw [frame_adv _ .leaveArr none r1.shape, hsz]
      rw [getRaw_arr h.err (by rw [hcur, h5]; exact annotate_ty_arr _ _ _) e1 e2] at hm0
      simp only [if_true] at hm0
      have hrl2 := rem_len r2.shape r2.pend.1
      rw [hsz2] at hrl2
      simp only [List.length_append] at hrl
      have hu : (advance (advance p .enterArr none).p .leaveArr none).p.used - p.used = (encode (Value.arr xs)).length := by omega
      rw [hu] at hm0
      rw [hsz] at r2
      exact obs_agree hm0 hc rfl rfl (fun it hi => by cases hi) r2
    | bool _ => cases h1
    | int _ => cases h1
    | dbl _ => cases h1
    | str _ => cases h1
    | bytes _ => cases h1

end Run

end Binson
