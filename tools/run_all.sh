#!/bin/sh
# tools/run_all.sh [tier] : run every registered check on the current tree (VERIF_SEED default 1), print one line each,
# validate every evidence file against the schema. Used before committing evidence.
cd "$(dirname "$0")/.." || exit 2
TIER=${1:-quick}
: "${VERIF_SEED:=1}"; export VERIF_SEED
rc=0
for p in C01 C02 C03 C04 C05 C06 C07 C08 C09 C10 C11 C12 C13 C14 C15 C16 C17 C18; do
  out=$(./check $p $TIER 2>&1); r=$?
  echo "$out" | grep -E "^VIOLATION|^KNOWN-FINDING" ; echo "$out" | tail -1 | sed "s/^/[rc=$r] /"
  [ $r -ne 0 ] && rc=1
done
python3-vt - <<'PY'
import json, jsonschema, glob
sch = json.load(open('/root/.vp/EVIDENCE.schema.json'))
for f in sorted(glob.glob('/verif/evidence/C*.json')):
    try: jsonschema.validate(json.load(open(f)), sch)
    except Exception as e: print('EVIDENCE INVALID', f, str(e)[:200])
print('evidence schema check done')
PY
exit $rc
