/-
  Machine model, part 4b: the writer calls with arguments that are legal for the C functions but
  outside `WOp` (which carries real payloads): a NULL name / NULL data pointer (ERROR_NULL, nothing
  counted), a raw write with the length SIZE_MAX (`used + length` wraps: RANGE, nothing read or
  stored, the counter wraps with it), and `binson_writer_reset`. `WOpX` is the full call vocabulary of
  a writer after init.
-/
import Binson.Model.Writer
namespace Binson

/-- SIZE_MAX -/
def sizeMaxW : Nat := 18446744073709551615

inductive WOpX
  | op (o : WOp)          -- a call with valid arguments
  | nullName              -- binson_write_name(w, NULL)
  | nullRaw (n : Nat)     -- binson_write_raw(w, NULL, n)
  | hugeRaw               -- binson_write_raw(w, p, SIZE_MAX)
  | reset                 -- binson_writer_reset(w)
  deriving Repr, Inhabited

/-- `_write` with bsize = SIZE_MAX: c = (used + SIZE_MAX) mod 2^64 is > capacity or < used (RANGE); then the NULL-buffer test -/
def Writer.refuseHuge (w : Writer) : Writer :=
  { cap := w.cap, used := (sizeMaxW + w.used) % two64, err := (if w.bufNull then Err.null else Err.range),
    bufNull := w.bufNull, mem := w.mem, fault := w.fault }

def Writer.setNull (w : Writer) : Writer :=
  { cap := w.cap, used := w.used, err := Err.null, bufNull := w.bufNull, mem := w.mem, fault := w.fault }

def Writer.stepX (w : Writer) : WOpX → Writer × Bool
  | .op o => w.step o
  | .nullName => (w.setNull, false)
  | .nullRaw _ => (w.setNull, false)
  | .hugeRaw => (w.refuseHuge, false)
  | .reset => w.reset

def Writer.runX (w : Writer) (ops : List WOpX) : Writer := ops.foldl (fun w op => (w.stepX op).1) w

end Binson
