/-
  Spec layer, part 2: `decodeRef`, a plain recursive-descent decoder that accepts exactly the
  canonical encodings of well-formed values (`Lemmas/DecodeRef.lean`). It is the executable
  form of the spec that the violation search evaluates against the implementation.
-/
import Binson.Spec.Value
namespace Binson

/-- two's-complement reading of an unsigned `w`-byte number -/
def sext (w : Nat) (n : Nat) : Int :=
  if n < 2 ^ (8 * w - 1) then (n : Int) else (n : Int) - (2 ^ (8 * w) : Int)

/-- integer payload of width `2^k`, which must be the minimal width -/
def decIntBody (k : Nat) (b : Bytes) : Option (Int × Bytes) :=
  let w := 2 ^ k
  if b.length < w then none else
  let i := sext w (leNatL (b.take w))
  if intWidthExp i = k then some (i, b.drop w) else none

/-- length prefix (tag already stripped, width exponent `k ≤ 2`) then the payload -/
def decBlob (k : Nat) (b : Bytes) : Option (Bytes × Bytes) :=
  match decIntBody k b with
  | none => none
  | some (i, r) =>
    if i < 0 then none else
    if r.length < i.toNat then none else some (r.take i.toNat, r.drop i.toNat)

mutual
def decValue : Nat → Bytes → Option (Value × Bytes)
  | 0, _ => none
  | _, [] => none
  | f+1, t :: r =>
    if t = 0x44 then some (.bool true, r)
    else if t = 0x45 then some (.bool false, r)
    else if t = 0x46 then
      (if r.length < 8 then none else some (.dbl (UInt64.ofNat (leNatL (r.take 8))), r.drop 8))
    else if 0x10 ≤ t ∧ t ≤ 0x13 then
      (match decIntBody (t.toNat - 0x10) r with
       | some (i, r') => some (.int i, r')
       | none => none)
    else if 0x14 ≤ t ∧ t ≤ 0x16 then
      (match decBlob (t.toNat - 0x14) r with
       | some (s, r') => some (.str s, r')
       | none => none)
    else if 0x18 ≤ t ∧ t ≤ 0x1a then
      (match decBlob (t.toNat - 0x18) r with
       | some (s, r') => some (.bytes s, r')
       | none => none)
    else if t = 0x42 then
      (match decElems f r with
       | some (xs, r') => some (.arr xs, r')
       | none => none)
    else if t = 0x40 then
      (match decFields f none r with
       | some (fs, r') => some (.obj fs, r')
       | none => none)
    else none
def decElems : Nat → Bytes → Option (Elems × Bytes)
  | 0, _ => none
  | _, [] => none
  | f+1, t :: r =>
    if t = 0x43 then some (.nil, r) else
    match decValue f (t :: r) with
    | none => none
    | some (v, r') =>
      match decElems f r' with
      | none => none
      | some (xs, r'') => some (.cons v xs, r'')
def decFields : Nat → Option Bytes → Bytes → Option (Fields × Bytes)
  | 0, _, _ => none
  | _, _, [] => none
  | f+1, prev, t :: r =>
    if t = 0x41 then some (.nil, r) else
    if 0x14 ≤ t ∧ t ≤ 0x16 then
      match decBlob (t.toNat - 0x14) r with
      | none => none
      | some (n, r') =>
        if !nameAfter prev n then none else
        match decValue f r' with
        | none => none
        | some (v, r'') =>
          match decFields f (some n) r'' with
          | none => none
          | some (fs, r''') => some (.cons n v fs, r''')
    else none
end

/-- the whole byte string is exactly one canonical value -/
def decodeRef (b : Bytes) : Option Value :=
  match decValue (b.length + 1) b with
  | some (v, []) => some v
  | _ => none

/-- the document `init`+`verify` must accept, with its depth requirement -/
def decodeDoc (root : Root) (maxDepth : Nat) (b : Bytes) : Option Value :=
  match decodeRef b with
  | some v => if wfDoc root maxDepth v then some v else none
  | none => none

mutual
/-- the first nesting obstacle met in byte order: `some true` = object depth, `some false` = array depth -/
def firstObstacle : Nat → Nat → Value → Option Bool
  | d, _, .obj fs => if d = 0 then some true else firstObstacleF (d - 1) fs
  | d, a, .arr xs => if a = 0 then some false else firstObstacleE d (a - 1) xs
  | _, _, _ => none
def firstObstacleE : Nat → Nat → Elems → Option Bool
  | _, _, .nil => none
  | d, a, .cons v r => match firstObstacle d a v with | some o => some o | none => firstObstacleE d a r
def firstObstacleF : Nat → Fields → Option Bool
  | _, .nil => none
  | d, .cons _ v r => match firstObstacle d 255 v with | some o => some o | none => firstObstacleF d r
end

end Binson
