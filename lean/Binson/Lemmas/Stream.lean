/-
  C08: streaming traversal is exactly as strict as verify ("traversal ok ⇒ verify accepts").
  For ARBITRARY bytes accepted by init and ANY sequence of navigation calls (protocol-following
  or not), if the error flag is still NONE at the end and the root container has been closed
  with the cursor at the end of the buffer, then verify accepts the same bytes.
-/
import Binson.Lemmas.StreamLoop
namespace Binson

section
variable {buf : Array UInt8} {md t : Nat}

theorem Inv.withErr {p : Parser} (hI : Inv buf md t p) (e : Err) (he : e ≠ .none) : Inv buf md t { p with err := e } :=
  Inv.ofErr (hI.shape.withErr e he) hI.hbuf hI.hmd hI.hpt he

theorem next_inv (p : Parser) (hI : Inv buf md t p) : Inv buf md t (next p).1 := advance_inv p .value none hI

theorem nextEnsure_inv (p : Parser) (ty : Ty) (hI : Inv buf md t p) : Inv buf md t (nextEnsure p ty).1 := by
  have h1 := next_inv p hI
  unfold nextEnsure
  generalize next p = r at h1
  obtain ⟨q, b⟩ := r
  simp only at h1 ⊢
  cases b with
  | false => exact h1
  | true =>
    simp only [Bool.not_true, Bool.false_eq_true, if_false]
    split
    · exact h1.withErr _ (fun h => nomatch h)
    · exact h1

theorem fieldLoop_inv (f : Nat) (p : Parser) (nm : List UInt8) (hI : Inv buf md t p) : Inv buf md t (fieldLoop f p nm).1 := by
  induction f generalizing p with
  | zero => exact hI
  | succ f ih =>
    have h1 := advance_inv p .value (some nm) hI
    unfold fieldLoop
    generalize advance p .value (some nm) = r at h1
    simp only
    cases r.ret with
    | false => exact h1
    | true =>
      simp only [Bool.not_true, Bool.false_eq_true, if_false]
      split
      · exact h1
      · split
        · exact h1
        · exact ih r.p h1

theorem field_inv (p : Parser) (nm : List UInt8) (hI : Inv buf md t p) : Inv buf md t (field p nm).1 :=
  fieldLoop_inv _ p nm hI

theorem fieldEnsure_inv (p : Parser) (nm : List UInt8) (ty : Ty) (hI : Inv buf md t p) : Inv buf md t (fieldEnsure p nm ty).1 := by
  have h1 := field_inv p nm hI
  unfold fieldEnsure
  generalize field p nm = r at h1
  obtain ⟨q, b⟩ := r
  simp only at h1 ⊢
  cases b with
  | false => exact h1
  | true =>
    simp only [Bool.not_true, Bool.false_eq_true, if_false]
    split
    · exact h1
    · exact h1.withErr _ (fun h => nomatch h)

theorem leaveObject_inv (p : Parser) (hI : Inv buf md t p) : Inv buf md t (leaveObject p).1 := by
  unfold leaveObject
  simp only [touchLvl_of_lt hI.shape.lvlIdx_lt]
  split
  · exact hI
  · have h1 := advance_inv p .leaveObj none hI
    split <;> exact h1

theorem leaveArray_inv (p : Parser) (hI : Inv buf md t p) : Inv buf md t (leaveArray p).1 := by
  unfold leaveArray
  simp only [touchLvl_of_lt hI.shape.lvlIdx_lt]
  split
  · exact hI
  · have h1 := advance_inv p .leaveArr none hI
    split <;> exact h1

theorem getName_inv (p : Parser) (hI : Inv buf md t p) : Inv buf md t (getName p).1 := by
  unfold getName
  split
  · exact hI
  · split
    · exact hI
    · exact hI.withErr _ (fun h => nomatch h)

theorem getRaw_inv (p : Parser) (hI : Inv buf md t p) : Inv buf md t (getRaw p).1 := by
  unfold getRaw
  split
  · exact hI
  · simp only
    split
    · have h1 := advance_inv p .enterObj none hI
      split
      · exact h1
      · have h2 := advance_inv (advance p .enterObj none).p .leaveObj none h1
        split <;> exact h2
    · split
      · have h1 := advance_inv p .enterArr none hI
        split
        · exact h1
        · have h2 := advance_inv (advance p .enterArr none).p .leaveArr none h1
          split <;> exact h2
      · exact hI

/-- every navigation call preserves the invariant -/
theorem step_inv (p : Parser) (op : Op) (hn : op.IsNav) (hI : Inv buf md t p) : Inv buf md t (step p op).1 := by
  cases op with
  | init b ty => exact absurd hn (fun h => h)
  | reset => exact absurd hn (fun h => h)
  | verify => exact absurd hn (fun h => h)
  | next => exact next_inv p hI
  | nextEnsure ty => exact nextEnsure_inv p ty hI
  | field nm => exact field_inv p nm hI
  | fieldEnsure nm ty => exact fieldEnsure_inv p nm ty hI
  | goIntoObject => exact advance_inv p .enterObj none hI
  | goIntoArray => exact advance_inv p .enterArr none hI
  | leaveObject => exact leaveObject_inv p hI
  | leaveArray => exact leaveArray_inv p hI
  | getDepth => exact hI
  | getType => exact hI
  | getName => exact getName_inv p hI
  | getStringBbuf => exact hI
  | getBytesBbuf => exact hI
  | getInteger => exact hI
  | getBoolean => exact hI
  | getDouble => exact hI
  | stringEquals s => exact hI
  | getRaw => exact getRaw_inv p hI

theorem run_inv (ops : List Op) (p : Parser) (hn : ∀ op ∈ ops, op.IsNav) (hI : Inv buf md t p) : Inv buf md t (run p ops) := by
  induction ops generalizing p with
  | nil => exact hI
  | cons op r ih =>
    unfold run
    simp only [List.foldl_cons]
    exact ih (step p op).1 (fun o ho => hn o (List.mem_cons_of_mem _ ho)) (step_inv p op (hn op List.mem_cons_self) hI)

/-- a freshly initialised parser satisfies the invariant -/
theorem Fresh.inv {W : Parser} (hF : Fresh W buf t md) (hmd : md ≤ 255) (h2 : 2 ≤ buf.size)
    (ht : (t = 1 ∧ buf.getD 0 0 = 0x40) ∨ (t = 2 ∧ buf.getD 0 0 = 0x42)) : Inv buf md t W := by
  have hrem := fresh_rem hF h2
  refine ⟨hF.shape, hF.buf, hF.maxDepth, hF.ptype, Or.inr (Or.inl ⟨hF.shape, hF.err, hF.buf, hF.maxDepth, hmd, hF.ptype, ?_, hF.depth, hF.used,
    by rw [hF.zeros]; rfl, by rw [hF.zeros]; rfl, by rw [hF.zeros]; rfl, fun i _ => hF.zeros i⟩)⟩
  rcases ht with ⟨h, hb⟩ | ⟨h, hb⟩
  · exact Or.inl ⟨h, _, by rw [hrem, hb]⟩
  · exact Or.inr ⟨h, _, by rw [hrem, hb]⟩

end

/-- what the closed root says about an invariant state: only the "document accepted" case is left -/
theorem closed_accept {buf : Array UInt8} {md t : Nat} {p : Parser} (hI : Inv buf md t p) (h2 : 2 ≤ buf.size)
    (he : p.err = .none) (hc : RootClosed p) : Accept buf md t := by
  rcases hI.res with h | hF | ⟨gs, hZ⟩ | ⟨_, hacc⟩
  · exact absurd he h
  · exfalso
    have h1 := hc.1
    have h3 := hI.shape.hbs
    rw [hF.used] at h1
    rw [hI.hbuf] at h3
    omega
  · exfalso
    obtain ⟨g, rest, rfl⟩ : ∃ g rest, gs = g :: rest := by
      cases gs with
      | nil => exact absurd rfl hZ.ne
      | cons g rest => exact ⟨g, rest, rfl⟩
    have hT := hZ.top
    rcases hc.2 with ⟨_, hd⟩ | ⟨hp, hd, had⟩
    · rw [hT.dep] at hd; omega
    · rw [hT.dep] at hd
      have hrest : rest = [] := List.eq_nil_of_length_eq_zero (by omega)
      subst hrest
      have hv : g.virt = true := hT.virt.mpr ⟨rfl, by rw [← hZ.hpt]; exact hp⟩
      have hne := hT.ok.virtArr hv
      have hl := hT.lv.ad
      rw [show ([] : List Grp).length = 0 from rfl, had] at hl
      exact hne (List.eq_nil_of_length_eq_zero hl.symm)
  · exact hacc

/-- C08, "traversal ok ⇒ verify accepts": any sequence of navigation calls that ends with the
    error flag clear and the root container closed at the end of the buffer has validated the
    buffer exactly like verify -/
theorem stream_sound (g : Parser) (ha : Alloc g) (hmd : g.maxDepth ≤ 255) (buf : Array UInt8) (hsz : buf.size < 2 ^ 63)
    (root : Root) (hi : (init g buf (rootNum root)).2 = true) (ops : List Op) (hnav : ∀ op ∈ ops, op.IsNav)
    (herr : (run (init g buf (rootNum root)).1 ops).err = .none)
    (hclosed : RootClosed (run (init g buf (rootNum root)).1 ops)) :
    (verify (init g buf (rootNum root)).1).2.1 = true := by
  obtain ⟨h2, ht⟩ := init_accept g buf _ hi
  have hF : Fresh (init g buf (rootNum root)).1 buf (rootNum root) g.maxDepth := by
    rcases ht with ⟨a, b, c⟩ | ⟨a, b, c⟩
    · exact (init_fresh g ha buf _ 0x40 0x41 (Or.inl ⟨a, rfl, rfl⟩) h2 hsz b c).2
    · exact (init_fresh g ha buf _ 0x42 0x43 (Or.inr ⟨a, rfl, rfl⟩) h2 hsz b c).2
  have ht' : (rootNum root = 1 ∧ buf.getD 0 0 = 0x40) ∨ (rootNum root = 2 ∧ buf.getD 0 0 = 0x42) := by
    rcases ht with ⟨a, b, _⟩ | ⟨a, b, _⟩
    · exact Or.inl ⟨a, b⟩
    · exact Or.inr ⟨a, b⟩
  have hI := run_inv ops _ hnav (hF.inv hmd h2 ht')
  obtain ⟨v, hw, henc, hk⟩ := closed_accept hI h2 herr hclosed
  refine ((verify_iff g ha hmd buf hsz root).mpr ⟨v, ?_, henc⟩).2
  unfold wfDoc
  cases root with
  | object =>
    rcases hk with ⟨_, ⟨fs, rfl⟩, hf⟩ | ⟨h, _⟩
    · simp [hw, rootKindOk, hf]
    · cases h
  | array =>
    rcases hk with ⟨h, _⟩ | ⟨_, ⟨xs, rfl⟩, hf⟩
    · cases h
    · simp [hw, rootKindOk, hf]

end Binson
