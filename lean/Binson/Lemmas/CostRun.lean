/-
  C16, tight form, parts 3 (all public calls as `step`) and 4 (whole traversals).
  `stepC` is `step` additionally returning the number of tokens the call processed
  (callbacks it made); `runC` sums them over a call sequence.
-/
import Binson.Lemmas.CostField
import Binson.Lemmas.StreamDefs
namespace Binson

/-- `step`, returning the number of tokens processed by the call instead of its result value -/
def stepC (p : Parser) : Op → Parser × Nat
  | .next => ((nextC p).1, (nextC p).2.2)
  | .nextEnsure t => ((nextEnsureC p t).1, (nextEnsureC p t).2.2)
  | .field nm => ((fieldC p nm).1, (fieldC p nm).2.2)
  | .fieldEnsure nm t => ((fieldEnsureC p nm t).1, (fieldEnsureC p nm t).2.2)
  | .goIntoObject => ((goIntoObjectC p).1, (goIntoObjectC p).2.2)
  | .goIntoArray => ((goIntoArrayC p).1, (goIntoArrayC p).2.2)
  | .leaveObject => ((leaveObjectC p).1, (leaveObjectC p).2.2)
  | .leaveArray => ((leaveArrayC p).1, (leaveArrayC p).2.2)
  | .getRaw => ((getRawC p).1, (getRawC p).2.2.2)
  | .verify => ((verify p).1, (verify p).2.2.length)
  | op => ((step p op).1, 0)

/-- the counted step moves the parser exactly like `step` -/
theorem stepC_fst (p : Parser) (op : Op) : (stepC p op).1 = (step p op).1 := by
  cases op with
  | next => exact congrArg Prod.fst (nextC_eq p)
  | nextEnsure t => exact congrArg Prod.fst (nextEnsureC_eq p t)
  | field nm => exact congrArg Prod.fst (fieldC_eq p nm)
  | fieldEnsure nm t => exact congrArg Prod.fst (fieldEnsureC_eq p nm t)
  | goIntoObject => exact congrArg Prod.fst (goIntoObjectC_eq p)
  | goIntoArray => exact congrArg Prod.fst (goIntoArrayC_eq p)
  | leaveObject => exact congrArg Prod.fst (leaveObjectC_eq p)
  | leaveArray => exact congrArg Prod.fst (leaveArrayC_eq p)
  | getRaw => exact congrArg Prod.fst (getRawC_eq p)
  | _ => rfl

/-- the two calls that are a LOOP of `_advance_parsing` calls -/
def Op.isField : Op → Bool
  | .field _ => true
  | .fieldEnsure _ _ => true
  | _ => false

/-- Per-call bound for every navigation call (everything except init / reset / verify, which
    restart the cursor), on a shaped parser:
    * the buffer is the same, the cursor does not go back;
    * `tokens + 2·cursor before ≤ 2·cursor after + 2`   (all calls);
    * `tokens + cursor before ≤ cursor after + 2`        (all calls but `field`/`field_ensure`). -/
structure StepCost (p : Parser) (op : Op) : Prop where
  shape : Shape (stepC p op).1
  size : (stepC p op).1.size = p.size
  mono : p.used ≤ (stepC p op).1.used
  cost2 : (stepC p op).2 + 2 * p.used ≤ 2 * (stepC p op).1.used + 2
  cost1 : op.isField = false → (stepC p op).2 + p.used ≤ (stepC p op).1.used + 2

theorem StepCost.ofCall {p : Parser} {op : Op} {c : Nat} (hc : c ≤ 2) (_hf : op.isField = false)
    (h : CallCost c p (stepC p op).1 (stepC p op).2) : StepCost p op :=
  ⟨h.shape, h.size, h.mono, by have := h.mono; have := h.cost; omega, fun _ => by have := h.cost; omega⟩

theorem step_cost (p : Parser) (op : Op) (h : Shape p) (hn : op.IsNav) : StepCost p op := by
  cases op with
  | init buf t => exact absurd hn (by simp [Op.IsNav])
  | reset => exact absurd hn (by simp [Op.IsNav])
  | verify => exact absurd hn (by simp [Op.IsNav])
  | next => exact StepCost.ofCall (c := 1) (by omega) rfl (next_cost p h)
  | nextEnsure t => exact StepCost.ofCall (c := 1) (by omega) rfl (nextEnsure_cost p t h)
  | goIntoObject => exact StepCost.ofCall (c := 1) (by omega) rfl (goIntoObject_cost p h)
  | goIntoArray => exact StepCost.ofCall (c := 1) (by omega) rfl (goIntoArray_cost p h)
  | leaveObject => exact StepCost.ofCall (c := 1) (by omega) rfl (leaveObject_cost p h)
  | leaveArray => exact StepCost.ofCall (c := 1) (by omega) rfl (leaveArray_cost p h)
  | getRaw => exact StepCost.ofCall (c := 2) (by omega) rfl (getRaw_cost p h)
  | getName => exact StepCost.ofCall (c := 0) (by omega) rfl (getName_cost p h)
  | field nm =>
    obtain ⟨a, z, b, c⟩ := field_cost p nm h
    exact ⟨a, z, b, c, fun hf => by cases hf⟩
  | fieldEnsure nm t =>
    obtain ⟨a, z, b, c⟩ := fieldEnsure_cost p nm t h
    exact ⟨a, z, b, c, fun hf => by cases hf⟩
  | getDepth => exact StepCost.ofCall (c := 0) (by omega) rfl (CallCost.zero h 0)
  | getType => exact StepCost.ofCall (c := 0) (by omega) rfl (CallCost.zero h 0)
  | getStringBbuf => exact StepCost.ofCall (c := 0) (by omega) rfl (CallCost.zero h 0)
  | getBytesBbuf => exact StepCost.ofCall (c := 0) (by omega) rfl (CallCost.zero h 0)
  | getInteger => exact StepCost.ofCall (c := 0) (by omega) rfl (CallCost.zero h 0)
  | getBoolean => exact StepCost.ofCall (c := 0) (by omega) rfl (CallCost.zero h 0)
  | getDouble => exact StepCost.ofCall (c := 0) (by omega) rfl (CallCost.zero h 0)
  | stringEquals s => exact StepCost.ofCall (c := 0) (by omega) rfl (CallCost.zero h 0)

/-- **`step_used_mono`**: no navigation call moves the cursor backwards. -/
theorem step_used_mono (p : Parser) (op : Op) (h : Shape p) (hn : op.IsNav) : p.used ≤ (step p op).1.used := by
  rw [← stepC_fst]; exact (step_cost p op h hn).mono

/-- the counted run: the parser of `run`, and the total number of tokens processed -/
def runC (p : Parser) : List Op → Parser × Nat
  | [] => (p, 0)
  | op :: ops => ((runC (stepC p op).1 ops).1, (stepC p op).2 + (runC (stepC p op).1 ops).2)

theorem runC_fst (p : Parser) (ops : List Op) : (runC p ops).1 = run p ops := by
  induction ops generalizing p with
  | nil => rfl
  | cons op r ih =>
    show (runC (stepC p op).1 r).1 = run (step p op).1 r
    rw [ih, stepC_fst]

/-- **`traversal_linear`**, general form (any mix of navigation calls, from any shaped parser):
    the cursor only moves forward, and
    `total tokens + 2·cursor before ≤ 2·cursor after + 2·(number of calls)`. -/
theorem traversal_cost (ops : List Op) (p : Parser) (h : Shape p) (hn : ∀ op ∈ ops, op.IsNav) :
    Shape (run p ops) ∧ (run p ops).size = p.size ∧ p.used ≤ (run p ops).used ∧
    (runC p ops).2 + 2 * p.used ≤ 2 * (run p ops).used + 2 * ops.length := by
  induction ops generalizing p with
  | nil => exact ⟨h, rfl, Nat.le_refl _, by simp [runC, run]⟩
  | cons op r ih =>
    have sc := step_cost p op h (hn op List.mem_cons_self)
    obtain ⟨a, z, b, c⟩ := ih (stepC p op).1 sc.shape (fun o ho => hn o (List.mem_cons_of_mem _ ho))
    have e : run p (op :: r) = run (stepC p op).1 r := by
      show run (step p op).1 r = _
      rw [stepC_fst]
    rw [e]
    refine ⟨a, z.trans sc.size, Nat.le_trans sc.mono b, ?_⟩
    show (stepC p op).2 + (runC (stepC p op).1 r).2 + 2 * p.used ≤ _
    have := sc.cost2
    simp only [List.length_cons]
    omega

/-- ... and without `field` / `field_ensure` calls:
    `total tokens + cursor before ≤ cursor after + 2·(number of calls)`. -/
theorem traversal_cost_nofield (ops : List Op) (p : Parser) (h : Shape p) (hn : ∀ op ∈ ops, op.IsNav)
    (hf : ∀ op ∈ ops, op.isField = false) :
    (runC p ops).2 + p.used ≤ (run p ops).used + 2 * ops.length := by
  induction ops generalizing p with
  | nil => simp [runC, run]
  | cons op r ih =>
    have sc := step_cost p op h (hn op List.mem_cons_self)
    have c := ih (stepC p op).1 sc.shape (fun o ho => hn o (List.mem_cons_of_mem _ ho))
      (fun o ho => hf o (List.mem_cons_of_mem _ ho))
    have e : run p (op :: r) = run (stepC p op).1 r := by
      show run (step p op).1 r = _
      rw [stepC_fst]
    rw [e]
    show (stepC p op).2 + (runC (stepC p op).1 r).2 + p.used ≤ _
    have := sc.cost1 (hf op List.mem_cons_self)
    simp only [List.length_cons]
    omega

/-- **`traversal_linear`**: a complete traversal (any list of navigation calls) from the start of
    the buffer processes at most `2·size + 2·(number of calls)` tokens;
    without `field` lookups, at most `size + 2·(number of calls)`. -/
theorem traversal_linear (ops : List Op) (p : Parser) (h : Shape p) (h0 : p.used = 0) (hn : ∀ op ∈ ops, op.IsNav) :
    (runC p ops).2 ≤ 2 * (run p ops).used + 2 * ops.length ∧
    (runC p ops).2 ≤ 2 * p.size + 2 * ops.length ∧
    ((∀ op ∈ ops, op.isField = false) →
      (runC p ops).2 ≤ (run p ops).used + 2 * ops.length ∧ (runC p ops).2 ≤ p.size + 2 * ops.length) := by
  obtain ⟨a, z, b, c⟩ := traversal_cost ops p h hn
  have hus := a.hus
  rw [z] at hus
  refine ⟨by omega, by omega, fun hf => ?_⟩
  have := traversal_cost_nofield ops p h hn hf
  exact ⟨by omega, by omega⟩

/-- **`verify_linear`**: `binson_parser_verify` processes at most `size + 1` tokens
    (it restarts the cursor at 0 and is one `_advance_parsing` call). -/
theorem verify_linear (p : Parser) (h : Shape p) : (verify p).2.2.length ≤ p.size + 1 := by
  unfold verify
  have hr := reset_shape p h
  have hsz : (reset p).1.size = p.size := by
    unfold reset
    split
    · rfl
    · simp only
      split
      · rfl
      · simp only [Parser.touchBuf]
        repeat' split
        all_goals rfl
  generalize reset p = r at hr hsz
  obtain ⟨q, ok⟩ := r
  simp only at hr hsz ⊢
  cases ok
  · simp
  · simp only [Bool.not_true, Bool.false_eq_true, if_false]
    have h1 := advance_cost_tight q .verify none hr
    have h2 := (adv_shape q .verify none hr).hus
    have h3 := frame_adv q .verify none hr
    split <;> (simp only; omega)

end Binson
