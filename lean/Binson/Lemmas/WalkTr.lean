/-
  Traversal programs, part 4: the decode->encode transcription (`transcribeValue` /
  `transcribeItems` of Model/Transcribe.lean) on the encoding of a well-formed document issues
  exactly the writer calls `opsOf v` (the C05 vocabulary).
-/
import Binson.Lemmas.WalkDes
import Binson.Lemmas.CppSerRun
import Binson.Model.Transcribe
namespace Binson

theorem walk_run_cons (w : Writer) (op : WOp) (ops : List WOp) : w.run (op :: ops) = ((w.step op).1).run ops := rfl
theorem walk_run_nil (w : Writer) : w.run [] = w := rfl
theorem walk_run_one (w : Writer) (op : WOp) : w.run [op] = (w.step op).1 := rfl
theorem walk_run_snoc (w : Writer) (ops : List WOp) (op : WOp) : w.run (ops ++ [op]) = ((w.run ops).step op).1 := by
  rw [run_append]; rfl

mutual
theorem walk_trValue (v : Value) (f : Nat) (p : Parser) (c : Cursor) (w : Writer) (nm : Option (Bytes × Span)) (off : Nat)
    (hfu : tokens v ≤ f) (hA : Agree p c) (fr0 : Frame) (fr : List Frame) (hfr : c.frames = fr0 :: fr)
    (hcur : c.cur = some (annotate nm off v)) (hm : ItemMatches p (annotate nm off v).item) :
    ∃ p' c', transcribeValue f p w = (p', w.run (opsOf v), true) ∧ Agree p' c' ∧ c'.frames = c.frames := by
  have hpos := walk_tokens_pos v
  obtain ⟨f', rfl⟩ : ∃ f', f = f' + 1 := ⟨f - 1, by omega⟩
  have hty := hm.ty
  rw [walk_item_ty] at hty
  cases v with
  | bool b =>
    have hb := hm.bool
    simp only [annotate, Node.item] at hb hty
    refine ⟨p, c, ?_, hA, rfl⟩
    rw [transcribeValue]
    simp only [hty, hb, opsOf, walk_run_one]
  | int i =>
    have hb := hm.int
    simp only [annotate, Node.item] at hb hty
    refine ⟨p, c, ?_, hA, rfl⟩
    rw [transcribeValue]
    simp only [hty, hb, opsOf, walk_run_one]
  | dbl d =>
    have hb := hm.dbl
    simp only [annotate, Node.item] at hb hty
    refine ⟨p, c, ?_, hA, rfl⟩
    rw [transcribeValue]
    simp only [hty, hb, opsOf, walk_run_one]
  | str s =>
    have hb := hm.str
    have hp := (hm.payload _ rfl).1
    simp only [annotate, Node.item] at hb hty hp
    refine ⟨p, c, ?_, hA, rfl⟩
    rw [transcribeValue]
    simp only [hty, hb, hp, opsOf, walk_run_one]
  | bytes s =>
    have hb := hm.bytes
    have hp := (hm.payload _ rfl).1
    simp only [annotate, Node.item] at hb hty hp
    refine ⟨p, c, ?_, hA, rfl⟩
    rw [transcribeValue]
    simp only [hty, hb, hp, opsOf, walk_run_one]
  | obj fs =>
    simp only at hty
    have hfu' : tokensF fs + 1 ≤ f' := by simp only [tokens] at hfu; omega
    obtain ⟨a1, a2, a3⟩ := walk_cur_enterObj hfr hcur (by rw [walk_item_ty])
    obtain ⟨g1, g2, _, g4⟩ := walk_call hA .enterObj a1
    rw [walk_machNav_enterObj] at g1 g2 g4
    simp only at g1 g2 g4
    rw [a3] at g1
    rw [annotate_children_obj] at a2
    obtain ⟨p2, c2, d1, d2, d3⟩ := walk_trFields fs f' (goIntoObject p).1 _ (w.step .objBegin).1 true (fr0 :: fr) (off + 1)
      hfu' g4 a2
    obtain ⟨b1, b2, b3⟩ := walk_cur_leaveObj d3
    obtain ⟨l1, _, _, l4⟩ := walk_call d2 .leaveObj b1
    rw [walk_machNav_leaveObj] at l1 l4
    simp only at l1 l4
    rw [b3] at l1
    refine ⟨(leaveObject p2).1, _, ?_, l4, by rw [b2, hfr]⟩
    rw [transcribeValue]
    simp only [hty, g1, d1, l1, opsOf, walk_run_cons, walk_run_snoc]
    simp
  | arr xs =>
    simp only at hty
    have hfu' : tokensE xs + 1 ≤ f' := by simp only [tokens] at hfu; omega
    obtain ⟨a1, a2, a3⟩ := walk_cur_enterArr hfr hcur (by rw [walk_item_ty])
    obtain ⟨g1, g2, _, g4⟩ := walk_call hA .enterArr a1
    rw [walk_machNav_enterArr] at g1 g2 g4
    simp only at g1 g2 g4
    rw [a3] at g1
    rw [annotate_children_arr] at a2
    obtain ⟨p2, c2, d1, d2, d3⟩ := walk_trElems xs f' (goIntoArray p).1 _ (w.step .arrBegin).1 false (fr0 :: fr) (off + 1)
      hfu' g4 a2
    obtain ⟨b1, b2, b3⟩ := walk_cur_leaveArr d3
    obtain ⟨l1, _, _, l4⟩ := walk_call d2 .leaveArr b1
    rw [walk_machNav_leaveArr] at l1 l4
    simp only at l1 l4
    rw [b3] at l1
    refine ⟨(leaveArray p2).1, _, ?_, l4, by rw [b2, hfr]⟩
    rw [transcribeValue]
    simp only [hty, g1, d1, l1, opsOf, walk_run_cons, walk_run_snoc]
    simp
theorem walk_trFields (fs : Fields) (f : Nat) (p : Parser) (c : Cursor) (w : Writer) (io : Bool) (fr : List Frame) (off : Nat)
    (hfu : tokensF fs + 1 ≤ f) (hA : Agree p c) (hfr : c.frames = ⟨io, annotateF off fs⟩ :: fr) :
    ∃ p' c', transcribeItems f p w true = (p', w.run (opsOfF fs), true) ∧ Agree p' c' ∧ c'.frames = ⟨io, []⟩ :: fr := by
  obtain ⟨f', rfl⟩ : ∃ f', f = f' + 1 := ⟨f - 1, by omega⟩
  obtain ⟨n1, n2, n3, n4⟩ := walk_call hA .next (walk_cur_next_allowed hfr)
  rw [walk_machNav_next] at n1 n2 n3 n4
  simp only at n1 n2 n3 n4
  cases fs with
  | nil =>
    simp only [annotateF] at hfr
    obtain ⟨s1, s2⟩ := walk_cur_next_nil hfr
    rw [s2] at n1
    refine ⟨(next p).1, _, ?_, n4, s1⟩
    rw [transcribeItems]
    simp only [n1, n2, opsOfF, walk_run_nil]
    simp
  | cons n v r =>
    rw [annotateF_cons] at hfr
    obtain ⟨s1, s2, s3, s4⟩ := walk_cur_next_cons hfr
    rw [s3] at n1
    have hm := n3 _ s4
    obtain ⟨gn1, gn2, _⟩ := hm.name n _ (annotate_item_name _ _ _)
    have hfu1 : tokens v ≤ f' := by simp only [tokensF] at hfu; omega
    have hfu2 : tokensF r + 1 ≤ f' := by simp only [tokensF] at hfu; omega
    obtain ⟨p2, c2, d1, d2, d3⟩ := walk_trValue v f' (next p).1 _ (w.step (.str n)).1 _ _ hfu1 n4 _ _ s1 s2 hm
    rw [s1] at d3
    obtain ⟨p3, c3, e1, e2, e3⟩ := walk_trFields r f' p2 c2 ((w.step (.str n)).1.run (opsOf v)) io fr _ hfu2 d2 d3
    refine ⟨p3, c3, ?_, e2, e3⟩
    rw [transcribeItems]
    simp only [n1, gn1, gn2, d1, e1, opsOfF, walk_run_cons, run_append]
    simp
theorem walk_trElems (xs : Elems) (f : Nat) (p : Parser) (c : Cursor) (w : Writer) (io : Bool) (fr : List Frame) (off : Nat)
    (hfu : tokensE xs + 1 ≤ f) (hA : Agree p c) (hfr : c.frames = ⟨io, annotateE off xs⟩ :: fr) :
    ∃ p' c', transcribeItems f p w false = (p', w.run (opsOfE xs), true) ∧ Agree p' c' ∧ c'.frames = ⟨io, []⟩ :: fr := by
  obtain ⟨f', rfl⟩ : ∃ f', f = f' + 1 := ⟨f - 1, by omega⟩
  obtain ⟨n1, n2, n3, n4⟩ := walk_call hA .next (walk_cur_next_allowed hfr)
  rw [walk_machNav_next] at n1 n2 n3 n4
  simp only at n1 n2 n3 n4
  cases xs with
  | nil =>
    simp only [annotateE] at hfr
    obtain ⟨s1, s2⟩ := walk_cur_next_nil hfr
    rw [s2] at n1
    refine ⟨(next p).1, _, ?_, n4, s1⟩
    rw [transcribeItems]
    simp only [n1, n2, opsOfE, walk_run_nil]
    simp
  | cons v r =>
    rw [annotateE_cons] at hfr
    obtain ⟨s1, s2, s3, s4⟩ := walk_cur_next_cons hfr
    rw [s3] at n1
    have hm := n3 _ s4
    have hpos := walk_tokens_pos v
    have hfu1 : tokens v ≤ f' := by simp only [tokensE] at hfu; omega
    have hfu2 : tokensE r + 1 ≤ f' := by simp only [tokensE] at hfu; omega
    obtain ⟨p2, c2, d1, d2, d3⟩ := walk_trValue v f' (next p).1 _ w _ _ hfu1 n4 _ _ s1 s2 hm
    rw [s1] at d3
    obtain ⟨p3, c3, e1, e2, e3⟩ := walk_trElems r f' p2 c2 (w.run (opsOf v)) io fr _ hfu2 d2 d3
    refine ⟨p3, c3, ?_, e2, e3⟩
    rw [transcribeItems]
    simp only [n1, d1, e1, opsOfE, run_append]
    simp
end

end Binson
