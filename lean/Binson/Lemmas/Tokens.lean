/-
  Layer 1, part 3: exact closed forms of the classification stage when the bytes at the
  cursor are a known encoded token.
-/
import Binson.Lemmas.Classify
import Binson.Lemmas.L0
import Binson.Lemmas.DecodeRef
namespace Binson

/-- the unread part of the buffer -/
def Parser.rem (p : Parser) : Bytes := p.buf.toList.drop p.used

theorem drop_byte {p : Parser} {off : Nat} {b : UInt8} {r : Bytes} (h : p.buf.toList.drop off = b :: r) :
    p.byte off = b ∧ off < p.buf.size ∧ p.buf.toList.drop (off + 1) = r := by
  have hlt : off < p.buf.toList.length := by
    apply Decidable.byContradiction
    intro hn
    rw [List.drop_eq_nil_of_le (by omega)] at h
    exact absurd h (by simp)
  have hsz : off < p.buf.size := by simpa using hlt
  rw [List.drop_eq_getElem_cons hlt] at h
  injection h with h1 h2
  refine ⟨?_, hsz, h2⟩
  unfold Parser.byte
  rw [← h1]
  simp [Array.getD_eq_getD_getElem?, hsz]

theorem drop_append_len {p : Parser} {off : Nat} {bs r : Bytes} (ho : off ≤ p.buf.size)
    (h : p.buf.toList.drop off = bs ++ r) :
    off + bs.length ≤ p.buf.size ∧ p.buf.toList.drop (off + bs.length) = r := by
  have hl := congrArg List.length h
  simp only [List.length_drop, List.length_append, Array.length_toList] at hl
  constructor
  · omega
  · rw [← List.drop_drop, h]; simp

theorem leNat_of_drop {p : Parser} {off : Nat} {bs r : Bytes} (h : p.buf.toList.drop off = bs ++ r) :
    leNat p off bs.length = leNatL bs := by
  induction bs generalizing off with
  | nil => rfl
  | cons b bs ih =>
    obtain ⟨h1, _, h3⟩ := drop_byte (p := p) (off := off) (b := b) (r := bs ++ r) (by simpa using h)
    simp only [List.length_cons, leNat, leNatL, h1, ih h3]

theorem slice_of_drop {p : Parser} {off : Nat} {bs r : Bytes} (h : p.buf.toList.drop off = bs ++ r) :
    p.slice ⟨off, bs.length⟩ = bs := by
  unfold Parser.slice
  simp only [Array.toList_extract, List.extract_eq_take_drop, Nat.add_sub_cancel_left, h]
  simp

theorem byte_congr {p q : Parser} (h : q.buf = p.buf) (off : Nat) : q.byte off = p.byte off := by
  unfold Parser.byte; rw [h]

theorem leNat_congr {p q : Parser} (h : q.buf = p.buf) (off w : Nat) : leNat q off w = leNat p off w := by
  induction w generalizing off with
  | zero => rfl
  | succ w ih => simp only [leNat, ih, byte_congr h]

theorem parseIntVal_congr {p q : Parser} (h : q.buf = p.buf) (s : Span) : parseIntVal q s = parseIntVal p s := by
  unfold parseIntVal
  simp only [leNat_congr h, byte_congr h]

theorem slice_congr {p q : Parser} (h : q.buf = p.buf) (s : Span) : q.slice s = p.slice s := by
  unfold Parser.slice; rw [h]

/-- `_parse_integer`'s value is the two's-complement reading of the bytes, for the four widths -/
theorem parseIntVal_eq_sext {p : Parser} {off : Nat} {bs r : Bytes} (h : p.buf.toList.drop off = bs ++ r)
    (hw : bs.length = 1 ∨ bs.length = 2 ∨ bs.length = 4 ∨ bs.length = 8) :
    parseIntVal p ⟨off, bs.length⟩ = sext bs.length (leNatL bs) := by
  have hn := leNat_of_drop h
  unfold parseIntVal sext
  simp only [hn]
  rcases hw with e | e | e | e
  · match bs, e with
    | [a], _ =>
      obtain ⟨h1, _, _⟩ := drop_byte (p := p) (off := off) (b := a) (r := r) (by simpa using h)
      have ha := a.toNat_lt
      simp only [List.length_cons, List.length_nil, Nat.zero_add, Nat.add_sub_cancel, h1, leNatL]
      simp only [Nat.reduceMul, Nat.reduceSub, Nat.reducePow, Int.reducePow, Nat.reduceLT, if_true] at ha ⊢
      split <;> split <;> omega
  · match bs, e with
    | [a, b], _ =>
      obtain ⟨_, _, h2⟩ := drop_byte (p := p) (off := off) (b := a) (r := b :: r) (by simpa using h)
      obtain ⟨h1, _, _⟩ := drop_byte h2
      have ha := a.toNat_lt
      have hb := b.toNat_lt
      simp only [List.length_cons, List.length_nil, Nat.zero_add, Nat.reduceAdd,
        show off + 2 - 1 = off + 1 by omega, h1, leNatL]
      simp only [Nat.reduceMul, Nat.reduceSub, Nat.reducePow, Int.reducePow, Nat.reduceLT, if_true] at ha hb ⊢
      split <;> split <;> omega
  · match bs, e with
    | [a, b, c, d], _ =>
      obtain ⟨_, _, h2⟩ := drop_byte (p := p) (off := off) (b := a) (r := b :: c :: d :: r) (by simpa using h)
      obtain ⟨_, _, h3⟩ := drop_byte h2
      obtain ⟨_, _, h4⟩ := drop_byte h3
      obtain ⟨h1, _, _⟩ := drop_byte h4
      have ha := a.toNat_lt
      have hb := b.toNat_lt
      have hc := c.toNat_lt
      have hd := d.toNat_lt
      simp only [List.length_cons, List.length_nil, Nat.zero_add, Nat.reduceAdd,
        show off + 4 - 1 = off + 1 + 1 + 1 by omega, h1, leNatL]
      simp only [Nat.reduceMul, Nat.reduceSub, Nat.reducePow, Int.reducePow, Nat.reduceLT, if_true] at ha hb hc hd ⊢
      split <;> split <;> omega
  · rw [e]
    generalize leNatL bs = n
    have h64 : two64 / 2 = 9223372036854775808 := by decide
    have hp : (2 : Nat) ^ (8 * 8 - 1) = 9223372036854775808 := by decide
    rw [if_neg (by decide)]
    by_cases hc : n < 9223372036854775808
    · rw [if_neg (by omega), if_pos (by omega)]
    · rw [if_pos (by omega), if_neg (by omega)]
      simp [two64]

/-- the shortest-form test accepts ONLY the minimal width, among the widths the value fits in
    (the C test for width `w` only looks at the next smaller width: that `v` fits `w` bytes is
    implied there by `v` having been read from `w` bytes) -/
theorem intBoundsOk_iff (i : Int) (w : Nat) (hw : w = 1 ∨ w = 2 ∨ w = 4 ∨ w = 8) (hf : FitsWidth i w) :
    intBoundsOk i w = true ↔ w = intWidth i := by
  unfold intBoundsOk intWidth
  rcases hw with rfl | rfl | rfl | rfl
  · have := (fits0 i).mp hf
    rcases intWidthExp_eq i with ⟨e, h1⟩ | ⟨e, h0, h1⟩ | ⟨e, h0, h1⟩ | ⟨e, h0⟩ <;> rw [e] <;> simp <;> omega
  · have := (fits1 i).mp hf
    rcases intWidthExp_eq i with ⟨e, h1⟩ | ⟨e, h0, h1⟩ | ⟨e, h0, h1⟩ | ⟨e, h0⟩ <;> rw [e] <;> simp <;> omega
  · have := (fits2 i).mp hf
    rcases intWidthExp_eq i with ⟨e, h1⟩ | ⟨e, h0, h1⟩ | ⟨e, h0, h1⟩ | ⟨e, h0⟩ <;> rw [e] <;> simp <;> omega
  · have := (fits3 i).mp hf
    rcases intWidthExp_eq i with ⟨e, h1⟩ | ⟨e, h0, h1⟩ | ⟨e, h0, h1⟩ | ⟨e, h0⟩ <;> rw [e] <;> simp <;> omega

theorem intBoundsOk_minimal (i : Int) (h : int64Min ≤ i ∧ i ≤ int64Max) : intBoundsOk i (intWidth i) = true :=
  (intBoundsOk_iff i _ (intWidth_cases i) (intWidth_minimal i h).1).mpr rfl

/-- the same for a value read from `w` bytes -/
theorem intBoundsOk_sext_iff (w n : Nat) (hw : w = 1 ∨ w = 2 ∨ w = 4 ∨ w = 8) (hn : n < 256 ^ w) :
    intBoundsOk (sext w n) w = true ↔ w = intWidth (sext w n) :=
  intBoundsOk_iff _ w hw (sext_fits w (by omega) n hn).1

/-! ### the cursor -/

@[simp] theorem rem_setLvl (p : Parser) (i : Nat) (l : Level) : (p.setLvl i l).rem = p.rem := by
  unfold Parser.setLvl Parser.rem
  split <;> rfl

theorem rem_used (p : Parser) (u : Nat) : ({ p with used := u } : Parser).rem = p.buf.toList.drop u := rfl

theorem rem_cons {p : Parser} {b : UInt8} {r : Bytes} (h : Shape p) (hd : p.rem = b :: r) :
    p.byte p.used = b ∧ p.used < p.size ∧ ({ p with used := p.used + 1 } : Parser).rem = r := by
  obtain ⟨h1, h2, h3⟩ := drop_byte (p := p) (off := p.used) hd
  exact ⟨h1, by rw [← h.hbs]; exact h2, h3⟩

/-! ### the stages on a shaped parser with a byte available -/

theorem classify_peek {p : Parser} (h : Shape p) (hu : p.used < p.size) (bc0 : Nat) :
    classify p bc0 =
      if p.byte p.used = 0x40 then ⟨.objBegin, ⟨p.used, 1⟩, bc0, p.setLvl p.lvlIdx { p.getLvl p.lvlIdx with ctype := .object }⟩
      else if p.byte p.used = 0x41 then ⟨.objEnd, ⟨p.used, 1⟩, bc0, p⟩
      else if p.byte p.used = 0x42 then ⟨.arrBegin, ⟨p.used, 1⟩, bc0, p.setLvl p.lvlIdx { p.getLvl p.lvlIdx with ctype := .array }⟩
      else if p.byte p.used = 0x43 then ⟨.arrEnd, ⟨p.used, 1⟩, bc0, p⟩
      else processOne p (p.byte p.used) := by
  have hli := h.lvlIdx_lt
  have hsz := h.hsz
  unfold classify
  simp only [touchLvl_of_lt hli]
  rw [consume_ok h 1 true (by omega) (by omega)]
  simp only [Bool.not_true, Bool.false_eq_true, if_false, if_true]
  have htb : p.touchBuf p.used 1 = p := touchBuf_of_le (by rw [h.hbs]; omega)
  simp only [htb]

/-! ### BEGIN / END tokens -/

theorem classify_objBegin {p : Parser} (h : Shape p) (_he : p.err = .none) (bc0 : Nat) (rest : Bytes)
    (hd : p.rem = 0x40 :: rest) :
    classify p bc0 = ⟨.objBegin, ⟨p.used, 1⟩, bc0, p.setLvl p.lvlIdx { p.getLvl p.lvlIdx with ctype := .object }⟩ := by
  obtain ⟨hb, hu, _⟩ := rem_cons h hd
  rw [classify_peek h hu, hb]
  rfl

theorem classify_objEnd {p : Parser} (h : Shape p) (_he : p.err = .none) (bc0 : Nat) (rest : Bytes)
    (hd : p.rem = 0x41 :: rest) :
    classify p bc0 = ⟨.objEnd, ⟨p.used, 1⟩, bc0, p⟩ := by
  obtain ⟨hb, hu, _⟩ := rem_cons h hd
  rw [classify_peek h hu, hb]
  rfl

theorem classify_arrBegin {p : Parser} (h : Shape p) (_he : p.err = .none) (bc0 : Nat) (rest : Bytes)
    (hd : p.rem = 0x42 :: rest) :
    classify p bc0 = ⟨.arrBegin, ⟨p.used, 1⟩, bc0, p.setLvl p.lvlIdx { p.getLvl p.lvlIdx with ctype := .array }⟩ := by
  obtain ⟨hb, hu, _⟩ := rem_cons h hd
  rw [classify_peek h hu, hb]
  rfl

theorem classify_arrEnd {p : Parser} (h : Shape p) (_he : p.err = .none) (bc0 : Nat) (rest : Bytes)
    (hd : p.rem = 0x43 :: rest) :
    classify p bc0 = ⟨.arrEnd, ⟨p.used, 1⟩, bc0, p⟩ := by
  obtain ⟨hb, hu, _⟩ := rem_cons h hd
  rw [classify_peek h hu, hb]
  rfl

/-- BEGIN/END tokens leave the cursor where it is (the case code moves it) -/
theorem classify_objBegin_rem {p : Parser} (h : Shape p) (he : p.err = .none) (bc0 : Nat) (rest : Bytes)
    (hd : p.rem = 0x40 :: rest) : (classify p bc0).p.rem = 0x40 :: rest := by
  rw [classify_objBegin h he bc0 rest hd, rem_setLvl, hd]

theorem classify_objEnd_rem {p : Parser} (h : Shape p) (he : p.err = .none) (bc0 : Nat) (rest : Bytes)
    (hd : p.rem = 0x41 :: rest) : (classify p bc0).p.rem = 0x41 :: rest := by
  rw [classify_objEnd h he bc0 rest hd, hd]

theorem classify_arrBegin_rem {p : Parser} (h : Shape p) (he : p.err = .none) (bc0 : Nat) (rest : Bytes)
    (hd : p.rem = 0x42 :: rest) : (classify p bc0).p.rem = 0x42 :: rest := by
  rw [classify_arrBegin h he bc0 rest hd, rem_setLvl, hd]

theorem classify_arrEnd_rem {p : Parser} (h : Shape p) (he : p.err = .none) (bc0 : Nat) (rest : Bytes)
    (hd : p.rem = 0x43 :: rest) : (classify p bc0).p.rem = 0x43 :: rest := by
  rw [classify_arrEnd h he bc0 rest hd, hd]

/-- the case code's `used + 1` after a BEGIN/END token -/
theorem rem_setLvl_used1 {p : Parser} {b : UInt8} {rest : Bytes} (h : Shape p) (hd : p.rem = b :: rest) (i : Nat) (l : Level) :
    ({ p.setLvl i l with used := (p.setLvl i l).used + 1 } : Parser).rem = rest := by
  obtain ⟨_, _, hr⟩ := rem_cons h hd
  rw [← hr]
  unfold Parser.setLvl Parser.rem
  split <;> rfl

/-! ### scalar tokens -/

theorem classify_bool {p : Parser} (h : Shape p) (_he : p.err = .none) (bc0 : Nat) (rest : Bytes) (b : Bool)
    (hd : p.rem = (if b then 0x44 else 0x45) :: rest) :
    classify p bc0 = ⟨.boolean, ⟨p.used, 1⟩, 1, { p with used := p.used + 1 }⟩ ∧
    (∀ q : Parser, q.buf = p.buf → decide (q.byte p.used = 0x44) = b) ∧
    ({ p with used := p.used + 1 } : Parser).rem = rest := by
  obtain ⟨hb, hu, hr⟩ := rem_cons h hd
  refine ⟨?_, ?_, hr⟩
  · rw [classify_peek h hu, hb]
    cases b <;> simp [processOne]
  · intro q hq
    rw [byte_congr hq, hb]; cases b <;> decide

theorem processOne_dbl {p : Parser} (h : Shape p) (hfit : p.used + 1 + 8 ≤ p.size) :
    processOne p 0x46 = ⟨.double, ⟨p.used + 1, 8⟩, 9, { p with used := p.used + 1 + 8 }⟩ := by
  have h1 : Shape { p with used := p.used + 1 } := h.withUsed _ (by omega)
  unfold processOne
  simp only
  rw [consume_ok h1 8 false (by decide) hfit]
  simp

theorem classify_dbl {p : Parser} (h : Shape p) (_he : p.err = .none) (bc0 : Nat) (rest : Bytes) (bits : UInt64)
    (hd : p.rem = 0x46 :: (leBytes 8 bits.toNat ++ rest)) :
    classify p bc0 = ⟨.double, ⟨p.used + 1, 8⟩, 9, { p with used := p.used + 9 }⟩ ∧
    (∀ q : Parser, q.buf = p.buf → leNat q (p.used + 1) 8 = bits.toNat) ∧
    ({ p with used := p.used + 9 } : Parser).rem = rest := by
  obtain ⟨hb, hu, hr⟩ := rem_cons h hd
  rw [rem_used] at hr
  obtain ⟨hl, hr2⟩ := drop_append_len (by have := h.hbs; omega) hr
  rw [leBytes_length] at hl hr2
  refine ⟨?_, ?_, hr2⟩
  · rw [classify_peek h hu, hb, processOne_dbl h (by rw [← h.hbs]; exact hl)]
    simp
  · intro q hq
    have := leNat_of_drop hr
    rw [leBytes_length] at this
    rw [leNat_congr hq, this, leNatL_leBytes]
    exact Nat.mod_eq_of_lt (by have := bits.toNat_lt; omega)

theorem processOne_int {p : Parser} (h : Shape p) (b0 : UInt8) (hb : b0 = 0x10 ∨ b0 = 0x11 ∨ b0 = 0x12 ∨ b0 = 0x13)
    (hfit : p.used + 1 + 2 ^ (b0.toNat % 4) ≤ p.size) :
    processOne p b0 = ⟨.integer, ⟨p.used + 1, 2 ^ (b0.toNat % 4)⟩, 1 + 2 ^ (b0.toNat % 4),
                        { p with used := p.used + 1 + 2 ^ (b0.toNat % 4) }⟩ := by
  have hw := pow_mod4_le b0
  have hw1 : 1 ≤ 2 ^ (b0.toNat % 4) := Nat.one_le_two_pow
  have h1 : Shape { p with used := p.used + 1 } := h.withUsed _ (by omega)
  have n1 : ¬ (b0 = 0x44 ∨ b0 = 0x45) := by rcases hb with rfl | rfl | rfl | rfl <;> decide
  have n2 : ¬ b0 = 0x46 := by rcases hb with rfl | rfl | rfl | rfl <;> decide
  unfold processOne
  simp only
  rw [if_neg n1, if_neg n2, if_pos hb, consume_ok h1 _ false (by omega) hfit]
  simp

theorem classify_int {p : Parser} (h : Shape p) (_he : p.err = .none) (bc0 : Nat) (rest : Bytes) (i : Int)
    (hi : int64Min ≤ i ∧ i ≤ int64Max) (hd : p.rem = encInt 0x10 i ++ rest) :
    classify p bc0 = ⟨.integer, ⟨p.used + 1, intWidth i⟩, 1 + intWidth i, { p with used := p.used + 1 + intWidth i }⟩ ∧
    (∀ q : Parser, q.buf = p.buf → parseIntVal q ⟨p.used + 1, intWidth i⟩ = i) ∧
    intBoundsOk i (intWidth i) = true ∧
    ({ p with used := p.used + 1 + intWidth i } : Parser).rem = rest := by
  unfold encInt at hd
  rw [List.cons_append] at hd
  obtain ⟨hb, hu, hr⟩ := rem_cons h hd
  rw [rem_used] at hr
  obtain ⟨hl, hr2⟩ := drop_append_len (by have := h.hbs; omega) hr
  rw [encIntBody_length] at hl hr2
  refine ⟨?_, ?_, intBoundsOk_minimal i hi, hr2⟩
  · have hfit : p.used + 1 + intWidth i ≤ p.size := by rw [← h.hbs]; exact hl
    rw [classify_peek h hu, hb]
    unfold intWidth at hfit ⊢
    rcases intWidthExp_eq i with ⟨e, _⟩ | ⟨e, _⟩ | ⟨e, _⟩ | ⟨e, _⟩ <;> rw [e] at hfit ⊢
    · rw [show (0x10 : UInt8) + UInt8.ofNat 0 = 0x10 by decide]
      rw [if_neg (by decide), if_neg (by decide), if_neg (by decide), if_neg (by decide)]
      exact processOne_int h 0x10 (by decide) hfit
    · rw [show (0x10 : UInt8) + UInt8.ofNat 1 = 0x11 by decide]
      rw [if_neg (by decide), if_neg (by decide), if_neg (by decide), if_neg (by decide)]
      exact processOne_int h 0x11 (by decide) hfit
    · rw [show (0x10 : UInt8) + UInt8.ofNat 2 = 0x12 by decide]
      rw [if_neg (by decide), if_neg (by decide), if_neg (by decide), if_neg (by decide)]
      exact processOne_int h 0x12 (by decide) hfit
    · rw [show (0x10 : UInt8) + UInt8.ofNat 3 = 0x13 by decide]
      rw [if_neg (by decide), if_neg (by decide), if_neg (by decide), if_neg (by decide)]
      exact processOne_int h 0x13 (by decide) hfit
  · intro q hq
    have := parseIntVal_eq_sext hr (by rw [encIntBody_length]; exact intWidth_cases i)
    rw [encIntBody_length] at this
    rw [parseIntVal_congr hq, this, sext_encIntBody i hi]

theorem processOne_blob {p : Parser} (h : Shape p) (b0 : UInt8)
    (hb : b0 = 0x14 ∨ b0 = 0x15 ∨ b0 = 0x16 ∨ b0 = 0x18 ∨ b0 = 0x19 ∨ b0 = 0x1a) (n : Nat)
    (hfit : p.used + 1 + 2 ^ (b0.toNat % 4) ≤ p.size)
    (hlv : parseIntVal p ⟨p.used + 1, 2 ^ (b0.toNat % 4)⟩ = (n : Int))
    (hbo : intBoundsOk (n : Int) (2 ^ (b0.toNat % 4)) = true)
    (hn : n ≤ 2147483647)
    (hfit2 : p.used + 1 + 2 ^ (b0.toNat % 4) + n ≤ p.size) :
    processOne p b0 = ⟨if b0.toNat < 0x18 then .string else .bytes, ⟨p.used + 1 + 2 ^ (b0.toNat % 4), n⟩,
                        1 + 2 ^ (b0.toNat % 4) + n, { p with used := p.used + 1 + 2 ^ (b0.toNat % 4) + n }⟩ := by
  have hw := pow_mod4_le b0
  have hw1 : 1 ≤ 2 ^ (b0.toNat % 4) := Nat.one_le_two_pow
  have h1 : Shape { p with used := p.used + 1 } := h.withUsed _ (by omega)
  have h2 : Shape { p with used := p.used + 1 + 2 ^ (b0.toNat % 4) } := h.withUsed _ hfit
  have n1 : ¬ (b0 = 0x44 ∨ b0 = 0x45) := by rcases hb with rfl | rfl | rfl | rfl | rfl | rfl <;> decide
  have n2 : ¬ b0 = 0x46 := by rcases hb with rfl | rfl | rfl | rfl | rfl | rfl <;> decide
  have n3 : ¬ (b0 = 0x10 ∨ b0 = 0x11 ∨ b0 = 0x12 ∨ b0 = 0x13) := by
    rcases hb with rfl | rfl | rfl | rfl | rfl | rfl <;> decide
  have htb : ({ p with used := p.used + 1 + 2 ^ (b0.toNat % 4) } : Parser).touchBuf (p.used + 1) (2 ^ (b0.toNat % 4))
      = { p with used := p.used + 1 + 2 ^ (b0.toNat % 4) } :=
    touchBuf_of_le (by rw [show ({ p with used := p.used + 1 + 2 ^ (b0.toNat % 4) } : Parser).buf.size = p.buf.size from rfl, h.hbs]; omega)
  have hlv' : parseIntVal { p with used := p.used + 1 + 2 ^ (b0.toNat % 4) } ⟨p.used + 1, 2 ^ (b0.toNat % 4)⟩ = (n : Int) :=
    (parseIntVal_congr (p := p) (q := { p with used := p.used + 1 + 2 ^ (b0.toNat % 4) }) rfl _).trans hlv
  have hrange : (0 ≤ (n : Int) ∧ (n : Int) ≤ 2147483647) := by omega
  have hsz := h.hsz
  unfold processOne
  simp only
  rw [if_neg n1, if_neg n2, if_neg n3, if_pos hb, consume_ok h1 _ false (by omega) hfit]
  simp only [Bool.not_true, Bool.false_eq_true, if_false, htb, hlv', hbo, hrange, and_self, decide_true,
    Int.toNat_natCast]
  rw [consume_ok h2 n false (by omega) hfit2]
  simp

/-- string / bytes with the tag byte made explicit -/
theorem classify_blob_tag {p : Parser} (h : Shape p) (bc0 : Nat) (rest : Bytes) (tag : UInt8)
    (hb : tag = 0x14 ∨ tag = 0x15 ∨ tag = 0x16 ∨ tag = 0x18 ∨ tag = 0x19 ∨ tag = 0x1a)
    (s : Bytes) (hs : s.length ≤ INT32_MAX) (hk : tag.toNat % 4 = intWidthExp (s.length : Int))
    (hd : p.rem = tag :: (encIntBody (s.length : Int) ++ (s ++ rest))) :
    classify p bc0 = ⟨if tag.toNat < 0x18 then .string else .bytes, ⟨p.used + 1 + intWidth s.length, s.length⟩,
                      1 + intWidth s.length + s.length, { p with used := p.used + 1 + intWidth s.length + s.length }⟩ ∧
    (∀ q : Parser, q.buf = p.buf → q.slice ⟨p.used + 1 + intWidth s.length, s.length⟩ = s) ∧
    ({ p with used := p.used + 1 + intWidth s.length + s.length } : Parser).rem = rest := by
  obtain ⟨_, hi⟩ := len_exp _ hs
  obtain ⟨hbt, hu, hr⟩ := rem_cons h hd
  rw [rem_used] at hr
  have hbs := h.hbs
  obtain ⟨hl, hr2⟩ := drop_append_len (by omega) hr
  obtain ⟨hl2, hr3⟩ := drop_append_len hl hr2
  rw [encIntBody_length] at hl hr2 hl2 hr3
  have hW : 2 ^ (tag.toNat % 4) = intWidth (s.length : Int) := by rw [hk]; rfl
  have hlv : parseIntVal p ⟨p.used + 1, intWidth (s.length : Int)⟩ = (s.length : Int) := by
    have := parseIntVal_eq_sext hr (by rw [encIntBody_length]; exact intWidth_cases _)
    rw [encIntBody_length] at this
    rw [this, sext_encIntBody _ hi]
  refine ⟨?_, fun q hq => by rw [slice_congr hq]; exact slice_of_drop hr2, hr3⟩
  have n0 : ¬ tag = 0x40 := by rcases hb with rfl | rfl | rfl | rfl | rfl | rfl <;> decide
  have n1 : ¬ tag = 0x41 := by rcases hb with rfl | rfl | rfl | rfl | rfl | rfl <;> decide
  have n2 : ¬ tag = 0x42 := by rcases hb with rfl | rfl | rfl | rfl | rfl | rfl <;> decide
  have n3 : ¬ tag = 0x43 := by rcases hb with rfl | rfl | rfl | rfl | rfl | rfl <;> decide
  rw [classify_peek h hu, hbt, if_neg n0, if_neg n1, if_neg n2, if_neg n3]
  rw [← hW] at hl hl2 hlv ⊢
  exact processOne_blob h tag hb s.length (by omega) hlv (by rw [hW]; exact intBoundsOk_minimal _ hi)
    (by unfold INT32_MAX at hs; exact hs) (by omega)

theorem classify_str {p : Parser} (h : Shape p) (_he : p.err = .none) (bc0 : Nat) (rest : Bytes) (s : Bytes)
    (hs : s.length ≤ INT32_MAX) (hd : p.rem = encStr 0x14 s ++ rest) :
    classify p bc0 = ⟨.string, ⟨p.used + 1 + intWidth s.length, s.length⟩, 1 + intWidth s.length + s.length,
                      { p with used := p.used + 1 + intWidth s.length + s.length }⟩ ∧
    (∀ q : Parser, q.buf = p.buf → q.slice ⟨p.used + 1 + intWidth s.length, s.length⟩ = s) ∧
    ({ p with used := p.used + 1 + intWidth s.length + s.length } : Parser).rem = rest := by
  unfold encStr encInt at hd
  simp only [List.cons_append, List.append_assoc] at hd
  have hk := (len_exp _ hs).1
  have hk' : intWidthExp (s.length : Int) = 0 ∨ intWidthExp (s.length : Int) = 1 ∨ intWidthExp (s.length : Int) = 2 := by omega
  rcases hk' with e | e | e
  · rw [e, show (0x14 : UInt8) + UInt8.ofNat 0 = 0x14 by decide] at hd
    exact classify_blob_tag h bc0 rest 0x14 (by decide) s hs (by rw [e]; decide) hd
  · rw [e, show (0x14 : UInt8) + UInt8.ofNat 1 = 0x15 by decide] at hd
    exact classify_blob_tag h bc0 rest 0x15 (by decide) s hs (by rw [e]; decide) hd
  · rw [e, show (0x14 : UInt8) + UInt8.ofNat 2 = 0x16 by decide] at hd
    exact classify_blob_tag h bc0 rest 0x16 (by decide) s hs (by rw [e]; decide) hd

theorem classify_bytes {p : Parser} (h : Shape p) (_he : p.err = .none) (bc0 : Nat) (rest : Bytes) (s : Bytes)
    (hs : s.length ≤ INT32_MAX) (hd : p.rem = encStr 0x18 s ++ rest) :
    classify p bc0 = ⟨.bytes, ⟨p.used + 1 + intWidth s.length, s.length⟩, 1 + intWidth s.length + s.length,
                      { p with used := p.used + 1 + intWidth s.length + s.length }⟩ ∧
    (∀ q : Parser, q.buf = p.buf → q.slice ⟨p.used + 1 + intWidth s.length, s.length⟩ = s) ∧
    ({ p with used := p.used + 1 + intWidth s.length + s.length } : Parser).rem = rest := by
  unfold encStr encInt at hd
  simp only [List.cons_append, List.append_assoc] at hd
  have hk := (len_exp _ hs).1
  have hk' : intWidthExp (s.length : Int) = 0 ∨ intWidthExp (s.length : Int) = 1 ∨ intWidthExp (s.length : Int) = 2 := by omega
  rcases hk' with e | e | e
  · rw [e, show (0x18 : UInt8) + UInt8.ofNat 0 = 0x18 by decide] at hd
    exact classify_blob_tag h bc0 rest 0x18 (by decide) s hs (by rw [e]; decide) hd
  · rw [e, show (0x18 : UInt8) + UInt8.ofNat 1 = 0x19 by decide] at hd
    exact classify_blob_tag h bc0 rest 0x19 (by decide) s hs (by rw [e]; decide) hd
  · rw [e, show (0x18 : UInt8) + UInt8.ofNat 2 = 0x1a by decide] at hd
    exact classify_blob_tag h bc0 rest 0x1a (by decide) s hs (by rw [e]; decide) hd

end Binson
