/-
  Machine model, part 2: `_consume`, `_parse_integer`, `_process_one`, `_cmp_name` and the
  token loop `_advance_parsing` of src/binson_parser.c, one function per stage of the C text.
-/
import Binson.Model.Types
namespace Binson

/-- `_consume`: returns (ok, span, parser). -/
def consume (p : Parser) (n : Nat) (peek : Bool) : Bool × Span × Parser :=
  if !checkBoundary p.used n p.size then (false, ⟨0,0⟩, { p with err := .range })
  else (true, ⟨p.used, n⟩, if peek then p else { p with used := p.used + n })

def leNat (p : Parser) (off : Nat) : Nat → Nat
  | 0 => 0
  | w+1 => (p.byte off).toNat + 256 * leNat p (off+1) w

/-- `_parse_integer`, value part: little-endian, prefilled with the sign. -/
def parseIntVal (p : Parser) (s : Span) : Int :=
  let n := leNat p s.off s.len
  if s.len < 8 then
    (if (p.byte (s.off + s.len - 1)).toNat ≥ 128 then (n : Int) - (256 : Int) ^ s.len else n)
  else
    (if n ≥ two64 / 2 then (n : Int) - two64 else n)

/-- `_parse_integer(check_boundaries = true)`: the shortest-form test -/
def intBoundsOk (v : Int) (w : Nat) : Bool :=
  if (-128 ≤ v ∧ v ≤ 127) ∧ w = 1 then true
  else if w = 2 ∧ (v < -128 ∨ v > 127) then true
  else if w = 4 ∧ (v < -32768 ∨ v > 32767) then true
  else if w = 8 ∧ (v < -2147483648 ∨ v > 2147483647) then true
  else false

/-- result of the classification stage (peek, BEGIN/END switch, `_process_one`) -/
structure Cls where
  tok : Tok
  span : Span      -- `consumed`
  bc : Nat         -- `bytes_consumed`
  p : Parser

/-- `_process_one`. `b0` is the peeked byte at `p.used`. -/
def processOne (p : Parser) (b0 : UInt8) : Cls :=
  let peeked : Span := ⟨p.used, 1⟩
  let p := { p with used := p.used + 1 }
  if b0 = 0x44 ∨ b0 = 0x45 then ⟨.boolean, peeked, 1, p⟩
  else if b0 = 0x46 then
    let (ok, s, p) := consume p 8 false
    if !ok then ⟨.error, s, 1, p⟩ else ⟨.double, s, 9, p⟩
  else if b0 = 0x10 ∨ b0 = 0x11 ∨ b0 = 0x12 ∨ b0 = 0x13 then
    let w := 2 ^ (b0.toNat % 4)
    let (ok, s, p) := consume p w false
    if !ok then ⟨.error, s, 1, p⟩ else ⟨.integer, s, 1 + w, p⟩
  else if b0 = 0x14 ∨ b0 = 0x15 ∨ b0 = 0x16 ∨ b0 = 0x18 ∨ b0 = 0x19 ∨ b0 = 0x1a then
    let w := 2 ^ (b0.toNat % 4)
    let (ok, s, p) := consume p w false
    if !ok then ⟨.error, s, 1, p⟩ else
    let p := p.touchBuf s.off s.len
    let lv := parseIntVal p s
    if !intBoundsOk lv w then ⟨.error, s, 1 + w, { p with err := .format }⟩ else
    if !(0 ≤ lv ∧ lv ≤ 2147483647) then ⟨.error, s, 1 + w, { p with err := .format }⟩ else
    let (ok, s2, p) := consume p lv.toNat false
    if !ok then ⟨.error, s2, 1 + w, p⟩ else
    ⟨if b0.toNat < 0x18 then .string else .bytes, s2, 1 + w + lv.toNat, p⟩
  else ⟨.error, peeked, 1, { p with err := .format }⟩

/-- `_cmp_name`: sign of memcmp over the common prefix, then of the length difference. -/
def cmpBytes : List UInt8 → List UInt8 → Int
  | [], [] => 0
  | [], _ :: _ => -1
  | _ :: _, [] => 1
  | x :: xs, y :: ys => if x < y then -1 else if x > y then 1 else cmpBytes xs ys

/-- classification: lines 899-928. The level indexed by `depth` gets its `current_type`
    set for BEGIN tokens. A failed peek or `_process_one` error comes back as `.error`. -/
def classify (p : Parser) (bc0 : Nat) : Cls :=
  let li := p.lvlIdx
  let p := p.touchLvl li
  let (ok, c0, p) := consume p 1 true
  if !ok then ⟨.error, c0, bc0, p⟩ else
  let p := p.touchBuf c0.off 1
  let b0 := p.byte c0.off
  if b0 = 0x40 then ⟨.objBegin, c0, bc0, p.setLvl li { p.getLvl li with ctype := .object }⟩
  else if b0 = 0x41 then ⟨.objEnd, c0, bc0, p⟩
  else if b0 = 0x42 then ⟨.arrBegin, c0, bc0, p.setLvl li { p.getLvl li with ctype := .array }⟩
  else if b0 = 0x43 then ⟨.arrEnd, c0, bc0, p⟩
  else processOne p b0

/-- lines 930-946: name/value alternation inside an object. `none` = FORMAT error. -/
def objBlock (lv : Level) (tok : Tok) : Option (Level × Tok) :=
  if lv.flags.inObject then
    let tok := if lv.flags = .expField ∧ tok = .string then Tok.fieldName else tok
    if tok.isValue then
      if lv.flags = .expValue then some ({ lv with flags := .expField }, tok) else none
    else some (lv, tok)
  else some (lv, tok)

def clear (s : Option Scan) (x : Scan) : Option Scan := if s = some x then none else s
def has (s : Option Scan) (xs : List Scan) : Bool := match s with | some x => xs.contains x | none => false

/-- lines 948-972: the IN_ARRAY_1/IN_ARRAY_2 toggle at the originating level -/
def arrBlock (lv : Level) (tok : Tok) (atOrig : Bool) (scan : Option Scan) : Level × Option Scan :=
  if lv.flags.inArray ∧ atOrig then
    if tok = .objBegin ∨ tok = .arrBegin then
      if lv.flags = .arr1 then ({ lv with flags := .arr2 }, clear scan .value)
      else ({ lv with flags := .arr1 }, scan)
    else (lv, clear scan .value)
  else (lv, scan)

inductive Out | ret (b : Bool) | cont | stop
  deriving DecidableEq, Repr

structure LoopSt where
  p : Parser
  scan : Option Scan
  bc : Nat            -- bytes_consumed
  ev : List Event     -- callbacks so far, newest first

/-- lines 1185-1198: error test, callback, proceed test (`force` = the FIELD_NAME case set `proceed`) -/
def finish (st : LoopSt) (tok : Tok) (p : Parser) (lv : Level) (li : Nat) (scan : Option Scan) (force : Bool) :
    LoopSt × Out :=
  let p := p.setLvl li lv
  if p.err ≠ .none then ({ st with p := p, scan := scan }, .ret false) else
  let st := { st with p := p, scan := scan, ev := (tok, p.getLvl p.cur) :: st.ev }
  if force || has scan [.verify, .leaveObj, .value, .leaveArr] then (st, .cont) else (st, .stop)

def caseObjBegin (st : LoopSt) (p : Parser) (lv : Level) (li : Nat) (scan : Option Scan) : LoopSt × Out :=
  if has scan [.verify, .enterObj, .value, .leaveArr, .leaveObj] then
    let scan := clear scan .enterObj
    let p := (p.setLvl li lv)
    let p := { p with used := p.used + 1 }
    if p.depth < 255 ∧ p.depth < p.maxDepth then
      let p := { p with depth := p.depth + 1 }
      let p := { p with cur := p.depth - 1 }
      let p := p.touchLvl p.cur
      finish st .objBegin p { p.getLvl p.cur with flags := .expField } p.cur scan false
    else finish st .objBegin { p with err := .maxDepthObject } lv li scan false
  else
    let lv := if lv.flags = .expField then { lv with flags := .expValue } else lv
    finish st .objBegin p lv li scan false

def caseObjEnd (st : LoopSt) (p : Parser) (lv : Level) (li : Nat) (scan : Option Scan) (od : Nat) : LoopSt × Out :=
  if lv.flags ≠ .expField then finish st .objEnd { p with err := .format } lv li scan false else
  if has scan [.verify, .leaveObj, .value, .leaveArr] then
    let scan := if od = p.depth then clear scan .leaveObj else scan
    if od = p.depth ∧ has scan [.value] then ({ st with p := p.setLvl li lv, scan := scan }, .ret false) else
    let p := p.setLvl li lv
    let p := { p with used := p.used + 1 }
    let p := (p.touchLvl p.cur).setLvl p.cur Level.zero
    if p.depth > 1 then
      let p := { p with depth := p.depth - 1 }
      let p := { p with cur := p.depth - 1 }
      finish st .objEnd p (p.getLvl p.cur) p.cur scan false
    else if p.depth = 1 then
      let p := { p with depth := 0, cur := 0 }
      let p := if p.used ≠ p.size then { p with err := .format } else p
      ({ st with p := p, scan := scan, ev := (.objEnd, p.getLvl p.cur) :: st.ev }, .ret false)
    else ({ st with p := { p with err := .format }, scan := scan }, .ret false)
  else ({ st with p := p.setLvl li lv, scan := scan }, .ret false)

/-- the range `memcmp` reads of a stored name, if there is one -/
def touchName (p : Parser) (n : Option Span) : Parser :=
  match n with
  | some pn => p.touchBuf pn.off pn.len
  | none => p

/-- lines 1053-1060: the new name must be strictly greater than the previous name of this level -/
def nameOrdErr (p : Parser) (lv : Level) (consumed : Span) : Bool :=
  match lv.name with
  | some pn => decide (cmpBytes (p.slice pn) (p.slice consumed) ≥ 0)
  | none => false

/-- lines 1066-1068: the name read is already greater than the name looked for -/
def overshoot (p : Parser) (consumed : Span) (scanName : Option (List UInt8)) : Bool :=
  match scanName with
  | some sn => decide (cmpBytes (p.slice consumed) sn > 0)
  | none => false

def caseFieldName (st : LoopSt) (p : Parser) (lv : Level) (li : Nat) (scan : Option Scan)
    (consumed : Span) (bc : Nat) (scanName : Option (List UInt8)) (oa od : Nat) : LoopSt × Out :=
  -- the two `memcmp` ranges of `_cmp_name(&state->current_name, &consumed)`
  let p := touchName (p.touchBuf consumed.off consumed.len) lv.name
  if nameOrdErr p lv consumed then finish st .fieldName { p with err := .format } lv li scan false else
  if oa = lv.ad ∧ od = p.depth then
    if overshoot p consumed scanName then
      let p := { p with used := p.used - bc }
      ({ st with p := p.setLvl li { lv with flags := .expField }, scan := scan }, .ret false)
    else
      finish st .fieldName p { lv with name := some consumed, flags := .expValue } li (clear scan .value) true
  else finish st .fieldName p { lv with name := some consumed, flags := .expValue } li scan true

def caseArrBegin (st : LoopSt) (p : Parser) (lv : Level) (li : Nat) (scan : Option Scan) : LoopSt × Out :=
  if lv.ad ≥ 255 then finish st .arrBegin { p with err := .maxDepthArray } lv li scan false else
  if has scan [.verify, .value, .enterArr, .leaveArr, .leaveObj] then
    let p := { p with used := p.used + 1 }
    finish st .arrBegin p { lv with flags := .arr1, ad := lv.ad + 1 } li (clear scan .enterArr) false
  else
    let lv := if lv.flags = .expField then { lv with flags := .expValue } else lv
    finish st .arrBegin p lv li scan false

def caseArrEnd (st : LoopSt) (p : Parser) (lv : Level) (li : Nat) (scan : Option Scan) (oa od : Nat) : LoopSt × Out :=
  if !lv.flags.inArray then finish st .arrEnd { p with err := .format } lv li scan false else
  if has scan [.verify, .value, .leaveArr, .leaveObj] then
    let scan := if od = p.depth ∧ oa = lv.ad then clear scan .leaveArr else scan
    if lv.ad = 0 then finish st .arrEnd { p with err := .format } lv li scan false else
    let lv := { lv with ad := lv.ad - 1 }
    let p := { p with used := p.used + 1 }
    if lv.ad = 0 then
      let lv := { lv with flags := .expField }
      if p.ptype = 2 ∧ p.depth = 1 then
        let p := p.setLvl li lv
        let p := if p.used ≠ p.size then { p with err := .format } else p
        ({ st with p := p, scan := scan, ev := (.arrEnd, p.getLvl p.cur) :: st.ev }, .ret false)
      else finish st .arrEnd p lv li scan false
    else finish st .arrEnd p { lv with flags := .arr1 } li scan false
  else ({ st with p := p.setLvl li lv, scan := scan }, .ret false)

/-- lines 1152-1179: the scalar value cases -/
def caseScalar (st : LoopSt) (tok : Tok) (p : Parser) (lv : Level) (li : Nat) (scan : Option Scan)
    (consumed : Span) : LoopSt × Out :=
  match tok with
  | .string => finish st tok p { lv with ctype := .string, val := .span consumed } li scan false
  | .bytes => finish st tok p { lv with ctype := .bytes, val := .span consumed } li scan false
  | .integer =>
    let p := p.touchBuf consumed.off consumed.len
    let v := parseIntVal p consumed
    if !intBoundsOk v consumed.len then finish st tok { p with err := .format } { lv with val := .int v } li scan false
    else finish st tok p { lv with ctype := .integer, val := .int v } li scan false
  | .double =>
    let p := p.touchBuf consumed.off consumed.len
    finish st tok p { lv with ctype := .double, val := .dbl (leNat p consumed.off 8) } li scan false
  | .boolean => finish st tok p { lv with ctype := .boolean, val := .bool (p.byte consumed.off = 0x44) } li scan false
  | _ => ({ st with p := { p with err := .format } }, .ret false)

/-- one pass through the body of the `while (proceed)` loop of `_advance_parsing`. -/
def iter (st : LoopSt) (scanName : Option (List UInt8)) (oa od : Nat) : LoopSt × Out :=
  let c := classify st.p st.bc
  if c.tok = .error then ({ st with p := c.p, bc := c.bc }, .ret false) else
  let p := c.p
  let li := p.lvlIdx
  match objBlock (p.getLvl li) c.tok with
  | none => ({ st with p := { p with err := .format }, bc := c.bc }, .ret false)
  | some (lv, tok) =>
  let r := arrBlock lv tok (decide (oa = lv.ad ∧ od = p.depth)) st.scan
  let lv := r.1
  let scan := r.2
  let st := { st with bc := c.bc }
  match tok with
  | .objBegin => caseObjBegin st p lv li scan
  | .objEnd => caseObjEnd st p lv li scan od
  | .fieldName => caseFieldName st p lv li scan c.span c.bc scanName oa od
  | .arrBegin => caseArrBegin st p lv li scan
  | .arrEnd => caseArrEnd st p lv li scan oa od
  | tok => caseScalar st tok p lv li scan c.span

inductive LoopRes | done (b : Bool) | outOfFuel
  deriving DecidableEq, Repr

def advLoop : Nat → LoopSt → Option (List UInt8) → Nat → Nat → LoopSt × LoopRes
  | 0, st, _, _, _ => (st, .outOfFuel)      -- proved unreachable (C16)
  | f+1, st, sn, oa, od =>
    match iter st sn oa od with
    | (st, .ret b) => (st, .done b)
    | (st, .stop) => (st, .done (st.p.err = .none))
    | (st, .cont) => advLoop f st sn oa od

structure AdvRes where
  p : Parser
  ret : Bool
  ev : List Event        -- callbacks in call order
  outOfFuel : Bool := false

/-- `_advance_parsing` -/
def advance (p : Parser) (scan : Scan) (sn : Option (List UInt8)) : AdvRes :=
  if p.err ≠ .none then ⟨p, false, [], false⟩ else
  let p := p.touchLvl p.cur
  let oa := (p.getLvl p.cur).ad
  let r := advLoop (p.size - p.used + 2) ⟨p, some scan, 0, []⟩ sn oa p.depth
  match r.2 with
  | .done b => ⟨r.1.p, b, r.1.ev.reverse, false⟩
  | .outOfFuel => ⟨{ r.1.p with oof := true }, false, r.1.ev.reverse, true⟩

end Binson
