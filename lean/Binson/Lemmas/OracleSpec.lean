/-
  The executable oracles of the driver are the definitions the theorems are stated with:
  the writer oracle (`specPieces`, `fitted`, Spec/WriterSpec.lean) equals `WOp.pieces`, `fittedPieces`.
  (The parser oracles use `decodeRef` (= spec by `decodeRef_iff`), `Cursor.step` and `render` directly.)
-/
import Binson.Spec.WriterSpec
import Binson.Lemmas.CppSerRun
namespace Binson

theorem fitted_eq_fittedPieces (cap : Nat) : ∀ (ps : List Bytes) (used : Nat), fitted cap used ps = fittedPieces cap used ps
  | [], _ => rfl
  | p :: r, used => by
    unfold fitted fittedPieces
    rw [fitted_eq_fittedPieces cap r]

/-- what the oracle expects of one call is what the writer theorems say the call writes -/
theorem specPieces_eq_pieces (op : WOp) : specPieces op = op.pieces := by
  cases op with
  | objBegin => rfl
  | objEnd => rfl
  | arrBegin => rfl
  | arrEnd => rfl
  | bool b => rfl
  | int v => simp [specPieces, WOp.pieces, packInt_encInt_all]
  | dbl bits => simp [specPieces, WOp.pieces, leBytesM_eq_leBytes]
  | str s =>
    cases s with
    | nil => simp [specPieces, WOp.pieces, packInt_encInt_all]
    | cons a t => simp [specPieces, WOp.pieces, packInt_encInt_all]
  | bytes s =>
    cases s with
    | nil => simp [specPieces, WOp.pieces, packInt_encInt_all]
    | cons a t => simp [specPieces, WOp.pieces, packInt_encInt_all]
  | raw s => rfl

/-- the destination image the C04 oracle demands is the one `writer_run` proves -/
theorem oracle_image_eq (cap : Nat) (ops : List WOp) :
    fitted cap 0 (ops.flatMap specPieces) = fittedPieces cap 0 (allPieces ops) := by
  rw [fitted_eq_fittedPieces]
  unfold allPieces
  congr 1
  induction ops with
  | nil => rfl
  | cons op r ih => simp [List.flatMap_cons, specPieces_eq_pieces, ih]

end Binson
