/-
  Layer 4, part 13: the reference cursor's steps, computed on cursors given by remaining children
  (`cframes`), with the offset arithmetic discharged here once.
-/
import Binson.Lemmas.NavInv
namespace Binson

theorem tailBytes_cons_length (f : RFrame) (r : List RFrame) :
    (tailBytes (f :: r)).length = f.enc.length + 1 + (tailBytes r).length := by
  simp [tailBytes]; omega

/-- the cursor over remaining children `fr` in a buffer of `total` bytes -/
def mkCur (ar : Bool) (total : Nat) (fr : List RFrame) (cur : Option Node) : Cursor :=
  { arrayRoot := ar, root := none, frames := cframes total fr, cur := cur, done := false }

theorem step_next_obj_nil (ar : Bool) (total : Nat) (rest : List RFrame) (cur : Option Node) :
    (mkCur ar total (RFrame.obj .nil :: rest) cur).step .next =
      (mkCur ar total (RFrame.obj .nil :: rest) none, ⟨false, none, none⟩) := by
  simp [mkCur, Cursor.step, cframes, RFrame.nodes, annotateF]

theorem step_next_arr_nil (ar : Bool) (total : Nat) (rest : List RFrame) (cur : Option Node) :
    (mkCur ar total (RFrame.arr .nil :: rest) cur).step .next =
      (mkCur ar total (RFrame.arr .nil :: rest) none, ⟨false, none, none⟩) := by
  simp [mkCur, Cursor.step, cframes, RFrame.nodes, annotateE]

/-- the node `next` returns inside an object whose remaining fields start `o` bytes into the buffer -/
def fieldNode (o : Nat) (n : Bytes) (v : Value) : Node :=
  annotate (some (n, ⟨o + hdrLen n.length, n.length⟩)) (o + hdrLen n.length + n.length) v

theorem step_next_obj_cons (ar : Bool) (total : Nat) (n : Bytes) (v : Value) (r : Fields) (rest : List RFrame) (cur : Option Node)
    (hle : (tailBytes (RFrame.obj (.cons n v r) :: rest)).length ≤ total) :
    (mkCur ar total (RFrame.obj (.cons n v r) :: rest) cur).step .next =
      (mkCur ar total (RFrame.obj r :: rest) (some (fieldNode (total - (tailBytes (RFrame.obj (.cons n v r) :: rest)).length) n v)),
       ⟨true, some (fieldNode (total - (tailBytes (RFrame.obj (.cons n v r) :: rest)).length) n v).item, none⟩) := by
  have h1 := tailBytes_cons_length (RFrame.obj (.cons n v r)) rest
  have h2 := tailBytes_cons_length (RFrame.obj r) rest
  have h3 := encFields_cons_length n v r
  simp only [RFrame.enc] at h1 h2
  have hoff : total - (tailBytes (RFrame.obj (.cons n v r) :: rest)).length + hdrLen n.length + n.length + (encode v).length =
      total - (tailBytes (RFrame.obj r :: rest)).length := by omega
  simp only [mkCur, Cursor.step, cframes, RFrame.nodes, RFrame.isObj, annotateF_cons, fieldNode, hoff]

theorem step_next_arr_cons (ar : Bool) (total : Nat) (v : Value) (r : Elems) (rest : List RFrame) (cur : Option Node)
    (hle : (tailBytes (RFrame.arr (.cons v r) :: rest)).length ≤ total) :
    (mkCur ar total (RFrame.arr (.cons v r) :: rest) cur).step .next =
      (mkCur ar total (RFrame.arr r :: rest) (some (annotate none (total - (tailBytes (RFrame.arr (.cons v r) :: rest)).length) v)),
       ⟨true, some (annotate none (total - (tailBytes (RFrame.arr (.cons v r) :: rest)).length) v).item, none⟩) := by
  have h1 := tailBytes_cons_length (RFrame.arr (.cons v r)) rest
  have h2 := tailBytes_cons_length (RFrame.arr r) rest
  have h3 := encElems_cons_length v r
  simp only [RFrame.enc] at h1 h2
  have hoff : total - (tailBytes (RFrame.arr (.cons v r) :: rest)).length + (encode v).length =
      total - (tailBytes (RFrame.arr r :: rest)).length := by omega
  simp only [mkCur, Cursor.step, cframes, RFrame.nodes, RFrame.isObj, annotateE_cons, hoff]

/-- entering the pending container `v` that starts at offset `o` -/
theorem step_enter_obj (ar : Bool) (total : Nat) (f : RFrame) (fr : List RFrame) (nm : Option (Bytes × Span)) (o : Nat) (fs : Fields)
    (ho : o + 1 + (tailBytes (RFrame.obj fs :: f :: fr)).length = total) :
    (mkCur ar total (f :: fr) (some (annotate nm o (.obj fs)))).step .enterObj =
      (mkCur ar total (RFrame.obj fs :: f :: fr) none, ⟨true, none, none⟩) := by
  have hoff : total - (tailBytes (RFrame.obj fs :: f :: fr)).length = o + 1 := by omega
  simp only [mkCur, Cursor.step, Cursor.pending, cframes, hoff, RFrame.nodes, RFrame.isObj, annotate_children_obj]
  simp [annotate, Node.item]

theorem step_enter_arr (ar : Bool) (total : Nat) (f : RFrame) (fr : List RFrame) (nm : Option (Bytes × Span)) (o : Nat) (xs : Elems)
    (ho : o + 1 + (tailBytes (RFrame.arr xs :: f :: fr)).length = total) :
    (mkCur ar total (f :: fr) (some (annotate nm o (.arr xs)))).step .enterArr =
      (mkCur ar total (RFrame.arr xs :: f :: fr) none, ⟨true, none, none⟩) := by
  have hoff : total - (tailBytes (RFrame.arr xs :: f :: fr)).length = o + 1 := by omega
  simp only [mkCur, Cursor.step, Cursor.pending, cframes, hoff, RFrame.nodes, RFrame.isObj, annotate_children_arr]
  simp [annotate, Node.item]

theorem allowed_enter_obj (ar : Bool) (total : Nat) (f : RFrame) (fr : List RFrame) (n : Node) :
    (mkCur ar total (f :: fr) (some n)).allowed .enterObj = (n.item.ty == .object) := by
  simp [mkCur, Cursor.allowed, Cursor.pending, cframes]

theorem allowed_enter_arr (ar : Bool) (total : Nat) (f : RFrame) (fr : List RFrame) (n : Node) :
    (mkCur ar total (f :: fr) (some n)).allowed .enterArr = (n.item.ty == .array) := by
  simp [mkCur, Cursor.allowed, Cursor.pending, cframes]

theorem allowed_enter_none (ar : Bool) (total : Nat) (f : RFrame) (fr : List RFrame) (op : COp) (h : op = .enterObj ∨ op = .enterArr) :
    (mkCur ar total (f :: fr) none).allowed op = false := by
  rcases h with rfl | rfl <;> simp [mkCur, Cursor.allowed, Cursor.pending, cframes]

/-- leaving the innermost container -/
theorem step_leave (ar : Bool) (total : Nat) (f : RFrame) (fr : List RFrame) (cur : Option Node) (op : COp)
    (h : op = .leaveObj ∨ op = .leaveArr) :
    (mkCur ar total (f :: fr) cur).step op =
      ({ arrayRoot := ar, root := none, frames := cframes total fr, cur := none, done := (cframes total fr).isEmpty }, ⟨true, none, none⟩) := by
  rcases h with rfl | rfl <;> simp [mkCur, Cursor.step, cframes]

theorem allowed_leave_obj (ar : Bool) (total : Nat) (f : RFrame) (fr : List RFrame) (cur : Option Node) :
    (mkCur ar total (f :: fr) cur).allowed .leaveObj = f.isObj := by
  simp [mkCur, Cursor.allowed, cframes]

theorem allowed_leave_arr (ar : Bool) (total : Nat) (f : RFrame) (fr : List RFrame) (cur : Option Node) :
    (mkCur ar total (f :: fr) cur).allowed .leaveArr = !f.isObj := by
  simp [mkCur, Cursor.allowed, cframes]

theorem allowed_field (ar : Bool) (total : Nat) (f : RFrame) (fr : List RFrame) (cur : Option Node) (nm : Bytes) :
    (mkCur ar total (f :: fr) cur).allowed (.field nm) = f.isObj := by
  simp [mkCur, Cursor.allowed, cframes]

theorem allowed_raw (ar : Bool) (total : Nat) (f : RFrame) (fr : List RFrame) (cur : Option Node) :
    (mkCur ar total (f :: fr) cur).allowed .raw = cur.isSome := by
  simp [mkCur, Cursor.allowed, cframes]

theorem cframes_isEmpty (total : Nat) (fr : List RFrame) : (cframes total fr).isEmpty = fr.isEmpty := by
  cases fr <;> rfl

/-- `get_raw` of the pending container -/
theorem step_raw_container (ar : Bool) (total : Nat) (fr : List RFrame) (nm : Option (Bytes × Span)) (o : Nat) (v : Value)
    (hc : v.isContainer = true) :
    (mkCur ar total fr (some (annotate nm o v))).step .raw =
      (mkCur ar total fr none, ⟨true, none, some ⟨o, (encode v).length⟩⟩) := by
  have h1 := annotate_isContainer nm o v
  rw [hc] at h1
  simp only [mkCur, Cursor.step, h1, if_true, annotate_item_start, annotate_item_len nm o v hc]

theorem step_raw_scalar (ar : Bool) (total : Nat) (fr : List RFrame) (n : Node)
    (h1 : n.item.ty ≠ .object) (h2 : n.item.ty ≠ .array) :
    (mkCur ar total fr (some n)).step .raw = (mkCur ar total fr (some n), ⟨false, none, none⟩) := by
  simp [mkCur, Cursor.step, h1, h2]


/-! ### lookup -/

theorem step_field_nil (ar : Bool) (total : Nat) (rest : List RFrame) (cur : Option Node) (nm : Bytes) :
    (mkCur ar total (RFrame.obj .nil :: rest) cur).step (.field nm) =
      (mkCur ar total (RFrame.obj .nil :: rest) none, ⟨false, none, none⟩) := by
  simp [mkCur, Cursor.step, cframes, RFrame.nodes, annotateF]

theorem step_field_found (ar : Bool) (total : Nat) (n : Bytes) (v : Value) (r : Fields) (rest : List RFrame) (cur : Option Node)
    (hle : (tailBytes (RFrame.obj (.cons n v r) :: rest)).length ≤ total) :
    (mkCur ar total (RFrame.obj (.cons n v r) :: rest) cur).step (.field n) =
      (mkCur ar total (RFrame.obj r :: rest) (some (fieldNode (total - (tailBytes (RFrame.obj (.cons n v r) :: rest)).length) n v)),
       ⟨true, some (fieldNode (total - (tailBytes (RFrame.obj (.cons n v r) :: rest)).length) n v).item, none⟩) := by
  have h1 := tailBytes_cons_length (RFrame.obj (.cons n v r)) rest
  have h2 := tailBytes_cons_length (RFrame.obj r) rest
  have h3 := encFields_cons_length n v r
  simp only [RFrame.enc] at h1 h2
  have hoff : total - (tailBytes (RFrame.obj (.cons n v r) :: rest)).length + hdrLen n.length + n.length + (encode v).length =
      total - (tailBytes (RFrame.obj r :: rest)).length := by omega
  simp only [mkCur, Cursor.step, cframes, RFrame.nodes, RFrame.isObj, annotateF_cons, fieldNode, hoff, List.dropWhile_cons,
    nameOf_annotate, bytesLt_irrefl_nav, Bool.false_eq_true, if_false, if_true]

theorem step_field_over (ar : Bool) (total : Nat) (n : Bytes) (v : Value) (r : Fields) (rest : List RFrame) (cur : Option Node)
    (nm : Bytes) (hlt : bytesLt n nm = false) (hne : n ≠ nm) :
    (mkCur ar total (RFrame.obj (.cons n v r) :: rest) cur).step (.field nm) =
      (mkCur ar total (RFrame.obj (.cons n v r) :: rest) none, ⟨false, none, none⟩) := by
  simp only [mkCur, Cursor.step, cframes, RFrame.nodes, RFrame.isObj, annotateF_cons, List.dropWhile_cons,
    nameOf_annotate, hlt, Bool.false_eq_true, if_false, hne]

theorem step_field_skip (ar : Bool) (total : Nat) (n : Bytes) (v : Value) (r : Fields) (rest : List RFrame) (cur cur' : Option Node)
    (nm : Bytes) (hlt : bytesLt n nm = true)
    (hle : (tailBytes (RFrame.obj (.cons n v r) :: rest)).length ≤ total) :
    (mkCur ar total (RFrame.obj (.cons n v r) :: rest) cur).step (.field nm) =
      (mkCur ar total (RFrame.obj r :: rest) cur').step (.field nm) := by
  have h1 := tailBytes_cons_length (RFrame.obj (.cons n v r)) rest
  have h2 := tailBytes_cons_length (RFrame.obj r) rest
  have h3 := encFields_cons_length n v r
  simp only [RFrame.enc] at h1 h2
  have hoff : total - (tailBytes (RFrame.obj (.cons n v r) :: rest)).length + hdrLen n.length + n.length + (encode v).length =
      total - (tailBytes (RFrame.obj r :: rest)).length := by omega
  simp only [mkCur, Cursor.step, cframes, RFrame.nodes, RFrame.isObj, annotateF_cons, List.dropWhile_cons,
    nameOf_annotate, hlt, if_true, hoff]

end Binson
