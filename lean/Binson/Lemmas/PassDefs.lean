/-
  Layer 3, part 1: vocabulary of the pass-through lemma - when the loop is strictly below the
  level the call started at and in a mode that keeps going, a whole encoded value is consumed.
-/
import Binson.Lemmas.Advance
import Binson.Lemmas.Views
namespace Binson

/-- scan modes in which the loop keeps going after a token below the originating level -/
def Cont (s : Option Scan) : Prop :=
  s = some .verify ∨ s = some .leaveObj ∨ s = some .value ∨ s = some .leaveArr

theorem Cont.has_objBegin {s : Option Scan} (h : Cont s) : has s [.verify, .enterObj, .value, .leaveArr, .leaveObj] = true := by
  rcases h with rfl | rfl | rfl | rfl <;> rfl
theorem Cont.has_arrBegin {s : Option Scan} (h : Cont s) : has s [.verify, .value, .enterArr, .leaveArr, .leaveObj] = true := by
  rcases h with rfl | rfl | rfl | rfl <;> rfl
theorem Cont.has_objEnd {s : Option Scan} (h : Cont s) : has s [.verify, .leaveObj, .value, .leaveArr] = true := by
  rcases h with rfl | rfl | rfl | rfl <;> rfl
theorem Cont.has_arrEnd {s : Option Scan} (h : Cont s) : has s [.verify, .value, .leaveArr, .leaveObj] = true := by
  rcases h with rfl | rfl | rfl | rfl <;> rfl
theorem Cont.clear_enterObj {s : Option Scan} (h : Cont s) : clear s .enterObj = s := by
  rcases h with rfl | rfl | rfl | rfl <;> rfl
theorem Cont.clear_enterArr {s : Option Scan} (h : Cont s) : clear s .enterArr = s := by
  rcases h with rfl | rfl | rfl | rfl <;> rfl

/-- the level a value sits in expects a value: after a field name in an object, or inside an array -/
def ValCtx (l : Level) : Prop :=
  (l.flags = .expValue ∧ l.ad = 0) ∨ ((l.flags = .arr1 ∨ l.flags = .arr2) ∧ 1 ≤ l.ad)

/-- the flags of the level after the value: a field is complete / the array state, reset to
    IN_ARRAY_1 when a nested array has been closed -/
def afterFlags (l : Level) (isArr : Bool) : Flags :=
  if l.flags = .expValue then .expField else if isArr then .arr1 else l.flags

def Value.isArr : Value → Bool
  | .arr _ => true
  | _ => false

/-- the loop state is below the originating level `(od, oa)`, error-free, in a continuing mode -/
structure Deep (st : LoopSt) (oa od : Nat) : Prop where
  shape : Shape st.p
  err : st.p.err = .none
  cont : Cont st.scan
  d1 : 1 ≤ st.p.depth
  deeper : od < st.p.depth ∨ (od = st.p.depth ∧ oa < (st.p.getLvl st.p.lvlIdx).ad)
  zeros : ∀ i, st.p.depth ≤ i → st.p.getLvl i = Level.zero
  rootArr : st.p.ptype = 2 → st.p.depth = 1 → 1 ≤ (st.p.getLvl st.p.lvlIdx).ad
  md255 : st.p.maxDepth ≤ 255

/-- `st'` is `st` after `len` more bytes have been consumed by iterations that did not touch the
    levels below index `k`, logging callbacks with views `views` -/
structure Moved (k : Nat) (st st' : LoopSt) (len : Nat) (views : List EvView) : Prop where
  shape : Shape st'.p
  err : st'.p.err = .none
  used : st'.p.used = st.p.used + len
  scan : st'.scan = st.scan
  frame : st.p.Frame st'.p
  lower : ∀ i, i < k → st'.p.getLvl i = st.p.getLvl i
  ev : ∃ new : List Event, st'.ev = new ++ st.ev ∧ new.reverse.map (view st.p.buf) = views

theorem Moved.trans {k : Nat} {a b c : LoopSt} {l1 l2 : Nat} {v1 v2 : List EvView}
    (h1 : Moved k a b l1 v1) (h2 : Moved k b c l2 v2) : Moved k a c (l1 + l2) (v1 ++ v2) := by
  refine ⟨h2.shape, h2.err, by rw [h2.used, h1.used]; omega, h2.scan.trans h1.scan, h1.frame.trans h2.frame, ?_, ?_⟩
  · intro i hlt; rw [h2.lower i hlt, h1.lower i hlt]
  · obtain ⟨n1, e1, w1⟩ := h1.ev
    obtain ⟨n2, e2, w2⟩ := h2.ev
    refine ⟨n2 ++ n1, by rw [e2, e1, List.append_assoc], ?_⟩
    rw [List.reverse_append, List.map_append, w1, ← h1.frame.2.1, w2]

theorem Moved.mono {k k' : Nat} {a b : LoopSt} {l : Nat} {v : List EvView} (h : Moved k a b l v) (hk : k' ≤ k) : Moved k' a b l v :=
  ⟨h.shape, h.err, h.used, h.scan, h.frame, fun i hi => h.lower i (Nat.lt_of_lt_of_le hi hk), h.ev⟩

/-- `st'` is `st` after exactly one value / element list / field list of the level `lvlIdx` has been consumed -/
structure Passed (st st' : LoopSt) (len : Nat) (views : List EvView) : Prop where
  moved : Moved st.p.lvlIdx st st' len views
  depth : st'.p.depth = st.p.depth
  zeros : ∀ i, st.p.depth ≤ i → st'.p.getLvl i = Level.zero

theorem Parser.lvlIdx_of_pos {p : Parser} (h : 1 ≤ p.depth) : p.lvlIdx = p.depth - 1 := by
  unfold Parser.lvlIdx; split <;> omega

/-- `_cmp_name` orders like `bytesLt` -/
theorem cmpBytes_neg_of_lt : ∀ (a b : Bytes), bytesLt a b = true → cmpBytes a b < 0
  | [], [], h => by simp [bytesLt] at h
  | [], _ :: _, _ => by simp [cmpBytes]
  | _ :: _, [], h => by simp [bytesLt] at h
  | x :: xs, y :: ys, h => by
    unfold bytesLt at h
    unfold cmpBytes
    by_cases h1 : x < y
    · simp [h1]
    · simp only [h1, if_false] at h ⊢
      by_cases h2 : y < x
      · simp [h2] at h
      · simp only [h2, if_false] at h
        have : ¬ x > y := h2
        simp only [this, if_false]
        exact cmpBytes_neg_of_lt xs ys h

end Binson
