/-
  Machine model, part 6: the C++ convenience class of src/binson.cpp, as programs over the
  parser and writer models. `std::map<std::string, BinsonValue>` is a `Fields` list kept
  sorted by `bytesLt` with replace-on-equal; exceptions are the `Except String` error.
  Crashes and reads of uninitialised objects are not expressible here (harness/drive_cpp.cpp).
-/
import Binson.Spec.Value
import Binson.Model.Api
import Binson.Model.Writer
import Binson.Model.Transcribe
namespace Binson

/-- `m_items[key] = v` -/
def mapPut : Fields → Bytes → Value → Fields
  | .nil, k, v => .cons k v .nil
  | .cons n x r, k, v =>
    if bytesLt k n then .cons k v (.cons n x r)
    else if bytesLt n k then .cons n x (mapPut r k v)
    else .cons n v r

mutual
/-- `Binson::seralizeItem` -/
def cppSerItem (w : Writer) : Value → Writer
  | .bool b => (w.step (.bool b)).1
  | .int i => (w.step (.int i)).1
  | .dbl bits => (w.step (.dbl bits.toNat)).1
  | .str s => (w.step (.str s)).1
  | .bytes s => (w.step (.bytes s)).1
  | .obj fs => ((cppSerItems ((w.step .objBegin).1) fs).step .objEnd).1
  | .arr xs => ((cppSerElems ((w.step .arrBegin).1) xs).step .arrEnd).1
/-- `Binson::seralizeItems`: name then value, in map order -/
def cppSerItems (w : Writer) : Fields → Writer
  | .nil => w
  | .cons n v r => cppSerItems (cppSerItem ((w.step (.str n)).1) v) r
def cppSerElems (w : Writer) : Elems → Writer
  | .nil => w
  | .cons v r => cppSerElems (cppSerItem w v) r
end

/-- `Binson::serialize(binson_writer*)` -/
def cppSerTo (w : Writer) (fs : Fields) : Writer := ((cppSerItems ((w.step .objBegin).1) fs).step .objEnd).1

/-- `Binson::serialize()`: first try 1000 bytes, on RANGE redo with a vector of the reported size -/
def cppSerialize (fs : Fields) : Bytes :=
  let w1 := cppSerTo (Writer.init (Array.replicate 1000 0) 1000).1 fs
  let w := if w1.err = .range then cppSerTo (Writer.init (Array.replicate w1.counter 0) w1.counter).1 fs else w1
  if w.err = .none then (w.mem.extract 0 w.counter).toList else []

def checkState (p : Parser) : Except String Unit :=
  if p.err ≠ .none then .error "Parse error" else .ok ()

mutual
/-- `Binson::deseralizeItem` -/
def cppDesItem : Nat → Parser → Except String (Value × Parser)
  | 0, _ => .error "out of fuel"
  | f+1, p =>
    let t := getType p
    if p.err ≠ .none then .error "Parse error" else
    match t with
    | .boolean => .ok (.bool (getBoolean p), p)
    | .integer => .ok (.int (getInteger p), p)
    | .double => .ok (.dbl (UInt64.ofNat (getDouble p)), p)
    | .string => (match getStringBbuf p with
        | some s => .ok (.str (p.slice s), p)
        | none => .error "Parse error, missing string")
    | .bytes => (match getBytesBbuf p with
        | some s => .ok (.bytes (p.slice s), p)
        | none => .error "Parse error, missing data")
    | .object =>
      let g := goIntoObject p
      if !g.2 then .error "Parse error" else
      match cppDesItems f g.1 .nil with
      | .error e => .error e
      | .ok (fs, p) =>
        let l := leaveObject p
        if !l.2 then .error "Parse error" else .ok (.obj fs, l.1)
    | .array =>
      let g := goIntoArray p
      if !g.2 then .error "Parse error" else
      match cppDesElems f g.1 with
      | .error e => .error e
      | .ok (xs, p) =>
        let l := leaveArray p
        if !l.2 then .error "Parse error" else .ok (.arr xs, l.1)
    | _ => .error "Unknown type"
/-- `Binson::deseralizeItems`: `while (next) { name; put(name, item) }`, then CheckParserState -/
def cppDesItems : Nat → Parser → Fields → Except String (Fields × Parser)
  | 0, _, _ => .error "out of fuel"
  | f+1, p, acc =>
    let n := next p
    if !n.2 then (if n.1.err ≠ .none then .error "Parse error" else .ok (acc, n.1)) else
    let g := getName n.1
    if g.1.err ≠ .none then .error "Parse error" else
    match g.2 with
    | none => .error "buf is null"
    | some s =>
      match cppDesItem f g.1 with
      | .error e => .error e
      | .ok (v, p) => cppDesItems f p (mapPut acc (g.1.slice s) v)
/-- the `while (binson_parser_next(p)) array.push_back(deseralizeItem(p))` loop -/
def cppDesElems : Nat → Parser → Except String (Elems × Parser)
  | 0, _ => .error "out of fuel"
  | f+1, p =>
    let n := next p
    if !n.2 then .ok (.nil, n.1) else
    match cppDesItem f n.1 with
    | .error e => .error e
    | .ok (v, p) =>
      match cppDesElems f p with
      | .error e => .error e
      | .ok (xs, p) => .ok (.cons v xs, p)
end

/-- `Binson::deserialize(binson_parser *p)` -/
def cppDeserializeP (p : Parser) : Except String Fields :=
  let r := reset p
  if !r.2 then .error "Parser reset error" else
  let g := goIntoObject r.1
  if !g.2 then .error "Parse error" else
  match cppDesItems (2 * r.1.size + 4) g.1 .nil with
  | .error e => .error e
  | .ok (fs, p) =>
    let l := leaveObject p
    if !l.2 then .error "Parse error" else .ok fs

/-- `Binson::deserialize(const uint8_t *data, size_t size)`: a depth-10 parser on the stack.
    `Binson::deserialize(const std::vector<uint8_t>&)` delegates to it. -/
def cppDeserialize (bytes : Array UInt8) : Except String Fields :=
  let r := init (garbageParser 10) bytes 1
  if !r.2 then .error "Parser init error" else cppDeserializeP r.1

end Binson

namespace Binson
mutual
/-- the tree a sequence of `put()` calls in the given order produces (nested objects likewise) -/
def putAll : Value → Value
  | .obj fs => .obj (putAllF fs .nil)
  | .arr xs => .arr (putAllE xs)
  | v => v
def putAllF : Fields → Fields → Fields
  | .nil, acc => acc
  | .cons n v r, acc => putAllF r (mapPut acc n (putAll v))
def putAllE : Elems → Elems
  | .nil => .nil
  | .cons v r => .cons (putAll v) (putAllE r)
end
end Binson
