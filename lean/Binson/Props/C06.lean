/-
  C06 — cursor navigation (next / enter / skip / leave / get_raw / lookups) matches the document
  structure.

  `c06_navigation_refines`: on EVERY valid document (object- or array-rooted, any max_depth ≤ 255,
  from whatever the parser object held before init) and for EVERY protocol-following call sequence
  of ANY length, each call's observable result equals that of the reference cursor over the decoded
  tree (Spec/Cursor.lean, which knows nothing of flags, scan modes or state entries):
    * the return value (a container that is not entered is skipped as one element; no element is
      lost, repeated or reordered — the cursor hands out the children of the decoded tree in order);
    * leaving from any position lands just after the container (the cursor's frame is popped);
    * get_depth = number of object frames (+1 for an array root): moves by exactly one per object
      entered or left;
    * no error is raised, no out-of-bounds access, no fuel exhaustion (ghost flags);
    * after every successful next / lookup all getters match the decoded item (`ItemMatches`).
  `NavOk` (Lemmas/NavDefs.lean) is that statement, by recursion on the call list; "protocol-
  following" is `Cursor.allowed`: enter only a container that next/lookup/init has just returned,
  leave only the kind of container one is in, look up only inside an object, get_raw on a current item.
  Proof: an agreement relation between machine state and cursor preserved by every allowed call
  (Lemmas/Nav*.lean, 3.9k lines), skipping by the mode-generic pass-through lemma.
-/
import Binson.Lemmas.Nav
import Binson.Lemmas.VerifySound
namespace Binson

theorem c06_navigation_refines (g : Parser) (ha : Alloc g) (hmd : g.maxDepth ≤ 255) (root : Root) (v : Value)
    (hwf : wfDoc root g.maxDepth v = true) (hsz : (encode v).length < 2 ^ 63) (ops : List COp) :
    NavOk (init g (encode v).toArray (rootNum root)).1 (Cursor.start root v) ops :=
  nav_refines g ha hmd root v hwf hsz ops

/-- the same for the bytes of any document verify accepts (by `verify_iff` they are `encode v`) -/
theorem c06_navigation_refines_bytes (g : Parser) (ha : Alloc g) (hmd : g.maxDepth ≤ 255) (buf : Array UInt8) (hsz : buf.size < 2 ^ 63)
    (root : Root) (hi : (init g buf (rootNum root)).2 = true) (hv : (verify (init g buf (rootNum root)).1).2.1 = true) (ops : List COp) :
    ∃ v, wfDoc root g.maxDepth v = true ∧ encode v = buf.toList ∧
      NavOk (init g buf (rootNum root)).1 (Cursor.start root v) ops := by
  obtain ⟨v, hwf, henc⟩ := (verify_iff g ha hmd buf hsz root).mp ⟨hi, hv⟩
  refine ⟨v, hwf, henc, ?_⟩
  have hb : buf = (encode v).toArray := by rw [henc]
  have hsz' : (encode v).length < 2 ^ 63 := by rw [henc]; simpa using hsz
  rw [hb]
  exact nav_refines g ha hmd root v hwf hsz' ops

/-- one step spelled out: what `NavOk` gives for the first call of a sequence -/
theorem c06_first_call (p : Parser) (c : Cursor) (op : COp) (ops : List COp) (h : NavOk p c (op :: ops)) (ha : c.allowed op = true) :
    (machNav p op).2.1 = (c.step op).2.ok ∧ (machNav p op).1.err = .none ∧
    getDepth (machNav p op).1 = (c.step op).1.depth ∧ NavOk (machNav p op).1 (c.step op).1 ops := by
  have := h ha
  exact ⟨this.1, this.2.2.1, this.2.2.2.2.2.1, this.2.2.2.2.2.2.2⟩

/-- non-vacuity: the defect history of the pinned tree, `[[{}],{},5]` with go_into_array, next,
    go_into_array, leave_array, next — every call is allowed by the protocol, and the last `next`
    must return the `{}` element (an object), not the integer -/
example :
    let v : Value := .arr (.cons (.arr (.cons (.obj .nil) .nil)) (.cons (.obj .nil) (.cons (.int 5) .nil)))
    let ops : List COp := [.enterArr, .next, .enterArr, .leaveArr]
    let c := ops.foldl (fun c op => (c.step op).1) (Cursor.start .array v)
    (ops.foldl (fun (acc : Bool × Cursor) op => (acc.1 && acc.2.allowed op, (acc.2.step op).1)) (true, Cursor.start .array v)).1 = true ∧
    c.allowed .next = true ∧ ((c.step .next).2.item.map (·.ty)) = some .object := by
  decide

end Binson
