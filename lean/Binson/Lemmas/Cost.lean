/-
  C16, the "linear work" sentence, in its tight form: work is bounded by the bytes a call
  ADVANCES OVER (not by the bytes that remain).  This file collects the statements; the proofs
  are in `CostIter`, `CostAdvance`, `CostCalls`, `CostValue`, `CostValueIter`, `CostField`,
  `CostRun`, `CostLookup`.

  "Tokens processed" = callbacks made = loop iterations that log an event (`AdvRes.ev`), counted
  per public call by the counted model `Model/Counted.lean` (`nextC`, `fieldC`, ...).

  1. `iter_used_mono`, `iter_overshoot_unreads_one`          (one loop iteration)
  2. `advance_cost_tight`, `advance_used_mono`               (one `_advance_parsing` call)
  3. `step_used_mono`, `next_tokens` ... `getRaw_tokens`, `field_tokens`, `step_cost`  (public calls)
  4. `traversal_linear`, `traversal_cost`, `traversal_cost_nofield`, `verify_linear`   (call sequences)
  5. `failed_lookup_rereads_one_name`, `advance_unreads_at_most_one_name`, `field_terminates`

  Discrepancies with the intended statements (all proved in the strongest true form):
  * `bytes_consumed` (`LoopSt.bc`) IS carried over from an earlier iteration for `{ } [ ]` tokens
    (`classify` returns `bc0`), but the un-read only happens for a field-name token, for which
    `_process_one` has just set it to the length of THIS token
    (`iter_overshoot_unreads_one`: `c.p.used = st.p.used + c.bc`).
  * "each `_advance_parsing` call of the `field` loop that continues has advanced ≥ 1 byte" is
    FALSE: on a `{`/`[` element of an array a VALUE-mode call returns `true` having advanced 0
    bytes (IN_ARRAY_1 → IN_ARRAY_2 toggle, 1 token).  True and proved:
    `cursor + [IN_ARRAY_2]` strictly increases (`cost_advance_value_progress`), hence
    `field`: tokens ≤ 2·bytes + 2 (`field_tokens`).  `tokens ≤ bytes + c` is false for `field`
    for every constant `c` (3 tokens per 2 bytes on `[{}{}…]`, checked below), so the traversal
    bound with `field` calls has the factor 2 as well.
  * The model runs the `field` loop on fuel `size + 2` and returns `false` SILENTLY if the fuel
    runs out (no `oof` ghost there); `field_terminates` proves that never happens.
-/
import Binson.Lemmas.CostLookup
import Binson.Model.Transcribe
namespace Binson

/-! ### 3. per-call bounds, spelled out (`tokens + cursor before ≤ cursor after + c`) -/

theorem next_tokens (p : Parser) (h : Shape p) : (nextC p).2.2 + p.used ≤ (nextC p).1.used + 1 := (next_cost p h).cost
theorem nextEnsure_tokens (p : Parser) (t : Ty) (h : Shape p) :
    (nextEnsureC p t).2.2 + p.used ≤ (nextEnsureC p t).1.used + 1 := (nextEnsure_cost p t h).cost
theorem goIntoObject_tokens (p : Parser) (h : Shape p) :
    (goIntoObjectC p).2.2 + p.used ≤ (goIntoObjectC p).1.used + 1 := (goIntoObject_cost p h).cost
theorem goIntoArray_tokens (p : Parser) (h : Shape p) :
    (goIntoArrayC p).2.2 + p.used ≤ (goIntoArrayC p).1.used + 1 := (goIntoArray_cost p h).cost
theorem leaveObject_tokens (p : Parser) (h : Shape p) :
    (leaveObjectC p).2.2 + p.used ≤ (leaveObjectC p).1.used + 1 := (leaveObject_cost p h).cost
theorem leaveArray_tokens (p : Parser) (h : Shape p) :
    (leaveArrayC p).2.2 + p.used ≤ (leaveArrayC p).1.used + 1 := (leaveArray_cost p h).cost
theorem getRaw_tokens (p : Parser) (h : Shape p) :
    (getRawC p).2.2.2 + p.used ≤ (getRawC p).1.used + 2 := (getRaw_cost p h).cost
/-- `field`: tokens ≤ 2·(bytes advanced over) + 2 -/
theorem field_tokens (p : Parser) (nm : List UInt8) (h : Shape p) :
    (fieldC p nm).2.2 + 2 * p.used ≤ 2 * (fieldC p nm).1.used + 2 := (field_cost p nm h).2.2.2
theorem fieldEnsure_tokens (p : Parser) (nm : List UInt8) (t : Ty) (h : Shape p) :
    (fieldEnsureC p nm t).2.2 + 2 * p.used ≤ 2 * (fieldEnsureC p nm t).1.used + 2 := (fieldEnsure_cost p nm t h).2.2.2

/-- the same with the subtraction of the property sentence: tokens ≤ bytes advanced over + 1 -/
theorem next_tokens' (p : Parser) (h : Shape p) : (nextC p).2.2 ≤ ((nextC p).1.used - p.used) + 1 := by
  have := next_tokens p h; have := (next_cost p h).mono; omega
theorem field_tokens' (p : Parser) (nm : List UInt8) (h : Shape p) :
    (fieldC p nm).2.2 ≤ 2 * ((fieldC p nm).1.used - p.used) + 2 := by
  have := field_tokens p nm h; have := (field_cost p nm h).2.2.1; omega

/-- every navigation call with valid arguments, from any allocated object after any accepted or
    rejected init: the cursor does not move backwards (`Op.Valid` only constrains `init`) -/
theorem step_used_mono_valid (p : Parser) (op : Op) (h : Shape p) (_hv : op.Valid) (hn : op.IsNav) :
    p.used ≤ (step p op).1.used := step_used_mono p op h hn

/-! ### sanity checks on concrete documents (evaluated, not part of any proof) -/

section Checks
private def mk (b : Array UInt8) (t : Nat) : Parser := (init (garbageParser 8) b t).1
private def docA : Array UInt8 := #[0x42, 0x40,0x41, 0x40,0x41, 0x40,0x41, 0x40,0x41, 0x43]   -- [{}{}{}{}]
private def docE : Array UInt8 := #[0x40, 0x14,1,0x61,0x44, 0x14,1,0x63,0x44, 0x41]          -- {a:true, c:true}

-- `next` on a `{` element of an array: returns true, 1 token, 0 bytes advanced
#guard let p := (goIntoArray (mk docA 2)).1; let r := nextC p; (r.2.1, r.2.2, r.1.used - p.used) = (true, 1, 0)
-- `field "x"` from inside `[{}{}{}{}]`: 12 tokens over 8 bytes (3 per 2): `tokens ≤ bytes + c` fails
#guard let p := (goIntoArray (mk docA 2)).1; let r := fieldC p [0x78]; (r.2.1, r.2.2, r.1.used - p.used) = (false, 12, 8)
-- lookup of "b" in {a,c}: overshoots "c", un-reads exactly that name (3 bytes): cursor 5 = start of the name "c"
#guard let p := (goIntoObject (mk docE 1)).1; let r := fieldC p [0x62]; (r.2.1, r.2.2, r.1.used, r.1.err) = (false, 2, 5, Err.none)
-- ... and the next lookup re-reads exactly that name
#guard let p := (goIntoObject (mk docE 1)).1; let q := (fieldC p [0x62]).1; let r := fieldC q [0x63]; (r.2.1, r.2.2, r.1.used) = (true, 2, 9)
-- verify: 6 tokens for 10 bytes
#guard (verify (mk docE 1)).2.2.length = 6
end Checks

end Binson
