#!/usr/bin/env python3
"""Writes /verif/MANIFEST.json from the table below (kept in one place so that levels and notes
stay in step with what the Lean tree actually proves)."""
import json, os, re, sys
ROOT = os.path.dirname(os.path.dirname(os.path.abspath(__file__)))
sys.path.insert(0, os.path.join(ROOT, 'tools'))

NOTE = ('Trusted: Lean 4 kernel (axioms propext/Classical.choice/Quot.sound only, audited with #print axioms on every run; no sorry/native_decide/bv_decide); '
        'tools/gen_consts.py; the hand-written model, tied to the C code by Bridge obligations over constants, mask lists and the control skeleton regenerated from /repo, '
        'and by a differential run (ASan+UBSan build of /repo/src vs the model, every call compared) whose reach is bounded by its generators.')

def theorems(pid):
    p = os.path.join(ROOT, 'lean', 'Binson', 'Props', pid + '.lean')
    if not os.path.exists(p): return []
    src = re.sub(r'/-.*?-/', '', open(p).read(), flags=re.S); src = re.sub(r'--.*', '', src)
    return re.findall(r"^\s*theorem\s+([A-Za-z_][\w\.']*)", src, re.M)

# per property: (what the theorems say, what is NOT covered by them)  -- edited by hand as proofs land
TEXT = json.load(open(os.path.join(ROOT, 'tools', 'levels.json')))

def main():
    checks = []; na = []
    for pid in ['C%02d' % i for i in range(1, 19)]:
        t = TEXT.get(pid)
        if t is None or t.get('not_applicable'):
            na.append({'property_id': pid, 'reason': (t or {}).get('reason', 'no check built yet')}); continue
        ths = theorems(pid)
        cat = t['category']
        if cat == 'proof' and not ths: cat = 'exploration'
        text = t['text']
        if ths: text += ' Property theorems checked on every run: ' + ', '.join(ths) + '.'
        checks.append({'property_id': pid, 'quick_cmd': './check %s quick' % pid, 'thorough_cmd': './check %s thorough' % pid,
                       'evidence_file': '/verif/evidence/%s.json' % pid, 'replay_cmd_template': './check replay {path}', 'engine': t.get('engine', 'lean-model'),
                       'level_claimed': {'category': cat, 'text': text, 'design_ref': 'DESIGN.md section 4, ' + pid},
                       'level_note': t.get('note', NOTE), 'technique': t['technique']})
    m = {'version': 1, 'setup_cmd': './check setup',
         'hooks': {'guard': 'BINSON_VERIF', 'enable': 'the harness compiles /repo/src/*.c with -DBINSON_VERIF (no hook is needed so far; the macro is reserved and /repo contains no guarded code)',
                   'baseline_off_cmd': 'tools/baseline.sh', 'source_commits': [], 'add_only': True},
         'engines': [{'name': 'lean-model', 'path': 'lean/', 'serves_properties': [c['property_id'] for c in checks],
                      'kind_free_text': 'Lean 4 library (spec, machine model, proofs), compiled model driver with spec oracles (lean/Driver.lean), C/C++ harness (harness/), translators (tools/gen_consts.py, tools/c17.py), orchestration (./check)'}],
         'checks': checks,
         'notes': 'See DESIGN.md. Genuine defects found and repaired are listed in known_findings.txt as fixed: lines; corpus/ holds their minimised replays, which run first in every check.',
         'not_applicable': na}
    json.dump(m, open(os.path.join(ROOT, 'MANIFEST.json'), 'w'), indent=1)
    print('MANIFEST.json:', len(checks), 'checks,', len(na), 'not applicable')
main()
