/-
  Layer 4, part 1: the STATEMENT of the navigation refinement (C03/C06/C07/C11).
  The machine (`Model/Api.lean`) and the reference cursor (`Spec/Cursor.lean`) are run side by
  side on a protocol-following call sequence; `NavOk` says every observable of every call agrees.
  Nothing here is proved; the proof is `Lemmas/Nav*.lean`, the property theorems are in `Props/`.
-/
import Binson.Model.Api
import Binson.Spec.Cursor
namespace Binson

/-- the public call a cursor operation stands for; third component: the span `get_raw` reports on success -/
def machNav (p : Parser) : COp → Parser × Bool × Option Span
  | .next => let r := next p; (r.1, r.2, none)
  | .enterObj => let r := goIntoObject p; (r.1, r.2, none)
  | .enterArr => let r := goIntoArray p; (r.1, r.2, none)
  | .leaveObj => let r := leaveObject p; (r.1, r.2, none)
  | .leaveArr => let r := leaveArray p; (r.1, r.2, none)
  | .raw => let r := getRaw p; (r.1, r.2.1, if r.2.1 then some r.2.2 else none)
  | .field nm => let r := field p nm; (r.1, r.2, none)

/-- every getter of the machine answers what the decoded item says: the type tag, the name as the
    exact sub-span holding it, the value (payloads as exact sub-spans), and the NEUTRAL result from
    the getters of all other types (C03). -/
structure ItemMatches (p : Parser) (it : Item) : Prop where
  ty : getType p = it.ty
  name : ∀ nm s, it.name = some (nm, s) → getName p = (p, some s) ∧ p.slice s = nm ∧ s.off + s.len ≤ p.size
  int : getInteger p = (match it.val with | .int v => v | _ => 0)
  bool : getBoolean p = (match it.val with | .bool b => b | _ => false)
  dbl : getDouble p = (match it.val with | .dbl d => d | _ => 0)
  str : getStringBbuf p = (match it.ty, it.val with | .string, .span s => some s | _, _ => none)
  bytes : getBytesBbuf p = (match it.ty, it.val with | .bytes, .span s => some s | _, _ => none)
  payload : ∀ s, it.val = .span s → p.slice s = it.payload ∧ s.off + s.len ≤ p.size
  streq : ∀ s, stringEquals p s = decide (it.ty = .string ∧ it.payload = s)

/-- the machine `p` and the cursor `c` agree on every call of `ops`, as long as the caller follows the
    protocol (`Cursor.allowed`); after each call: same return value, same raw span, no error raised,
    `get_depth` as the cursor says, and after a successful `next`/lookup the getters match the item. -/
def NavOk (p : Parser) (c : Cursor) : List COp → Prop
  | [] => True
  | op :: ops =>
    c.allowed op = true →
      (machNav p op).2.1 = (c.step op).2.ok ∧
      (machNav p op).2.2 = (if (c.step op).2.ok then (c.step op).2.raw else none) ∧
      (machNav p op).1.err = .none ∧
      (machNav p op).1.fault = false ∧ (machNav p op).1.oof = false ∧
      getDepth (machNav p op).1 = (c.step op).1.depth ∧
      (∀ it, (c.step op).2.item = some it → ItemMatches (machNav p op).1 it) ∧
      NavOk (machNav p op).1 (c.step op).1 ops

end Binson
