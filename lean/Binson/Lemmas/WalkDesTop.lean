/-
  Traversal programs, part 3: `Binson::deserialize` on valid documents (C15 deserialize half, C03
  full traversal): from a fresh parser, from ANY shaped parser over the same bytes (history
  freedom: overload 3 on a parser that has been used before), from the depth-10 stack parser of
  overloads 1/2; the round trips with `serialize()`.
-/
import Binson.Lemmas.WalkDes
import Binson.Lemmas.Latch
import Binson.Lemmas.CppSer
import Binson.Lemmas.VerifySound
namespace Binson

/-- `Binson::deserialize(binson_parser*)` after its `reset` has produced a fresh parser over the
    encoding of a well-formed object document -/
theorem walk_des_fresh (W : Parser) (fs : Fields) (md : Nat) (hF : Fresh W (encode (.obj fs)).toArray 1 md) (hmd : md ≤ 255)
    (hwf : wfDoc .object md (.obj fs) = true) :
    ∃ p' fuel, fuel = 2 * W.size + 4 ∧ (goIntoObject W).2 = true ∧
      cppDesItems fuel (goIntoObject W).1 .nil = .ok (fs, p') ∧ (leaveObject p').2 = true := by
  have hwv : wfFields none fs = true := by
    unfold wfDoc at hwf; simp only [Bool.and_eq_true] at hwf; simpa [wfValue] using hwf.1.1
  have hm : W.maxDepth = md := hF.maxDepth
  have hA : Agree W (Cursor.start .object (.obj fs)) :=
    Agree.start .object (.obj fs) rfl (by rw [hm]; exact hF) (by rw [hm]; exact hmd) (by rw [hm]; exact hwf)
  obtain ⟨a1, a2, a3⟩ := walk_cur_start_obj fs
  obtain ⟨g1, _, _, g4⟩ := walk_call hA .enterObj a1
  rw [walk_machNav_enterObj] at g1 g4
  simp only at g1 g4
  rw [a3] at g1
  have hsize : W.size = (encode (.obj fs)).length := by rw [← hF.shape.hbs, hF.buf]; simp
  have hfu : tokensF fs + 1 ≤ 2 * W.size + 4 := by
    have := tokensF_le fs
    rw [hsize]; simp only [encode, List.length_cons, List.length_append, List.length_nil]; omega
  obtain ⟨p2, c2, d1, d2, d3⟩ := walk_desItems fs _ (goIntoObject W).1 _ .nil true [] 1 none hfu g4 a2 hwv
    (by simpa [walkAppF] using ascF_of_wfFields none fs hwv)
  obtain ⟨b1, _, b3⟩ := walk_cur_leaveObj d3
  obtain ⟨l1, _, _, _⟩ := walk_call d2 .leaveObj b1
  rw [walk_machNav_leaveObj] at l1
  simp only at l1
  rw [b3] at l1
  exact ⟨p2, _, rfl, g1, by simpa [walkAppF] using d1, l1⟩

theorem walk_enc_obj_bounds (fs : Fields) :
    2 ≤ (encode (.obj fs)).toArray.size ∧ (encode (.obj fs)).toArray.getD 0 0 = 0x40 ∧
    (encode (.obj fs)).toArray.getD ((encode (.obj fs)).toArray.size - 1) 0 = 0x41 := by
  refine ⟨by simp [encode], ?_, ?_⟩
  · simp only [encode]; exact toArray_getD_head _ _ _
  · simp only [encode, List.size_toArray]; exact toArray_getD_last _ _ _ _

/-- **History freedom on valid documents (overload 3).** `Binson::deserialize(binson_parser*)` on ANY
    shaped parser object over the encoding of a well-formed object document - in the middle of a
    traversal, with its error flag set, whatever its state entries hold - returns exactly the tree
    the bytes encode. (`Shape` carries `p.buf.size = p.size < 2^63`.) -/
theorem cppDesP_history_free (p : Parser) (hs : Shape p) (fs : Fields) (md : Nat)
    (hbuf : p.buf = (encode (.obj fs)).toArray) (hpt : p.ptype = 1) (hmd : p.maxDepth = md) (hmd255 : md ≤ 255)
    (hwf : wfDoc .object md (.obj fs) = true) :
    cppDeserializeP p = .ok fs := by
  obtain ⟨h2, hb0, hbl⟩ := walk_enc_obj_bounds fs
  obtain ⟨r1, hF⟩ := reset_to_fresh hs hbuf hpt hmd 0x40 0x41 (Or.inl ⟨rfl, rfl, rfl⟩) h2 hb0 hbl
  obtain ⟨p', fuel, e0, e1, e2, e3⟩ := walk_des_fresh (reset p).1 fs md hF hmd255 hwf
  subst e0
  unfold cppDeserializeP
  simp only [r1, e1, e2, e3]
  simp

/-- the result depends on the parser object only through `reset` -/
theorem cppDesP_reset_only (p q : Parser) (h : reset p = reset q) : cppDeserializeP p = cppDeserializeP q := by
  unfold cppDeserializeP
  rw [h]

/-- **History freedom on arbitrary bytes.** Two shaped parser objects over the same buffer and
    configuration give the same result (value or exception), whatever their histories. -/
theorem cppDesP_frame_eq (p q : Parser) (hp : Shape p) (hq : Shape q) (fr : p.Frame q) (ht : p.ptype = 1 ∨ p.ptype = 2) :
    cppDeserializeP p = cppDeserializeP q := by
  obtain ⟨e1, e2⟩ := reset_frame_obsEq p q hp hq fr ht
  have hok := reset_ok_err p
  unfold cppDeserializeP
  generalize reset p = r1 at e1 e2 hok
  generalize reset q = r2 at e1 e2
  obtain ⟨p1, ok1⟩ := r1
  obtain ⟨q1, ok2⟩ := r2
  simp only at e1 e2 hok ⊢
  subst e1
  cases ok1
  · rfl
  · have : p1 = q1 := e2.eq_of_noerr (hok rfl)
    subst this
    rfl

theorem walk_garbage_alloc : Alloc (garbageParser 10) := ⟨rfl, by decide, rfl, rfl⟩

/-- **C15 / C03, deserialize half.** `Binson::deserialize(data, size)` (a depth-10 parser on the
    stack) on the encoding of a well-formed object document nested at most 10 deep returns EXACTLY
    the tree the bytes encode: every name, string and bytes payload, integer, double bit pattern,
    boolean and nested container, in order. -/
theorem cppDes_valid (fs : Fields) (hwf : wfDoc .object 10 (.obj fs) = true) (hsz : (encode (.obj fs)).length < 2 ^ 63) :
    cppDeserialize (encode (.obj fs)).toArray = .ok fs := by
  obtain ⟨hi, hF, _, _⟩ := verify_wellformed (garbageParser 10) walk_garbage_alloc (by decide) .object (.obj fs) hwf hsz
  have hP := cppDesP_history_free (init (garbageParser 10) (encode (.obj fs)).toArray 1).1 hF.shape fs 10 hF.buf hF.ptype
    hF.maxDepth (by decide) hwf
  unfold cppDeserialize
  have hi' : (init (garbageParser 10) (encode (.obj fs)).toArray 1).2 = true := hi
  simp only [hi', hP]
  simp

theorem walk_wfValue_of_wfDoc {root : Root} {md : Nat} {v : Value} (h : wfDoc root md v = true) : wfValue v = true := by
  unfold wfDoc at h; simp only [Bool.and_eq_true] at h; exact h.1.1

/-- round trip: `deserialize(serialize())` of a well-formed tree is the tree -/
theorem cppDes_cppSer (fs : Fields) (hwf : wfDoc .object 10 (.obj fs) = true) (hsz : (encode (.obj fs)).length < 2 ^ 63) :
    cppDeserialize (cppSerialize fs).toArray = .ok fs := by
  rw [cppSerialize_canonical fs (walk_wfValue_of_wfDoc hwf) (by omega)]
  exact cppDes_valid fs hwf hsz

/-- round trip for a tree built by `put()` calls in any order from admissible values nested at most
    10 objects deep: `deserialize(serialize())` gives back the map content -/
theorem cppDes_cppSer_putAll (ins : Fields) (hi : insOkF ins = true) (hd : fits 10 255 (.obj ins) = true)
    (hsz : (encode (.obj ins)).length < 2 ^ 63) :
    cppDeserialize (cppSerialize (putAllF ins .nil)).toArray = .ok (putAllF ins .nil) := by
  have h := encode_putAll_length (.obj ins)
  simp only [putAll] at h
  exact cppDes_cppSer _ (wfDoc_putAll 10 ins hi hd) (by omega)

/-- valid bytes: whatever verify accepts is deserialized, and serializing the result reproduces the
    bytes -/
theorem cppDes_of_verify (bytes : Array UInt8) (hsz : bytes.size < 2 ^ 63)
    (hi : (init (garbageParser 10) bytes 1).2 = true) (hv : (verify (init (garbageParser 10) bytes 1).1).2.1 = true) :
    ∃ fs, cppDeserialize bytes = .ok fs ∧ cppSerialize fs = bytes.toList ∧ wfDoc .object 10 (.obj fs) = true ∧
      encode (.obj fs) = bytes.toList := by
  obtain ⟨v, hwf, henc⟩ := (verify_iff (garbageParser 10) walk_garbage_alloc (by decide) bytes hsz .object).mp ⟨hi, hv⟩
  have hwf10 : wfDoc .object 10 v = true := hwf
  have hrk : rootKindOk .object v = true := by
    unfold wfDoc at hwf10; simp only [Bool.and_eq_true] at hwf10; exact hwf10.1.2
  cases v with
  | obj fs =>
    have hb : bytes = (encode (.obj fs)).toArray := by rw [henc]
    have hl : (encode (.obj fs)).length < 2 ^ 63 := by rw [henc]; simpa using hsz
    refine ⟨fs, ?_, ?_, hwf10, henc⟩
    · rw [hb]; exact cppDes_valid fs hwf10 hl
    · rw [cppSerialize_canonical fs (walk_wfValue_of_wfDoc hwf10) (by omega), henc]
  | _ => simp [rootKindOk] at hrk

/-- `cppDes_iff`, direction (⇐): deserialize returns normally whenever verify accepts -/
theorem cppDes_of_verify' (bytes : Array UInt8) (hsz : bytes.size < 2 ^ 63)
    (h : (init (garbageParser 10) bytes 1).2 = true ∧ (verify (init (garbageParser 10) bytes 1).1).2.1 = true) :
    ∃ fs, cppDeserialize bytes = .ok fs := by
  obtain ⟨fs, h1, _⟩ := cppDes_of_verify bytes hsz h.1 h.2
  exact ⟨fs, h1⟩

end Binson
